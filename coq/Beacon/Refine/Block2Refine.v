(* C01/C03 — the remaining zrnt block operations against the Spec: each Impl model of Beacon/Impl/Block2Ops.v returns
   `match Spec .. with Some s => Ok s | None => Err end` (same verdict, same post-state, no panic).

     process_randao_refines              phase0.ProcessRandaoReveal
     process_eth1_vote_refines           phase0.ProcessEth1Vote    (votes are compared by hash-tree-root: hypothesis that no
                                         vote of the period collides with the new vote's root; the converse direction
                                         value-equal => root-equal is a congruence and is proved)
     process_bls_change_refines          capella.ProcessBLSToExecutionChange
     process_proposer_slashing_refines   phase0.ProcessProposerSlashing
     validate_indexed_refines            phase0.ValidateIndexedAttestation
     merge_complete_refines, execution_enabled_refines, process_execution_payload_refines
                                         bellatrix/capella/deneb execution payload (root comparison for "merge complete") *)
From Coq Require Import String.
From Coq Require Import NArith ZArith Lia List Bool.
From Coq Require Import ZifyN ZifyNat ZifyBool.
From RecordUpdate Require Import RecordSet.
From V Require Import Base.U64 Base.Outcome Ssz.SszCore Beacon.Config Beacon.Schemas Beacon.State
  Beacon.Spec.Helpers Beacon.Spec.Epoch Beacon.Spec.Block Beacon.Impl.BlockOps Beacon.Impl.Block2Ops
  Beacon.Refine.BlockLemmas Beacon.Refine.BlockEpc Beacon.Refine.RejectRules Beacon.Refine.BlockProposer
  Beacon.Refine.BlockExitRefine Beacon.Refine.BlockSlashRefine.
Import ListNotations RecordSetNotations.
Local Open Scope list_scope.
Local Open Scope N_scope.

Lemma mod64_ok a b : 0 < b -> mod64 a b = Ok (a mod b).
Proof. intros H. unfold mod64. destruct (N.eqb_spec b 0); [lia|reflexivity]. Qed.
Lemma eth1_eqb_eq a b : eth1_eqb a b = true <-> a = b.
Proof.
  unfold eth1_eqb. rewrite !andb_true_iff, !bytes_eqb_eq, N.eqb_eq. destruct a, b; cbn.
  split; [intros [[-> ->] ->]; reflexivity|intros [= -> -> ->]; repeat split].
Qed.
Lemma map_vuint_VUint l : map vuint (map VUint l) = l.
Proof. induction l as [|x l IH]; cbn; [reflexivity|]. rewrite IH. reflexivity. Qed.
Lemma last_in {A} (l : list A) d : l <> [] -> In (last l d) l.
Proof.
  induction l as [|x l IH]; intros H; [contradiction|]. destruct l as [|y l]; [left; reflexivity|].
  right. apply IH. discriminate.
Qed.
Lemma all_some_none_in {A B} (g : A -> option B) l x : In x l -> g x = None -> all_some (map g l) = None.
Proof.
  induction l as [|y l IH]; intros Hin Hx; [destruct Hin|]. cbn [map all_some]. destruct Hin as [->|Hin].
  - rewrite Hx. reflexivity.
  - destruct (g y); [|reflexivity]. rewrite (IH Hin Hx). reflexivity.
Qed.
Lemma all_some_length' {A} (l : list (option A)) r : all_some l = Some r -> length r = length l.
Proof. apply all_some_length. Qed.

(* the fixed-size vectors of the state have their configured lengths (a property of every decoded state) *)
Record vec_lens (E : Env) (st : BeaconState) : Prop := mkVecLens {
  vl_mixes : N.of_nat (length (randao_mixes st)) = EPOCHS_PER_HISTORICAL_VECTOR (cfg E);
  vl_slashings : N.of_nat (length (slashings st)) = EPOCHS_PER_SLASHINGS_VECTOR (cfg E);
  vl_roots : N.of_nat (length (block_roots st)) = SLOTS_PER_HISTORICAL_ROOT (cfg E)
}.

Section Refine2.
  Variable E : Env.
  Variable f : fork.
  Let c := cfg E.

  (* ---------- randao ---------- *)
  Lemma randao_mix_lookup st e :
    0 < EPOCHS_PER_HISTORICAL_VECTOR c -> N.of_nat (length (randao_mixes st)) = EPOCHS_PER_HISTORICAL_VECTOR c ->
    nthN (randao_mixes st) (e mod EPOCHS_PER_HISTORICAL_VECTOR c) = Some (get_randao_mix E st e).
  Proof.
    intros Hp Hl. unfold get_randao_mix. fold c.
    assert (Hlt : e mod EPOCHS_PER_HISTORICAL_VECTOR c < N.of_nat (length (randao_mixes st))) by (rewrite Hl; apply N.mod_lt; lia).
    destruct (nthN_lt_Some _ _ Hlt) as [m Hm]. rewrite Hm. reflexivity.
  Qed.

  Theorem process_randao_refines st epc body :
    0 < SLOTS_PER_EPOCH c -> 0 < EPOCHS_PER_HISTORICAL_VECTOR c ->
    N.of_nat (length (randao_mixes st)) = EPOCHS_PER_HISTORICAL_VECTOR c ->
    be_proposer epc = get_beacon_proposer_index E st ->
    (forall i, be_pubkey_of epc i = option_map v_pubkey (nthN (validators st) i)) ->
    process_randao_impl E f epc st body = match process_randao E f st body with Some s => Ok s | None => Err end.
  Proof.
    intros Hspe Hv Hl Hp Hpk. unfold process_randao_impl, process_randao. cbv zeta. fold c. rewrite Hp.
    destruct (get_beacon_proposer_index E st) as [p|]; [|reflexivity]. cbn [of_opt bind]. rewrite Hpk.
    destruct (nthN (validators st) p) as [v|]; [|reflexivity]. cbn [option_map of_opt bind].
    rewrite div64_ok by exact Hspe. cbn [bind]. unfold get_current_epoch, compute_epoch_at_slot. fold c.
    destruct (bls_verify E _ _ _); cbn [check bind]; [|reflexivity].
    rewrite mod64_ok by exact Hv. cbn [bind]. rewrite (randao_mix_lookup st _ Hv Hl). reflexivity.
  Qed.

  (* ---------- eth1 vote ---------- *)
  (* value-equal votes have equal roots (congruence; no property of the hash) *)
  Lemma eth1_root_congr a b : eth1_eqb a b = true -> eth1_root E a = eth1_root E b.
  Proof. intros H. apply eth1_eqb_eq in H. subst. reflexivity. Qed.
  (* the direction that DOES need the hash: distinct votes of this period have distinct roots *)
  Definition votes_no_collision (votes : list Eth1Data) (d : Eth1Data) : Prop :=
    forall v, In v votes -> eth1_root E v = eth1_root E d -> v = d.
  Lemma votes_count_spec votes d :
    votes_no_collision votes d ->
    votes_count_impl E votes d = N.of_nat (length (filter (eth1_eqb d) votes)).
  Proof.
    intros H. unfold votes_count_impl. f_equal. f_equal. apply filter_ext_in. intros v Hv.
    destruct (eth1_eqb d v) eqn:He.
    - apply eth1_root_congr in He. apply bytes_eqb_eq. symmetry. exact He.
    - apply bytes_eqb_neq. intros Hr. apply (H v Hv) in Hr. subst v.
      assert (eth1_eqb d d = true) by (apply eth1_eqb_eq; reflexivity). congruence.
  Qed.

  Theorem process_eth1_vote_refines st body :
    let d := eth1_of_value (body_get E f body "eth1_data") in
    EPOCHS_PER_ETH1_VOTING_PERIOD c * SLOTS_PER_EPOCH c < 2 ^ 62 ->
    N.of_nat (length (eth1_data_votes st)) < EPOCHS_PER_ETH1_VOTING_PERIOD c * SLOTS_PER_EPOCH c ->   (* room in the list *)
    votes_no_collision (eth1_data_votes st ++ [d]) d ->
    process_eth1_vote_impl E f st body = Ok (process_eth1_data E f st body).
  Proof.
    cbv zeta. intros Hper Hroom Hnc. unfold process_eth1_vote_impl, process_eth1_data. cbv zeta. fold c.
    set (d := eth1_of_value (body_get E f body "eth1_data")) in *.
    set (period := EPOCHS_PER_ETH1_VOTING_PERIOD c * SLOTS_PER_EPOCH c) in *.
    change (2 ^ 62) with 4611686018427387904 in Hper.
    rewrite mul64_small by (fold period; unfold two64; lia). fold period.
    assert (Hc : negb (period <=? N.of_nat (length (eth1_data_votes st))) = true) by (apply negb_true_iff, N.leb_gt; exact Hroom).
    rewrite Hc. cbn [check bind]. simpl_set.
    rewrite votes_count_spec by exact Hnc.
    set (cnt := N.of_nat (length (filter (eth1_eqb d) (eth1_data_votes st ++ [d])))).
    set (vc := N.of_nat (length (eth1_data_votes st))) in *.
    assert (Hcnt : cnt <= vc + 1).
    { unfold cnt, vc. assert (Hl : forall (p : Eth1Data -> bool) l, (length (filter p l) <= length l)%nat) by (intros p l; induction l as [|x l IHl]; cbn; [lia|destruct (p x); cbn; lia]). specialize (Hl (eth1_eqb d) (eth1_data_votes st ++ [d])).
      rewrite app_length in Hl. cbn [length] in Hl. lia. }
    rewrite add64_small by (unfold two64; lia).
    assert (Hs1 : shl64 (vc + 1) 1 = (vc + 1) * 2).
    { unfold shl64. rewrite N.shiftl_mul_pow2. apply wrap64_small. unfold two64. change (2 ^ 1) with 2. lia. }
    assert (Hs2 : shl64 cnt 1 = cnt * 2).
    { unfold shl64. rewrite N.shiftl_mul_pow2. apply wrap64_small. unfold two64. change (2 ^ 1) with 2. lia. }
    rewrite Hs1, Hs2.
    destruct (N.ltb_spec period ((vc + 1) * 2)) as [Hlt|Hge]; [destruct (period <? cnt * 2); reflexivity|].
    assert (Hf : (period <? cnt * 2) = false) by (apply N.ltb_ge; lia). rewrite Hf. reflexivity.
  Qed.

  (* ---------- BLS-to-execution change ---------- *)
  Lemma bls_prefix_check wc : bytes_eqb (firstn 1 wc) [BLS_WITHDRAWAL_PREFIX] = (nth 0 wc 1 =? BLS_WITHDRAWAL_PREFIX).
  Proof.
    destruct wc as [|x wc]; [reflexivity|]. cbn [firstn nth bytes_eqb]. rewrite andb_true_r. reflexivity.
  Qed.
  Theorem process_bls_change_refines st sc :
    process_bls_change_impl E st sc = match process_bls_to_execution_change E st sc with Some s => Ok s | None => Err end.
  Proof.
    unfold process_bls_change_impl, process_bls_to_execution_change. cbv zeta. fold c.
    destruct (N.leb_spec (N.of_nat (length (validators st))) (vuint (vfield (vfield sc 0) 0))) as [Hge|Hlt]; cbn [negb check bind].
    - apply nthN_None_ge in Hge. rewrite Hge. reflexivity.
    - destruct (nthN (validators st) (vuint (vfield (vfield sc 0) 0))) as [v|]; [|reflexivity]. cbn [of_opt bind].
      rewrite bls_prefix_check.
      destruct (nth 0 (v_withdrawal_credentials v) 1 =? BLS_WITHDRAWAL_PREFIX); cbn [check bind]; [|reflexivity].
      destruct (bytes_eqb _ _); cbn [check bind]; [|reflexivity].
      destruct (bls_verify E _ _ _); reflexivity.
  Qed.

  (* ---------- proposer slashing ---------- *)
  Theorem process_proposer_slashing_refines st epc ps :
    cfg_sane E -> epc_ok E st epc -> st_bounds E st ->
    N.of_nat (length (slashings st)) = EPOCHS_PER_SLASHINGS_VECTOR c ->
    process_proposer_slashing_impl E f epc st ps
    = match process_proposer_slashing E f st ps with Some s => Ok s | None => Err end.
  Proof.
    intros Hc Hepc Hb Hsl. unfold process_proposer_slashing_impl, process_proposer_slashing. cbv zeta. fold c.
    destruct (N.eqb_spec (vuint (vfield (vfield (vfield ps 0) 0) 0)) (vuint (vfield (vfield (vfield ps 1) 0) 0))) as [Hs|]; cbn [check bind]; [|reflexivity].
    destruct (vuint (vfield (vfield (vfield ps 0) 0) 1) =? vuint (vfield (vfield (vfield ps 1) 0) 1)); cbn [check bind]; [|reflexivity].
    destruct (negb (value_eqb _ _)); cbn [check bind]; [|reflexivity].
    destruct (N.ltb_spec (vuint (vfield (vfield (vfield ps 0) 0) 1)) (N.of_nat (length (validators st)))) as [Hlt|Hge]; cbn [check bind].
    2:{ apply nthN_None_ge in Hge. rewrite Hge. reflexivity. }
    rewrite (eo_epoch E st epc Hepc), (eo_pubkey_of E st epc Hepc).
    destruct (nthN (validators st) (vuint (vfield (vfield (vfield ps 0) 0) 1))) as [v|]; [|reflexivity]. cbn [of_opt bind option_map].
    destruct (is_slashable_validator v (get_current_epoch E st)); cbn [check bind]; [|reflexivity].
    rewrite div64_ok by (apply (cs_spe_pos E Hc)). cbn [bind]. unfold compute_epoch_at_slot. fold c. rewrite <- Hs.
    destruct (bls_verify E (v_pubkey v) _ (vbytes (vfield (vfield ps 0) 1))); cbn [check bind]; [|reflexivity].
    destruct (bls_verify E (v_pubkey v) _ (vbytes (vfield (vfield ps 1) 1))); cbn [check bind]; [|reflexivity].
    apply slash_validator_refines; try assumption. intros w Hw. discriminate.
  Qed.

  (* ---------- indexed attestation ---------- *)
  Theorem validate_indexed_refines st epc idx data sig :
    (forall i, be_pubkey_of epc i = option_map v_pubkey (nthN (validators st) i)) ->
    N.of_nat (length idx) <= MAX_VALIDATORS_PER_COMMITTEE c ->                   (* a decoded List[.., MAX_VALIDATORS_PER_COMMITTEE] *)
    validate_indexed_impl E epc st idx data sig
    = check (is_valid_indexed_attestation E st (VCont [VSeq (map VUint idx); data; VBytes sig])).
  Proof.
    intros Hpk Hmax. unfold validate_indexed_impl, is_valid_indexed_attestation. cbv zeta. fold c.
    change (vseq (vfield (VCont [VSeq (map VUint idx); data; VBytes sig]) 0)) with (map VUint idx).
    change (vfield (VCont [VSeq (map VUint idx); data; VBytes sig]) 1) with data.
    change (vbytes (vfield (VCont [VSeq (map VUint idx); data; VBytes sig]) 2)) with sig.
    rewrite map_vuint_VUint.
    apply N.leb_le in Hmax. rewrite Hmax. cbn [check bind].
    destruct (N.of_nat (length idx) =? 0) eqn:H0; cbn [negb orb check bind]; [reflexivity|].
    destruct (strictly_sorted idx); cbn [negb check bind]; [|reflexivity].
    assert (Hne : idx <> []) by (intros ->; cbn in H0; discriminate).
    rewrite (map_ext _ _ Hpk).
    destruct (N.ltb_spec (last idx 0) (N.of_nat (length (validators st)))) as [Hlt|Hge]; cbn [check bind].
    - destruct (all_some (map (fun i => option_map v_pubkey (nthN (validators st) i)) idx)) as [pks|] eqn:Hpks; cbn [of_opt bind]; [|reflexivity].
      unfold eth2_fast_aggregate_verify. destruct pks as [|pk pks]; [|reflexivity].
      apply all_some_length in Hpks. rewrite map_length in Hpks. destruct idx; [contradiction|discriminate].
    - rewrite (all_some_none_in _ idx (last idx 0) (last_in idx 0 Hne)); [reflexivity|].
      apply nthN_None_ge in Hge. rewrite Hge. reflexivity.
  Qed.

  (* ---------- execution payload ---------- *)
  (* "merge complete": the spec compares the header VALUE with the default header, zrnt compares their hash-tree-roots.
     value-equal => root-equal is a congruence.  root-equal => value-equal for these two values needs the hash; it is the
     explicit hypothesis `header_root_distinct` (only for the single pair (latest header, default header)). *)
  Definition header_root_distinct (st : BeaconState) : Prop :=
    latest_execution_payload_header st <> default_value (HeaderT E f) ->
    htr E (HeaderT E f) (latest_execution_payload_header st) <> htr E (HeaderT E f) (default_value (HeaderT E f)).
  Definition payload_root_distinct (body : value) : Prop :=
    body_get E f body "execution_payload" <> default_value (PayloadT E f) ->
    htr E (PayloadT E f) (body_get E f body "execution_payload") <> htr E (PayloadT E f) (default_value (PayloadT E f)).
  Lemma merge_complete_congr st :
    is_merge_transition_complete E f st = false -> merge_complete_impl E f st = false.
  Proof.
    unfold is_merge_transition_complete, merge_complete_impl. intros H. apply negb_false_iff, value_eqb_eq in H.
    rewrite H. rewrite bytes_eqb_refl. reflexivity.
  Qed.
  Lemma merge_complete_refines st : header_root_distinct st -> merge_complete_impl E f st = is_merge_transition_complete E f st.
  Proof.
    intros Hd. destruct (is_merge_transition_complete E f st) eqn:Hs; [|apply merge_complete_congr; exact Hs].
    unfold is_merge_transition_complete in Hs. apply negb_true_iff, value_eqb_neq in Hs.
    unfold merge_complete_impl. apply negb_true_iff, bytes_eqb_neq. apply Hd. exact Hs.
  Qed.
  Lemma execution_enabled_refines st body :
    header_root_distinct st -> payload_root_distinct body ->
    execution_enabled_impl E f st body = is_execution_enabled E f st body.
  Proof.
    intros Hh Hp. unfold execution_enabled_impl, is_execution_enabled, is_merge_transition_block.
    rewrite (merge_complete_refines st Hh).
    destruct (is_merge_transition_complete E f st); cbn [negb andb orb]; [reflexivity|]. rewrite orb_false_r.
    destruct (value_eqb (body_get E f body "execution_payload") (default_value (PayloadT E f))) eqn:Hv; cbn [negb].
    - apply value_eqb_eq in Hv. rewrite Hv, bytes_eqb_refl. reflexivity.
    - apply value_eqb_neq in Hv. apply negb_true_iff, bytes_eqb_neq. apply Hp. exact Hv.
  Qed.

  Lemma time_at_slot_ok s g :
    0 < SECONDS_PER_SLOT c -> SECONDS_PER_SLOT c <= 2 ^ 20 -> s < 2 ^ 40 -> g < 2 ^ 63 ->
    time_at_slot_impl E s g = Ok (g + s * SECONDS_PER_SLOT c).
  Proof.
    intros Hp Hh Hs Hg. unfold time_at_slot_impl. fold c. rewrite div64_ok by exact Hp. cbn [bind].
    change (2 ^ 20) with 1048576 in Hh. change (2 ^ 40) with 1099511627776 in Hs. change (2 ^ 63) with 9223372036854775808 in Hg.
    assert (Hprod : s * SECONDS_PER_SLOT c <= 1099511627776 * 1048576) by (apply N.mul_le_mono; lia).
    change (1099511627776 * 1048576) with 1152921504606846976 in Hprod.
    assert (Hq : ((max64 - g) / SECONDS_PER_SLOT c <? s) = false).
    { apply N.ltb_ge. apply N.div_le_lower_bound; [lia|]. unfold max64. rewrite N.mul_comm. lia. }
    rewrite Hq. rewrite mul64_small by (unfold two64; lia). rewrite add64_small by (unfold two64; lia). f_equal. lia.
  Qed.

  Theorem process_execution_payload_refines st body :
    0 < SLOTS_PER_EPOCH c -> 0 < EPOCHS_PER_HISTORICAL_VECTOR c ->
    N.of_nat (length (randao_mixes st)) = EPOCHS_PER_HISTORICAL_VECTOR c ->
    0 < SECONDS_PER_SLOT c -> SECONDS_PER_SLOT c <= 2 ^ 20 -> slot st < 2 ^ 40 -> genesis_time st < 2 ^ 63 ->
    header_root_distinct st ->
    process_execution_payload_impl E f st body
    = match process_execution_payload E f st body with Some s => Ok s | None => Err end.
  Proof.
    intros Hspe Hv Hl Hsp Hsh Hslot Hg Hd. unfold process_execution_payload_impl, process_execution_payload. cbv zeta. fold c.
    rewrite (merge_complete_refines st Hd).
    match goal with |- context [check ?g] => destruct g end; cbn [check bind]; [|reflexivity].
    rewrite div64_ok by exact Hspe. cbn [bind]. rewrite mod64_ok by exact Hv. cbn [bind].
    unfold get_current_epoch, compute_epoch_at_slot. fold c.
    rewrite (randao_mix_lookup st _ Hv Hl). cbn [of_opt bind].
    destruct (bytes_eqb _ (get_randao_mix E st _)); cbn [check bind]; [|reflexivity].
    rewrite (time_at_slot_ok _ _ Hsp Hsh Hslot Hg). cbn [bind].
    unfold compute_timestamp_at_slot, GENESIS_SLOT. fold c. rewrite N.sub_0_r.
    destruct (vuint _ =? _); cbn [check bind]; [|reflexivity].
    destruct (_ <=? _); cbn [check bind]; [|reflexivity].
    destruct (engine_accepts E _ _ _); reflexivity.
  Qed.
End Refine2.
