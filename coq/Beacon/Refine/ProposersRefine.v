(* C07: zrnt's proposer selection (proposers.go ComputeProposerIndex / ComputeProposers: 1000 x 32 double loop,
   candidate through PermuteIndex on the active list, random byte, effective-balance test) equals the specification's
   compute_proposer_index, exactly when the specification's loop finds a proposer within the first 32000 candidates
   (zrnt's cap); otherwise zrnt returns its error. *)
From Coq Require Import NArith ZArith List Lia Bool.
From Coq Require Import ZifyN ZifyNat ZifyBool.
From V Require Import Base.U64 Base.Outcome Ssz.SszCore Beacon.Config Beacon.State Beacon.Spec.Helpers
  Beacon.Proofs.CommitteePartition Beacon.Proofs.ShuffleBridge Beacon.Impl.Shuffling Beacon.Refine.ShufflingRefine.
From V Require Shuffle.ShuffleModel Shuffle.ShuffleArith Shuffle.ShuffleIndexProofs.
Import ListNotations.
Local Open Scope N_scope.
Ltac Zify.zify_post_hook ::= Z.div_mod_to_equations.

(* the spec loop only gets more defined with more fuel *)
Lemma proposer_loop_mono E st idx seed p : forall a b i,
  proposer_loop E a st idx seed i = Some p -> proposer_loop E (a + b) st idx seed i = Some p.
Proof.
  induction a as [|a IH]; intros b i Hl; [discriminate|].
  cbn [proposer_loop plus] in *.
  destruct (Helpers.compute_shuffled_index E _ _ seed); [|discriminate].
  destruct (nthN idx _); [|discriminate].
  destruct (_ <=? _); [exact Hl|]. apply IH. exact Hl.
Qed.

Section ProposerRefine.
  Variable E : Env.
  Let c := cfg E.
  Variable st : BeaconState.
  Let vals := validators st.
  Variable idx : list N.          (* the active validator indices *)
  Variable seed : bytes.          (* the per-slot proposer seed *)
  Let n := N.of_nat (length idx).

  Record proposer_params_ok : Prop := {
    pp_rounds : SHUFFLE_ROUND_COUNT c <= 255;
    pp_bytes : forall m, ShuffleArith.bytes_ok (Hash E m);
    pp_size : n <= ShuffleIndexProofs.spec_limit;
    pp_active : Forall (fun a => a < N.of_nat (length vals)) idx;      (* active indices are registry indices *)
    pp_max64 : MAX_EFFECTIVE_BALANCE c * 255 < two64;                  (* MAX_EFFECTIVE_BALANCE * randomByte fits *)
    pp_eb64 : Forall (fun v => v_effective_balance v * 255 < two64) vals  (* effectiveBalance * 0xff fits *)
  }.
  Hypothesis Hok : proposer_params_ok.
  Hypothesis Hn : 0 < n.

  (* candidate and acceptance test at the spec's running counter I *)
  Definition cand_at (I : N) : N := nth (N.to_nat (sigma E idx seed (I mod n))) idx 0.
  Definition accept_at (I : N) : bool :=
    MAX_EFFECTIVE_BALANCE c * nth (N.to_nat (I mod 32)) (Hash E (seed ++ uint_to_bytes 8 (I / 32))) 0
    <=? eff_bal st (cand_at I) * 255.

  Lemma sigma_lt I : sigma E idx seed (I mod n) < n.
  Proof. apply sigma_range_c06. apply N.mod_lt. lia. Qed.

  Lemma spec_step k I :
    proposer_loop E (S k) st idx seed I =
    if accept_at I then Some (cand_at I) else proposer_loop E k st idx seed (I + 1).
  Proof.
    cbn [proposer_loop]. fold n. unfold Helpers.compute_shuffled_index.
    replace (I mod n <? n) with true by (symmetry; apply N.ltb_lt; apply N.mod_lt; lia).
    fold c. change (shuffle_rounds E (N.to_nat (SHUFFLE_ROUND_COUNT c)) 0 (I mod n) n seed) with (sigma E idx seed (I mod n)).
    rewrite (nthN_nth idx _ 0) by (apply sigma_lt). reflexivity.
  Qed.

  Lemma impl_step k i j : j < 32 -> i < 1000 ->
    proposer_inner E (S k) vals idx seed (Hash E (seed ++ le8 i)) i j =
    if accept_at (32 * i + j) then Ok (Some (cand_at (32 * i + j)))
    else proposer_inner E k vals idx seed (Hash E (seed ++ le8 i)) i (j + 1).
  Proof.
    intros Hj Hi. destruct Hok as [pp_rounds0 pp_bytes0 pp_size0 pp_active0 pp_max0 pp_eb0]. cbn [proposer_inner]. fold c. fold n.
    (* absI = (i<<5 | j) % len(active) *)
    assert (Eabs : N.lor (shl64 i 5) j = 32 * i + j).
    { unfold shl64. rewrite N.shiftl_mul_pow2. change (2 ^ 5) with 32.
      rewrite wrap64_small by (unfold two64; lia).
      replace (i * 32) with (N.shiftl i 5) by (rewrite N.shiftl_mul_pow2; reflexivity).
      rewrite N.lor_comm. rewrite ShuffleArith.lor_shiftl_add by (change (2 ^ 5) with 32; exact Hj).
      change (2 ^ 5) with 32. lia. }
    rewrite Eabs. set (I := 32 * i + j).
    assert (Hw : ShuffleModel.wrap8 (SHUFFLE_ROUND_COUNT c) = SHUFFLE_ROUND_COUNT c)
      by (unfold ShuffleModel.wrap8; apply N.mod_small; lia).
    rewrite Hw.
    assert (Hperm : ShuffleModel.permute_index (Hash E) seed (SHUFFLE_ROUND_COUNT c) (I mod n) n
                    = Ok (sigma E idx seed (I mod n))).
    { apply (sigma_is_go_permute_index E idx seed (I mod n)); try assumption. apply N.mod_lt. lia. }
    rewrite Hperm.
    cbn [bind]. pose proof (sigma_lt I) as Hs.
    rewrite (nth_error_nth' idx 0) by (unfold n in *; lia). fold (cand_at I).
    assert (Hcand : cand_at I < N.of_nat (length vals)).
    { rewrite Forall_forall in pp_active0. apply pp_active0. unfold cand_at. apply nth_In. unfold n in *. lia. }
    unfold accept_at, eff_bal. fold vals.
    unfold nthN. replace (cand_at I <? N.of_nat (length vals)) with true by (symmetry; apply N.ltb_lt; exact Hcand).
    destruct (nth_error vals (N.to_nat (cand_at I))) as [v|] eqn:Ev; [|apply nth_error_None in Ev; lia].
    assert (Hv : v_effective_balance v * 255 < two64).
    { rewrite Forall_forall in pp_eb0. apply pp_eb0. eapply nth_error_In. exact Ev. }
    replace (I mod 32) with j by (subst I; lia). replace (I / 32) with i by (subst I; lia).
    change (uint_to_bytes 8 i) with (le8 i).
    set (rb := nth (N.to_nat j) (Hash E (seed ++ le8 i)) 0).
    assert (Hrb : rb < 256) by (apply (ShuffleArith.byte_at_lt _ (N.to_nat j)); apply pp_bytes0).
    unfold mul64. rewrite !wrap64_small by nia. reflexivity.
  Qed.

  (* the inner loop (32 candidates of block i) against the spec loop *)
  Lemma inner_refines i : i < 1000 -> forall k j extra, N.of_nat k + j = 32 ->
    match proposer_inner E k vals idx seed (Hash E (seed ++ le8 i)) i j with
    | Ok (Some p) => proposer_loop E (k + extra) st idx seed (32 * i + j) = Some p
    | Ok None => proposer_loop E (k + extra) st idx seed (32 * i + j) = proposer_loop E extra st idx seed (32 * (i + 1))
    | _ => False
    end.
  Proof.
    intros Hi. induction k as [|k IH]; intros j extra Hkj.
    - cbn [proposer_inner plus]. f_equal. lia.
    - rewrite impl_step by lia. cbn [plus]. rewrite spec_step.
      destruct (accept_at (32 * i + j)); [reflexivity|].
      replace (32 * i + j + 1) with (32 * i + (j + 1)) by lia. apply IH. lia.
  Qed.

  (* the outer loop (blocks i .. i+m-1) *)
  Lemma outer_refines : forall m i extra, i + N.of_nat m <= 1000 ->
    match proposer_outer E m vals idx seed i with
    | Ok p => proposer_loop E (32 * m + extra) st idx seed (32 * i) = Some p
    | Err => proposer_loop E (32 * m + extra) st idx seed (32 * i) = proposer_loop E extra st idx seed (32 * (i + N.of_nat m))
    | _ => False
    end.
  Proof.
    induction m as [|m IH]; intros i extra Him.
    - cbn [proposer_outer]. replace (32 * 0 + extra)%nat with extra by lia. f_equal. lia.
    - cbn [proposer_outer].
      pose proof (inner_refines i ltac:(lia) 32 0 (32 * m + extra)%nat ltac:(lia)) as Hin.
      replace (32 * i + 0) with (32 * i) in Hin by lia.
      replace (32 * S m + extra)%nat with (32 + (32 * m + extra))%nat by lia.
      destruct (proposer_inner E 32 vals idx seed (Hash E (seed ++ le8 i)) i 0) as [[p|]| | | |]; cbn [bind]; try contradiction.
      + exact Hin.
      + rewrite Hin. specialize (IH (i + 1) extra ltac:(lia)).
        destruct (proposer_outer E m vals idx seed (i + 1)); try contradiction.
        * exact IH.
        * rewrite IH. f_equal. lia.
  Qed.

  Definition CAP : nat := (32 * 1000)%nat.   (* zrnt examines at most 1000 * 32 candidates *)

  (* ===== ComputeProposerIndex = compute_proposer_index within the cap; otherwise the Go error ===== *)
  Theorem compute_proposer_index_refines :
    match proposer_loop E CAP st idx seed 0 with
    | Some p => compute_proposer_index_impl E vals idx seed = Ok p /\ compute_proposer_index E st idx seed = Some p
    | None => compute_proposer_index_impl E vals idx seed = Err
    end.
  Proof.
    unfold compute_proposer_index_impl. fold n.
    replace (n =? 0) with false by (symmetry; apply N.eqb_neq; lia).
    pose proof (outer_refines 1000 0 0%nat ltac:(lia)) as Hout.
    replace (32 * 1000 + 0)%nat with CAP in Hout by (unfold CAP; lia).
    replace (32 * 0) with 0 in Hout by lia.
    destruct (proposer_outer E 1000 vals idx seed 0) as [p| | | |]; try contradiction.
    - rewrite Hout. split; [reflexivity|].
      unfold compute_proposer_index. fold n.
      replace (negb (n =? 0)) with true by (symmetry; apply negb_true_iff; apply N.eqb_neq; lia).
      unfold PROPOSER_FUEL.
      replace (N.to_nat 40000) with (CAP + N.to_nat 8000)%nat by (unfold CAP; lia).
      apply proposer_loop_mono. exact Hout.
    - rewrite Hout. cbn [proposer_loop]. reflexivity.
  Qed.

  Corollary compute_proposer_index_within_cap p :
    proposer_loop E CAP st idx seed 0 = Some p ->
    compute_proposer_index_impl E vals idx seed = Ok p /\ compute_proposer_index E st idx seed = Some p.
  Proof. intros Hp. pose proof compute_proposer_index_refines as R. rewrite Hp in R. exact R. Qed.
End ProposerRefine.

(* no active validators: both refuse *)
Lemma compute_proposer_index_empty E st seed :
  compute_proposer_index_impl E (validators st) [] seed = Err /\ compute_proposer_index E st [] seed = None.
Proof. split; reflexivity. Qed.

(* every active index of a state is a registry index *)
Lemma active_indices_in_registry st epoch :
  Forall (fun a => a < N.of_nat (length (validators st))) (get_active_validator_indices st epoch).
Proof.
  apply Forall_forall. intros a Ha. unfold get_active_validator_indices in Ha.
  apply in_map_iff in Ha. destruct Ha as ([i v] & <- & Hin). apply filter_In in Hin. destruct Hin as [Hin _].
  apply in_combine_l in Hin. unfold indices in Hin. apply in_seqN in Hin. cbn [fst]. lia.
Qed.

Section ProposersEpoch.
  Variable E : Env.
  Let c := cfg E.

  (* ===== ComputeProposers (the proposer slice of an epoch) ===== *)
  Theorem compute_proposers_refines st idx epoch_seed start :
    proposer_params_ok E st idx -> 0 < N.of_nat (length idx) ->
    start + SLOTS_PER_EPOCH c <= two64 ->
    (forall i, i < SLOTS_PER_EPOCH c ->
       exists p, proposer_loop E (CAP) st idx (Hash E (epoch_seed ++ uint_to_bytes 8 (start + i))) 0 = Some p) ->
    exists ps, compute_proposers_impl E (validators st) idx epoch_seed start = Ok ps /\
      map Some ps = map (fun i => compute_proposer_index E st idx (Hash E (epoch_seed ++ uint_to_bytes 8 (start + i))))
                        (seqN 0 (N.to_nat (SLOTS_PER_EPOCH c))).
  Proof.
    intros Hok Hn Hstart Hcap. unfold compute_proposers_impl. fold c.
    replace (N.of_nat (length idx) =? 0) with false by (symmetry; apply N.eqb_neq; lia).
    set (g := fun i => match proposer_loop E CAP st idx (Hash E (epoch_seed ++ uint_to_bytes 8 (start + i))) 0 with
                       | Some p => p | None => 0 end).
    assert (Hg : forall i, In i (seqN 0 (N.to_nat (SLOTS_PER_EPOCH c))) ->
      compute_proposer_index_impl E (validators st) idx (Hash E (epoch_seed ++ le8 (add64 start i))) = Ok (g i) /\
      compute_proposer_index E st idx (Hash E (epoch_seed ++ uint_to_bytes 8 (start + i))) = Some (g i)).
    { intros i Hi. apply in_seqN in Hi. destruct (Hcap i ltac:(lia)) as [p Hp].
      assert (Ea : add64 start i = start + i) by (unfold add64; apply wrap64_small; lia).
      rewrite Ea. change (le8 (start + i)) with (uint_to_bytes 8 (start + i)).
      unfold g. rewrite Hp. apply (compute_proposer_index_within_cap E st idx _ Hok Hn p Hp). }
    exists (map g (seqN 0 (N.to_nat (SLOTS_PER_EPOCH c)))). split.
    - apply ShufflingRefine.ok_all_map. intros i Hi. apply (Hg i Hi).
    - rewrite map_map. apply map_ext_in. intros i Hi. symmetry. apply (Hg i Hi).
  Qed.
End ProposersEpoch.
