(* Refinement of the altair-family epoch accounting: attester data (stakes, eligible set), flag deltas, inactivity
   penalty deltas, inactivity score updates, and the application of the deltas.
   FINDING (sum-then-apply): zrnt sums the four delta sets and applies them once; the spec applies each set in turn
   with saturating subtraction.  They agree exactly when no intermediate application saturates (hypothesis
   NoMidSaturation); `altair_delta_order_refuted` exhibits a state where they differ. *)
From Coq Require Import NArith ZArith Lia List Bool.
From Coq Require Import ZifyN ZifyNat ZifyBool.
From RecordUpdate Require Import RecordSet.
From V Require Import Base.U64 Beacon.Config Beacon.State Beacon.Spec.Helpers Beacon.Spec.Epoch.
From V Require Import Beacon.Impl.Flat Beacon.Impl.AltairAttester Beacon.Refine.ListLemmas Beacon.Refine.FoldLemmas Beacon.Refine.AltairDomain.
Import ListNotations RecordSetNotations.
Local Open Scope N_scope.
Ltac Zify.zify_post_hook ::= Z.div_mod_to_equations.

Lemma add64_id a b : a + b < two64 -> add64 a b = a + b.
Proof. intros H. unfold add64. apply wrap64_small. exact H. Qed.
Lemma mul64_id a b : a * b < two64 -> mul64 a b = a * b.
Proof. intros H. unfold mul64. apply wrap64_small. exact H. Qed.
Lemma nthN_map {A B} (g : A -> B) (l : list A) i : nthN (map g l) i = option_map g (nthN l i).
Proof. rewrite !nthN_nth_error. apply nth_error_map. Qed.

Lemma nthN_In {A} (l : list A) i x : nthN l i = Some x -> In x l.
Proof. rewrite nthN_nth_error. apply nth_error_In. Qed.

Lemma flag_set_testbit pf k : flag_set pf (2 ^ k) = has_flag pf k.
Proof. unfold flag_set, has_flag. rewrite land_pow2_testbit. apply negb_involutive. Qed.

Ltac fin3 := rewrite ?N.add_0_l, ?N.add_0_r, ?N.add_assoc; reflexivity.

Section Altair.
  Variable E : Env.
  Notation c := (cfg E).
  Notation INC := (EFFECTIVE_BALANCE_INCREMENT c).

  (* what zrnt's epochs context must hold for this state (C08's subject), sizes of the per-validator lists, and the
     sums that must not wrap *)
  Record AltairHyps (st : BeaconState) (epc : EpcView) : Prop := mkAltairHyps {
    ah_ce : GENESIS_EPOCH < get_current_epoch E st;
    ah_prev_epoch : epc_prev_epoch epc = get_previous_epoch E st;
    ah_cur_epoch : epc_cur_epoch epc = get_current_epoch E st;
    ah_prev_active : epc_prev_active epc = get_active_validator_indices st (get_previous_epoch E st);
    ah_cur_active : epc_cur_active epc = get_active_validator_indices st (get_current_epoch E st);
    ah_total : epc_total_active_stake epc = get_total_active_balance E st;
    ah_sqrt : epc_total_active_stake_sqrt epc = integer_squareroot (get_total_active_balance E st);
    ah_pp_len : length (previous_epoch_participation st) = length (validators st);
    ah_cp_len : length (current_epoch_participation st) = length (validators st);
    ah_scores_len : length (inactivity_scores st) = length (validators st);
    ah_bal_len : length (balances st) = length (validators st);
    ah_inc : INC <> 0;
    ah_pe1 : get_previous_epoch E st + 1 < two64;
    ah_sum_prev : sumN (map (eff_bal st) (get_active_validator_indices st (get_previous_epoch E st))) < two64;
    ah_sum_cur : sumN (map (eff_bal st) (get_active_validator_indices st (get_current_epoch E st))) < two64 }.

  (* ---------- index sets ---------- *)
  Lemma active_indices_idxs st e :
    get_active_validator_indices st e = idxs (fun v => is_active_validator v e) 0 (validators st).
  Proof. unfold get_active_validator_indices, idxs. rewrite combine_indices_indexed. reflexivity. Qed.

  Definition spec_eligible (pe : N) (v : Validator) : bool :=
    is_active_validator v pe || (v_slashed v && (pe + 1 <? v_withdrawable_epoch v)).
  Lemma eligible_spec_idxs st :
    get_eligible_validator_indices E st = idxs (spec_eligible (get_previous_epoch E st)) 0 (validators st).
  Proof. unfold get_eligible_validator_indices, idxs. rewrite combine_indices_indexed. reflexivity. Qed.
  Lemma eligible_refines st :
    get_previous_epoch E st + 1 < two64 ->
    eligible_indices (get_previous_epoch E st) (flatten_validators (validators st)) = get_eligible_validator_indices E st.
  Proof.
    intros Hpe. rewrite eligible_spec_idxs. unfold eligible_indices, flatten_validators, indexed.
    fold (idxs (eligible_cond (get_previous_epoch E st)) 0 (map flatten (validators st))).
    rewrite idxs_map. apply idxs_ext. intros v _. unfold eligible_cond, spec_eligible.
    rewrite add64_id by exact Hpe. reflexivity.
  Qed.
  Lemma in_idxs_range {A} (p : A -> bool) (l : list A) i : In i (idxs p 0 l) -> i < N.of_nat (length l).
  Proof.
    intros H. apply idxs_in in H. destruct H as [_ [x [Hx _]]]. rewrite N.sub_0_r in Hx.
    assert (N.to_nat i < length l)%nat by (apply nth_error_Some; congruence). lia.
  Qed.

  (* ---------- looking a validator up in the snapshot ---------- *)
  Lemma flats_lookup st i : i < N.of_nat (length (validators st)) ->
    exists v, nthN (validators st) i = Some v /\ nthN (flatten_validators (validators st)) i = Some (flatten v) /\
              is_slashed st i = v_slashed v /\ eff_bal st i = v_effective_balance v.
  Proof.
    intros Hi. destruct (nthN_in_range (validators st) i Hi) as [v Hv]. exists v. split; [exact Hv|].
    unfold flatten_validators. rewrite nthN_map, Hv. split; [reflexivity|].
    unfold is_slashed, eff_bal. rewrite Hv. split; reflexivity.
  Qed.

  (* ---------- stakes ---------- *)
  (* the spec's selection predicate of get_unslashed_participating_indices *)
  Definition part_sel (st : BeaconState) (part : list N) (k : N) (i : N) : bool :=
    match nthN part i with Some fl => has_flag fl k | None => false end && negb (is_slashed st i).
  Definition sel_sum (st : BeaconState) (q : N -> bool) (l : list N) : N := sumN (map (eff_bal st) (filter q l)).
  Lemma sel_sum_cons st q i l : sel_sum st q (i :: l) = (if q i then eff_bal st i else 0) + sel_sum st q l.
  Proof. unfold sel_sum. cbn [filter]. destruct (q i); cbn [map]; [rewrite sumN_cons|]; lia. Qed.
  Lemma sel_sum_le st q l : sel_sum st q l <= sumN (map (eff_bal st) l).
  Proof. apply sumN_filter_le. Qed.

  Lemma stake_fold st : forall l s t h,
    (forall i, In i l -> i < N.of_nat (length (validators st))) ->
    length (previous_epoch_participation st) = length (validators st) ->
    s + sumN (map (eff_bal st) l) < two64 -> t + sumN (map (eff_bal st) l) < two64 -> h + sumN (map (eff_bal st) l) < two64 ->
    let pp := previous_epoch_participation st in
    fold_left (stake_step (flatten_validators (validators st)) pp) l (Some (s, t, h)) =
    Some (s + sel_sum st (part_sel st pp 0) l, t + sel_sum st (part_sel st pp 1) l, h + sel_sum st (part_sel st pp 2) l).
  Proof.
    induction l as [|i l IH]; intros s t h Hin Hlen Hs Ht Hh pp.
    - cbn [fold_left]. unfold sel_sum. cbn [filter map]. rewrite sumN_nil, !N.add_0_r. reflexivity.
    - cbn [fold_left]. unfold stake_step at 2. cbn [map] in Hs, Ht, Hh. rewrite sumN_cons in Hs, Ht, Hh.
      assert (Hi : i < N.of_nat (length (validators st))) by (apply Hin; left; reflexivity).
      destruct (flats_lookup st i Hi) as [v [Hv [Hfl [Hsl Heff]]]]. rewrite Hfl.
      destruct (nthN_in_range pp i ltac:(unfold pp; rewrite Hlen; exact Hi)) as [pf Hpf].
      rewrite !sel_sum_cons. unfold part_sel at 1 3 5. rewrite Hpf, Hsl. cbn [flatten fl_slashed fl_effective_balance].
      assert (Hin' : forall j, In j l -> j < N.of_nat (length (validators st))) by (intros j Hj; apply Hin; right; exact Hj).
      destruct (v_slashed v); cbn [negb].
      + rewrite !andb_false_r. rewrite IH by (try assumption; lia). subst pp. fin3.
      + rewrite !andb_true_r.
        change TIMELY_SOURCE_FLAG with (2 ^ 0). change TIMELY_TARGET_FLAG with (2 ^ 1). change TIMELY_HEAD_FLAG with (2 ^ 2).
        rewrite !flag_set_testbit, <- Heff.
        destruct (has_flag pf 0); [rewrite (add64_id s) by lia|];
        (destruct (has_flag pf 1); [rewrite (add64_id t) by lia|]);
        (destruct (has_flag pf 2); [rewrite (add64_id h) by lia|]);
        (rewrite IH by (try assumption; lia)); subst pp; fin3.
  Qed.

  Lemma cur_target_fold st : forall l a,
    (forall i, In i l -> i < N.of_nat (length (validators st))) ->
    length (current_epoch_participation st) = length (validators st) ->
    a + sumN (map (eff_bal st) l) < two64 ->
    let cp := current_epoch_participation st in
    fold_left (cur_target_step (flatten_validators (validators st)) cp) l (Some a) =
    Some (a + sel_sum st (part_sel st cp 1) l).
  Proof.
    induction l as [|i l IH]; intros a Hin Hlen Ha cp.
    - cbn [fold_left]. unfold sel_sum. cbn [filter map]. rewrite sumN_nil, N.add_0_r. reflexivity.
    - cbn [fold_left]. unfold cur_target_step at 2. cbn [map] in Ha. rewrite sumN_cons in Ha.
      assert (Hi : i < N.of_nat (length (validators st))) by (apply Hin; left; reflexivity).
      destruct (flats_lookup st i Hi) as [v [Hv [Hfl [Hsl Heff]]]]. rewrite Hfl.
      destruct (nthN_in_range cp i ltac:(unfold cp; rewrite Hlen; exact Hi)) as [pf Hpf].
      rewrite sel_sum_cons. unfold part_sel at 1. rewrite Hpf, Hsl. cbn [flatten fl_slashed fl_effective_balance].
      assert (Hin' : forall j, In j l -> j < N.of_nat (length (validators st))) by (intros j Hj; apply Hin; right; exact Hj).
      destruct (v_slashed v); cbn [negb].
      + rewrite andb_false_r. rewrite IH by (try assumption; lia). subst cp. fin3.
      + rewrite andb_true_r. change TIMELY_TARGET_FLAG with (2 ^ 1). rewrite flag_set_testbit, <- Heff.
        destruct (has_flag pf 1); [rewrite add64_id by lia|]; rewrite IH by (try assumption; lia); subst cp; fin3.
  Qed.

  (* the spec's participating balance of a flag in an epoch *)
  Lemma unslashed_participating_spec st k epoch :
    GENESIS_EPOCH < get_current_epoch E st ->
    epoch = get_previous_epoch E st \/ epoch = get_current_epoch E st ->
    get_unslashed_participating_indices E st k epoch =
    Some (filter (part_sel st (if epoch =? get_current_epoch E st then current_epoch_participation st
                               else previous_epoch_participation st) k)
                 (get_active_validator_indices st epoch)).
  Proof.
    intros Hce Hep. unfold get_unslashed_participating_indices.
    assert (Ha : (epoch =? get_previous_epoch E st) || (epoch =? get_current_epoch E st) = true).
    { destruct Hep as [->| ->]; rewrite N.eqb_refl; [reflexivity|apply orb_true_r]. }
    rewrite Ha. reflexivity.
  Qed.
  Lemma prev_ne_cur st : GENESIS_EPOCH < get_current_epoch E st -> (get_previous_epoch E st =? get_current_epoch E st) = false.
  Proof.
    intros H. unfold get_previous_epoch, GENESIS_EPOCH in *. destruct (N.eqb_spec (get_current_epoch E st) 0); [lia|].
    apply N.eqb_neq. lia.
  Qed.

  (* attester_data_refines: eligible set and the four stakes are the spec's *)
  Theorem attester_data_refines (st : BeaconState) (epc : EpcView) :
    AltairHyps st epc ->
    let pe := get_previous_epoch E st in
    let ce := get_current_epoch E st in
    exists ad,
      compute_epoch_attester_data c epc (flatten_validators (validators st)) st = Some ad /\
      ad_prev_epoch ad = pe /\ ad_cur_epoch ad = ce /\
      ad_flats ad = flatten_validators (validators st) /\
      ad_prev_part ad = previous_epoch_participation st /\
      ad_eligible ad = get_eligible_validator_indices E st /\
      (forall k, option_map (get_total_balance E st) (get_unslashed_participating_indices E st k pe) =
                 Some (match k with 0 => ad_prev_source_stake ad | 1 => ad_prev_target_stake ad | 2 => ad_prev_head_stake ad
                               | _ => N.max INC (sel_sum st (part_sel st (previous_epoch_participation st) k) (get_active_validator_indices st pe)) end)) /\
      option_map (get_total_balance E st) (get_unslashed_participating_indices E st TIMELY_TARGET_FLAG_INDEX ce) =
        Some (ad_cur_target_stake ad).
  Proof.
    intros [Hce Hpe Hcue Hpa Hca Htot Hsq Hppl Hcpl Hscl Hbl Hinc Hpe1 Hsp Hsc]. cbv zeta.
    unfold compute_epoch_attester_data, compute_epoch_attester_data_over. rewrite Hpa, Hca, Hpe, Hcue.
    assert (Hrange : forall e i, In i (get_active_validator_indices st e) -> i < N.of_nat (length (validators st))).
    { intros e i Hi. rewrite active_indices_idxs in Hi. eapply in_idxs_range. exact Hi. }
    rewrite (stake_fold st _ 0 0 0 (Hrange _) Hppl) by lia.
    rewrite (cur_target_fold st _ 0 (Hrange _) Hcpl) by lia.
    eexists. split; [reflexivity|]. cbn [ad_prev_epoch ad_cur_epoch ad_flats ad_prev_part ad_eligible ad_prev_source_stake
                                           ad_prev_target_stake ad_prev_head_stake ad_cur_target_stake].
    repeat split.
    - apply eligible_refines. exact Hpe1.
    - intros k. rewrite (unslashed_participating_spec st k _ Hce (or_introl eq_refl)). rewrite (prev_ne_cur st Hce).
      cbn [option_map]. f_equal. unfold get_total_balance, clip_inc.
      fold (sel_sum st (part_sel st (previous_epoch_participation st) k) (get_active_validator_indices st (get_previous_epoch E st))).
      rewrite !N.add_0_l.
      destruct k as [|[p|[p|p|]|]]; try reflexivity;
        match goal with |- N.max _ ?x = _ => destruct (N.ltb_spec x INC); lia end.
    - rewrite (unslashed_participating_spec st _ _ Hce (or_intror eq_refl)). rewrite N.eqb_refl. cbn [option_map]. f_equal.
      unfold get_total_balance, clip_inc. rewrite N.add_0_l. unfold TIMELY_TARGET_FLAG_INDEX.
      fold (sel_sum st (part_sel st (current_epoch_participation st) 1) (get_active_validator_indices st (get_current_epoch E st))).
      match goal with |- N.max _ ?x = _ => destruct (N.ltb_spec x INC); lia end.
  Qed.

  (* ================= flag deltas ================= *)
  (* an attester-data record that carries the spec's views (what attester_data_refines delivers) *)
  Definition ad_matches (st : BeaconState) (ad : EpochAttesterData) : Prop :=
    ad_prev_epoch ad = get_previous_epoch E st /\ ad_cur_epoch ad = get_current_epoch E st /\
    ad_flats ad = flatten_validators (validators st) /\
    ad_prev_part ad = previous_epoch_participation st /\
    ad_eligible ad = get_eligible_validator_indices E st.

  Lemma participating_fold st ad k : forall l a,
    ad_matches st ad ->
    (forall i, In i l -> i < N.of_nat (length (validators st))) ->
    length (previous_epoch_participation st) = length (validators st) ->
    a + sumN (map (eff_bal st) l) < two64 ->
    fold_left (participating_step ad (2 ^ k)) l (Some a) =
    Some (a + sel_sum st (part_sel st (previous_epoch_participation st) k) l).
  Proof.
    induction l as [|i l IH]; intros a Hm Hin Hlen Ha.
    - cbn [fold_left]. unfold sel_sum. cbn [filter map]. rewrite sumN_nil, N.add_0_r. reflexivity.
    - cbn [fold_left]. unfold participating_step at 2. cbn [map] in Ha. rewrite sumN_cons in Ha.
      destruct Hm as [Hm1 [Hm2 [Hm3 [Hm4 Hm5]]]]. rewrite Hm3, Hm4.
      assert (Hi : i < N.of_nat (length (validators st))) by (apply Hin; left; reflexivity).
      destruct (flats_lookup st i Hi) as [v [Hv [Hfl [Hsl Heff]]]]. rewrite Hfl.
      destruct (nthN_in_range (previous_epoch_participation st) i ltac:(rewrite Hlen; exact Hi)) as [pf Hpf].
      rewrite sel_sum_cons. unfold part_sel at 1. rewrite Hpf, Hsl. cbn [flatten fl_slashed fl_effective_balance].
      rewrite flag_set_testbit, <- Heff, (andb_comm (negb (v_slashed v))).
      assert (Hin' : forall j, In j l -> j < N.of_nat (length (validators st))) by (intros j Hj; apply Hin; right; exact Hj).
      assert (Hm : ad_matches st ad) by (repeat split; assumption).
      destruct (has_flag pf k && negb (v_slashed v)); [rewrite add64_id by lia|]; rewrite IH by (try assumption; lia); fin3.
  Qed.

  (* membership in the spec's unslashed-participating set, for an eligible validator *)
  Lemma mem_unslashed_eligible st k i v pf :
    nthN (validators st) i = Some v -> nthN (previous_epoch_participation st) i = Some pf ->
    spec_eligible (get_previous_epoch E st) v = true ->
    memN i (filter (part_sel st (previous_epoch_participation st) k) (get_active_validator_indices st (get_previous_epoch E st)))
    = negb (v_slashed v) && has_flag pf k.
  Proof.
    intros Hv Hpf Hel. rewrite memN_filter, active_indices_idxs, (memN_idxs _ _ i v Hv).
    unfold part_sel, is_slashed. rewrite Hpf, Hv. unfold spec_eligible in Hel.
    destruct (v_slashed v), (has_flag pf k), (is_active_validator v (get_previous_epoch E st)); cbn in *; try reflexivity; discriminate.
  Qed.

  Section Flag.
    Variable st : BeaconState.
    Variable k : N.                 (* flag index 0, 1, 2 *)
    Let pe := get_previous_epoch E st.
    Let pp := previous_epoch_participation st.
    Let unsl := filter (part_sel st pp k) (get_active_validator_indices st pe).
    Let total := get_total_active_balance E st.
    Let brpi := INC * BASE_REWARD_FACTOR c / integer_squareroot total.
    Let part_incr := get_total_balance E st unsl / INC.
    Let active_incr := total / INC.
    Let weight := flag_weight k.
    Let leak := is_in_inactivity_leak E st.
    Let base (i : N) : N := eff_bal st i / INC * brpi.

    Definition GR (i : N) : N -> N :=
      if memN i unsl && negb leak then (fun x => x + base i * weight * part_incr / (active_incr * WEIGHT_DENOMINATOR)) else (fun x => x).
    Definition GP (i : N) : N -> N :=
      if negb (memN i unsl) && negb (k =? TIMELY_HEAD_FLAG_INDEX) then (fun x => x + base i * weight / WEIGHT_DENOMINATOR) else (fun x => x).

    Lemma spec_flag_fold : forall L r p,
      fold_left (fun (rp : list N * list N) i =>
            let '(r, p) := rp in
            let base_reward := eff_bal st i / INC * brpi in
            if memN i unsl then
              if leak then (r, p)
              else (addN r i (base_reward * weight * part_incr / (active_incr * WEIGHT_DENOMINATOR)), p)
            else if k =? TIMELY_HEAD_FLAG_INDEX then (r, p)
            else (r, addN p i (base_reward * weight / WEIGHT_DENOMINATOR))) L (r, p) =
      (fold_left (fun r i => updN r i (GR i)) L r, fold_left (fun p i => updN p i (GP i)) L p).
    Proof.
      induction L as [|i L IH]; intros r p; [reflexivity|]. cbn [fold_left]. unfold GR at 2, GP at 2. fold (base i).
      destruct (memN i unsl); cbn [negb andb].
      - destruct leak; cbn [negb andb].
        + rewrite IH. rewrite !(updN_id (fun x => x)) by reflexivity. reflexivity.
        + rewrite IH. rewrite (updN_id (fun x : N => x) p) by reflexivity. reflexivity.
      - destruct (k =? TIMELY_HEAD_FLAG_INDEX); cbn [negb].
        + rewrite IH. rewrite !(updN_id (fun x => x)) by reflexivity. reflexivity.
        + rewrite IH. rewrite (updN_id (fun x : N => x) r) by reflexivity. reflexivity.
    Qed.

    Lemma spec_flag_deltas :
      GENESIS_EPOCH < get_current_epoch E st ->
      get_flag_index_deltas E st k =
      Some (fold_left (fun r i => updN r i (GR i)) (get_eligible_validator_indices E st) (zeros st),
            fold_left (fun p i => updN p i (GP i)) (get_eligible_validator_indices E st) (zeros st)).
    Proof.
      intros Hce. unfold get_flag_index_deltas.
      rewrite (unslashed_participating_spec st k _ Hce (or_introl eq_refl)), (prev_ne_cur st Hce).
      fold pe pp unsl total. unfold get_base_reward_per_increment. fold total brpi part_incr active_incr weight leak.
      f_equal. apply spec_flag_fold.
    Qed.

    (* hypotheses on the numbers of this flag's computation *)
    Record FlagBounds : Prop := mkFlagBounds {
      fb_brf : INC * BASE_REWARD_FACTOR c < two64;
      fb_den : active_incr * WEIGHT_DENOMINATOR < two64;
      fb_num : forall v, In v (validators st) ->
                 v_effective_balance v / INC * brpi * weight * part_incr < two64 }.

    Lemma weight_pos : k < 3 -> 1 <= weight.
    Proof.
      intros Hk. unfold weight. assert (Hc : k = 0 \/ k = 1 \/ k = 2) by lia.
      destruct Hc as [->|[->| ->]]; vm_compute; discriminate.
    Qed.

    Theorem flag_deltas_refines (epc : EpcView) (ad : EpochAttesterData) :
      AltairHyps st epc -> ad_matches st ad -> k < 3 -> FlagBounds ->
      compute_flag_deltas c epc ad (2 ^ k) weight leak =
      option_map (fun rp => mkDeltas (fst rp) (snd rp)) (get_flag_index_deltas E st k).
    Proof.
      intros [Hce Hpe Hcue Hpa Hca Htot Hsq Hppl Hcpl Hscl Hbl Hinc Hpe1 Hsp Hsc] Hm Hk [Hbrf Hden Hnum].
      rewrite (spec_flag_deltas Hce). cbn [option_map fst snd].
      unfold compute_flag_deltas. rewrite Hpa. fold pe.
      assert (Hrange : forall i, In i (get_active_validator_indices st pe) -> i < N.of_nat (length (validators st))).
      { intros i Hi. rewrite active_indices_idxs in Hi. eapply in_idxs_range. exact Hi. }
      rewrite (participating_fold st ad k _ 0 Hm Hrange Hppl) by (fold pe in Hsp; lia).
      destruct (N.eqb_spec INC 0) as [H0|_]; [contradiction|].
      rewrite Htot, Hsq. fold total.
      assert (Htot_inc : INC <= total) by (unfold total, get_total_active_balance, get_total_balance; lia).
      assert (Hsqrt_pos : integer_squareroot total <> 0).
      { unfold integer_squareroot. intros H0. pose proof (N.sqrt_spec' total) as [_ Hhi]. rewrite H0 in Hhi. lia. }
      destruct (N.eqb_spec (integer_squareroot total) 0) as [H0|_]; [contradiction|].
      rewrite (mul64_id INC) by exact Hbrf. fold brpi.
      rewrite N.add_0_l. fold pp unsl.
      assert (Hpi : clip_inc c (sel_sum st (part_sel st pp k) (get_active_validator_indices st pe)) / INC = part_incr).
      { unfold part_incr, get_total_balance, clip_inc, unsl, sel_sum. f_equal.
        match goal with |- (if ?x <? _ then _ else _) = _ => destruct (N.ltb_spec x INC); lia end. }
      rewrite Hpi. fold active_incr.
      destruct Hm as [Hm1 [Hm2 [Hm3 [Hm4 Hm5]]]]. rewrite Hm5, Hm3.
      assert (Hai : 1 <= active_incr) by (unfold active_incr; apply N.div_le_lower_bound; lia).
      assert (Hpi1 : 1 <= part_incr).
      { unfold part_incr, get_total_balance. apply N.div_le_lower_bound; lia. }
      pose proof (weight_pos Hk) as Hw1.
      (* each step of zrnt's loop is a pair of point updates *)
      set (FR := fun i : N => if memN i unsl && negb leak
                              then (fun x => add64 x (base i * weight * part_incr / (active_incr * WEIGHT_DENOMINATOR))) else (fun x => x)).
      set (FP := fun i : N => if negb (memN i unsl) && negb (k =? TIMELY_HEAD_FLAG_INDEX)
                              then (fun x => add64 x (base i * weight / WEIGHT_DENOMINATOR)) else (fun x => x)).
      assert (Hloop : forall L r p,
                (forall i, In i L -> In i (get_eligible_validator_indices E st)) ->
                fold_left (flag_delta_step c ad (2 ^ k) weight part_incr active_incr brpi leak) L (Some (mkDeltas r p)) =
                Some (mkDeltas (fold_left (fun r i => updN r i (FR i)) L r) (fold_left (fun p i => updN p i (FP i)) L p))).
      { induction L as [|i L IH]; intros r p HL; [reflexivity|]. cbn [fold_left]. unfold flag_delta_step at 2.
        assert (Hiel : In i (get_eligible_validator_indices E st)) by (apply HL; left; reflexivity).
        rewrite eligible_spec_idxs in Hiel. pose proof (in_idxs_range _ _ _ Hiel) as Hi.
        apply idxs_in in Hiel. destruct Hiel as [_ [v' [Hv' Hel]]]. rewrite N.sub_0_r in Hv'.
        destruct (flats_lookup st i Hi) as [v [Hv [Hfl [Hsl Heff]]]].
        assert (v' = v) by (rewrite nthN_nth_error in Hv; congruence). subst v'.
        rewrite Hm3, Hm4, Hfl.
        destruct (nthN_in_range pp i ltac:(unfold pp; rewrite Hppl; exact Hi)) as [pf Hpf]. fold pp. rewrite Hpf.
        cbn [flatten fl_slashed fl_effective_balance]. rewrite flag_set_testbit.
        rewrite <- (mem_unslashed_eligible st k i v pf Hv Hpf Hel). fold pe pp unsl.
        assert (Hin_v : In v (validators st)) by (eapply nthN_In; exact Hv).
        pose proof (Hnum v Hin_v) as Hn. rewrite <- Heff in *. fold (base i) in Hn.
        assert (Hb1 : base i * weight < two64) by nia.
        assert (Hb0 : base i < two64) by nia.
        unfold base in Hb0 at 1. rewrite (mul64_id (eff_bal st i / INC) brpi) by exact Hb0. fold (base i).
        rewrite (mul64_id (base i) weight) by exact Hb1.
        rewrite (mul64_id (base i * weight) part_incr) by exact Hn.
        rewrite (mul64_id active_incr WEIGHT_DENOMINATOR) by exact Hden.
        assert (Hden0 : (active_incr * WEIGHT_DENOMINATOR =? 0) = false) by (apply N.eqb_neq; unfold WEIGHT_DENOMINATOR; lia).
        rewrite Hden0.
        change (2 ^ k =? TIMELY_HEAD_FLAG) with (2 ^ k =? 2 ^ 2).
        assert (Hhead : (2 ^ k =? 2 ^ 2) = (k =? TIMELY_HEAD_FLAG_INDEX)).
        { assert (Hc : k = 0 \/ k = 1 \/ k = 2) by lia. destruct Hc as [->|[->| ->]]; reflexivity. }
        rewrite Hhead. cbn [d_rewards d_penalties].
        assert (HL' : forall j, In j L -> In j (get_eligible_validator_indices E st)) by (intros j Hj; apply HL; right; exact Hj).
        unfold FR at 2, FP at 2.
        destruct (memN i unsl); cbn [negb andb].
        - destruct leak; cbn [negb andb].
          + rewrite IH by exact HL'. rewrite !(updN_id (fun x => x)) by reflexivity. reflexivity.
          + rewrite IH by exact HL'. rewrite (updN_id (fun x : N => x) p) by reflexivity. reflexivity.
        - destruct (k =? TIMELY_HEAD_FLAG_INDEX); cbn [negb].
          + rewrite IH by exact HL'. rewrite !(updN_id (fun x => x)) by reflexivity. reflexivity.
          + rewrite IH by exact HL'. rewrite (updN_id (fun x : N => x) r) by reflexivity. reflexivity. }
      unfold new_deltas. rewrite Hloop by (intros i Hi; exact Hi). f_equal.
      unfold flatten_validators. rewrite map_length. fold (nvals st). fold (zeros st).
      assert (Hnd : NoDup (get_eligible_validator_indices E st)) by (rewrite eligible_spec_idxs; apply idxs_NoDup).
      assert (Hz : forall i x, nthN (zeros st) i = Some x -> x = 0).
      { intros i x Hx. unfold zeros in Hx. rewrite nthN_nth_error in Hx. apply nth_error_In in Hx. apply repeat_spec in Hx. exact Hx. }
      f_equal.
      - apply fold_updN_ext; [exact Hnd|]. intros i x Hi Hx. apply Hz in Hx. subst x. unfold FR, GR.
        destruct (memN i unsl && negb leak); [|reflexivity].
        rewrite eligible_spec_idxs in Hi. pose proof (in_idxs_range _ _ _ Hi) as Hir.
        destruct (flats_lookup st i Hir) as [v [Hv [_ [_ Heff]]]].
        assert (Hin_v : In v (validators st)) by (eapply nthN_In; exact Hv).
        pose proof (Hnum v Hin_v) as Hn. rewrite <- Heff in Hn. fold (base i) in Hn.
        apply add64_id. rewrite N.add_0_l.
        assert (base i * weight * part_incr / (active_incr * WEIGHT_DENOMINATOR) <= base i * weight * part_incr).
        { apply N.div_le_upper_bound; [unfold WEIGHT_DENOMINATOR; lia|]. unfold WEIGHT_DENOMINATOR. nia. }
        lia.
      - apply fold_updN_ext; [exact Hnd|]. intros i x Hi Hx. apply Hz in Hx. subst x. unfold FP, GP.
        destruct (negb (memN i unsl) && negb (k =? TIMELY_HEAD_FLAG_INDEX)); [|reflexivity].
        rewrite eligible_spec_idxs in Hi. pose proof (in_idxs_range _ _ _ Hi) as Hir.
        destruct (flats_lookup st i Hir) as [v [Hv [_ [_ Heff]]]].
        assert (Hin_v : In v (validators st)) by (eapply nthN_In; exact Hv).
        pose proof (Hnum v Hin_v) as Hn. rewrite <- Heff in Hn. fold (base i) in Hn.
        apply add64_id. rewrite N.add_0_l.
        assert (base i * weight / WEIGHT_DENOMINATOR <= base i * weight).
        { apply N.div_le_upper_bound; unfold WEIGHT_DENOMINATOR; lia. }
        nia.
    Qed.
  End Flag.

  (* ================= inactivity penalty deltas ================= *)
  Section Inactivity.
    Variable f : fork.
    Variable st : BeaconState.
    Let pe := get_previous_epoch E st.
    Let pp := previous_epoch_participation st.
    Let tidx := filter (part_sel st pp TIMELY_TARGET_FLAG_INDEX) (get_active_validator_indices st pe).
    Let den := INACTIVITY_SCORE_BIAS c * inactivity_penalty_quotient E f.
    Let score (i : N) : N := match nthN (inactivity_scores st) i with Some s => s | None => 0 end.

    Lemma quotient_eq : inactivity_penalty_quotient_go c f = inactivity_penalty_quotient E f.
    Proof. destruct f; reflexivity. Qed.

    Definition GI (i : N) : N -> N :=
      if memN i tidx then (fun x => x) else (fun x => x + eff_bal st i * score i / den).

    Lemma spec_inactivity_deltas :
      GENESIS_EPOCH < get_current_epoch E st ->
      get_inactivity_penalty_deltas E f st =
      Some (zeros st, fold_left (fun p i => updN p i (GI i)) (get_eligible_validator_indices E st) (zeros st)).
    Proof.
      intros Hce. unfold get_inactivity_penalty_deltas.
      rewrite (unslashed_participating_spec st _ _ Hce (or_introl eq_refl)), (prev_ne_cur st Hce).
      fold pe pp tidx den. f_equal. f_equal.
      generalize (zeros st). induction (get_eligible_validator_indices E st) as [|i L IH]; intros p; [reflexivity|].
      cbn [fold_left]. rewrite <- IH. f_equal. unfold GI. fold (score i).
      destruct (memN i tidx); [rewrite updN_id by reflexivity|]; reflexivity.
    Qed.

    Record InactBounds : Prop := mkInactBounds {
      ib_den : den < two64;
      ib_den0 : den <> 0;
      ib_num : forall i, i < N.of_nat (length (validators st)) -> eff_bal st i * score i < two64 }.

    Theorem inactivity_deltas_refines (epc : EpcView) (ad : EpochAttesterData) :
      AltairHyps st epc -> ad_matches st ad -> InactBounds ->
      compute_inactivity_penalty_deltas c f ad (inactivity_scores st) =
      option_map (fun rp => mkDeltas (fst rp) (snd rp)) (get_inactivity_penalty_deltas E f st).
    Proof.
      intros [Hce Hpe Hcue Hpa Hca Htot Hsq Hppl Hcpl Hscl Hbl Hinc Hpe1 Hsp Hsc] [Hm1 [Hm2 [Hm3 [Hm4 Hm5]]]] [Hden Hden0 Hnum].
      rewrite (spec_inactivity_deltas Hce). cbn [option_map fst snd].
      unfold compute_inactivity_penalty_deltas. rewrite quotient_eq, mul64_id by exact Hden. fold den.
      rewrite Hm5, Hm3.
      set (FI := fun i : N => if memN i tidx then (fun x : N => x) else (fun x => add64 x (eff_bal st i * score i / den))).
      assert (Hloop : forall L r p,
                (forall i, In i L -> In i (get_eligible_validator_indices E st)) ->
                fold_left (inactivity_delta_step ad (inactivity_scores st) den) L (Some (mkDeltas r p)) =
                Some (mkDeltas r (fold_left (fun p i => updN p i (FI i)) L p))).
      { induction L as [|i L IH]; intros r p HL; [reflexivity|]. cbn [fold_left]. unfold inactivity_delta_step at 2.
        assert (Hiel : In i (get_eligible_validator_indices E st)) by (apply HL; left; reflexivity).
        rewrite eligible_spec_idxs in Hiel. pose proof (in_idxs_range _ _ _ Hiel) as Hi.
        apply idxs_in in Hiel. destruct Hiel as [_ [v' [Hv' Hel]]]. rewrite N.sub_0_r in Hv'.
        destruct (flats_lookup st i Hi) as [v [Hv [Hfl [Hsl Heff]]]].
        assert (v' = v) by (rewrite nthN_nth_error in Hv; congruence). subst v'.
        rewrite Hm3, Hm4, Hfl.
        destruct (nthN_in_range pp i ltac:(unfold pp; rewrite Hppl; exact Hi)) as [pf Hpf]. fold pp. rewrite Hpf.
        cbn [flatten fl_slashed fl_effective_balance]. change TIMELY_TARGET_FLAG with (2 ^ 1). rewrite flag_set_testbit.
        rewrite <- (mem_unslashed_eligible st 1 i v pf Hv Hpf Hel). fold pe pp.
        change (filter (part_sel st pp 1) (get_active_validator_indices st pe)) with tidx.
        assert (HL' : forall j, In j L -> In j (get_eligible_validator_indices E st)) by (intros j Hj; apply HL; right; exact Hj).
        unfold FI at 2. destruct (memN i tidx); cbn [negb].
        - rewrite IH by exact HL'. rewrite updN_id by reflexivity. reflexivity.
        - destruct (nthN_in_range (inactivity_scores st) i ltac:(rewrite Hscl; exact Hi)) as [sc Hsc'].
          rewrite Hsc'. destruct (N.eqb_spec den 0) as [H0|_]; [contradiction|].
          pose proof (Hnum i Hi) as Hn. unfold score in Hn at 1. rewrite Hsc' in Hn. rewrite <- Heff.
          rewrite mul64_id by exact Hn. cbn [d_rewards d_penalties]. rewrite IH by exact HL'.
          unfold score. rewrite Hsc'. reflexivity. }
      unfold new_deltas. rewrite Hloop by (intros i Hi; exact Hi).
      unfold flatten_validators. rewrite map_length. fold (nvals st). fold (zeros st). f_equal. f_equal.
      assert (Hnd : NoDup (get_eligible_validator_indices E st)) by (rewrite eligible_spec_idxs; apply idxs_NoDup).
      apply fold_updN_ext; [exact Hnd|]. intros i x Hi Hx.
      assert (x = 0). { unfold zeros in Hx. rewrite nthN_nth_error in Hx. apply nth_error_In in Hx. apply repeat_spec in Hx. exact Hx. }
      subst x. unfold FI, GI. destruct (memN i tidx); [reflexivity|].
      rewrite eligible_spec_idxs in Hi. pose proof (in_idxs_range _ _ _ Hi) as Hir.
      apply add64_id. rewrite N.add_0_l. pose proof (Hnum i Hir).
      assert (eff_bal st i * score i / den <= eff_bal st i * score i) by (apply N.div_le_upper_bound; [exact Hden0|nia]).
      lia.
    Qed.

    (* ================= inactivity scores ================= *)
    Let leak := is_in_inactivity_leak E st.
    Definition GS (i : N) : N -> N :=
      fun s => let s := if memN i tidx then s - N.min 1 s else s + INACTIVITY_SCORE_BIAS c in
               if leak then s else s - N.min (INACTIVITY_SCORE_RECOVERY_RATE c) s.

    Lemma leak_refines ad :
      ad_matches st ad -> cp_epoch (finalized_checkpoint st) <= get_previous_epoch E st ->
      is_leak_go c ad st = is_in_inactivity_leak E st.
    Proof.
      intros [Hm1 _] Hfin. unfold is_leak_go, is_in_inactivity_leak, get_finality_delay. rewrite Hm1, sub64_ge by exact Hfin. reflexivity.
    Qed.

    Theorem inactivity_updates_refines (epc : EpcView) (ad : EpochAttesterData) :
      AltairHyps st epc -> ad_matches st ad ->
      cp_epoch (finalized_checkpoint st) <= get_previous_epoch E st ->
      (forall s, In s (inactivity_scores st) -> s + INACTIVITY_SCORE_BIAS c < two64) ->
      AltairAttester.process_inactivity_updates c ad st = Epoch.process_inactivity_updates E st.
    Proof.
      intros [Hce Hpe Hcue Hpa Hca Htot Hsq Hppl Hcpl Hscl Hbl Hinc Hpe1 Hsp Hsc] Hm Hfin Hsb.
      pose proof (leak_refines ad Hm Hfin) as Hleak. destruct Hm as [Hm1 [Hm2 [Hm3 [Hm4 Hm5]]]].
      unfold AltairAttester.process_inactivity_updates, Epoch.process_inactivity_updates. rewrite Hm2.
      destruct (N.eqb_spec (get_current_epoch E st) GENESIS_EPOCH) as [H0|_]; [unfold GENESIS_EPOCH in *; lia|].
      rewrite (unslashed_participating_spec st _ _ Hce (or_introl eq_refl)), (prev_ne_cur st Hce).
      fold pe pp tidx leak. rewrite Hleak. fold leak. rewrite Hm5.
      set (FS := fun i : N => fun score : N =>
                   let s := if memN i tidx then (if 0 <? score then score - 1 else score) else add64 score (INACTIVITY_SCORE_BIAS c) in
                   if leak then s else if s <? INACTIVITY_SCORE_RECOVERY_RATE c then 0 else s - INACTIVITY_SCORE_RECOVERY_RATE c).
      assert (Hloop : forall L sc, length sc = length (validators st) ->
                (forall i, In i L -> In i (get_eligible_validator_indices E st)) ->
                fold_left (inactivity_update_step c ad leak) L (Some sc) = Some (fold_left (fun l i => updN l i (FS i)) L sc)).
      { induction L as [|i L IH]; intros sc Hlen HL; [reflexivity|]. cbn [fold_left]. unfold inactivity_update_step at 2.
        assert (Hiel : In i (get_eligible_validator_indices E st)) by (apply HL; left; reflexivity).
        rewrite eligible_spec_idxs in Hiel. pose proof (in_idxs_range _ _ _ Hiel) as Hi.
        apply idxs_in in Hiel. destruct Hiel as [_ [v' [Hv' Hel]]]. rewrite N.sub_0_r in Hv'.
        destruct (flats_lookup st i Hi) as [v [Hv [Hfl [Hsl Heff]]]].
        assert (v' = v) by (rewrite nthN_nth_error in Hv; congruence). subst v'.
        destruct (nthN_in_range sc i ltac:(rewrite Hlen; exact Hi)) as [s0 Hs0]. rewrite Hs0, Hm3, Hm4, Hfl.
        destruct (nthN_in_range pp i ltac:(unfold pp; rewrite Hppl; exact Hi)) as [pf Hpf]. fold pp. rewrite Hpf.
        cbn [flatten fl_slashed]. change TIMELY_TARGET_FLAG with (2 ^ 1). rewrite flag_set_testbit.
        rewrite <- (mem_unslashed_eligible st 1 i v pf Hv Hpf Hel). fold pe pp.
        change (filter (part_sel st pp 1) (get_active_validator_indices st pe)) with tidx.
        assert (HL' : forall j, In j L -> In j (get_eligible_validator_indices E st)) by (intros j Hj; apply HL; right; exact Hj).
        match goal with |- context [N.eqb ?e s0] => change e with (FS i s0) end.
        destruct (N.eqb_spec (FS i s0) s0) as [Heq|Hne].
        - rewrite IH by assumption. f_equal. f_equal. symmetry. apply updN_id. intros x Hx. rewrite Hs0 in Hx. inversion Hx; subst. exact Heq.
        - rewrite (setN_as_updN (FS i) sc i s0 Hs0). apply IH; [rewrite updN_length; exact Hlen|exact HL']. }
      rewrite Hloop by (try exact Hscl; intros i Hi; exact Hi).
      assert (Hnd : NoDup (get_eligible_validator_indices E st)) by (rewrite eligible_spec_idxs; apply idxs_NoDup).
      assert (Hfold : fold_left (fun l i => updN l i (FS i)) (get_eligible_validator_indices E st) (inactivity_scores st) =
                      fold_left (fun l i => updN l i (GS i)) (get_eligible_validator_indices E st) (inactivity_scores st)).
      { apply fold_updN_ext; [exact Hnd|]. intros i x Hi Hx.
        assert (Hxb : x + INACTIVITY_SCORE_BIAS c < two64). { apply Hsb. rewrite nthN_nth_error in Hx. eapply nth_error_In. exact Hx. }
        unfold FS, GS. rewrite add64_id by exact Hxb. cbv zeta.
        destruct (memN i tidx), leak; destruct (N.ltb_spec 0 x);
          repeat match goal with |- context [?a <? ?b] => destruct (N.ltb_spec a b) end; lia. }
      rewrite Hfold. reflexivity.
    Qed.
  End Inactivity.

  (* ================= applying the deltas ================= *)
  Definition apply1 (bals r p : list N) : list N :=
    map (fun x => let '(b, (r, p)) := x in (b + r) - p) (combine bals (combine r p)).
  Lemma apply1_length : forall bals r p, length r = length bals -> length p = length bals -> length (apply1 bals r p) = length bals.
  Proof. intros bals r p Hr Hp. unfold apply1. rewrite map_length, !combine_length. lia. Qed.
  Lemma apply1_nth : forall bals r p j, length r = length bals -> length p = length bals -> (j < length bals)%nat ->
    nth j (apply1 bals r p) 0 = nth j bals 0 + nth j r 0 - nth j p 0.
  Proof.
    induction bals as [|b bals IH]; intros [|r0 r] [|p0 p] j Hr Hp Hj; cbn [length] in *; try lia.
    destruct j as [|j]; [reflexivity|]. cbn [apply1 combine map nth]. apply IH; lia.
  Qed.
  Lemma fold_updN_length {A} (g : N -> A -> A) : forall L (l : list A), length (fold_left (fun l i => updN l i (g i)) L l) = length l.
  Proof. induction L as [|i L IH]; intros l; cbn [fold_left]; [reflexivity|]. rewrite IH. apply updN_length. Qed.
  Lemma list_eq_nth : forall (a b : list N), length a = length b -> (forall j, (j < length a)%nat -> nth j a 0 = nth j b 0) -> a = b.
  Proof.
    induction a as [|x a IH]; intros [|y b] Hl Hn; cbn [length] in *; try lia; [reflexivity|].
    f_equal; [exact (Hn 0%nat ltac:(lia))|]. apply IH; [lia|]. intros j Hj. exact (Hn (S j) ltac:(lia)).
  Qed.
  Lemma add_lists64_nth : forall a b j, length a = length b -> (j < length a)%nat ->
    nth j (map (fun p => add64 (fst p) (snd p)) (combine a b)) 0 = add64 (nth j a 0) (nth j b 0).
  Proof.
    induction a as [|x a IH]; intros [|y b] j Hl Hj; cbn [length] in *; try lia.
    destruct j as [|j]; [reflexivity|]. cbn [combine map nth]. apply IH; lia.
  Qed.
  Lemma add_lists64_length a b : length a = length b -> length (map (fun p => add64 (fst p) (snd p)) (combine a b)) = length a.
  Proof. intros H. rewrite map_length, combine_length. lia. Qed.
  Lemma nth_repeat0 j n : nth j (repeat 0 n) 0 = 0.
  Proof. revert j. induction n as [|n IH]; intros [|j]; cbn; auto. Qed.

  Lemma flag_deltas_lengths st k r p : get_flag_index_deltas E st k = Some (r, p) -> length r = nvals st /\ length p = nvals st.
  Proof.
    unfold get_flag_index_deltas. destruct (get_unslashed_participating_indices E st k (get_previous_epoch E st)) as [u|]; [|discriminate].
    intros H. inversion H as [H']. clear H.
    assert (Hgen : forall L r0 p0 r1 p1, length r0 = nvals st -> length p0 = nvals st ->
              fold_left (fun (rp : list N * list N) i =>
                let '(r, p) := rp in
                let base_reward := eff_bal st i / INC * get_base_reward_per_increment E st in
                if memN i u then
                  if is_in_inactivity_leak E st then (r, p)
                  else (addN r i (base_reward * flag_weight k * (get_total_balance E st u / INC) / (get_total_active_balance E st / INC * WEIGHT_DENOMINATOR)), p)
                else if k =? TIMELY_HEAD_FLAG_INDEX then (r, p)
                else (r, addN p i (base_reward * flag_weight k / WEIGHT_DENOMINATOR))) L (r0, p0) = (r1, p1) ->
              length r1 = nvals st /\ length p1 = nvals st).
    { induction L as [|i L IH]; intros r0 p0 r1 p1 Hr Hp Hf; cbn [fold_left] in Hf.
      - inversion Hf; subst. split; assumption.
      - destruct (memN i u); [destruct (is_in_inactivity_leak E st)|destruct (k =? TIMELY_HEAD_FLAG_INDEX)];
          eapply IH in Hf; try exact Hf; try assumption; unfold addN; rewrite updN_length; assumption. }
    eapply Hgen; [| |exact H']; unfold zeros; apply repeat_length.
  Qed.

  Theorem altair_rewards_refines (f : fork) (st : BeaconState) (epc : EpcView) (ad : EpochAttesterData) :
    f <> Phase0 ->
    AltairHyps st epc -> ad_matches st ad ->
    cp_epoch (finalized_checkpoint st) <= get_previous_epoch E st ->
    FlagBounds st 0 -> FlagBounds st 1 -> FlagBounds st 2 -> InactBounds f st ->
    NoMidSaturation E f st ->
    process_epoch_rewards_and_penalties c f epc ad st = Epoch.process_rewards_and_penalties E f st.
  Proof.
    intros Hf HA Hm Hfin Hb0 Hb1 Hb2 Hbi Hsat.
    pose proof (leak_refines st ad Hm Hfin) as Hleak.
    pose proof (flag_deltas_refines st 0 epc ad HA Hm ltac:(lia) Hb0) as H0.
    pose proof (flag_deltas_refines st 1 epc ad HA Hm ltac:(lia) Hb1) as H1.
    pose proof (flag_deltas_refines st 2 epc ad HA Hm ltac:(lia) Hb2) as H2.
    pose proof (inactivity_deltas_refines f st epc ad HA Hm Hbi) as H3.
    destruct HA as [Hce Hpe Hcue Hpa Hca Htot Hsq Hppl Hcpl Hscl Hbl Hinc Hpe1 Hsp Hsc].
    unfold process_epoch_rewards_and_penalties, Epoch.process_rewards_and_penalties. rewrite Hcue.
    destruct (N.eqb_spec (get_current_epoch E st) GENESIS_EPOCH) as [Hz|_]; [unfold GENESIS_EPOCH in *; lia|].
    rewrite Hleak.
    change TIMELY_SOURCE_FLAG with (2 ^ 0). change TIMELY_TARGET_FLAG with (2 ^ 1). change TIMELY_HEAD_FLAG with (2 ^ 2).
    change TIMELY_SOURCE_WEIGHT with (flag_weight 0). change TIMELY_TARGET_WEIGHT with (flag_weight 1). change TIMELY_HEAD_WEIGHT with (flag_weight 2).
    rewrite H0, H1, H2, H3. clear H0 H1 H2 H3.
    unfold NoMidSaturation, with_spec_deltas in Hsat.
    destruct (get_flag_index_deltas E st 0) as [[r0 p0]|] eqn:E0; cbn [option_map]; [|destruct f; try reflexivity; contradiction].
    destruct (get_flag_index_deltas E st 1) as [[r1 p1]|] eqn:E1; cbn [option_map]; [|destruct f; try reflexivity; contradiction].
    destruct (get_flag_index_deltas E st 2) as [[r2 p2]|] eqn:E2; cbn [option_map]; [|destruct f; try reflexivity; contradiction].
    destruct (get_inactivity_penalty_deltas E f st) as [[r3 p3]|] eqn:E3; cbn [option_map]; [|destruct f; try reflexivity; contradiction].
    cbn [fst snd] in *.
    destruct (flag_deltas_lengths st 0 r0 p0 E0) as [Lr0 Lp0]. destruct (flag_deltas_lengths st 1 r1 p1 E1) as [Lr1 Lp1].
    destruct (flag_deltas_lengths st 2 r2 p2 E2) as [Lr2 Lp2].
    assert (Lr3 : length r3 = nvals st /\ length p3 = nvals st).
    { rewrite (spec_inactivity_deltas f st Hce) in E3. inversion E3; subst. split; [apply repeat_length|].
      rewrite fold_updN_length. apply repeat_length. }
    destruct Lr3 as [Lr3 Lp3].
    assert (Hn : nvals st = length (balances st)) by (unfold nvals; symmetry; exact Hbl).
    (* zrnt: sum, then one application *)
    destruct Hm as [_ [_ [Hm3 _]]]. rewrite Hm3. unfold flatten_validators. rewrite map_length. fold (nvals st).
    unfold deltas_add, new_deltas. cbn [d_rewards d_penalties].
    set (R := map (fun p => add64 (fst p) (snd p)) (combine (map (fun p => add64 (fst p) (snd p)) (combine (map (fun p => add64 (fst p) (snd p))
                (combine (map (fun p => add64 (fst p) (snd p)) (combine (repeat 0 (nvals st)) r0)) r1)) r2)) r3)).
    set (P := map (fun p => add64 (fst p) (snd p)) (combine (map (fun p => add64 (fst p) (snd p)) (combine (map (fun p => add64 (fst p) (snd p))
                (combine (map (fun p => add64 (fst p) (snd p)) (combine (repeat 0 (nvals st)) p0)) p1)) p2)) p3)).
    assert (Hsum4 : forall x0 x1 x2 x3, length x0 = nvals st -> length x1 = nvals st -> length x2 = nvals st -> length x3 = nvals st ->
              length (map (fun p => add64 (fst p) (snd p)) (combine (map (fun p => add64 (fst p) (snd p)) (combine (map (fun p => add64 (fst p) (snd p))
                (combine (map (fun p => add64 (fst p) (snd p)) (combine (repeat 0 (nvals st)) x0)) x1)) x2)) x3)) = nvals st).
    { intros x0 x1 x2 x3 L0 L1 L2 L3.
      assert (A0 : length (map (fun p => add64 (fst p) (snd p)) (combine (repeat 0 (nvals st)) x0)) = nvals st)
        by (rewrite add_lists64_length; rewrite repeat_length; congruence).
      assert (A1 : length (map (fun p => add64 (fst p) (snd p)) (combine (map (fun p => add64 (fst p) (snd p)) (combine (repeat 0 (nvals st)) x0)) x1)) = nvals st)
        by (rewrite add_lists64_length; congruence).
      assert (A2 : length (map (fun p => add64 (fst p) (snd p)) (combine (map (fun p => add64 (fst p) (snd p)) (combine (map (fun p => add64 (fst p) (snd p)) (combine (repeat 0 (nvals st)) x0)) x1)) x2)) = nvals st)
        by (rewrite add_lists64_length; congruence).
      rewrite add_lists64_length; congruence. }
    assert (Hsum4n : forall x0 x1 x2 x3 j, length x0 = nvals st -> length x1 = nvals st -> length x2 = nvals st -> length x3 = nvals st ->
              (j < nvals st)%nat ->
              nth j (map (fun p => add64 (fst p) (snd p)) (combine (map (fun p => add64 (fst p) (snd p)) (combine (map (fun p => add64 (fst p) (snd p))
                (combine (map (fun p => add64 (fst p) (snd p)) (combine (repeat 0 (nvals st)) x0)) x1)) x2)) x3)) 0 =
              add64 (add64 (add64 (add64 0 (nth j x0 0)) (nth j x1 0)) (nth j x2 0)) (nth j x3 0)).
    { intros x0 x1 x2 x3 j L0 L1 L2 L3 Hj.
      assert (A0 : length (map (fun p => add64 (fst p) (snd p)) (combine (repeat 0 (nvals st)) x0)) = nvals st)
        by (rewrite add_lists64_length; rewrite repeat_length; congruence).
      assert (A1 : length (map (fun p => add64 (fst p) (snd p)) (combine (map (fun p => add64 (fst p) (snd p)) (combine (repeat 0 (nvals st)) x0)) x1)) = nvals st)
        by (rewrite add_lists64_length; congruence).
      assert (A2 : length (map (fun p => add64 (fst p) (snd p)) (combine (map (fun p => add64 (fst p) (snd p)) (combine (map (fun p => add64 (fst p) (snd p)) (combine (repeat 0 (nvals st)) x0)) x1)) x2)) = nvals st)
        by (rewrite add_lists64_length; congruence).
      rewrite add_lists64_nth by (try congruence; rewrite A2; exact Hj).
      rewrite add_lists64_nth by (try congruence; rewrite A1; exact Hj).
      rewrite add_lists64_nth by (try congruence; rewrite A0; exact Hj).
      rewrite add_lists64_nth by (rewrite repeat_length; try congruence; exact Hj).
      rewrite nth_repeat0. reflexivity. }
    assert (LR : length R = nvals st) by (apply Hsum4; assumption).
    assert (LP : length P = nvals st) by (apply Hsum4; assumption).
    unfold apply_deltas_go. cbn [d_rewards d_penalties]. rewrite LR, LP, Hn, Nat.eqb_refl. cbn [negb orb].
    (* the spec: four applications *)
    assert (Hspec : forall s, (match f with Phase0 => s | _ =>
                       Some (apply_deltas (apply_deltas (apply_deltas (apply_deltas st (r0, p0)) (r1, p1)) (r2, p2)) (r3, p3)) end) =
                      Some (st <| balances := apply1 (apply1 (apply1 (apply1 (balances st) r0 p0) r1 p1) r2 p2) r3 p3 |>))
      by (intros s; destruct f; try reflexivity; contradiction).
    rewrite Hspec. f_equal.
    assert (Hbals : map (fun x => let '(b, (r, p)) := x in let b := add64 b r in if p <=? b then b - p else 0)
                        (combine (balances st) (combine R P)) =
                    apply1 (apply1 (apply1 (apply1 (balances st) r0 p0) r1 p1) r2 p2) r3 p3).
    { assert (LA0 : length (apply1 (balances st) r0 p0) = length (balances st)) by (apply apply1_length; congruence).
      assert (LA1 : length (apply1 (apply1 (balances st) r0 p0) r1 p1) = length (balances st)) by (rewrite apply1_length; congruence).
      assert (LA2 : length (apply1 (apply1 (apply1 (balances st) r0 p0) r1 p1) r2 p2) = length (balances st)) by (rewrite apply1_length; congruence).
      assert (LA3 : length (apply1 (apply1 (apply1 (apply1 (balances st) r0 p0) r1 p1) r2 p2) r3 p3) = length (balances st)) by (rewrite apply1_length; congruence).
      apply list_eq_nth.
      - rewrite map_length, !combine_length, LA3. lia.
      - intros j Hj. rewrite map_length, !combine_length in Hj. assert (Hjb : (j < length (balances st))%nat) by lia.
        rewrite (apply1_nth _ r3 p3) by congruence. rewrite (apply1_nth _ r2 p2) by congruence.
        rewrite (apply1_nth _ r1 p1) by congruence. rewrite (apply1_nth _ r0 p0) by congruence.
        specialize (Hsat j Hjb). unfold row_ok in Hsat.
        repeat (apply andb_prop in Hsat; destruct Hsat as [Hsat ?]).
        (* the j-th entry of zrnt's result *)
        assert (Hgo : forall Bl Rl Pl, length Rl = length Bl -> length Pl = length Bl -> (j < length Bl)%nat ->
                  nth j (map (fun x => let '(b, (r, p)) := x in let b := add64 b r in if p <=? b then b - p else 0) (combine Bl (combine Rl Pl))) 0 =
                  (let b := add64 (nth j Bl 0) (nth j Rl 0) in if nth j Pl 0 <=? b then b - nth j Pl 0 else 0)).
        { clear. intros Bl. revert j. induction Bl as [|b Bl IH]; intros j [|r Rl] [|p Pl] Hr Hp Hj; cbn [length] in *; try lia.
          destruct j as [|j]; [reflexivity|]. cbn [combine map nth]. apply IH; lia. }
        rewrite Hgo by lia. unfold R, P.
        rewrite !Hsum4n by (try assumption; lia).
        set (b := nth j (balances st) 0) in *. set (a0 := nth j r0 0) in *. set (a1 := nth j r1 0) in *. set (a2 := nth j r2 0) in *.
        set (a3 := nth j r3 0) in *. set (q0 := nth j p0 0) in *. set (q1 := nth j p1 0) in *. set (q2 := nth j p2 0) in *. set (q3 := nth j p3 0) in *.
        repeat match goal with H : (_ <=? _) = true |- _ => apply N.leb_le in H end.
        repeat match goal with H : (_ <? _) = true |- _ => apply N.ltb_lt in H end.
        rewrite (add64_id 0 a0) by lia. rewrite (add64_id (0 + a0) a1) by lia. rewrite (add64_id (0 + a0 + a1) a2) by lia.
        rewrite (add64_id (0 + a0 + a1 + a2) a3) by lia.
        rewrite (add64_id 0 q0) by lia. rewrite (add64_id (0 + q0) q1) by lia. rewrite (add64_id (0 + q0 + q1) q2) by lia.
        rewrite (add64_id (0 + q0 + q1 + q2) q3) by lia.
        rewrite (add64_id b) by lia. cbv zeta.
        destruct (N.leb_spec (0 + q0 + q1 + q2 + q3) (b + (0 + a0 + a1 + a2 + a3))); lia. }
    exact (f_equal (fun x => st <| balances := x |>) Hbals).
  Qed.
End Altair.
