(* Small concrete configuration, environment and states used by the `_nonvacuous` examples and `_refuted` witnesses. *)
From Coq Require Import String.
From Coq Require Import NArith List Bool.
From RecordUpdate Require Import RecordSet.
From V Require Import Ssz.SszCore Beacon.Config Beacon.Schemas Beacon.State Beacon.Spec.Helpers.
Import ListNotations RecordSetNotations.
Local Open Scope N_scope.
Local Open Scope string_scope.

(* the minimal preset's shape with a tiny churn quotient; gwei amounts as on mainnet *)
Definition tiny_num (k : string) : N :=
  let is s := String.eqb k s in
  if is "MAX_COMMITTEES_PER_SLOT" then 4 else if is "TARGET_COMMITTEE_SIZE" then 4 else
  if is "MAX_VALIDATORS_PER_COMMITTEE" then 2048 else if is "SHUFFLE_ROUND_COUNT" then 10 else
  if is "HYSTERESIS_QUOTIENT" then 4 else if is "HYSTERESIS_DOWNWARD_MULTIPLIER" then 1 else
  if is "HYSTERESIS_UPWARD_MULTIPLIER" then 5 else if is "MIN_DEPOSIT_AMOUNT" then 1000000000 else
  if is "MAX_EFFECTIVE_BALANCE" then 32000000000 else if is "EFFECTIVE_BALANCE_INCREMENT" then 1000000000 else
  if is "MIN_ATTESTATION_INCLUSION_DELAY" then 1 else if is "SLOTS_PER_EPOCH" then 8 else
  if is "MIN_SEED_LOOKAHEAD" then 1 else if is "MAX_SEED_LOOKAHEAD" then 4 else
  if is "EPOCHS_PER_ETH1_VOTING_PERIOD" then 4 else if is "SLOTS_PER_HISTORICAL_ROOT" then 64 else
  if is "MIN_EPOCHS_TO_INACTIVITY_PENALTY" then 4 else if is "EPOCHS_PER_HISTORICAL_VECTOR" then 64 else
  if is "EPOCHS_PER_SLASHINGS_VECTOR" then 64 else if is "HISTORICAL_ROOTS_LIMIT" then 16777216 else
  if is "VALIDATOR_REGISTRY_LIMIT" then 1099511627776 else if is "BASE_REWARD_FACTOR" then 64 else
  if is "WHISTLEBLOWER_REWARD_QUOTIENT" then 512 else if is "PROPOSER_REWARD_QUOTIENT" then 8 else
  if is "INACTIVITY_PENALTY_QUOTIENT" then 33554432 else if is "MIN_SLASHING_PENALTY_QUOTIENT" then 64 else
  if is "PROPORTIONAL_SLASHING_MULTIPLIER" then 2 else
  if is "INACTIVITY_PENALTY_QUOTIENT_ALTAIR" then 50331648 else if is "MIN_SLASHING_PENALTY_QUOTIENT_ALTAIR" then 64 else
  if is "PROPORTIONAL_SLASHING_MULTIPLIER_ALTAIR" then 2 else if is "SYNC_COMMITTEE_SIZE" then 32 else
  if is "EPOCHS_PER_SYNC_COMMITTEE_PERIOD" then 8 else if is "MIN_SYNC_COMMITTEE_PARTICIPANTS" then 1 else
  if is "INACTIVITY_PENALTY_QUOTIENT_BELLATRIX" then 16777216 else if is "MIN_SLASHING_PENALTY_QUOTIENT_BELLATRIX" then 32 else
  if is "PROPORTIONAL_SLASHING_MULTIPLIER_BELLATRIX" then 3 else
  if is "MIN_VALIDATOR_WITHDRAWABILITY_DELAY" then 256 else if is "SHARD_COMMITTEE_PERIOD" then 64 else
  if is "INACTIVITY_SCORE_BIAS" then 4 else if is "INACTIVITY_SCORE_RECOVERY_RATE" then 16 else
  if is "EJECTION_BALANCE" then 16000000000 else if is "MIN_PER_EPOCH_CHURN_LIMIT" then 2 else
  if is "CHURN_LIMIT_QUOTIENT" then 32 else if is "MAX_PER_EPOCH_ACTIVATION_CHURN_LIMIT" then 4 else
  if is "SECONDS_PER_SLOT" then 6 else 1.
Definition tiny_cfg : Config := Eval vm_compute in config_of tiny_num (fun _ => [0; 0; 0; 1]).
Definition tiny_env : Env :=
  mkEnv tiny_cfg (fun _ => repeat 0 32) (fun _ => repeat 0 32) (fun _ _ _ => true) (fun _ _ _ => true) (fun _ => repeat 0 48)
        (fun _ _ _ => true).

Definition ETH : N := 1000000000.
(* validator: effective balance, slashed, eligibility, activation, exit, withdrawable *)
Definition mkv (eff : N) (sl : bool) (el ac ex wd : N) : Validator := mkValidator [] [] eff sl el ac ex wd.
Definition cp0 (e : N) : Checkpoint := mkCheckpoint e (repeat 0 32).
Definition base_state : BeaconState :=
  mkState 0 (repeat 0 32) 0 (mkFork [0;0;0;1] [0;0;0;1] 0) (mkHeader 0 0 (repeat 0 32) (repeat 0 32) (repeat 0 32))
          (repeat (repeat 0 32) 64) (repeat (repeat 0 32) 64) [] (mkEth1Data (repeat 0 32) 0 (repeat 0 32)) [] 0
          [] [] (repeat (repeat 0 32) 64) (repeat 0 64) [] [] [] [] [false; false; false; false]
          (cp0 0) (cp0 0) (cp0 0) [] empty_sc empty_sc (VCont []) 0 0 [].
(* a state at slot s with the given validators/balances *)
Definition state_with (s : N) (vs : list Validator) (bs : list N) : BeaconState :=
  base_state <| slot := s |> <| validators := vs |> <| balances := bs |>.
