(* Non-vacuity of process_block_refines_partial (Beacon/Refine/BlockAssembly.v): a concrete altair state, context and block
   (randao, eth1 vote, sync aggregate with one participant) satisfying EVERY hypothesis, with an explicit stage-indexed
   envelope; the block is accepted and changes the state. *)
From Coq Require Import String NArith ZArith List Bool Lia.
From RecordUpdate Require Import RecordSet.
From V Require Import Base.U64 Base.Outcome Ssz.SszCore Beacon.Config Beacon.Schemas Beacon.State
  Beacon.Spec.Helpers Beacon.Spec.Epoch Beacon.Spec.Block Beacon.Spec.Transition
  Beacon.Impl.BlockOps Beacon.Impl.Block2Ops
  Beacon.Proofs.Lengths Beacon.Proofs.EpcInv
  Beacon.Refine.BlockLemmas Beacon.Refine.BlockEpc Beacon.Refine.BlockFixtures Beacon.Refine.BlockSyncWitness
  Beacon.Refine.Block2Refine Beacon.Refine.Block2AttRefine Beacon.Refine.BlockAssembly.
Import ListNotations RecordSetNotations.
Local Open Scope string_scope.
Local Open Scope list_scope.
Local Open Scope N_scope.

Definition aw_st0 : BeaconState :=
  (sw_state (32 * GWEI_ETH)) <| latest_execution_payload_header := default_value (HeaderT blk_env Altair) |>.
Definition aw_body : value :=
  VCont [VBytes (repeat 0 96); VCont [VBytes z32; VUint 0; VBytes z32]; VBytes z32;
         VSeq []; VSeq []; VSeq []; VSeq []; VSeq []; sw_agg].
Definition aw_blk : value :=
  VCont [VUint 1; VUint 0; VBytes (htr blk_env BeaconBlockHeaderT (header_to_value (latest_block_header aw_st0))); VBytes z32; aw_body].
Definition or_self (o : option BeaconState) (d : BeaconState) : BeaconState := match o with Some s => s | None => d end.
Definition aw_s1 : BeaconState := or_self (process_block_header blk_env Altair aw_st0 aw_blk) aw_st0.
Definition aw_s3 : BeaconState := or_self (process_randao blk_env Altair aw_s1 aw_body) aw_s1.
Definition aw_s4 : BeaconState := process_eth1_data blk_env Altair aw_s3 aw_body.
Definition aw_P (k : nat) (s : BeaconState) : Prop :=
  match k with
  | 0%nat => s = aw_st0 | 1%nat => s = aw_s1 | 2%nat => False | 3%nat => s = aw_s1 | 4%nat => s = aw_s3 | _ => s = aw_s4
  end.
Definition aw_epc2 : BlockEpc2 :=
  mkEpc2 (spec_epc blk_env aw_st0)
    (fun e => Ok (get_committee_count_per_slot blk_env aw_st0 e))
    (fun s i => if i <? get_committee_count_per_slot blk_env aw_st0 (compute_epoch_at_slot blk_env s)
                then of_opt (get_beacon_committee blk_env aw_st0 s i) else Err).

Ltac in_list H := vm_compute in H; repeat (destruct H as [H|H]; [try subst|]); try contradiction.

Lemma aw_side s : s = aw_st0 \/ s = aw_s1 \/ s = aw_s3 \/ s = aw_s4 -> side_ok blk_env Altair aw_body s.
Proof.
  intros Hs. assert (Hb : st_bounds blk_env s).
  { constructor.
    - intros x Hx. destruct Hs as [->|[->|[->| ->]]]; in_list Hx; vm_compute; reflexivity.
    - intros v Hv. destruct Hs as [->|[->|[->| ->]]]; in_list Hv; vm_compute; discriminate.
    - destruct Hs as [->|[->|[->| ->]]]; vm_compute; reflexivity.
    - destruct Hs as [->|[->|[->| ->]]]; vm_compute; discriminate.
    - destruct Hs as [->|[->|[->| ->]]]; reflexivity.
    - destruct Hs as [->|[->|[->| ->]]]; vm_compute; reflexivity.
    - intros v Hv. destruct Hs as [->|[->|[->| ->]]]; in_list Hv; left; reflexivity.
    - intros x Hx. assert (x = 0); [|subst; vm_compute; reflexivity].
      destruct Hs as [->|[->|[->| ->]]]; vm_compute in Hx; repeat (destruct Hx as [Hx|Hx]; [symmetry; exact Hx|]); contradiction.
    - destruct Hs as [->|[->|[->| ->]]]; vm_compute; reflexivity. }
  constructor; try exact Hb.
  - destruct Hs as [->|[->|[->| ->]]]; vm_compute; reflexivity.
  - destruct Hs as [->|[->|[->| ->]]]; vm_compute; reflexivity.
  - destruct Hs as [->|[->|[->| ->]]]; vm_compute; reflexivity.
  - destruct Hs as [->|[->|[->| ->]]]; vm_compute; reflexivity.
  - intros Hne. exfalso. apply Hne. destruct Hs as [->|[->|[->| ->]]]; vm_compute; reflexivity.
  - destruct Hs as [->|[->|[->| ->]]]; vm_compute; reflexivity.
  - intros v Hv Hr. destruct Hs as [->|[->|[->| ->]]]; in_list Hv; reflexivity.
  - intros att l Hin. vm_compute in Hin. contradiction.
  - discriminate.
  - destruct Hs as [->|[->|[->| ->]]]; vm_compute; reflexivity.
  - destruct Hs as [->|[->|[->| ->]]]; vm_compute; reflexivity.
  - intros _. destruct Hs as [->|[->|[->| ->]]]; vm_compute; reflexivity.
Qed.

Lemma aw_envelope : envelope blk_env Altair aw_P aw_blk.
Proof.
  constructor.
  - intros k s Hp. apply aw_side. destruct k as [|[|[|[|[|k]]]]]; unfold aw_P in Hp.
    + left; exact Hp.
    + right; left; exact Hp.
    + contradiction.
    + right; left; exact Hp.
    + right; right; left; exact Hp.
    + right; right; right; exact Hp.
  - intros s s' Hs H. unfold aw_P in *. subst s. unfold aw_s1. rewrite H. reflexivity.
  - discriminate.
  - discriminate.
  - intros s Hs. exact Hs.
  - intros s s' Hs H. unfold aw_P in *. subst s. unfold aw_s3. change (vfield aw_blk 4) with aw_body in H. rewrite H. reflexivity.
  - intros s Hs. unfold aw_P in *. subst s. reflexivity.
  - intros s i s' _ Hne. exfalso. apply Hne. reflexivity.
  - intros s a s' _ Hin. vm_compute in Hin. contradiction.
  - intros s a s' _ Hin. vm_compute in Hin. contradiction.
  - intros s a s' _ Hin. vm_compute in Hin. contradiction.
  - intros s a s' _ Hin. vm_compute in Hin. contradiction.
Qed.

Lemma aw_epc2_ok : epc2_ok blk_env aw_st0 aw_epc2.
Proof.
  constructor.
  - apply epc_ok_spec_epc. vm_compute. discriminate.
  - intros e _. reflexivity.
  - intros s i _. reflexivity.
Qed.

Example process_block_refines_nonvacuous :
  cfg_sane blk_env /\ cfg_extra blk_env /\ envelope blk_env Altair aw_P aw_blk /\ vec_lens blk_env aw_st0
  /\ epc2_ok blk_env aw_st0 aw_epc2 /\ aw_P 0%nat aw_st0 /\ lengths_inv Altair aw_st0 /\ block_typed blk_env Altair (vfield aw_blk 4)
  /\ match process_block_impl blk_env Altair aw_epc2 aw_st0 aw_blk with
     | Ok s => balances s = [31999972895; 32000031622] /\ length (eth1_data_votes s) = 1%nat
               /\ h_slot (latest_block_header s) = 1
     | _ => False end.
Proof.
  split; [exact blk_cfg_sane|]. split.
  { constructor; try (vm_compute; first [reflexivity|discriminate]). constructor; vm_compute; first [reflexivity|discriminate]. }
  split; [exact aw_envelope|]. split; [constructor; vm_compute; reflexivity|]. split; [exact aw_epc2_ok|]. split; [reflexivity|].
  split; [split; [reflexivity|intros _; repeat split; reflexivity]|]. split.
  { change (vfield aw_blk 4) with aw_body. constructor.
    - vm_compute. reflexivity.
    - apply Forall_forall. intros x Hx. vm_compute in Hx. contradiction.
    - apply Forall_forall. intros x Hx. vm_compute in Hx. contradiction.
    - intros _. vm_compute. reflexivity.
    - discriminate. }
  vm_compute. repeat split; reflexivity.
Qed.
