(* How the sub-transitions fit together: zrnt takes ONE snapshot of the registry at the start of ProcessEpoch and keeps
   using it after registry updates changed the validators.  These lemmas show the stale snapshot (and the current
   epoch's active set held by the epochs context) still says what slashings and effective-balance updates need. *)
From Coq Require Import NArith ZArith Lia List Bool.
From Coq Require Import ZifyN ZifyNat ZifyBool.
From RecordUpdate Require Import RecordSet.
From V Require Import Base.U64 Beacon.Config Beacon.State Beacon.Spec.Helpers Beacon.Spec.Epoch.
From V Require Import Beacon.Impl.Flat Beacon.Impl.Registry Beacon.Refine.ListLemmas Beacon.Refine.FoldLemmas
                      Beacon.Refine.RegistryRefine Beacon.Refine.SlashingsRefine.
Import ListNotations RecordSetNotations.
Local Open Scope N_scope.

Section Compose.
  Variable E : Env.
  Variable f : fork.
  Notation c := (cfg E).

  (* snapshot entry vs validator after registry updates *)
  Definition frame_rel (ce : N) (fl : FlatValidator) (v : Validator) : Prop :=
    slash_rel fl v /\ is_active_validator v ce = fl_is_active fl ce.

  Lemma Forall2_updN {A B} (R : A -> B -> Prop) (g : B -> B) : forall (l1 : list A) (l2 : list B) i,
    Forall2 R l1 l2 ->
    (forall a b, nthN l1 i = Some a -> nthN l2 i = Some b -> R a b -> R a (g b)) ->
    Forall2 R l1 (updN l2 i g).
  Proof.
    intros l1 l2 i HF. rewrite updN_upd_nat. setoid_rewrite nthN_nth_error. generalize (N.to_nat i). clear i.
    induction HF as [|a b l1 l2 Hab HF IH]; intros [|n] Hg; cbn [upd_nat nth_error] in *; constructor; auto.
  Qed.

  Lemma struct_frame ce limit :
    ce < max64 ->
    forall vals e ch, ce < e ->
    (forall v, In v vals -> v_slashed v = true -> v_exit_epoch v <> FAR_FUTURE_EPOCH) ->
    Forall2 (frame_rel ce) (map flatten vals)
            (elig_struct E ce (map flatten vals) (eject_struct E ce limit (map flatten vals) vals e ch)).
  Proof.
    intros Hce. induction vals as [|v vals IH]; intros e ch He Hsl; cbn [map eject_struct elig_struct]; [constructor|].
    assert (Hhead : forall x, (x = v \/ (x = set_exit E e v /\ v_exit_epoch v = FAR_FUTURE_EPOCH)) ->
              frame_rel ce (flatten v) (if elig_cond E (flatten v) then set_elig (ce + 1) x else x)).
    { intros x Hx.
      assert (Hx' : (if elig_cond E (flatten v) then set_elig (ce + 1) x else x) = x \/
                    (if elig_cond E (flatten v) then set_elig (ce + 1) x else x) = set_elig (ce + 1) x)
        by (destruct (elig_cond E (flatten v)); [right|left]; reflexivity).
      unfold frame_rel, slash_rel. cbn [flatten fl_slashed fl_effective_balance fl_withdrawable_epoch fl_activation_epoch].
      destruct Hx as [->|[-> Hfar]].
      - destruct Hx' as [->| ->]; repeat split; reflexivity.
      - assert (Hact : is_active_validator (set_exit E e v) ce = is_active_validator v ce) by (apply is_active_set_exit; assumption).
        assert (Hns : v_slashed v = true -> False).
        { intros Hs. apply (Hsl v (or_introl eq_refl) Hs). exact Hfar. }
        destruct Hx' as [->| ->]; repeat split; try reflexivity; try exact Hact;
          intros Hs; exfalso; apply Hns; exact Hs. }
    assert (Hsl' : forall w, In w vals -> v_slashed w = true -> v_exit_epoch w <> FAR_FUTURE_EPOCH)
      by (intros w Hw; apply Hsl; right; exact Hw).
    destruct (eject_cond E ce (flatten v)) eqn:Hej.
    - constructor.
      + apply Hhead. right. split; [reflexivity|].
        unfold eject_cond in Hej. apply andb_prop in Hej. destruct Hej as [_ Hej]. apply N.eqb_eq in Hej. exact Hej.
      + apply IH; [|exact Hsl']. pose proof (next_queue_fst limit e ch). lia.
    - constructor; [apply Hhead; left; reflexivity|apply IH; assumption].
  Qed.

  (* registry_frame: after registry updates the snapshot taken before them still agrees with the validators on
     slashed flag and effective balance, on the withdrawable epoch of every slashed validator, and on who is
     active in the current epoch -- provided no slashed validator still has exit epoch FAR_FUTURE (slash_validator
     always initiates the exit) *)
  Theorem registry_frame (st : BeaconState) :
    let ce := get_current_epoch E st in
    RegBounds c ce (validators st) ->
    cp_epoch (finalized_checkpoint st) <= ce ->
    (forall v, In v (validators st) -> v_slashed v = true -> v_exit_epoch v <> FAR_FUTURE_EPOCH) ->
    Forall2 (frame_rel ce) (flatten_validators (validators st)) (validators (registry_result E f st)).
  Proof.
    intros ce HB Hfin Hsl. unfold registry_result. change (validators (with_validators st ?x)) with x.
    unfold registry_vals1. fold ce.
    destruct (qnorm (churn_limit_of E (validators st) ce) (aee E ce) (map v_exit_epoch (validators st))) as [e ch] eqn:Hq. cbn [fst snd].
    pose proof (qnorm_bounds E ce _ _ e ch HB Hq) as [Hb1 [Hb2 Hb3]].
    pose proof HB as [_ _ Hep _].
    assert (Hce : ce < max64) by lia. assert (Hcee : ce < e) by (unfold aee in Hb1; lia).
    pose proof (struct_frame ce (churn_limit_of E (validators st) ce) Hce (validators st) e ch Hcee Hsl) as H1.
    unfold flatten_validators.
    set (vals1 := elig_struct E ce (map flatten (validators st)) (eject_struct E ce _ (map flatten (validators st)) (validators st) e ch)) in *.
    assert (Hact : forall i, In i (registry_activated E f st) ->
              exists fl, nthN (map flatten (validators st)) i = Some fl /\ fl_activation_epoch fl = FAR_FUTURE_EPOCH).
    { intros i Hi. unfold registry_activated in Hi. apply In_firstn in Hi. apply sort_idx_in in Hi.
      apply idx_where_bounds in Hi. destruct Hi as [_ [fl [Hfl Hc]]]. rewrite N.sub_0_r in Hfl.
      exists fl. rewrite nthN_nth_error. split; [exact Hfl|].
      unfold fin_cond in Hc. apply andb_prop in Hc. destruct Hc as [Hc _]. apply N.eqb_eq in Hc. exact Hc. }
    clearbody vals1. revert Hact. generalize (registry_activated E f st). intros act. revert vals1 H1.
    induction act as [|i act IH]; intros vals1 H1 Hact; cbn [fold_left]; [exact H1|].
    apply IH; [|intros j Hj; apply Hact; right; exact Hj].
    apply Forall2_updN; [exact H1|]. intros fl v Hfl Hv [Hs Ha].
    destruct (Hact i (or_introl eq_refl)) as [fl' [Hfl' Hfar]]. rewrite Hfl in Hfl'. inversion Hfl'; subst fl'.
    unfold frame_rel, slash_rel in *. destruct Hs as [Hs1 [Hs2 Hs3]].
    change (v_slashed (set_act _ v)) with (v_slashed v). change (v_effective_balance (set_act _ v)) with (v_effective_balance v).
    change (v_withdrawable_epoch (set_act _ v)) with (v_withdrawable_epoch v).
    repeat split; try assumption.
    unfold is_active_validator, fl_is_active. rewrite Hfar.
    change (v_activation_epoch (set_act ?x v)) with x.
    destruct (N.leb_spec (ce + 1 + MAX_SEED_LOOKAHEAD c) ce); [lia|].
    destruct (N.leb_spec FAR_FUTURE_EPOCH ce) as [Hle|_]; [rewrite FAR_is_max64 in Hle; lia|]. reflexivity.
  Qed.

  (* consequences used by the later sub-transitions *)
  Lemma frame_slash_rel ce flats vals : Forall2 (frame_rel ce) flats vals -> Forall2 slash_rel flats vals.
  Proof. induction 1 as [|fl v fls vls [H _] _ IH]; constructor; assumption. Qed.
  Lemma frame_eff ce flats vals : Forall2 (frame_rel ce) flats vals -> map fl_effective_balance flats = map v_effective_balance vals.
  Proof. induction 1 as [|fl v fls vls [[_ [H _]] _] _ IH]; cbn [map]; [reflexivity|]. rewrite H, IH. reflexivity. Qed.
  Lemma frame_length ce flats vals : Forall2 (frame_rel ce) flats vals -> length flats = length vals.
  Proof. induction 1; cbn [length]; auto. Qed.
  Lemma frame_active ce vals0 vals : Forall2 (frame_rel ce) (map flatten vals0) vals ->
    idxs (fun v => is_active_validator v ce) 0 vals = idxs (fun v => is_active_validator v ce) 0 vals0.
  Proof.
    generalize 0. revert vals. induction vals0 as [|v0 vals0 IH]; intros vals k H; inversion H as [|fl v fls vls [_ Ha] HF]; subst; [reflexivity|].
    rewrite !idxs_cons, Ha. change (fl_is_active (flatten v0) ce) with (is_active_validator v0 ce). rewrite (IH _ _ HF). reflexivity.
  Qed.

  (* the current epoch's active set (held by zrnt's epochs context since the start of the epoch) and the total active
     balance are those of the state after registry updates *)
  Theorem registry_keeps_active (st : BeaconState) :
    let ce := get_current_epoch E st in
    RegBounds c ce (validators st) -> cp_epoch (finalized_checkpoint st) <= ce ->
    (forall v, In v (validators st) -> v_slashed v = true -> v_exit_epoch v <> FAR_FUTURE_EPOCH) ->
    get_active_validator_indices (registry_result E f st) ce = get_active_validator_indices st ce.
  Proof.
    intros ce HB Hfin Hsl. pose proof (registry_frame st HB Hfin Hsl) as HF. fold ce in HF.
    unfold get_active_validator_indices. rewrite !combine_indices_indexed.
    exact (frame_active ce _ _ HF).
  Qed.
End Compose.
