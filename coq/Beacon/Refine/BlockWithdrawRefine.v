(* C01 — capella.GetExpectedWithdrawals / ProcessWithdrawals (zrnt) against get_expected_withdrawals /
   process_withdrawals (Spec).

   zrnt's sweep is an open `for` loop with a counter: it reads the validator and its balance BEFORE testing the loop
   bound (so it reads one entry more than the spec and fails on an empty registry), advances the indices in uint64,
   and ProcessWithdrawals compares and debits the withdrawals one by one.

     withdrawals_sweep_refines          the loop = the spec's bounded recursion
     get_expected_withdrawals_refines   Impl = Ok (Spec)   for a non-empty registry, next_withdrawal_validator_index in
                                        range, |balances| = |validators|, next_withdrawal_index < 2^63
     process_withdrawals_refines        Impl = Spec (Ok/Err alike), additionally MAX_WITHDRAWALS_PER_PAYLOAD > 0 *)
From Coq Require Import String.
From Coq Require Import NArith ZArith Lia List Bool.
From Coq Require Import ZifyN ZifyNat ZifyBool.
From RecordUpdate Require Import RecordSet.
From V Require Import Base.U64 Base.Outcome Ssz.SszCore Beacon.Config Beacon.Schemas Beacon.State
  Beacon.Spec.Helpers Beacon.Spec.Epoch Beacon.Spec.Block Beacon.Impl.BlockOps
  Beacon.Refine.BlockLemmas Beacon.Refine.BlockEpc Beacon.Refine.RejectRules Beacon.Refine.BlockSlashRefine.
Import ListNotations RecordSetNotations.
Local Open Scope list_scope.
Local Open Scope N_scope.

Notation W := (N * N * bytes * N)%type.
Definition w_index (w : W) : N := let '(i, _, _, _) := w in i.
Definition w_vi (w : W) : N := let '(_, vi, _, _) := w in vi.
Definition w_amount (w : W) : N := let '(_, _, _, a) := w in a.

Section Withdraw.
  Variable E : Env.
  Variable f : fork.
  Let c := cfg E.

  (* one position of the sweep, common to both sides (unbounded arithmetic) *)
  Definition sweep_pos (st : BeaconState) (epoch widx vidx : N) (v : Validator) (bal : N) (acc : list W) : list W * N :=
    let addr := skipn 12 (v_withdrawal_credentials v) in
    if is_fully_withdrawable_validator v bal epoch then (acc ++ [(widx, vidx, addr, bal)], widx + 1)
    else if is_partially_withdrawable_validator E v bal then (acc ++ [(widx, vidx, addr, bal - MAX_EFFECTIVE_BALANCE c)], widx + 1)
    else (acc, widx).
  Lemma sweep_pos_widx st epoch widx vidx v bal acc :
    widx <= snd (sweep_pos st epoch widx vidx v bal acc) <= widx + 1.
  Proof. unfold sweep_pos. destruct (is_fully_withdrawable_validator _ _ _); [cbn; lia|]. destruct (is_partially_withdrawable_validator _ _ _); cbn; lia. Qed.

  Lemma spec_sweep_unfold n st epoch widx vidx acc :
    withdrawals_sweep E (S n) st epoch widx vidx acc =
    match nthN (validators st) vidx, nthN (balances st) vidx with
    | Some v, Some bal =>
        let '(acc, widx) := sweep_pos st epoch widx vidx v bal acc in
        if N.of_nat (length acc) =? MAX_WITHDRAWALS_PER_PAYLOAD c then acc
        else withdrawals_sweep E n st epoch widx ((vidx + 1) mod N.of_nat (length (validators st))) acc
    | _, _ => acc
    end.
  Proof.
    cbn [withdrawals_sweep]. fold c. destruct (nthN (validators st) vidx) as [v|]; [|reflexivity].
    destruct (nthN (balances st) vidx) as [bal|]; [|reflexivity].
    unfold sweep_pos. destruct (is_fully_withdrawable_validator v bal epoch); [reflexivity|].
    destruct (is_partially_withdrawable_validator E v bal); reflexivity.
  Qed.
  Lemma impl_sweep_unfold k st epoch count widx vidx i acc :
    withdrawals_sweep_impl E (S k) st epoch count widx vidx i acc =
    (v <~ of_opt (nthN (validators st) vidx) ;;
     bal <~ of_opt (nthN (balances st) vidx) ;;
     if (count <=? i) || (MAX_VALIDATORS_PER_WITHDRAWALS_SWEEP c <=? i) then Ok acc else
     let addr := skipn 12 (v_withdrawal_credentials v) in
     let '(acc, widx) :=
         if is_fully_withdrawable_validator v bal epoch then (acc ++ [(widx, vidx, addr, bal)], add64 widx 1)
         else if is_partially_withdrawable_validator E v bal
              then (acc ++ [(widx, vidx, addr, bal - MAX_EFFECTIVE_BALANCE c)], add64 widx 1)
              else (acc, widx) in
     if N.of_nat (length acc) =? MAX_WITHDRAWALS_PER_PAYLOAD c then Ok acc
     else if count =? 0 then Panic DivZero
     else withdrawals_sweep_impl E k st epoch count widx (add64 vidx 1 mod count) (add64 i 1) acc).
  Proof. reflexivity. Qed.

  Theorem withdrawals_sweep_refines st epoch :
    let count := N.of_nat (length (validators st)) in
    let bound := N.min count (MAX_VALIDATORS_PER_WITHDRAWALS_SWEEP c) in
    length (balances st) = length (validators st) -> count < 2 ^ 41 ->
    forall n i widx vidx acc k,
      i + N.of_nat n = bound -> (n < k)%nat -> vidx < count -> widx + N.of_nat n < two64 ->
      withdrawals_sweep_impl E k st epoch count widx vidx i acc = Ok (withdrawals_sweep E n st epoch widx vidx acc).
  Proof.
    cbv zeta. intros Hlen Hcnt. set (count := N.of_nat (length (validators st))).
    induction n as [|n IH]; intros i widx vidx acc k Hin Hk Hv Hw; (destruct k as [|k]; [lia|]); rewrite impl_sweep_unfold.
    - (* the loop bound: zrnt has already read validators[vidx] and balances[vidx] *)
      destruct (nthN_lt_Some (validators st) vidx Hv) as [v Hvv].
      assert (Hvb : vidx < N.of_nat (length (balances st))) by (rewrite Hlen; exact Hv).
      destruct (nthN_lt_Some (balances st) vidx Hvb) as [bal Hbal].
      rewrite Hvv, Hbal. cbn [of_opt bind].
      assert (Hc : (count <=? i) || (MAX_VALIDATORS_PER_WITHDRAWALS_SWEEP c <=? i) = true).
      { apply orb_true_iff. destruct (N.le_ge_cases count (MAX_VALIDATORS_PER_WITHDRAWALS_SWEEP c)); [left|right]; apply N.leb_le; lia. }
      fold c. rewrite Hc. reflexivity.
    - rewrite spec_sweep_unfold.
      destruct (nthN_lt_Some (validators st) vidx Hv) as [v Hvv].
      assert (Hvb : vidx < N.of_nat (length (balances st))) by (rewrite Hlen; exact Hv).
      destruct (nthN_lt_Some (balances st) vidx Hvb) as [bal Hbal].
      rewrite Hvv, Hbal. cbn [of_opt bind]. fold c.
      assert (Hc : (count <=? i) || (MAX_VALIDATORS_PER_WITHDRAWALS_SWEEP c <=? i) = false).
      { apply orb_false_iff. split; apply N.leb_gt; lia. }
      rewrite Hc. cbv zeta.
      rewrite (add64_small widx 1) by lia.
      change (if is_fully_withdrawable_validator v bal epoch
              then (acc ++ [(widx, vidx, skipn 12 (v_withdrawal_credentials v), bal)], widx + 1)
              else if is_partially_withdrawable_validator E v bal
                   then (acc ++ [(widx, vidx, skipn 12 (v_withdrawal_credentials v), bal - MAX_EFFECTIVE_BALANCE c)], widx + 1)
                   else (acc, widx)) with (sweep_pos st epoch widx vidx v bal acc).
      pose proof (sweep_pos_widx st epoch widx vidx v bal acc) as Hwp.
      destruct (sweep_pos st epoch widx vidx v bal acc) as [acc' widx']. cbn [snd] in Hwp. cbv beta iota.
      destruct (N.of_nat (length acc') =? MAX_WITHDRAWALS_PER_PAYLOAD c); [reflexivity|].
      assert (Hc0 : (count =? 0) = false) by (apply N.eqb_neq; lia). rewrite Hc0.
      change (2 ^ 41) with 2199023255552 in Hcnt.
      rewrite (add64_small vidx 1) by (unfold two64; lia).
      rewrite (add64_small i 1) by (unfold two64; lia).
      apply IH; try lia; try (apply N.mod_lt; lia).
  Qed.

  Theorem get_expected_withdrawals_refines st :
    0 < SLOTS_PER_EPOCH c ->
    length (balances st) = length (validators st) ->
    0 < N.of_nat (length (validators st)) <= 2 ^ 40 ->
    next_withdrawal_validator_index st < N.of_nat (length (validators st)) ->
    next_withdrawal_index st < 2 ^ 63 ->
    get_expected_withdrawals_impl E st = Ok (get_expected_withdrawals E st).
  Proof.
    intros Hspe Hlen [Hpos Hhi] Hv Hw. unfold get_expected_withdrawals_impl, get_expected_withdrawals. fold c.
    rewrite div64_ok by exact Hspe. cbn [bind]. unfold get_current_epoch, compute_epoch_at_slot. fold c.
    change (2 ^ 40) with 1099511627776 in Hhi. change (2 ^ 63) with 9223372036854775808 in Hw.
    apply (withdrawals_sweep_refines st (slot st / SLOTS_PER_EPOCH c) Hlen).
    - change (2 ^ 41) with 2199023255552. lia.
    - lia.
    - lia.
    - exact Hv.
    - unfold two64. lia.
  Qed.

  (* ---------- what the sweep produces ---------- *)
  Lemma sweep_inv st epoch : forall n widx vidx acc,
    let count := N.of_nat (length (validators st)) in
    vidx < count ->
    (forall w, In w acc -> w_vi w < count /\ w_index w < widx) ->
    forall w, In w (withdrawals_sweep E n st epoch widx vidx acc) -> w_vi w < count /\ w_index w < widx + N.of_nat n.
  Proof.
    cbv zeta. induction n as [|n IH]; intros widx vidx acc Hv Hacc w Hw.
    - cbn [withdrawals_sweep] in Hw. apply Hacc in Hw. lia.
    - rewrite spec_sweep_unfold in Hw.
      destruct (nthN (validators st) vidx) as [v|]; [|apply Hacc in Hw; lia].
      destruct (nthN (balances st) vidx) as [bal|]; [|apply Hacc in Hw; lia].
      assert (Hpos : forall w, In w (fst (sweep_pos st epoch widx vidx v bal acc)) ->
                w_vi w < N.of_nat (length (validators st)) /\ w_index w < snd (sweep_pos st epoch widx vidx v bal acc)).
      { intros w0. unfold sweep_pos.
        destruct (is_fully_withdrawable_validator v bal epoch); [|destruct (is_partially_withdrawable_validator E v bal)];
          cbn [fst snd]; intros Hin; try (apply in_app_or in Hin; destruct Hin as [Hin|[<-|[]]]); try (apply Hacc in Hin; lia);
          cbn [w_vi w_index]; lia. }
      pose proof (sweep_pos_widx st epoch widx vidx v bal acc) as Hwp.
      destruct (sweep_pos st epoch widx vidx v bal acc) as [acc' widx']. cbn [fst snd] in *.
      destruct (N.of_nat (length acc') =? MAX_WITHDRAWALS_PER_PAYLOAD c).
      + apply Hpos in Hw. lia.
      + apply IH in Hw; [lia| |exact Hpos]. apply N.mod_lt. lia.
  Qed.

  Lemma expected_withdrawals_inv st w :
    next_withdrawal_validator_index st < N.of_nat (length (validators st)) ->
    In w (get_expected_withdrawals E st) ->
    w_vi w < N.of_nat (length (validators st)) /\ w_index w < next_withdrawal_index st + N.of_nat (length (validators st)).
  Proof.
    intros Hv Hw. unfold get_expected_withdrawals in Hw. apply sweep_inv in Hw; [|exact Hv|intros ? []].
    fold c in Hw. lia.
  Qed.

  (* ---------- compare-and-debit loop ---------- *)
  Definition debit (bals : list N) (w : W) : list N := updN bals (w_vi w) (fun b => b - w_amount w).
  Lemma withdrawals_apply_refines : forall (expected : list W) got bals,
    length got = length expected ->
    (forall w, In w expected -> w_vi w < N.of_nat (length bals)) ->
    withdrawals_apply_impl got expected bals
    = if forallb (fun p => value_eqb (fst p) (withdrawal_to_value (snd p))) (combine got expected)
      then Ok (fold_left debit expected bals) else Err.
  Proof.
    induction expected as [|w expected IH]; intros [|g got] bals Hlen Hin; cbn in Hlen; try discriminate; [reflexivity|].
    cbn [withdrawals_apply_impl combine forallb fst snd fold_left].
    destruct w as [[[wi vi] addr] amt].
    destruct (value_eqb g (withdrawal_to_value (wi, vi, addr, amt))); cbn [check bind andb]; [|reflexivity].
    assert (Hvi : vi < N.of_nat (length bals)) by (apply (Hin (wi, vi, addr, amt)); left; reflexivity).
    destruct (nthN_lt_Some _ _ Hvi) as [x Hx]. rewrite (go_decrease_ok bals vi amt x Hx). cbn [bind].
    rewrite IH; [reflexivity|lia|].
    intros w Hw. rewrite updN_length. apply Hin. right. exact Hw.
  Qed.

  Lemma debit_fold_state (expected : list W) : forall st,
    fold_left (fun st (w : W) => let '(_, vi, _, amt) := w in decrease_balance st vi amt) expected st
    = st <| balances := fold_left debit expected (balances st) |>.
  Proof.
    induction expected as [|[[[wi vi] addr] amt] expected IH]; intros st; cbn [fold_left].
    - destruct st; reflexivity.
    - rewrite IH. reflexivity.
  Qed.

  Theorem process_withdrawals_refines st payload :
    0 < SLOTS_PER_EPOCH c -> 0 < MAX_WITHDRAWALS_PER_PAYLOAD c -> MAX_VALIDATORS_PER_WITHDRAWALS_SWEEP c <= 2 ^ 40 ->
    length (balances st) = length (validators st) ->
    0 < N.of_nat (length (validators st)) <= 2 ^ 40 ->
    next_withdrawal_validator_index st < N.of_nat (length (validators st)) ->
    next_withdrawal_index st < 2 ^ 63 ->
    process_withdrawals_impl E f st payload
    = match process_withdrawals E f st payload with Some s => Ok s | None => Err end.
  Proof.
    intros Hspe Hmaxw Hsweep Hlen [Hpos Hhi] Hv Hw.
    unfold process_withdrawals_impl. rewrite (get_expected_withdrawals_refines st Hspe Hlen (conj Hpos Hhi) Hv Hw). cbn [bind].
    unfold process_withdrawals. cbv zeta. fold c.
    set (expected := get_expected_withdrawals E st).
    set (got := vseq (pl_get E f payload "withdrawals")).
    rewrite Nat.eqb_sym.
    destruct (Nat.eqb_spec (length got) (length expected)) as [Hl|Hl]; cbn [check bind]; [|reflexivity].
    assert (Hinv : forall w, In w expected -> w_vi w < N.of_nat (length (validators st))
                              /\ w_index w < next_withdrawal_index st + N.of_nat (length (validators st))).
    { intros w Hin. apply expected_withdrawals_inv; assumption. }
    rewrite withdrawals_apply_refines; [|exact Hl|intros w Hin; rewrite Hlen; apply Hinv; exact Hin].
    destruct (forallb _ (combine got expected)); cbn [bind]; [|reflexivity].
    rewrite debit_fold_state. simpl_set.
    change (2 ^ 40) with 1099511627776 in *. change (2 ^ 63) with 9223372036854775808 in *.
    destruct (rev expected) as [|[[[li lvi] laddr] lamt] rest] eqn:Hrev.
    - assert (He : expected = []) by (destruct expected as [|x l]; [reflexivity|]; cbn in Hrev; destruct (rev l); discriminate).
      rewrite He. cbn [length N.of_nat bind]. simpl_set.
      assert (H0 : (0 =? MAX_WITHDRAWALS_PER_PAYLOAD c) = false) by (apply N.eqb_neq; lia). rewrite H0.
      assert (Hc0 : (N.of_nat (length (validators st)) =? 0) = false) by (apply N.eqb_neq; lia). rewrite Hc0.
      rewrite add64_small by (unfold two64; lia). reflexivity.
    - assert (Hlast : In (li, lvi, laddr, lamt) expected) by (apply in_rev; rewrite Hrev; left; reflexivity).
      destruct (Hinv _ Hlast) as [Hlv Hli]. cbn [w_vi w_index] in Hlv, Hli.
      assert (Hne : exists x l, expected = x :: l).
      { destruct expected as [|x l]; [discriminate|]. eauto. }
      destruct Hne as (x0 & l0 & Hxe). rewrite Hxe at 1. unfold last_withdrawal. rewrite Hrev. cbn [bind].
      rewrite add64_small by (unfold two64; lia). simpl_set.
      assert (Hc0 : (N.of_nat (length (validators st)) =? 0) = false) by (apply N.eqb_neq; lia). rewrite Hc0.
      destruct (N.of_nat (length expected) =? MAX_WITHDRAWALS_PER_PAYLOAD c); cbn [bind]; simpl_set.
      + rewrite add64_small by (unfold two64; lia). reflexivity.
      + rewrite add64_small by (unfold two64; lia). reflexivity.
  Qed.
End Withdraw.
