(* The honest EpochsContext view of a state (`spec_epc`, satisfies `epc_ok` for EVERY state), and a small
   concrete configuration / environment / state family for the `_nonvacuous` examples and `_refuted` witnesses of
   the block-operation refinements. *)
From Coq Require Import String.
From Coq Require Import NArith ZArith Lia List Bool.
From Coq Require Import ZifyN ZifyNat ZifyBool.
From RecordUpdate Require Import RecordSet.
From V Require Import Base.U64 Base.Outcome Ssz.SszCore Beacon.Config Beacon.Schemas Beacon.State
  Beacon.Spec.Helpers Beacon.Spec.Epoch Beacon.Spec.Block Beacon.Impl.BlockOps Beacon.Refine.BlockLemmas Beacon.Refine.BlockEpc.
Import ListNotations RecordSetNotations.
Local Open Scope list_scope.
Local Open Scope N_scope.

(* ---------- the honest context ---------- *)
Definition spec_epc (E : Env) (st : BeaconState) : BlockEpc :=
  {| be_current_epoch := get_current_epoch E st;
     be_active_count := N.of_nat (length (get_active_validator_indices st (get_current_epoch E st)));
     be_proposer := get_beacon_proposer_index E st;
     be_eff_balances := map v_effective_balance (validators st);
     be_total_active_stake := get_total_active_balance E st;
     be_total_active_stake_sqrt := integer_squareroot (get_total_active_balance E st);
     be_sync_indices :=
       match all_some (map (fun pk => find_pubkey pk (validators st) 0) (sc_pubkeys (current_sync_committee st))) with
       | Some l => l | None => [] end;
     be_sync_pubkeys := sc_pubkeys (current_sync_committee st);
     be_pubkey_index := fun pk => find_pubkey pk (validators st) 0;
     be_pubkey_of := fun i => option_map v_pubkey (nthN (validators st) i) |}.

Lemma epc_ok_spec_epc E st :
  all_some (map (fun pk => find_pubkey pk (validators st) 0) (sc_pubkeys (current_sync_committee st))) <> None ->
  epc_ok E st (spec_epc E st).
Proof.
  intros Hs. constructor; cbn [spec_epc be_current_epoch be_active_count be_proposer be_eff_balances
    be_total_active_stake be_total_active_stake_sqrt be_sync_indices be_sync_pubkeys be_pubkey_index be_pubkey_of];
    try reflexivity.
  - intros i v Hv _. rewrite ?nthN_eq in *. rewrite nth_error_map, Hv. reflexivity.
  - destruct (all_some _); [reflexivity|contradiction].
Qed.

(* ---------- a tiny configuration ---------- *)
Local Open Scope string_scope.
Definition blk_num (k : string) : N :=
  let is s := String.eqb k s in
  if is "MAX_COMMITTEES_PER_SLOT" then 4 else if is "TARGET_COMMITTEE_SIZE" then 4 else
  if is "MAX_VALIDATORS_PER_COMMITTEE" then 2048 else if is "SHUFFLE_ROUND_COUNT" then 2 else
  if is "HYSTERESIS_QUOTIENT" then 4 else if is "HYSTERESIS_DOWNWARD_MULTIPLIER" then 1 else
  if is "HYSTERESIS_UPWARD_MULTIPLIER" then 5 else if is "MIN_DEPOSIT_AMOUNT" then 1000000000 else
  if is "MAX_EFFECTIVE_BALANCE" then 32000000000 else if is "EFFECTIVE_BALANCE_INCREMENT" then 1000000000 else
  if is "MIN_ATTESTATION_INCLUSION_DELAY" then 1 else if is "SLOTS_PER_EPOCH" then 8 else
  if is "MIN_SEED_LOOKAHEAD" then 1 else if is "MAX_SEED_LOOKAHEAD" then 4 else
  if is "EPOCHS_PER_ETH1_VOTING_PERIOD" then 4 else if is "SLOTS_PER_HISTORICAL_ROOT" then 64 else
  if is "MIN_EPOCHS_TO_INACTIVITY_PENALTY" then 4 else if is "EPOCHS_PER_HISTORICAL_VECTOR" then 64 else
  if is "EPOCHS_PER_SLASHINGS_VECTOR" then 64 else if is "HISTORICAL_ROOTS_LIMIT" then 16777216 else
  if is "VALIDATOR_REGISTRY_LIMIT" then 1099511627776 else if is "BASE_REWARD_FACTOR" then 64 else
  if is "WHISTLEBLOWER_REWARD_QUOTIENT" then 512 else if is "PROPOSER_REWARD_QUOTIENT" then 8 else
  if is "INACTIVITY_PENALTY_QUOTIENT" then 33554432 else if is "MIN_SLASHING_PENALTY_QUOTIENT" then 64 else
  if is "PROPORTIONAL_SLASHING_MULTIPLIER" then 2 else
  if is "MAX_PROPOSER_SLASHINGS" then 16 else if is "MAX_ATTESTER_SLASHINGS" then 2 else
  if is "MAX_ATTESTATIONS" then 128 else if is "MAX_DEPOSITS" then 16 else if is "MAX_VOLUNTARY_EXITS" then 16 else
  if is "INACTIVITY_PENALTY_QUOTIENT_ALTAIR" then 50331648 else if is "MIN_SLASHING_PENALTY_QUOTIENT_ALTAIR" then 64 else
  if is "PROPORTIONAL_SLASHING_MULTIPLIER_ALTAIR" then 2 else if is "SYNC_COMMITTEE_SIZE" then 2 else
  if is "EPOCHS_PER_SYNC_COMMITTEE_PERIOD" then 8 else if is "MIN_SYNC_COMMITTEE_PARTICIPANTS" then 1 else
  if is "INACTIVITY_PENALTY_QUOTIENT_BELLATRIX" then 16777216 else if is "MIN_SLASHING_PENALTY_QUOTIENT_BELLATRIX" then 32 else
  if is "PROPORTIONAL_SLASHING_MULTIPLIER_BELLATRIX" then 3 else
  if is "MAX_BLS_TO_EXECUTION_CHANGES" then 16 else if is "MAX_WITHDRAWALS_PER_PAYLOAD" then 4 else
  if is "MAX_VALIDATORS_PER_WITHDRAWALS_SWEEP" then 16 else
  if is "MIN_VALIDATOR_WITHDRAWABILITY_DELAY" then 256 else if is "SHARD_COMMITTEE_PERIOD" then 64 else
  if is "INACTIVITY_SCORE_BIAS" then 4 else if is "INACTIVITY_SCORE_RECOVERY_RATE" then 16 else
  if is "EJECTION_BALANCE" then 16000000000 else if is "MIN_PER_EPOCH_CHURN_LIMIT" then 2 else
  if is "CHURN_LIMIT_QUOTIENT" then 32 else if is "MAX_PER_EPOCH_ACTIVATION_CHURN_LIMIT" then 4 else
  if is "SECONDS_PER_SLOT" then 6 else 1.
Definition blk_cfg : Config := config_of blk_num (fun _ => [0; 0; 0; 1]%N).
(* constant hash, every signature accepted, every payload accepted: with a constant hash the shuffle is the
   identity and the proposer is the first active validator *)
Definition blk_env : Env :=
  mkEnv blk_cfg (fun _ => repeat 0 32) (fun _ => repeat 0 32) (fun _ _ _ => true) (fun _ _ _ => true) (fun _ => repeat 0 48)
        (fun _ _ _ => true).
Local Close Scope string_scope.

Lemma blk_cfg_sane : cfg_sane blk_env.
Proof. constructor; vm_compute; try reflexivity; try discriminate. Qed.

Definition GWEI_ETH : N := 1000000000.
Definition z32 : bytes := repeat 0 32.
(* validator with a one-byte pubkey (distinct per id), ETH1 withdrawal credential when `e1`, full effective balance *)
Definition fx_validator (id : N) (e1 : bool) (eff : N) (slashed : bool) (ac ex wd : N) : Validator :=
  mkValidator [id] ((if e1 then 1 else 0) :: repeat 0 11 ++ repeat id 20) eff slashed 0 ac ex wd.
Definition fx_base : BeaconState :=
  mkState 0 z32 0 (mkFork [0;0;0;1] [0;0;0;1] 0) (mkHeader 0 0 z32 z32 z32)
          (repeat z32 64) (repeat z32 64) [] (mkEth1Data z32 0 z32) [] 0
          [] [] (repeat z32 64) (repeat 0 64) [] [] [] [] [false; false; false; false]
          (mkCheckpoint 0 z32) (mkCheckpoint 0 z32) (mkCheckpoint 0 z32) [] empty_sc empty_sc (VCont []) 0 0 [].
Definition fx_state (s : N) (vs : list Validator) (bs : list N) : BeaconState :=
  fx_base <| slot := s |> <| validators := vs |> <| balances := bs |>
          <| previous_epoch_participation := repeat 0 (length vs) |>
          <| current_epoch_participation := repeat 0 (length vs) |>
          <| inactivity_scores := repeat 0 (length vs) |>.
