(* Short aliases (the full statements are in Properties/C01.v and Properties/C03.v) for every finished theorem of the block-level decision rules (C03) and of the refinement of zrnt's
   block-operation algorithms to the Spec (C01).  Properties/C01.v and Properties/C03.v `exact` these.
   One line per theorem with its hypotheses and the Go function: design/C01-C03-refine.md. *)
From V Require Import Beacon.Refine.BlockLemmas Beacon.Refine.RejectRules Beacon.Refine.BlockEpc Beacon.Refine.BlockFixtures
  Beacon.Refine.BlockProposer Beacon.Refine.BlockSyncRefine Beacon.Refine.BlockSyncWitness Beacon.Refine.BlockExitRefine
  Beacon.Refine.BlockSlashRefine Beacon.Refine.BlockAttRefine Beacon.Refine.BlockDepositRefine
  Beacon.Refine.BlockWithdrawRefine Beacon.Refine.BlockHeaderRefine Beacon.Refine.BlockAttSlashRefine
  Beacon.Refine.BlockNonvacuous Beacon.Refine.RejectNonvacuous.

(* ---------------- C03: decision rules of the Spec ---------------- *)
Definition C03_process_block_header_iff := process_block_header_iff.
Definition C03_process_block_header_rejects := process_block_header_rejects.
Definition C03_process_randao_iff := process_randao_iff.
Definition C03_process_voluntary_exit_iff := process_voluntary_exit_iff.
Definition C03_process_voluntary_exit_rejects := process_voluntary_exit_rejects.
Definition C03_initiate_validator_exit_fresh := initiate_validator_exit_fresh.
Definition C03_initiate_validator_exit_already := initiate_validator_exit_already.
Definition C03_process_proposer_slashing_iff := process_proposer_slashing_iff.
Definition C03_is_slashable_validator_iff := is_slashable_validator_iff.
Definition C03_is_valid_indexed_attestation_iff := is_valid_indexed_attestation_iff.
Definition C03_is_slashable_attestation_data_iff := is_slashable_attestation_data_iff.
Definition C03_process_attester_slashing_iff := process_attester_slashing_iff.
Definition C03_process_attester_slashing_needs_slashable := process_attester_slashing_needs_slashable.
Definition C03_process_attester_slashing_rejects := process_attester_slashing_rejects.
Definition C03_process_attestation_accepts := process_attestation_accepts.
Definition C03_process_attestation_rejects := process_attestation_rejects.
Definition C03_process_deposit_iff := process_deposit_iff.
Definition C03_apply_deposit_known := apply_deposit_known.
Definition C03_apply_deposit_new_valid := apply_deposit_new_valid.
Definition C03_apply_deposit_new_invalid_skipped := apply_deposit_new_invalid_skipped.
Definition C03_process_deposit_invalid_pop_not_rejected := process_deposit_invalid_pop_not_rejected.
Definition C03_find_pubkey_spec := find_pubkey_spec.
Definition C03_find_pubkey_none := find_pubkey_none.
Definition C03_process_operations_deposit_count := process_operations_deposit_count.
Definition C03_process_operations_deposit_count_rejects := process_operations_deposit_count_rejects.
Definition C03_for_ops_reject_any := for_ops_reject_any.
Definition C03_process_bls_to_execution_change_iff := process_bls_to_execution_change_iff.
Definition C03_process_sync_aggregate_sig := process_sync_aggregate_sig.
Definition C03_process_sync_aggregate_rejects := process_sync_aggregate_rejects.
Definition C03_process_withdrawals_iff := process_withdrawals_iff.
Definition C03_process_execution_payload_iff := process_execution_payload_iff.
Definition C03_process_operations_iff := process_operations_iff.
Definition C03_process_block_iff := process_block_iff.
Definition C03_process_block_rejects := process_block_rejects.
Definition C03_state_transition_iff := state_transition_iff.
Definition C03_state_transition_sig := state_transition_sig.
Definition C03_state_transition_rejects := state_transition_rejects.
Definition C03_process_slots_not_future := process_slots_not_future.
Definition C03_get_domain_shape := get_domain_shape.
Definition C03_cross_domain_rejected_shape := cross_domain_rejected_shape.
(* PINNED SNAPSHOT (fixed by /repo 9bd2c6a): MAX_DEPOSITS deposits were accepted when deposit_count < eth1_deposit_index *)
Definition C03_reject_rules_nonvacuous := reject_rules_nonvacuous.
Definition C03_deposit_count_underflow_refuted := deposit_count_underflow_refuted.
Definition C03_process_deposits_count_rejects := process_deposits_count_rejects.

(* ---------------- C01: zrnt's algorithms = the Spec ---------------- *)
Definition C01_epc_ok_spec_epc := epc_ok_spec_epc.
Definition C01_proposer_in_range := proposer_in_range.
Definition C01_proposer_frame := proposer_frame.
(* (1) altair.ProcessSyncAggregate *)
Definition C01_sync_batching_exact := sync_batching_exact.
Definition C01_sync_bad_needs_poor := sync_bad_needs_poor.
Definition C01_sync_aggregate_batching_refuted := sync_aggregate_batching_refuted.
Definition C01_sync_aggregate_batching_refuted_state := sync_aggregate_batching_refuted_state.
Definition C01_sync_aggregate_orig_refines_partial := sync_aggregate_orig_refines_partial.
Definition C01_sync_aggregate_refines_nonvacuous := sync_aggregate_refines_nonvacuous.
Definition C01_sync_aggregate_orig_refines_nonvacuous := sync_aggregate_orig_refines_nonvacuous.
Definition C01_sync_aggregate_refines := sync_aggregate_refines.
(* (2) phase0.InitiateValidatorExit / ProcessVoluntaryExit *)
Definition C01_exit_scan_spec := exit_scan_spec.
Definition C01_initiate_validator_exit_refines := initiate_validator_exit_refines.
Definition C01_process_voluntary_exit_refines := process_voluntary_exit_refines.
(* (3) phase0.SlashValidator, ProcessAttesterSlashing *)
Definition C01_slash_proposer_stable := slash_proposer_stable.
Definition C01_slash_validator_refines := slash_validator_refines.
Definition C01_zigzag_spec := zigzag_spec.
Definition C01_slash_validator_others := slash_validator_others.
Definition C01_attester_slashing_refines_partial := attester_slashing_refines_partial.
(* (4) altair/deneb ProcessAttestation: flags and proposer reward *)
Definition C01_spec_flags_fold := spec_flags_fold.
Definition C01_att_fold_sorted := att_fold_sorted.
Definition C01_process_attestation_altair_nf := process_attestation_altair_nf.
Definition C01_attestation_rewards_refines := attestation_rewards_refines.
Definition C01_attestation_roots_in_range := attestation_roots_in_range.
(* (5) phase0.ProcessDeposit(s) *)
Definition C01_add_validator_refines := add_validator_refines.
Definition C01_process_deposit_refines := process_deposit_refines.
Definition C01_expected_deposit_count_ok := expected_deposit_count_ok.
(* (6) capella withdrawals *)
Definition C01_withdrawals_sweep_refines := withdrawals_sweep_refines.
Definition C01_get_expected_withdrawals_refines := get_expected_withdrawals_refines.
Definition C01_process_withdrawals_refines := process_withdrawals_refines.
(* (7) common.ProcessHeader *)
Definition C01_process_header_refines := process_header_refines.

(* hypotheses are satisfiable: a concrete configuration, context and state *)
Definition C01_blk_cfg_sane := blk_cfg_sane.
Definition C01_sw_bounds := sw_bounds.
Definition C01_sw_epc_ok := sw_epc_ok.
Definition C01_initiate_validator_exit_refines_nonvacuous := initiate_validator_exit_refines_nonvacuous.
Definition C01_slash_validator_refines_nonvacuous := slash_validator_refines_nonvacuous.
Definition C01_attestation_rewards_refines_nonvacuous := attestation_rewards_refines_nonvacuous.
Definition C01_get_expected_withdrawals_refines_nonvacuous := get_expected_withdrawals_refines_nonvacuous.
Definition C01_process_deposit_refines_nonvacuous := process_deposit_refines_nonvacuous.

Print Assumptions C03_cross_domain_rejected_shape.
Print Assumptions C03_state_transition_sig.
Print Assumptions C03_process_attestation_rejects.
Print Assumptions C03_deposit_count_underflow_refuted.
Print Assumptions C01_sync_batching_exact.
Print Assumptions C01_sync_aggregate_orig_refines_partial.
Print Assumptions C01_sync_aggregate_refines.
Print Assumptions C01_sync_aggregate_batching_refuted_state.
Print Assumptions C01_initiate_validator_exit_refines.
Print Assumptions C01_process_voluntary_exit_refines.
Print Assumptions C01_slash_validator_refines.
Print Assumptions C01_attester_slashing_refines_partial.
Print Assumptions C01_attestation_rewards_refines.
Print Assumptions C01_process_deposit_refines.
Print Assumptions C01_process_withdrawals_refines.
Print Assumptions C01_process_header_refines.
