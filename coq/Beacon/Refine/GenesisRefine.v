(* C13 — zrnt's genesis construction (Impl/Genesis.v) against the Spec (Spec/Transition.v).

     genesis_deposit_loop_refines   the deposit loop: List[Root] view + cache-driven ProcessDeposit = the Spec's loop
     genesis_activation_refines     the activation loop = the Spec's map over (validator, balance)
     load_epc_genesis               LoadShuffling + LoadProposers (C07 Impl models) on a genesis state: error iff no active validator
     genesis_from_eth1_refines      GenesisFromEth1 = initialize_beacon_state_from_eth1, Ok/Err alike, with zrnt's two
                                    extra refusals stated (registry below SLOTS_PER_EPOCH; no active validator)
     genesis_cache_matches          the returned context's pubkey cache answers lookups as the Spec's registry scan
     valid_genesis_refines          IsValidGenesisState = is_valid_genesis_state
     kickstart_refines              KickStartState = the Spec under the oracle accepting every decodable key/signature,
                                    timestamp 0, genesis_time overwritten
     empty_state_is_default         NewBeaconStateView = default value of the phase0 state type
     GenesisExample                 six deposits under SHA-256 with real Merkle branches: hypotheses hold, Impl = Spec
   The pubkey-cache part reuses C16: Pubkeys/CacheProofs.sim_step (Impl cache = history Spec) and
   Pubkeys/DepositProofs.dinv / s_add_new_key (the handle's history extends the registry; the add is never refused).
   The epochs-context part reuses C07: ShufflingRefine.new_shuffling_epoch_refines, ProposersRefine.compute_proposers_refines.
   Pitfalls met: never state `x = match <closed spec term> with ..` (elaboration evaluates the discriminee: use of_opt);
   never `vm_compute` a goal with a symbolic hash input; conversion between fuelled loops of two environments must be
   proved at generic fuel (at literal fuel 1000 the kernel unfolds the iterations). *)
From Coq Require Import String.
From Coq Require Import NArith ZArith Lia List Bool Arith.
From Coq Require Import ZifyN ZifyNat ZifyBool.
From RecordUpdate Require Import RecordSet.
From V Require Import Base.U64 Base.Outcome Ssz.SszCore Beacon.Config Beacon.Schemas Beacon.State
  Beacon.Spec.Helpers Beacon.Spec.Epoch Beacon.Spec.Block Beacon.Spec.Transition Beacon.Impl.BlockOps Beacon.Impl.Genesis
  Beacon.Proofs.GenesisProofs Beacon.Refine.ListLemmas Beacon.Refine.BlockLemmas
  Beacon.Impl.Shuffling Beacon.Refine.ShufflingRefine Beacon.Refine.ProposersRefine.
From V Require Shuffle.ShuffleArith Shuffle.ShuffleIndexProofs.
From V Require Pubkeys.CacheSpec Pubkeys.CacheModel Pubkeys.CacheProofs Pubkeys.DepositModel Pubkeys.DepositProofs.
Import ListNotations RecordSetNotations.
Local Open Scope list_scope.
Local Open Scope N_scope.

(* ================= pubkeys as cache keys ================= *)
(* a BLSPubkey is a [48]byte array *)
Definition pubkey_wf (pk : bytes) : Prop := length pk = 48%nat /\ Forall (fun b => b < 256) pk.

Lemma le_value_inj : forall a b, length a = length b ->
  Forall (fun x => x < 256) a -> Forall (fun x => x < 256) b -> le_value a = le_value b -> a = b.
Proof.
  induction a as [|x a IH]; intros [|y b] L Fa Fb Hv; cbn [length] in L; try discriminate; [reflexivity|].
  inversion Fa as [|? ? Hx Fa']; inversion Fb as [|? ? Hy Fb']; subst.
  cbn [le_value] in Hv.
  assert (x = y /\ le_value a = le_value b) as [-> Hr] by lia.
  f_equal. apply IH; auto.
Qed.

Lemma pubkey_key_inj a b : pubkey_wf a -> pubkey_wf b -> pubkey_key a = pubkey_key b -> a = b.
Proof. intros [La Fa] [Lb Fb] H. apply le_value_inj; auto. congruence. Qed.

Definition reg_keys (vals : list Validator) : list CacheSpec.pubkey := map (fun v => pubkey_key (v_pubkey v)) vals.

(* the Spec's registry scan = first position of the key in the registry's key list *)
Lemma find_pubkey_index_of pk : pubkey_wf pk -> forall vs base,
  (forall v, In v vs -> pubkey_wf (v_pubkey v)) ->
  find_pubkey pk vs base = option_map (fun j => base + N.of_nat j) (CacheSpec.index_of (pubkey_key pk) (reg_keys vs)).
Proof.
  intros Hpk. induction vs as [|v vs IH]; intros base Hwf; cbn [find_pubkey reg_keys map CacheSpec.index_of]; [reflexivity|].
  destruct (bytes_eqb (v_pubkey v) pk) eqn:Hb.
  - apply bytes_eqb_eq in Hb. rewrite Hb, N.eqb_refl. cbn [option_map]. f_equal. lia.
  - apply bytes_eqb_neq in Hb.
    destruct (N.eqb_spec (pubkey_key (v_pubkey v)) (pubkey_key pk)) as [Hk|Hk].
    + exfalso. apply Hb. apply pubkey_key_inj; auto. apply Hwf. now left.
    + rewrite IH by (intros w Hw; apply Hwf; now right). fold (reg_keys vs).
      destruct (CacheSpec.index_of (pubkey_key pk) (reg_keys vs)); cbn [option_map]; [f_equal; lia|reflexivity].
Qed.

(* ================= the cache invariant (C16) ================= *)
(* the context's cache handle denotes a duplicate-free history that EXTENDS the registry's keys *)
Definition cache_inv (pc : pubkey_cache) (vals : list Validator) : Prop :=
  exists t, CacheProofs.sim pc t /\ DepositProofs.dinv t [reg_keys vals].

Lemma cache_inv_empty : cache_inv pc_empty [].
Proof.
  exists (CacheSpec.s_init []). split.
  - apply CacheProofs.sim_init. constructor.
  - apply DepositProofs.dinv_init. constructor.
Qed.

(* what dinv says for the single context *)
Lemma dinv_single t r : DepositProofs.dinv t [r] ->
  exists k tail, CacheSpec.svars t = [k] /\ nth_error (CacheSpec.cells t) k = Some (r ++ tail) /\ NoDup (r ++ tail).
Proof.
  intros (Hlen & Hpre & Hnd). cbn [length] in Hlen.
  remember (CacheSpec.svars t) as sv eqn:Ev. symmetry in Ev.
  destruct sv as [|k [|k' rest]]; cbn [length] in Hlen; try discriminate.
  destruct (Hpre 0%nat r k eq_refl) as [tail Ht]; [try rewrite Ev; reflexivity|].
  exists k, tail. split; [reflexivity|]. split; [exact Ht|]. eapply Hnd. exact Ht.
Qed.

(* ValidatorIndex + the `< valCount` filter = position in the registry *)
Lemma cache_lookup pc vals pk : cache_inv pc vals ->
  exists o, pc_lookup pc pk = Ok o /\
    (match o with Some j => if Nat.ltb j (length vals) then Some j else None | None => None end)
    = CacheSpec.index_of (pubkey_key pk) (reg_keys vals).
Proof.
  intros (t & Hsim & Hinv). destruct (dinv_single _ _ Hinv) as (k & tail & Ev & Hk & Hnd).
  destruct (CacheProofs.sim_step pc t (CacheSpec.OIdx 0 (pubkey_key pk)) Hsim) as [_ Ho].
  unfold pc_lookup. rewrite Ho. unfold CacheSpec.s_step. rewrite Ev. cbn [nth_error snd].
  rewrite (CacheProofs.cell_of t k _ Hk). unfold CacheSpec.s_index.
  eexists. split; [reflexivity|].
  rewrite CacheProofs.index_of_app.
  assert (Hl : length (reg_keys vals) = length vals) by apply map_length.
  destruct (CacheSpec.index_of (pubkey_key pk) (reg_keys vals)) as [j|] eqn:Ej.
  - destruct (CacheProofs.index_of_some _ _ _ Ej) as (_ & Hj & _). rewrite Hl in Hj.
    destruct (Nat.ltb_spec j (length vals)); [reflexivity|lia].
  - destruct (CacheSpec.index_of (pubkey_key pk) tail) as [j|]; cbn [option_map]; [|reflexivity].
    destruct (Nat.ltb_spec (length (reg_keys vals) + j) (length vals)); [lia|reflexivity].
Qed.

(* AddValidator(valCount, pubkey) of a key that is not in the registry: never refused, invariant kept *)
Lemma cache_add pc vals pk v : cache_inv pc vals -> v_pubkey v = pk ->
  CacheSpec.index_of (pubkey_key pk) (reg_keys vals) = None ->
  exists pc', pc_add pc (length vals) pk = Ok pc' /\ cache_inv pc' (vals ++ [v]).
Proof.
  intros (t & Hsim & Hinv) Hv Hnone. destruct (dinv_single _ _ Hinv) as (k & tail & Ev & Hk & Hnd).
  assert (Hl : length (reg_keys vals) = length vals) by apply map_length.
  destruct (DepositProofs.s_add_new_key t [reg_keys vals] 0%nat (reg_keys vals) k tail (pubkey_key pk) Hinv eq_refl)
    as (t' & b & Hstep & Hinv'); [rewrite Ev; reflexivity|exact Hk|exact Hnone|].
  rewrite Hl in Hstep.
  destruct (CacheProofs.sim_step pc t (CacheSpec.OAdd 0 0 (length vals) (pubkey_key pk)) Hsim) as [Hs Ho].
  rewrite Hstep in Hs, Ho. cbn [fst snd] in Hs, Ho.
  unfold pc_add. cbv zeta. rewrite Ho. eexists. split; [reflexivity|].
  exists t'. split; [exact Hs|].
  unfold reg_keys. rewrite map_app. cbn [map]. rewrite Hv. exact Hinv'.
Qed.

(* ================= small list facts ================= *)
Lemma sumN_cons' x l : sumN (x :: l) = x + sumN l.
Proof.
  unfold sumN. cbn [fold_left]. rewrite N.add_0_l.
  assert (G : forall l a, fold_left N.add l a = a + fold_left N.add l 0).
  { clear. induction l as [|y l IH]; intros a; cbn [fold_left]; [lia|]. rewrite IH, (IH (0 + y)). lia. }
  apply G.
Qed.

Lemma add64_small a b : a + b < two64 -> add64 a b = a + b.
Proof. intros H. unfold add64. apply wrap64_small. exact H. Qed.

Lemma Forall_upd_nat {A} (P Q : A -> Prop) (f : A -> A) : (forall x, P x -> Q x) -> (forall x, P x -> Q (f x)) ->
  forall l i, Forall P l -> Forall Q (upd_nat l i f).
Proof.
  intros H1 H2. induction l as [|x l IH]; intros i Hl; [destruct i; constructor|].
  inversion Hl; subst. destruct i; cbn [upd_nat]; constructor; auto.
  eapply Forall_impl; [|eassumption]. auto.
Qed.

Lemma Forall2_len {A B} (R : A -> B -> Prop) l1 l2 : Forall2 R l1 l2 -> length l1 = length l2.
Proof. induction 1; cbn [length]; congruence. Qed.

Lemma outcome_fold_err {A B} (f : A -> B -> outcome A) (l : list B) :
  fold_left (fun a b => x <~ a ;; f x b) l Err = Err.
Proof. induction l as [|b l IH]; cbn [fold_left bind]; [reflexivity|exact IH]. Qed.

(* ================= NewBeaconStateView = the default value of the phase0 state type ================= *)
Lemma map_repeat' {A B} (f : A -> B) x n : map f (repeat x n) = repeat (f x) n.
Proof. induction n; cbn [repeat map]; congruence. Qed.
Lemma empty_state_is_default (E : Env) :
  empty_state E = state_of_value (cfg E) Phase0 (default_value (BeaconStateT (cfg E) Phase0)).
Proof.
  unfold empty_state, state_of_value. cbn -[repeat N.to_nat zero32].
  rewrite !map_repeat'. cbn [vbytes vuint]. reflexivity.
Qed.

Section GenesisPure.
  Variable E : Env.
  Let c := cfg E.

  (* ===== (2) the activation loop ===== *)
  Definition spec_activate (vb : Validator * N) : Validator :=
    let '(v, b) := vb in
    let v := v <| v_effective_balance := N.min (b - b mod EFFECTIVE_BALANCE_INCREMENT c) (MAX_EFFECTIVE_BALANCE c) |> in
    if v_effective_balance v =? MAX_EFFECTIVE_BALANCE c
    then v <| v_activation_eligibility_epoch := GENESIS_EPOCH |> <| v_activation_epoch := GENESIS_EPOCH |>
    else v.

  Lemma activation_step_at pre v suf bpre b bsuf :
    0 < EFFECTIVE_BALANCE_INCREMENT c -> length bpre = length pre ->
    activation_step E (bpre ++ b :: bsuf) (Ok (pre ++ v :: suf)) (N.of_nat (length pre))
    = Ok (pre ++ spec_activate (v, b) :: suf).
  Proof.
    intros HI Hp. unfold activation_step. cbn [bind]. rewrite ListLemmas.nthN_app. cbn [of_opt bind].
    rewrite <- Hp at 1. rewrite ListLemmas.nthN_app. cbn [of_opt bind]. fold c.
    assert (H0 : (EFFECTIVE_BALANCE_INCREMENT c =? 0) = false) by (apply N.eqb_neq; lia). rewrite H0.
    unfold setN. rewrite ListLemmas.updN_app. do 3 f_equal.
    unfold spec_activate.
    replace (if MAX_EFFECTIVE_BALANCE c <? b - b mod EFFECTIVE_BALANCE_INCREMENT c
             then MAX_EFFECTIVE_BALANCE c else b - b mod EFFECTIVE_BALANCE_INCREMENT c)
      with (N.min (b - b mod EFFECTIVE_BALANCE_INCREMENT c) (MAX_EFFECTIVE_BALANCE c))
      by (destruct (N.ltb_spec (MAX_EFFECTIVE_BALANCE c) (b - b mod EFFECTIVE_BALANCE_INCREMENT c)); lia).
    reflexivity.
  Qed.

  Lemma activation_loop_gen : 0 < EFFECTIVE_BALANCE_INCREMENT c ->
    forall suf bsuf pre bpre, length bsuf = length suf -> length bpre = length pre ->
    fold_left (activation_step E (bpre ++ bsuf)) (seqN (N.of_nat (length pre)) (length suf)) (Ok (pre ++ suf))
    = Ok (pre ++ map spec_activate (combine suf bsuf)).
  Proof.
    intros HI. induction suf as [|v suf IH]; intros bsuf pre bpre Hl Hp.
    - reflexivity.
    - destruct bsuf as [|b bsuf]; [discriminate|]. cbn [length] in Hl.
      cbn [length seqN fold_left combine map].
      rewrite (activation_step_at pre v suf bpre b bsuf HI Hp).
      replace (pre ++ spec_activate (v, b) :: suf) with ((pre ++ [spec_activate (v, b)]) ++ suf)
        by (rewrite <- app_assoc; reflexivity).
      replace (bpre ++ b :: bsuf) with ((bpre ++ [b]) ++ bsuf) by (rewrite <- app_assoc; reflexivity).
      replace (N.of_nat (length pre) + 1) with (N.of_nat (length (pre ++ [spec_activate (v, b)])))
        by (rewrite app_length; cbn [length]; lia).
      rewrite IH; [|lia|rewrite !app_length; cbn [length]; lia].
      rewrite <- app_assoc. reflexivity.
  Qed.

  Theorem genesis_activation_refines (vals : list Validator) (bals : list N) :
    0 < EFFECTIVE_BALANCE_INCREMENT c -> length bals = length vals ->
    activation_loop E vals bals = Ok (map spec_activate (combine vals bals)).
  Proof.
    intros HI Hl. unfold activation_loop.
    exact (activation_loop_gen HI vals bals [] [] Hl eq_refl).
  Qed.

  (* ===== (4) IsValidGenesisState ===== *)
  Lemma go_is_active_eq v e : go_is_active v e = is_active_validator v e.
  Proof.
    unfold go_is_active, is_active_validator.
    destruct (N.ltb_spec e (v_activation_epoch v)), (N.leb_spec (v_exit_epoch v) e),
             (N.leb_spec (v_activation_epoch v) e), (N.ltb_spec e (v_exit_epoch v)); cbn [andb]; try reflexivity; lia.
  Qed.

  Lemma count_active_go_gen : forall vals a, a + N.of_nat (length vals) < two64 ->
    fold_left (fun n v => if go_is_active v GENESIS_EPOCH then add64 n 1 else n) vals a
    = a + N.of_nat (length (filter (fun v => is_active_validator v GENESIS_EPOCH) vals)).
  Proof.
    induction vals as [|v vals IH]; intros a Ha; cbn [fold_left filter length] in *; [lia|].
    rewrite go_is_active_eq. destruct (is_active_validator v GENESIS_EPOCH).
    - rewrite add64_small by lia. rewrite IH by lia. cbn [length]. lia.
    - rewrite IH by lia. reflexivity.
  Qed.

  Lemma active_indices_length st e :
    length (get_active_validator_indices st e) = length (filter (fun v => is_active_validator v e) (validators st)).
  Proof.
    unfold get_active_validator_indices. rewrite map_length, combine_indices_indexed.
    apply (filter_snd_indexed_length (fun v => is_active_validator v e)).
  Qed.

  Theorem valid_genesis_refines (st : BeaconState) :
    N.of_nat (length (validators st)) < two64 ->
    is_valid_genesis_state_go E st = is_valid_genesis_state E st.
  Proof.
    intros Hl. unfold is_valid_genesis_state_go, is_valid_genesis_state, count_active_go. fold c.
    rewrite count_active_go_gen by lia. rewrite N.add_0_l, active_indices_length.
    destruct (N.ltb_spec (genesis_time st) (MIN_GENESIS_TIME c)), (N.leb_spec (MIN_GENESIS_TIME c) (genesis_time st));
      cbn [andb]; try reflexivity; lia.
  Qed.
End GenesisPure.

Section GenesisEpc.
  Variable E : Env.
  Let c := cfg E.

  (* configuration facts under which the C07 refinements apply (uint8 round count, uint64 products, non-zero divisors) *)
  Record epc_params_ok : Prop := mkEpcParams {
    ep_rounds : SHUFFLE_ROUND_COUNT c <= 255;
    ep_bytes : forall m, Forall (fun b => b < 256) (Hash E m);
    ep_spe : 0 < SLOTS_PER_EPOCH c;
    ep_tcs : 0 < TARGET_COMMITTEE_SIZE c;
    ep_mcps : 0 < MAX_COMMITTEES_PER_SLOT c;
    ep_count : MAX_COMMITTEES_PER_SLOT c * SLOTS_PER_EPOCH c < 2 ^ 32;
    ep_max : MAX_EFFECTIVE_BALANCE c * 255 < two64;
    ep_ephv : 0 < EPOCHS_PER_HISTORICAL_VECTOR c
  }.

  (* a registry as the activation loop leaves it: effective balances capped, active at genesis only at the cap *)
  Definition genesis_registry (vals : list Validator) : Prop :=
    Forall (fun v => v_effective_balance v <= MAX_EFFECTIVE_BALANCE c /\
                     (is_active_validator v GENESIS_EPOCH = true -> v_effective_balance v = MAX_EFFECTIVE_BALANCE c)) vals.

  Lemma shuffling_ok n : epc_params_ok -> n <= 2 ^ 32 -> shuffling_params_ok E n.
  Proof.
    intros [H1 H2 H3 H4 H5 H6 H7 H8] Hn.
    assert (P32 : 2 ^ 32 = 4294967296) by reflexivity. rewrite P32 in *.
    constructor; fold c; try assumption.
    - unfold ShuffleIndexProofs.spec_limit. lia.
    - unfold two64. lia.
    - unfold two64. nia.
  Qed.

  Lemma go_get_seed_ok st epoch dt :
    0 < EPOCHS_PER_HISTORICAL_VECTOR c -> length (randao_mixes st) = N.to_nat (EPOCHS_PER_HISTORICAL_VECTOR c) ->
    exists sd, go_get_seed E st epoch dt = Ok sd.
  Proof.
    intros H0 Hl. unfold go_get_seed. fold c.
    replace (EPOCHS_PER_HISTORICAL_VECTOR c =? 0) with false by (symmetry; apply N.eqb_neq; lia).
    set (e := sub64 _ 1).
    assert (Hlt : e mod EPOCHS_PER_HISTORICAL_VECTOR c < N.of_nat (length (randao_mixes st))).
    { rewrite Hl, Nnat.N2Nat.id. apply N.mod_lt. lia. }
    destruct (nthN_lt_Some _ _ Hlt) as [m Hm]. rewrite Hm. cbn [of_opt bind]. eexists. reflexivity.
  Qed.

  Lemma in_combine_seqN_nth {A} (l : list A) : forall s i v,
    In (i, v) (combine (seqN s (length l)) l) -> s <= i /\ nth_error l (N.to_nat (i - s)) = Some v.
  Proof.
    induction l as [|x l IH]; intros s i v H; cbn [length seqN combine] in H; [destruct H|].
    destruct H as [H|H].
    - injection H as <- <-. rewrite N.sub_diag. split; [lia|reflexivity].
    - apply IH in H. destruct H as [Hs Hn]. split; [lia|].
      replace (N.to_nat (i - s)) with (Datatypes.S (N.to_nat (i - (s + 1)))) by lia. exact Hn.
  Qed.

  Lemma in_active_nth st e a : In a (get_active_validator_indices st e) ->
    exists v, nthN (validators st) a = Some v /\ is_active_validator v e = true.
  Proof.
    unfold get_active_validator_indices, indices. intros H. apply in_map_iff in H.
    destruct H as ([i v] & <- & Hin). apply filter_In in Hin. destruct Hin as [Hin Hact]. cbn [fst snd] in *.
    apply in_combine_seqN_nth in Hin. destruct Hin as [_ Hn]. rewrite N.sub_0_r in Hn.
    exists v. split; [|exact Hact]. rewrite nthN_eq. exact Hn.
  Qed.

  (* every active validator at the cap: the proposer sampling accepts its first candidate *)
  Lemma genesis_proposer_found st idx seed :
    epc_params_ok -> 0 < N.of_nat (length idx) ->
    (forall a, In a idx -> eff_bal st a = MAX_EFFECTIVE_BALANCE c) ->
    exists p, proposer_loop E CAP st idx seed 0 = Some p.
  Proof.
    intros Hp Hn Heff. unfold CAP.
    replace (32 * 1000)%nat with (Datatypes.S (32 * 1000 - 1)) by lia.
    rewrite (spec_step E st idx seed Hn).
    assert (Hacc : accept_at E st idx seed 0 = true).
    { unfold accept_at. fold c. apply N.leb_le.
      rewrite Heff.
      2:{ unfold cand_at. apply nth_In. pose proof (sigma_lt E idx seed Hn 0). lia. }
      match goal with |- _ * ?b <= _ => assert (Hb : b < 256) end.
      { apply (ShuffleArith.byte_at_lt _ (N.to_nat (0 mod 32))). apply (ep_bytes Hp). }
      nia. }
    rewrite Hacc. eexists. reflexivity.
  Qed.

  (* ===== LoadShuffling + LoadProposers on a genesis state: the only error is "no active validators" ===== *)
  Lemma load_epc_genesis st :
    epc_params_ok -> length (randao_mixes st) = N.to_nat (EPOCHS_PER_HISTORICAL_VECTOR c) ->
    genesis_registry (validators st) -> N.of_nat (length (validators st)) <= 2 ^ 32 ->
    load_epc E st = check (negb (N.of_nat (length (get_active_validator_indices st GENESIS_EPOCH)) =? 0)).
  Proof.
    intros Hp Hmix Hreg Hlen. unfold load_epc.
    assert (Hact_le : forall e, N.of_nat (length (active_indices_impl (load_bounded_indices (validators st)) e)) <= 2 ^ 32).
    { intros e. rewrite active_indices_refines.
      pose proof (ListLemmas.countN_le_length (fun v => is_active_validator v e) (validators st)) as Hc.
      unfold ListLemmas.countN in Hc. rewrite active_indices_length. lia. }
    destruct (go_get_seed_ok st GENESIS_EPOCH DOMAIN_BEACON_ATTESTER (ep_ephv Hp) Hmix) as [s0 ->]. cbn [bind].
    destruct (new_shuffling_epoch_refines E (load_bounded_indices (validators st)) s0 GENESIS_EPOCH
                (shuffling_ok _ Hp (Hact_le _))) as (cur & -> & _ & Hcur & _). cbn [bind].
    destruct (go_get_seed_ok st (GENESIS_EPOCH + 1) DOMAIN_BEACON_ATTESTER (ep_ephv Hp) Hmix) as [s1 ->]. cbn [bind].
    destruct (new_shuffling_epoch_refines E (load_bounded_indices (validators st)) s1 (GENESIS_EPOCH + 1)
                (shuffling_ok _ Hp (Hact_le _))) as (nxt & -> & _). cbn [bind].
    destruct (go_get_seed_ok st GENESIS_EPOCH DOMAIN_BEACON_PROPOSER (ep_ephv Hp) Hmix) as [ps ->]. cbn [bind].
    rewrite Hcur, active_indices_refines.
    set (idx := get_active_validator_indices st GENESIS_EPOCH).
    destruct (N.eqb_spec (N.of_nat (length idx)) 0) as [H0|H0]; cbn [negb check].
    - unfold compute_proposers_impl. rewrite H0. reflexivity.
    - assert (Hn : 0 < N.of_nat (length idx)) by lia.
      assert (Heff : forall a, In a idx -> eff_bal st a = MAX_EFFECTIVE_BALANCE c).
      { intros a Ha. destruct (in_active_nth st GENESIS_EPOCH a Ha) as (v & Hv & Hactive).
        unfold eff_bal. rewrite Hv. unfold genesis_registry in Hreg. rewrite Forall_forall in Hreg.
        apply (Hreg v); [|exact Hactive]. eapply nthN_In. exact Hv. }
      assert (Hpp : proposer_params_ok E st idx).
      { destruct Hp as [H1 H2 H3 H4 H5 H6 H7 H8]. constructor; fold c.
        - exact H1.
        - exact H2.
        - unfold idx. rewrite active_indices_length.
          pose proof (ListLemmas.countN_le_length (fun v => is_active_validator v GENESIS_EPOCH) (validators st)) as Hc.
          unfold ListLemmas.countN in Hc. unfold ShuffleIndexProofs.spec_limit.
          assert (P32 : 2 ^ 32 = 4294967296) by reflexivity. rewrite P32 in *. lia.
        - apply active_indices_in_registry.
        - exact H7.
        - unfold genesis_registry in Hreg. eapply Forall_impl; [|exact Hreg]. cbv beta. intros v [Hle _]. nia. }
      destruct (compute_proposers_refines E st idx ps 0 Hpp Hn) as (props & -> & _).
      + destruct Hp as [_ _ _ _ H5 H6 _ _].
        assert (P32 : 2 ^ 32 = 4294967296) by reflexivity. rewrite P32 in *. unfold two64. unfold c in *. nia.
      + intros i _. apply genesis_proposer_found; assumption.
      + reflexivity.
  Qed.
End GenesisEpc.

Section Genesis.
  Variable E : Env.
  Variable pk_ok : bytes -> bool.
  Variable sig_ok : bytes -> bool.
  Let c := cfg E.

  Definition dep_pubkey (dep : value) : bytes := vbytes (vfield (vfield dep 1) 0).
  Definition dep_amount (dep : value) : N := vuint (vfield (vfield dep 1) 2).

  (* ---------- AddValidator on a phase0 state with room ---------- *)
  Lemma add_validator_phase0 st pubkey wc amount :
    0 < EFFECTIVE_BALANCE_INCREMENT c ->
    N.of_nat (length (validators st)) < VALIDATOR_REGISTRY_LIMIT c -> length (balances st) = length (validators st) ->
    add_validator_impl E Phase0 st pubkey wc amount = Ok (add_validator_to_registry E Phase0 st pubkey wc amount).
  Proof.
    intros HI Hv Hb. unfold add_validator_impl, add_validator_to_registry, get_validator_from_deposit. fold c.
    assert (H0 : (EFFECTIVE_BALANCE_INCREMENT c =? 0) = false) by (apply N.eqb_neq; lia). rewrite H0.
    assert (Hv' : (N.of_nat (length (validators st)) <? VALIDATOR_REGISTRY_LIMIT c) = true) by (apply N.ltb_lt; exact Hv).
    rewrite Hb, Hv'. cbn [check bind fork_ge fork_idx N.leb N.compare].
    replace (if MAX_EFFECTIVE_BALANCE c <? amount - amount mod EFFECTIVE_BALANCE_INCREMENT c
             then MAX_EFFECTIVE_BALANCE c else amount - amount mod EFFECTIVE_BALANCE_INCREMENT c)
      with (N.min (amount - amount mod EFFECTIVE_BALANCE_INCREMENT c) (MAX_EFFECTIVE_BALANCE c))
      by (destruct (N.ltb_spec (MAX_EFFECTIVE_BALANCE c) (amount - amount mod EFFECTIVE_BALANCE_INCREMENT c)); lia).
    reflexivity.
  Qed.

  (* ---------- the loop invariant ---------- *)
  (* n deposits processed so far, S = sum of their amounts *)
  Record ginv (st : BeaconState) (pc : pubkey_cache) (n S : N) : Prop := mkGinv {
    gi_bals : length (balances st) = length (validators st);
    gi_count : N.of_nat (length (validators st)) <= n;
    gi_index : eth1_deposit_index st = n;
    gi_bound : Forall (fun x => x <= S) (balances st);
    gi_keys : forall v, In v (validators st) -> pubkey_wf (v_pubkey v);
    gi_cache : cache_inv pc (validators st)
  }.

  (* ---------- one ProcessDeposit ---------- *)
  Lemma process_deposit_go_refines ignore pc st dep n S :
    0 < EFFECTIVE_BALANCE_INCREMENT c ->
    (forall pk m s, bls_verify E pk m s = pk_ok pk && sig_ok s && (ignore || bls_verify E pk m s)) ->
    ginv st pc n S -> n < VALIDATOR_REGISTRY_LIMIT c -> S + dep_amount dep < two64 -> n + 1 < two64 ->
    pubkey_wf (dep_pubkey dep) ->
    match process_deposit E Phase0 st dep with
    | Some st' => exists pc', process_deposit_go E pk_ok sig_ok ignore pc st dep = Ok (st', pc')
                    /\ ginv st' pc' (n + 1) (S + dep_amount dep) /\ eth1_data st' = eth1_data st
    | None => ignore = false -> process_deposit_go E pk_ok sig_ok ignore pc st dep = Err
    end.
  Proof.
    intros HI Hver [Hb Hcnt Hidx Hbound Hkeys Hcache] Hn HS Hn64 Hpk.
    unfold process_deposit_go, process_deposit. cbv zeta. fold c.
    unfold dep_pubkey, dep_amount in *.
    set (data := vfield dep 1) in *.
    set (pk := vbytes (vfield data 0)) in *. set (wc := vbytes (vfield data 1)). set (amount := vuint (vfield data 2)) in *.
    set (sg := vbytes (vfield data 3)).
    destruct (is_valid_merkle_branch E _ _ _ _ _).
    2:{ intros ->. reflexivity. }
    rewrite orb_true_r. cbn [check bind].
    rewrite Hidx, add64_small by exact Hn64. simpl_set.
    destruct (cache_lookup pc (validators st) pk Hcache) as (o & Hlook & Hfound).
    rewrite Hlook. cbn [bind]. rewrite Hfound.
    unfold apply_deposit. simpl_set. fold c.
    rewrite (find_pubkey_index_of pk Hpk (validators st) 0 Hkeys).
    destruct (CacheSpec.index_of (pubkey_key pk) (reg_keys (validators st))) as [j|] eqn:Ej; cbn [option_map].
    - (* known validator: top-up *)
      destruct (CacheProofs.index_of_some _ _ _ Ej) as (_ & Hj & _). unfold reg_keys in Hj. rewrite map_length in Hj.
      rewrite N.add_0_l.
      assert (Hjb : N.of_nat j < N.of_nat (length (balances st))) by lia.
      destruct (nthN_lt_Some _ _ Hjb) as [x Hx].
      assert (Hxb : x <= S).
      { rewrite nthN_eq in Hx. apply nth_error_In in Hx. rewrite Forall_forall in Hbound. auto. }
      unfold go_increase_balance. rewrite Hx, add64_small by (unfold two64 in *; lia). cbn [bind].
      rewrite (setN_updN (balances st) (N.of_nat j) (fun b => b + amount) x Hx).
      exists pc. split; [reflexivity|]. split; [|reflexivity].
      unfold increase_balance. constructor; simpl_set.
      + rewrite BlockLemmas.updN_length. exact Hb.
      + lia.
      + reflexivity.
      + rewrite updN_eq. apply (Forall_upd_nat (fun x => x <= S)); [intros; lia|intros; lia|exact Hbound].
      + exact Hkeys.
      + exact Hcache.
    - (* unknown pubkey: proof of possession, then append *)
      unfold deposit_signing_root. fold c.
      set (m := compute_signing_root E _ _).
      specialize (Hver pk m sg).
      assert (Hsel :
        (if negb (pk_ok pk) then Ok (st <| eth1_deposit_index := n + 1 |>, pc)
         else if negb (sig_ok sg) then Ok (st <| eth1_deposit_index := n + 1 |>, pc)
         else if negb ignore && negb (bls_verify E pk m sg)
              then Ok (st <| eth1_deposit_index := n + 1 |>, pc)
              else st' <~ add_validator_impl E Phase0 (st <| eth1_deposit_index := n + 1 |>) pk wc amount ;;
                   pc' <~ pc_add pc (length (validators st)) pk ;; Ok (st', pc'))
        = if bls_verify E pk m sg
          then st' <~ add_validator_impl E Phase0 (st <| eth1_deposit_index := n + 1 |>) pk wc amount ;;
               pc' <~ pc_add pc (length (validators st)) pk ;; Ok (st', pc')
          else Ok (st <| eth1_deposit_index := n + 1 |>, pc)).
      { destruct (bls_verify E pk m sg), (pk_ok pk), (sig_ok sg), ignore;
          cbn in Hver |- *; try discriminate; reflexivity. }
      rewrite Hsel. clear Hsel Hver.
      destruct (bls_verify E pk m sg).
      + rewrite add_validator_phase0; [|exact HI|simpl_set; lia|simpl_set; exact Hb]. cbn [bind].
        set (v := get_validator_from_deposit E pk wc amount).
        destruct (cache_add pc (validators st) pk v Hcache eq_refl Ej) as (pc' & Hadd & Hinv').
        rewrite Hadd. cbn [bind]. exists pc'. split; [reflexivity|]. split; [|reflexivity].
        unfold add_validator_to_registry. cbn [fork_ge fork_idx N.leb N.compare]. fold v.
        constructor; simpl_set.
        * rewrite !app_length, Hb. reflexivity.
        * rewrite app_length. cbn [length]. lia.
        * reflexivity.
        * apply Forall_app. split; [eapply Forall_impl; [|exact Hbound]; cbv beta; intros; lia|].
          constructor; [lia|constructor].
        * intros w Hw. apply in_app_or in Hw. destruct Hw as [Hw|[<-|[]]]; [auto|exact Hpk].
        * exact Hinv'.
      + exists pc. split; [reflexivity|]. split; [|reflexivity].
        constructor; simpl_set; auto; [lia|].
        eapply Forall_impl; [|exact Hbound]. cbv beta. intros; lia.
  Qed.

  (* ---------- the deposit-data root has 32 bytes ---------- *)
  Lemma htr_deposit_data_len :
    (forall x, length (Hash E x) = 32%nat) -> length (zero_hashes E 2) = 32%nat ->
    forall d, length (hash_tree_root (Hash E) (zero_hashes E) DepositDataT d) = 32%nat.
  Proof.
    intros HH Hz d. destruct d; try reflexivity.
    cbn [hash_tree_root DepositDataT]. unfold merkleize.
    change (depth_of (len_N _)) with 2%nat.
    match goal with |- length (merkle_tree _ _ 2 ?l) = _ => generalize l end.
    intros l. destruct l as [|x l]; cbn [merkle_tree]; [exact Hz|].
    destruct (_ <=? _); apply HH.
  Qed.

  (* ---------- the Spec's loop, named ---------- *)
  Definition spec_deposit_step (acc : option (BeaconState * list value)) (dep : value) : option (BeaconState * list value) :=
    sl <- acc ;;
    let '(st, leaves) := sl in
    let leaves := leaves ++ [vfield dep 1] in
    let st := st <| eth1_data := mkEth1Data (htr E DepositDataListT (VSeq leaves)) (e_deposit_count (eth1_data st))
                                            (e_block_hash (eth1_data st)) |> in
    st <- process_deposit E Phase0 st dep ;;
    Some (st, leaves).
  Definition spec_deposit_loop (deps : list value) (acc : option (BeaconState * list value)) :=
    fold_left spec_deposit_step deps acc.

  Definition data_roots (leaves : list value) : list bytes := map (htr E DepositDataT) leaves.

  Record linv (st : BeaconState) (roots : list bytes) (leaves : list value) (pc : pubkey_cache) (n S : N) : Prop := mkLinv {
    li_g : ginv st pc n S;
    li_roots : roots = data_roots leaves;
    li_len : N.of_nat (length roots) = n;
    li_root : roots <> [] -> e_deposit_root (eth1_data st) = htr E DepositRootsT (VSeq (map VBytes roots))
  }.

  Lemma deposit_step_refines ignore st roots leaves pc dep n S :
    (forall x, length (Hash E x) = 32%nat) -> length (zero_hashes E 2) = 32%nat ->
    0 < EFFECTIVE_BALANCE_INCREMENT c ->
    (forall pk m s, bls_verify E pk m s = pk_ok pk && sig_ok s && (ignore || bls_verify E pk m s)) ->
    linv st roots leaves pc n S ->
    n < DEPOSIT_ROOTS_LIMIT -> n < VALIDATOR_REGISTRY_LIMIT c -> S + dep_amount dep < two64 ->
    pubkey_wf (dep_pubkey dep) ->
    match spec_deposit_step (Some (st, leaves)) dep with
    | Some (st', leaves') =>
        exists pc', deposit_step E pk_ok sig_ok ignore (st, roots, pc) dep = Ok (st', data_roots leaves', pc')
                    /\ linv st' (data_roots leaves') leaves' pc' (n + 1) (S + dep_amount dep)
    | None => ignore = false -> deposit_step E pk_ok sig_ok ignore (st, roots, pc) dep = Err
    end.
  Proof.
    intros HH Hz HI Hver [Hg Hroots Hlen Hroot] Hn32 Hn HS Hpk.
    unfold deposit_step, spec_deposit_step. cbv zeta beta iota.
    assert (Hchk : (N.of_nat (length roots) <? DEPOSIT_ROOTS_LIMIT) = true) by (apply N.ltb_lt; lia).
    rewrite Hchk. cbn [check bind].
    (* the two states with the new deposit root are the same state *)
    assert (Hsame : update_dep_tree_root E st (roots ++ [htr E DepositDataT (vfield dep 1)])
            = st <| eth1_data := mkEth1Data (htr E DepositDataListT (VSeq (leaves ++ [vfield dep 1])))
                                            (e_deposit_count (eth1_data st)) (e_block_hash (eth1_data st)) |>).
    { unfold update_dep_tree_root. do 3 f_equal.
      unfold Helpers.htr, DepositDataListT, DepositRootsT, DEPOSIT_ROOTS_LIMIT.
      rewrite (deposit_roots_list_eq (Hash E) (zero_hashes E) _ _ (htr_deposit_data_len HH Hz)).
      do 2 f_equal. rewrite Hroots. unfold data_roots, Helpers.htr. rewrite map_app, !map_app, map_map. reflexivity. }
    rewrite Hsame.
    set (st1 := st <| eth1_data := _ |>).
    assert (Hg1 : ginv st1 pc n S).
    { destruct Hg. constructor; unfold st1; simpl_set; assumption. }
    assert (Hn64 : n + 1 < two64) by (unfold DEPOSIT_ROOTS_LIMIT, DEPOSIT_CONTRACT_TREE_DEPTH, two64 in *; lia).
    pose proof (process_deposit_go_refines ignore pc st1 dep n S HI Hver Hg1 Hn HS Hn64 Hpk) as Hstep.
    destruct (process_deposit E Phase0 st1 dep) as [st'|].
    - destruct Hstep as (pc' & Hgo & Hg' & He). rewrite Hgo. cbn [bind fst snd].
      exists pc'. split.
      + do 3 f_equal. rewrite Hroots. unfold data_roots. rewrite map_app. reflexivity.
      + constructor; [exact Hg'|reflexivity| |].
        * unfold data_roots. rewrite map_length, app_length. cbn [length].
          rewrite Hroots in Hlen. unfold data_roots in Hlen. rewrite map_length in Hlen. lia.
        * intros _. rewrite He. unfold st1. simpl_set. cbn [e_deposit_root].
          unfold Helpers.htr, DepositDataListT, DepositRootsT, DEPOSIT_ROOTS_LIMIT.
          rewrite (deposit_roots_list_eq (Hash E) (zero_hashes E) _ _ (htr_deposit_data_len HH Hz)).
          do 2 f_equal. unfold data_roots, Helpers.htr. rewrite map_map. reflexivity.
    - intros Hi. rewrite (Hstep Hi). reflexivity.
  Qed.

  Lemma deposit_loop_refines_gen ignore :
    (forall x, length (Hash E x) = 32%nat) -> length (zero_hashes E 2) = 32%nat ->
    0 < EFFECTIVE_BALANCE_INCREMENT c ->
    (forall pk m s, bls_verify E pk m s = pk_ok pk && sig_ok s && (ignore || bls_verify E pk m s)) ->
    forall deps st roots leaves pc n S,
    linv st roots leaves pc n S ->
    n + N.of_nat (length deps) <= DEPOSIT_ROOTS_LIMIT -> n + N.of_nat (length deps) <= VALIDATOR_REGISTRY_LIMIT c ->
    S + sumN (map dep_amount deps) < two64 ->
    Forall (fun d => pubkey_wf (dep_pubkey d)) deps ->
    match spec_deposit_loop deps (Some (st, leaves)) with
    | Some (st', leaves') =>
        exists pc', deposit_loop E pk_ok sig_ok ignore deps (st, roots, pc) = Ok (st', data_roots leaves', pc')
                    /\ linv st' (data_roots leaves') leaves' pc' (n + N.of_nat (length deps)) (S + sumN (map dep_amount deps))
    | None => ignore = false -> deposit_loop E pk_ok sig_ok ignore deps (st, roots, pc) = Err
    end.
  Proof.
    intros HH Hz HI Hver. induction deps as [|dep deps IH]; intros st roots leaves pc n S Hinv Hn32 Hn HS Hpk.
    - cbn [spec_deposit_loop fold_left length map]. unfold deposit_loop. cbn [fold_left].
      assert (Hr : roots = data_roots leaves) by (destruct Hinv; assumption). subst roots.
      exists pc. split; [reflexivity|].
      replace (n + N.of_nat 0) with n by lia. replace (S + sumN []) with S by (unfold sumN; cbn; lia). exact Hinv.
    - cbn [length map] in *. rewrite sumN_cons' in *. inversion Hpk as [|? ? Hpk1 Hpk2]; subst.
      unfold spec_deposit_loop, deposit_loop. cbn [fold_left bind].
      pose proof (deposit_step_refines ignore st roots leaves pc dep n S HH Hz HI Hver Hinv
                    ltac:(lia) ltac:(lia) ltac:(lia) Hpk1) as Hstep.
      destruct (spec_deposit_step (Some (st, leaves)) dep) as [[st1 leaves1]|].
      + destruct Hstep as (pc1 & Hgo & Hinv1). rewrite Hgo.
        specialize (IH st1 (data_roots leaves1) leaves1 pc1 (n + 1) (S + dep_amount dep) Hinv1
                       ltac:(lia) ltac:(lia) ltac:(lia) Hpk2).
        fold (spec_deposit_loop deps (Some (st1, leaves1))).
        fold (deposit_loop E pk_ok sig_ok ignore deps (st1, data_roots leaves1, pc1)).
        destruct (spec_deposit_loop deps (Some (st1, leaves1))) as [[st' leaves']|].
        * destruct IH as (pc' & Hl & Hinv'). exists pc'. split; [exact Hl|].
          replace (n + N.of_nat (Datatypes.S (length deps))) with (n + 1 + N.of_nat (length deps)) by lia.
          replace (S + (dep_amount dep + sumN (map dep_amount deps))) with (S + dep_amount dep + sumN (map dep_amount deps)) by lia.
          exact Hinv'.
        * exact IH.
      + rewrite (fold_left_none spec_deposit_step deps (fun _ => eq_refl)).
        intros Hi. rewrite (Hstep Hi). apply outcome_fold_err.
  Qed.

  (* the Spec's BLS verification refuses what does not decode (IETF BLS Verify: INVALID) *)
  Definition verify_decodes : Prop :=
    forall pk m s, bls_verify E pk m s = true -> pk_ok pk = true /\ sig_ok s = true.
  Lemma verify_decodes_eq : verify_decodes ->
    forall pk m s, bls_verify E pk m s = pk_ok pk && sig_ok s && (false || bls_verify E pk m s).
  Proof.
    intros H pk m s. cbn [orb]. destruct (bls_verify E pk m s) eqn:Hv; [|now rewrite andb_false_r].
    destruct (H _ _ _ Hv) as [-> ->]. reflexivity.
  Qed.

  Lemma linv_start st0 : validators st0 = [] -> balances st0 = [] -> eth1_deposit_index st0 = 0 ->
    linv st0 [] [] pc_empty 0 0.
  Proof.
    intros Hv Hb Hi. constructor; [|reflexivity|reflexivity|intros H; now elim H].
    constructor.
    - rewrite Hv, Hb. reflexivity.
    - rewrite Hv. cbn [length]. lia.
    - exact Hi.
    - rewrite Hb. constructor.
    - rewrite Hv. intros v [].
    - rewrite Hv. exact cache_inv_empty.
  Qed.

  (* ===== (1) the deposit loop ===== *)
  Theorem genesis_deposit_loop_refines (deps : list value) (st0 : BeaconState) :
    (forall x, length (Hash E x) = 32%nat) -> length (zero_hashes E 2) = 32%nat ->
    0 < EFFECTIVE_BALANCE_INCREMENT c -> verify_decodes ->
    validators st0 = [] -> balances st0 = [] -> eth1_deposit_index st0 = 0 ->
    N.of_nat (length deps) <= DEPOSIT_ROOTS_LIMIT -> N.of_nat (length deps) <= VALIDATOR_REGISTRY_LIMIT c ->
    sumN (map dep_amount deps) < two64 -> Forall (fun d => pubkey_wf (dep_pubkey d)) deps ->
    (x <~ deposit_loop E pk_ok sig_ok false deps (st0, [], pc_empty) ;; Ok (fst (fst x), snd (fst x)))
    = match spec_deposit_loop deps (Some (st0, [])) with
      | Some (st, leaves) => Ok (st, data_roots leaves)
      | None => Err
      end.
  Proof.
    intros HH Hz HI Hdec Hv Hb Hi Hn32 Hn HS Hpk.
    pose proof (deposit_loop_refines_gen false HH Hz HI (verify_decodes_eq Hdec) deps st0 [] [] pc_empty 0 0
                  (linv_start st0 Hv Hb Hi) ltac:(lia) ltac:(lia) ltac:(lia) Hpk) as H.
    destruct (spec_deposit_loop deps (Some (st0, []))) as [[st leaves]|].
    - destruct H as (pc' & -> & _). reflexivity.
    - rewrite (H eq_refl). reflexivity.
  Qed.

  (* ---------- what the Spec's deposit loop leaves untouched ---------- *)
  Definition fresh_validator (v : Validator) : Prop :=
    v_activation_epoch v = FAR_FUTURE_EPOCH /\ v_exit_epoch v = FAR_FUTURE_EPOCH.

  Lemma process_deposit_frame st dep st' : process_deposit E Phase0 st dep = Some st' ->
    randao_mixes st' = randao_mixes st /\ (Forall fresh_validator (validators st) -> Forall fresh_validator (validators st')).
  Proof.
    unfold process_deposit. cbv zeta. destruct (is_valid_merkle_branch E _ _ _ _ _); [|discriminate].
    intros [= <-]. unfold apply_deposit. simpl_set.
    destruct (find_pubkey _ _ 0).
    - unfold increase_balance. simpl_set. split; auto.
    - destruct (bls_verify E _ _ _).
      + unfold add_validator_to_registry. cbn [fork_ge fork_idx N.leb N.compare]. simpl_set. split; [reflexivity|].
        intros H. apply Forall_app. split; [exact H|]. constructor; [|constructor]. split; reflexivity.
      + simpl_set. split; auto.
  Qed.

  Lemma spec_deposit_loop_frame : forall deps st leaves st' leaves',
    spec_deposit_loop deps (Some (st, leaves)) = Some (st', leaves') ->
    randao_mixes st' = randao_mixes st /\ (Forall fresh_validator (validators st) -> Forall fresh_validator (validators st')).
  Proof.
    induction deps as [|dep deps IH]; intros st leaves st' leaves' H.
    - cbn in H. injection H as <- <-. split; auto.
    - unfold spec_deposit_loop in H. cbn [fold_left] in H. unfold spec_deposit_step at 2 in H. cbv zeta beta iota in H.
      set (st1 := st <| eth1_data := _ |>) in H.
      destruct (process_deposit E Phase0 st1 dep) as [st2|] eqn:Hp.
      + apply IH in H. destruct H as [Hm Hf]. apply process_deposit_frame in Hp. destruct Hp as [Hm2 Hf2].
        unfold st1 in Hm2, Hf2. simpl_set_in Hm2. simpl_set_in Hf2. split; [congruence|auto].
      + rewrite (fold_left_none spec_deposit_step deps (fun _ => eq_refl)) in H. discriminate.
  Qed.

  Lemma genesis_registry_activate vals bals : Forall fresh_validator vals ->
    genesis_registry E (map (spec_activate E) (combine vals bals)).
  Proof.
    intros Hf. unfold genesis_registry. apply Forall_forall. intros w Hw.
    apply in_map_iff in Hw. destruct Hw as ([v b] & <- & Hin). apply in_combine_l in Hin.
    rewrite Forall_forall in Hf. destruct (Hf v Hin) as [Ha He].
    unfold spec_activate. fold c.
    set (eff := N.min _ _).
    assert (Hle : eff <= MAX_EFFECTIVE_BALANCE c) by (unfold eff; lia).
    change (v_effective_balance (v <| v_effective_balance := eff |>)) with eff.
    destruct (N.eqb_spec eff (MAX_EFFECTIVE_BALANCE c)) as [Heq|Hne].
    - split; [exact Hle|intros _; exact Heq].
    - change (v_effective_balance (v <| v_effective_balance := eff |>)) with eff.
      split; [exact Hle|]. unfold is_active_validator.
      change (v_activation_epoch (v <| v_effective_balance := eff |>)) with (v_activation_epoch v). rewrite Ha.
      cbn. discriminate.
  Qed.

  (* ===== (3) GenesisFromEth1 ===== *)
  Lemma update_dep_tree_root_id st roots :
    e_deposit_root (eth1_data st) = htr E DepositRootsT (VSeq (map VBytes roots)) ->
    update_dep_tree_root E st roots = st.
  Proof.
    intros H. unfold update_dep_tree_root. rewrite <- H. destruct st. destruct eth1_data. reflexivity.
  Qed.

  Lemma initialize_unfold hash time deps :
    initialize_beacon_state_from_eth1 E hash time deps =
    (r <- spec_deposit_loop deps (Some (genesis_pre_state E hash (time - 0) (length deps) <| genesis_time := time + GENESIS_DELAY c |>, [])) ;;
     let st := fst r in
     let st := st <| validators := map (spec_activate E) (combine (validators st) (balances st)) |> in
     Some (st <| genesis_validators_root :=
                  htr E (TList ValidatorT (VALIDATOR_REGISTRY_LIMIT c)) (VSeq (map validator_to_value (validators st))) |>)).
  Proof. reflexivity. Qed.

  (* the result of GenesisFromEth1 given the Spec's state: zrnt's two extra refusals *)
  Definition go_verdict (st : BeaconState) : outcome BeaconState :=
    if N.of_nat (length (validators st)) <? SLOTS_PER_EPOCH c then Err
    else if N.of_nat (length (get_active_validator_indices st GENESIS_EPOCH)) =? 0 then Err
    else Ok st.

  Lemma reg_keys_activate : forall vals bals, length bals = length vals ->
    reg_keys (map (spec_activate E) (combine vals bals)) = reg_keys vals.
  Proof.
    induction vals as [|v vals IH]; intros [|b bals] Hl; cbn [length] in Hl; try discriminate; [reflexivity|].
    cbn [combine map reg_keys]. fold (reg_keys (map (spec_activate E) (combine vals bals))). fold (reg_keys vals).
    rewrite IH by lia. f_equal. unfold spec_activate. destruct (_ =? _); reflexivity.
  Qed.

  Lemma genesis_ctx_gen ignore hash time deps :
    (forall x, length (Hash E x) = 32%nat) -> length (zero_hashes E 2) = 32%nat ->
    0 < EFFECTIVE_BALANCE_INCREMENT c -> epc_params_ok E ->
    (forall pk m s, bls_verify E pk m s = pk_ok pk && sig_ok s && (ignore || bls_verify E pk m s)) ->
    time + GENESIS_DELAY c < two64 ->
    N.of_nat (length deps) <= DEPOSIT_ROOTS_LIMIT -> N.of_nat (length deps) <= VALIDATOR_REGISTRY_LIMIT c ->
    sumN (map dep_amount deps) < two64 -> Forall (fun d => pubkey_wf (dep_pubkey d)) deps ->
    match initialize_beacon_state_from_eth1 E hash time deps with
    | Some st => exists pc, genesis_from_eth1_ctx E pk_ok sig_ok hash time deps ignore = (s <~ go_verdict st ;; Ok (s, pc))
                            /\ cache_inv pc (validators st) /\ (forall v, In v (validators st) -> pubkey_wf (v_pubkey v))
    | None => ignore = false -> genesis_from_eth1_ctx E pk_ok sig_ok hash time deps ignore = Err
    end.
  Proof.
    intros HH Hz HI Hepc Hver Ht Hn32 Hn HS Hpk.
    assert (HSPE : 0 < SLOTS_PER_EPOCH c) by exact (ep_spe E Hepc).
    rewrite initialize_unfold. unfold genesis_from_eth1_ctx.
    set (st0 := genesis_pre_state E hash time (length deps)).
    assert (Hst0 : genesis_pre_state E hash (time - 0) (length deps) <| genesis_time := time + GENESIS_DELAY c |> = st0).
    { unfold st0, genesis_pre_state, seed_randao, empty_state. fold c. rewrite N.sub_0_r, add64_small by exact Ht. reflexivity. }
    rewrite Hst0.
    pose proof (deposit_loop_refines_gen ignore HH Hz HI Hver deps st0 [] [] pc_empty 0 0
                  (linv_start st0 eq_refl eq_refl eq_refl) ltac:(lia) ltac:(lia) ltac:(lia) Hpk) as Hloop.
    destruct (spec_deposit_loop deps (Some (st0, []))) as [[st leaves]|] eqn:Hspec.
    2:{ intros Hi. rewrite (Hloop Hi). reflexivity. }
    destruct (spec_deposit_loop_frame _ _ _ _ _ Hspec) as [Hmix Hfresh].
    specialize (Hfresh (Forall_nil _)).
    destruct Hloop as (pc' & -> & [Hg Hroots Hlen Hroot]). cbn [bind fst]. cbv zeta.
    destruct Hg as [Hb Hcnt _ _ Hkeys Hcache]. rewrite !N.add_0_l in *.
    exists pc'. split; [|split].
    2:{ simpl_set. destruct Hcache as (t & Hsim & Hdinv). exists t. split; [exact Hsim|].
        rewrite reg_keys_activate by exact Hb. exact Hdinv. }
    2:{ simpl_set. intros w Hw. apply in_map_iff in Hw. destruct Hw as ([v b] & <- & Hin). apply in_combine_l in Hin.
        replace (v_pubkey (spec_activate E (v, b))) with (v_pubkey v) by (unfold spec_activate; destruct (_ =? _); reflexivity).
        apply Hkeys. exact Hin. }
    unfold go_verdict. simpl_set.
    rewrite map_length, combine_length, Hb, Nat.min_id.
    destruct deps as [|d deps'].
    - (* no deposit: empty registry, refused *)
      cbn [length] in Hcnt.
      assert (Hv0 : length (validators st) = 0%nat) by lia.
      unfold update_dep_tree_root. simpl_set. rewrite Hv0. fold c.
      replace (N.of_nat 0 <? SLOTS_PER_EPOCH c) with true by (symmetry; apply N.ltb_lt; lia). reflexivity.
    - rewrite update_dep_tree_root_id.
      2:{ apply Hroot. intros Hnil. rewrite Hnil in Hlen. cbn [length] in Hlen. lia. }
      fold c.
      destruct (N.of_nat (length (validators st)) <? SLOTS_PER_EPOCH c); cbn [negb check bind]; [reflexivity|].
      rewrite (genesis_activation_refines E (validators st) (balances st) HI Hb). cbn [bind].
      match goal with |- context [load_epc E ?s] => rewrite (load_epc_genesis E s Hepc) end; simpl_set.
      + match goal with |- context [N.of_nat (length ?a) =? 0] => destruct (N.of_nat (length a) =? 0) end;
          cbn [negb check bind]; reflexivity.
      + rewrite Hmix. unfold st0, genesis_pre_state, seed_randao. simpl_set. apply repeat_length.
      + apply genesis_registry_activate. exact Hfresh.
      + rewrite map_length, combine_length, Hb, Nat.min_id. cbn [length] in Hcnt.
        unfold DEPOSIT_ROOTS_LIMIT, DEPOSIT_CONTRACT_TREE_DEPTH in Hn32. cbn [length] in Hn32. lia.
  Qed.

  Lemma genesis_from_eth1_gen ignore hash time deps :
    (forall x, length (Hash E x) = 32%nat) -> length (zero_hashes E 2) = 32%nat ->
    0 < EFFECTIVE_BALANCE_INCREMENT c -> epc_params_ok E ->
    (forall pk m s, bls_verify E pk m s = pk_ok pk && sig_ok s && (ignore || bls_verify E pk m s)) ->
    time + GENESIS_DELAY c < two64 ->
    N.of_nat (length deps) <= DEPOSIT_ROOTS_LIMIT -> N.of_nat (length deps) <= VALIDATOR_REGISTRY_LIMIT c ->
    sumN (map dep_amount deps) < two64 -> Forall (fun d => pubkey_wf (dep_pubkey d)) deps ->
    match initialize_beacon_state_from_eth1 E hash time deps with
    | Some st => genesis_from_eth1 E pk_ok sig_ok hash time deps ignore = go_verdict st
    | None => ignore = false -> genesis_from_eth1 E pk_ok sig_ok hash time deps ignore = Err
    end.
  Proof.
    intros HH Hz HI Hepc Hver Ht Hn32 Hn HS Hpk.
    pose proof (genesis_ctx_gen ignore hash time deps HH Hz HI Hepc Hver Ht Hn32 Hn HS Hpk) as G.
    unfold genesis_from_eth1.
    destruct (initialize_beacon_state_from_eth1 E hash time deps) as [st|].
    - destruct G as (pc & -> & _). unfold go_verdict.
      destruct (_ <? _); cbn [bind]; [reflexivity|]. destruct (_ =? _); reflexivity.
    - intros Hi. rewrite (G Hi). reflexivity.
  Qed.

  (* the context returned with the state: its pubkey cache answers every lookup as the registry scan of the Spec does *)
  Theorem genesis_cache_matches (eth1_block_hash : bytes) (eth1_timestamp : N) (deposits : list value)
                                (st : BeaconState) (pc : pubkey_cache) :
    (forall x, length (Hash E x) = 32%nat) -> length (zero_hashes E 2) = 32%nat ->
    0 < EFFECTIVE_BALANCE_INCREMENT c -> epc_params_ok E -> verify_decodes ->
    eth1_timestamp + GENESIS_DELAY c < two64 ->
    N.of_nat (length deposits) <= DEPOSIT_ROOTS_LIMIT -> N.of_nat (length deposits) <= VALIDATOR_REGISTRY_LIMIT c ->
    sumN (map dep_amount deposits) < two64 -> Forall (fun d => pubkey_wf (dep_pubkey d)) deposits ->
    genesis_from_eth1_ctx E pk_ok sig_ok eth1_block_hash eth1_timestamp deposits false = Ok (st, pc) ->
    initialize_beacon_state_from_eth1 E eth1_block_hash eth1_timestamp deposits = Some st /\
    forall pk, pubkey_wf pk ->
      exists o, pc_lookup pc pk = Ok o /\
        option_map N.of_nat (match o with Some j => if Nat.ltb j (length (validators st)) then Some j else None | None => None end)
        = find_pubkey pk (validators st) 0.
  Proof.
    intros HH Hz HI Hepc Hdec Ht Hn32 Hn HS Hpk Hrun.
    pose proof (genesis_ctx_gen false eth1_block_hash eth1_timestamp deposits HH Hz HI Hepc
                  (verify_decodes_eq Hdec) Ht Hn32 Hn HS Hpk) as G.
    destruct (initialize_beacon_state_from_eth1 E eth1_block_hash eth1_timestamp deposits) as [st'|].
    2:{ rewrite (G eq_refl) in Hrun. discriminate. }
    destruct G as (pc' & Hctx & Hcache & Hkeys). rewrite Hctx in Hrun. unfold go_verdict in Hrun.
    destruct (_ <? _); cbn [bind] in Hrun; [discriminate|]. destruct (_ =? _); cbn [bind] in Hrun; [discriminate|].
    injection Hrun as <- <-. split; [reflexivity|].
    intros pk Hwf. destruct (cache_lookup pc' (validators st') pk Hcache) as (o & Hl & Hf).
    exists o. split; [exact Hl|]. rewrite Hf, (find_pubkey_index_of pk Hwf (validators st') 0 Hkeys).
    destruct (CacheSpec.index_of _ _); cbn [option_map]; [f_equal; lia|reflexivity].
  Qed.

  Theorem genesis_from_eth1_refines (eth1_block_hash : bytes) (eth1_timestamp : N) (deposits : list value) :
    (forall x, length (Hash E x) = 32%nat) -> length (zero_hashes E 2) = 32%nat ->
    0 < EFFECTIVE_BALANCE_INCREMENT c -> epc_params_ok E -> verify_decodes ->
    eth1_timestamp + GENESIS_DELAY c < two64 ->
    N.of_nat (length deposits) <= DEPOSIT_ROOTS_LIMIT -> N.of_nat (length deposits) <= VALIDATOR_REGISTRY_LIMIT c ->
    sumN (map dep_amount deposits) < two64 -> Forall (fun d => pubkey_wf (dep_pubkey d)) deposits ->
    genesis_from_eth1 E pk_ok sig_ok eth1_block_hash eth1_timestamp deposits false =
    match initialize_beacon_state_from_eth1 E eth1_block_hash eth1_timestamp deposits with
    | Some st =>
        if N.of_nat (length (validators st)) <? SLOTS_PER_EPOCH c then Err
        else if N.of_nat (length (get_active_validator_indices st GENESIS_EPOCH)) =? 0 then Err
        else Ok st
    | None => Err
    end.
  Proof.
    intros HH Hz HI HSPE Hdec Ht Hn32 Hn HS Hpk.
    pose proof (genesis_from_eth1_gen false eth1_block_hash eth1_timestamp deposits HH Hz HI HSPE
                  (verify_decodes_eq Hdec) Ht Hn32 Hn HS Hpk) as H.
    destruct (initialize_beacon_state_from_eth1 E eth1_block_hash eth1_timestamp deposits) as [st|].
    - exact H.
    - exact (H eq_refl).
  Qed.

  (* the requested shape: where the Spec's state has an active validator the only extra refusal is the registry size *)
  Corollary genesis_from_eth1_refines_active (eth1_block_hash : bytes) (eth1_timestamp : N) (deposits : list value) :
    (forall x, length (Hash E x) = 32%nat) -> length (zero_hashes E 2) = 32%nat ->
    0 < EFFECTIVE_BALANCE_INCREMENT c -> epc_params_ok E -> verify_decodes ->
    eth1_timestamp + GENESIS_DELAY c < two64 ->
    N.of_nat (length deposits) <= DEPOSIT_ROOTS_LIMIT -> N.of_nat (length deposits) <= VALIDATOR_REGISTRY_LIMIT c ->
    sumN (map dep_amount deposits) < two64 -> Forall (fun d => pubkey_wf (dep_pubkey d)) deposits ->
    (forall st, initialize_beacon_state_from_eth1 E eth1_block_hash eth1_timestamp deposits = Some st ->
                SLOTS_PER_EPOCH c <= N.of_nat (length (validators st)) ->
                get_active_validator_indices st GENESIS_EPOCH <> []) ->
    genesis_from_eth1 E pk_ok sig_ok eth1_block_hash eth1_timestamp deposits false =
    match initialize_beacon_state_from_eth1 E eth1_block_hash eth1_timestamp deposits with
    | Some st => if N.of_nat (length (validators st)) <? SLOTS_PER_EPOCH c then Err else Ok st
    | None => Err
    end.
  Proof.
    intros HH Hz HI HSPE Hdec Ht Hn32 Hn HS Hpk Hact.
    rewrite (genesis_from_eth1_refines eth1_block_hash eth1_timestamp deposits HH Hz HI HSPE Hdec Ht Hn32 Hn HS Hpk).
    destruct (initialize_beacon_state_from_eth1 E eth1_block_hash eth1_timestamp deposits) as [st|]; [|reflexivity].
    destruct (N.ltb_spec (N.of_nat (length (validators st))) (SLOTS_PER_EPOCH c)); [reflexivity|].
    specialize (Hact st eq_refl ltac:(lia)).
    destruct (get_active_validator_indices st GENESIS_EPOCH); [contradiction|reflexivity].
  Qed.

End Genesis.

(* ================= (5) KickStartState ================= *)
(* the oracle under which `ignoreSignatureAndProof` is the Spec: every key and signature that DECODES is accepted *)
Definition accept_env (E : Env) (pk_ok sig_ok : bytes -> bool) : Env :=
  mkEnv (cfg E) (Hash E) (zero_hashes E) (fun pk _ s => pk_ok pk && sig_ok s)
        (bls_fast_aggregate_verify E) (bls_aggregate_pubkeys E) (engine_accepts E).

Section Kickstart.
  Variable E : Env.
  Variable pk_ok : bytes -> bool.
  Variable sig_ok : bytes -> bool.
  Let c := cfg E.
  Let EA := accept_env E pk_ok sig_ok.

  (* with the flag set the pairing oracle is never consulted *)
  Lemma process_deposit_go_ignore_env pc st dep :
    process_deposit_go E pk_ok sig_ok true pc st dep = process_deposit_go EA pk_ok sig_ok true pc st dep.
  Proof. reflexivity. Qed.

  (* ... and only the deposit DATA is read *)
  Lemma process_deposit_go_ignore_proof pc st d1 d2 : vfield d1 1 = vfield d2 1 ->
    process_deposit_go EA pk_ok sig_ok true pc st d1 = process_deposit_go EA pk_ok sig_ok true pc st d2.
  Proof. intros H. unfold process_deposit_go. cbv zeta. rewrite H. cbn [orb]. reflexivity. Qed.

  Lemma deposit_loop_ignore : forall ds1 ds2 acc, Forall2 (fun a b => vfield a 1 = vfield b 1) ds1 ds2 ->
    deposit_loop E pk_ok sig_ok true ds1 acc = deposit_loop EA pk_ok sig_ok true ds2 acc.
  Proof.
    unfold deposit_loop.
    assert (G : forall ds1 ds2, Forall2 (fun a b => vfield a 1 = vfield b 1) ds1 ds2 -> forall a,
      fold_left (fun a dep => x <~ a ;; deposit_step E pk_ok sig_ok true x dep) ds1 a =
      fold_left (fun a dep => x <~ a ;; deposit_step EA pk_ok sig_ok true x dep) ds2 a).
    { induction 1 as [|d1 d2 ds1 ds2 Hd _ IH]; intros a; cbn [fold_left]; [reflexivity|].
      rewrite IH. f_equal. destruct a as [[[st roots] pc]| | | |]; cbn [bind]; try reflexivity.
      unfold deposit_step. rewrite Hd.
      destruct (check _); cbn [bind]; [|reflexivity..].
      rewrite process_deposit_go_ignore_env.
      rewrite (process_deposit_go_ignore_proof pc _ d1 d2 Hd). reflexivity. }
    intros ds1 ds2 acc H. apply G. exact H.
  Qed.

  (* the epochs-context part does not consult the signature oracle either (fuelled loops: by induction, not by conversion) *)
  Lemma proposer_outer_env : forall k vals active seed i,
    proposer_outer E k vals active seed i = proposer_outer EA k vals active seed i.
  Proof. intros. reflexivity. Qed.     (* generic fuel: the two fixpoint bodies are compared, no iteration is unfolded *)
  Lemma compute_proposers_env vals active sd start :
    compute_proposers_impl E vals active sd start = compute_proposers_impl EA vals active sd start.
  Proof.
    unfold compute_proposers_impl. change (Hash EA) with (Hash E). change (cfg EA) with (cfg E).
    destruct (_ =? 0); [reflexivity|]. apply (f_equal ok_all). apply map_ext. intros i.
    unfold compute_proposer_index_impl. destruct (_ =? 0); [reflexivity|]. apply proposer_outer_env.
  Qed.
  Lemma load_epc_env st : load_epc E st = load_epc EA st.
  Proof.
    unfold load_epc.
    change (go_get_seed EA) with (go_get_seed E). change (new_shuffling_epoch EA) with (new_shuffling_epoch E).
    destruct (go_get_seed E st GENESIS_EPOCH DOMAIN_BEACON_ATTESTER) as [s0| | | |]; cbn [bind]; [|reflexivity..].
    destruct (new_shuffling_epoch E _ _ GENESIS_EPOCH) as [cur| | | |]; cbn [bind]; [|reflexivity..].
    destruct (go_get_seed E st (GENESIS_EPOCH + 1) DOMAIN_BEACON_ATTESTER) as [s1| | | |]; cbn [bind]; [|reflexivity..].
    destruct (new_shuffling_epoch E _ _ (GENESIS_EPOCH + 1)) as [nxt| | | |]; cbn [bind]; [|reflexivity..].
    destruct (go_get_seed E st GENESIS_EPOCH DOMAIN_BEACON_PROPOSER) as [ps| | | |]; cbn [bind]; [|reflexivity..].
    rewrite compute_proposers_env. reflexivity.
  Qed.

  Lemma genesis_from_eth1_ignore hash time ds1 ds2 : Forall2 (fun a b => vfield a 1 = vfield b 1) ds1 ds2 ->
    genesis_from_eth1 E pk_ok sig_ok hash time ds1 true = genesis_from_eth1 EA pk_ok sig_ok hash time ds2 true.
  Proof.
    intros H. unfold genesis_from_eth1, genesis_from_eth1_ctx.
    rewrite (deposit_loop_ignore ds1 ds2 _ H). rewrite (Forall2_len _ _ _ H).
    change (genesis_pre_state EA) with (genesis_pre_state E).
    destruct (deposit_loop EA pk_ok sig_ok true ds2 _) as [[[st roots] pc]| | | |]; cbn [bind]; [|reflexivity..].
    change (update_dep_tree_root EA) with (update_dep_tree_root E). change (cfg EA) with (cfg E).
    destruct (check _) as [u| | | |]; cbn [bind]; [|reflexivity..].
    change (activation_loop EA) with (activation_loop E).
    destruct (activation_loop E _ _) as [vals| | | |]; cbn [bind]; [|reflexivity..].
    change (Helpers.htr EA) with (Helpers.htr E).
    rewrite load_epc_env. reflexivity.
  Qed.

  Definition kick_pubkey (v : kick_data) : bytes := fst (fst v).
  Definition kick_balance (v : kick_data) : N := snd v.
  (* the same deposits with arbitrary Merkle branches *)
  Definition kick_deposits (placeholder_sig : bytes) (proofs : list (list bytes)) (vs : list kick_data) : list value :=
    map (fun pv => kick_deposit placeholder_sig (fst pv) (snd pv)) (combine proofs vs).

  Theorem kickstart_refines (placeholder_sig eth1_block_hash : bytes) (time : N) (vs : list kick_data)
                            (proofs : list (list bytes)) (st : BeaconState) :
    (forall x, length (Hash E x) = 32%nat) -> length (zero_hashes E 2) = 32%nat ->
    0 < EFFECTIVE_BALANCE_INCREMENT c -> epc_params_ok E -> GENESIS_DELAY c < two64 ->
    N.of_nat (length vs) <= DEPOSIT_ROOTS_LIMIT -> N.of_nat (length vs) <= VALIDATOR_REGISTRY_LIMIT c ->
    sumN (map kick_balance vs) < two64 -> Forall (fun v => pubkey_wf (kick_pubkey v)) vs ->
    length proofs = length vs ->
    initialize_beacon_state_from_eth1 EA eth1_block_hash 0 (kick_deposits placeholder_sig proofs vs) = Some st ->
    kickstart_state E pk_ok sig_ok placeholder_sig eth1_block_hash time vs =
      if N.of_nat (length (validators st)) <? SLOTS_PER_EPOCH c then Err
      else if N.of_nat (length (get_active_validator_indices st GENESIS_EPOCH)) =? 0 then Err
      else Ok (st <| genesis_time := time |>).
  Proof.
    intros HH Hz HI HSPE Hd Hn32 Hn HS Hpk Hlen Hspec.
    unfold kickstart_state.
    assert (HF : Forall2 (fun a b => vfield a 1 = vfield b 1)
                   (map (kick_deposit placeholder_sig zero_proof) vs) (kick_deposits placeholder_sig proofs vs)).
    { unfold kick_deposits. clear -Hlen. revert proofs Hlen.
      induction vs as [|[[pk wc] bal] vs' IH]; intros [|p proofs] Hlen; cbn [length] in Hlen; try discriminate;
        cbn [map combine]; constructor; [reflexivity|]. apply IH. lia. }
    rewrite (genesis_from_eth1_ignore eth1_block_hash 0 _ _ HF).
    assert (Hl : length (kick_deposits placeholder_sig proofs vs) = length vs).
    { unfold kick_deposits. rewrite map_length, combine_length. lia. }
    assert (Hamt : map dep_amount (kick_deposits placeholder_sig proofs vs) = map kick_balance vs).
    { unfold kick_deposits. clear -Hlen. revert proofs Hlen.
      induction vs as [|[[pk wc] bal] vs' IH]; intros [|p proofs] Hlen; cbn [length] in Hlen; try discriminate;
        cbn [map combine]; [reflexivity|]. f_equal. apply IH. lia. }
    assert (Hkeys : Forall (fun d => pubkey_wf (dep_pubkey d)) (kick_deposits placeholder_sig proofs vs)).
    { unfold kick_deposits. clear -Hlen Hpk. revert proofs Hlen.
      induction Hpk as [|[[pk wc] bal] vs' Hv _ IH]; intros [|p proofs] Hlen; cbn [length] in Hlen; try discriminate;
        cbn [map combine]; constructor; [exact Hv|]. apply IH. lia. }
    assert (HepcA : epc_params_ok EA) by (destruct HSPE; constructor; assumption).
    pose proof (genesis_from_eth1_gen EA pk_ok sig_ok true eth1_block_hash 0 (kick_deposits placeholder_sig proofs vs)
                  HH Hz HI HepcA) as G.
    rewrite Hspec in G. rewrite G.
    - unfold go_verdict. fold c.
      destruct (_ <? _); cbn [bind]; [reflexivity|]. destruct (_ =? _); reflexivity.
    - intros pk m s. cbn [orb]. rewrite andb_true_r. reflexivity.
    - exact Hd.
    - rewrite Hl. exact Hn32.
    - rewrite Hl. exact Hn.
    - rewrite Hamt. exact HS.
    - exact Hkeys.
  Qed.
End Kickstart.

(* ================= non-vacuity: a concrete genesis under SHA-256 with real Merkle branches ================= *)
From V Require Import Base.Sha256.

Lemma compress_len hs b : length hs = 8%nat -> length (compress hs b) = 8%nat.
Proof.
  intros H. do 9 (destruct hs as [|? hs]; try discriminate). unfold compress.
  destruct (rounds _ _ _). reflexivity.
Qed.
Lemma blocks_len : forall fuel hs ws, length hs = 8%nat -> length (blocks fuel hs ws) = 8%nat.
Proof.
  induction fuel as [|fuel IH]; intros hs ws H; cbn [blocks]; [exact H|].
  destruct ws; [exact H|]. apply IH. apply compress_len. exact H.
Qed.
Lemma sha256_length x : length (sha256 x) = 32%nat.
Proof.
  unfold sha256, sha256_int. rewrite map_length.
  match goal with |- length (flat_map _ ?l) = _ => assert (H : length l = 8%nat) by (apply blocks_len; reflexivity); revert H; generalize l end.
  intros l H. do 9 (destruct l as [|? l]; try discriminate). reflexivity.
Qed.

Lemma N_of_byte_lt i : N_of_byte i < 256.
Proof.
  unfold N_of_byte, bitN.
  repeat match goal with |- context [if ?b then _ else _] => destruct b end; reflexivity.
Qed.
Lemma sha256_bytes x : Forall (fun b => b < 256) (sha256 x).
Proof. unfold sha256. apply Forall_forall. intros b Hb. apply in_map_iff in Hb. destruct Hb as (i & <- & _). apply N_of_byte_lt. Qed.

Lemma pubkey_wf_b pk : (Nat.eqb (length pk) 48 && forallb (fun b => b <? 256) pk = true) -> pubkey_wf pk.
Proof.
  intros H. apply andb_true_iff in H. destruct H as [H1 H2]. split; [apply Nat.eqb_eq; exact H1|].
  apply Forall_forall. intros b Hb. rewrite forallb_forall in H2. apply N.ltb_lt. auto.
Qed.

Module GenesisExample.
  Local Open Scope string_scope.
  Definition ex_num (k : string) : N :=
    let is s := String.eqb k s in
    if is "SLOTS_PER_EPOCH" then 2 else if is "EFFECTIVE_BALANCE_INCREMENT" then 1000000000 else
    if is "MAX_EFFECTIVE_BALANCE" then 32000000000 else if is "VALIDATOR_REGISTRY_LIMIT" then 1099511627776 else
    if is "MIN_GENESIS_ACTIVE_VALIDATOR_COUNT" then 2 else if is "MIN_GENESIS_TIME" then 1000 else
    if is "GENESIS_DELAY" then 10 else 4.
  Local Close Scope string_scope.
  Definition ex_cfg : Config := config_of ex_num (fun _ => [0; 0; 0; 1]).

  Definition zh_table : list bytes :=
    (fix go (n : nat) (z : bytes) : list bytes := match n with O => [z] | S k => z :: go k (sha256 (z ++ z)) end) 64%nat (repeat 0 32).
  Definition zh (d : nat) : bytes := nth d zh_table [].

  (* toy BLS: a key decodes unless it starts with 255, a signature unless it starts with 254; the signature of key
     k.. on any message is 96 copies of k *)
  Definition ex_pk_ok (pk : bytes) : bool := negb (hd 0 pk =? 255).
  Definition ex_sig_ok (s : bytes) : bool := negb (hd 0 s =? 254).
  Definition ex_verify (pk m s : bytes) : bool := ex_pk_ok pk && ex_sig_ok s && bytes_eqb s (repeat (hd 0 pk) 96).
  Definition ex_env : Env := mkEnv ex_cfg sha256 zh ex_verify (fun _ _ _ => false) (fun _ => []) (fun _ _ _ => false).

  Definition GWEI : N := 1000000000.
  Definition ex_data (k : N) (amount : N) (sigbyte : N) : value :=
    VCont [VBytes (repeat k 48); VBytes (repeat 7 32); VUint amount; VBytes (repeat sigbyte 96)].
  (* validator 1 (32 ETH) | key 2 with a wrong signature (skipped) | top-up of validator 1 (1 ETH, signature irrelevant) |
     undecodable key 255 (skipped) | validator 3 (32 ETH) | validator 4 (17 ETH: registered, not activated) *)
  Definition ex_datas : list value :=
    [ex_data 1 (32 * GWEI) 1; ex_data 2 (32 * GWEI) 9; ex_data 1 GWEI 0; ex_data 255 (32 * GWEI) 255;
     ex_data 3 (32 * GWEI) 3; ex_data 4 (17 * GWEI) 4].

  (* the Merkle branch of leaf i in the deposit tree holding leaves 0..i (depth 32, then the length) *)
  Definition ex_sibling (leaves : list bytes) (i : N) (k : nat) : bytes :=
    let w := 2 ^ N.of_nat k in
    let start := N.lxor (i / w) 1 * w in
    if N.of_nat (length leaves) <=? start then zh k
    else merkle_tree sha256 zh k (firstn (N.to_nat w) (skipn (N.to_nat start) leaves)).
  Definition ex_proof (datas : list value) (i : nat) : list bytes :=
    let leaves := map (hash_tree_root sha256 zh DepositDataT) (firstn (S i) datas) in
    map (ex_sibling leaves (N.of_nat i)) (seq 0 32) ++ [le_bytes 32 (N.of_nat (S i))].
  Definition ex_deposits : list value :=
    map (fun i => VCont [VSeq (map VBytes (ex_proof ex_datas i)); nth i ex_datas (VCont [])]) (seq 0 (length ex_datas)).
  Definition ex_hash : bytes := repeat 66 32.

  Definition summary (st : BeaconState) :=
    (map (fun v => hd 0 (v_pubkey v)) (validators st), balances st, map v_effective_balance (validators st),
     map v_activation_epoch (validators st), eth1_deposit_index st, genesis_time st).

  Lemma ex_hyps :
    (forall x, length (Hash ex_env x) = 32%nat) /\ length (zero_hashes ex_env 2) = 32%nat /\
    0 < EFFECTIVE_BALANCE_INCREMENT (cfg ex_env) /\ epc_params_ok ex_env /\
    verify_decodes ex_env ex_pk_ok ex_sig_ok /\
    990 + GENESIS_DELAY (cfg ex_env) < two64 /\
    N.of_nat (length ex_deposits) <= DEPOSIT_ROOTS_LIMIT /\
    N.of_nat (length ex_deposits) <= VALIDATOR_REGISTRY_LIMIT (cfg ex_env) /\
    sumN (map dep_amount ex_deposits) < two64 /\ Forall (fun d => pubkey_wf (dep_pubkey d)) ex_deposits.
  Proof.
    split; [exact sha256_length|]. split; [vm_compute; reflexivity|].
    split; [vm_compute; reflexivity|].
    split.
    { constructor; [vm_compute; discriminate|exact sha256_bytes|vm_compute; reflexivity..]. }
    split.
    { intros pk m s H. unfold ex_env, ex_verify in H. cbn [bls_verify] in H.
      apply andb_true_iff in H. destruct H as [H _]. apply andb_true_iff in H. exact H. }
    split; [vm_compute; reflexivity|]. split; [vm_compute; discriminate|]. split; [vm_compute; discriminate|].
    split; [vm_compute; reflexivity|].
    apply Forall_forall. intros d Hd. apply pubkey_wf_b.
    revert d Hd. apply Forall_forall.
    assert (H : forallb (fun d => Nat.eqb (length (dep_pubkey d)) 48 && forallb (fun b => b <? 256) (dep_pubkey d)) ex_deposits = true)
      by (vm_compute; reflexivity).
    apply Forall_forall. intros d Hd. rewrite forallb_forall in H. auto.
  Qed.

  (* Impl and Spec build the same state: registry [1; 3; 4], validator 1 topped up, 17-ETH validator not activated *)
  Lemma ex_runs :
    genesis_from_eth1 ex_env ex_pk_ok ex_sig_ok ex_hash 990 ex_deposits false
      = of_opt (initialize_beacon_state_from_eth1 ex_env ex_hash 990 ex_deposits)
    /\ option_map summary (initialize_beacon_state_from_eth1 ex_env ex_hash 990 ex_deposits)
       = Some ([1; 3; 4], [33 * GWEI; 32 * GWEI; 17 * GWEI], [32 * GWEI; 32 * GWEI; 17 * GWEI],
               [0; 0; FAR_FUTURE_EPOCH], 6, 1000)
    /\ option_map (is_valid_genesis_state_go ex_env) (initialize_beacon_state_from_eth1 ex_env ex_hash 990 ex_deposits)
       = Some true.
  Proof. split; [|split]; vm_compute; reflexivity. Qed.
End GenesisExample.
