(* C01 — phase0.InitiateValidatorExit and phase0.SlashValidator (zrnt) against initiate_validator_exit and
   slash_validator (Spec).

   zrnt finds the exit-queue end and its churn in ONE pass over the registry (running maximum; the counter restarts at
   1 whenever a later exit epoch is met), takes the current epoch and the active-validator count from its
   EpochsContext, and computes with uint64.  The spec scans three times (all exit epochs, their maximum, the count
   at the maximum).  Both are the same function of the state:

     exit_scan_spec                    the one-pass scan = (maximum, count at the maximum)      (all lists)
     initiate_validator_exit_refines   Impl = Spec (Ok/Err alike)    under epc_ok, cfg_sane, st_bounds
     slash_validator_refines           Impl = Spec                    same hypotheses + the proposer lookup is stable *)
From Coq Require Import String.
From Coq Require Import NArith ZArith Lia List Bool.
From Coq Require Import ZifyN ZifyNat ZifyBool.
From RecordUpdate Require Import RecordSet.
From V Require Import Base.U64 Base.Outcome Ssz.SszCore Beacon.Config Beacon.Schemas Beacon.State
  Beacon.Spec.Helpers Beacon.Spec.Epoch Beacon.Spec.Block Beacon.Impl.BlockOps
  Beacon.Refine.BlockLemmas Beacon.Refine.BlockEpc.
Import ListNotations RecordSetNotations.
Local Open Scope list_scope.
Local Open Scope N_scope.

(* ---------- the one-pass scan ---------- *)
Definition nonfar (e : N) : bool := negb (e =? FAR_FUTURE_EPOCH).
Definition exits_of (l : list Validator) : list N := filter nonfar (map v_exit_epoch l).
Definition count_at (q : N) (l : list Validator) : N := N.of_nat (length (filter (fun w => v_exit_epoch w =? q) l)).

Lemma maxl_ge_d l : forall d, d <= maxl l d.
Proof. induction l as [|y l IH]; intros d; cbn [maxl]; [lia|]. specialize (IH (N.max y d)). lia. Qed.
Lemma maxl_mono l : forall d d', d <= d' -> maxl l d <= maxl l d'.
Proof. induction l as [|y l IH]; intros d d' H; cbn [maxl]; [exact H|]. apply IH. lia. Qed.
Lemma maxl_absorb l : forall d e, e <= d -> maxl l (N.max e d) = maxl l d.
Proof. intros d e H. f_equal. lia. Qed.
Lemma maxl_bound l B : forall d, d <= B -> (forall x, In x l -> x <= B) -> maxl l d <= B.
Proof.
  induction l as [|y l IH]; intros d Hd Hl; cbn [maxl]; [exact Hd|].
  apply IH; [|intros x Hx; apply Hl; right; exact Hx]. specialize (Hl y (or_introl eq_refl)). lia.
Qed.
Lemma maxl_nonfar l : forall d, d <> FAR_FUTURE_EPOCH -> (forall x, In x l -> x <> FAR_FUTURE_EPOCH) -> maxl l d <> FAR_FUTURE_EPOCH.
Proof.
  induction l as [|y l IH]; intros d Hd Hl; cbn [maxl]; [exact Hd|].
  apply IH; [|intros x Hx; apply Hl; right; exact Hx]. specialize (Hl y (or_introl eq_refl)). lia.
Qed.
Lemma exits_of_nonfar l x : In x (exits_of l) -> x <> FAR_FUTURE_EPOCH.
Proof. unfold exits_of. intros H. apply filter_In in H. destruct H as [_ H]. unfold nonfar in H. apply negb_true_iff, N.eqb_neq in H. exact H. Qed.

Lemma count_at_cons q v l : count_at q (v :: l) = (if v_exit_epoch v =? q then 1 else 0) + count_at q l.
Proof. unfold count_at. cbn [filter]. destruct (v_exit_epoch v =? q); cbn [length]; lia. Qed.
Lemma count_at_le q l : count_at q l <= N.of_nat (length l).
Proof.
  unfold count_at. induction l as [|x l IH]; cbn [filter length]; [lia|].
  destruct (v_exit_epoch x =? q); cbn [length]; lia.
Qed.

Lemma exits_of_cons v l :
  exits_of (v :: l) = if nonfar (v_exit_epoch v) then v_exit_epoch v :: exits_of l else exits_of l.
Proof. reflexivity. Qed.

(* generalised invariant of the fold *)
Lemma exit_scan_gen l : forall q0 ch0,
  q0 <> FAR_FUTURE_EPOCH -> ch0 + N.of_nat (length l) < two64 ->
  fold_left exit_scan_step l (q0, ch0)
  = (maxl (exits_of l) q0,
     if maxl (exits_of l) q0 =? q0 then ch0 + count_at q0 l else count_at (maxl (exits_of l) q0) l).
Proof.
  induction l as [|v l IH]; intros q0 ch0 Hq Hch.
  - cbn [fold_left exits_of map filter maxl]. rewrite N.eqb_refl. unfold count_at. cbn. f_equal. lia.
  - cbn [fold_left length] in *. rewrite exits_of_cons. unfold exit_scan_step at 2. unfold nonfar.
    destruct (N.eqb_spec (v_exit_epoch v) FAR_FUTURE_EPOCH) as [Hfar|Hnf]; cbn [negb].
    + (* no exit scheduled: skipped by both *)
      rewrite IH by (try assumption; lia).
      assert (Hm : maxl (exits_of l) q0 <> FAR_FUTURE_EPOCH) by (apply maxl_nonfar; [exact Hq|apply exits_of_nonfar]).
      rewrite !count_at_cons, Hfar.
      assert (H1 : (FAR_FUTURE_EPOCH =? q0) = false) by (apply N.eqb_neq; congruence).
      assert (H2 : (FAR_FUTURE_EPOCH =? maxl (exits_of l) q0) = false) by (apply N.eqb_neq; congruence).
      rewrite H1, H2. reflexivity.
    + cbn [maxl]. set (e := v_exit_epoch v) in *.
      destruct (N.eqb_spec e q0) as [Heq|Hne].
      * (* same epoch as the running end *)
        rewrite add64_small by lia. rewrite IH by (try assumption; lia).
        rewrite Heq, N.max_id. rewrite !count_at_cons. fold e. rewrite Heq, N.eqb_refl.
        destruct (N.eqb_spec (maxl (exits_of l) q0) q0) as [Hm|Hm]; f_equal; [lia|].
        assert (H : (q0 =? maxl (exits_of l) q0) = false) by (apply N.eqb_neq; congruence). rewrite H. lia.
      * destruct (N.ltb_spec q0 e) as [Hlt|Hge].
        -- (* a later exit epoch: restart the counter *)
           rewrite IH by (try assumption; lia). replace (N.max e q0) with e by lia.
           pose proof (maxl_ge_d (exits_of l) e) as Hge.
           assert (H : (maxl (exits_of l) e =? q0) = false) by (apply N.eqb_neq; lia). rewrite H.
           rewrite !count_at_cons. fold e.
           destruct (N.eqb_spec (maxl (exits_of l) e) e) as [Hm|Hm]; f_equal.
           ++ rewrite Hm, N.eqb_refl. reflexivity.
           ++ assert (H' : (e =? maxl (exits_of l) e) = false) by (apply N.eqb_neq; congruence). rewrite H'. lia.
        -- (* an earlier exit epoch: ignored *)
           rewrite IH by (try assumption; lia). replace (N.max e q0) with q0 by lia.
           pose proof (maxl_ge_d (exits_of l) q0) as Hge'.
           rewrite !count_at_cons. fold e.
           assert (H1 : (e =? q0) = false) by (apply N.eqb_neq; exact Hne). rewrite H1.
           assert (H2 : (e =? maxl (exits_of l) q0) = false) by (apply N.eqb_neq; lia). rewrite H2.
           reflexivity.
Qed.

(* the scan from an empty counter: exactly the spec's (queue end, churn at the queue end) *)
Theorem exit_scan_spec l start :
  start <> FAR_FUTURE_EPOCH -> N.of_nat (length l) < two64 ->
  fold_left exit_scan_step l (start, 0) = (maxl (exits_of l) start, count_at (maxl (exits_of l) start) l).
Proof.
  intros Hs Hl. rewrite exit_scan_gen by (try assumption; lia).
  destruct (N.eqb_spec (maxl (exits_of l) start) start) as [->|_]; reflexivity.
Qed.

Section Exit.
  Variable E : Env.
  Let c := cfg E.

  Lemma current_epoch_lt st : cfg_sane E -> st_bounds E st -> get_current_epoch E st < 2 ^ 40.
  Proof.
    intros Hc Hb. unfold get_current_epoch, compute_epoch_at_slot. pose proof (sb_slot E st Hb). pose proof (cs_spe_pos E Hc).
    eapply N.le_lt_trans; [|exact H]. apply N.div_le_upper_bound; [lia|]. nia.
  Qed.

  Theorem initiate_validator_exit_refines st epc index :
    cfg_sane E -> epc_ok E st epc -> st_bounds E st ->
    initiate_validator_exit_impl E epc st index
    = match initiate_validator_exit E st index with Some s => Ok s | None => Err end.
  Proof.
    intros Hc Hepc Hb. unfold initiate_validator_exit_impl, initiate_validator_exit. fold c.
    destruct (nthN (validators st) index) as [v|]; [|reflexivity]. cbn [of_opt bind].
    destruct (negb (v_exit_epoch v =? FAR_FUTURE_EPOCH)); [reflexivity|].
    rewrite (eo_epoch E st epc Hepc), (eo_active E st epc Hepc).
    pose proof (current_epoch_lt st Hc Hb) as Hce. pose proof (cs_lookahead_hi E Hc) as Hla. fold c in Hla.
    change (2 ^ 40) with 1099511627776 in *. change (2 ^ 20) with 1048576 in *.
    rewrite (add64_small (get_current_epoch E st) 1) by (unfold two64; lia).
    rewrite add64_small by (unfold two64; lia).
    unfold compute_activation_exit_epoch. fold c.
    set (start := get_current_epoch E st + 1 + MAX_SEED_LOOKAHEAD c).
    pose proof (sb_nvals E st Hb) as Hn. change (2 ^ 40) with 1099511627776 in Hn.
    rewrite exit_scan_spec by (unfold FAR_FUTURE_EPOCH, two64; lia).
    rewrite div64_ok by (apply (cs_churn_pos E Hc)). cbn [bind].
    unfold get_validator_churn_limit. fold c.
    change (filter (fun e : N => negb (e =? FAR_FUTURE_EPOCH)) (map v_exit_epoch (validators st))) with (exits_of (validators st)).
    set (q := maxl (exits_of (validators st)) start).
    change (N.of_nat (length (filter (fun w : Validator => v_exit_epoch w =? q) (validators st)))) with (count_at q (validators st)).
    assert (Hq : q <= 2 ^ 41).
    { apply maxl_bound; [change (2 ^ 41) with 2199023255552; lia|].
      intros x Hx. pose proof (exits_of_nonfar _ _ Hx) as Hnf. unfold exits_of in Hx. apply filter_In in Hx.
      destruct Hx as [Hx _]. apply in_map_iff in Hx. destruct Hx as (w & <- & Hw).
      destruct (sb_exits E st Hb w Hw) as [Hf|Hlt]; [contradiction|lia]. }
    change (2 ^ 41) with 2199023255552 in Hq.
    pose proof (cs_wd_delay_hi E Hc) as Hwd. fold c in Hwd. change (2 ^ 40) with 1099511627776 in Hwd.
    rewrite (add64_small q 1) by (unfold two64; lia).
    set (q' := if N.max (MIN_PER_EPOCH_CHURN_LIMIT c)
                   (N.of_nat (length (get_active_validator_indices st (get_current_epoch E st))) / CHURN_LIMIT_QUOTIENT c)
                   <=? count_at q (validators st) then q + 1 else q).
    assert (Hq' : q' <= q + 1) by (unfold q'; destruct (_ <=? _); lia).
    rewrite add64_small by (unfold two64; lia). reflexivity.
  Qed.

  Variable f : fork.
  Theorem process_voluntary_exit_refines st epc sve :
    cfg_sane E -> epc_ok E st epc -> st_bounds E st -> SHARD_COMMITTEE_PERIOD c <= 2 ^ 40 ->
    process_voluntary_exit_impl E f epc st sve
    = match process_voluntary_exit E f st sve with Some s => Ok s | None => Err end.
  Proof.
    intros Hc Hepc Hb Hscp. unfold process_voluntary_exit_impl, process_voluntary_exit. cbv zeta. fold c.
    rewrite (eo_epoch E st epc Hepc), (eo_pubkey_of E st epc Hepc).
    destruct (N.ltb_spec (vuint (vfield (vfield sve 0) 1)) (N.of_nat (length (validators st)))) as [Hlt|Hge]; cbn [check bind].
    2:{ apply nthN_None_ge in Hge. rewrite Hge. reflexivity. }
    destruct (nthN (validators st) (vuint (vfield (vfield sve 0) 1))) as [v|]; [|reflexivity]. cbn [of_opt bind option_map].
    destruct (is_active_validator v (get_current_epoch E st)) eqn:Hact; cbn [check bind]; [|reflexivity].
    destruct (v_exit_epoch v =? FAR_FUTURE_EPOCH); cbn [check bind]; [|reflexivity].
    rewrite <- N.leb_antisym.
    destruct (vuint (vfield (vfield sve 0) 0) <=? get_current_epoch E st); cbn [check bind]; [|reflexivity].
    (* the addition cannot wrap: the validator is active, so activation_epoch <= current epoch < 2^40 *)
    unfold is_active_validator in Hact. apply andb_true_iff in Hact. destruct Hact as [Ha _]. apply N.leb_le in Ha.
    pose proof (current_epoch_lt st Hc Hb) as Hce. change (2 ^ 40) with 1099511627776 in *.
    rewrite add64_small by (unfold two64; lia). rewrite <- N.leb_antisym.
    destruct (v_activation_epoch v + SHARD_COMMITTEE_PERIOD c <=? get_current_epoch E st); cbn [check bind]; [|reflexivity].
    destruct (bls_verify E _ _ _); cbn [check bind]; [|reflexivity].
    apply initiate_validator_exit_refines; assumption.
  Qed.
End Exit.
