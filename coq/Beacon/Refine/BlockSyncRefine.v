(* C01 — altair.ProcessSyncAggregate (zrnt) against process_sync_aggregate (Spec).

   The PINNED snapshot rewarded/penalised the committee positions in one loop and added the proposer reward ONCE after
   the loop (proposerReward * #participants); the spec interleaves `increase_balance(proposer, proposer_reward)` with the
   loop.  Because decrease_balance saturates at 0 the two are NOT the same function of the balances.  /repo 74b46c6
   (fixes/C01-sync-aggregate-proposer-reward-order.diff) credits the proposer inside the loop.

     sync_aggregate_refines            REPAIRED code = Spec (Ok/Err alike, no panic) for all states under context
                                       agreement + no uint64 wrap
     sync_batching_exact               the interleaved and the batched loop agree  <->  there is no position where the
                                       proposer itself is a NON-participating member whose (zrnt-side) balance is below
                                       the participant reward while proposer rewards are pending   (exact, all inputs)
     sync_aggregate_batching_refuted   concrete witness against the pinned snapshot (vm_compute)
     sync_aggregate_orig_refines_partial   pinned snapshot = Spec under `~ sync_bad` *)
From Coq Require Import String.
From Coq Require Import NArith ZArith Lia List Bool.
From Coq Require Import ZifyN ZifyNat ZifyBool.
From RecordUpdate Require Import RecordSet.
From V Require Import Base.U64 Base.Outcome Ssz.SszCore Beacon.Config Beacon.Schemas Beacon.State
  Beacon.Spec.Helpers Beacon.Spec.Epoch Beacon.Spec.Block Beacon.Impl.BlockOps Beacon.Refine.BlockLemmas Beacon.Refine.BlockEpc Beacon.Refine.RejectRules Beacon.Refine.BlockProposer.
Import ListNotations RecordSetNotations.
Local Open Scope list_scope.
Local Open Scope N_scope.

(* ---------- pointwise view of list updates ---------- *)
Lemma nthN_updN {A} (l : list A) i j g :
  nthN (updN l i g) j = option_map (fun x => if i =? j then g x else x) (nthN l j).
Proof.
  destruct (N.eqb_spec i j) as [->|Hne].
  - rewrite nthN_updN_same. reflexivity.
  - rewrite nthN_updN_other by exact Hne. destruct (nthN l j); reflexivity.
Qed.
Lemma list_eq_nthN {A} (a b : list A) : (forall i, nthN a i = nthN b i) -> a = b.
Proof.
  revert b. induction a as [|x a IH]; intros [|y b] H.
  - reflexivity.
  - specialize (H 0). discriminate.
  - specialize (H 0). discriminate.
  - pose proof (H 0) as H0. cbn in H0. injection H0 as <-. f_equal. apply IH. intros i.
    specialize (H (i + 1)). rewrite ?nthN_eq in *. replace (N.to_nat (i + 1)) with (S (N.to_nat i)) in H by lia. exact H.
Qed.
Lemma option_map_map {A B C} (g : A -> B) (h : B -> C) (o : option A) :
  option_map h (option_map g o) = option_map (fun x => h (g x)) o.
Proof. destruct o; reflexivity. Qed.
Lemma option_map_ext {A B} (g h : A -> B) (o : option A) : (forall x, g x = h x) -> option_map g o = option_map h o.
Proof. intros H. destruct o; cbn; [rewrite H|]; reflexivity. Qed.

Section Loops.
  Variables (p pr propr : N).     (* proposer index, participant reward, proposer reward (per participant) *)

  Definition addb (l : list N) (i d : N) : list N := updN l i (fun x => x + d).
  Definition subb (l : list N) (i d : N) : list N := updN l i (fun x => x - d).     (* saturating *)
  (* one position of the committee, spec order: reward the member AND the proposer, or penalise the member *)
  Definition spec_step (bals : list N) (ib : N * bool) : list N :=
    let '(i, b) := ib in if b then addb (addb bals i pr) p propr else subb bals i pr.
  (* zrnt order: the proposer is not touched inside the loop *)
  Definition go_step (bals : list N) (ib : N * bool) : list N :=
    let '(i, b) := ib in if b then addb bals i pr else subb bals i pr.
  Definition parts (ibs : list (N * bool)) : N := N.of_nat (length (filter snd ibs)).
  Definition spec_loop (ibs : list (N * bool)) (bals : list N) : list N := fold_left spec_step ibs bals.
  Definition go_batched (ibs : list (N * bool)) (bals : list N) : list N :=
    addb (fold_left go_step ibs bals) p (propr * parts ibs).

  (* pointwise semantics *)
  Definition spec_val (i : N) (b : bool) (j x : N) : N :=
    if b then (let x1 := if i =? j then x + pr else x in if p =? j then x1 + propr else x1)
    else (if i =? j then x - pr else x).
  Definition go_val (i : N) (b : bool) (j x : N) : N :=
    if i =? j then (if b then x + pr else x - pr) else x.
  Lemma nthN_spec_step bals i b j : nthN (spec_step bals (i, b)) j = option_map (spec_val i b j) (nthN bals j).
  Proof.
    unfold spec_step, spec_val, addb, subb. destruct b.
    - rewrite !nthN_updN, option_map_map. apply option_map_ext. intros x. reflexivity.
    - rewrite nthN_updN. reflexivity.
  Qed.
  Lemma nthN_go_step bals i b j : nthN (go_step bals (i, b)) j = option_map (go_val i b j) (nthN bals j).
  Proof.
    unfold go_step, go_val, addb, subb. destruct b; rewrite nthN_updN; apply option_map_ext; intros x; reflexivity.
  Qed.
  Lemma spec_step_length bals ib : length (spec_step bals ib) = length bals.
  Proof. destruct ib as [i [|]]; unfold spec_step, addb, subb; rewrite ?updN_length; reflexivity. Qed.
  Lemma go_step_length bals ib : length (go_step bals ib) = length bals.
  Proof. destruct ib as [i [|]]; unfold go_step, addb, subb; rewrite ?updN_length; reflexivity. Qed.

  Definition getb (l : list N) (i : N) : N := match nthN l i with Some x => x | None => 0 end.

  (* the shape on which the two orders differ: at some NON-participating position of the proposer its balance on
     the zrnt side (no proposer reward credited yet) is below the participant reward while a positive amount of
     proposer reward is pending *)
  Fixpoint sync_bad (ibs : list (N * bool)) (G : list N) (P : N) : Prop :=
    match ibs with
    | [] => False
    | (i, b) :: r =>
        (i = p /\ b = false /\ getb G p < pr /\ 0 < P)
        \/ sync_bad r (go_step G (i, b)) (if b then P + propr else P)
    end.

  (* S = spec-side balances, G = zrnt-side balances, P = proposer reward pending on the zrnt side *)
  Definition rel_eq (S G : list N) (P : N) : Prop :=
    length S = length G /\ (forall j, j <> p -> nthN S j = nthN G j)
    /\ exists gp, nthN G p = Some gp /\ nthN S p = Some (gp + P).
  Definition rel_lt (S G : list N) (P : N) : Prop :=
    length S = length G /\ (forall j, j <> p -> nthN S j = nthN G j)
    /\ 0 < P /\ exists gp sp, nthN G p = Some gp /\ nthN S p = Some sp /\ sp < gp + P.

  Lemma step_others S G i b :
    (forall j, j <> p -> nthN S j = nthN G j) ->
    forall j, j <> p -> nthN (spec_step S (i, b)) j = nthN (go_step G (i, b)) j.
  Proof.
    intros H j Hj. rewrite nthN_spec_step, nthN_go_step, (H j Hj). apply option_map_ext. intros x.
    unfold spec_val, go_val. assert (Hpj : (p =? j) = false) by (apply N.eqb_neq; congruence). rewrite Hpj.
    destruct b, (i =? j); reflexivity.
  Qed.

  Lemma step_eq S G P i b :
    rel_eq S G P ->
    let here := i = p /\ b = false /\ getb G p < pr /\ 0 < P in
    let P' := if b then P + propr else P in
    (~ here -> rel_eq (spec_step S (i, b)) (go_step G (i, b)) P')
    /\ (here -> rel_lt (spec_step S (i, b)) (go_step G (i, b)) P').
  Proof.
    intros (Hlen & Hoth & gp & HG & HS). cbv zeta.
    assert (Hg : getb G p = gp) by (unfold getb; rewrite HG; reflexivity).
    split.
    - intros Hnot. split; [rewrite spec_step_length, go_step_length; exact Hlen|].
      split; [apply step_others; exact Hoth|].
      rewrite nthN_spec_step, nthN_go_step, HG, HS. cbn [option_map]. eexists. split; [reflexivity|]. f_equal.
      unfold spec_val, go_val. rewrite N.eqb_refl. destruct b.
      + destruct (i =? p); lia.
      + destruct (N.eqb_spec i p) as [->|Hne]; [|reflexivity].
        rewrite Hg in Hnot.
        assert (pr <= gp \/ P = 0) as [Hc|Hc] by (destruct (N.le_gt_cases pr gp); [left; assumption|right; lia]); lia.
    - intros (-> & -> & Hlt & HP). rewrite Hg in Hlt.
      split; [rewrite spec_step_length, go_step_length; exact Hlen|].
      split; [apply step_others; exact Hoth|]. split; [exact HP|].
      rewrite nthN_spec_step, nthN_go_step, HG, HS. cbn [option_map]. do 2 eexists. split; [reflexivity|]. split; [reflexivity|].
      unfold spec_val, go_val. rewrite N.eqb_refl. lia.
  Qed.

  Lemma step_lt S G P i b :
    rel_lt S G P -> rel_lt (spec_step S (i, b)) (go_step G (i, b)) (if b then P + propr else P).
  Proof.
    intros (Hlen & Hoth & HP & gp & sp & HG & HS & Hlt).
    split; [rewrite spec_step_length, go_step_length; exact Hlen|].
    split; [apply step_others; exact Hoth|]. split; [destruct b; lia|].
    rewrite nthN_spec_step, nthN_go_step, HG, HS. cbn [option_map]. do 2 eexists. split; [reflexivity|]. split; [reflexivity|].
    unfold spec_val, go_val. rewrite N.eqb_refl. destruct b, (i =? p); lia.
  Qed.

  Lemma rel_eq_final S G P : rel_eq S G P -> S = addb G p P.
  Proof.
    intros (Hlen & Hoth & gp & HG & HS). apply list_eq_nthN. intros j. unfold addb. rewrite nthN_updN.
    destruct (N.eqb_spec p j) as [<-|Hne].
    - rewrite HS, HG. reflexivity.
    - rewrite Hoth by congruence. destruct (nthN G j); reflexivity.
  Qed.
  Lemma rel_lt_final S G P : rel_lt S G P -> S <> addb G p P.
  Proof.
    intros (Hlen & Hoth & HP & gp & sp & HG & HS & Hlt) Heq.
    assert (H : nthN S p = nthN (addb G p P) p) by (rewrite Heq; reflexivity).
    unfold addb in H. rewrite nthN_updN, N.eqb_refl, HG, HS in H. cbn in H. injection H as H. lia.
  Qed.

  Lemma parts_cons i b r : parts ((i, b) :: r) = (if b then 1 else 0) + parts r.
  Proof. unfold parts. cbn [filter snd]. destruct b; cbn [length]; lia. Qed.

  Lemma loops_lt ibs : forall S G P,
    rel_lt S G P -> spec_loop ibs S <> addb (fold_left go_step ibs G) p (P + propr * parts ibs).
  Proof.
    induction ibs as [|[i b] r IH]; intros S G P H.
    - cbn [spec_loop fold_left]. unfold parts. cbn. rewrite N.mul_0_r, N.add_0_r. apply rel_lt_final. exact H.
    - cbn [spec_loop fold_left]. pose proof (step_lt S G P i b H) as H'.
      specialize (IH _ _ _ H'). unfold spec_loop in IH. rewrite parts_cons.
      replace (P + propr * ((if b then 1 else 0) + parts r)) with ((if b then P + propr else P) + propr * parts r)
        by (destruct b; lia).
      exact IH.
  Qed.

  (* EXACT: for every committee, bit list, balance list and rewards *)
  Lemma loops_exact ibs : forall S G P,
    rel_eq S G P ->
    (spec_loop ibs S = addb (fold_left go_step ibs G) p (P + propr * parts ibs) <-> ~ sync_bad ibs G P).
  Proof.
    induction ibs as [|[i b] r IH]; intros S G P H.
    - cbn [spec_loop fold_left sync_bad]. unfold parts. cbn [filter length N.of_nat]. rewrite N.mul_0_r, N.add_0_r.
      split; [tauto|]. intros _. apply rel_eq_final. exact H.
    - cbn [spec_loop fold_left sync_bad]. rewrite parts_cons.
      replace (P + propr * ((if b then 1 else 0) + parts r)) with ((if b then P + propr else P) + propr * parts r)
        by (destruct b; lia).
      destruct (step_eq S G P i b H) as [Hgood Hbad]. cbv zeta in Hgood, Hbad.
      set (here := i = p /\ b = false /\ getb G p < pr /\ 0 < P) in *.
      assert (Hdec : here \/ ~ here).
      { unfold here. destruct (N.eq_dec i p); [|right; tauto]. destruct b; [right; intros (_ & Hb & _); discriminate|].
        destruct (N.lt_ge_cases (getb G p) pr); [|right; intros (_ & _ & Hc & _); lia].
        destruct (N.lt_ge_cases 0 P); [left; tauto|right; intros (_ & _ & _ & Hc); lia]. }
      destruct Hdec as [Hh|Hh].
      + split; [|tauto]. intros Heq. exfalso. exact (loops_lt r _ _ _ (Hbad Hh) Heq).
      + specialize (IH _ _ _ (Hgood Hh)). unfold spec_loop in IH. rewrite IH. tauto.
  Qed.

  Theorem sync_batching_exact ibs bals :
    p < N.of_nat (length bals) ->
    (spec_loop ibs bals = go_batched ibs bals <-> ~ sync_bad ibs bals 0).
  Proof.
    intros Hp. unfold go_batched.
    assert (H : rel_eq bals bals 0).
    { split; [reflexivity|]. split; [reflexivity|]. destruct (nthN_lt_Some bals p Hp) as [gp Hgp].
      exists gp. rewrite N.add_0_r. split; exact Hgp. }
    pose proof (loops_exact ibs bals bals 0 H) as Hx. rewrite N.add_0_l in Hx. exact Hx.
  Qed.

  (* a simple sufficient condition: the proposer can afford all its own penalties *)
  Definition np_count (ibs : list (N * bool)) : N :=
    N.of_nat (length (filter (fun ib => (fst ib =? p) && negb (snd ib)) ibs)).
  Lemma sync_bad_needs_poor ibs : forall G P,
    pr * np_count ibs <= getb G p -> ~ sync_bad ibs G P.
  Proof.
    induction ibs as [|[i b] r IH]; intros G P Hb; cbn [sync_bad]; [tauto|].
    unfold np_count in Hb. cbn [filter fst snd] in Hb. intros [(-> & -> & Hlt & _)|Hbad].
    - rewrite N.eqb_refl in Hb. cbn [negb andb length] in Hb. lia.
    - revert Hbad. apply IH. unfold getb. rewrite nthN_go_step. unfold go_val, np_count.
      unfold getb in Hb. destruct (nthN G p) as [gp|] eqn:HG; cbn [option_map].
      + destruct (N.eqb_spec i p) as [->|Hne]; cbn [andb] in Hb.
        * destruct b; cbn [negb length] in Hb; lia.
        * lia.
      + destruct ((i =? p) && negb b); cbn [length] in Hb; lia.
  Qed.
End Loops.

(* ---------- the witness: the hypothesis of the partial theorem cannot be dropped ---------- *)
(* committee [1; 0], bits [participating; NOT participating], proposer = validator 0 with balance 0,
   participant reward 10, proposer reward 1:   spec -> [0; 110],   zrnt -> [1; 110] *)
Example sync_aggregate_batching_refuted :
  exists (p pr propr : N) (ibs : list (N * bool)) (bals : list N),
    p < N.of_nat (length bals) /\ Forall (fun ib => fst ib < N.of_nat (length bals)) ibs
    /\ spec_loop p pr propr ibs bals <> go_batched p pr propr ibs bals.
Proof.
  exists 0, 10, 1, [(1, true); (0, false)], [0; 100].
  split; [vm_compute; reflexivity|]. split; [repeat constructor|]. vm_compute. discriminate.
Qed.

(* ================= the whole function ================= *)
Section SyncAggregate.
  Variable E : Env.
  Let c := cfg E.

  (* --- the Spec in normal form: a fold over the balances only --- *)
  Definition sync_pr (st : BeaconState) : N :=
    let total_active_increments := get_total_active_balance E st / EFFECTIVE_BALANCE_INCREMENT c in
    let total_base_rewards := get_base_reward_per_increment E st * total_active_increments in
    let max_participant_rewards := total_base_rewards * SYNC_REWARD_WEIGHT / WEIGHT_DENOMINATOR / SLOTS_PER_EPOCH c in
    max_participant_rewards / SYNC_COMMITTEE_SIZE c.
  Definition sync_propr (st : BeaconState) : N := sync_pr st * PROPOSER_WEIGHT / (WEIGHT_DENOMINATOR - PROPOSER_WEIGHT).

  Lemma set_balances_id (st : BeaconState) : st <| balances := balances st |> = st.
  Proof. destruct st; reflexivity. Qed.

  Lemma sync_fold_balances p pr propr ibs : forall st,
    fold_left (fun st (ib : N * bool) =>
                 let '(i, b) := ib in
                 if b then increase_balance (increase_balance st i pr) p propr else decrease_balance st i pr) ibs st
    = st <| balances := fold_left (spec_step p pr propr) ibs (balances st) |>.
  Proof.
    induction ibs as [|[i b] r IH]; intros st; cbn [fold_left].
    - symmetry. apply set_balances_id.
    - rewrite IH. destruct b; reflexivity.
  Qed.

  Lemma process_sync_aggregate_nf st sa :
    process_sync_aggregate E st sa =
    (let bits := vbits (vfield sa 0) in
     let sig := vbytes (vfield sa 1) in
     let participants := select_bits bits (sc_pubkeys (current_sync_committee st)) in
     let previous_slot := N.max (slot st) 1 - 1 in
     root <- get_block_root_at_slot E st previous_slot ;;
     assert (match participants with
             | [] => bytes_eqb sig G2_POINT_AT_INFINITY
             | _ => bls_fast_aggregate_verify E participants
                      (compute_signing_root E root (get_domain E st DOMAIN_SYNC_COMMITTEE (compute_epoch_at_slot E previous_slot))) sig
             end) ;;
     idxs <- all_some (map (fun pk => find_pubkey pk (validators st) 0) (sc_pubkeys (current_sync_committee st))) ;;
     p <- get_beacon_proposer_index E st ;;
     Some (st <| balances := spec_loop p (sync_pr st) (sync_propr st) (combine idxs bits) (balances st) |>)).
  Proof.
    unfold process_sync_aggregate. cbv zeta.
    destruct (get_block_root_at_slot E st (N.max (slot st) 1 - 1)) as [root|]; [|reflexivity].
    match goal with |- (if ?g then _ else None) = _ => destruct g end; [|reflexivity].
    destruct (all_some _) as [idxs|]; [|reflexivity].
    destruct (get_beacon_proposer_index E st) as [p|]; [|reflexivity].
    f_equal. apply sync_fold_balances.
  Qed.

  (* --- the two loops of the Impl --- *)
  Lemma sync_select_ok bits : forall pks, length bits = length pks -> sync_select bits pks = Ok (select_bits bits pks).
  Proof.
    induction bits as [|b bits IH]; intros [|pk pks] H; cbn in H; try discriminate; cbn [sync_select select_bits].
    - reflexivity.
    - rewrite IH by lia. cbn [bind]. destruct b; reflexivity.
  Qed.
  Lemma select_bits_length_le {A} bits : forall (l : list A), (length (select_bits bits l) <= length bits)%nat.
  Proof.
    induction bits as [|b bits IH]; intros [|x l]; cbn [select_bits length]; try lia.
    destruct b; cbn [length]; specialize (IH l); lia.
  Qed.
  Lemma select_bits_parts {A} bits : forall (l : list A) (idxs : list N),
    length bits = length l -> length bits = length idxs ->
    N.of_nat (length (select_bits bits l)) = parts (combine idxs bits).
  Proof.
    unfold parts. induction bits as [|b bits IH]; intros [|x l] [|i idxs] H1 H2; cbn in H1, H2; try discriminate; [reflexivity|].
    cbn [select_bits combine filter snd]. specialize (IH l idxs ltac:(lia) ltac:(lia)).
    destruct b; cbn [length]; lia.
  Qed.

  Lemma go_balance_bound pr bals i b M :
    (forall x, In x bals -> x <= M) -> forall x, In x (go_step pr bals (i, b)) -> x <= M + pr.
  Proof.
    intros H x Hin. apply In_nth_error in Hin. destruct Hin as [k Hk].
    assert (Hk' : nthN (go_step pr bals (i, b)) (N.of_nat k) = Some x) by (rewrite nthN_eq, Nat2N.id; exact Hk).
    rewrite nthN_go_step in Hk'. destruct (nthN bals (N.of_nat k)) as [y|] eqn:Hy; [|discriminate].
    injection Hk' as <-. assert (y <= M) by (apply H; rewrite nthN_eq in Hy; eapply nth_error_In; exact Hy).
    unfold go_val. destruct (i =? N.of_nat k), b; lia.
  Qed.

  Lemma sync_loop_orig_ok pr bits : forall idxs bals M,
    length bits = length idxs ->
    (forall i, In i idxs -> i < N.of_nat (length bals)) ->
    (forall x, In x bals -> x <= M) -> M + N.of_nat (length bits) * pr < two64 ->
    sync_loop_orig bits idxs pr bals = Ok (fold_left (go_step pr) (combine idxs bits) bals).
  Proof.
    induction bits as [|b bits IH]; intros [|i idxs] bals M Hlen Hidx HM Hb; cbn in Hlen; try discriminate; [reflexivity|].
    cbn [sync_loop_orig combine fold_left].
    assert (Hi : i < N.of_nat (length bals)) by (apply Hidx; left; reflexivity).
    destruct (nthN_lt_Some bals i Hi) as [x Hx].
    assert (Hx' : x <= M) by (apply HM; rewrite nthN_eq in Hx; eapply nth_error_In; exact Hx).
    cbn [length] in Hb.
    assert (Hstep : (if b then go_increase_balance bals i pr else go_decrease_balance bals i pr) = Ok (go_step pr bals (i, b))).
    { unfold go_increase_balance, go_decrease_balance, go_step, addb, subb. rewrite Hx. destruct b.
      - rewrite add64_small by lia. rewrite (setN_updN bals i (fun y => y + pr) x Hx). reflexivity.
      - replace (if pr <=? x then x - pr else 0) with (x - pr) by (destruct (N.leb_spec pr x); lia).
        rewrite (setN_updN bals i (fun y => y - pr) x Hx). reflexivity. }
    rewrite Hstep. cbn [bind]. apply (IH idxs _ (M + pr)).
    - lia.
    - intros j Hj. rewrite go_step_length. apply Hidx. right. exact Hj.
    - apply go_balance_bound. exact HM.
    - lia.
  Qed.

  (* --- rewards: the uint64 computation does not wrap --- *)
  Lemma total_active_ge_incr st : EFFECTIVE_BALANCE_INCREMENT c <= get_total_active_balance E st.
  Proof. unfold get_total_active_balance, get_total_balance. fold c. lia. Qed.

  Lemma base_rewards_bound (T I F : N) :
    0 < I -> I <= T -> T < 2 ^ 63 -> F <= 2 ^ 16 ->
    0 < N.sqrt T /\ (I * F / N.sqrt T) * (T / I) < 2 ^ 50.
  Proof.
    intros HI HIT HT HF. set (s := N.sqrt T).
    pose proof (N.sqrt_spec' T) as [Hlo Hhi]. fold s in Hlo, Hhi.
    assert (Hs : 0 < s).
    { destruct (N.eq_0_gt_0_cases s) as [Hz|]; [|assumption]. rewrite Hz in Hhi. cbn in Hhi. lia. }
    split; [exact Hs|].
    set (b := I * F / s). set (t := T / I).
    assert (H1 : b * s <= I * F) by (unfold b; rewrite N.mul_comm; apply N.mul_div_le; lia).
    assert (H2 : t * I <= T) by (unfold t; rewrite N.mul_comm; apply N.mul_div_le; lia).
    assert (Hs32 : s < 2 ^ 32).
    { destruct (N.lt_ge_cases s (2 ^ 32)) as [|Hge]; [assumption|exfalso].
      assert (2 ^ 32 * 2 ^ 32 <= s * s) by (apply N.mul_le_mono; exact Hge).
      change (2 ^ 32 * 2 ^ 32) with (2 ^ 64) in H. change (2 ^ 63) with 9223372036854775808 in HT.
      change (2 ^ 64) with 18446744073709551616 in H. lia. }
    assert (H4 : (s + 1) * (s + 1) <= 4 * s * s) by nia.
    assert (H5 : (b * t) * (s * I) <= I * F * T).
    { replace (b * t * (s * I)) with ((b * s) * (t * I)) by lia. apply N.mul_le_mono; assumption. }
    assert (H6 : I * F * T < (4 * F * s + 1) * (s * I)).
    { assert (I * F * T < I * F * (4 * s * s) + s * I) by nia. nia. }
    assert (H7 : b * t < 4 * F * s + 1).
    { apply (N.mul_lt_mono_pos_r (s * I)); [nia|]. lia. }
    assert (4 * F * s <= 4 * 2 ^ 16 * (2 ^ 32 - 1)) by (apply N.mul_le_mono; [lia|lia]).
    change (4 * 2 ^ 16 * (2 ^ 32 - 1)) with 1125899906580480 in H. change (2 ^ 50) with 1125899906842624 in *. lia.
  Qed.

  Lemma div_chain_le a b d : a / b / d <= a.
  Proof. etransitivity; apply Ndiv_le. Qed.

  Lemma sync_rewards_ok st epc :
    cfg_sane E -> epc_ok E st epc -> get_total_active_balance E st < 2 ^ 63 ->
    sync_rewards_impl E epc = Ok (sync_pr st, sync_propr st)
    /\ sync_pr st * SYNC_COMMITTEE_SIZE c < 2 ^ 50 /\ sync_propr st <= sync_pr st.
  Proof.
    intros Hc Hepc HT.
    pose proof (cs_incr_pos E Hc) as HIpos. pose proof (cs_incr_hi E Hc) as HIhi. pose proof (cs_factor_hi E Hc) as HF.
    pose proof (cs_spe_pos E Hc) as Hspe. pose proof (cs_sync_pos E Hc) as Hsync.
    pose proof (eo_total E st epc Hepc) as Htot. pose proof (eo_sqrt E st epc Hepc) as Hsq.
    clear Hc Hepc.
    pose proof (total_active_ge_incr st) as HIT. unfold c in HIT.
    pose proof (base_rewards_bound _ _ (BASE_REWARD_FACTOR (cfg E)) HIpos HIT HT HF) as [Hs Hb].
    unfold sync_propr, sync_pr. unfold sync_rewards_impl, get_base_reward_per_increment, integer_squareroot. unfold c.
    rewrite Htot, Hsq. unfold integer_squareroot.
    set (T := get_total_active_balance E st) in *. set (I := EFFECTIVE_BALANCE_INCREMENT (cfg E)) in *.
    set (F := BASE_REWARD_FACTOR (cfg E)) in *.
    rewrite (div64_ok T I) by exact HIpos. cbn [bind].
    assert (HIF : I * F < two64).
    { assert (I * F <= 2 ^ 40 * 2 ^ 16) by (apply N.mul_le_mono; assumption).
      change (2 ^ 40 * 2 ^ 16) with 72057594037927936 in H. unfold two64. lia. }
    rewrite (mul64_small I F HIF). rewrite div64_ok by exact Hs. cbn [bind].
    set (tbr := I * F / N.sqrt T * (T / I)) in *.
    change (2 ^ 50) with 1125899906842624 in *.
    clear HT HIT HIF HIhi HF Htot Hsq Hs.
    rewrite (mul64_small (I * F / N.sqrt T) (T / I)) by (unfold two64; fold tbr; lia). fold tbr.
    change SYNC_REWARD_WEIGHT with 2. change WEIGHT_DENOMINATOR with 64. change PROPOSER_WEIGHT with 8.
    rewrite (mul64_small tbr 2) by (unfold two64; lia).
    rewrite div64_ok by exact Hspe. cbn [bind]. rewrite div64_ok by exact Hsync. cbn [bind].
    set (pr := tbr * 2 / 64 / SLOTS_PER_EPOCH (cfg E) / SYNC_COMMITTEE_SIZE (cfg E)).
    assert (Hpr : pr * SYNC_COMMITTEE_SIZE (cfg E) <= tbr).
    { unfold pr. rewrite N.mul_comm. etransitivity; [apply N.mul_div_le; lia|].
      etransitivity; [apply Ndiv_le|]. apply N.div_le_upper_bound; lia. }
    assert (Hpr' : pr <= tbr) by nia.
    rewrite (mul64_small pr 8) by (unfold two64; lia).
    split; [reflexivity|]. split; [lia|].
    apply N.div_le_upper_bound; lia.
  Qed.

  (* --- block root and epoch of the previous slot --- *)
  Lemma sync_block_root st :
    0 < slot st -> 0 < SLOTS_PER_HISTORICAL_ROOT c ->
    get_block_root_at_slot E st (N.max (slot st) 1 - 1) = nthN (block_roots st) ((slot st - 1) mod SLOTS_PER_HISTORICAL_ROOT c).
  Proof.
    intros Hs Hh. unfold get_block_root_at_slot. fold c.
    replace (N.max (slot st) 1 - 1) with (slot st - 1) by lia.
    assert (Hc : (slot st - 1 <? slot st) && (slot st <=? slot st - 1 + SLOTS_PER_HISTORICAL_ROOT c) = true).
    { apply andb_true_iff. split; [apply N.ltb_lt|apply N.leb_le]; lia. }
    rewrite Hc. reflexivity.
  Qed.

  Lemma go_fold_bound pr ibs : forall bals M,
    (forall x, In x bals -> x <= M) ->
    forall x, In x (fold_left (go_step pr) ibs bals) -> x <= M + N.of_nat (length ibs) * pr.
  Proof.
    induction ibs as [|[i b] r IH]; intros bals M HM x Hx; cbn [fold_left length] in *.
    - apply HM in Hx. lia.
    - apply (IH _ (M + pr)) in Hx; [lia|]. apply go_balance_bound. exact HM.
  Qed.
  Lemma go_fold_length pr ibs : forall bals, length (fold_left (go_step pr) ibs bals) = length bals.
  Proof. induction ibs as [|ib r IH]; intros bals; cbn [fold_left]; [reflexivity|]. rewrite IH. apply go_step_length. Qed.

  Lemma find_pubkey_lt pk vs r : find_pubkey pk vs 0 = Some r -> r < N.of_nat (length vs).
  Proof.
    intros H. apply find_pubkey_spec in H. destruct H as (k & v & -> & Hk & _).
    assert (nth_error vs k <> None) by congruence. apply nth_error_Some in H. lia.
  Qed.
  Lemma all_some_forall {A B} (g : A -> option B) (P : B -> Prop) l r :
    (forall a b, g a = Some b -> P b) -> all_some (map g l) = Some r -> forall b, In b r -> P b.
  Proof.
    intros Hg. revert r. induction l as [|a l IH]; cbn [map all_some]; intros r H b Hb.
    - injection H as <-. destruct Hb.
    - destruct (g a) as [b0|] eqn:Ha; [|discriminate]. destruct (all_some (map g l)) as [r'|]; [|discriminate].
      injection H as <-. destruct Hb as [<-|Hb]; [eapply Hg; exact Ha|eapply IH; [reflexivity|exact Hb]].
  Qed.
  Lemma all_some_map_length {A B} (g : A -> option B) l r : all_some (map g l) = Some r -> length r = length l.
  Proof. intros H. apply all_some_length in H. rewrite map_length in H. exact H. Qed.

  (* Impl = Spec (acceptance AND rejection, never a panic) for every state and aggregate outside the refuted shape *)
  Theorem sync_aggregate_orig_refines_partial st epc sa :
    cfg_sane E -> epc_ok E st epc -> st_bounds E st ->
    0 < slot st ->
    N.of_nat (length (vbits (vfield sa 0))) = SYNC_COMMITTEE_SIZE c ->                      (* a decoded Bitvector *)
    N.of_nat (length (sc_pubkeys (current_sync_committee st))) = SYNC_COMMITTEE_SIZE c ->  (* a decoded Vector *)
    (forall p, get_beacon_proposer_index E st = Some p ->
       ~ sync_bad p (sync_pr st) (sync_propr st) (combine (be_sync_indices epc) (vbits (vfield sa 0))) (balances st) 0) ->
    process_sync_aggregate_orig E epc st sa
    = match process_sync_aggregate E st sa with Some st' => Ok st' | None => Err end.
  Proof.
    intros Hc Hepc Hb Hslot Hbits Hpks Hprop.
    rewrite process_sync_aggregate_nf. cbv zeta.
    unfold process_sync_aggregate_orig. cbv zeta. fold c.
    set (bits := vbits (vfield sa 0)) in *.
    rewrite Hbits, N.eqb_refl. cbn [check bind].
    rewrite (eo_sync_pubkeys E st epc Hepc).
    rewrite sync_select_ok by lia. cbn [bind].
    assert (Hs0 : (slot st =? GENESIS_SLOT) = false) by (apply N.eqb_neq; unfold GENESIS_SLOT; lia). rewrite Hs0.
    rewrite div64_ok by (apply (cs_spe_pos E Hc)). cbn [bind].
    assert (Hh0 : (SLOTS_PER_HISTORICAL_ROOT c =? 0) = false) by (apply N.eqb_neq; pose proof (cs_sphr_pos E Hc); fold c in H; lia).
    rewrite Hh0. cbn [bind].
    rewrite (sync_block_root st Hslot (cs_sphr_pos E Hc)).
    replace (N.max (slot st) 1 - 1) with (slot st - 1) by lia.
    destruct (nthN (block_roots st) ((slot st - 1) mod SLOTS_PER_HISTORICAL_ROOT c)) as [root|]; [|reflexivity].
    cbn [of_opt bind]. unfold eth2_fast_aggregate_verify, compute_epoch_at_slot. fold c.
    match goal with |- context [check ?g] => destruct g end; [|reflexivity]. cbn [check bind].
    destruct (sync_rewards_ok st epc Hc Hepc (sb_total E st Hb)) as (Hrw & Hprn & Hpp). rewrite Hrw. cbn [bind].
    rewrite (eo_sync_indices E st epc Hepc).
    pose proof (eo_sync_indices E st epc Hepc) as Hidx.
    assert (Hlenidx : length (be_sync_indices epc) = length (sc_pubkeys (current_sync_committee st))).
    { eapply all_some_map_length. exact Hidx. }
    assert (Hinr : forall i, In i (be_sync_indices epc) -> i < N.of_nat (length (balances st))).
    { rewrite (sb_lens E st Hb). eapply all_some_forall; [|exact Hidx]. intros pk r. apply find_pubkey_lt. }
    assert (HM : forall x, In x (balances st) -> x <= 2 ^ 63) by (intros x Hx; apply (sb_bal E st Hb) in Hx; lia).
    assert (Hnpr : N.of_nat (length bits) * sync_pr st < 2 ^ 50) by (rewrite Hbits, N.mul_comm; exact Hprn).
    rewrite (sync_loop_orig_ok (sync_pr st) bits (be_sync_indices epc) (balances st) (2 ^ 63)); try assumption; try lia;
      [|change (2 ^ 63) with 9223372036854775808; change (2 ^ 50) with 1125899906842624 in Hnpr; unfold two64; lia].
    cbn [bind]. rewrite <- (eo_proposer E st epc Hepc).
    destruct (be_proposer epc) as [p|] eqn:Hp; [|reflexivity]. cbn [of_opt bind].
    rewrite (eo_proposer E st epc Hepc) in Hp. pose proof (Hprop p Hp) as Hgood. pose proof (proposer_in_range E st p Hp) as Hpr.
    set (G := fold_left (go_step (sync_pr st)) (combine (be_sync_indices epc) bits) (balances st)).
    assert (HpG : p < N.of_nat (length G)) by (unfold G; rewrite go_fold_length, (sb_lens E st Hb); exact Hpr).
    destruct (nthN_lt_Some G p HpG) as [gp Hgp].
    unfold go_increase_balance. rewrite Hgp.
    assert (Hgpb : gp <= 2 ^ 63 + N.of_nat (length (combine (be_sync_indices epc) bits)) * sync_pr st).
    { apply (go_fold_bound (sync_pr st) _ (balances st) (2 ^ 63) HM). rewrite nthN_eq in Hgp. eapply nth_error_In. exact Hgp. }
    rewrite combine_length in Hgpb.
    assert (Hcnt : N.of_nat (length (select_bits bits (sc_pubkeys (current_sync_committee st)))) <= N.of_nat (length bits)).
    { pose proof (select_bits_length_le bits (sc_pubkeys (current_sync_committee st))). lia. }
    assert (Hmul : sync_propr st * N.of_nat (length (select_bits bits (sc_pubkeys (current_sync_committee st)))) < 2 ^ 50).
    { eapply N.le_lt_trans; [|exact Hnpr]. rewrite (N.mul_comm (N.of_nat (length bits))). apply N.mul_le_mono; assumption. }
    change (2 ^ 63) with 9223372036854775808 in *. change (2 ^ 50) with 1125899906842624 in *.
    rewrite mul64_small by (unfold two64; lia). rewrite add64_small by (unfold two64; nia).
    rewrite (select_bits_parts bits _ (be_sync_indices epc)) by lia.
    rewrite (setN_updN G p (fun y => y + sync_propr st * parts (combine (be_sync_indices epc) bits)) gp Hgp).
    cbn [bind].
    assert (Hex : spec_loop p (sync_pr st) (sync_propr st) (combine (be_sync_indices epc) bits) (balances st)
                  = go_batched p (sync_pr st) (sync_propr st) (combine (be_sync_indices epc) bits) (balances st)).
    { apply sync_batching_exact; [rewrite (sb_lens E st Hb); exact Hpr|exact Hgood]. }
    rewrite Hex. reflexivity.
  Qed.

  (* ---------- the repaired loop (fixes/C01-sync-aggregate-proposer-reward-order.diff): equal to the spec for ALL states ---------- *)
  Lemma spec_balance_bound p pr propr bals i b M :
    (forall x, In x bals -> x <= M) -> forall x, In x (spec_step p pr propr bals (i, b)) -> x <= M + (pr + propr).
  Proof.
    intros H x Hin. apply In_nth_error in Hin. destruct Hin as [k Hk].
    assert (Hk' : nthN (spec_step p pr propr bals (i, b)) (N.of_nat k) = Some x) by (rewrite nthN_eq, Nat2N.id; exact Hk).
    rewrite nthN_spec_step in Hk'. destruct (nthN bals (N.of_nat k)) as [y|] eqn:Hy; [|discriminate].
    injection Hk' as <-. assert (y <= M) by (apply H; eapply nthN_In; exact Hy).
    unfold spec_val. destruct b, (i =? N.of_nat k), (p =? N.of_nat k); lia.
  Qed.

  Lemma sync_loop_ok p pr propr bits : forall idxs bals M,
    length bits = length idxs ->
    (forall i, In i idxs -> i < N.of_nat (length bals)) -> p < N.of_nat (length bals) ->
    (forall x, In x bals -> x <= M) -> M + N.of_nat (length bits) * (pr + propr) < two64 ->
    sync_loop bits idxs p pr propr bals = Ok (fold_left (spec_step p pr propr) (combine idxs bits) bals).
  Proof.
    induction bits as [|b bits IH]; intros [|i idxs] bals M Hlen Hidx Hp HM Hb; cbn in Hlen; try discriminate; [reflexivity|].
    cbn [sync_loop combine fold_left].
    assert (Hi : i < N.of_nat (length bals)) by (apply Hidx; left; reflexivity).
    destruct (nthN_lt_Some bals i Hi) as [x Hx].
    assert (Hx' : x <= M) by (apply HM; eapply nthN_In; exact Hx).
    cbn [length] in Hb.
    assert (Hstep : (if b then b1 <~ go_increase_balance bals i pr ;; go_increase_balance b1 p propr
                     else go_decrease_balance bals i pr) = Ok (spec_step p pr propr bals (i, b))).
    { unfold spec_step, addb, subb. destruct b.
      - unfold go_increase_balance at 1. rewrite Hx, add64_small by lia.
        rewrite (setN_updN bals i (fun y => y + pr) x Hx). cbn [bind].
        set (B1 := updN bals i (fun y => y + pr)).
        assert (Hp1 : p < N.of_nat (length B1)) by (unfold B1; rewrite updN_length; exact Hp).
        destruct (nthN_lt_Some B1 p Hp1) as [y Hy].
        assert (Hyb : y <= M + pr).
        { unfold B1 in Hy. rewrite nthN_updN in Hy. destruct (nthN bals p) as [z|] eqn:Hz; [|discriminate].
          injection Hy as <-. assert (z <= M) by (apply HM; eapply nthN_In; exact Hz). destruct (i =? p); lia. }
        unfold go_increase_balance. rewrite Hy, add64_small by lia.
        rewrite (setN_updN B1 p (fun z => z + propr) y Hy). reflexivity.
      - unfold go_decrease_balance. rewrite Hx.
        replace (if pr <=? x then x - pr else 0) with (x - pr) by (destruct (N.leb_spec pr x); lia).
        rewrite (setN_updN bals i (fun y => y - pr) x Hx). reflexivity. }
    rewrite Hstep. cbn [bind]. apply (IH idxs _ (M + (pr + propr))).
    - lia.
    - intros j Hj. rewrite spec_step_length. apply Hidx. right. exact Hj.
    - rewrite spec_step_length. exact Hp.
    - apply spec_balance_bound. exact HM.
    - lia.
  Qed.

  Theorem sync_aggregate_refines st epc sa :
    cfg_sane E -> epc_ok E st epc -> st_bounds E st ->
    0 < slot st ->
    N.of_nat (length (vbits (vfield sa 0))) = SYNC_COMMITTEE_SIZE c ->
    N.of_nat (length (sc_pubkeys (current_sync_committee st))) = SYNC_COMMITTEE_SIZE c ->
    process_sync_aggregate_impl E epc st sa
    = match process_sync_aggregate E st sa with Some st' => Ok st' | None => Err end.
  Proof.
    intros Hc Hepc Hb Hslot Hbits Hpks.
    rewrite process_sync_aggregate_nf. cbv zeta.
    unfold process_sync_aggregate_impl. cbv zeta. fold c.
    set (bits := vbits (vfield sa 0)) in *.
    rewrite Hbits, N.eqb_refl. cbn [check bind].
    rewrite (eo_sync_pubkeys E st epc Hepc).
    rewrite sync_select_ok by lia. cbn [bind].
    assert (Hs0 : (slot st =? GENESIS_SLOT) = false) by (apply N.eqb_neq; unfold GENESIS_SLOT; lia). rewrite Hs0.
    rewrite div64_ok by (apply (cs_spe_pos E Hc)). cbn [bind].
    assert (Hh0 : (SLOTS_PER_HISTORICAL_ROOT c =? 0) = false) by (apply N.eqb_neq; pose proof (cs_sphr_pos E Hc); fold c in H; lia).
    rewrite Hh0. cbn [bind].
    rewrite (sync_block_root st Hslot (cs_sphr_pos E Hc)).
    replace (N.max (slot st) 1 - 1) with (slot st - 1) by lia.
    destruct (nthN (block_roots st) ((slot st - 1) mod SLOTS_PER_HISTORICAL_ROOT c)) as [root|]; [|reflexivity].
    cbn [of_opt bind]. unfold eth2_fast_aggregate_verify, compute_epoch_at_slot. fold c.
    match goal with |- context [check ?g] => destruct g end; [|reflexivity]. cbn [check bind].
    destruct (sync_rewards_ok st epc Hc Hepc (sb_total E st Hb)) as (Hrw & Hprn & Hpp). rewrite Hrw. cbn [bind].
    rewrite (eo_sync_indices E st epc Hepc).
    pose proof (eo_sync_indices E st epc Hepc) as Hidx.
    assert (Hlenidx : length (be_sync_indices epc) = length (sc_pubkeys (current_sync_committee st))).
    { eapply all_some_map_length. exact Hidx. }
    assert (Hinr : forall i, In i (be_sync_indices epc) -> i < N.of_nat (length (balances st))).
    { rewrite (sb_lens E st Hb). eapply all_some_forall; [|exact Hidx]. intros pk r. apply find_pubkey_lt. }
    assert (HM : forall x, In x (balances st) -> x <= 2 ^ 63) by (intros x Hx; apply (sb_bal E st Hb) in Hx; lia).
    rewrite <- (eo_proposer E st epc Hepc).
    destruct (be_proposer epc) as [p|] eqn:Hp; [|reflexivity]. cbn [of_opt bind].
    rewrite (eo_proposer E st epc Hepc) in Hp.
    assert (Hpr : p < N.of_nat (length (balances st))) by (rewrite (sb_lens E st Hb); apply (proposer_in_range E st p Hp)).
    change (2 ^ 63) with 9223372036854775808 in *. change (2 ^ 50) with 1125899906842624 in *.
    rewrite (sync_loop_ok p (sync_pr st) (sync_propr st) bits (be_sync_indices epc) (balances st) 9223372036854775808);
      try assumption; try lia.
    - reflexivity.
    - rewrite Hbits. unfold two64.
      assert (SYNC_COMMITTEE_SIZE c * (sync_pr st + sync_propr st) <= 2 * (sync_pr st * SYNC_COMMITTEE_SIZE c)) by nia. lia.
  Qed.
End SyncAggregate.
