(* Decidable forms of the hypotheses of the phase0 refinement theorems (with soundness), and a non-vacuity witness. *)
From Coq Require Import NArith ZArith Lia List Bool.
From Coq Require Import ZifyN ZifyNat ZifyBool.
From RecordUpdate Require Import RecordSet.
From V Require Import Base.U64 Base.Sha256 Ssz.SszCore Beacon.Config Beacon.State Beacon.Spec.Helpers Beacon.Spec.Epoch Beacon.Run.
From V Require Import Beacon.Impl.Flat Beacon.Impl.Phase0Attester Beacon.Refine.ListLemmas Beacon.Refine.FoldLemmas Beacon.Refine.OpsLemmas
                      Beacon.Refine.AltairCheck Beacon.Refine.Phase0Refine Beacon.Refine.Fixtures.
Import ListNotations RecordSetNotations.
Local Open Scope N_scope.

Lemma nl_eqb_eq : forall a b : list N, list_eqb N.eqb a b = true -> a = b.
Proof.
  induction a as [|x a IH]; intros [|y b] H; cbn [list_eqb] in H; try discriminate; [reflexivity|].
  apply andb_prop in H. destruct H as [H1 H2]. apply N.eqb_eq in H1. subst. f_equal. apply IH. exact H2.
Qed.
Definition opt_list_eqb (a b : option (list N)) : bool :=
  match a, b with Some x, Some y => list_eqb N.eqb x y | None, None => true | _, _ => false end.
Lemma opt_list_eqb_eq a b : opt_list_eqb a b = true -> a = b.
Proof. destruct a, b; cbn; intros H; try discriminate; [f_equal; apply nl_eqb_eq; exact H|reflexivity]. Qed.

Section Check0.
  Variable E : Env.
  Notation c := (cfg E).
  Variable st : BeaconState.
  Variable committee_of : N -> N -> option (list N).
  Let n := length (validators st).

  Definition att_okb (a : value) : bool :=
    let d := pa_data a in
    opt_list_eqb (committee_of (ad_slot d) (ad_index d)) (att_comm E st a) &&
    match att_comm E st a with
    | Some cm => Nat.eqb (length (pa_bits a)) (length cm) && forallb (fun x => x <? N.of_nat n) cm
    | None => false
    end &&
    (ad_slot d <? slot st) && (slot st <=? ad_slot d + SLOTS_PER_HISTORICAL_ROOT c) &&
    (pa_proposer_index a <? N.of_nat n) && negb (pa_inclusion_delay a =? 0).
  Lemma att_okb_sound a : att_okb a = true -> AttOk E st committee_of a.
  Proof.
    unfold att_okb. intros H. repeat (apply andb_prop in H; destruct H as [H ?]).
    constructor.
    - apply opt_list_eqb_eq. exact H.
    - destruct (att_comm E st a) as [cm|]; [|discriminate]. exists cm. split; [reflexivity|].
      apply andb_prop in H4. destruct H4 as [Hl Hf]. split; [apply Nat.eqb_eq; exact Hl|].
      intros x Hx. rewrite forallb_forall in Hf. apply N.ltb_lt. apply Hf. exact Hx.
    - split; [apply N.ltb_lt|apply N.leb_le]; assumption.
    - apply N.ltb_lt. assumption.
    - apply N.eqb_neq. apply negb_true_iff. assumption.
  Qed.

  Definition range_okb (e : N) : bool :=
    (compute_start_slot_at_epoch E e <? slot st) && (slot st <=? compute_start_slot_at_epoch E e + SLOTS_PER_HISTORICAL_ROOT c).

  Definition p0_hypsb (epc : EpcView) : bool :=
    (GENESIS_EPOCH <? get_current_epoch E st) &&
    (epc_prev_epoch epc =? get_previous_epoch E st) && (epc_cur_epoch epc =? get_current_epoch E st) &&
    (epc_total_active_stake epc =? get_total_active_balance E st) &&
    negb (SLOTS_PER_EPOCH c =? 0) && negb (SLOTS_PER_HISTORICAL_ROOT c =? 0) &&
    (N.of_nat (length (block_roots st)) =? SLOTS_PER_HISTORICAL_ROOT c) &&
    (get_current_epoch E st * SLOTS_PER_EPOCH c <? two64) &&
    range_okb (get_previous_epoch E st) && range_okb (get_current_epoch E st) &&
    forallb att_okb (previous_epoch_attestations st) && forallb att_okb (current_epoch_attestations st) &&
    Nat.eqb (length (balances st)) n && negb (EFFECTIVE_BALANCE_INCREMENT c =? 0) &&
    (get_previous_epoch E st + 1 <? two64) && (sumN (map (eff_bal st) (seqN 0 n)) <? two64).
  Lemma p0_hypsb_sound epc : p0_hypsb epc = true -> P0Hyps E st committee_of epc.
  Proof.
    unfold p0_hypsb. intros H. repeat (apply andb_prop in H; destruct H as [H ?]).
    assert (Hr : forall e, range_okb e = true ->
              compute_start_slot_at_epoch E e < slot st /\ slot st <= compute_start_slot_at_epoch E e + SLOTS_PER_HISTORICAL_ROOT c).
    { intros e He. unfold range_okb in He. apply andb_prop in He. destruct He as [He1 He2]. split; [apply N.ltb_lt|apply N.leb_le]; assumption. }
    constructor;
      repeat match goal with
             | H : (_ <? _) = true |- _ => apply N.ltb_lt in H
             | H : (_ =? _) = true |- _ => apply N.eqb_eq in H
             | H : negb (_ =? _) = true |- _ => apply negb_true_iff, N.eqb_neq in H
             | H : Nat.eqb _ _ = true |- _ => apply Nat.eqb_eq in H
             end; try assumption; try (apply Hr; assumption).
    - intros a Ha. apply att_okb_sound. rewrite forallb_forall in H5. apply H5. exact Ha.
    - intros a Ha. apply att_okb_sound. rewrite forallb_forall in H4. apply H4. exact Ha.
  Qed.

  Definition p0_boundsb : bool :=
    let total := get_total_active_balance E st in
    negb (PROPOSER_REWARD_QUOTIENT c =? 0) && negb (INACTIVITY_PENALTY_QUOTIENT c =? 0) &&
    forallb (fun i => (eff_bal st i * BASE_REWARD_FACTOR c <? two64) &&
                      (get_base_reward0 E st total i * (all_eff E st / EFFECTIVE_BALANCE_INCREMENT c) <? two64) &&
                      (eff_bal st i * get_finality_delay E st <? two64)) (seqN 0 n) &&
    match get_attestation_deltas E st with
    | Some (R, P) => forallb (fun j => (entry (balances st) j + entry R j <? two64) && (entry P j <? two64)) (seqN 0 n)
    | None => true
    end.
  Lemma p0_boundsb_sound : p0_boundsb = true -> P0Bounds E st.
  Proof.
    unfold p0_boundsb. intros H. repeat (apply andb_prop in H; destruct H as [H ?]).
    rewrite forallb_forall in H1.
    assert (Hi : forall i, i < N.of_nat n -> In i (seqN 0 n)) by (intros i Hi; apply seqN_in; lia).
    constructor.
    - apply N.eqb_neq. apply negb_true_iff. assumption.
    - apply N.eqb_neq. apply negb_true_iff. assumption.
    - intros i Hlt. specialize (H1 i (Hi i Hlt)). repeat (apply andb_prop in H1; destruct H1 as [H1 ?]). apply N.ltb_lt. assumption.
    - intros i Hlt. specialize (H1 i (Hi i Hlt)). repeat (apply andb_prop in H1; destruct H1 as [H1 ?]). apply N.ltb_lt. assumption.
    - intros i Hlt. specialize (H1 i (Hi i Hlt)). repeat (apply andb_prop in H1; destruct H1 as [H1 ?]). apply N.ltb_lt. assumption.
    - intros R P HRP j Hj. rewrite HRP in H0. rewrite forallb_forall in H0. specialize (H0 j (Hi j Hj)).
      apply andb_prop in H0. destruct H0 as [Ha Hb]. split; apply N.ltb_lt; assumption.
  Qed.

  Definition p0_rewards_hypsb (epc : EpcView) : bool :=
    p0_hypsb epc && p0_boundsb && (N.of_nat n <? max64) && (cp_epoch (finalized_checkpoint st) <=? get_previous_epoch E st).
  Theorem phase0_rewards_refines_checked (epc : EpcView) :
    p0_rewards_hypsb epc = true ->
    exists ad,
      compute_epoch_attester_data0 c committee_of epc (flatten_validators (validators st)) st = Some ad /\
      process_epoch_rewards_and_penalties0 c epc ad st = Epoch.process_rewards_and_penalties E Phase0 st.
  Proof.
    unfold p0_rewards_hypsb. intros H.
    apply andb_prop in H; destruct H as [H H3]. apply andb_prop in H; destruct H as [H H2]. apply andb_prop in H; destruct H as [H H1].
    apply phase0_rewards_refines.
    - apply p0_hypsb_sound. exact H.
    - apply p0_boundsb_sound. exact H1.
    - apply N.ltb_lt. exact H2.
    - apply N.leb_le. exact H3.
  Qed.
End Check0.
