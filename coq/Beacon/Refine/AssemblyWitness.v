(* Non-vacuity of the assembly theorem: a concrete altair state at the last slot of epoch 7 (tiny preset: 8 slots per
   epoch, sync-committee period 8 epochs, so the rotation fires) with the context computed from the state satisfies
   EpochInv and MidBounds; four validators, one slashed, partial participation, an inactivity leak; balances, scores, one effective balance and
   the next sync committee change. *)
From Coq Require Import String.
From Coq Require Import NArith ZArith List Lia Bool.
From RecordUpdate Require Import RecordSet.
From V Require Import Base.U64 Base.Outcome Ssz.SszCore Beacon.Config Beacon.Schemas Beacon.State
  Beacon.Spec.Helpers Beacon.Spec.Epoch Beacon.Spec.Transition Beacon.Proofs.Lengths.
From V Require Import Beacon.Impl.Flat Beacon.Impl.SyncRotation Beacon.Impl.Upgrades Beacon.Impl.EpochPipeline.
From V Require Import Beacon.Refine.RegistryRefine Beacon.Refine.FinalRefine Beacon.Refine.AltairDomain Beacon.Refine.AltairRefine
  Beacon.Refine.AltairCheck Beacon.Refine.AltairWitness Beacon.Refine.Fixtures
  Beacon.Refine.SyncRotationRefine Beacon.Refine.UpgradesRefine Beacon.Refine.EpochAssembly.
From V Require Shuffle.ShuffleArith.
Import ListNotations RecordSetNotations.
Local Open Scope list_scope.
Local Open Scope N_scope.

Definition asm_E : Env := tiny_env.
Definition asm_pk_ok (_ : bytes) : bool := true.
(* w_ok of AltairWitness.v (slot 63) after the slot's root caching: the state ProcessEpoch runs on *)
Definition asm_pre : BeaconState := w_ok.
Definition asm_state : BeaconState := Eval vm_compute in Transition.process_slot tiny_env Altair w_ok.
Lemma asm_state_eq : Transition.process_slot asm_E Altair asm_pre = asm_state.
Proof. vm_compute. reflexivity. Qed.

(* the context as computed from the state: what C08 says zrnt's live context holds *)
Definition asm_ctx (st : BeaconState) : EpochCtx :=
  let ce := get_current_epoch asm_E st in
  mkEpochCtx (fresh_epc asm_E st) (get_beacon_committee asm_E st)
             (mkSyncEpc (ce + 1) (get_active_validator_indices st (ce + 1))
                        (fun i => option_map v_pubkey (nthN (validators st) i)))
             (fun _ => Some 0).

(* vm_compute only on closed, binder-free goals (strong normalisation under a binder over N arithmetic explodes) *)
Ltac by_vm :=
  idtac;
  lazymatch goal with
  | |- forall _, _ => fail
  | |- Forall _ _ => fail
  | |- _ => timeout 60 (vm_compute; first [reflexivity | discriminate])
  end.
Ltac each_in Hv tac := repeat (destruct Hv as [<-|Hv]; [tac|]); destruct Hv.

Lemma asm_bytes : forall m, ShuffleArith.bytes_ok (Hash asm_E m).
Proof. intros m. change (Hash asm_E m) with (repeat 0 32). unfold ShuffleArith.bytes_ok. repeat constructor. Qed.

Lemma asm_epoch_inv : EpochInv asm_E asm_pk_ok Altair asm_state (asm_ctx asm_state).
Proof.
  constructor.
  - split; [reflexivity|]. intros _. repeat split; reflexivity.
  - apply altair_hypsb_sound. by_vm.
  - constructor; try by_vm; split; by_vm.
  - intros idx H. vm_compute in H. inversion H. by_vm.
  - intros idx H. vm_compute in H. inversion H. by_vm.
  - by_vm.
  - intros s Hs. each_in Hs by_vm.
  - intros _. repeat split; apply flag_boundsb_sound; by_vm.
  - intros _. constructor; try by_vm. intros i Hi.
    assert (Hc : i = 0 \/ i = 1 \/ i = 2 \/ i = 3) by (change (i < 4) in Hi; lia).
    destruct Hc as [->|[->|[->| ->]]]; by_vm.
  - constructor; try by_vm.
    + constructor; try by_vm. intros v Hv. each_in Hv ltac:(first [left; reflexivity | right; by_vm]).
    + intros v Hv Hs. each_in Hv ltac:(first [discriminate Hs | intros Hx; discriminate Hx]).
    + intros v Hv. each_in Hv by_vm.
    + intros v Hv. each_in Hv by_vm.
    + repeat (constructor; [by_vm|]). constructor.
  - intros _. constructor; try by_vm.
    + intros i v H. cbn [asm_ctx cx_sync sy_pubkey_of]. rewrite H. reflexivity.
    + intros v _. reflexivity.
    + exact asm_bytes.
    + repeat (constructor; [by_vm|]). constructor.
  - by_vm.
  - by_vm.
Qed.

Lemma asm_mid_bounds : MidBounds asm_E Altair asm_state.
Proof.
  constructor.
  - intros s2 H. vm_compute in H. inversion H. apply no_mid_saturationb_sound. by_vm.
  - intros s3 s6 H3 H6. vm_compute in H3. inversion H3; subst s3. vm_compute in H6. inversion H6; subst s6.
    intros b Hb. each_in Hb by_vm.
Qed.

(* the instance of the theorem, and the same equality checked by evaluation; every balance, score and the sync
   committees move *)
Example assembly_nonvacuous :
  EpochInv asm_E asm_pk_ok Altair asm_state (asm_ctx asm_state) /\ MidBounds asm_E Altair asm_state /\
  (exists st', Epoch.process_epoch asm_E Altair asm_state = Some st' /\
               EpochPipeline.process_epoch asm_E asm_pk_ok PROPOSER_FUEL Altair (asm_ctx asm_state) asm_state = Ok st') /\
  option_map (fun s => (balances s, inactivity_scores s, length (sc_pubkeys (next_sync_committee s)),
                        map v_effective_balance (validators s)))
             (Epoch.process_epoch asm_E Altair asm_state)
  = Some ([32000000000; 30998465585; 29995467527; 16997511063], [0; 8; 44; 1004], 32%nat,
          [32000000000; 31000000000; 29000000000; 17000000000]).
Proof.
  split; [exact asm_epoch_inv|]. split; [exact asm_mid_bounds|]. split.
  - destruct (Epoch.process_epoch asm_E Altair asm_state) as [st'|] eqn:H; [|vm_compute in H; discriminate].
    exists st'. split; [reflexivity|].
    apply (process_epoch_refines_partial asm_E asm_pk_ok PROPOSER_FUEL Altair asm_state (asm_ctx asm_state) st'
             asm_epoch_inv asm_mid_bounds (le_n _) H).
  - by_vm.
Qed.
Print Assumptions assembly_nonvacuous.

(* ---- one slot step across the epoch boundary (slot 63 -> 64), the context computed from the state at hand ---- *)
Definition asm_ctx_of (_ : fork) (st : BeaconState) : EpochCtx := asm_ctx st.
Definition asm_electra : N := FAR_FUTURE_EPOCH.

Lemma asm_step_ok : StepOk asm_E asm_pk_ok asm_electra asm_ctx_of Altair asm_pre.
Proof.
  constructor; try by_vm.
  - intros _. rewrite asm_state_eq. split; [exact asm_epoch_inv|exact asm_mid_bounds].
  - intros s2 H. vm_compute in H. inversion H; subst s2. cbv zeta.
    constructor; try by_vm; intros Hf; discriminate Hf.
Qed.

Example slot_step_nonvacuous :
  StepOk asm_E asm_pk_ok asm_electra asm_ctx_of Altair asm_pre /\
  (exists r, Transition.slot_step asm_E Altair asm_pre = Some r /\
             EpochPipeline.slot_step asm_E asm_pk_ok asm_electra PROPOSER_FUEL asm_ctx_of Altair asm_pre = Ok r) /\
  option_map (fun r => (fork_idx (fst r), slot (snd r))) (Transition.slot_step asm_E Altair asm_pre) = Some (1, 64).
Proof.
  split; [exact asm_step_ok|]. split.
  - destruct (Transition.slot_step asm_E Altair asm_pre) as [r|] eqn:H; [|vm_compute in H; discriminate].
    exists r. split; [reflexivity|].
    apply (slot_step_refines_partial asm_E asm_pk_ok asm_electra PROPOSER_FUEL asm_ctx_of Altair asm_pre r asm_step_ok (le_n _) H).
  - by_vm.
Qed.
Print Assumptions slot_step_nonvacuous.
