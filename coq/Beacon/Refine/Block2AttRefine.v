(* C01/C03 — phase0 / altair..capella / deneb ProcessAttestation (zrnt, whole function) against process_attestation (Spec).

   zrnt checks in another order (window, committee count, source + block roots, committee, bits length, indexed
   attestation), takes the committee count and the committee from its EpochsContext, looks block roots up without the
   spec's range assertion, and computes the window with uint64 additions.

     committee_members_active    every member of a spec committee is a registry entry active in the committee's epoch
     process_attestation_refines Impl = Spec (Ok/Err alike, no panic - in particular the GetCommitteeCountPerSlot panic site
                                 is never reached with an epoch outside previous/current) under epc2_ok, cfg_sane, st_bounds,
                                 lengths_inv, vec_lens, the committee being duplicate-free (C07) and a numerator bound *)
From Coq Require Import String.
From Coq Require Import NArith ZArith Lia List Bool.
From Coq Require Import ZifyN ZifyNat ZifyBool.
From RecordUpdate Require Import RecordSet.
From V Require Import Base.U64 Base.Outcome Ssz.SszCore Beacon.Config Beacon.Schemas Beacon.State
  Beacon.Spec.Helpers Beacon.Spec.Epoch Beacon.Spec.Block Beacon.Impl.BlockOps Beacon.Impl.Block2Ops
  Beacon.Proofs.Lengths
  Beacon.Refine.BlockLemmas Beacon.Refine.BlockEpc Beacon.Refine.RejectRules Beacon.Refine.BlockProposer
  Beacon.Refine.BlockSyncRefine Beacon.Refine.BlockAttRefine Beacon.Refine.Block2Refine.
Import ListNotations RecordSetNotations.
Local Open Scope list_scope.
Local Open Scope N_scope.

Lemma bytes_eqb_sym a b : bytes_eqb a b = bytes_eqb b a.
Proof.
  destruct (bytes_eqb a b) eqn:H1; symmetry.
  - apply bytes_eqb_eq in H1. subst. apply bytes_eqb_refl.
  - apply bytes_eqb_neq. apply bytes_eqb_neq in H1. congruence.
Qed.
Lemma select_bits_in {A} bits : forall (l : list A) x, In x (select_bits bits l) -> In x l.
Proof.
  induction bits as [|b bits IH]; intros [|y l] x H; cbn [select_bits] in H; try destruct H.
  destruct b; [destruct H as [<-|H]; [left; reflexivity|right; apply IH; exact H]|right; apply IH; exact H].
Qed.
Lemma select_bits_NoDup {A} bits : forall (l : list A), NoDup l -> NoDup (select_bits bits l).
Proof.
  induction bits as [|b bits IH]; intros [|y l] H; cbn [select_bits]; try constructor.
  inversion H as [|? ? Hy Hl]; subst. destruct b; [|apply IH; exact Hl].
  constructor; [|apply IH; exact Hl]. intros Hin. apply Hy. eapply select_bits_in. exact Hin.
Qed.
Lemma sort_uniq_length_le l : (length (sort_uniq l) <= length l)%nat.
Proof.
  induction l as [|x l IH]; [cbn; lia|]. change (sort_uniq (x :: l)) with (insert_sorted x (sort_uniq l)).
  assert (Hins : forall y m, (length (insert_sorted y m) <= S (length m))%nat).
  { intros y m. induction m as [|z m IHm]; cbn [insert_sorted length]; [lia|].
    destruct (y <? z); cbn [length]; [lia|]. destruct (y =? z); cbn [length]; lia. }
  specialize (Hins x (sort_uniq l)). cbn [length]. lia.
Qed.

Lemma in_combine_seqN_nth {A} (l : list A) : forall s i v,
  In (i, v) (combine (seqN s (length l)) l) -> s <= i /\ nth_error l (N.to_nat (i - s)) = Some v.
Proof.
  induction l as [|x l IH]; intros s i v H; cbn [length seqN combine] in H; [destruct H|].
  destruct H as [H|H].
  - injection H as <- <-. split; [lia|]. rewrite N.sub_diag. reflexivity.
  - apply IH in H. destruct H as [Hs Hn]. split; [lia|].
    replace (N.to_nat (i - s)) with (S (N.to_nat (i - (s + 1)))) by lia. exact Hn.
Qed.
Lemma active_index_validator st e i :
  In i (get_active_validator_indices st e) -> exists v, nthN (validators st) i = Some v /\ is_active_validator v e = true.
Proof.
  unfold get_active_validator_indices, indices. intros H. apply in_map_iff in H. destruct H as ([j v] & <- & H).
  apply filter_In in H. destruct H as [H Ha]. apply in_combine_seqN_nth in H. destruct H as [_ Hn].
  exists v. cbn [fst snd] in *. rewrite N.sub_0_r in Hn. rewrite nthN_eq. split; assumption.
Qed.


Ltac att_altair_case :=
  match goal with
  | Hcm : get_beacon_committee ?E ?st (ad_slot ?data) (ad_index ?data) = Some ?committee,
    Hvalid : validate_indexed_impl _ _ _ _ _ _ = _, Hce : get_current_epoch _ _ = ?ce |- _ =>
      destruct (get_attestation_participation_flag_indices E _ st data _) as [flags|] eqn:Hfl; cbn [of_opt bind];
      [|destruct (Nat.eqb _ _); reflexivity];
      rewrite (Nat.eqb_sym (length committee));
      match goal with |- context [Nat.eqb ?a ?b] => destruct (Nat.eqb a b); cbn [check bind]; [|reflexivity] end;
      rewrite Hvalid;
      destruct (get_indexed_attestation E st _) as [ia|]; cbn [check bind]; [|reflexivity];
      destruct (is_valid_indexed_attestation E st ia); cbn [check bind]; [|reflexivity];
      rewrite Hce
  end.

Section Att2.
  Variable E : Env.
  Variable f : fork.
  Let c := cfg E.

  Theorem committee_members_active st s i l :
    get_beacon_committee E st s i = Some l ->
    forall j, In j l -> exists v, nthN (validators st) j = Some v /\ is_active_validator v (compute_epoch_at_slot E s) = true.
  Proof.
    unfold get_beacon_committee, compute_committee. cbv zeta. intros H j Hj.
    apply active_index_validator.
    eapply (all_some_forall _ (fun r => In r (get_active_validator_indices st (compute_epoch_at_slot E s)))); [|exact H|exact Hj].
    intros a b Hab. cbv beta in Hab. destruct (compute_shuffled_index E _ _ _) as [k|]; [|discriminate].
    eapply nthN_In. exact Hab.
  Qed.

  (* the committee data of the EpochsContext agrees with the spec for the epochs an attestation may target *)
  Record epc2_ok (st : BeaconState) (epc2 : BlockEpc2) : Prop := mkEpc2Ok {
    e2o_base : epc_ok E st (e2 epc2);
    e2o_count : forall e, e = get_previous_epoch E st \/ e = get_current_epoch E st ->
                  e2_count epc2 e = Ok (get_committee_count_per_slot E st e);
    e2o_committee : forall s i,
                  compute_epoch_at_slot E s = get_previous_epoch E st \/ compute_epoch_at_slot E s = get_current_epoch E st ->
                  e2_committee epc2 s i
                  = if i <? get_committee_count_per_slot E st (compute_epoch_at_slot E s)
                    then of_opt (get_beacon_committee E st s i) else Err
  }.

  Lemma valid_ia_sig st a d s :
    is_valid_indexed_attestation E st (VCont [a; d; VBytes (vbytes s)]) = is_valid_indexed_attestation E st (VCont [a; d; s]).
  Proof. reflexivity. Qed.

  Lemma block_root_lookup st i :
    0 < SLOTS_PER_HISTORICAL_ROOT c -> N.of_nat (length (block_roots st)) = SLOTS_PER_HISTORICAL_ROOT c ->
    exists r, nthN (block_roots st) (i mod SLOTS_PER_HISTORICAL_ROOT c) = Some r.
  Proof. intros Hp Hl. apply nthN_lt_Some. rewrite Hl. apply N.mod_lt. lia. Qed.


  (* altair/deneb GetApplicableAttestationParticipationFlags = get_attestation_participation_flag_indices, inside the window *)
  Lemma applicable_flags_refines st data :
    cfg_sane E -> vec_lens E st -> slot st < 2 ^ 40 ->
    cp_epoch (ad_target data) = compute_epoch_at_slot E (ad_slot data) ->
    (cp_epoch (ad_target data) = get_previous_epoch E st \/ cp_epoch (ad_target data) = get_current_epoch E st) ->
    ad_slot data + MIN_ATTESTATION_INCLUSION_DELAY c <= slot st ->
    applicable_flags_impl E f st data (slot st - ad_slot data)
    = match get_attestation_participation_flag_indices E f st data (slot st - ad_slot data) with Some fl => Ok fl | None => Err end.
  Proof.
    intros Hc Hvl Hslot Hte Htw Hnew.
    pose proof (cs_spe_pos E Hc) as Hspe. pose proof (cs_spe_hi E Hc) as Hspeh. pose proof (cs_sphr_pos E Hc) as Hsphr.
    fold c in Hspe, Hspeh, Hsphr. change (2 ^ 20) with 1048576 in *. change (2 ^ 40) with 1099511627776 in *.
    destruct (attestation_roots_in_range E st data Hc Hte Htw Hnew) as [Hroot_head Hroot_tgt]. fold c in Hroot_head, Hroot_tgt.
    destruct (block_root_lookup st (ad_slot data) Hsphr (vl_roots E st Hvl)) as [rh Hrh].
    destruct (block_root_lookup st (compute_start_slot_at_epoch E (cp_epoch (ad_target data))) Hsphr (vl_roots E st Hvl)) as [rt Hrt].
    assert (Htl : cp_epoch (ad_target data) <= slot st).
    { destruct Htw as [Hw|Hw]; rewrite Hw; unfold get_previous_epoch, get_current_epoch, compute_epoch_at_slot; fold c; cbv zeta.
      - pose proof (Ndiv_le (slot st) (SLOTS_PER_EPOCH c)). destruct (_ =? GENESIS_EPOCH); unfold GENESIS_EPOCH; lia.
      - apply Ndiv_le. }
    unfold applicable_flags_impl, get_attestation_participation_flag_indices. cbv zeta. fold c.
    rewrite div64_ok by exact Hspe. cbn [bind]. rewrite (mod64_ok (ad_slot data)) by exact Hsphr. cbn [bind].
    rewrite Hrh. cbn [of_opt bind]. unfold epoch_start_slot_impl. fold c.
    assert (Hm : cp_epoch (ad_target data) * SLOTS_PER_EPOCH c <= 1099511627776 * 1048576) by (apply N.mul_le_mono; lia).
    change (1099511627776 * 1048576) with 1152921504606846976 in Hm.
    rewrite mul64_small by (unfold two64; lia). rewrite div64_ok by exact Hspe. cbn [bind].
    rewrite N.div_mul by lia. rewrite N.eqb_refl. cbn [bind]. rewrite mod64_ok by exact Hsphr. cbn [bind].
    unfold compute_start_slot_at_epoch in Hrt. fold c in Hrt. rewrite Hrt. cbn [of_opt bind].
    unfold get_current_epoch, compute_epoch_at_slot. fold c.
    unfold get_current_epoch, compute_epoch_at_slot, compute_start_slot_at_epoch in Hroot_tgt. fold c in Hroot_tgt.
    rewrite Hroot_tgt, Hrt, Hroot_head, Hrh. unfold integer_squareroot.
    destruct (cp_eqb (ad_source data) _); cbn [check bind andb]; [|reflexivity].
    rewrite (bytes_eqb_sym rt), (bytes_eqb_sym rh). reflexivity.
  Qed.


  Lemma flag_indices_lt3 g st data delay fl :
    get_attestation_participation_flag_indices E g st data delay = Some fl -> forall x, In x fl -> x < 3.
  Proof.
    unfold get_attestation_participation_flag_indices. cbv zeta. intros H.
    destruct (cp_eqb _ _); [|discriminate]. destruct (get_block_root E st _); [|discriminate].
    destruct (get_block_root_at_slot E st _); [|discriminate]. apply some_inj in H. subst fl.
    intros x Hx. repeat (apply in_app_or in Hx; destruct Hx as [Hx|Hx]);
      match type of Hx with In _ (if ?b then _ else _) => destruct b end;
      try destruct Hx as [<-|[]]; try destruct Hx; vm_compute; reflexivity.
  Qed.

  Theorem process_attestation_refines st epc2 att :
    let bits := vbits (vfield att 0) in
    let data := vfield att 1 in
    cfg_sane E -> epc2_ok st epc2 -> st_bounds E st -> lengths_inv f st -> vec_lens E st ->
    MIN_ATTESTATION_INCLUSION_DELAY c <= 2 ^ 20 ->
    N.of_nat (length bits) <= MAX_VALIDATORS_PER_COMMITTEE c ->                                   (* a decoded Bitlist *)
    (forall l, get_beacon_committee E st (ad_slot data) (ad_index data) = Some l ->
       NoDup l                                                                                     (* C07 *)
       /\ N.of_nat (length l) * att_unit E (get_base_reward_per_increment E st) < 2 ^ 63) ->       (* stated numeric bound *)
    (f = Phase0 ->                                                                                  (* room in the pending lists *)
       N.of_nat (length (current_epoch_attestations st)) < MAX_ATTESTATIONS c * SLOTS_PER_EPOCH c
       /\ N.of_nat (length (previous_epoch_attestations st)) < MAX_ATTESTATIONS c * SLOTS_PER_EPOCH c) ->
    process_attestation_impl E f epc2 st att
    = match process_attestation E f st att with Some s => Ok s | None => Err end.
  Proof.
    cbv zeta. intros Hc Hepc2 Hb Hli Hvl Hmin Hbits Hcomm Hroom.
    pose proof (e2o_base st epc2 Hepc2) as Hepc.
    pose proof (cs_spe_pos E Hc) as Hspe. pose proof (cs_spe_hi E Hc) as Hspeh. pose proof (cs_sphr_pos E Hc) as Hsphr.
    pose proof (cs_min_delay E Hc) as Hmd. pose proof (sb_slot E st Hb) as Hslot. fold c in Hspe, Hspeh, Hsphr, Hmd.
    change (2 ^ 20) with 1048576 in *. change (2 ^ 40) with 1099511627776 in *.
    unfold process_attestation_impl. cbv zeta. fold c.
    rewrite (div64_ok (slot st)) by exact Hspe. cbn [bind].
    rewrite (div64_ok (ad_slot (vfield att 1))) by exact Hspe. cbn [bind].
    set (data := vfield att 1) in *. set (bits := vbits (vfield att 0)) in *.
    set (tgt := cp_epoch (ad_target data)). set (ce := slot st / SLOTS_PER_EPOCH c).
    set (pe := if ce =? GENESIS_EPOCH then GENESIS_EPOCH else ce - 1).
    assert (Hce : get_current_epoch E st = ce) by reflexivity.
    assert (Hpe : get_previous_epoch E st = pe) by reflexivity.
    assert (Hcel : ce <= slot st) by (unfold ce; apply Ndiv_le).
    (* the Spec side: first two asserts *)
    assert (Hspec_prefix : forall (k : option BeaconState),
      (assert ((tgt =? get_previous_epoch E st) || (tgt =? get_current_epoch E st)) ;; k)
      = (if negb (tgt <? pe) && negb (ce <? tgt) then k else None)).
    { intros k. rewrite Hce, Hpe.
      assert (Hpc : pe = ce \/ pe + 1 = ce) by (unfold pe, GENESIS_EPOCH; destruct (N.eqb_spec ce 0); lia).
      assert (Hbb : (tgt =? pe) || (tgt =? ce) = negb (tgt <? pe) && negb (ce <? tgt)).
      { destruct (N.eqb_spec tgt pe), (N.eqb_spec tgt ce), (N.ltb_spec tgt pe), (N.ltb_spec ce tgt); cbn [negb andb orb];
          try reflexivity; exfalso; lia. }
      rewrite Hbb. reflexivity. }
    (* unfold the Spec once, for all forks *)
    assert (Hspec : process_attestation E f st att =
      (assert ((tgt =? get_previous_epoch E st) || (tgt =? get_current_epoch E st)) ;;
       assert (tgt =? compute_epoch_at_slot E (ad_slot data)) ;;
       assert (ad_slot data + MIN_ATTESTATION_INCLUSION_DELAY c <=? slot st) ;;
       assert (fork_ge f Deneb || (slot st <=? ad_slot data + SLOTS_PER_EPOCH c)) ;;
       assert (ad_index data <? get_committee_count_per_slot E st tgt) ;;
       committee <- get_beacon_committee E st (ad_slot data) (ad_index data) ;;
       assert (Nat.eqb (length bits) (length committee)) ;;
       match f with
       | Phase0 =>
           p <- get_beacon_proposer_index E st ;;
           let pa := VCont [VBits bits; data; VUint (slot st - ad_slot data); VUint p] in
           st' <- (if tgt =? get_current_epoch E st
                   then assert (cp_eqb (ad_source data) (current_justified_checkpoint st)) ;;
                        Some (st <| current_epoch_attestations := current_epoch_attestations st ++ [pa] |>)
                   else assert (cp_eqb (ad_source data) (previous_justified_checkpoint st)) ;;
                        Some (st <| previous_epoch_attestations := previous_epoch_attestations st ++ [pa] |>)) ;;
           ia <- get_indexed_attestation E st' att ;;
           assert (is_valid_indexed_attestation E st' ia) ;;
           Some st'
       | _ =>
           flags <- get_attestation_participation_flag_indices E f st data (slot st - ad_slot data) ;;
           ia <- get_indexed_attestation E st att ;;
           assert (is_valid_indexed_attestation E st ia) ;;
           attestation_tail E st (tgt =? get_current_epoch E st) (select_bits bits committee) flags
       end)).
    { destruct f; reflexivity. }
    rewrite Hspec. clear Hspec. rewrite Hspec_prefix. clear Hspec_prefix.
    destruct (N.ltb_spec tgt pe) as [Hlt1|Hge1]; cbn [negb andb check bind]; [reflexivity|].
    destruct (N.ltb_spec ce tgt) as [Hlt2|Hge2]; cbn [negb andb check bind]; [reflexivity|].
    unfold compute_epoch_at_slot. fold c.
    destruct (N.eqb_spec tgt (ad_slot data / SLOTS_PER_EPOCH c)) as [Hte|]; cbn [check bind]; [|reflexivity].
    (* window arithmetic does not wrap *)
    assert (Ha : ad_slot data / SLOTS_PER_EPOCH c * SLOTS_PER_EPOCH c <= ad_slot data) by (rewrite N.mul_comm; apply N.mul_div_le; lia).
    assert (Ha' : ad_slot data < (ad_slot data / SLOTS_PER_EPOCH c + 1) * SLOTS_PER_EPOCH c).
    { pose proof (N.mul_succ_div_gt (ad_slot data) (SLOTS_PER_EPOCH c) ltac:(lia)). lia. }
    assert (Hcs : ce * SLOTS_PER_EPOCH c <= slot st) by (unfold ce; rewrite N.mul_comm; apply N.mul_div_le; lia).
    assert (Hadl : ad_slot data < slot st + SLOTS_PER_EPOCH c) by nia.
    rewrite (add64_small (ad_slot data) (SLOTS_PER_EPOCH c)) by (unfold two64; lia).
    rewrite (add64_small (ad_slot data) (MIN_ATTESTATION_INCLUSION_DELAY c)) by (unfold two64; lia).
    destruct (fork_ge f Deneb || (slot st <=? ad_slot data + SLOTS_PER_EPOCH c)) eqn:Hold; cbn [check bind].
    2:{ destruct (ad_slot data + MIN_ATTESTATION_INCLUSION_DELAY c <=? slot st); reflexivity. }
    destruct (N.leb_spec (ad_slot data + MIN_ATTESTATION_INCLUSION_DELAY c) (slot st)) as [Hnew|]; cbn [check bind]; [|reflexivity].
    assert (Htw : tgt = get_previous_epoch E st \/ tgt = get_current_epoch E st).
    { rewrite Hce, Hpe. unfold pe, GENESIS_EPOCH in *. destruct (N.eqb_spec ce 0); lia. }
    rewrite (e2o_count st epc2 Hepc2 tgt Htw). cbn [bind].
    destruct (N.ltb_spec (ad_index data) (get_committee_count_per_slot E st tgt)) as [Hidx|]; cbn [check bind]; [|reflexivity].
    assert (Hsw : compute_epoch_at_slot E (ad_slot data) = get_previous_epoch E st \/ compute_epoch_at_slot E (ad_slot data) = get_current_epoch E st).
    { unfold compute_epoch_at_slot. fold c. rewrite <- Hte. exact Htw. }
    rewrite (e2o_committee st epc2 Hepc2 (ad_slot data) (ad_index data) Hsw).
    unfold compute_epoch_at_slot at 1. fold c. rewrite <- Hte.
    assert (Hidx' : (ad_index data <? get_committee_count_per_slot E st tgt) = true) by (apply N.ltb_lt; exact Hidx). rewrite Hidx'.
    rewrite sub64_ge by lia.
    assert (Hflags : applicable_flags_impl E f st data (slot st - ad_slot data)
              = match get_attestation_participation_flag_indices E f st data (slot st - ad_slot data) with Some fl => Ok fl | None => Err end).
    { apply applicable_flags_refines; try assumption. }
    rewrite Hflags. clear Hflags.
    (* the committee and the indexed attestation *)
    destruct (get_beacon_committee E st (ad_slot data) (ad_index data)) as [committee|] eqn:Hcm.
    2:{ cbn [of_opt bind]. destruct f; cbn [bind]; try (destruct (cp_eqb _ _); reflexivity);
        destruct (get_attestation_participation_flag_indices _ _ st data _); reflexivity. }
    destruct (Hcomm committee eq_refl) as [Hnd Hnum].
    assert (Hvalid : validate_indexed_impl E (e2 epc2) st (sort_indices (select_bits bits committee)) data (vbytes (vfield att 2))
                     = check (match get_indexed_attestation E st att with
                              | Some ia => is_valid_indexed_attestation E st ia | None => false end)).
    { rewrite validate_indexed_refines; [|apply (eo_pubkey_of E st (e2 epc2) Hepc)|].
      - unfold get_indexed_attestation, get_attesting_indices. fold data bits. rewrite Hcm. rewrite valid_ia_sig. reflexivity.
      - unfold sort_indices. fold c. pose proof (sort_uniq_length_le (select_bits bits committee)).
        pose proof (select_bits_length_le bits committee). lia. }
    destruct f.
    - (* phase0 *)
      destruct (Hroom eq_refl) as [Hr1 Hr2]. apply N.ltb_lt in Hr1. apply N.ltb_lt in Hr2. fold c in Hr1, Hr2.
      rewrite <- (eo_proposer E st (e2 epc2) Hepc). rewrite Hce.
      destruct (tgt =? ce).
      + destruct (cp_eqb (ad_source data) (current_justified_checkpoint st)); cbn [check of_opt bind].
        2:{ destruct (Nat.eqb _ _); [|reflexivity]. destruct (be_proposer (e2 epc2)); reflexivity. }
        rewrite (Nat.eqb_sym (length committee) (length bits)).
        destruct (Nat.eqb (length bits) (length committee)); cbn [check bind]; [|reflexivity].
        rewrite Hvalid.
        destruct (be_proposer (e2 epc2)) as [p|]; cbn [of_opt bind].
        2:{ destruct (get_indexed_attestation E st att) as [ia|]; cbn [check bind]; [|reflexivity].
            destruct (is_valid_indexed_attestation E st ia); reflexivity. }
        match goal with |- context [get_indexed_attestation E (set ?fld ?g st) att] =>
          replace (get_indexed_attestation E (set fld g st) att) with (get_indexed_attestation E st att)
            by (symmetry; apply get_indexed_attestation_frame; reflexivity) end.
        destruct (get_indexed_attestation E st att) as [ia|]; cbn [check bind]; [|reflexivity].
        match goal with |- context [is_valid_indexed_attestation E (set ?fld ?g st) ia] =>
          replace (is_valid_indexed_attestation E (set fld g st) ia) with (is_valid_indexed_attestation E st ia)
            by (symmetry; apply is_valid_indexed_attestation_frame; reflexivity) end.
        destruct (is_valid_indexed_attestation E st ia); cbn [check bind]; [|reflexivity].
        rewrite Hr1. reflexivity.
      + destruct (cp_eqb (ad_source data) (previous_justified_checkpoint st)); cbn [check of_opt bind].
        2:{ destruct (Nat.eqb _ _); [|reflexivity]. destruct (be_proposer (e2 epc2)); reflexivity. }
        rewrite (Nat.eqb_sym (length committee) (length bits)).
        destruct (Nat.eqb (length bits) (length committee)); cbn [check bind]; [|reflexivity].
        rewrite Hvalid.
        destruct (be_proposer (e2 epc2)) as [p|]; cbn [of_opt bind].
        2:{ destruct (get_indexed_attestation E st att) as [ia|]; cbn [check bind]; [|reflexivity].
            destruct (is_valid_indexed_attestation E st ia); reflexivity. }
        match goal with |- context [get_indexed_attestation E (set ?fld ?g st) att] =>
          replace (get_indexed_attestation E (set fld g st) att) with (get_indexed_attestation E st att)
            by (symmetry; apply get_indexed_attestation_frame; reflexivity) end.
        destruct (get_indexed_attestation E st att) as [ia|]; cbn [check bind]; [|reflexivity].
        match goal with |- context [is_valid_indexed_attestation E (set ?fld ?g st) ia] =>
          replace (is_valid_indexed_attestation E (set fld g st) ia) with (is_valid_indexed_attestation E st ia)
            by (symmetry; apply is_valid_indexed_attestation_frame; reflexivity) end.
        destruct (is_valid_indexed_attestation E st ia); cbn [check bind]; [|reflexivity].
        rewrite Hr2. reflexivity.
    - att_altair_case. apply attestation_rewards_refines; try assumption.
      + apply select_bits_NoDup. exact Hnd.
      + eapply (flag_indices_lt3 _ st data). exact Hfl.
      + intros i Hi. apply select_bits_in in Hi.
        destruct (committee_members_active st _ _ _ Hcm i Hi) as (v & Hv & Hact). exists v. split; [exact Hv|].
        unfold compute_epoch_at_slot in Hact. fold c in Hact. rewrite <- Hte in Hact.
        destruct Htw as [Hw|Hw]; rewrite <- Hw, Hact; [reflexivity|apply orb_true_r].
      + apply Hli. reflexivity.
      + apply Hli. reflexivity.
      + eapply N.le_lt_trans; [|exact Hnum]. apply N.mul_le_mono_r.
        assert (Hsl : forall (bs : list bool) (l : list N), (length (select_bits bs l) <= length l)%nat).
        { induction bs as [|b bs IH]; intros [|y l]; cbn [select_bits length]; try lia. destruct b; cbn [length]; specialize (IH l); lia. }
        specialize (Hsl bits committee). lia.
    - att_altair_case. apply attestation_rewards_refines; try assumption.
      + apply select_bits_NoDup. exact Hnd.
      + eapply (flag_indices_lt3 _ st data). exact Hfl.
      + intros i Hi. apply select_bits_in in Hi.
        destruct (committee_members_active st _ _ _ Hcm i Hi) as (v & Hv & Hact). exists v. split; [exact Hv|].
        unfold compute_epoch_at_slot in Hact. fold c in Hact. rewrite <- Hte in Hact.
        destruct Htw as [Hw|Hw]; rewrite <- Hw, Hact; [reflexivity|apply orb_true_r].
      + apply Hli. reflexivity.
      + apply Hli. reflexivity.
      + eapply N.le_lt_trans; [|exact Hnum]. apply N.mul_le_mono_r.
        assert (Hsl : forall (bs : list bool) (l : list N), (length (select_bits bs l) <= length l)%nat).
        { induction bs as [|b bs IH]; intros [|y l]; cbn [select_bits length]; try lia. destruct b; cbn [length]; specialize (IH l); lia. }
        specialize (Hsl bits committee). lia.
    - att_altair_case. apply attestation_rewards_refines; try assumption.
      + apply select_bits_NoDup. exact Hnd.
      + eapply (flag_indices_lt3 _ st data). exact Hfl.
      + intros i Hi. apply select_bits_in in Hi.
        destruct (committee_members_active st _ _ _ Hcm i Hi) as (v & Hv & Hact). exists v. split; [exact Hv|].
        unfold compute_epoch_at_slot in Hact. fold c in Hact. rewrite <- Hte in Hact.
        destruct Htw as [Hw|Hw]; rewrite <- Hw, Hact; [reflexivity|apply orb_true_r].
      + apply Hli. reflexivity.
      + apply Hli. reflexivity.
      + eapply N.le_lt_trans; [|exact Hnum]. apply N.mul_le_mono_r.
        assert (Hsl : forall (bs : list bool) (l : list N), (length (select_bits bs l) <= length l)%nat).
        { induction bs as [|b bs IH]; intros [|y l]; cbn [select_bits length]; try lia. destruct b; cbn [length]; specialize (IH l); lia. }
        specialize (Hsl bits committee). lia.
    - att_altair_case. apply attestation_rewards_refines; try assumption.
      + apply select_bits_NoDup. exact Hnd.
      + eapply (flag_indices_lt3 _ st data). exact Hfl.
      + intros i Hi. apply select_bits_in in Hi.
        destruct (committee_members_active st _ _ _ Hcm i Hi) as (v & Hv & Hact). exists v. split; [exact Hv|].
        unfold compute_epoch_at_slot in Hact. fold c in Hact. rewrite <- Hte in Hact.
        destruct Htw as [Hw|Hw]; rewrite <- Hw, Hact; [reflexivity|apply orb_true_r].
      + apply Hli. reflexivity.
      + apply Hli. reflexivity.
      + eapply N.le_lt_trans; [|exact Hnum]. apply N.mul_le_mono_r.
        assert (Hsl : forall (bs : list bool) (l : list N), (length (select_bits bs l) <= length l)%nat).
        { induction bs as [|b bs IH]; intros [|y l]; cbn [select_bits length]; try lia. destruct b; cbn [length]; specialize (IH l); lia. }
        specialize (Hsl bits committee). lia.
  Qed.

End Att2.
