(* The hypotheses of the block-operation refinement theorems are satisfiable by a non-trivial state, and the
   functions do non-trivial work on it (the Impl result is `Ok` and differs from the input). *)
From Coq Require Import String.
From Coq Require Import NArith ZArith Lia List Bool.
From RecordUpdate Require Import RecordSet.
From V Require Import Base.U64 Base.Outcome Ssz.SszCore Beacon.Config Beacon.Schemas Beacon.State
  Beacon.Spec.Helpers Beacon.Spec.Epoch Beacon.Spec.Block Beacon.Impl.BlockOps
  Beacon.Refine.BlockLemmas Beacon.Refine.BlockEpc Beacon.Refine.BlockFixtures Beacon.Refine.BlockSyncRefine
  Beacon.Refine.BlockSyncWitness Beacon.Refine.BlockExitRefine Beacon.Refine.BlockSlashRefine Beacon.Refine.BlockAttRefine
  Beacon.Refine.BlockDepositRefine Beacon.Refine.BlockWithdrawRefine.
Import ListNotations RecordSetNotations.
Local Open Scope list_scope.
Local Open Scope N_scope.

Definition nv_state : BeaconState := sw_state (32 * GWEI_ETH).
Definition nv_epc : BlockEpc := spec_epc blk_env nv_state.
Definition same_registry (a b : list N) (va vb : list Validator) : bool :=
  list_eqb N.eqb a b && list_eqb (fun x y => (v_exit_epoch x =? v_exit_epoch y) && Bool.eqb (v_slashed x) (v_slashed y)) va vb.
Definition changed (r : outcome BeaconState) : bool :=
  match r with Ok s => negb (same_registry (balances s) (balances nv_state) (validators s) (validators nv_state)) | _ => false end.

Lemma nv_hyps : cfg_sane blk_env /\ epc_ok blk_env nv_state nv_epc /\ st_bounds blk_env nv_state.
Proof. split; [exact blk_cfg_sane|]. split; [apply sw_epc_ok|apply sw_bounds; vm_compute; reflexivity]. Qed.

(* InitiateValidatorExit / SlashValidator: all hypotheses hold, the validator is exited / slashed *)
Example initiate_validator_exit_refines_nonvacuous :
  cfg_sane blk_env /\ epc_ok blk_env nv_state nv_epc /\ st_bounds blk_env nv_state
  /\ changed (initiate_validator_exit_impl blk_env nv_epc nv_state 1) = true.
Proof. destruct nv_hyps as (H1 & H2 & H3). split; [exact H1|split; [exact H2|split; [exact H3|vm_compute; reflexivity]]]. Qed.

Example slash_validator_refines_nonvacuous :
  cfg_sane blk_env /\ epc_ok blk_env nv_state nv_epc /\ st_bounds blk_env nv_state
  /\ N.of_nat (length (slashings nv_state)) = EPOCHS_PER_SLASHINGS_VECTOR (cfg blk_env)
  /\ changed (slash_validator_impl blk_env Altair nv_epc nv_state 1 None) = true.
Proof.
  destruct nv_hyps as (H1 & H2 & H3).
  split; [exact H1|split; [exact H2|split; [exact H3|split; [vm_compute; reflexivity|vm_compute; reflexivity]]]].
Qed.

(* attestation flags: both validators attest with all three flags *)
Example attestation_rewards_refines_nonvacuous :
  let idxs := [1; 0] in let flags := [0; 1; 2] in
  NoDup idxs /\ (forall fl, In fl flags -> fl < 3)
  /\ (forall i, In i idxs -> exists v, nthN (validators nv_state) i = Some v
        /\ is_active_validator v (get_previous_epoch blk_env nv_state) || is_active_validator v (get_current_epoch blk_env nv_state) = true)
  /\ length (current_epoch_participation nv_state) = length (validators nv_state)
  /\ length (previous_epoch_participation nv_state) = length (validators nv_state)
  /\ N.of_nat (length idxs) * att_unit blk_env (get_base_reward_per_increment blk_env nv_state) < 2 ^ 63
  /\ match attestation_rewards_impl blk_env nv_epc nv_state true (sort_indices idxs) flags with
     | Ok s => current_epoch_participation s = [7; 7] /\ nthN (balances s) 0 = Some (32 * GWEI_ETH + 54 * 32 * 252982 * 2 / 448)
     | _ => False end.
Proof.
  cbv zeta. split; [repeat constructor; cbn; intuition discriminate|].
  split; [intros fl [<-|[<-|[<-|[]]]]; vm_compute; reflexivity|].
  split; [intros i [<-|[<-|[]]]; eexists; split; vm_compute; reflexivity|].
  split; [reflexivity|]. split; [reflexivity|]. split; [vm_compute; reflexivity|].
  vm_compute. split; reflexivity.
Qed.

(* withdrawals: validator 1 has an ETH1 credential and an excess balance *)
Definition nvw_state : BeaconState :=
  fx_state 9 [fx_validator 0 false (32 * GWEI_ETH) false 0 FAR_FUTURE_EPOCH FAR_FUTURE_EPOCH;
              fx_validator 1 true (32 * GWEI_ETH) false 0 FAR_FUTURE_EPOCH FAR_FUTURE_EPOCH;
              fx_validator 2 true (32 * GWEI_ETH) false 0 0 0]
           [32 * GWEI_ETH; 33 * GWEI_ETH; 5].
Example get_expected_withdrawals_refines_nonvacuous :
  0 < SLOTS_PER_EPOCH (cfg blk_env)
  /\ length (balances nvw_state) = length (validators nvw_state)
  /\ 0 < N.of_nat (length (validators nvw_state)) <= 2 ^ 40
  /\ next_withdrawal_validator_index nvw_state < N.of_nat (length (validators nvw_state))
  /\ next_withdrawal_index nvw_state < 2 ^ 63
  /\ get_expected_withdrawals_impl blk_env nvw_state
     = Ok [(0, 1, repeat 1 20, GWEI_ETH); (1, 2, repeat 2 20, 5)].
Proof. repeat split; vm_compute; try reflexivity; try discriminate. Qed.

(* deposits: a top-up and a new validator *)
Example process_deposit_refines_nonvacuous :
  0 < EFFECTIVE_BALANCE_INCREMENT (cfg blk_env) /\ registry_room blk_env Altair nv_state
  /\ eth1_deposit_index nv_state + 1 < two64
  /\ (forall x, In x (balances nv_state) -> x < 2 ^ 63)
  /\ match process_deposit_impl blk_env Altair nv_epc nv_state
             (VCont [VSeq (repeat (VBytes z32) 33); VCont [VBytes [9]; VBytes z32; VUint (32 * GWEI_ETH); VBytes (repeat 0 96)]]) with
     | Ok s => length (validators s) = 3%nat /\ length (inactivity_scores s) = 3%nat /\ eth1_deposit_index s = 1
     | _ => False end.
Proof.
  split; [vm_compute; reflexivity|]. split; [constructor; intros; vm_compute; reflexivity|].
  split; [vm_compute; reflexivity|]. split; [apply (sb_bal blk_env nv_state); apply nv_hyps|].
  vm_compute. repeat split; reflexivity.
Qed.
