(* Two more frames of process_block, in the style of Beacon/Proofs/Frame.v (C08):
     vec_frame   the fixed-size vectors randao_mixes / slashings / block_roots keep their lengths (every step)
     pk_frame    the list of validator pubkeys is unchanged (every step except deposits, which only append)
   They make `vec_lens` and the agreement of zrnt's pubkey cache with the registry survive the operations of a block. *)
From Coq Require Import String NArith List Bool Lia.
From Coq Require Import ZifyN ZifyNat ZifyBool.
From RecordUpdate Require Import RecordSet.
From V Require Import Ssz.SszCore Beacon.Config Beacon.Schemas Beacon.State
  Beacon.Spec.Helpers Beacon.Spec.Epoch Beacon.Spec.Block Beacon.Spec.Transition
  Beacon.Proofs.ListFacts Beacon.Proofs.Frame.
Import ListNotations RecordSetNotations.
Local Open Scope N_scope.

Definition vec_frame (st st' : BeaconState) : Prop :=
  length (randao_mixes st') = length (randao_mixes st) /\ length (slashings st') = length (slashings st)
  /\ length (block_roots st') = length (block_roots st).
Definition pk_frame (st st' : BeaconState) : Prop := map v_pubkey (validators st') = map v_pubkey (validators st).
(* both at once *)
Definition kf (st st' : BeaconState) : Prop := vec_frame st st' /\ pk_frame st st'.
Lemma kf_refl st : kf st st.
Proof. repeat split. Qed.
Lemma kf_trans a b c : kf a b -> kf b c -> kf a c.
Proof. unfold kf, vec_frame, pk_frame. intros ((H1 & H2 & H3) & H4) ((H5 & H6 & H7) & H8). repeat split; congruence. Qed.
Lemma kf_step a b c : kf b c -> kf a b -> kf a c.
Proof. intros H1 H2. exact (kf_trans a b c H2 H1). Qed.

Lemma map_upd_nat_pres {A B} (h : A -> B) (g : A -> A) : (forall x, h (g x) = h x) -> forall l i, map h (upd_nat l i g) = map h l.
Proof. intros Hg. induction l as [|x l IH]; intros [|i]; cbn; try reflexivity; [rewrite Hg|rewrite IH]; reflexivity. Qed.
Lemma map_updN_pres {A B} (h : A -> B) (g : A -> A) l i : (forall x, h (g x) = h x) -> map h (updN l i g) = map h l.
Proof. intros Hg. unfold updN. destruct (i <? N.of_nat (length l)); [apply map_upd_nat_pres; exact Hg|reflexivity]. Qed.

Create HintDb kf discriminated.
#[export] Hint Resolve kf_refl : kf.
Ltac kf_set_tac :=
  unfold kf, vec_frame, pk_frame;
  cbn [set validators randao_mixes slashings block_roots];
  rewrite ?lf_updN_length, ?lf_setN_length;
  repeat split; first [reflexivity | apply map_updN_pres; intros; reflexivity].
#[export] Hint Extern 2 (kf _ (set _ _ ?t)) => (apply (kf_step _ t); [kf_set_tac|]) : kf.
#[export] Hint Extern 3 (kf _ (if ?c then _ else _)) => destruct c : kf.
#[export] Hint Extern 4 (kf _ (match ?x with _ => _ end)) => destruct x : kf.
Ltac kf := eauto 40 with kf nocore.
Ltac kf_opt F := intros; match goal with H : _ = Some _ |- _ => unfold F in H; cbv beta zeta in H end; inv_all; kf.
Ltac kf_fun F := intros; unfold F; cbv beta zeta; kf.

Lemma kf_increase_balance s st i d : kf s st -> kf s (increase_balance st i d).
Proof. kf_fun increase_balance. Qed.
Lemma kf_decrease_balance s st i d : kf s st -> kf s (decrease_balance st i d).
Proof. kf_fun decrease_balance. Qed.
#[export] Hint Resolve kf_increase_balance kf_decrease_balance : kf.
Lemma kf_initiate_validator_exit E s st i st' : initiate_validator_exit E st i = Some st' -> kf s st -> kf s st'.
Proof. kf_opt initiate_validator_exit. Qed.
#[export] Hint Resolve kf_initiate_validator_exit : kf.
Lemma kf_slash_validator E f s st i w st' : slash_validator E f st i w = Some st' -> kf s st -> kf s st'.
Proof. kf_opt slash_validator. Qed.
#[export] Hint Resolve kf_slash_validator : kf.
Lemma kf_process_block_header E f s st blk st' : process_block_header E f st blk = Some st' -> kf s st -> kf s st'.
Proof. kf_opt process_block_header. Qed.
Lemma kf_process_randao E f s st body st' : process_randao E f st body = Some st' -> kf s st -> kf s st'.
Proof. kf_opt process_randao. Qed.
Lemma kf_process_eth1_data E f s st body : kf s st -> kf s (process_eth1_data E f st body).
Proof. kf_fun process_eth1_data. Qed.
Lemma kf_process_proposer_slashing E f s st op st' : process_proposer_slashing E f st op = Some st' -> kf s st -> kf s st'.
Proof. kf_opt process_proposer_slashing. Qed.
#[export] Hint Resolve kf_process_block_header kf_process_randao kf_process_eth1_data kf_process_proposer_slashing : kf.
Lemma kf_process_attester_slashing E f s st op st' : process_attester_slashing E f st op = Some st' -> kf s st -> kf s st'.
Proof.
  intros H Hs. unfold process_attester_slashing in H. cbv beta zeta in H.
  do 4 inv_step H.
  apply (fold_opt_pres (fun x y : BeaconState * bool => kf (fst x) (fst y))) in Hx.
  - inv_all. apply (kf_trans s st); assumption.
  - intros x. apply kf_refl.
  - intros x y z. apply kf_trans.
  - intros [x any] a [x' any'] Hf. cbn [fst]. inv_all; kf.
Qed.
Lemma kf_process_attestation E f s st op st' : process_attestation E f st op = Some st' -> kf s st -> kf s st'.
Proof. kf_opt process_attestation. Qed.
Lemma kf_process_voluntary_exit E f s st op st' : process_voluntary_exit E f st op = Some st' -> kf s st -> kf s st'.
Proof. kf_opt process_voluntary_exit. Qed.
Lemma kf_process_bls_to_execution_change E s st op st' : process_bls_to_execution_change E st op = Some st' -> kf s st -> kf s st'.
Proof. kf_opt process_bls_to_execution_change. Qed.
#[export] Hint Resolve kf_process_attester_slashing kf_process_attestation kf_process_voluntary_exit kf_process_bls_to_execution_change : kf.
Lemma kf_process_sync_aggregate E s st sa st' : process_sync_aggregate E st sa = Some st' -> kf s st -> kf s st'.
Proof.
  intros H Hs. unfold process_sync_aggregate in H. cbv beta zeta in H. inv_all.
  apply (kf_trans s st); [assumption|].
  apply (fold_pres kf kf_refl kf_trans). intros x [? ?]. kf.
Qed.
Lemma kf_process_execution_payload E f s st body st' : process_execution_payload E f st body = Some st' -> kf s st -> kf s st'.
Proof. kf_opt process_execution_payload. Qed.
Lemma kf_process_withdrawals E f s st p st' : process_withdrawals E f st p = Some st' -> kf s st -> kf s st'.
Proof.
  intros H Hs. unfold process_withdrawals in H. cbv beta zeta in H. inv_all.
  assert (Hf : kf s (fold_left (fun st0 w => let '(_, vi, _, amt) := w in decrease_balance st0 vi amt)
                               (get_expected_withdrawals E st) st)).
  { apply (kf_trans s st); [assumption|].
    apply (fold_pres kf kf_refl kf_trans). intros x [[[? ?] ?] ?]. kf. }
  kf.
Qed.
#[export] Hint Resolve kf_process_sync_aggregate kf_process_execution_payload kf_process_withdrawals : kf.

(* deposits: the vectors keep their lengths; the key list can only grow at the end *)
Lemma vf_process_deposit E f st op st' : process_deposit E f st op = Some st' -> vec_frame st st'.
Proof.
  intros H. unfold process_deposit in H. cbv beta zeta in H. inv_all.
  unfold apply_deposit, add_validator_to_registry, increase_balance, vec_frame.
  repeat match goal with |- context [match ?x with _ => _ end] => destruct x end;
    cbn [set randao_mixes slashings block_roots]; repeat split; reflexivity.
Qed.
Lemma vec_frame_refl st : vec_frame st st.
Proof. repeat split. Qed.
Lemma vec_frame_trans a b c : vec_frame a b -> vec_frame b c -> vec_frame a c.
Proof. unfold vec_frame. intros (H1 & H2 & H3) (H5 & H6 & H7). repeat split; congruence. Qed.

(* ---------- the deposit bookkeeping is untouched by slashings and attestations ---------- *)
Definition df (st st' : BeaconState) : Prop := eth1_data st' = eth1_data st /\ eth1_deposit_index st' = eth1_deposit_index st.
Lemma df_refl st : df st st.
Proof. split; reflexivity. Qed.
Lemma df_trans a b c : df a b -> df b c -> df a c.
Proof. unfold df. intros [H1 H2] [H3 H4]. split; congruence. Qed.
Lemma df_step a b c : df b c -> df a b -> df a c.
Proof. intros H1 H2. exact (df_trans a b c H2 H1). Qed.
Create HintDb df discriminated.
#[export] Hint Resolve df_refl : df.
Ltac df_set_tac := split; reflexivity.
#[export] Hint Extern 2 (df _ (set _ _ ?t)) => (apply (df_step _ t); [df_set_tac|]) : df.
#[export] Hint Extern 3 (df _ (if ?c then _ else _)) => destruct c : df.
#[export] Hint Extern 4 (df _ (match ?x with _ => _ end)) => destruct x : df.
Ltac df := eauto 40 with df nocore.
Ltac df_opt F := intros; match goal with H : _ = Some _ |- _ => unfold F in H; cbv beta zeta in H end; inv_all; df.
Ltac df_fun F := intros; unfold F; cbv beta zeta; df.
Lemma df_increase_balance s st i d : df s st -> df s (increase_balance st i d).
Proof. df_fun increase_balance. Qed.
Lemma df_decrease_balance s st i d : df s st -> df s (decrease_balance st i d).
Proof. df_fun decrease_balance. Qed.
#[export] Hint Resolve df_increase_balance df_decrease_balance : df.
Lemma df_initiate_validator_exit E s st i st' : initiate_validator_exit E st i = Some st' -> df s st -> df s st'.
Proof. df_opt initiate_validator_exit. Qed.
#[export] Hint Resolve df_initiate_validator_exit : df.
Lemma df_slash_validator E f s st i w st' : slash_validator E f st i w = Some st' -> df s st -> df s st'.
Proof. df_opt slash_validator. Qed.
#[export] Hint Resolve df_slash_validator : df.
Lemma df_process_proposer_slashing E f s st op st' : process_proposer_slashing E f st op = Some st' -> df s st -> df s st'.
Proof. df_opt process_proposer_slashing. Qed.
Lemma df_process_attester_slashing E f s st op st' : process_attester_slashing E f st op = Some st' -> df s st -> df s st'.
Proof.
  intros H Hs. unfold process_attester_slashing in H. cbv beta zeta in H.
  do 4 inv_step H.
  apply (fold_opt_pres (fun x y : BeaconState * bool => df (fst x) (fst y))) in Hx.
  - inv_all. apply (df_trans s st); assumption.
  - intros x. apply df_refl.
  - intros x y z. apply df_trans.
  - intros [x any] a [x' any'] Hf. cbn [fst]. inv_all; df.
Qed.
Lemma df_process_attestation E f s st op st' : process_attestation E f st op = Some st' -> df s st -> df s st'.
Proof. df_opt process_attestation. Qed.
Lemma df_for_ops fn : (forall st op st', fn st op = Some st' -> df st st') ->
  forall ops st st', for_ops ops fn st = Some st' -> df st st'.
Proof. intros Hfn. exact (for_ops_pres df df_refl df_trans fn Hfn). Qed.
