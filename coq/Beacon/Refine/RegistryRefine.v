(* Refinement: zrnt's registry updates (Impl/Registry.v) = the consensus spec's process_registry_updates.
   Theorems: exit_scan_spec, eject_batch_refines, activation_queue_prefix, registry_refines, registry_orig_refuted. *)
From Coq Require Import NArith ZArith Lia List Bool.
From Coq Require Import ZifyN ZifyNat ZifyBool.
From RecordUpdate Require Import RecordSet.
From V Require Import Base.U64 Beacon.Config Beacon.State Beacon.Spec.Helpers Beacon.Spec.Epoch.
From V Require Import Beacon.Impl.Flat Beacon.Impl.Registry Beacon.Refine.ListLemmas.
Import ListNotations RecordSetNotations.
Local Open Scope N_scope.
Ltac Zify.zify_post_hook ::= Z.div_mod_to_equations.

Lemma FAR_is_max64 : FAR_FUTURE_EPOCH = max64. Proof. reflexivity. Qed.
Lemma two64_val : two64 = 18446744073709551616. Proof. reflexivity. Qed.
Lemma max64_val : max64 = 18446744073709551615. Proof. reflexivity. Qed.
Lemma add64_small a b : a + b < two64 -> add64 a b = a + b.
Proof. intros H. unfold add64. apply wrap64_small. exact H. Qed.

(* ================= 1. the exit-queue scan ================= *)

(* the spec's view of the exit queue, on the snapshot *)
Definition nonfar_exits (flats : list FlatValidator) : list N :=
  filter (fun e => negb (e =? FAR_FUTURE_EPOCH)) (map fl_exit_epoch flats).
Definition exits_at (q : N) (flats : list FlatValidator) : N := countN (fun fl => fl_exit_epoch fl =? q) flats.

Lemma nonfar_exits_cons fl l :
  nonfar_exits (fl :: l) = if fl_exit_epoch fl =? FAR_FUTURE_EPOCH then nonfar_exits l else fl_exit_epoch fl :: nonfar_exits l.
Proof. unfold nonfar_exits. cbn [map filter]. destruct (fl_exit_epoch fl =? FAR_FUTURE_EPOCH); reflexivity. Qed.
Lemma nonfar_exits_not_far l x : In x (nonfar_exits l) -> x <> FAR_FUTURE_EPOCH.
Proof. unfold nonfar_exits. rewrite filter_In. intros [_ H]. destruct (N.eqb_spec x FAR_FUTURE_EPOCH); [discriminate|assumption]. Qed.
Lemma queue_max_not_far l d : d <> FAR_FUTURE_EPOCH -> maxl (nonfar_exits l) d <> FAR_FUTURE_EPOCH.
Proof. intros Hd. destruct (maxl_in (nonfar_exits l) d) as [->|H]; [exact Hd|]. eapply nonfar_exits_not_far. exact H. Qed.

Lemma exit_scan_gen : forall l e ch,
  e <> FAR_FUTURE_EPOCH -> ch + N.of_nat (length l) < two64 ->
  fold_left exit_scan_step l (e, ch) =
  (maxl (nonfar_exits l) e,
   if maxl (nonfar_exits l) e =? e then ch + exits_at e l else exits_at (maxl (nonfar_exits l) e) l).
Proof.
  induction l as [|fl l IH]; intros e ch He Hlen.
  - cbn [fold_left nonfar_exits map filter maxl]. rewrite N.eqb_refl. unfold exits_at. rewrite countN_nil. f_equal. lia.
  - cbn [fold_left]. cbn [length] in Hlen. rewrite nonfar_exits_cons. unfold exit_scan_step at 2.
    unfold exits_at in *. rewrite !countN_cons.
    destruct (N.eqb_spec (fl_exit_epoch fl) FAR_FUTURE_EPOCH) as [Hfar|Hnf].
    + (* not exiting: skipped *)
      rewrite IH by (try assumption; lia).
      pose proof (queue_max_not_far l e He) as Hq.
      destruct (N.eqb_spec (fl_exit_epoch fl) e) as [E|_]; [congruence|].
      destruct (N.eqb_spec (fl_exit_epoch fl) (maxl (nonfar_exits l) e)) as [E|_]; [congruence|].
      reflexivity.
    + set (x := fl_exit_epoch fl) in *. rewrite maxl_cons.
      destruct (N.ltb_spec e x) as [Hlt|Hge].
      * (* a later exit epoch becomes the queue end: the counter restarts *)
        rewrite N.eqb_refl. rewrite add64_small by lia.
        replace (N.max x e) with x by lia.
        rewrite IH by (try assumption; lia).
        pose proof (maxl_ge_d (nonfar_exits l) x) as Hge.
        destruct (N.eqb_spec (maxl (nonfar_exits l) x) e) as [E|_]; [lia|].
        destruct (N.eqb_spec (maxl (nonfar_exits l) x) x) as [E|NE].
        -- rewrite E, N.eqb_refl. reflexivity.
        -- destruct (N.eqb_spec x (maxl (nonfar_exits l) x)) as [E'|_]; [congruence|]. reflexivity.
      * replace (N.max x e) with e by lia.
        destruct (N.eqb_spec x e) as [E|NE].
        -- rewrite add64_small by lia. rewrite IH by (try assumption; lia).
           destruct (N.eqb_spec (maxl (nonfar_exits l) e) e) as [E2|NE2]; [f_equal; lia|].
           pose proof (maxl_ge_d (nonfar_exits l) e).
           destruct (N.eqb_spec x (maxl (nonfar_exits l) e)) as [E'|_]; [congruence|]. reflexivity.
        -- rewrite IH by (try assumption; lia).
           pose proof (maxl_ge_d (nonfar_exits l) e).
           destruct (N.eqb_spec x (maxl (nonfar_exits l) e)) as [E'|_]; [lia|]. reflexivity.
Qed.

(* exit_scan_spec: the scan returns (max (exit epochs ∪ {activation-exit epoch}), number of validators exiting at
   that epoch), for every snapshot, provided the two counters cannot wrap. *)
Theorem exit_scan_spec (c : Config) (flats : list FlatValidator) (ce : N) :
  ce + 1 + MAX_SEED_LOOKAHEAD c < max64 ->
  N.of_nat (length flats) < two64 ->
  let q := maxl (nonfar_exits flats) (ce + 1 + MAX_SEED_LOOKAHEAD c) in
  exit_scan c flats ce = (q, exits_at q flats).
Proof.
  intros Hce Hlen q. unfold exit_scan, activation_exit_epoch64.
  rewrite max64_val in Hce. rewrite two64_val in Hlen.
  rewrite (add64_small ce 1) by (rewrite two64_val; lia).
  rewrite add64_small by (rewrite two64_val; lia).
  rewrite exit_scan_gen by (rewrite ?FAR_is_max64, ?max64_val, ?two64_val; lia).
  fold q. destruct (N.eqb_spec q (ce + 1 + MAX_SEED_LOOKAHEAD c)) as [E|_]; [rewrite <- E|]; reflexivity.
Qed.

(* ================= 2. the exit queue as a function of the list of exit epochs ================= *)

Definition nonfar (xs : list N) : list N := filter (fun e => negb (e =? FAR_FUTURE_EPOCH)) xs.
Definition qmax (a : N) (xs : list N) : N := maxl (nonfar xs) a.
Definition qcnt (q : N) (xs : list N) : N := countN (fun e => e =? q) xs.
(* what initiate_validator_exit assigns next, and how many already sit there *)
Definition qnorm (limit a : N) (xs : list N) : N * N :=
  let q0 := qmax a xs in
  let ch := qcnt q0 xs in
  if limit <=? ch then (q0 + 1, 0) else (q0, ch).
(* zrnt's running pair after one more ejection *)
Definition next_queue (limit e ch : N) : N * N := if limit <=? ch + 1 then (e + 1, 0) else (e, ch + 1).

Lemma nonfar_app a b : nonfar (a ++ b) = nonfar a ++ nonfar b.
Proof. apply filter_app. Qed.
Lemma nonfar_cons_far b : nonfar (FAR_FUTURE_EPOCH :: b) = nonfar b.
Proof. reflexivity. Qed.
Lemma nonfar_cons_nf x b : x <> FAR_FUTURE_EPOCH -> nonfar (x :: b) = x :: nonfar b.
Proof. intros H. unfold nonfar. cbn [filter]. destruct (N.eqb_spec x FAR_FUTURE_EPOCH); [contradiction|reflexivity]. Qed.
Lemma nonfar_in x xs : In x xs -> x <> FAR_FUTURE_EPOCH -> In x (nonfar xs).
Proof. intros Hin Hx. unfold nonfar. rewrite filter_In. split; [exact Hin|]. destruct (N.eqb_spec x FAR_FUTURE_EPOCH); [contradiction|reflexivity]. Qed.
Lemma qmax_not_far a xs : a <> FAR_FUTURE_EPOCH -> qmax a xs <> FAR_FUTURE_EPOCH.
Proof.
  intros Ha. unfold qmax. destruct (maxl_in (nonfar xs) a) as [->|H]; [exact Ha|].
  unfold nonfar in H at 2. apply filter_In in H. destruct H as [_ H].
  destruct (N.eqb_spec (maxl (nonfar xs) a) FAR_FUTURE_EPOCH); [discriminate|assumption].
Qed.
Lemma qcnt_above q a xs : qmax a xs < q -> q <> FAR_FUTURE_EPOCH -> qcnt q xs = 0.
Proof.
  intros Hq Hfar. unfold qcnt. apply countN_zero. intros x Hin.
  destruct (N.eqb_spec x q) as [->|]; [|reflexivity]. exfalso.
  pose proof (maxl_ge_in (nonfar xs) a q (nonfar_in _ _ Hin Hfar)). unfold qmax in Hq. lia.
Qed.

(* one ejection: a validator whose exit epoch was FAR_FUTURE receives the queue end E *)
Lemma queue_step limit aee a b E C :
  qnorm limit aee (a ++ FAR_FUTURE_EPOCH :: b) = (E, C) ->
  E <> FAR_FUTURE_EPOCH -> aee <> FAR_FUTURE_EPOCH ->
  qnorm limit aee (a ++ E :: b) = next_queue limit E C.
Proof.
  intros Hinv HE Ha. unfold qnorm in *.
  assert (Hq0 : qmax aee (a ++ FAR_FUTURE_EPOCH :: b) = qmax aee (a ++ b)).
  { unfold qmax. rewrite !nonfar_app, nonfar_cons_far. reflexivity. }
  assert (Hq1 : qmax aee (a ++ E :: b) = N.max E (qmax aee (a ++ b))).
  { unfold qmax. rewrite !nonfar_app, nonfar_cons_nf by exact HE. rewrite maxl_mid. reflexivity. }
  rewrite Hq0 in Hinv. rewrite Hq1. set (q0 := qmax aee (a ++ b)) in *.
  pose proof (qmax_not_far aee (a ++ b) Ha) as Hq0far. fold q0 in Hq0far.
  assert (Hc0 : qcnt q0 (a ++ FAR_FUTURE_EPOCH :: b) = qcnt q0 (a ++ b)).
  { unfold qcnt. rewrite !countN_app, countN_cons.
    destruct (N.eqb_spec FAR_FUTURE_EPOCH q0); [congruence|lia]. }
  rewrite Hc0 in Hinv.
  assert (Hc1 : forall q, qcnt q (a ++ E :: b) = qcnt q (a ++ b) + (if E =? q then 1 else 0)).
  { intros q. unfold qcnt. rewrite !countN_app, countN_cons. lia. }
  rewrite Hc1. unfold next_queue.
  destruct (N.leb_spec limit (qcnt q0 (a ++ b))) as [Hle|Hgt]; inversion Hinv; subst E C; clear Hinv.
  - replace (N.max (q0 + 1) q0) with (q0 + 1) by lia. rewrite N.eqb_refl.
    rewrite (qcnt_above (q0 + 1) aee (a ++ b)) by (fold q0; try lia; exact HE). reflexivity.
  - replace (N.max q0 q0) with q0 by lia. rewrite N.eqb_refl. reflexivity.
Qed.

Lemma qnorm_fst_ge limit aee xs : aee <= fst (qnorm limit aee xs).
Proof.
  unfold qnorm. pose proof (maxl_ge_d (nonfar xs) aee) as H. fold (qmax aee xs) in H.
  destruct (limit <=? _); cbn [fst]; lia.
Qed.
Lemma qnorm_snd_le limit aee xs : snd (qnorm limit aee xs) <= N.of_nat (length xs).
Proof.
  unfold qnorm. destruct (limit <=? _); cbn [snd]; [lia|]. apply countN_le_length.
Qed.
Lemma next_queue_fst limit e ch : e <= fst (next_queue limit e ch) <= e + 1.
Proof. unfold next_queue. destruct (limit <=? _); cbn [fst]; lia. Qed.

(* ================= 3. the spec's registry loop on the validator list ================= *)
Definition with_validators (st : BeaconState) (vs : list Validator) : BeaconState := st <| validators := vs |>.
Lemma with_validators_id st : with_validators st (validators st) = st.
Proof. destruct st; reflexivity. Qed.

Section SpecOnLists.
  Variable E : Env.
  Variable f : fork.
  Let c := cfg E.

  Definition aee (ce : N) : N := ce + 1 + MAX_SEED_LOOKAHEAD c.
  Definition active_count (vals : list Validator) (ce : N) : N := countN (fun v => is_active_validator v ce) vals.
  Definition churn_limit_of (vals : list Validator) (ce : N) : N :=
    N.max (MIN_PER_EPOCH_CHURN_LIMIT c) (active_count vals ce / CHURN_LIMIT_QUOTIENT c).
  Definition set_exit (q : N) (v : Validator) : Validator :=
    v <| v_exit_epoch := q |> <| v_withdrawable_epoch := q + MIN_VALIDATOR_WITHDRAWABILITY_DELAY c |>.
  Definition set_elig (e : N) (v : Validator) : Validator := v <| v_activation_eligibility_epoch := e |>.
  Definition set_act (e : N) (v : Validator) : Validator := v <| v_activation_epoch := e |>.
  Definition exit_target (vals : list Validator) (ce : N) : N :=
    fst (qnorm (churn_limit_of vals ce) (aee ce) (map v_exit_epoch vals)).

  Definition ive_vals (vals : list Validator) (ce index : N) : option (list Validator) :=
    match nthN vals index with
    | None => None
    | Some v => if negb (v_exit_epoch v =? FAR_FUTURE_EPOCH) then Some vals
                else Some (updN vals index (set_exit (exit_target vals ce)))
    end.

  Lemma active_indices_length st epoch :
    N.of_nat (length (get_active_validator_indices st epoch)) = active_count (validators st) epoch.
  Proof.
    unfold get_active_validator_indices, active_count, countN. rewrite map_length, combine_indices_indexed.
    unfold indexed. rewrite (filter_snd_indexed_length (fun v => is_active_validator v epoch)). reflexivity.
  Qed.
  Lemma churn_limit_eq st : get_validator_churn_limit E st = churn_limit_of (validators st) (get_current_epoch E st).
  Proof. unfold get_validator_churn_limit, churn_limit_of. rewrite active_indices_length. reflexivity. Qed.

  Lemma ive_state st i :
    initiate_validator_exit E st i = option_map (with_validators st) (ive_vals (validators st) (get_current_epoch E st) i).
  Proof.
    unfold initiate_validator_exit, ive_vals. destruct (nthN (validators st) i) as [v|]; [|reflexivity].
    destruct (negb (v_exit_epoch v =? FAR_FUTURE_EPOCH)); cbn [option_map].
    - rewrite with_validators_id. reflexivity.
    - rewrite churn_limit_eq. unfold exit_target, qnorm, qmax, qcnt, nonfar, aee, compute_activation_exit_epoch.
      fold c. rewrite countN_map. unfold countN.
      destruct (_ <=? _); reflexivity.
  Qed.
End SpecOnLists.

Section SpecLoop.
  Variable E : Env.
  Variable f : fork.
  Let c := cfg E.

  Definition reg_step_vals (ce : N) (acc : option (list Validator)) (i : N) : option (list Validator) :=
    match acc with
    | None => None
    | Some vals =>
        match nthN vals i with
        | None => None
        | Some v =>
            let vals1 := if is_eligible_for_activation_queue E v then updN vals i (set_elig (ce + 1)) else vals in
            if is_active_validator v ce && (v_effective_balance v <=? EJECTION_BALANCE c)
            then ive_vals E vals1 ce i else Some vals1
        end
    end.

  (* the loop body of process_registry_updates, verbatim *)
  Definition spec_reg_step (ce : N) (acc : option BeaconState) (i : N) : option BeaconState :=
    st <- acc ;;
    v <- nthN (validators st) i ;;
    let st := if is_eligible_for_activation_queue E v
              then st <| validators := updN (validators st) i (fun v => v <| v_activation_eligibility_epoch := ce + 1 |>) |>
              else st in
    if is_active_validator v ce && (v_effective_balance v <=? EJECTION_BALANCE c)
    then initiate_validator_exit E st i else Some st.

  Lemma reg_loop_state ce : forall l st,
    get_current_epoch E st = ce ->
    fold_left (spec_reg_step ce) l (Some st) =
    option_map (with_validators st) (fold_left (reg_step_vals ce) l (Some (validators st))).
  Proof.
    induction l as [|i l IH]; intros st Hce.
    - cbn [fold_left option_map]. rewrite with_validators_id. reflexivity.
    - cbn [fold_left]. unfold spec_reg_step at 2, reg_step_vals at 2.
      destruct (nthN (validators st) i) as [v|].
      2:{ rewrite !fold_left_none by reflexivity. reflexivity. }
      destruct (is_eligible_for_activation_queue E v);
      destruct (is_active_validator v ce && (v_effective_balance v <=? EJECTION_BALANCE c)).
      + rewrite ive_state. change (get_current_epoch E _) with (get_current_epoch E st). rewrite Hce.
        change (validators (st <| validators := ?x |>)) with x.
        destruct (ive_vals E _ ce i) as [vs|]; cbn [option_map].
        * rewrite (IH (with_validators _ vs)) by exact Hce. reflexivity.
        * rewrite !fold_left_none by reflexivity. reflexivity.
      + rewrite (IH (st <| validators := _ |>)) by exact Hce. reflexivity.
      + rewrite ive_state. rewrite Hce.
        destruct (ive_vals E _ ce i) as [vs|]; cbn [option_map].
        * rewrite (IH (with_validators _ vs)) by exact Hce. reflexivity.
        * rewrite !fold_left_none by reflexivity. reflexivity.
      + rewrite IH by exact Hce. reflexivity.
  Qed.
End SpecLoop.

(* ================= 4. structural form of the first part (eligibility + ejections) ================= *)
Section Struct.
  Variable E : Env.
  Notation c := (cfg E).

  Definition elig_cond (fl : FlatValidator) : bool :=
    (fl_activation_eligibility_epoch fl =? FAR_FUTURE_EPOCH) && (fl_effective_balance fl =? MAX_EFFECTIVE_BALANCE c).
  Definition eject_cond (ce : N) (fl : FlatValidator) : bool :=
    fl_is_active fl ce && (fl_effective_balance fl <=? EJECTION_BALANCE c) && (fl_exit_epoch fl =? FAR_FUTURE_EPOCH).

  Fixpoint eject_struct (ce limit : N) (flats : list FlatValidator) (vals : list Validator) (e ch : N) : list Validator :=
    match flats, vals with
    | fl :: flats', v :: vals' =>
        if eject_cond ce fl
        then set_exit E e v :: eject_struct ce limit flats' vals' (fst (next_queue limit e ch)) (snd (next_queue limit e ch))
        else v :: eject_struct ce limit flats' vals' e ch
    | _, _ => vals
    end.
  Fixpoint elig_struct (ce : N) (flats : list FlatValidator) (vals : list Validator) : list Validator :=
    match flats, vals with
    | fl :: flats', v :: vals' => (if elig_cond fl then set_elig (ce + 1) v else v) :: elig_struct ce flats' vals'
    | _, _ => vals
    end.

  Lemma elig_cond_flatten v : elig_cond (flatten v) = is_eligible_for_activation_queue E v.
  Proof. reflexivity. Qed.
  Lemma is_active_flatten v ce : fl_is_active (flatten v) ce = is_active_validator v ce.
  Proof. reflexivity. Qed.

  Lemma spec_loop_struct ce limit : forall vals pre e ch,
    churn_limit_of E (pre ++ vals) ce = limit ->
    qnorm limit (aee E ce) (map v_exit_epoch (pre ++ vals)) = (e, ch) ->
    aee E ce <= e -> e + N.of_nat (length vals) < max64 ->
    fold_left (reg_step_vals E ce) (seqN (N.of_nat (length pre)) (length vals)) (Some (pre ++ vals)) =
    Some (pre ++ elig_struct ce (map flatten vals) (eject_struct ce limit (map flatten vals) vals e ch)).
  Proof.
    induction vals as [|v vals IH]; intros pre e ch Hlim Hq Hae Hb.
    - reflexivity.
    - cbn [length seqN fold_left map eject_struct elig_struct]. unfold reg_step_vals at 2.
      rewrite nthN_app. cbn [length] in Hb.
      assert (Haee_nf : aee E ce <> FAR_FUTURE_EPOCH) by (rewrite FAR_is_max64; lia).
      assert (He_nf : e <> FAR_FUTURE_EPOCH) by (rewrite FAR_is_max64; lia).
      (* the eligibility update of validator |pre| *)
      set (v1 := if is_eligible_for_activation_queue E v then set_elig (ce + 1) v else v).
      assert (Hvals1 : (if is_eligible_for_activation_queue E v
                        then updN (pre ++ v :: vals) (N.of_nat (length pre)) (set_elig (ce + 1))
                        else pre ++ v :: vals) = pre ++ v1 :: vals).
      { unfold v1. destruct (is_eligible_for_activation_queue E v); [apply updN_app|reflexivity]. }
      rewrite Hvals1.
      assert (Hex1 : v_exit_epoch v1 = v_exit_epoch v) by (unfold v1; destruct (is_eligible_for_activation_queue E v); reflexivity).
      assert (Hact1 : forall x, is_active_validator v1 x = is_active_validator v x)
        by (intros x; unfold v1; destruct (is_eligible_for_activation_queue E v); reflexivity).
      assert (Hexits1 : map v_exit_epoch (pre ++ v1 :: vals) = map v_exit_epoch (pre ++ v :: vals)).
      { rewrite !map_app. cbn [map]. rewrite Hex1. reflexivity. }
      assert (Hlim1 : churn_limit_of E (pre ++ v1 :: vals) ce = limit).
      { rewrite <- Hlim. unfold churn_limit_of, active_count. rewrite !countN_app, !countN_cons, Hact1. reflexivity. }
      replace (N.of_nat (length pre) + 1) with (N.of_nat (length (pre ++ [v1]))) by (rewrite app_length; cbn [length]; lia).
      unfold eject_cond. rewrite is_active_flatten. cbn [fl_effective_balance fl_exit_epoch flatten].
      rewrite elig_cond_flatten. fold v1.
      destruct (is_active_validator v ce && (v_effective_balance v <=? EJECTION_BALANCE c)) eqn:Hcond; cbn [andb].
      + (* initiate_validator_exit *)
        unfold ive_vals. rewrite nthN_app. rewrite Hex1.
        destruct (N.eqb_spec (v_exit_epoch v) FAR_FUTURE_EPOCH) as [Hfar|Hnf]; cbn [negb].
        * (* ejected: receives the queue end *)
          assert (Htarget : exit_target E (pre ++ v1 :: vals) ce = e).
          { unfold exit_target. rewrite Hlim1, Hexits1, Hq. reflexivity. }
          rewrite Htarget, updN_app.
          replace (pre ++ set_exit E e v1 :: vals) with ((pre ++ [set_exit E e v1]) ++ vals) by (rewrite <- app_assoc; reflexivity).
          replace (length (pre ++ [v1])) with (length (pre ++ [set_exit E e v1])) by (rewrite !app_length; reflexivity).
          destruct (next_queue limit e ch) as [e' ch'] eqn:Hnq. cbn [fst snd].
          pose proof (next_queue_fst limit e ch) as Hfst. rewrite Hnq in Hfst. cbn [fst] in Hfst.
          apply andb_prop in Hcond. destruct Hcond as [Hactive _].
          rewrite (IH _ e' ch').
          -- rewrite <- app_assoc. cbn [app]. f_equal. f_equal. f_equal.
             unfold v1. destruct (is_eligible_for_activation_queue E v); reflexivity.
          -- rewrite <- app_assoc. cbn [app]. rewrite <- Hlim.
             unfold churn_limit_of, active_count. rewrite !countN_app, !countN_cons.
             replace (is_active_validator (set_exit E e v1) ce) with true; [rewrite Hactive; reflexivity|].
             unfold is_active_validator in *. cbn [set_exit v_activation_epoch v_exit_epoch set]. 
             change (v_activation_epoch (set_exit E e v1)) with (v_activation_epoch v1).
             change (v_exit_epoch (set_exit E e v1)) with e.
             replace (v_activation_epoch v1) with (v_activation_epoch v) by (unfold v1; destruct (is_eligible_for_activation_queue E v); reflexivity).
             apply andb_prop in Hactive. destruct Hactive as [Ha1 _]. rewrite Ha1. cbn [andb].
             unfold aee in Hae. symmetry. apply N.ltb_lt. lia.
          -- rewrite <- app_assoc. cbn [app]. rewrite map_app. cbn [map].
             change (v_exit_epoch (set_exit E e v1)) with e.
             rewrite <- Hnq. apply queue_step; try assumption.
             rewrite <- Hq. rewrite map_app. cbn [map]. rewrite Hfar. reflexivity.
          -- lia.
          -- lia.
        * (* already exiting: initiate_validator_exit is a no-op, and zrnt does not eject *)
          replace (pre ++ v1 :: vals) with ((pre ++ [v1]) ++ vals) by (rewrite <- app_assoc; reflexivity).
          rewrite (IH _ e ch).
          -- rewrite <- app_assoc. reflexivity.
          -- rewrite <- app_assoc. exact Hlim1.
          -- rewrite <- app_assoc. cbn [app]. rewrite Hexits1. exact Hq.
          -- exact Hae.
          -- lia.
      + replace (pre ++ v1 :: vals) with ((pre ++ [v1]) ++ vals) by (rewrite <- app_assoc; reflexivity).
        rewrite (IH _ e ch).
        -- rewrite <- app_assoc. reflexivity.
        -- rewrite <- app_assoc. exact Hlim1.
        -- rewrite <- app_assoc. cbn [app]. rewrite Hexits1. exact Hq.
        -- exact Hae.
        -- lia.
  Qed.
End Struct.

(* ================= 5. zrnt's loops in structural form ================= *)
Definition idx_where {A} (p : A -> bool) (k : N) (l : list A) : list N :=
  map fst (filter (fun ia => p (snd ia)) (indexed_from k l)).
Lemma idx_where_cons {A} (p : A -> bool) k x l :
  idx_where p k (x :: l) = if p x then k :: idx_where p (k + 1) l else idx_where p (k + 1) l.
Proof. unfold idx_where. cbn [indexed_from filter snd]. destruct (p x); reflexivity. Qed.
Lemma idx_where_nil {A} (p : A -> bool) k : idx_where p k [] = [].
Proof. reflexivity. Qed.
Lemma idx_where_bounds {A} (p : A -> bool) : forall (l : list A) k i,
  In i (idx_where p k l) -> k <= i < k + N.of_nat (length l) /\ exists x, nth_error l (N.to_nat (i - k)) = Some x /\ p x = true.
Proof.
  intros l k i Hin. unfold idx_where in Hin. apply in_map_iff in Hin. destruct Hin as [[j x] [Hfst Hin]].
  cbn [fst] in Hfst. subst j. apply filter_In in Hin. destruct Hin as [Hin Hp]. cbn [snd] in Hp.
  apply indexed_from_fst_bounds in Hin. destruct Hin as [Hb Hn]. split; [exact Hb|]. exists x. split; assumption.
Qed.

Section ImplStruct.
  Variable E : Env.
  Notation c := (cfg E).

  Definition maybe_cond (ce : N) (fl : FlatValidator) : bool :=
    (fl_activation_epoch fl =? FAR_FUTURE_EPOCH) && (fl_activation_eligibility_epoch fl <=? ce).

  (* the first loop of ComputeRegistryProcessData *)
  Lemma scan_gen ce : forall l k acc,
    sa_active acc + N.of_nat (length l) < two64 ->
    fold_left (scan_step c ce) (indexed_from k l) acc =
    mkScan (sa_active acc + countN (fun fl => fl_is_active fl ce) l)
           (sa_elig acc ++ idx_where (elig_cond E) k l)
           (sa_maybe acc ++ idx_where (maybe_cond ce) k l)
           (sa_eject acc ++ idx_where (eject_cond E ce) k l).
  Proof.
    induction l as [|fl l IH]; intros k acc Hb.
    - cbn [fold_left indexed_from]. rewrite !idx_where_nil, !app_nil_r, countN_nil, N.add_0_r. destruct acc; reflexivity.
    - cbn [indexed_from fold_left]. cbn [length] in Hb. rewrite IH.
      + unfold scan_step. cbn [sa_active sa_elig sa_maybe sa_eject]. rewrite !idx_where_cons, countN_cons.
        unfold elig_cond, maybe_cond, eject_cond.
        destruct (fl_is_active fl ce); [rewrite add64_small by lia|]; cbn [andb];
        repeat match goal with |- context [if ?b then _ else _] => destruct b end;
        rewrite <- ?app_assoc; cbn [app]; f_equal; lia.
      + unfold scan_step. cbn [sa_active]. destruct (fl_is_active fl ce); [rewrite add64_small by lia|]; lia.
  Qed.
  Lemma scan_spec ce flats :
    N.of_nat (length flats) < two64 ->
    scan c flats ce = mkScan (countN (fun fl => fl_is_active fl ce) flats) (idx_where (elig_cond E) 0 flats)
                             (idx_where (maybe_cond ce) 0 flats) (idx_where (eject_cond E ce) 0 flats).
  Proof. intros H. unfold scan, indexed. rewrite scan_gen by (cbn [sa_active]; lia). reflexivity. Qed.

  (* "process ejections" *)
  Lemma eject_fold_struct ce limit : forall flats vals pre e ch,
    length flats = length vals ->
    e + N.of_nat (length flats) + MIN_VALIDATOR_WITHDRAWABILITY_DELAY c < two64 ->
    ch + N.of_nat (length flats) < two64 ->
    exists e' ch',
      fold_left (eject_step c limit) (idx_where (eject_cond E ce) (N.of_nat (length pre)) flats) (Some (pre ++ vals, e, ch)) =
      Some (pre ++ eject_struct E ce limit flats vals e ch, e', ch').
  Proof.
    induction flats as [|fl flats IH]; intros vals pre e ch Hlen He Hch.
    - exists e, ch. destruct vals; reflexivity.
    - destruct vals as [|v vals]; [discriminate|]. cbn [length] in *.
      rewrite idx_where_cons. cbn [eject_struct].
      replace (N.of_nat (length pre) + 1) with (N.of_nat (length (pre ++ [v]))) by (rewrite app_length; cbn [length]; lia).
      destruct (eject_cond E ce fl).
      + cbn [fold_left]. unfold eject_step at 2. rewrite nthN_app.
        rewrite (add64_small e (MIN_VALIDATOR_WITHDRAWABILITY_DELAY c)) by lia.
        destruct (N.ltb_spec (e + MIN_VALIDATOR_WITHDRAWABILITY_DELAY c) e) as [Hlt|_]; [lia|].
        rewrite updN_app. rewrite (add64_small ch 1) by lia.
        unfold next_queue.
        replace (length (pre ++ [v])) with (length (pre ++ [set_exit E e v])) by (rewrite !app_length; reflexivity).
        destruct (limit <=? ch + 1); cbn [fst snd].
        * rewrite (add64_small e 1) by lia.
          destruct (IH vals (pre ++ [set_exit E e v]) (e + 1) 0) as [e' [ch' H]]; try lia.
          exists e', ch'. rewrite <- !app_assoc in H. cbn [app] in H. exact H.
        * destruct (IH vals (pre ++ [set_exit E e v]) e (ch + 1)) as [e' [ch' H]]; try lia.
          exists e', ch'. rewrite <- !app_assoc in H. cbn [app] in H. exact H.
      + destruct (IH vals (pre ++ [v]) e ch) as [e' [ch' H]]; try lia.
        exists e', ch'. rewrite <- !app_assoc in H. cbn [app] in H. exact H.
  Qed.

  (* "Process activation eligibility" *)
  Lemma elig_fold_struct ce ee : forall flats vals pre,
    length flats = length vals -> ee = ce + 1 ->
    fold_left (elig_step ee) (idx_where (elig_cond E) (N.of_nat (length pre)) flats) (Some (pre ++ vals)) =
    Some (pre ++ elig_struct E ce flats vals).
  Proof.
    induction flats as [|fl flats IH]; intros vals pre Hlen Hce.
    - destruct vals; reflexivity.
    - destruct vals as [|v vals]; [discriminate|]. cbn [length] in *.
      rewrite idx_where_cons. cbn [elig_struct].
      replace (N.of_nat (length pre) + 1) with (N.of_nat (length (pre ++ [v]))) by (rewrite app_length; cbn [length]; lia).
      destruct (elig_cond E fl).
      + cbn [fold_left]. unfold elig_step at 2. rewrite nthN_app, updN_app.
        replace (length (pre ++ [v])) with (length (pre ++ [set_elig (ce + 1) v])) by (rewrite !app_length; reflexivity).
        replace (pre ++ (v <| v_activation_eligibility_epoch := ee |>) :: vals)
          with ((pre ++ [set_elig (ce + 1) v]) ++ vals) by (rewrite <- app_assoc, Hce; reflexivity).
        rewrite IH by (try lia). rewrite <- app_assoc. reflexivity.
      + replace (pre ++ v :: vals) with ((pre ++ [v]) ++ vals) at 1 by (rewrite <- app_assoc; reflexivity).
        rewrite IH by (try lia). rewrite <- app_assoc. reflexivity.
  Qed.
End ImplStruct.

(* ================= 6. hypotheses on the numbers, and ComputeRegistryProcessData in closed form ================= *)
(* No epoch computed by either side reaches 2^64-1 (= FAR_FUTURE_EPOCH), no counter wraps, and Go does not divide by zero. *)
Record RegBounds (c : Config) (ce : N) (vals : list Validator) : Prop := mkRegBounds {
  rb_quot : CHURN_LIMIT_QUOTIENT c <> 0;
  rb_count : 2 * N.of_nat (length vals) < two64;
  rb_epoch : ce + 1 + MAX_SEED_LOOKAHEAD c + N.of_nat (length vals) + 1 + MIN_VALIDATOR_WITHDRAWABILITY_DELAY c < max64;
  rb_exits : forall v, In v vals ->
     v_exit_epoch v = FAR_FUTURE_EPOCH \/
     v_exit_epoch v + N.of_nat (length vals) + 1 + MIN_VALIDATOR_WITHDRAWABILITY_DELAY c < max64 }.

Section RegData.
  Variable E : Env.
  Notation c := (cfg E).

  Lemma qmax_bound ce vals K :
    aee E ce + K < max64 ->
    (forall v, In v vals -> v_exit_epoch v = FAR_FUTURE_EPOCH \/ v_exit_epoch v + K < max64) ->
    qmax (aee E ce) (map v_exit_epoch vals) + K < max64.
  Proof.
    intros Ha Hv. unfold qmax. destruct (maxl_in (nonfar (map v_exit_epoch vals)) (aee E ce)) as [->|Hin]; [exact Ha|].
    unfold nonfar in Hin at 2. apply filter_In in Hin. destruct Hin as [Hin Hnf].
    apply in_map_iff in Hin. destruct Hin as [v [Hv1 Hv2]]. destruct (Hv v Hv2) as [Hfar|Hb].
    - rewrite <- Hv1, Hfar in Hnf. discriminate.
    - rewrite <- Hv1. exact Hb.
  Qed.

  Lemma qnorm_bounds ce vals limit e ch :
    RegBounds c ce vals ->
    qnorm limit (aee E ce) (map v_exit_epoch vals) = (e, ch) ->
    aee E ce <= e /\ e + N.of_nat (length vals) + MIN_VALIDATOR_WITHDRAWABILITY_DELAY c < max64 /\ ch <= N.of_nat (length vals).
  Proof.
    intros HB Hq. pose proof (qnorm_fst_ge limit (aee E ce) (map v_exit_epoch vals)) as H1.
    pose proof (qnorm_snd_le limit (aee E ce) (map v_exit_epoch vals)) as H2. rewrite Hq in H1, H2. cbn [fst snd] in *.
    rewrite map_length in H2. split; [exact H1|]. split; [|exact H2].
    pose proof (qmax_bound ce vals (N.of_nat (length vals) + 1 + MIN_VALIDATOR_WITHDRAWABILITY_DELAY c)) as Hm.
    destruct HB as [_ _ Hep Hex]. unfold aee in Hm at 1.
    assert (Hmm : qmax (aee E ce) (map v_exit_epoch vals) + (N.of_nat (length vals) + 1 + MIN_VALIDATOR_WITHDRAWABILITY_DELAY c) < max64).
    { apply Hm; [lia|]. intros v Hv. destruct (Hex v Hv) as [H|H]; [left; exact H|right; lia]. }
    unfold qnorm in Hq. destruct (limit <=? _); inversion Hq; subst; lia.
  Qed.

  Lemma active_count_flats vals ce :
    countN (fun fl => fl_is_active fl ce) (map flatten vals) = active_count vals ce.
  Proof. unfold active_count. rewrite countN_map. reflexivity. Qed.
  Lemma exits_flats vals : map fl_exit_epoch (map flatten vals) = map v_exit_epoch vals.
  Proof. rewrite map_map. reflexivity. Qed.

  Lemma compute_rd_spec ce vals :
    RegBounds c ce vals ->
    let flats := map flatten vals in
    let limit := churn_limit_of E vals ce in
    compute_registry_process_data c flats ce =
    Some (mkRegData (idx_where (elig_cond E) 0 flats) (sort_idx flats (idx_where (maybe_cond ce) 0 flats))
                    (idx_where (eject_cond E ce) 0 flats)
                    (fst (qnorm limit (aee E ce) (map v_exit_epoch vals)))
                    (snd (qnorm limit (aee E ce) (map v_exit_epoch vals))) limit).
  Proof.
    intros HB flats limit.
    destruct (qnorm limit (aee E ce) (map v_exit_epoch vals)) as [e ch] eqn:Hq.
    pose proof (qnorm_bounds ce vals limit e ch HB Hq) as [Hb1 [Hb2 Hb3]].
    destruct HB as [Hquot Hcount Hep Hex].
    assert (Hlen : N.of_nat (length flats) < two64) by (unfold flats; rewrite map_length; lia).
    assert (Hac : countN (fun fl => fl_is_active fl ce) flats = active_count vals ce) by apply active_count_flats.
    assert (Hnf : nonfar_exits flats = nonfar (map v_exit_epoch vals)).
    { unfold nonfar_exits, flats. rewrite exits_flats. reflexivity. }
    assert (Hex' : forall q, exits_at q flats = qcnt q (map v_exit_epoch vals)).
    { intros q. unfold exits_at, qcnt, flats. rewrite <- exits_flats, !countN_map. reflexivity. }
    unfold compute_registry_process_data, compute_registry_process_data_with.
    rewrite scan_spec by exact Hlen. cbn [sa_active sa_elig sa_maybe sa_eject].
    pose proof (exit_scan_spec c flats ce ltac:(lia) Hlen) as Hscan. cbv zeta in Hscan.
    rewrite Hscan, Hnf, Hex', Hac. clear Hscan.
    unfold churn_limit_go. destruct (N.eqb_spec (CHURN_LIMIT_QUOTIENT c) 0) as [H0|_]; [contradiction|].
    fold (churn_limit_of E vals ce). fold limit. fold (aee E ce). fold (qmax (aee E ce) (map v_exit_epoch vals)).
    unfold qnorm in Hq. cbn [fst snd].
    destruct (limit <=? qcnt (qmax (aee E ce) (map v_exit_epoch vals)) (map v_exit_epoch vals)); inversion Hq; subst e ch.
    - destruct (N.eqb_spec (qmax (aee E ce) (map v_exit_epoch vals)) max64) as [Hm|_]; [lia|].
      rewrite add64_small by (rewrite two64_val; rewrite max64_val in Hb2; lia). reflexivity.
    - reflexivity.
  Qed.
End RegData.

(* ================= 7. eject_batch_refines ================= *)
Section EjectBatch.
  Variable E : Env.
  Notation c := (cfg E).

  (* iterated initiate_validator_exit, on validator lists *)
  Definition ive_iter_step (ce : N) (acc : option (list Validator)) (i : N) : option (list Validator) :=
    match acc with None => None | Some vs => ive_vals E vs ce i end.

  Lemma is_active_set_exit e v ce :
    v_exit_epoch v = FAR_FUTURE_EPOCH -> ce < max64 -> ce < e ->
    is_active_validator (set_exit E e v) ce = is_active_validator v ce.
  Proof.
    intros Hfar Hce He. unfold is_active_validator.
    change (v_activation_epoch (set_exit E e v)) with (v_activation_epoch v).
    change (v_exit_epoch (set_exit E e v)) with e. rewrite Hfar, FAR_is_max64.
    f_equal. destruct (N.ltb_spec ce e), (N.ltb_spec ce max64); try reflexivity; lia.
  Qed.

  (* The loop invariant: zrnt's running (exitEnd, endChurn) is `qnorm` of the current validator list, i.e. exactly
     what initiate_validator_exit would compute from scratch; the churn limit does not move. *)
  Lemma ive_iter_struct ce limit : forall vals pre e ch,
    churn_limit_of E (pre ++ vals) ce = limit ->
    qnorm limit (aee E ce) (map v_exit_epoch (pre ++ vals)) = (e, ch) ->
    aee E ce <= e -> e + N.of_nat (length vals) < max64 ->
    fold_left (ive_iter_step ce) (idx_where (eject_cond E ce) (N.of_nat (length pre)) (map flatten vals)) (Some (pre ++ vals)) =
    Some (pre ++ eject_struct E ce limit (map flatten vals) vals e ch).
  Proof.
    induction vals as [|v vals IH]; intros pre e ch Hlim Hq Hae Hb.
    - reflexivity.
    - cbn [map length eject_struct] in *. rewrite idx_where_cons.
      assert (Haee_nf : aee E ce <> FAR_FUTURE_EPOCH) by (rewrite FAR_is_max64; lia).
      assert (He_nf : e <> FAR_FUTURE_EPOCH) by (rewrite FAR_is_max64; lia).
      replace (N.of_nat (length pre) + 1) with (N.of_nat (length (pre ++ [v]))) by (rewrite app_length; cbn [length]; lia).
      destruct (eject_cond E ce (flatten v)) eqn:Hcond.
      + unfold eject_cond in Hcond. apply andb_prop in Hcond. destruct Hcond as [_ Hfar].
        cbn [flatten fl_exit_epoch] in Hfar. apply N.eqb_eq in Hfar.
        cbn [fold_left]. unfold ive_iter_step at 2, ive_vals. rewrite nthN_app, Hfar, N.eqb_refl. cbn [negb].
        assert (Htarget : exit_target E (pre ++ v :: vals) ce = e) by (unfold exit_target; rewrite Hlim, Hq; reflexivity).
        rewrite Htarget, updN_app.
        replace (pre ++ set_exit E e v :: vals) with ((pre ++ [set_exit E e v]) ++ vals) by (rewrite <- app_assoc; reflexivity).
        replace (length (pre ++ [v])) with (length (pre ++ [set_exit E e v])) by (rewrite !app_length; reflexivity).
        destruct (next_queue limit e ch) as [e' ch'] eqn:Hnq. cbn [fst snd].
        pose proof (next_queue_fst limit e ch) as Hfst. rewrite Hnq in Hfst. cbn [fst] in Hfst.
        rewrite (IH _ e' ch').
        * rewrite <- app_assoc. reflexivity.
        * rewrite <- app_assoc. cbn [app]. rewrite <- Hlim.
          unfold churn_limit_of, active_count. rewrite !countN_app, !countN_cons.
          rewrite is_active_set_exit; [reflexivity|exact Hfar|unfold aee in Hae; lia|unfold aee in Hae; lia].
        * rewrite <- app_assoc. cbn [app]. rewrite map_app. cbn [map].
          change (v_exit_epoch (set_exit E e v)) with e.
          rewrite <- Hnq. apply queue_step; try assumption.
          rewrite <- Hq. rewrite map_app. cbn [map]. rewrite Hfar. reflexivity.
        * lia.
        * lia.
      + replace (pre ++ v :: vals) with ((pre ++ [v]) ++ vals) by (rewrite <- app_assoc; reflexivity).
        rewrite (IH _ e ch).
        * rewrite <- app_assoc. reflexivity.
        * rewrite <- app_assoc. exact Hlim.
        * rewrite <- app_assoc. exact Hq.
        * exact Hae.
        * lia.
  Qed.

  (* zrnt's batch, in closed form *)
  Lemma eject_batch_struct ce vals :
    RegBounds c ce vals ->
    let limit := churn_limit_of E vals ce in
    let q := qnorm limit (aee E ce) (map v_exit_epoch vals) in
    forall rd, compute_registry_process_data c (map flatten vals) ce = Some rd ->
    eject_batch c rd vals = Some (eject_struct E ce limit (map flatten vals) vals (fst q) (snd q)).
  Proof.
    intros HB limit q rd Hrd. rewrite (compute_rd_spec E ce vals HB) in Hrd. inversion Hrd; subst rd; clear Hrd.
    unfold eject_batch. cbn [rd_churn_limit rd_to_eject rd_exit_queue_end rd_exit_queue_end_churn].
    fold limit. fold q. destruct q as [e ch] eqn:Hq. cbn [fst snd].
    pose proof (qnorm_bounds E ce vals limit e ch HB Hq) as [Hb1 [Hb2 Hb3]].
    destruct HB as [_ Hcount _ _].
    destruct (eject_fold_struct E ce limit (map flatten vals) vals [] e ch) as [e' [ch' H]].
    - apply map_length.
    - rewrite map_length. rewrite max64_val in Hb2. rewrite two64_val. lia.
    - rewrite map_length. lia.
    - cbn [app length N.of_nat] in H. rewrite H. reflexivity.
  Qed.

  (* eject_batch_refines: zrnt's batched ejection (one pre-computed queue end and churn, advanced by a counter)
     equals iterating the spec's initiate_validator_exit over the same indices, each call recomputing the queue
     from the whole registry. *)
  Theorem eject_batch_refines (st : BeaconState) :
    let ce := get_current_epoch E st in
    RegBounds c ce (validators st) ->
    forall rd, compute_registry_process_data c (flatten_validators (validators st)) ce = Some rd ->
    exists vals',
      eject_batch c rd (validators st) = Some vals' /\
      fold_left (fun acc i => st <- acc ;; initiate_validator_exit E st i) (rd_to_eject rd) (Some st)
      = Some (with_validators st vals').
  Proof.
    intros ce HB rd Hrd. unfold flatten_validators in Hrd.
    pose proof (eject_batch_struct ce (validators st) HB rd Hrd) as Hbatch. cbv zeta in Hbatch.
    eexists. split; [exact Hbatch|].
    rewrite (compute_rd_spec E ce _ HB) in Hrd. inversion Hrd; subst rd; clear Hrd. cbn [rd_to_eject].
    set (limit := churn_limit_of E (validators st) ce).
    destruct (qnorm limit (aee E ce) (map v_exit_epoch (validators st))) as [e ch] eqn:Hq. cbn [fst snd].
    pose proof (qnorm_bounds E ce _ limit e ch HB Hq) as [Hb1 [Hb2 Hb3]].
    pose proof (ive_iter_struct ce limit (validators st) [] e ch eq_refl Hq Hb1 ltac:(lia)) as Hiter.
    cbn [app length N.of_nat] in Hiter.
    (* states <-> validator lists *)
    assert (Hgen : forall l s, get_current_epoch E s = ce ->
              fold_left (fun acc i => st <- acc ;; initiate_validator_exit E st i) l (Some s) =
              option_map (with_validators s) (fold_left (ive_iter_step ce) l (Some (validators s)))).
    { induction l as [|i l IHl]; intros s Hs.
      - cbn [fold_left option_map]. rewrite with_validators_id. reflexivity.
      - cbn [fold_left]. rewrite ive_state, Hs. unfold ive_iter_step at 2.
        destruct (ive_vals E (validators s) ce i) as [vs|]; cbn [option_map].
        + rewrite (IHl (with_validators s vs)) by exact Hs. reflexivity.
        + rewrite !fold_left_none by reflexivity. reflexivity. }
    rewrite Hgen by reflexivity. rewrite Hiter. reflexivity.
  Qed.
End EjectBatch.

(* ================= 8. the activation queue ================= *)
Section Sorting.
  Variable flats : list FlatValidator.
  Notation kf := (elig_of flats).
  Notation less := (act_less flats).

  Lemma act_less_spec a b : less a b = true <-> (kf a < kf b \/ (kf a = kf b /\ a < b)).
  Proof.
    unfold act_less. destruct (N.eqb_spec (kf a) (kf b)) as [He|Hne].
    - rewrite N.ltb_lt. lia.
    - rewrite N.ltb_lt. lia.
  Qed.
  Lemma act_less_false a b : less a b = false <-> (kf b < kf a \/ (kf a = kf b /\ b <= a)).
  Proof.
    pose proof (act_less_spec a b) as H. destruct (less a b).
    - split; [discriminate|]. intros H1. assert (true = true) as H2 by reflexivity. apply H in H2. lia.
    - split; [|reflexivity]. intros _.
      destruct (N.lt_trichotomy (kf a) (kf b)) as [H1|[H1|H1]]; [|destruct (N.lt_ge_cases a b)|];
        try (right; lia); try (left; lia); exfalso; assert (false = true) by (apply H; lia); discriminate.
  Qed.

  (* sortedness w.r.t. the non-strict order  le a b := not (less b a) *)
  Fixpoint ssorted (l : list N) : Prop :=
    match l with [] => True | a :: l' => (forall z, In z l' -> less z a = false) /\ ssorted l' end.

  Lemma insert_idx_in x l z : In z (insert_idx flats x l) -> z = x \/ In z l.
  Proof.
    induction l as [|y l IH]; cbn [insert_idx].
    - intros [H|[]]. left. symmetry. exact H.
    - destruct (less x y).
      + intros [H|H]; [left; symmetry; exact H|right; exact H].
      + intros [H|H]; [right; left; exact H|]. destruct (IH H) as [H1|H1]; [left; exact H1|right; right; exact H1].
  Qed.
  Lemma insert_idx_sorted x l : ssorted l -> ssorted (insert_idx flats x l).
  Proof.
    induction l as [|y l IH]; intros Hs; cbn [insert_idx].
    - cbn [ssorted]. split; [intros z []|exact I].
    - destruct Hs as [Hy Hs]. destruct (less x y) eqn:Hxy.
      + cbn [ssorted]. split; [|split; assumption].
        intros z [Hz|Hz].
        * subst z. apply act_less_spec in Hxy. apply act_less_false. lia.
        * specialize (Hy z Hz). apply act_less_spec in Hxy. apply act_less_false in Hy. apply act_less_false. lia.
      + cbn [ssorted]. split; [|apply IH; exact Hs].
        intros z Hz. apply insert_idx_in in Hz. destruct Hz as [->|Hz]; [|apply Hy; exact Hz].
        apply act_less_false in Hxy. apply act_less_false. lia.
  Qed.
  Lemma sort_idx_sorted l : ssorted (sort_idx flats l).
  Proof. induction l as [|x l IH]; cbn [sort_idx fold_right]; [exact I|]. apply insert_idx_sorted. exact IH. Qed.

  (* filtering by a predicate commutes with insertion into a sorted list *)
  Lemma filter_insert_idx (p : N -> bool) x l :
    ssorted l ->
    filter p (insert_idx flats x l) = if p x then insert_idx flats x (filter p l) else filter p l.
  Proof.
    induction l as [|y l IH]; intros Hs.
    - cbn [insert_idx filter]. destruct (p x); reflexivity.
    - destruct Hs as [Hy Hs]. cbn [insert_idx]. destruct (less x y) eqn:Hxy.
      + cbn [filter]. destruct (p x) eqn:Hpx; [|reflexivity]. destruct (p y) eqn:Hpy.
        * cbn [insert_idx]. rewrite Hxy. reflexivity.
        * (* x goes in front of whatever survives of l *)
          assert (Hfront : forall l', (forall z, In z l' -> less z y = false) -> insert_idx flats x (filter p l') = x :: filter p l').
          { intros l' Hl'. destruct (filter p l') as [|z r] eqn:Hf; [reflexivity|].
            cbn [insert_idx]. assert (Hz : In z l').
            { assert (In z (filter p l')) by (rewrite Hf; left; reflexivity). apply filter_In in H. apply H. }
            specialize (Hl' z Hz). apply act_less_false in Hl'. apply act_less_spec in Hxy.
            assert (Hxz : less x z = true) by (apply act_less_spec; lia). rewrite Hxz. reflexivity. }
          rewrite Hfront by exact Hy. reflexivity.
      + cbn [filter]. rewrite (IH Hs). destruct (p y) eqn:Hpy; destruct (p x) eqn:Hpx; try reflexivity.
        cbn [insert_idx]. rewrite Hxy. reflexivity.
  Qed.
  Lemma filter_sort_idx (p : N -> bool) l : filter p (sort_idx flats l) = sort_idx flats (filter p l).
  Proof.
    induction l as [|x l IH]; [reflexivity|]. cbn [sort_idx fold_right filter].
    rewrite filter_insert_idx by apply sort_idx_sorted. fold (sort_idx flats l). rewrite IH.
    destruct (p x); reflexivity.
  Qed.

  (* in a sorted list, the entries with eligibility epoch <= fin form a prefix *)
  Lemma filter_takeWhile_sorted fin l :
    ssorted l -> filter (fun i => kf i <=? fin) l = takeWhile (fun i => kf i <=? fin) l.
  Proof.
    induction l as [|a l IH]; intros Hs; [reflexivity|]. destruct Hs as [Ha Hs]. cbn [filter takeWhile].
    destruct (N.leb_spec (kf a) fin) as [Hle|Hgt]; [f_equal; apply IH; exact Hs|].
    clear IH. induction l as [|z l IHl]; [reflexivity|]. cbn [filter].
    pose proof (Ha z (or_introl eq_refl)) as Hz. apply act_less_false in Hz.
    destruct (N.leb_spec (kf z) fin); [lia|]. apply IHl.
    - intros w Hw. apply Ha. right. exact Hw.
    - destruct Hs as [_ Hs]. exact Hs.
  Qed.
End Sorting.

Lemma cut_firstn {A} (l : list A) limit : cut l limit = firstn (N.to_nat limit) l.
Proof.
  unfold cut. destruct (N.ltb_spec limit (N.of_nat (length l))) as [H|H]; [reflexivity|].
  rewrite firstn_all2 by lia. reflexivity.
Qed.

(* activation_queue_prefix: zrnt sorts every not-yet-activated validator whose eligibility epoch is <= the current
   epoch, cuts the list at the churn limit and stops at the first entry whose eligibility epoch exceeds the
   finalized epoch.  The spec filters by eligibility epoch <= finalized epoch first, sorts, then cuts.
   Both give the same list whenever finalized epoch <= current epoch. *)
Theorem activation_queue_prefix (flats : list FlatValidator) (ce fin limit : N) :
  fin <= ce ->
  let fin_cond fl := (fl_activation_epoch fl =? FAR_FUTURE_EPOCH) && (fl_activation_eligibility_epoch fl <=? fin) in
  takeWhile (fun i => elig_of flats i <=? fin) (cut (sort_idx flats (idx_where (maybe_cond ce) 0 flats)) limit)
  = firstn (N.to_nat limit) (sort_idx flats (idx_where fin_cond 0 flats)).
Proof.
  intros Hfin fin_cond. rewrite cut_firstn, takeWhile_firstn. f_equal.
  rewrite <- filter_takeWhile_sorted by apply sort_idx_sorted. rewrite filter_sort_idx. f_equal.
  (* the index lists *)
  unfold idx_where.
  assert (Hgen : forall l pre, flats = pre ++ l ->
     filter (fun i => match nthN flats i with Some fl => fl_activation_eligibility_epoch fl | None => 0 end <=? fin)
       (map fst (filter (fun ia => maybe_cond ce (snd ia)) (indexed_from (N.of_nat (length pre)) l))) =
     map fst (filter (fun ia => fin_cond (snd ia)) (indexed_from (N.of_nat (length pre)) l))).
  { induction l as [|fl l IH]; intros pre Hfl; [reflexivity|].
    cbn [indexed_from filter snd]. 
    replace (N.of_nat (length pre) + 1) with (N.of_nat (length (pre ++ [fl]))) by (rewrite app_length; cbn [length]; lia).
    assert (IH' := IH (pre ++ [fl])). rewrite <- app_assoc in IH'. specialize (IH' Hfl).
    unfold maybe_cond at 1, fin_cond at 1.
    destruct (fl_activation_epoch fl =? FAR_FUTURE_EPOCH); cbn [andb]; [|exact IH'].
    destruct (N.leb_spec (fl_activation_eligibility_epoch fl) ce) as [Hle|Hgt].
    - cbn [map filter fst]. rewrite Hfl at 1. rewrite nthN_app.
      destruct (fl_activation_eligibility_epoch fl <=? fin); [cbn [map fst]; f_equal|]; exact IH'.
    - destruct (N.leb_spec (fl_activation_eligibility_epoch fl) fin) as [Hle2|_]; [lia|]. exact IH'. }
  exact (Hgen flats [] eq_refl).
Qed.

(* ---- the spec's queue (insert_by on keyed triples) is the same insertion sort ---- *)
Section SpecQueue.
  Variable flats : list FlatValidator.
  Definition keyed (i : N) : N * N * N := ((elig_of flats i, i), i).

  Lemma insert_by_keyed x l : insert_by (elig_of flats x, x) x (map keyed l) = map keyed (insert_idx flats x l).
  Proof.
    induction l as [|y l IH]; [reflexivity|]. cbn [map insert_by insert_idx]. unfold keyed at 1. cbn [fst snd].
    unfold act_less.
    assert (Hcmp : (elig_of flats x <? elig_of flats y) || ((elig_of flats x =? elig_of flats y) && (x <? y)) =
                   (if elig_of flats x =? elig_of flats y then x <? y else elig_of flats x <? elig_of flats y)).
    { destruct (N.eqb_spec (elig_of flats x) (elig_of flats y)) as [He|Hne]; cbn [andb].
      - rewrite He, N.ltb_irrefl. reflexivity.
      - rewrite orb_false_r. reflexivity. }
    rewrite Hcmp. destruct (if elig_of flats x =? elig_of flats y then x <? y else elig_of flats x <? elig_of flats y).
    - reflexivity.
    - cbn [map]. f_equal. exact IH.
  Qed.

  (* snapshot entry vs current validator, as far as the activation queue can tell *)
  Definition queue_rel (fin : N) (fl : FlatValidator) (v : Validator) : Prop :=
    v_activation_epoch v = fl_activation_epoch fl /\
    (v_activation_eligibility_epoch v <=? fin) = (fl_activation_eligibility_epoch fl <=? fin) /\
    (fl_activation_eligibility_epoch fl <= fin -> v_activation_eligibility_epoch v = fl_activation_eligibility_epoch fl).

  Definition fin_cond (fin : N) (fl : FlatValidator) : bool :=
    (fl_activation_epoch fl =? FAR_FUTURE_EPOCH) && (fl_activation_eligibility_epoch fl <=? fin).

  Lemma spec_queue_keyed fin : forall fls vls pre,
    flats = pre ++ fls -> Forall2 (queue_rel fin) fls vls ->
    fold_right (fun (iv : N * Validator) acc =>
        let '(i, v) := iv in
        if (v_activation_eligibility_epoch v <=? fin) && (v_activation_epoch v =? FAR_FUTURE_EPOCH)
        then insert_by (v_activation_eligibility_epoch v, i) i acc else acc)
      [] (indexed_from (N.of_nat (length pre)) vls)
    = map keyed (sort_idx flats (idx_where (fin_cond fin) (N.of_nat (length pre)) fls)).
  Proof.
    intros fls vls pre Hfl HF. revert pre Hfl. induction HF as [|fl v fls vls Hrel HF IH]; intros pre Hfl.
    - reflexivity.
    - cbn [indexed_from fold_right]. rewrite idx_where_cons.
      replace (N.of_nat (length pre) + 1) with (N.of_nat (length (pre ++ [fl]))) by (rewrite app_length; cbn [length]; lia).
      assert (IH' := IH (pre ++ [fl])). rewrite <- app_assoc in IH'. specialize (IH' Hfl). rewrite IH'. clear IH IH'.
      destruct Hrel as [Hact [Hle Heq]].
      assert (Hc : (v_activation_eligibility_epoch v <=? fin) && (v_activation_epoch v =? FAR_FUTURE_EPOCH) = fin_cond fin fl).
      { unfold fin_cond. rewrite Hact, Hle. apply andb_comm. }
      rewrite Hc. destruct (fin_cond fin fl) eqn:Hfc; [|reflexivity].
      unfold fin_cond in Hfc. apply andb_prop in Hfc. destruct Hfc as [_ Hfin]. apply N.leb_le in Hfin.
      cbn [sort_idx fold_right]. rewrite <- insert_by_keyed. f_equal. rewrite (Heq Hfin).
      unfold elig_of. rewrite Hfl at 1. rewrite nthN_app. reflexivity.
  Qed.
End SpecQueue.

Lemma map_snd_keyed flats l : map snd (map (keyed flats) l) = l.
Proof. rewrite map_map. cbn [keyed snd]. apply map_id. Qed.

(* ---- the activation loop with the early break ---- *)
Section Activate.
  Variable flats : list FlatValidator.
  Lemma activate_loop_takeWhile fin ae : forall l vals,
    length vals = length flats ->
    (forall i, In i l -> i < N.of_nat (length flats)) ->
    activate_loop flats fin ae l vals =
    Some (fold_left (fun vs i => updN vs i (set_act ae)) (takeWhile (fun i => elig_of flats i <=? fin) l) vals).
  Proof.
    induction l as [|i l IH]; intros vals Hlen Hin; [reflexivity|].
    cbn [activate_loop takeWhile]. unfold elig_of.
    assert (Hi : i < N.of_nat (length flats)) by (apply Hin; left; reflexivity).
    rewrite !nthN_nth_error. destruct (nth_error flats (N.to_nat i)) as [fl|] eqn:Hfl.
    2:{ apply nth_error_None in Hfl. lia. }
    destruct (N.ltb_spec fin (fl_activation_eligibility_epoch fl)) as [Hlt|Hge].
    - destruct (N.leb_spec (fl_activation_eligibility_epoch fl) fin); [lia|]. reflexivity.
    - destruct (N.leb_spec (fl_activation_eligibility_epoch fl) fin); [|lia].
      destruct (nth_error vals (N.to_nat i)) as [v|] eqn:Hv.
      2:{ apply nth_error_None in Hv. lia. }
      cbn [fold_left]. apply IH.
      + rewrite updN_length. exact Hlen.
      + intros j Hj. apply Hin. right. exact Hj.
  Qed.
End Activate.

(* ================= 9. assembling registry_refines ================= *)
Lemma In_firstn {A} (x : A) : forall n l, In x (firstn n l) -> In x l.
Proof.
  induction n as [|n IH]; intros l H; [destruct H|].
  destruct l as [|y l]; [destruct H|]. cbn [firstn] in H. destruct H as [H|H].
  - left. exact H.
  - right. apply IH. exact H.
Qed.
Lemma sort_idx_in flats x l : In x (sort_idx flats l) -> In x l.
Proof.
  induction l as [|y l IH]; cbn [sort_idx fold_right]; [intros []|].
  intros H. apply insert_idx_in in H. destruct H as [->|H]; [left; reflexivity|right; apply IH; exact H].
Qed.

Section Assemble.
  Variable E : Env.
  Variable f : fork.
  Notation c := (cfg E).

  Lemma eject_struct_length ce limit : forall flats vals e ch,
    length (eject_struct E ce limit flats vals e ch) = length vals.
  Proof.
    induction flats as [|fl flats IH]; intros [|v vals] e ch; cbn [eject_struct length]; try reflexivity.
    destruct (eject_cond E ce fl); cbn [length]; rewrite IH; reflexivity.
  Qed.
  Lemma elig_struct_length ce : forall flats vals, length (elig_struct E ce flats vals) = length vals.
  Proof.
    induction flats as [|fl flats IH]; intros [|v vals]; cbn [elig_struct length]; try reflexivity.
    rewrite IH. reflexivity.
  Qed.

  (* what the first part leaves of each validator, as seen from the snapshot *)
  Lemma struct_rel ce fin limit :
    fin <= ce -> ce < max64 ->
    forall vals e ch, ce < e ->
    Forall2 (fun fl v => queue_rel fin fl v /\ is_active_validator v ce = fl_is_active fl ce)
            (map flatten vals)
            (elig_struct E ce (map flatten vals) (eject_struct E ce limit (map flatten vals) vals e ch)).
  Proof.
    intros Hfin Hce. induction vals as [|v vals IH]; intros e ch He; cbn [map eject_struct elig_struct]; [constructor|].
    assert (Hhead : forall x, (x = v \/ (x = set_exit E e v /\ v_exit_epoch v = FAR_FUTURE_EPOCH)) ->
              queue_rel fin (flatten v) (if elig_cond E (flatten v) then set_elig (ce + 1) x else x) /\
              is_active_validator (if elig_cond E (flatten v) then set_elig (ce + 1) x else x) ce = fl_is_active (flatten v) ce).
    { intros x Hx.
      assert (Hax : is_active_validator x ce = is_active_validator v ce).
      { destruct Hx as [->|[-> Hfar]]; [reflexivity|]. apply is_active_set_exit; assumption. }
      assert (Hx_act : v_activation_epoch x = v_activation_epoch v) by (destruct Hx as [->|[-> _]]; reflexivity).
      assert (Hx_el : v_activation_eligibility_epoch x = v_activation_eligibility_epoch v) by (destruct Hx as [->|[-> _]]; reflexivity).
      unfold queue_rel. cbn [flatten fl_activation_epoch fl_activation_eligibility_epoch].
      destruct (elig_cond E (flatten v)) eqn:Hec.
      - unfold elig_cond in Hec. apply andb_prop in Hec. destruct Hec as [Hec _]. cbn [flatten fl_activation_eligibility_epoch] in Hec.
        apply N.eqb_eq in Hec.
        change (v_activation_epoch (set_elig (ce + 1) x)) with (v_activation_epoch x).
        change (v_activation_eligibility_epoch (set_elig (ce + 1) x)) with (ce + 1).
        change (is_active_validator (set_elig (ce + 1) x) ce) with (is_active_validator x ce).
        rewrite Hec, FAR_is_max64. repeat split; try assumption.
        + destruct (N.leb_spec (ce + 1) fin), (N.leb_spec max64 fin); try reflexivity; lia.
        + lia.
      - rewrite Hx_el. repeat split; assumption. }
    destruct (eject_cond E ce (flatten v)) eqn:Hej.
    - constructor.
      + apply Hhead. right. split; [reflexivity|].
        unfold eject_cond in Hej. apply andb_prop in Hej. destruct Hej as [_ Hej]. apply N.eqb_eq in Hej. exact Hej.
      + apply IH. pose proof (next_queue_fst limit e ch). lia.
    - constructor; [apply Hhead; left; reflexivity|apply IH; exact He].
  Qed.

  Definition spec_queue (st : BeaconState) : list (N * N * N) :=
    fold_right (fun (iv : N * Validator) acc =>
        let '(i, v) := iv in
        if is_eligible_for_activation st v then insert_by (v_activation_eligibility_epoch v, i) i acc else acc)
      [] (combine (indices (validators st)) (validators st)).
  Definition spec_act_limit (st : BeaconState) : N :=
    match f with Deneb => get_validator_activation_churn_limit E st | _ => get_validator_churn_limit E st end.
  Definition spec_activate (ce : N) (st : BeaconState) : BeaconState :=
    fold_left (fun st i =>
        st <| validators := updN (validators st) i (fun v => v <| v_activation_epoch := compute_activation_exit_epoch E ce |>) |>)
      (firstn (N.to_nat (spec_act_limit st)) (map snd (spec_queue st))) st.

  Lemma spec_registry_unfold st :
    Epoch.process_registry_updates E f st =
    match fold_left (spec_reg_step E (get_current_epoch E st)) (indices (validators st)) (Some st) with
    | None => None
    | Some st1 => Some (spec_activate (get_current_epoch E st) st1)
    end.
  Proof. reflexivity. Qed.

  Lemma spec_activate_vals ae : forall l st,
    fold_left (fun st i => st <| validators := updN (validators st) i (fun v => v <| v_activation_epoch := ae |>) |>) l st =
    with_validators st (fold_left (fun vs i => updN vs i (set_act ae)) l (validators st)).
  Proof.
    induction l as [|i l IH]; intros st; cbn [fold_left]; [rewrite with_validators_id; reflexivity|].
    rewrite IH. reflexivity.
  Qed.

  (* the common result, in closed form: ejections and eligibility in one structural pass, then the activations *)
  Definition registry_vals1 (st : BeaconState) : list Validator :=
    let ce := get_current_epoch E st in
    let vals0 := validators st in
    let flats := map flatten vals0 in
    let limit := churn_limit_of E vals0 ce in
    let q := qnorm limit (aee E ce) (map v_exit_epoch vals0) in
    elig_struct E ce flats (eject_struct E ce limit flats vals0 (fst q) (snd q)).
  Definition registry_activated (st : BeaconState) : list N :=
    let ce := get_current_epoch E st in
    let flats := map flatten (validators st) in
    firstn (N.to_nat (activation_churn_limit c f (churn_limit_of E (validators st) ce)))
           (sort_idx flats (idx_where (fin_cond (cp_epoch (finalized_checkpoint st))) 0 flats)).
  Definition registry_result (st : BeaconState) : BeaconState :=
    with_validators st
      (fold_left (fun vs i => updN vs i (set_act (get_current_epoch E st + 1 + MAX_SEED_LOOKAHEAD c)))
                 (registry_activated st) (registry_vals1 st)).

  Theorem registry_refines_explicit (st : BeaconState) :
    let ce := get_current_epoch E st in
    RegBounds c ce (validators st) ->
    cp_epoch (finalized_checkpoint st) <= ce ->
    Registry.process_registry_updates c f ce (flatten_validators (validators st)) st = Some (registry_result st) /\
    Epoch.process_registry_updates E f st = Some (registry_result st).
  Proof.
    intros ce HB Hfin. unfold registry_result, registry_vals1, registry_activated. fold ce.
    set (vals0 := validators st). set (flats := map flatten vals0).
    set (fin := cp_epoch (finalized_checkpoint st)) in *.
    set (limit := churn_limit_of E vals0 ce).
    destruct (qnorm limit (aee E ce) (map v_exit_epoch vals0)) as [e ch] eqn:Hq. cbn [fst snd].
    pose proof (qnorm_bounds E ce vals0 limit e ch HB Hq) as [Hb1 [Hb2 Hb3]].
    pose proof HB as [Hquot Hcount Hep Hex].
    assert (Hce : ce < max64) by lia.
    assert (Hcee : ce < e) by (unfold aee in Hb1; lia).
    set (vals1 := elig_struct E ce flats (eject_struct E ce limit flats vals0 e ch)).
    assert (Hlen1 : length vals1 = length flats).
    { unfold vals1. rewrite elig_struct_length, eject_struct_length. unfold flats. rewrite map_length. reflexivity. }
    pose proof (struct_rel ce fin limit Hfin Hce vals0 e ch Hcee) as Hrel. fold flats in Hrel. fold vals1 in Hrel.
    (* the churn limit is the same before and after the first part *)
    assert (Hlimit1 : churn_limit_of E vals1 ce = limit).
    { unfold limit, churn_limit_of. f_equal. f_equal. rewrite <- (active_count_flats vals0). fold flats. unfold active_count.
      clear -Hrel. induction Hrel as [|fl v fls vls [_ Ha] _ IH]; [reflexivity|].
      rewrite !countN_cons, Ha, IH. reflexivity. }
    set (ae := ce + 1 + MAX_SEED_LOOKAHEAD c).
    set (alimit := activation_churn_limit c f limit).
    set (act := firstn (N.to_nat alimit) (sort_idx flats (idx_where (fin_cond fin) 0 flats))).
    split.
    - (* zrnt *)
      unfold Registry.process_registry_updates, process_registry_updates_with, flatten_validators. fold vals0 flats.
      fold (compute_registry_process_data c flats ce). unfold flats at 1. rewrite (compute_rd_spec E ce vals0 HB).
      fold flats limit. rewrite Hq. cbn [fst snd]. unfold apply_registry_updates.
      pose proof (eject_batch_struct E ce vals0 HB _ (compute_rd_spec E ce vals0 HB)) as Hbatch.
      cbv zeta in Hbatch. fold flats limit in Hbatch. rewrite Hq in Hbatch. cbn [fst snd] in Hbatch. rewrite Hbatch.
      unfold set_eligibility. cbn [rd_to_set_activation_eligibility rd_to_maybe_activate rd_churn_limit].
      pose proof (elig_fold_struct E ce (add64 ce 1) flats (eject_struct E ce limit flats vals0 e ch) []) as Hel.
      cbn [app length N.of_nat] in Hel. rewrite Hel; clear Hel.
      2:{ rewrite eject_struct_length. unfold flats. apply map_length. }
      2:{ apply add64_small. rewrite two64_val. rewrite max64_val in Hce. lia. }
      fold vals1. fold alimit.
      rewrite activate_loop_takeWhile.
      + rewrite activation_queue_prefix by exact Hfin. fold act.
        unfold activation_exit_epoch64.
        rewrite (add64_small ce 1) by (rewrite two64_val; rewrite max64_val in Hce; lia).
        rewrite add64_small by (rewrite two64_val; rewrite max64_val in Hep; lia). reflexivity.
      + exact Hlen1.
      + intros i Hi. rewrite cut_firstn in Hi. apply In_firstn in Hi. apply sort_idx_in in Hi.
        apply idx_where_bounds in Hi. lia.
    - (* the spec *)
      rewrite spec_registry_unfold. fold ce.
      rewrite (reg_loop_state E ce _ st eq_refl). fold vals0.
      pose proof (spec_loop_struct E ce limit vals0 [] e ch eq_refl Hq Hb1 ltac:(lia)) as Hloop.
      cbn [app length N.of_nat] in Hloop. unfold indices. fold flats in Hloop. rewrite Hloop. cbn [option_map]. fold vals1.
      unfold spec_activate. rewrite spec_activate_vals.
      change (validators (with_validators st vals1)) with vals1.
      change (with_validators (with_validators st vals1) ?x) with (with_validators st x).
      f_equal. f_equal. unfold compute_activation_exit_epoch. fold ae.
      f_equal. unfold act. f_equal.
      + (* the limits *)
        f_equal. unfold spec_act_limit, alimit, activation_churn_limit, get_validator_activation_churn_limit.
        rewrite (churn_limit_eq E (with_validators st vals1)).
        change (validators (with_validators st vals1)) with vals1.
        change (get_current_epoch E (with_validators st vals1)) with ce. rewrite Hlimit1.
        destruct f; reflexivity.
      + (* the queues *)
        unfold spec_queue. change (validators (with_validators st vals1)) with vals1.
        rewrite combine_indices_indexed. unfold indexed, is_eligible_for_activation.
        change (cp_epoch (finalized_checkpoint (with_validators st vals1))) with fin.
        pose proof (spec_queue_keyed flats fin flats vals1 [] eq_refl) as Hsq. cbn [length N.of_nat] in Hsq.
        rewrite Hsq; [apply map_snd_keyed|].
        clear -Hrel. induction Hrel as [|fl v fls vls [Hr _] _ IH]; constructor; assumption.
  Qed.
  Theorem registry_refines (st : BeaconState) :
    let ce := get_current_epoch E st in
    RegBounds c ce (validators st) ->
    cp_epoch (finalized_checkpoint st) <= ce ->
    exists st',
      Registry.process_registry_updates c f ce (flatten_validators (validators st)) st = Some st' /\
      Epoch.process_registry_updates E f st = Some st'.
  Proof. intros ce HB Hfin. exists (registry_result st). apply registry_refines_explicit; assumption. Qed.
End Assemble.
