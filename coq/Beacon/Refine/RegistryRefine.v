(* Refinement: zrnt's registry updates (Impl/Registry.v) = the consensus spec's process_registry_updates.
   Theorems: exit_scan_spec, eject_batch_refines, activation_queue_prefix, registry_refines, registry_orig_refuted. *)
From Coq Require Import NArith ZArith Lia List Bool.
From Coq Require Import ZifyN ZifyNat ZifyBool.
From RecordUpdate Require Import RecordSet.
From V Require Import Base.U64 Beacon.Config Beacon.State Beacon.Spec.Helpers Beacon.Spec.Epoch.
From V Require Import Beacon.Impl.Flat Beacon.Impl.Registry Beacon.Refine.ListLemmas.
Import ListNotations RecordSetNotations.
Local Open Scope N_scope.
Ltac Zify.zify_post_hook ::= Z.div_mod_to_equations.

Lemma FAR_is_max64 : FAR_FUTURE_EPOCH = max64. Proof. reflexivity. Qed.
Lemma two64_val : two64 = 18446744073709551616. Proof. reflexivity. Qed.
Lemma max64_val : max64 = 18446744073709551615. Proof. reflexivity. Qed.
Lemma add64_small a b : a + b < two64 -> add64 a b = a + b.
Proof. intros H. unfold add64. apply wrap64_small. exact H. Qed.

(* ================= 1. the exit-queue scan ================= *)

(* the spec's view of the exit queue, on the snapshot *)
Definition nonfar_exits (flats : list FlatValidator) : list N :=
  filter (fun e => negb (e =? FAR_FUTURE_EPOCH)) (map fl_exit_epoch flats).
Definition exits_at (q : N) (flats : list FlatValidator) : N := countN (fun fl => fl_exit_epoch fl =? q) flats.

Lemma nonfar_exits_cons fl l :
  nonfar_exits (fl :: l) = if fl_exit_epoch fl =? FAR_FUTURE_EPOCH then nonfar_exits l else fl_exit_epoch fl :: nonfar_exits l.
Proof. unfold nonfar_exits. cbn [map filter]. destruct (fl_exit_epoch fl =? FAR_FUTURE_EPOCH); reflexivity. Qed.
Lemma nonfar_exits_not_far l x : In x (nonfar_exits l) -> x <> FAR_FUTURE_EPOCH.
Proof. unfold nonfar_exits. rewrite filter_In. intros [_ H]. destruct (N.eqb_spec x FAR_FUTURE_EPOCH); [discriminate|assumption]. Qed.
Lemma queue_max_not_far l d : d <> FAR_FUTURE_EPOCH -> maxl (nonfar_exits l) d <> FAR_FUTURE_EPOCH.
Proof. intros Hd. destruct (maxl_in (nonfar_exits l) d) as [->|H]; [exact Hd|]. eapply nonfar_exits_not_far. exact H. Qed.

Lemma exit_scan_gen : forall l e ch,
  e <> FAR_FUTURE_EPOCH -> ch + N.of_nat (length l) < two64 ->
  fold_left exit_scan_step l (e, ch) =
  (maxl (nonfar_exits l) e,
   if maxl (nonfar_exits l) e =? e then ch + exits_at e l else exits_at (maxl (nonfar_exits l) e) l).
Proof.
  induction l as [|fl l IH]; intros e ch He Hlen.
  - cbn [fold_left nonfar_exits map filter maxl]. rewrite N.eqb_refl. unfold exits_at. rewrite countN_nil. f_equal. lia.
  - cbn [fold_left]. cbn [length] in Hlen. rewrite nonfar_exits_cons. unfold exit_scan_step at 2.
    unfold exits_at in *. rewrite !countN_cons.
    destruct (N.eqb_spec (fl_exit_epoch fl) FAR_FUTURE_EPOCH) as [Hfar|Hnf].
    + (* not exiting: skipped *)
      rewrite IH by (try assumption; lia).
      pose proof (queue_max_not_far l e He) as Hq.
      destruct (N.eqb_spec (fl_exit_epoch fl) e) as [E|_]; [congruence|].
      destruct (N.eqb_spec (fl_exit_epoch fl) (maxl (nonfar_exits l) e)) as [E|_]; [congruence|].
      reflexivity.
    + set (x := fl_exit_epoch fl) in *. rewrite maxl_cons.
      destruct (N.ltb_spec e x) as [Hlt|Hge].
      * (* a later exit epoch becomes the queue end: the counter restarts *)
        rewrite N.eqb_refl. rewrite add64_small by lia.
        replace (N.max x e) with x by lia.
        rewrite IH by (try assumption; lia).
        pose proof (maxl_ge_d (nonfar_exits l) x) as Hge.
        destruct (N.eqb_spec (maxl (nonfar_exits l) x) e) as [E|_]; [lia|].
        destruct (N.eqb_spec (maxl (nonfar_exits l) x) x) as [E|NE].
        -- rewrite E, N.eqb_refl. reflexivity.
        -- destruct (N.eqb_spec x (maxl (nonfar_exits l) x)) as [E'|_]; [congruence|]. reflexivity.
      * replace (N.max x e) with e by lia.
        destruct (N.eqb_spec x e) as [E|NE].
        -- rewrite add64_small by lia. rewrite IH by (try assumption; lia).
           destruct (N.eqb_spec (maxl (nonfar_exits l) e) e) as [E2|NE2]; [f_equal; lia|].
           pose proof (maxl_ge_d (nonfar_exits l) e).
           destruct (N.eqb_spec x (maxl (nonfar_exits l) e)) as [E'|_]; [congruence|]. reflexivity.
        -- rewrite IH by (try assumption; lia).
           pose proof (maxl_ge_d (nonfar_exits l) e).
           destruct (N.eqb_spec x (maxl (nonfar_exits l) e)) as [E'|_]; [lia|]. reflexivity.
Qed.

(* exit_scan_spec: the scan returns (max (exit epochs ∪ {activation-exit epoch}), number of validators exiting at
   that epoch), for every snapshot, provided the two counters cannot wrap. *)
Theorem exit_scan_spec (c : Config) (flats : list FlatValidator) (ce : N) :
  ce + 1 + MAX_SEED_LOOKAHEAD c < max64 ->
  N.of_nat (length flats) < two64 ->
  let q := maxl (nonfar_exits flats) (ce + 1 + MAX_SEED_LOOKAHEAD c) in
  exit_scan c flats ce = (q, exits_at q flats).
Proof.
  intros Hce Hlen q. unfold exit_scan, activation_exit_epoch64.
  rewrite max64_val in Hce. rewrite two64_val in Hlen.
  rewrite (add64_small ce 1) by (rewrite two64_val; lia).
  rewrite add64_small by (rewrite two64_val; lia).
  rewrite exit_scan_gen by (rewrite ?FAR_is_max64, ?max64_val, ?two64_val; lia).
  fold q. destruct (N.eqb_spec q (ce + 1 + MAX_SEED_LOOKAHEAD c)) as [E|_]; [rewrite <- E|]; reflexivity.
Qed.
