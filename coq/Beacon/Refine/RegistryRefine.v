(* Refinement: zrnt's registry updates (Impl/Registry.v) = the consensus spec's process_registry_updates.
   Theorems: exit_scan_spec, eject_batch_refines, activation_queue_prefix, registry_refines, registry_orig_refuted. *)
From Coq Require Import NArith ZArith Lia List Bool.
From Coq Require Import ZifyN ZifyNat ZifyBool.
From RecordUpdate Require Import RecordSet.
From V Require Import Base.U64 Beacon.Config Beacon.State Beacon.Spec.Helpers Beacon.Spec.Epoch.
From V Require Import Beacon.Impl.Flat Beacon.Impl.Registry Beacon.Refine.ListLemmas.
Import ListNotations RecordSetNotations.
Local Open Scope N_scope.
Ltac Zify.zify_post_hook ::= Z.div_mod_to_equations.

Lemma FAR_is_max64 : FAR_FUTURE_EPOCH = max64. Proof. reflexivity. Qed.
Lemma two64_val : two64 = 18446744073709551616. Proof. reflexivity. Qed.
Lemma max64_val : max64 = 18446744073709551615. Proof. reflexivity. Qed.
Lemma add64_small a b : a + b < two64 -> add64 a b = a + b.
Proof. intros H. unfold add64. apply wrap64_small. exact H. Qed.

(* ================= 1. the exit-queue scan ================= *)

(* the spec's view of the exit queue, on the snapshot *)
Definition nonfar_exits (flats : list FlatValidator) : list N :=
  filter (fun e => negb (e =? FAR_FUTURE_EPOCH)) (map fl_exit_epoch flats).
Definition exits_at (q : N) (flats : list FlatValidator) : N := countN (fun fl => fl_exit_epoch fl =? q) flats.

Lemma nonfar_exits_cons fl l :
  nonfar_exits (fl :: l) = if fl_exit_epoch fl =? FAR_FUTURE_EPOCH then nonfar_exits l else fl_exit_epoch fl :: nonfar_exits l.
Proof. unfold nonfar_exits. cbn [map filter]. destruct (fl_exit_epoch fl =? FAR_FUTURE_EPOCH); reflexivity. Qed.
Lemma nonfar_exits_not_far l x : In x (nonfar_exits l) -> x <> FAR_FUTURE_EPOCH.
Proof. unfold nonfar_exits. rewrite filter_In. intros [_ H]. destruct (N.eqb_spec x FAR_FUTURE_EPOCH); [discriminate|assumption]. Qed.
Lemma queue_max_not_far l d : d <> FAR_FUTURE_EPOCH -> maxl (nonfar_exits l) d <> FAR_FUTURE_EPOCH.
Proof. intros Hd. destruct (maxl_in (nonfar_exits l) d) as [->|H]; [exact Hd|]. eapply nonfar_exits_not_far. exact H. Qed.

Lemma exit_scan_gen : forall l e ch,
  e <> FAR_FUTURE_EPOCH -> ch + N.of_nat (length l) < two64 ->
  fold_left exit_scan_step l (e, ch) =
  (maxl (nonfar_exits l) e,
   if maxl (nonfar_exits l) e =? e then ch + exits_at e l else exits_at (maxl (nonfar_exits l) e) l).
Proof.
  induction l as [|fl l IH]; intros e ch He Hlen.
  - cbn [fold_left nonfar_exits map filter maxl]. rewrite N.eqb_refl. unfold exits_at. rewrite countN_nil. f_equal. lia.
  - cbn [fold_left]. cbn [length] in Hlen. rewrite nonfar_exits_cons. unfold exit_scan_step at 2.
    unfold exits_at in *. rewrite !countN_cons.
    destruct (N.eqb_spec (fl_exit_epoch fl) FAR_FUTURE_EPOCH) as [Hfar|Hnf].
    + (* not exiting: skipped *)
      rewrite IH by (try assumption; lia).
      pose proof (queue_max_not_far l e He) as Hq.
      destruct (N.eqb_spec (fl_exit_epoch fl) e) as [E|_]; [congruence|].
      destruct (N.eqb_spec (fl_exit_epoch fl) (maxl (nonfar_exits l) e)) as [E|_]; [congruence|].
      reflexivity.
    + set (x := fl_exit_epoch fl) in *. rewrite maxl_cons.
      destruct (N.ltb_spec e x) as [Hlt|Hge].
      * (* a later exit epoch becomes the queue end: the counter restarts *)
        rewrite N.eqb_refl. rewrite add64_small by lia.
        replace (N.max x e) with x by lia.
        rewrite IH by (try assumption; lia).
        pose proof (maxl_ge_d (nonfar_exits l) x) as Hge.
        destruct (N.eqb_spec (maxl (nonfar_exits l) x) e) as [E|_]; [lia|].
        destruct (N.eqb_spec (maxl (nonfar_exits l) x) x) as [E|NE].
        -- rewrite E, N.eqb_refl. reflexivity.
        -- destruct (N.eqb_spec x (maxl (nonfar_exits l) x)) as [E'|_]; [congruence|]. reflexivity.
      * replace (N.max x e) with e by lia.
        destruct (N.eqb_spec x e) as [E|NE].
        -- rewrite add64_small by lia. rewrite IH by (try assumption; lia).
           destruct (N.eqb_spec (maxl (nonfar_exits l) e) e) as [E2|NE2]; [f_equal; lia|].
           pose proof (maxl_ge_d (nonfar_exits l) e).
           destruct (N.eqb_spec x (maxl (nonfar_exits l) e)) as [E'|_]; [congruence|]. reflexivity.
        -- rewrite IH by (try assumption; lia).
           pose proof (maxl_ge_d (nonfar_exits l) e).
           destruct (N.eqb_spec x (maxl (nonfar_exits l) e)) as [E'|_]; [lia|]. reflexivity.
Qed.

(* exit_scan_spec: the scan returns (max (exit epochs ∪ {activation-exit epoch}), number of validators exiting at
   that epoch), for every snapshot, provided the two counters cannot wrap. *)
Theorem exit_scan_spec (c : Config) (flats : list FlatValidator) (ce : N) :
  ce + 1 + MAX_SEED_LOOKAHEAD c < max64 ->
  N.of_nat (length flats) < two64 ->
  let q := maxl (nonfar_exits flats) (ce + 1 + MAX_SEED_LOOKAHEAD c) in
  exit_scan c flats ce = (q, exits_at q flats).
Proof.
  intros Hce Hlen q. unfold exit_scan, activation_exit_epoch64.
  rewrite max64_val in Hce. rewrite two64_val in Hlen.
  rewrite (add64_small ce 1) by (rewrite two64_val; lia).
  rewrite add64_small by (rewrite two64_val; lia).
  rewrite exit_scan_gen by (rewrite ?FAR_is_max64, ?max64_val, ?two64_val; lia).
  fold q. destruct (N.eqb_spec q (ce + 1 + MAX_SEED_LOOKAHEAD c)) as [E|_]; [rewrite <- E|]; reflexivity.
Qed.

(* ================= 2. the exit queue as a function of the list of exit epochs ================= *)

Definition nonfar (xs : list N) : list N := filter (fun e => negb (e =? FAR_FUTURE_EPOCH)) xs.
Definition qmax (a : N) (xs : list N) : N := maxl (nonfar xs) a.
Definition qcnt (q : N) (xs : list N) : N := countN (fun e => e =? q) xs.
(* what initiate_validator_exit assigns next, and how many already sit there *)
Definition qnorm (limit a : N) (xs : list N) : N * N :=
  let q0 := qmax a xs in
  let ch := qcnt q0 xs in
  if limit <=? ch then (q0 + 1, 0) else (q0, ch).
(* zrnt's running pair after one more ejection *)
Definition next_queue (limit e ch : N) : N * N := if limit <=? ch + 1 then (e + 1, 0) else (e, ch + 1).

Lemma nonfar_app a b : nonfar (a ++ b) = nonfar a ++ nonfar b.
Proof. apply filter_app. Qed.
Lemma nonfar_cons_far b : nonfar (FAR_FUTURE_EPOCH :: b) = nonfar b.
Proof. reflexivity. Qed.
Lemma nonfar_cons_nf x b : x <> FAR_FUTURE_EPOCH -> nonfar (x :: b) = x :: nonfar b.
Proof. intros H. unfold nonfar. cbn [filter]. destruct (N.eqb_spec x FAR_FUTURE_EPOCH); [contradiction|reflexivity]. Qed.
Lemma nonfar_in x xs : In x xs -> x <> FAR_FUTURE_EPOCH -> In x (nonfar xs).
Proof. intros Hin Hx. unfold nonfar. rewrite filter_In. split; [exact Hin|]. destruct (N.eqb_spec x FAR_FUTURE_EPOCH); [contradiction|reflexivity]. Qed.
Lemma qmax_not_far a xs : a <> FAR_FUTURE_EPOCH -> qmax a xs <> FAR_FUTURE_EPOCH.
Proof.
  intros Ha. unfold qmax. destruct (maxl_in (nonfar xs) a) as [->|H]; [exact Ha|].
  unfold nonfar in H at 2. apply filter_In in H. destruct H as [_ H].
  destruct (N.eqb_spec (maxl (nonfar xs) a) FAR_FUTURE_EPOCH); [discriminate|assumption].
Qed.
Lemma qcnt_above q a xs : qmax a xs < q -> q <> FAR_FUTURE_EPOCH -> qcnt q xs = 0.
Proof.
  intros Hq Hfar. unfold qcnt. apply countN_zero. intros x Hin.
  destruct (N.eqb_spec x q) as [->|]; [|reflexivity]. exfalso.
  pose proof (maxl_ge_in (nonfar xs) a q (nonfar_in _ _ Hin Hfar)). unfold qmax in Hq. lia.
Qed.

(* one ejection: a validator whose exit epoch was FAR_FUTURE receives the queue end E *)
Lemma queue_step limit aee a b E C :
  qnorm limit aee (a ++ FAR_FUTURE_EPOCH :: b) = (E, C) ->
  E <> FAR_FUTURE_EPOCH -> aee <> FAR_FUTURE_EPOCH ->
  qnorm limit aee (a ++ E :: b) = next_queue limit E C.
Proof.
  intros Hinv HE Ha. unfold qnorm in *.
  assert (Hq0 : qmax aee (a ++ FAR_FUTURE_EPOCH :: b) = qmax aee (a ++ b)).
  { unfold qmax. rewrite !nonfar_app, nonfar_cons_far. reflexivity. }
  assert (Hq1 : qmax aee (a ++ E :: b) = N.max E (qmax aee (a ++ b))).
  { unfold qmax. rewrite !nonfar_app, nonfar_cons_nf by exact HE. rewrite maxl_mid. reflexivity. }
  rewrite Hq0 in Hinv. rewrite Hq1. set (q0 := qmax aee (a ++ b)) in *.
  pose proof (qmax_not_far aee (a ++ b) Ha) as Hq0far. fold q0 in Hq0far.
  assert (Hc0 : qcnt q0 (a ++ FAR_FUTURE_EPOCH :: b) = qcnt q0 (a ++ b)).
  { unfold qcnt. rewrite !countN_app, countN_cons.
    destruct (N.eqb_spec FAR_FUTURE_EPOCH q0); [congruence|lia]. }
  rewrite Hc0 in Hinv.
  assert (Hc1 : forall q, qcnt q (a ++ E :: b) = qcnt q (a ++ b) + (if E =? q then 1 else 0)).
  { intros q. unfold qcnt. rewrite !countN_app, countN_cons. lia. }
  rewrite Hc1. unfold next_queue.
  destruct (N.leb_spec limit (qcnt q0 (a ++ b))) as [Hle|Hgt]; inversion Hinv; subst E C; clear Hinv.
  - replace (N.max (q0 + 1) q0) with (q0 + 1) by lia. rewrite N.eqb_refl.
    rewrite (qcnt_above (q0 + 1) aee (a ++ b)) by (fold q0; try lia; exact HE). reflexivity.
  - replace (N.max q0 q0) with q0 by lia. rewrite N.eqb_refl. reflexivity.
Qed.

Lemma qnorm_fst_ge limit aee xs : aee <= fst (qnorm limit aee xs).
Proof.
  unfold qnorm. pose proof (maxl_ge_d (nonfar xs) aee) as H. fold (qmax aee xs) in H.
  destruct (limit <=? _); cbn [fst]; lia.
Qed.
Lemma qnorm_snd_le limit aee xs : snd (qnorm limit aee xs) <= N.of_nat (length xs).
Proof.
  unfold qnorm. destruct (limit <=? _); cbn [snd]; [lia|]. apply countN_le_length.
Qed.
Lemma next_queue_fst limit e ch : e <= fst (next_queue limit e ch) <= e + 1.
Proof. unfold next_queue. destruct (limit <=? _); cbn [fst]; lia. Qed.

(* ================= 3. the spec's registry loop on the validator list ================= *)
Definition with_validators (st : BeaconState) (vs : list Validator) : BeaconState := st <| validators := vs |>.
Lemma with_validators_id st : with_validators st (validators st) = st.
Proof. destruct st; reflexivity. Qed.

Section SpecOnLists.
  Variable E : Env.
  Variable f : fork.
  Let c := cfg E.

  Definition aee (ce : N) : N := ce + 1 + MAX_SEED_LOOKAHEAD c.
  Definition active_count (vals : list Validator) (ce : N) : N := countN (fun v => is_active_validator v ce) vals.
  Definition churn_limit_of (vals : list Validator) (ce : N) : N :=
    N.max (MIN_PER_EPOCH_CHURN_LIMIT c) (active_count vals ce / CHURN_LIMIT_QUOTIENT c).
  Definition set_exit (q : N) (v : Validator) : Validator :=
    v <| v_exit_epoch := q |> <| v_withdrawable_epoch := q + MIN_VALIDATOR_WITHDRAWABILITY_DELAY c |>.
  Definition set_elig (e : N) (v : Validator) : Validator := v <| v_activation_eligibility_epoch := e |>.
  Definition set_act (e : N) (v : Validator) : Validator := v <| v_activation_epoch := e |>.
  Definition exit_target (vals : list Validator) (ce : N) : N :=
    fst (qnorm (churn_limit_of vals ce) (aee ce) (map v_exit_epoch vals)).

  Definition ive_vals (vals : list Validator) (ce index : N) : option (list Validator) :=
    match nthN vals index with
    | None => None
    | Some v => if negb (v_exit_epoch v =? FAR_FUTURE_EPOCH) then Some vals
                else Some (updN vals index (set_exit (exit_target vals ce)))
    end.

  Lemma active_indices_length st epoch :
    N.of_nat (length (get_active_validator_indices st epoch)) = active_count (validators st) epoch.
  Proof.
    unfold get_active_validator_indices, active_count, countN. rewrite map_length, combine_indices_indexed.
    unfold indexed. rewrite (filter_snd_indexed_length (fun v => is_active_validator v epoch)). reflexivity.
  Qed.
  Lemma churn_limit_eq st : get_validator_churn_limit E st = churn_limit_of (validators st) (get_current_epoch E st).
  Proof. unfold get_validator_churn_limit, churn_limit_of. rewrite active_indices_length. reflexivity. Qed.

  Lemma ive_state st i :
    initiate_validator_exit E st i = option_map (with_validators st) (ive_vals (validators st) (get_current_epoch E st) i).
  Proof.
    unfold initiate_validator_exit, ive_vals. destruct (nthN (validators st) i) as [v|]; [|reflexivity].
    destruct (negb (v_exit_epoch v =? FAR_FUTURE_EPOCH)); cbn [option_map].
    - rewrite with_validators_id. reflexivity.
    - rewrite churn_limit_eq. unfold exit_target, qnorm, qmax, qcnt, nonfar, aee, compute_activation_exit_epoch.
      fold c. rewrite countN_map. unfold countN.
      destruct (_ <=? _); reflexivity.
  Qed.
End SpecOnLists.

Section SpecLoop.
  Variable E : Env.
  Variable f : fork.
  Let c := cfg E.

  Definition reg_step_vals (ce : N) (acc : option (list Validator)) (i : N) : option (list Validator) :=
    match acc with
    | None => None
    | Some vals =>
        match nthN vals i with
        | None => None
        | Some v =>
            let vals1 := if is_eligible_for_activation_queue E v then updN vals i (set_elig (ce + 1)) else vals in
            if is_active_validator v ce && (v_effective_balance v <=? EJECTION_BALANCE c)
            then ive_vals E vals1 ce i else Some vals1
        end
    end.

  (* the loop body of process_registry_updates, verbatim *)
  Definition spec_reg_step (ce : N) (acc : option BeaconState) (i : N) : option BeaconState :=
    st <- acc ;;
    v <- nthN (validators st) i ;;
    let st := if is_eligible_for_activation_queue E v
              then st <| validators := updN (validators st) i (fun v => v <| v_activation_eligibility_epoch := ce + 1 |>) |>
              else st in
    if is_active_validator v ce && (v_effective_balance v <=? EJECTION_BALANCE c)
    then initiate_validator_exit E st i else Some st.

  Lemma reg_loop_state ce : forall l st,
    get_current_epoch E st = ce ->
    fold_left (spec_reg_step ce) l (Some st) =
    option_map (with_validators st) (fold_left (reg_step_vals ce) l (Some (validators st))).
  Proof.
    induction l as [|i l IH]; intros st Hce.
    - cbn [fold_left option_map]. rewrite with_validators_id. reflexivity.
    - cbn [fold_left]. unfold spec_reg_step at 2, reg_step_vals at 2.
      destruct (nthN (validators st) i) as [v|].
      2:{ rewrite !fold_left_none by reflexivity. reflexivity. }
      destruct (is_eligible_for_activation_queue E v);
      destruct (is_active_validator v ce && (v_effective_balance v <=? EJECTION_BALANCE c)).
      + rewrite ive_state. change (get_current_epoch E _) with (get_current_epoch E st). rewrite Hce.
        change (validators (st <| validators := ?x |>)) with x.
        destruct (ive_vals E _ ce i) as [vs|]; cbn [option_map].
        * rewrite (IH (with_validators _ vs)) by exact Hce. reflexivity.
        * rewrite !fold_left_none by reflexivity. reflexivity.
      + rewrite (IH (st <| validators := _ |>)) by exact Hce. reflexivity.
      + rewrite ive_state. rewrite Hce.
        destruct (ive_vals E _ ce i) as [vs|]; cbn [option_map].
        * rewrite (IH (with_validators _ vs)) by exact Hce. reflexivity.
        * rewrite !fold_left_none by reflexivity. reflexivity.
      + rewrite IH by exact Hce. reflexivity.
  Qed.
End SpecLoop.

(* ================= 4. structural form of the first part (eligibility + ejections) ================= *)
Section Struct.
  Variable E : Env.
  Notation c := (cfg E).

  Definition elig_cond (fl : FlatValidator) : bool :=
    (fl_activation_eligibility_epoch fl =? FAR_FUTURE_EPOCH) && (fl_effective_balance fl =? MAX_EFFECTIVE_BALANCE c).
  Definition eject_cond (ce : N) (fl : FlatValidator) : bool :=
    fl_is_active fl ce && (fl_effective_balance fl <=? EJECTION_BALANCE c) && (fl_exit_epoch fl =? FAR_FUTURE_EPOCH).

  Fixpoint eject_struct (ce limit : N) (flats : list FlatValidator) (vals : list Validator) (e ch : N) : list Validator :=
    match flats, vals with
    | fl :: flats', v :: vals' =>
        if eject_cond ce fl
        then set_exit E e v :: eject_struct ce limit flats' vals' (fst (next_queue limit e ch)) (snd (next_queue limit e ch))
        else v :: eject_struct ce limit flats' vals' e ch
    | _, _ => vals
    end.
  Fixpoint elig_struct (ce : N) (flats : list FlatValidator) (vals : list Validator) : list Validator :=
    match flats, vals with
    | fl :: flats', v :: vals' => (if elig_cond fl then set_elig (ce + 1) v else v) :: elig_struct ce flats' vals'
    | _, _ => vals
    end.

  Lemma elig_cond_flatten v : elig_cond (flatten v) = is_eligible_for_activation_queue E v.
  Proof. reflexivity. Qed.
  Lemma is_active_flatten v ce : fl_is_active (flatten v) ce = is_active_validator v ce.
  Proof. reflexivity. Qed.

  Lemma spec_loop_struct ce limit : forall vals pre e ch,
    churn_limit_of E (pre ++ vals) ce = limit ->
    qnorm limit (aee E ce) (map v_exit_epoch (pre ++ vals)) = (e, ch) ->
    aee E ce <= e -> e + N.of_nat (length vals) < max64 ->
    fold_left (reg_step_vals E ce) (seqN (N.of_nat (length pre)) (length vals)) (Some (pre ++ vals)) =
    Some (pre ++ elig_struct ce (map flatten vals) (eject_struct ce limit (map flatten vals) vals e ch)).
  Proof.
    induction vals as [|v vals IH]; intros pre e ch Hlim Hq Hae Hb.
    - reflexivity.
    - cbn [length seqN fold_left map eject_struct elig_struct]. unfold reg_step_vals at 2.
      rewrite nthN_app. cbn [length] in Hb.
      assert (Haee_nf : aee E ce <> FAR_FUTURE_EPOCH) by (rewrite FAR_is_max64; lia).
      assert (He_nf : e <> FAR_FUTURE_EPOCH) by (rewrite FAR_is_max64; lia).
      (* the eligibility update of validator |pre| *)
      set (v1 := if is_eligible_for_activation_queue E v then set_elig (ce + 1) v else v).
      assert (Hvals1 : (if is_eligible_for_activation_queue E v
                        then updN (pre ++ v :: vals) (N.of_nat (length pre)) (set_elig (ce + 1))
                        else pre ++ v :: vals) = pre ++ v1 :: vals).
      { unfold v1. destruct (is_eligible_for_activation_queue E v); [apply updN_app|reflexivity]. }
      rewrite Hvals1.
      assert (Hex1 : v_exit_epoch v1 = v_exit_epoch v) by (unfold v1; destruct (is_eligible_for_activation_queue E v); reflexivity).
      assert (Hact1 : forall x, is_active_validator v1 x = is_active_validator v x)
        by (intros x; unfold v1; destruct (is_eligible_for_activation_queue E v); reflexivity).
      assert (Hexits1 : map v_exit_epoch (pre ++ v1 :: vals) = map v_exit_epoch (pre ++ v :: vals)).
      { rewrite !map_app. cbn [map]. rewrite Hex1. reflexivity. }
      assert (Hlim1 : churn_limit_of E (pre ++ v1 :: vals) ce = limit).
      { rewrite <- Hlim. unfold churn_limit_of, active_count. rewrite !countN_app, !countN_cons, Hact1. reflexivity. }
      replace (N.of_nat (length pre) + 1) with (N.of_nat (length (pre ++ [v1]))) by (rewrite app_length; cbn [length]; lia).
      unfold eject_cond. rewrite is_active_flatten. cbn [fl_effective_balance fl_exit_epoch flatten].
      rewrite elig_cond_flatten. fold v1.
      destruct (is_active_validator v ce && (v_effective_balance v <=? EJECTION_BALANCE c)) eqn:Hcond; cbn [andb].
      + (* initiate_validator_exit *)
        unfold ive_vals. rewrite nthN_app. rewrite Hex1.
        destruct (N.eqb_spec (v_exit_epoch v) FAR_FUTURE_EPOCH) as [Hfar|Hnf]; cbn [negb].
        * (* ejected: receives the queue end *)
          assert (Htarget : exit_target E (pre ++ v1 :: vals) ce = e).
          { unfold exit_target. rewrite Hlim1, Hexits1, Hq. reflexivity. }
          rewrite Htarget, updN_app.
          replace (pre ++ set_exit E e v1 :: vals) with ((pre ++ [set_exit E e v1]) ++ vals) by (rewrite <- app_assoc; reflexivity).
          replace (length (pre ++ [v1])) with (length (pre ++ [set_exit E e v1])) by (rewrite !app_length; reflexivity).
          destruct (next_queue limit e ch) as [e' ch'] eqn:Hnq. cbn [fst snd].
          pose proof (next_queue_fst limit e ch) as Hfst. rewrite Hnq in Hfst. cbn [fst] in Hfst.
          apply andb_prop in Hcond. destruct Hcond as [Hactive _].
          rewrite (IH _ e' ch').
          -- rewrite <- app_assoc. cbn [app]. f_equal. f_equal. f_equal.
             unfold v1. destruct (is_eligible_for_activation_queue E v); reflexivity.
          -- rewrite <- app_assoc. cbn [app]. rewrite <- Hlim.
             unfold churn_limit_of, active_count. rewrite !countN_app, !countN_cons.
             replace (is_active_validator (set_exit E e v1) ce) with true; [rewrite Hactive; reflexivity|].
             unfold is_active_validator in *. cbn [set_exit v_activation_epoch v_exit_epoch set]. 
             change (v_activation_epoch (set_exit E e v1)) with (v_activation_epoch v1).
             change (v_exit_epoch (set_exit E e v1)) with e.
             replace (v_activation_epoch v1) with (v_activation_epoch v) by (unfold v1; destruct (is_eligible_for_activation_queue E v); reflexivity).
             apply andb_prop in Hactive. destruct Hactive as [Ha1 _]. rewrite Ha1. cbn [andb].
             unfold aee in Hae. symmetry. apply N.ltb_lt. lia.
          -- rewrite <- app_assoc. cbn [app]. rewrite map_app. cbn [map].
             change (v_exit_epoch (set_exit E e v1)) with e.
             rewrite <- Hnq. apply queue_step; try assumption.
             rewrite <- Hq. rewrite map_app. cbn [map]. rewrite Hfar. reflexivity.
          -- lia.
          -- lia.
        * (* already exiting: initiate_validator_exit is a no-op, and zrnt does not eject *)
          replace (pre ++ v1 :: vals) with ((pre ++ [v1]) ++ vals) by (rewrite <- app_assoc; reflexivity).
          rewrite (IH _ e ch).
          -- rewrite <- app_assoc. reflexivity.
          -- rewrite <- app_assoc. exact Hlim1.
          -- rewrite <- app_assoc. cbn [app]. rewrite Hexits1. exact Hq.
          -- exact Hae.
          -- lia.
      + replace (pre ++ v1 :: vals) with ((pre ++ [v1]) ++ vals) by (rewrite <- app_assoc; reflexivity).
        rewrite (IH _ e ch).
        -- rewrite <- app_assoc. reflexivity.
        -- rewrite <- app_assoc. exact Hlim1.
        -- rewrite <- app_assoc. cbn [app]. rewrite Hexits1. exact Hq.
        -- exact Hae.
        -- lia.
  Qed.
End Struct.
