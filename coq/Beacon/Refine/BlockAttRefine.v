(* C01 — altair/deneb ProcessAttestation (zrnt): participation flags and the proposer-reward numerator, against the
   corresponding part of process_attestation (Spec).

   zrnt walks the SORTED attesting indices, ORs the whole flag word into the participation byte at once and
   accumulates base_reward * weight per newly set flag in uint64, reading effective balances from its
   EpochsContext; the spec walks the committee order and sets the flags one at a time.

     spec_flags_fold          the spec's per-validator loop over the three flags  = one `att_step`
     att_fold_sorted          folding `att_step` over sort_uniq l = folding over l    (NoDup l)
     attestation_rewards_refines   Impl = Spec tail (Ok/Err alike) under epc_ok, cfg_sane, st_bounds, a stated numeric
                              bound on the numerator, attesting indices distinct / in range / active in prev or cur epoch
     attestation_roots_in_range    zrnt's GetBlockRootAtSlot has no range check; inside ProcessAttestation the
                              inclusion-window checks imply the spec's range assertion *)
From Coq Require Import String.
From Coq Require Import NArith ZArith Lia List Bool.
From Coq Require Import ZifyN ZifyNat ZifyBool.
From RecordUpdate Require Import RecordSet.
From V Require Import Base.U64 Base.Outcome Ssz.SszCore Beacon.Config Beacon.Schemas Beacon.State
  Beacon.Spec.Helpers Beacon.Spec.Epoch Beacon.Spec.Block Beacon.Impl.BlockOps
  Beacon.Refine.BlockLemmas Beacon.Refine.BlockEpc Beacon.Refine.BlockProposer.
Import ListNotations RecordSetNotations.
Local Open Scope list_scope.
Local Open Scope N_scope.

(* ---------- flag words ---------- *)
Lemma testbit_add_flag cur fl k : N.testbit (add_flag cur fl) k = N.testbit cur k || (fl =? k).
Proof. unfold add_flag. rewrite N.lor_spec, N.pow2_bits_eqb. reflexivity. Qed.
Lemma add_flag_idem cur fl : has_flag cur fl = true -> add_flag cur fl = cur.
Proof.
  unfold has_flag. intros H. apply N.bits_inj. intros k. rewrite testbit_add_flag.
  destruct (N.eqb_spec fl k) as [<-|]; [rewrite H|rewrite orb_false_r]; reflexivity.
Qed.
Lemma testbit_flags_word_gen flags : forall acc k,
  N.testbit (fold_left add_flag flags acc) k = N.testbit acc k || memN k flags.
Proof.
  induction flags as [|fl flags IH]; intros acc k; cbn [fold_left memN existsb].
  - rewrite orb_false_r. reflexivity.
  - unfold memN in IH. rewrite IH, testbit_add_flag. rewrite (N.eqb_sym k fl). rewrite orb_assoc. reflexivity.
Qed.
Lemma testbit_flags_word flags k : N.testbit (flags_word flags) k = memN k flags.
Proof. unfold flags_word. rewrite testbit_flags_word_gen. reflexivity. Qed.

Lemma setN_same {A} (l : list A) i x : nthN l i = Some x -> setN l i x = l.
Proof. intros H. unfold setN; rewrite updN_eq. apply upd_nat_id. intros y Hy. rewrite nthN_eq in H. congruence. Qed.
Lemma nthN_setN_same {A} (l : list A) i x y : nthN l i = Some x -> nthN (setN l i y) i = Some y.
Proof. intros H. unfold setN. rewrite nthN_updN_same, H. reflexivity. Qed.
Lemma setN_setN {A} (l : list A) i x y : setN (setN l i x) i y = setN l i y.
Proof. unfold setN. rewrite updN_updN_same. reflexivity. Qed.

Section Att.
  Variable E : Env.
  Variable f : fork.
  Let c := cfg E.

  (* one attester: the whole flag word at once *)
  Definition att_contrib (W base cur : N) : N :=
    (if N.testbit W 0 && negb (N.testbit cur 0) then base * 14 else 0)
    + (if N.testbit W 1 && negb (N.testbit cur 1) then base * 26 else 0)
    + (if N.testbit W 2 && negb (N.testbit cur 2) then base * 14 else 0).
  Definition att_step (st : BeaconState) (W brpi : N) (pn : list N * N) (i : N) : list N * N :=
    let '(part, num) := pn in
    match nthN part i with
    | Some cur => (setN part i (N.lor cur W), num + att_contrib W (eff_bal st i / EFFECTIVE_BALANCE_INCREMENT c * brpi) cur)
    | None => (part, num)
    end.

  (* the spec's inner loop over the flag indices 0,1,2 *)
  Definition spec_flag_step (st : BeaconState) (flags : list N) (brpi i : N) (pn : list N * N) (fl : N) : list N * N :=
    let '(part, num) := pn in
    match nthN part i with
    | Some cur =>
        if memN fl flags && negb (has_flag cur fl)
        then (setN part i (add_flag cur fl), num + eff_bal st i / EFFECTIVE_BALANCE_INCREMENT c * brpi * flag_weight fl)
        else (part, num)
    | None => (part, num)
    end.

  Lemma spec_flag_step_some st flags brpi i part num cur fl :
    nthN part i = Some cur ->
    spec_flag_step st flags brpi i (part, num) fl
    = (setN part i (if memN fl flags then add_flag cur fl else cur),
       num + (if memN fl flags && negb (N.testbit cur fl) then eff_bal st i / EFFECTIVE_BALANCE_INCREMENT c * brpi * flag_weight fl else 0)).
  Proof.
    intros H. unfold spec_flag_step. rewrite H. unfold has_flag.
    destruct (memN fl flags); cbn [andb].
    - destruct (N.testbit cur fl) eqn:Hb; cbn [negb].
      + rewrite add_flag_idem by exact Hb. rewrite (setN_same part i cur H), N.add_0_r. reflexivity.
      + reflexivity.
    - rewrite (setN_same part i cur H), N.add_0_r. reflexivity.
  Qed.

  Theorem spec_flags_fold st flags brpi i part num :
    (forall fl, In fl flags -> fl < 3) ->
    fold_left (spec_flag_step st flags brpi i) [0; 1; 2] (part, num) = att_step st (flags_word flags) brpi (part, num) i.
  Proof.
    intros Hfl. unfold att_step. destruct (nthN part i) as [cur|] eqn:Hc.
    2:{ cbn [fold_left]. unfold spec_flag_step. rewrite !Hc. reflexivity. }
    cbn [fold_left].
    rewrite (spec_flag_step_some st flags brpi i part num cur 0 Hc).
    set (c1 := if memN 0 flags then add_flag cur 0 else cur).
    rewrite (spec_flag_step_some st flags brpi i _ _ c1 1 (nthN_setN_same _ _ _ _ Hc)). rewrite setN_setN.
    set (c2 := if memN 1 flags then add_flag c1 1 else c1).
    rewrite (spec_flag_step_some st flags brpi i _ _ c2 2 (nthN_setN_same _ _ _ _ Hc)). rewrite setN_setN.
    set (c3 := if memN 2 flags then add_flag c2 2 else c2).
    assert (Hb1 : N.testbit c1 1 = N.testbit cur 1).
    { unfold c1. destruct (memN 0 flags); [rewrite testbit_add_flag; cbn; apply orb_false_r|reflexivity]. }
    assert (Hb2 : N.testbit c2 2 = N.testbit cur 2).
    { unfold c2, c1. destruct (memN 1 flags), (memN 0 flags); rewrite ?testbit_add_flag; cbn; rewrite ?orb_false_r; reflexivity. }
    rewrite Hb1, Hb2. f_equal.
    - f_equal. apply N.bits_inj. intros k. rewrite N.lor_spec, testbit_flags_word.
      unfold c3, c2, c1.
      destruct (N.eq_dec k 0) as [->|H0]; [|destruct (N.eq_dec k 1) as [->|H1]; [|destruct (N.eq_dec k 2) as [->|H2]]].
      + destruct (memN 0 flags), (memN 1 flags), (memN 2 flags); rewrite ?testbit_add_flag; cbn; rewrite ?orb_false_r; reflexivity.
      + destruct (memN 0 flags), (memN 1 flags), (memN 2 flags); rewrite ?testbit_add_flag; cbn; rewrite ?orb_false_r; reflexivity.
      + destruct (memN 0 flags), (memN 1 flags), (memN 2 flags); rewrite ?testbit_add_flag; cbn; rewrite ?orb_false_r; reflexivity.
      + assert (Hm : memN k flags = false).
        { destruct (memN k flags) eqn:Hm; [|reflexivity]. unfold memN in Hm. apply existsb_exists in Hm.
          destruct Hm as (x & Hx & Hk). apply N.eqb_eq in Hk. subst x. apply Hfl in Hx. lia. }
        rewrite Hm, orb_false_r.
        assert (Hk0 : (0 =? k) = false) by (apply N.eqb_neq; lia).
        assert (Hk1 : (1 =? k) = false) by (apply N.eqb_neq; lia).
        assert (Hk2 : (2 =? k) = false) by (apply N.eqb_neq; lia).
        destruct (memN 0 flags), (memN 1 flags), (memN 2 flags); rewrite ?testbit_add_flag, ?Hk0, ?Hk1, ?Hk2, ?orb_false_r; reflexivity.
    - unfold att_contrib. rewrite !testbit_flags_word.
      change (flag_weight 0) with 14. change (flag_weight 1) with 26. change (flag_weight 2) with 14. lia.
  Qed.

  (* ---------- order independence: sorted indices vs committee order ---------- *)
  Lemma att_step_comm st W brpi pn i j : i <> j -> att_step st W brpi (att_step st W brpi pn i) j = att_step st W brpi (att_step st W brpi pn j) i.
  Proof.
    intros Hij. destruct pn as [part num]. unfold att_step.
    destruct (nthN part i) as [ci|] eqn:Hi; destruct (nthN part j) as [cj|] eqn:Hj;
      unfold setN; rewrite ?(nthN_updN_other part i j _ Hij), ?(nthN_updN_other part j i _ (not_eq_sym Hij)), ?Hi, ?Hj;
      try reflexivity.
    f_equal; [apply updN_comm; exact Hij|lia].
  Qed.
End Att.

Lemma in_insert_sorted x y l : In x (insert_sorted y l) <-> x = y \/ In x l.
Proof.
  induction l as [|z l IH]; cbn [insert_sorted In].
  - intuition.
  - destruct (y <? z); [cbn [In]; intuition|]. destruct (N.eqb_spec y z) as [->|Hne]; cbn [In]; [intuition|].
    rewrite IH. intuition.
Qed.
Lemma in_sort_uniq x l : In x (sort_uniq l) <-> In x l.
Proof.
  induction l as [|y l IH]; cbn [sort_uniq fold_right In]; [tauto|].
  change (fold_right insert_sorted [] l) with (sort_uniq l). rewrite in_insert_sorted, IH. intuition.
Qed.
Lemma fold_insert_sorted {A} (g : A -> N -> A) :
  (forall a i j, i <> j -> g (g a i) j = g (g a j) i) ->
  forall l x a, ~ In x l -> fold_left g (insert_sorted x l) a = fold_left g l (g a x).
Proof.
  intros Hg. induction l as [|y l IH]; intros x a Hx; cbn [insert_sorted fold_left]; [reflexivity|].
  destruct (x <? y); [reflexivity|]. destruct (N.eqb_spec x y) as [->|Hne]; [exfalso; apply Hx; left; reflexivity|].
  cbn [fold_left]. rewrite IH by (intros H; apply Hx; right; exact H). rewrite Hg by congruence. reflexivity.
Qed.
Lemma fold_sort_uniq {A} (g : A -> N -> A) :
  (forall a i j, i <> j -> g (g a i) j = g (g a j) i) ->
  forall l a, NoDup l -> fold_left g (sort_uniq l) a = fold_left g l a.
Proof.
  intros Hg. induction l as [|x l IH]; intros a Hnd; [reflexivity|].
  inversion Hnd as [|? ? Hx Hnd']; subst. change (sort_uniq (x :: l)) with (insert_sorted x (sort_uniq l)).
  rewrite (fold_insert_sorted g Hg) by (rewrite in_sort_uniq; exact Hx). cbn [fold_left]. apply IH. exact Hnd'.
Qed.

Section AttImpl.
  Variable E : Env.
  Variable f : fork.
  Let c := cfg E.

  Theorem att_fold_sorted st W brpi l pn :
    NoDup l -> fold_left (att_step E st W brpi) (sort_uniq l) pn = fold_left (att_step E st W brpi) l pn.
  Proof. intros H. apply fold_sort_uniq; [|exact H]. intros a i j Hij. apply att_step_comm. exact Hij. Qed.

  (* ---------- the uint64 loop of zrnt ---------- *)
  Definition att_unit (brpi : N) : N := MAX_EFFECTIVE_BALANCE c / EFFECTIVE_BALANCE_INCREMENT c * brpi * 54.

  Lemma att_contrib_le W base cur : att_contrib W base cur <= base * 54.
  Proof. unfold att_contrib. destruct (_ && _), (_ && _), (_ && _); lia. Qed.

  Lemma att_flag_step_ok epc st W brpi part num i :
    0 < EFFECTIVE_BALANCE_INCREMENT c ->
    nthN (be_eff_balances epc) i = Some (eff_bal st i) ->
    eff_bal st i <= MAX_EFFECTIVE_BALANCE c ->
    (exists cur, nthN part i = Some cur) ->
    num + att_unit brpi < two64 ->
    att_flag_step E epc W brpi (Ok (part, num)) i = Ok (att_step E st W brpi (part, num) i)
    /\ snd (att_step E st W brpi (part, num) i) <= num + att_unit brpi.
  Proof.
    intros HI Heb Hmax [cur Hcur] Hb. unfold att_flag_step, att_step. cbn [bind]. fold c. rewrite Hcur.
    set (base := eff_bal st i / EFFECTIVE_BALANCE_INCREMENT c * brpi).
    assert (Hbase : base * 54 <= att_unit brpi).
    { unfold base, att_unit. apply N.mul_le_mono_r. apply N.mul_le_mono_r. apply N.div_le_mono; [lia|exact Hmax]. }
    pose proof (att_contrib_le W base cur) as Hctr.
    split; [|cbn [snd]; lia].
    destruct (N.eqb_spec W 0) as [->|HW].
    - rewrite N.lor_0_r, (setN_same part i cur Hcur). unfold att_contrib. rewrite !N.bits_0. cbn [andb]. f_equal. f_equal. lia.
    - rewrite Heb. cbn [bind]. rewrite div64_ok by exact HI. cbn [bind].
      rewrite (mul64_small (eff_bal st i / EFFECTIVE_BALANCE_INCREMENT c) brpi) by (fold base; lia). fold base.
      cbn [of_opt bind].
      change TIMELY_SOURCE_FLAG_INDEX with 0. change TIMELY_TARGET_FLAG_INDEX with 1. change TIMELY_HEAD_FLAG_INDEX with 2.
      change TIMELY_SOURCE_WEIGHT with 14. change TIMELY_TARGET_WEIGHT with 26. change TIMELY_HEAD_WEIGHT with 14.
      f_equal. f_equal. unfold att_contrib in *.
      destruct (N.testbit W 0 && negb (N.testbit cur 0)), (N.testbit W 1 && negb (N.testbit cur 1)),
               (N.testbit W 2 && negb (N.testbit cur 2));
        repeat (rewrite mul64_small by lia);
        repeat match goal with
               | |- context [add64 ?a ?b] =>
                   lazymatch a with context [add64 _ _] => fail | _ => rewrite (add64_small a b) by lia end
               end; lia.
  Qed.

  Lemma att_step_part_length st W brpi pn i : length (fst (att_step E st W brpi pn i)) = length (fst pn).
  Proof.
    destruct pn as [part num]. unfold att_step. destruct (nthN part i); cbn [fst]; [|reflexivity].
    unfold setN. apply updN_length.
  Qed.

  Lemma att_fold_ok epc st W brpi l : forall part num,
    0 < EFFECTIVE_BALANCE_INCREMENT c ->
    (forall i, In i l -> nthN (be_eff_balances epc) i = Some (eff_bal st i) /\ eff_bal st i <= MAX_EFFECTIVE_BALANCE c
                         /\ i < N.of_nat (length part)) ->
    num + N.of_nat (length l) * att_unit brpi < two64 ->
    fold_left (att_flag_step E epc W brpi) l (Ok (part, num)) = Ok (fold_left (att_step E st W brpi) l (part, num)).
  Proof.
    induction l as [|i l IH]; intros part num HI Hl Hb; [reflexivity|].
    cbn [fold_left length] in *. destruct (Hl i (or_introl eq_refl)) as (He & Hm & Hr).
    destruct (att_flag_step_ok epc st W brpi part num i HI He Hm (nthN_lt_Some _ _ Hr) ltac:(lia)) as [Hs Hn].
    rewrite Hs. destruct (att_step E st W brpi (part, num) i) as [part' num'] eqn:Hst. cbn [snd] in Hn.
    apply IH; [exact HI| |lia].
    intros j Hj. destruct (Hl j (or_intror Hj)) as (He' & Hm' & Hr'). split; [exact He'|]. split; [exact Hm'|].
    pose proof (att_step_part_length st W brpi (part, num) i) as Hlen. rewrite Hst in Hlen. cbn [fst] in Hlen. rewrite Hlen. exact Hr'.
  Qed.
End AttImpl.

Lemma fold_left_ext {A B} (g h : A -> B -> A) l : (forall a b, g a b = h a b) -> forall a, fold_left g l a = fold_left h l a.
Proof. intros H. induction l as [|x l IH]; intros a; cbn [fold_left]; [reflexivity|]. rewrite H. apply IH. Qed.

Section AttMain.
  Variable E : Env.
  Variable f : fork.
  Let c := cfg E.

  (* the part of process_attestation (altair .. deneb) after the checks, as in Spec/Block.v *)
  Definition attestation_tail (st : BeaconState) (is_cur : bool) (idxs flags : list N) : option BeaconState :=
    let part := if is_cur then current_epoch_participation st else previous_epoch_participation st in
    let brpi := get_base_reward_per_increment E st in
    let '(part, num) :=
        fold_left (fun (pn : list N * N) i =>
            fold_left (fun (pn : list N * N) fl =>
                let '(part, num) := pn in
                match nthN part i with
                | Some cur =>
                    if memN fl flags && negb (has_flag cur fl)
                    then (setN part i (add_flag cur fl),
                          num + eff_bal st i / EFFECTIVE_BALANCE_INCREMENT c * brpi * flag_weight fl)
                    else (part, num)
                | None => (part, num)
                end) [0; 1; 2] pn)
          idxs (part, 0) in
    let denom := (WEIGHT_DENOMINATOR - PROPOSER_WEIGHT) * WEIGHT_DENOMINATOR / PROPOSER_WEIGHT in
    let st := if is_cur then st <| current_epoch_participation := part |> else st <| previous_epoch_participation := part |> in
    p <- get_beacon_proposer_index E st ;;
    Some (increase_balance st p (num / denom)).

  Lemma process_attestation_altair_nf st att :
    f <> Phase0 ->
    process_attestation E f st att =
    (let bits := vbits (vfield att 0) in
     let data := vfield att 1 in
     let tgt := ad_target data in
     let ce := get_current_epoch E st in
     assert ((cp_epoch tgt =? get_previous_epoch E st) || (cp_epoch tgt =? ce)) ;;
     assert (cp_epoch tgt =? compute_epoch_at_slot E (ad_slot data)) ;;
     assert (ad_slot data + MIN_ATTESTATION_INCLUSION_DELAY c <=? slot st) ;;
     assert (fork_ge f Deneb || (slot st <=? ad_slot data + SLOTS_PER_EPOCH c)) ;;
     assert (ad_index data <? get_committee_count_per_slot E st (cp_epoch tgt)) ;;
     committee <- get_beacon_committee E st (ad_slot data) (ad_index data) ;;
     assert (Nat.eqb (length bits) (length committee)) ;;
     flags <- get_attestation_participation_flag_indices E f st data (slot st - ad_slot data) ;;
     ia <- get_indexed_attestation E st att ;;
     assert (is_valid_indexed_attestation E st ia) ;;
     attestation_tail st (cp_epoch tgt =? ce) (select_bits bits committee) flags).
  Proof. intros Hf. destruct f; [contradiction|reflexivity..]. Qed.

  Lemma spec_att_fold st flags brpi idxs pn :
    (forall fl, In fl flags -> fl < 3) ->
    fold_left (fun (pn : list N * N) i =>
        fold_left (fun (pn : list N * N) fl =>
            let '(part, num) := pn in
            match nthN part i with
            | Some cur =>
                if memN fl flags && negb (has_flag cur fl)
                then (setN part i (add_flag cur fl),
                      num + eff_bal st i / EFFECTIVE_BALANCE_INCREMENT c * brpi * flag_weight fl)
                else (part, num)
            | None => (part, num)
            end) [0; 1; 2] pn) idxs pn
    = fold_left (att_step E st (flags_word flags) brpi) idxs pn.
  Proof.
    intros Hfl. apply fold_left_ext. intros [part num] i.
    exact (spec_flags_fold E st flags brpi i part num Hfl).
  Qed.

  Lemma brpi_impl_ok st epc :
    cfg_sane E -> epc_ok E st epc ->
    div64 (mul64 (EFFECTIVE_BALANCE_INCREMENT c) (BASE_REWARD_FACTOR c)) (be_total_active_stake_sqrt epc)
    = Ok (get_base_reward_per_increment E st).
  Proof.
    intros Hc Hepc. rewrite (eo_sqrt E st epc Hepc). unfold get_base_reward_per_increment. fold c.
    pose proof (cs_incr_pos E Hc) as HI. pose proof (cs_incr_hi E Hc) as HIh. pose proof (cs_factor_hi E Hc) as HF. fold c in HI, HIh, HF.
    assert (HIF : EFFECTIVE_BALANCE_INCREMENT c * BASE_REWARD_FACTOR c < two64).
    { assert (EFFECTIVE_BALANCE_INCREMENT c * BASE_REWARD_FACTOR c <= 2 ^ 40 * 2 ^ 16) by (apply N.mul_le_mono; assumption).
      change (2 ^ 40 * 2 ^ 16) with 72057594037927936 in H. unfold two64. lia. }
    rewrite mul64_small by exact HIF. apply div64_ok.
    unfold integer_squareroot. set (T := get_total_active_balance E st).
    assert (HT : EFFECTIVE_BALANCE_INCREMENT c <= T) by (unfold T, get_total_active_balance, get_total_balance; fold c; lia).
    pose proof (N.sqrt_spec' T) as [_ Hhi].
    destruct (N.eq_0_gt_0_cases (N.sqrt T)) as [Hz|]; [|assumption]. rewrite Hz in Hhi. cbn in Hhi. lia.
  Qed.

  Theorem attestation_rewards_refines st epc is_cur idxs flags :
    cfg_sane E -> epc_ok E st epc -> st_bounds E st ->
    NoDup idxs ->
    (forall fl, In fl flags -> fl < 3) ->
    (forall i, In i idxs -> exists v, nthN (validators st) i = Some v
        /\ is_active_validator v (get_previous_epoch E st) || is_active_validator v (get_current_epoch E st) = true) ->
    length (current_epoch_participation st) = length (validators st) ->
    length (previous_epoch_participation st) = length (validators st) ->
    N.of_nat (length idxs) * att_unit E (get_base_reward_per_increment E st) < 2 ^ 63 ->
    attestation_rewards_impl E epc st is_cur (sort_indices idxs) flags
    = match attestation_tail st is_cur idxs flags with Some s => Ok s | None => Err end.
  Proof.
    intros Hc Hepc Hb Hnd Hfl Hidx Hlc Hlp Hnum.
    unfold attestation_rewards_impl, attestation_tail, sort_indices. cbv zeta. fold c.
    rewrite (brpi_impl_ok st epc Hc Hepc). cbn [bind].
    set (brpi := get_base_reward_per_increment E st) in *.
    set (part0 := if is_cur then current_epoch_participation st else previous_epoch_participation st).
    assert (Hl0 : length part0 = length (validators st)) by (unfold part0; destruct is_cur; assumption).
    change (2 ^ 63) with 9223372036854775808 in Hnum.
    assert (Hlen_su : (length (sort_uniq idxs) <= length idxs)%nat).
    { clear. induction idxs as [|x l IH]; [cbn; lia|]. change (sort_uniq (x :: l)) with (insert_sorted x (sort_uniq l)).
      assert (Hins : forall y m, (length (insert_sorted y m) <= S (length m))%nat).
      { intros y m. induction m as [|z m IHm]; cbn [insert_sorted length]; [lia|].
        destruct (y <? z); cbn [length]; [lia|]. destruct (y =? z); cbn [length]; lia. }
      specialize (Hins x (sort_uniq l)). cbn [length]. lia. }
    rewrite (att_fold_ok E epc st (flags_word flags) brpi (sort_uniq idxs) part0 0).
    2:{ apply (cs_incr_pos E Hc). }
    2:{ intros i Hi. apply (proj1 (in_sort_uniq i idxs)) in Hi. destruct (Hidx i Hi) as (v & Hv & Hact).
        assert (He : eff_bal st i = v_effective_balance v) by (unfold eff_bal; rewrite Hv; reflexivity).
        rewrite He. split; [apply (eo_eff E st epc Hepc i v Hv Hact)|]. split.
        - apply (sb_eff E st Hb). rewrite nthN_eq in Hv. eapply nth_error_In. exact Hv.
        - rewrite Hl0. eapply nthN_Some_lt. exact Hv. }
    2:{ unfold two64. assert (N.of_nat (length (sort_uniq idxs)) * att_unit E brpi <= N.of_nat (length idxs) * att_unit E brpi)
          by (apply N.mul_le_mono_r; lia). lia. }
    cbn [bind]. rewrite (att_fold_sorted E st (flags_word flags) brpi idxs (part0, 0) Hnd).
    rewrite (spec_att_fold st flags brpi idxs (part0, 0) Hfl).
    assert (Hnumb : snd (fold_left (att_step E st (flags_word flags) brpi) idxs (part0, 0)) <= N.of_nat (length idxs) * att_unit E brpi).
    { assert (Hgen : forall l pn, (forall i, In i l -> eff_bal st i <= MAX_EFFECTIVE_BALANCE c) ->
                snd (fold_left (att_step E st (flags_word flags) brpi) l pn) <= snd pn + N.of_nat (length l) * att_unit E brpi).
      { induction l as [|i l IH]; intros [pt nm] Hl; cbn [fold_left length snd]; [lia|].
        etransitivity; [apply IH; intros j Hj; apply Hl; right; exact Hj|].
        assert (snd (att_step E st (flags_word flags) brpi (pt, nm) i) <= nm + att_unit E brpi).
        { unfold att_step. destruct (nthN pt i); cbn [snd]; [|lia].
          pose proof (att_contrib_le (flags_word flags) (eff_bal st i / EFFECTIVE_BALANCE_INCREMENT (cfg E) * brpi) n).
          assert (eff_bal st i / EFFECTIVE_BALANCE_INCREMENT (cfg E) * brpi * 54 <= att_unit E brpi).
          { unfold att_unit. apply N.mul_le_mono_r. apply N.mul_le_mono_r. apply N.div_le_mono; [pose proof (cs_incr_pos E Hc); lia|].
            apply Hl. left. reflexivity. }
          lia. }
        lia. }
      specialize (Hgen idxs (part0, 0)). cbn [snd] in Hgen. rewrite N.add_0_l in Hgen. apply Hgen.
      intros i Hi. destruct (Hidx i Hi) as (v & Hv & _). unfold eff_bal. rewrite Hv. apply (sb_eff E st Hb).
      rewrite nthN_eq in Hv. eapply nth_error_In. exact Hv. }
    destruct (fold_left (att_step E st (flags_word flags) brpi) idxs (part0, 0)) as [part num] eqn:Hfold. cbn [snd] in Hnumb.
    assert (Hpf : get_beacon_proposer_index E
                    (if is_cur then st <| current_epoch_participation := part |> else st <| previous_epoch_participation := part |>)
                  = get_beacon_proposer_index E st).
    { destruct is_cur; apply proposer_frame; reflexivity. }
    rewrite Hpf, <- (eo_proposer E st epc Hepc).
    destruct (be_proposer epc) as [p|] eqn:Hp; [|reflexivity]. cbn [of_opt bind].
    rewrite (eo_proposer E st epc Hepc) in Hp. pose proof (proposer_in_range E st p Hp) as Hpr.
    assert (Hpb : p < N.of_nat (length (balances st))) by (rewrite (sb_lens E st Hb); exact Hpr).
    destruct (nthN_lt_Some _ _ Hpb) as [x Hx].
    assert (Hxb : x < 2 ^ 63) by (apply (sb_bal E st Hb); rewrite nthN_eq in Hx; eapply nth_error_In; exact Hx).
    change (2 ^ 63) with 9223372036854775808 in Hxb.
    set (denom := (WEIGHT_DENOMINATOR - PROPOSER_WEIGHT) * WEIGHT_DENOMINATOR / PROPOSER_WEIGHT).
    assert (Hr : num / denom <= num) by apply Ndiv_le.
    unfold go_increase_balance. rewrite Hx, add64_small by (unfold two64; lia).
    rewrite (setN_updN (balances st) p (fun b => b + num / denom) x Hx). cbn [bind].
    unfold increase_balance. destruct is_cur; reflexivity.
  Qed.
End AttMain.

(* zrnt's GetBlockRootAtSlot / GetBlockRoot index the roots vector without the spec's range assertion
   (slot < state.slot <= slot + SLOTS_PER_HISTORICAL_ROOT).  Inside ProcessAttestation the checks that precede
   the lookups imply it, so the unchecked lookup is the spec's value. *)
Section AttRoots.
  Variable E : Env.
  Let c := cfg E.

  Lemma attestation_roots_in_range st data :
    cfg_sane E ->
    cp_epoch (ad_target data) = compute_epoch_at_slot E (ad_slot data) ->
    (cp_epoch (ad_target data) = get_previous_epoch E st \/ cp_epoch (ad_target data) = get_current_epoch E st) ->
    ad_slot data + MIN_ATTESTATION_INCLUSION_DELAY c <= slot st ->
    get_block_root_at_slot E st (ad_slot data) = nthN (block_roots st) (ad_slot data mod SLOTS_PER_HISTORICAL_ROOT c)
    /\ get_block_root E st (cp_epoch (ad_target data))
       = nthN (block_roots st) (compute_start_slot_at_epoch E (cp_epoch (ad_target data)) mod SLOTS_PER_HISTORICAL_ROOT c).
  Proof.
    intros Hc Hte Hpc Hdelay.
    pose proof (cs_spe_pos E Hc) as Hspe. pose proof (cs_sphr_epochs E Hc) as Hsphr. pose proof (cs_min_delay E Hc) as Hmd.
    fold c in Hspe, Hsphr, Hmd.
    unfold get_block_root, get_block_root_at_slot, compute_start_slot_at_epoch. fold c.
    unfold get_previous_epoch, get_current_epoch, compute_epoch_at_slot, GENESIS_EPOCH in Hte, Hpc |- *. fold c in Hte, Hpc |- *.
    rewrite Hte in Hpc |- *. clear Hte.
    set (S := SLOTS_PER_EPOCH c) in *. set (a := ad_slot data) in *. set (s := slot st) in *.
    assert (Ha : a / S * S <= a) by (rewrite N.mul_comm; apply N.mul_div_le; lia).
    assert (Ha' : a < (a / S + 1) * S).
    { pose proof (N.mul_succ_div_gt a S ltac:(lia)). lia. }
    assert (Hs : s / S * S <= s) by (rewrite N.mul_comm; apply N.mul_div_le; lia).
    assert (Hs' : s < (s / S + 1) * S).
    { pose proof (N.mul_succ_div_gt s S ltac:(lia)). lia. }
    assert (Hwin : s < a / S * S + 2 * S).
    { set (qa := a / S) in *. set (qs := s / S) in *. destruct Hpc as [Hp|Hp].
      - revert Hp. destruct (N.eqb_spec qs 0) as [Hz|Hnz]; intros Hp; [rewrite Hz in *; nia|].
        assert (qs = qa + 1) by lia. nia.
      - nia. }
    split.
    - assert (H1 : (a <? s) && (s <=? a + SLOTS_PER_HISTORICAL_ROOT c) = true).
      { apply andb_true_iff. split; [apply N.ltb_lt|apply N.leb_le]; lia. }
      rewrite H1. reflexivity.
    - assert (H1 : (a / S * S <? s) && (s <=? a / S * S + SLOTS_PER_HISTORICAL_ROOT c) = true).
      { apply andb_true_iff. split; [apply N.ltb_lt|apply N.leb_le]; lia. }
      rewrite H1. reflexivity.
  Qed.
End AttRoots.
