(* The domain on which zrnt's sum-then-apply of the altair delta sets equals the spec's sequential application:
   no intermediate application saturates at zero (and no sum wraps).  Boolean form (used by ImplRun's spec_ok
   as the documented domain) and Prop form (hypothesis of altair_rewards_refines). *)
From Coq Require Import NArith List Bool.
From V Require Import Base.U64 Beacon.Config Beacon.State Beacon.Spec.Helpers Beacon.Spec.Epoch.
Import ListNotations.
Local Open Scope N_scope.

Definition row_ok (b r0 p0 r1 p1 r2 p2 r3 p3 : N) : bool :=
  (p0 <=? b + r0) && (p0 + p1 <=? b + r0 + r1) && (p0 + p1 + p2 <=? b + r0 + r1 + r2) &&
  (b + r0 + r1 + r2 + r3 <? two64) && (p0 + p1 + p2 + p3 <? two64).
Definition rows_ok (B r0 p0 r1 p1 r2 p2 r3 p3 : list N) : Prop :=
  forall j, (j < length B)%nat ->
    row_ok (nth j B 0) (nth j r0 0) (nth j p0 0) (nth j r1 0) (nth j p1 0) (nth j r2 0) (nth j p2 0) (nth j r3 0) (nth j p3 0) = true.
Definition rows_okb (B r0 p0 r1 p1 r2 p2 r3 p3 : list N) : bool :=
  forallb (fun j => row_ok (nth j B 0) (nth j r0 0) (nth j p0 0) (nth j r1 0) (nth j p1 0) (nth j r2 0) (nth j p2 0) (nth j r3 0) (nth j p3 0))
          (seq 0 (length B)).

Section Domain.
  Variable E : Env.
  Variable f : fork.
  Definition with_spec_deltas {A} (st : BeaconState) (dflt : A)
             (k : list N -> list N -> list N -> list N -> list N -> list N -> list N -> list N -> A) : A :=
    match get_flag_index_deltas E st 0, get_flag_index_deltas E st 1, get_flag_index_deltas E st 2,
          get_inactivity_penalty_deltas E f st with
    | Some d0, Some d1, Some d2, Some d3 => k (fst d0) (snd d0) (fst d1) (snd d1) (fst d2) (snd d2) (fst d3) (snd d3)
    | _, _, _, _ => dflt
    end.
  Definition NoMidSaturation (st : BeaconState) : Prop := with_spec_deltas st True (rows_ok (balances st)).
  Definition no_mid_saturationb (st : BeaconState) : bool := with_spec_deltas st true (rows_okb (balances st)).
End Domain.
