(* Generic facts for the delta/score loops: folds of point updates over duplicate-free index lists, filtered
   index lists, membership, sums of selected entries, the participation-flag bit test. *)
From Coq Require Import NArith ZArith Lia List Bool.
From Coq Require Import ZifyN ZifyNat ZifyBool.
From V Require Import Base.U64 Beacon.Config Beacon.State Beacon.Spec.Helpers Beacon.Impl.Flat Beacon.Refine.ListLemmas.
Import ListNotations.
Local Open Scope N_scope.
Ltac Zify.zify_post_hook ::= Z.div_mod_to_equations.

(* ---------- flags & mask != 0  <->  testbit ---------- *)
Lemma land_pow2_testbit x k : (N.land x (2 ^ k) =? 0) = negb (N.testbit x k).
Proof.
  destruct (N.testbit x k) eqn:Hb; cbn [negb].
  - apply N.eqb_neq. intros H0. assert (Hk : N.testbit (N.land x (2 ^ k)) k = true).
    { rewrite N.land_spec, Hb, N.pow2_bits_true. reflexivity. }
    rewrite H0 in Hk. rewrite N.bits_0 in Hk. discriminate.
  - apply N.eqb_eq. apply N.bits_inj. intros m. rewrite N.land_spec, N.bits_0.
    destruct (N.eq_dec k m) as [<-|Hne]; [rewrite Hb; reflexivity|].
    rewrite N.pow2_bits_false by exact Hne. apply andb_false_r.
Qed.

(* ---------- updN ---------- *)
Lemma updN_ext_at {A} (f g : A -> A) (l : list A) i :
  (forall x, nthN l i = Some x -> f x = g x) -> updN l i f = updN l i g.
Proof.
  rewrite !updN_upd_nat. setoid_rewrite nthN_nth_error. generalize (N.to_nat i). clear i. induction l as [|y l IH]; intros [|n] H; cbn [upd_nat nth_error] in *; try reflexivity.
  - rewrite (H y eq_refl). reflexivity.
  - f_equal. apply IH. exact H.
Qed.
Lemma updN_id {A} (f : A -> A) (l : list A) i : (forall x, nthN l i = Some x -> f x = x) -> updN l i f = l.
Proof.
  rewrite !updN_upd_nat. setoid_rewrite nthN_nth_error. generalize (N.to_nat i). clear i. induction l as [|y l IH]; intros [|n] H; cbn [upd_nat nth_error] in *; try reflexivity.
  - rewrite (H y eq_refl). reflexivity.
  - f_equal. apply IH. exact H.
Qed.
Lemma nthN_updN_other {A} (f : A -> A) (l : list A) i j : i <> j -> nthN (updN l i f) j = nthN l j.
Proof.
  intros Hne. rewrite !nthN_nth_error, updN_upd_nat. rewrite upd_nat_nth.
  destruct (Nat.eqb_spec (N.to_nat i) (N.to_nat j)) as [He|_]; [lia|reflexivity].
Qed.
Lemma nthN_updN_same {A} (f : A -> A) (l : list A) i : nthN (updN l i f) i = option_map f (nthN l i).
Proof. rewrite !nthN_nth_error, updN_upd_nat. rewrite upd_nat_nth, Nat.eqb_refl. reflexivity. Qed.
Lemma setN_as_updN {A} (g : A -> A) (l : list A) i b : nthN l i = Some b -> setN l i (g b) = updN l i g.
Proof.
  intros H. unfold setN. apply updN_ext_at. intros x Hx. rewrite H in Hx. inversion Hx. reflexivity.
Qed.
Lemma nthN_in_range {A} (l : list A) i : i < N.of_nat (length l) -> exists x, nthN l i = Some x.
Proof.
  intros H. rewrite nthN_nth_error. destruct (nth_error l (N.to_nat i)) as [x|] eqn:Hn; [exists x; reflexivity|].
  apply nth_error_None in Hn. lia.
Qed.

(* folds of point updates agree when the update functions agree on the ORIGINAL entries (no index twice) *)
Lemma fold_updN_ext {A} (f g : N -> A -> A) : forall (L : list N) (init : list A),
  NoDup L ->
  (forall i x, In i L -> nthN init i = Some x -> f i x = g i x) ->
  fold_left (fun l i => updN l i (f i)) L init = fold_left (fun l i => updN l i (g i)) L init.
Proof.
  intros L init Hnd Hfg.
  assert (Hgen : forall cur, (forall i, In i L -> nthN cur i = nthN init i) ->
            fold_left (fun l i => updN l i (f i)) L cur = fold_left (fun l i => updN l i (g i)) L cur).
  { induction L as [|i L IH]; intros cur Hcur; [reflexivity|]. cbn [fold_left].
    inversion Hnd as [|? ? Hni Hnd']; subst.
    assert (Hupd : updN cur i (f i) = updN cur i (g i)).
    { apply updN_ext_at. intros x Hx. apply Hfg; [left; reflexivity|]. rewrite <- Hcur by (left; reflexivity). exact Hx. }
    rewrite Hupd. apply IH.
    - exact Hnd'.
    - intros j x Hj. apply Hfg. right. exact Hj.
    - intros j Hj. rewrite nthN_updN_other by (intros ->; contradiction). apply Hcur. right. exact Hj. }
  apply Hgen. reflexivity.
Qed.

(* ---------- filtered index lists ---------- *)
Definition idxs {A} (p : A -> bool) (k : N) (l : list A) : list N :=
  map fst (filter (fun ia => p (snd ia)) (indexed_from k l)).
Lemma idxs_cons {A} (p : A -> bool) k x l : idxs p k (x :: l) = if p x then k :: idxs p (k + 1) l else idxs p (k + 1) l.
Proof. unfold idxs. cbn [indexed_from filter snd]. destruct (p x); reflexivity. Qed.
Lemma idxs_in {A} (p : A -> bool) : forall (l : list A) k i,
  In i (idxs p k l) <-> (k <= i /\ exists x, nth_error l (N.to_nat (i - k)) = Some x /\ p x = true).
Proof.
  induction l as [|y l IH]; intros k i.
  - cbn. split; [intros []|]. intros [_ [x [H _]]]. destruct (N.to_nat (i - k)); discriminate.
  - rewrite idxs_cons. split.
    + intros H. assert (Hc : (p y = true /\ i = k) \/ In i (idxs p (k + 1) l)).
      { destruct (p y) eqn:Hp; [destruct H as [H|H]; [left; split; [reflexivity|symmetry; exact H]|right; exact H]|right; exact H]. }
      destruct Hc as [[Hp ->]|Hin].
      * split; [lia|]. exists y. rewrite N.sub_diag. split; [reflexivity|exact Hp].
      * apply IH in Hin. destruct Hin as [Hk [x [Hx Hp]]]. split; [lia|]. exists x. split; [|exact Hp].
        replace (N.to_nat (i - k)) with (S (N.to_nat (i - (k + 1)))) by lia. exact Hx.
    + intros [Hk [x [Hx Hp]]]. destruct (N.eq_dec i k) as [->|Hne].
      * rewrite N.sub_diag in Hx. cbn in Hx. inversion Hx; subst. rewrite Hp. left. reflexivity.
      * assert (Hin : In i (idxs p (k + 1) l)).
        { apply IH. split; [lia|]. exists x. split; [|exact Hp].
          replace (N.to_nat (i - k)) with (S (N.to_nat (i - (k + 1)))) in Hx by lia. exact Hx. }
        destruct (p y); [right|]; exact Hin.
Qed.
Lemma idxs_NoDup {A} (p : A -> bool) : forall (l : list A) k, NoDup (idxs p k l).
Proof.
  induction l as [|y l IH]; intros k; [constructor|]. rewrite idxs_cons. destruct (p y); [|apply IH].
  constructor; [|apply IH]. intros H. apply idxs_in in H. lia.
Qed.
Lemma idxs_map {A B} (g : A -> B) (p : B -> bool) : forall (l : list A) k, idxs p k (map g l) = idxs (fun x => p (g x)) k l.
Proof. induction l as [|y l IH]; intros k; [reflexivity|]. cbn [map]. rewrite !idxs_cons, IH. reflexivity. Qed.
Lemma idxs_ext {A} (p q : A -> bool) : forall (l : list A) k, (forall x, In x l -> p x = q x) -> idxs p k l = idxs q k l.
Proof.
  induction l as [|y l IH]; intros k H; [reflexivity|]. rewrite !idxs_cons, (H y (or_introl eq_refl)).
  rewrite IH by (intros x Hx; apply H; right; exact Hx). reflexivity.
Qed.
Lemma memN_in x l : memN x l = true <-> In x l.
Proof.
  unfold memN. rewrite existsb_exists. split.
  - intros [y [Hy He]]. apply N.eqb_eq in He. subst. exact Hy.
  - intros H. exists x. split; [exact H|apply N.eqb_refl].
Qed.
Lemma memN_filter (q : N -> bool) x l : memN x (filter q l) = q x && memN x l.
Proof.
  destruct (memN x (filter q l)) eqn:H1.
  - apply memN_in in H1. apply filter_In in H1. destruct H1 as [H1 H2]. apply memN_in in H1. rewrite H1, H2. reflexivity.
  - destruct (q x) eqn:Hq; [|reflexivity]. destruct (memN x l) eqn:Hm; [|reflexivity].
    apply memN_in in Hm. assert (In x (filter q l)) by (apply filter_In; split; assumption).
    apply memN_in in H. congruence.
Qed.
Lemma memN_idxs {A} (p : A -> bool) (l : list A) i x :
  nthN l i = Some x -> memN i (idxs p 0 l) = p x.
Proof.
  intros Hx. rewrite nthN_nth_error in Hx. destruct (p x) eqn:Hp.
  - apply memN_in. apply idxs_in. split; [lia|]. exists x. rewrite N.sub_0_r. split; assumption.
  - destruct (memN i (idxs p 0 l)) eqn:Hm; [|reflexivity]. apply memN_in in Hm. apply idxs_in in Hm.
    destruct Hm as [_ [y [Hy Hpy]]]. rewrite N.sub_0_r in Hy. rewrite Hx in Hy. inversion Hy; subst. congruence.
Qed.

(* ---------- sums ---------- *)
Lemma fold_add_acc l : forall a, fold_left N.add l a = a + fold_left N.add l 0.
Proof.
  induction l as [|y l IH]; intros a; cbn [fold_left]; [lia|]. rewrite (IH (a + y)), (IH (0 + y)). lia.
Qed.
Lemma sumN_cons x l : sumN (x :: l) = x + sumN l.
Proof. unfold sumN. cbn [fold_left]. rewrite fold_add_acc. lia. Qed.
Lemma sumN_nil : sumN [] = 0. Proof. reflexivity. Qed.
Lemma sumN_filter_le (g : N -> N) (q : N -> bool) l : sumN (map g (filter q l)) <= sumN (map g l).
Proof.
  induction l as [|x l IH]; [reflexivity|]. cbn [filter map]. destruct (q x); cbn [map]; rewrite !sumN_cons; lia.
Qed.
