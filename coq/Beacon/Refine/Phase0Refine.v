(* Refinement of zrnt's phase0 attester statuses and attestation deltas.  Part 1: statuses. *)
From Coq Require Import NArith ZArith Lia List Bool Sorted.
From Coq Require Import ZifyN ZifyNat ZifyBool.
From RecordUpdate Require Import RecordSet.
From V Require Import Base.U64 Ssz.SszCore Beacon.Config Beacon.State Beacon.Spec.Helpers Beacon.Spec.Epoch.
From V Require Import Beacon.Impl.Flat Beacon.Impl.Justification Beacon.Impl.AltairAttester Beacon.Impl.Phase0Attester.
From V Require Import Beacon.Refine.ListLemmas Beacon.Refine.FoldLemmas Beacon.Refine.OpsLemmas Beacon.Refine.JustificationRefine Beacon.Refine.AltairRefine.
Import ListNotations RecordSetNotations.
Local Open Scope N_scope.
Ltac Zify.zify_post_hook ::= Z.div_mod_to_equations.

Lemma add64_nw a b : a + b < two64 -> add64 a b = a + b.
Proof. intros H. unfold add64. apply wrap64_small. exact H. Qed.
Lemma mul64_nw a b : a * b < two64 -> mul64 a b = a * b.
Proof. intros H. unfold mul64. apply wrap64_small. exact H. Qed.

(* ---------- indexed maps ---------- *)
Definition imap {A B} (h : N -> A -> B) (l : list A) : list B := map (fun p => h (fst p) (snd p)) (indexed l).
Lemma imap_from_gen {A B} (h : N -> A -> B) : forall (l : list A) k,
  map (fun p => h (fst p) (snd p)) (indexed_from k l) =
  match l with [] => [] | x :: l' => h k x :: map (fun p => h (fst p) (snd p)) (indexed_from (k + 1) l') end.
Proof. intros [|x l] k; reflexivity. Qed.
Lemma imap_imap_from {A B C} (h1 : N -> A -> B) (h2 : N -> B -> C) : forall (l : list A) k,
  map (fun p => h2 (fst p) (snd p)) (indexed_from k (map (fun p => h1 (fst p) (snd p)) (indexed_from k l))) =
  map (fun p => h2 (fst p) (h1 (fst p) (snd p))) (indexed_from k l).
Proof. induction l as [|x l IH]; intros k; cbn [indexed_from map fst snd]; [reflexivity|]. f_equal. apply IH. Qed.
Lemma imap_imap {A B C} (h1 : N -> A -> B) (h2 : N -> B -> C) (l : list A) :
  imap h2 (imap h1 l) = imap (fun i x => h2 i (h1 i x)) l.
Proof. unfold imap, indexed. apply imap_imap_from. Qed.
Lemma imap_length {A B} (h : N -> A -> B) (l : list A) : length (imap h l) = length l.
Proof.
  unfold imap, indexed. rewrite map_length. generalize 0. induction l as [|x l IH]; intros k; cbn [indexed_from length]; [reflexivity|]. rewrite IH. reflexivity.
Qed.
Lemma imap_ext {A B} (h1 h2 : N -> A -> B) (l : list A) :
  (forall i x, nthN l i = Some x -> h1 i x = h2 i x) -> imap h1 l = imap h2 l.
Proof.
  unfold imap, indexed. intros H. apply map_ext_in. intros [i x] Hin. cbn [fst snd].
  apply indexed_from_fst_bounds in Hin. destruct Hin as [_ Hn]. rewrite N.sub_0_r in Hn. apply H. rewrite nthN_nth_error. exact Hn.
Qed.
Lemma imap_id {A} (l : list A) : imap (fun _ x => x) l = l.
Proof.
  unfold imap, indexed. generalize 0. induction l as [|x l IH]; intros k; cbn [indexed_from map snd]; [reflexivity|]. rewrite IH. reflexivity.
Qed.
Lemma nthN_imap {A B} (h : N -> A -> B) (l : list A) i : nthN (imap h l) i = option_map (h i) (nthN l i).
Proof.
  rewrite !nthN_nth_error. unfold imap, indexed.
  assert (Hg : forall (l : list A) k j, nth_error (map (fun p => h (fst p) (snd p)) (indexed_from k l)) j = option_map (h (k + N.of_nat j)) (nth_error l j)).
  { clear. induction l as [|x l IH]; intros k [|j]; cbn [indexed_from map nth_error option_map]; try reflexivity.
    - rewrite N.add_0_r. reflexivity.
    - rewrite IH. f_equal. f_equal. lia. }
  rewrite Hg. f_equal. f_equal. lia.
Qed.

(* ---------- point updates of every participant = an indexed map (idempotent update) ---------- *)
Section UpdateParticipants.
  Context {A : Type} (g : A -> A) (Hidem : forall s, g (g s) = g s).
  Lemma update_one (sts : list A) p : p < N.of_nat (length sts) ->
    updN sts p g = imap (fun i s => if i =? p then g s else s) sts.
  Proof.
    intros Hp. rewrite updN_upd_nat. unfold imap, indexed.
    assert (Hg : forall (l : list A) k j, upd_nat l j g = map (fun q => if fst q =? k + N.of_nat j then g (snd q) else snd q) (indexed_from k l)).
    { clear. induction l as [|x l IH]; intros k [|j]; cbn [upd_nat indexed_from map fst snd]; try reflexivity.
      - rewrite N.add_0_r, N.eqb_refl. f_equal.
        assert (Hid : forall (l : list A) k', k < k' -> map (fun q => if fst q =? k then g (snd q) else snd q) (indexed_from k' l) = l).
        { induction l0 as [|y l0 IH0]; intros k' Hk; cbn [indexed_from map fst snd]; [reflexivity|].
          destruct (N.eqb_spec k' k); [lia|]. f_equal. apply IH0. lia. }
        symmetry. apply Hid. lia.
      - destruct (N.eqb_spec k (k + N.of_nat (S j))); [lia|]. f_equal. rewrite (IH (k + 1) j). apply map_ext. intros q.
        replace (k + 1 + N.of_nat j) with (k + N.of_nat (S j)) by lia. reflexivity. }
    rewrite (Hg sts 0 (N.to_nat p)). apply map_ext. intros q. replace (0 + N.of_nat (N.to_nat p)) with p by lia. reflexivity.
  Qed.
End UpdateParticipants.

Lemma update_participants_spec (g : AttesterStatus -> AttesterStatus) :
  (forall s, g (g s) = g s) ->
  forall parts sts, (forall p, In p parts -> p < N.of_nat (length sts)) ->
  update_participants g parts sts = Some (imap (fun i s => if memN i parts then g s else s) sts).
Proof.
  intros Hidem. unfold update_participants. induction parts as [|p parts IH]; intros sts Hin.
  - cbn [fold_left]. f_equal. etransitivity; [symmetry; apply imap_id|]. apply imap_ext. intros i x _. reflexivity.
  - cbn [fold_left]. assert (Hp : p < N.of_nat (length sts)) by (apply Hin; left; reflexivity).
    destruct (nthN_in_range sts p Hp) as [s0 Hs0]. rewrite Hs0.
    rewrite (update_one g sts p Hp). rewrite IH.
    + f_equal. rewrite imap_imap. apply imap_ext. intros i x _. unfold memN. cbn [existsb].
      destruct (N.eqb_spec i p) as [->|Hne]; cbn [orb].
      * destruct (existsb (N.eqb p) parts); [apply Hidem|reflexivity].
      * reflexivity.
    + intros q Hq. rewrite imap_length. apply Hin. right. exact Hq.
Qed.

Lemma note_inclusion_idem d p s : note_inclusion d p (note_inclusion d p s) = note_inclusion d p s.
Proof.
  unfold note_inclusion.
  destruct ((as_attested_proposer s =? VALIDATOR_INDEX_MARKER) || (d <? as_inclusion_delay s)) eqn:H1; cbn [as_attested_proposer as_inclusion_delay].
  - rewrite N.ltb_irrefl, orb_false_r. destruct (p =? VALIDATOR_INDEX_MARKER); reflexivity.
  - rewrite H1. reflexivity.
Qed.
Lemma mark_idem ip t h s : mark ip t h (mark ip t h s) = mark ip t h s.
Proof.
  unfold mark. destruct s as [d p [a1 a2 a3 a4 a5 a6 a7 a8]]. cbn. destruct ip; cbn; f_equal; f_equal;
    repeat match goal with |- context [?x || ?y || ?y] => rewrite <- (orb_assoc x y y), orb_diag end; reflexivity.
Qed.

Section P0Status.
  Variable E : Env.
  Notation c := (cfg E).
  Variable st : BeaconState.
  Variable committee_of : N -> N -> option (list N).

  Definition att_comm (a : value) : option (list N) := get_beacon_committee E st (ad_slot (pa_data a)) (ad_index (pa_data a)).
  Definition att_parts (a : value) : list N :=
    match att_comm a with Some cm => select_bits (pa_bits a) cm | None => [] end.
  Definition in_att (i : N) (a : value) : bool := memN i (att_parts a).

  (* a pending attestation as every reachable state holds it (process_attestation's own checks) *)
  Record AttOk (a : value) : Prop := mkAttOk {
    ao_epc : committee_of (ad_slot (pa_data a)) (ad_index (pa_data a)) = att_comm a;     (* epc committees = spec committees (C07/C08) *)
    ao_comm : exists cm, att_comm a = Some cm /\ length (pa_bits a) = length cm /\
                         forall x, In x cm -> x < N.of_nat (length (validators st));
    ao_slot : ad_slot (pa_data a) < slot st /\ slot st <= ad_slot (pa_data a) + SLOTS_PER_HISTORICAL_ROOT c;
    ao_proposer : pa_proposer_index a < N.of_nat (length (validators st));
    ao_delay : pa_inclusion_delay a <> 0 }.

  Lemma att_parts_range a : AttOk a -> forall p, In p (att_parts a) -> p < N.of_nat (length (validators st)).
  Proof.
    intros [_ [cm [Hc [Hl Hr]]] _ _ _] p Hp. unfold att_parts in Hp. rewrite Hc in Hp. apply Hr.
    clear -Hp. revert Hp. generalize (pa_bits a). induction cm as [|x cm IH]; intros [|b bs] Hp; cbn [select_bits] in Hp; try destruct Hp.
    destruct b; [destruct Hp as [->|Hp]; [left; reflexivity|right; eapply IH; exact Hp]|right; eapply IH; exact Hp].
  Qed.

  (* zrnt reads the same block-root cell as the spec, for a slot inside the spec's range *)
  Lemma block_root_at_slot_agree s :
    SLOTS_PER_HISTORICAL_ROOT c <> 0 -> s < slot st /\ slot st <= s + SLOTS_PER_HISTORICAL_ROOT c ->
    block_root_at_slot_go c st s = get_block_root_at_slot E st s.
  Proof.
    intros H0 [H1 H2]. unfold block_root_at_slot_go, get_block_root_at_slot.
    destruct (N.eqb_spec (SLOTS_PER_HISTORICAL_ROOT c) 0); [contradiction|].
    destruct (N.ltb_spec s (slot st)); [|lia]. destruct (N.leb_spec (slot st) (s + SLOTS_PER_HISTORICAL_ROOT c)); [|lia]. reflexivity.
  Qed.

  (* the effect of one pending attestation on the status of validator i *)
  Definition att_tgt (target_root : bytes) (a : value) : bool := bytes_eqb (cp_root (ad_target (pa_data a))) target_root.
  Definition att_head (a : value) : bool :=
    match get_block_root_at_slot E st (ad_slot (pa_data a)) with
    | Some r => bytes_eqb (ad_beacon_block_root (pa_data a)) r | None => false end.
  Definition att_upd (note is_prev : bool) (target_root : bytes) (a : value) (i : N) (s : AttesterStatus) : AttesterStatus :=
    if in_att i a
    then mark is_prev (att_tgt target_root a) (att_head a)
              (if note then note_inclusion (pa_inclusion_delay a) (pa_proposer_index a) s else s)
    else s.

  Lemma process_att_imap note is_prev target_root a sts :
    SLOTS_PER_HISTORICAL_ROOT c <> 0 -> N.of_nat (length (block_roots st)) = SLOTS_PER_HISTORICAL_ROOT c ->
    AttOk a -> length sts = length (validators st) ->
    process_att c committee_of st note is_prev target_root (Some sts) a = Some (imap (att_upd note is_prev target_root a) sts).
  Proof.
    intros H0 Hbr Hok Hlen. pose proof (att_parts_range a Hok) as Hr. destruct Hok as [Hepc [cm [Hc [Hl Hcr]]] Hslot Hprop Hdelay].
    unfold process_att. rewrite (block_root_at_slot_agree _ H0 Hslot), Hepc, Hc.
    unfold get_block_root_at_slot. destruct Hslot as [Hs1 Hs2].
    destruct (N.ltb_spec (ad_slot (pa_data a)) (slot st)); [|lia].
    destruct (N.leb_spec (slot st) (ad_slot (pa_data a) + SLOTS_PER_HISTORICAL_ROOT c)); [|lia]. cbn [andb].
    destruct (nthN (block_roots st) (ad_slot (pa_data a) mod SLOTS_PER_HISTORICAL_ROOT c)) as [r|] eqn:Hroot.
    2:{ exfalso. rewrite nthN_nth_error in Hroot. apply nth_error_None in Hroot.
        pose proof (N.mod_lt (ad_slot (pa_data a)) _ H0). lia. }
    rewrite Hl, Nat.eqb_refl. cbn [negb].
    assert (Hparts : select_bits (pa_bits a) cm = att_parts a) by (unfold att_parts; rewrite Hc; reflexivity).
    rewrite Hparts.
    assert (Hhead : bytes_eqb (ad_beacon_block_root (pa_data a)) r = att_head a).
    { unfold att_head, get_block_root_at_slot.
      destruct (N.ltb_spec (ad_slot (pa_data a)) (slot st)); [|lia].
      destruct (N.leb_spec (slot st) (ad_slot (pa_data a) + SLOTS_PER_HISTORICAL_ROOT c)); [|lia]. cbn [andb]. rewrite Hroot. reflexivity. }
    rewrite Hhead. fold (att_tgt target_root a).
    destruct note.
    - rewrite (update_participants_spec _ (note_inclusion_idem _ _)) by (intros p Hp; rewrite Hlen; apply Hr; exact Hp).
      rewrite (update_participants_spec _ (mark_idem _ _ _)) by (intros p Hp; rewrite imap_length, Hlen; apply Hr; exact Hp).
      f_equal. rewrite imap_imap. apply imap_ext. intros i x _. unfold att_upd, in_att. destruct (memN i (att_parts a)); reflexivity.
    - rewrite (update_participants_spec _ (mark_idem _ _ _)) by (intros p Hp; rewrite Hlen; apply Hr; exact Hp).
      first [reflexivity | f_equal; apply imap_ext; intros i x _; unfold att_upd, in_att; destruct (memN i (att_parts a)); reflexivity].
  Qed.

  (* ---------- a whole attestation list ---------- *)
  Definition status_fold (note is_prev : bool) (target_root : bytes) (atts : list value) (i : N) (s : AttesterStatus) : AttesterStatus :=
    fold_left (fun s a => att_upd note is_prev target_root a i s) atts s.

  Lemma process_atts_imap note is_prev target_root : forall atts sts,
    SLOTS_PER_HISTORICAL_ROOT c <> 0 -> N.of_nat (length (block_roots st)) = SLOTS_PER_HISTORICAL_ROOT c ->
    (forall a, In a atts -> AttOk a) -> length sts = length (validators st) ->
    fold_left (process_att c committee_of st note is_prev target_root) atts (Some sts) =
    Some (imap (status_fold note is_prev target_root atts) sts).
  Proof.
    induction atts as [|a atts IH]; intros sts H0 Hbr Hok Hlen.
    - cbn [fold_left]. f_equal. etransitivity; [symmetry; apply imap_id|]. apply imap_ext. intros i x _. reflexivity.
    - cbn [fold_left]. rewrite process_att_imap by (try assumption; apply Hok; left; reflexivity).
      rewrite IH; try assumption.
      + f_equal. rewrite imap_imap. apply imap_ext. intros i x _. reflexivity.
      + intros b Hb. apply Hok. right. exact Hb.
      + rewrite imap_length. exact Hlen.
  Qed.

  (* ---------- flags of one validator after a list ---------- *)
  Lemma note_inclusion_flags d p s : as_flags (note_inclusion d p s) = as_flags s.
  Proof. unfold note_inclusion. destruct (_ || _); reflexivity. Qed.

  Definition or_flags (is_prev : bool) (f : AttFlags) (src tgt head : bool) : AttFlags :=
    if is_prev
    then mkAttFlags (fg_prev_source f || src) (fg_prev_target f || tgt) (fg_prev_head f || head)
                    (fg_curr_source f) (fg_curr_target f) (fg_curr_head f) (fg_unslashed f) (fg_eligible f)
    else mkAttFlags (fg_prev_source f) (fg_prev_target f) (fg_prev_head f)
                    (fg_curr_source f || src) (fg_curr_target f || tgt) (fg_curr_head f || head) (fg_unslashed f) (fg_eligible f).

  Lemma att_upd_flags note is_prev troot a i s :
    as_flags (att_upd note is_prev troot a i s) =
    or_flags is_prev (as_flags s) (in_att i a) (in_att i a && att_tgt troot a) (in_att i a && att_tgt troot a && att_head a).
  Proof.
    unfold att_upd. destruct (in_att i a); cbn [andb].
    - unfold mark. cbn [as_flags]. destruct note; rewrite ?note_inclusion_flags; destruct is_prev; cbn [or_flags];
        destruct (as_flags s); cbn; rewrite ?orb_true_r; reflexivity.
    - destruct is_prev; cbn [or_flags]; destruct (as_flags s); cbn; rewrite ?orb_false_r; reflexivity.
  Qed.
  Lemma or_flags_or ip f a1 a2 a3 b1 b2 b3 :
    or_flags ip (or_flags ip f a1 a2 a3) b1 b2 b3 = or_flags ip f (a1 || b1) (a2 || b2) (a3 || b3).
  Proof. destruct ip; cbn; rewrite !orb_assoc; reflexivity. Qed.

  Lemma status_fold_flags note is_prev troot : forall atts i s,
    as_flags (status_fold note is_prev troot atts i s) =
    or_flags is_prev (as_flags s) (existsb (in_att i) atts) (existsb (fun a => in_att i a && att_tgt troot a) atts)
             (existsb (fun a => in_att i a && att_tgt troot a && att_head a) atts).
  Proof.
    induction atts as [|a atts IH]; intros i s; cbn [status_fold fold_left existsb].
    - destruct is_prev; cbn; destruct (as_flags s); cbn; rewrite ?orb_false_r; reflexivity.
    - fold (status_fold note is_prev troot atts i (att_upd note is_prev troot a i s)). rewrite IH, att_upd_flags, or_flags_or. reflexivity.
  Qed.

  (* ---------- earliest inclusion ---------- *)
  Definition best_step (best : option value) (a : value) : option value :=
    match best with
    | None => Some a
    | Some b => if pa_inclusion_delay a <? pa_inclusion_delay b then Some a else best
    end.
  Lemma min_by_delay_fold : forall l best, min_by_delay best l = fold_left best_step l best.
  Proof.
    induction l as [|a l IH]; intros best; cbn [min_by_delay fold_left]; [reflexivity|].
    destruct best as [b|]; cbn [best_step]; [destruct (pa_inclusion_delay a <? pa_inclusion_delay b)|]; apply IH.
  Qed.

  Definition incl_rel (s : AttesterStatus) (best : option value) : Prop :=
    match best with
    | None => as_attested_proposer s = VALIDATOR_INDEX_MARKER /\ as_inclusion_delay s = 0
    | Some b => as_inclusion_delay s = pa_inclusion_delay b /\ as_attested_proposer s = pa_proposer_index b /\
                pa_proposer_index b <> VALIDATOR_INDEX_MARKER
    end.
  Lemma mark_incl ip t h s : as_inclusion_delay (mark ip t h s) = as_inclusion_delay s /\ as_attested_proposer (mark ip t h s) = as_attested_proposer s.
  Proof. split; reflexivity. Qed.

  Lemma att_upd_incl is_prev troot a i s best :
    incl_rel s best -> pa_proposer_index a <> VALIDATOR_INDEX_MARKER ->
    incl_rel (att_upd true is_prev troot a i s) (if in_att i a then best_step best a else best).
  Proof.
    intros Hrel Hp. unfold att_upd. destruct (in_att i a); [|exact Hrel].
    unfold incl_rel in *. destruct (mark_incl is_prev (att_tgt troot a) (att_head a)
        (note_inclusion (pa_inclusion_delay a) (pa_proposer_index a) s)) as [-> ->].
    unfold note_inclusion. destruct best as [b|]; cbn [best_step].
    - destruct Hrel as [Hd [Hpr Hm]]. rewrite Hpr, Hd.
      destruct (N.eqb_spec (pa_proposer_index b) VALIDATOR_INDEX_MARKER) as [He|_]; [contradiction|]. cbn [orb].
      destruct (pa_inclusion_delay a <? pa_inclusion_delay b); cbn [as_inclusion_delay as_attested_proposer].
      + repeat split; assumption.
      + repeat split; assumption.
    - destruct Hrel as [Hpr Hd]. rewrite Hpr, N.eqb_refl. cbn [orb as_inclusion_delay as_attested_proposer]. repeat split; assumption.
  Qed.
  Lemma status_fold_incl is_prev troot : forall atts i s best,
    (forall a, In a atts -> pa_proposer_index a <> VALIDATOR_INDEX_MARKER) ->
    incl_rel s best ->
    incl_rel (status_fold true is_prev troot atts i s) (fold_left best_step (filter (in_att i) atts) best).
  Proof.
    induction atts as [|a atts IH]; intros i s best Hp Hrel; cbn [status_fold fold_left filter]; [exact Hrel|].
    fold (status_fold true is_prev troot atts i (att_upd true is_prev troot a i s)).
    pose proof (att_upd_incl is_prev troot a i s best Hrel (Hp a (or_introl eq_refl))) as H1.
    destruct (in_att i a); cbn [fold_left]; apply IH; try assumption; intros b Hb; apply Hp; right; exact Hb.
  Qed.
  Lemma status_fold_noincl is_prev troot : forall atts i s,
    as_inclusion_delay (status_fold false is_prev troot atts i s) = as_inclusion_delay s /\
    as_attested_proposer (status_fold false is_prev troot atts i s) = as_attested_proposer s.
  Proof.
    induction atts as [|a atts IH]; intros i s; cbn [status_fold fold_left]; [split; reflexivity|].
    fold (status_fold false is_prev troot atts i (att_upd false is_prev troot a i s)).
    destruct (IH i (att_upd false is_prev troot a i s)) as [-> ->]. unfold att_upd. destruct (in_att i a); split; reflexivity.
  Qed.
End P0Status.

(* ================= Part 2: the spec's index sets ================= *)
Lemma all_some_map_some {A B} (g : A -> option B) (h : A -> B) : forall l,
  (forall a, In a l -> g a = Some (h a)) -> all_some (map g l) = Some (map h l).
Proof.
  induction l as [|a l IH]; intros H; cbn [map all_some]; [reflexivity|].
  rewrite (H a (or_introl eq_refl)), IH by (intros b Hb; apply H; right; exact Hb). reflexivity.
Qed.

Lemma existsb_ext {A} (p q : A -> bool) l : (forall a, p a = q a) -> existsb p l = existsb q l.
Proof. intros H. induction l as [|a l IH]; cbn [existsb]; [reflexivity|]. rewrite H, IH. reflexivity. Qed.

Section P0Spec.
  Variable E : Env.
  Notation c := (cfg E).
  Variable st : BeaconState.
  Variable committee_of : N -> N -> option (list N).
  Let n := length (validators st).

  Lemma attesting_indices_ok a : AttOk E st committee_of a -> get_attesting_indices E st (pa_data a) (pa_bits a) = Some (att_parts E st a).
  Proof.
    intros [_ [cm [Hc _]] _ _ _]. unfold get_attesting_indices, att_parts. unfold att_comm in *. rewrite Hc. reflexivity.
  Qed.

  (* get_unslashed_attesting_indices as a filter of 0..n-1 *)
  Definition unsl_sel (atts : list value) (i : N) : bool := negb (is_slashed st i) && existsb (in_att E st i) atts.
  Lemma unslashed_attesting_spec atts :
    (forall a, In a atts -> AttOk E st committee_of a) ->
    get_unslashed_attesting_indices E st atts = Some (filter (unsl_sel atts) (seqN 0 n)).
  Proof.
    intros Hok. unfold get_unslashed_attesting_indices.
    rewrite (all_some_map_some _ (att_parts E st)) by (intros a Ha; apply attesting_indices_ok; apply Hok; exact Ha).
    f_equal. apply sorted_lt_ext.
    - apply sorted_filter. apply sort_uniq_sorted.
    - apply sorted_filter. apply seqN_sorted.
    - intros x. rewrite !filter_In, sort_uniq_in, in_concat_map, seqN_in. unfold unsl_sel.
      split.
      + intros [[a [Ha Hx]] Hs]. split.
        * split; [lia|]. rewrite N.add_0_l. eapply att_parts_range; [apply Hok; exact Ha|exact Hx].
        * rewrite Hs. cbn [andb]. apply existsb_exists. exists a. split; [exact Ha|]. unfold in_att. apply memN_in. exact Hx.
      + intros [_ Hs]. apply andb_prop in Hs. destruct Hs as [Hs He]. split; [|exact Hs].
        apply existsb_exists in He. destruct He as [a [Ha Hx]]. exists a. split; [exact Ha|]. apply memN_in. exact Hx.
  Qed.
  Lemma memN_unsl atts i : i < N.of_nat n -> memN i (filter (unsl_sel atts) (seqN 0 n)) = unsl_sel atts i.
  Proof.
    intros Hi. rewrite memN_filter. assert (H : memN i (seqN 0 n) = true) by (apply memN_in; apply seqN_in; lia).
    rewrite H. apply andb_true_r.
  Qed.

  (* ---------- matching attestations ---------- *)
  Definition tgt_root (e : N) : bytes := match get_block_root E st e with Some r => r | None => [] end.

  Lemma matching_source_prev : GENESIS_EPOCH < get_current_epoch E st ->
    get_matching_source_attestations E st (get_previous_epoch E st) = Some (previous_epoch_attestations st).
  Proof.
    intros Hce. unfold get_matching_source_attestations. rewrite N.eqb_refl. cbn [orb].
    assert (H : (get_previous_epoch E st =? get_current_epoch E st) = false).
    { unfold get_previous_epoch, GENESIS_EPOCH in *. destruct (N.eqb_spec (get_current_epoch E st) 0); [lia|]. apply N.eqb_neq. lia. }
    rewrite H. reflexivity.
  Qed.
  Lemma matching_source_cur :
    get_matching_source_attestations E st (get_current_epoch E st) = Some (current_epoch_attestations st).
  Proof. unfold get_matching_source_attestations. rewrite N.eqb_refl, orb_true_r. reflexivity. Qed.

  Lemma matching_target_gen e src :
    get_matching_source_attestations E st e = Some src ->
    (exists r, get_block_root E st e = Some r) ->
    get_matching_target_attestations E st e = Some (filter (att_tgt (tgt_root e)) src).
  Proof.
    intros Hs [r Hr]. unfold get_matching_target_attestations. rewrite Hs. destruct src as [|a src]; [reflexivity|].
    unfold tgt_root. rewrite Hr. reflexivity.
  Qed.
  Lemma matching_head_gen e src :
    get_matching_source_attestations E st e = Some src ->
    (exists r, get_block_root E st e = Some r) ->
    (forall a, In a src -> AttOk E st committee_of a) -> SLOTS_PER_HISTORICAL_ROOT c <> 0 ->
    N.of_nat (length (block_roots st)) = SLOTS_PER_HISTORICAL_ROOT c ->
    get_matching_head_attestations E st e = Some (filter (att_head E st) (filter (att_tgt (tgt_root e)) src)).
  Proof.
    intros Hs Hr Hok H0 Hbr. unfold get_matching_head_attestations. rewrite (matching_target_gen e src Hs Hr).
    set (tg := filter (att_tgt (tgt_root e)) src).
    assert (Htg : forall a, In a tg -> AttOk E st committee_of a) by (intros a Ha; apply Hok; unfold tg in Ha; apply filter_In in Ha; apply Ha).
    rewrite (all_some_map_some _ (fun a => (a, att_head E st a))).
    - f_equal. clear. induction tg as [|a tg IH]; cbn [map filter snd fst]; [reflexivity|].
      destruct (att_head E st a); cbn [map fst]; rewrite IH; reflexivity.
    - intros a Ha. destruct (Htg a Ha) as [_ _ [Hs1 Hs2] _ _]. unfold att_head, get_block_root_at_slot.
      destruct (N.ltb_spec (ad_slot (pa_data a)) (slot st)); [|lia].
      destruct (N.leb_spec (slot st) (ad_slot (pa_data a) + SLOTS_PER_HISTORICAL_ROOT c)); [|lia]. cbn [andb].
      destruct (nthN (block_roots st) (ad_slot (pa_data a) mod SLOTS_PER_HISTORICAL_ROOT c)) as [r|] eqn:Hroot; [reflexivity|].
      exfalso. rewrite nthN_nth_error in Hroot. apply nth_error_None in Hroot.
      pose proof (N.mod_lt (ad_slot (pa_data a)) _ H0). lia.
  Qed.

  (* membership in the three unslashed attesting sets, in the shape of zrnt's flags *)
  Lemma unsl_sel_target r src i :
    unsl_sel (filter (att_tgt r) src) i = negb (is_slashed st i) && existsb (fun a => in_att E st i a && att_tgt r a) src.
  Proof. unfold unsl_sel. rewrite existsb_filter. f_equal. apply existsb_ext. intros a. apply andb_comm. Qed.
  Lemma unsl_sel_head r src i :
    unsl_sel (filter (att_head E st) (filter (att_tgt r) src)) i =
    negb (is_slashed st i) && existsb (fun a => in_att E st i a && att_tgt r a && att_head E st a) src.
  Proof.
    unfold unsl_sel. rewrite !existsb_filter. f_equal. apply existsb_ext. intros a.
    destruct (att_tgt r a), (att_head E st a), (in_att E st i a); reflexivity.
  Qed.
End P0Spec.

(* ================= Part 3: zrnt's attester data = the spec's attesting balances ================= *)
Lemma sumN_filter_if (g : N -> N) (q : N -> bool) l : sumN (map g (filter q l)) = sumN (map (fun i => if q i then g i else 0) l).
Proof.
  induction l as [|x l IH]; [reflexivity|]. cbn [filter map]. rewrite sumN_cons. destruct (q x); cbn [map]; rewrite ?sumN_cons, IH; lia.
Qed.
Lemma combine_imap {A B} (h : N -> A -> B) (l : list A) : combine (imap h l) l = map (fun p => (h (fst p) (snd p), snd p)) (indexed l).
Proof.
  unfold imap, indexed. generalize 0. induction l as [|x l IH]; intros k; cbn [indexed_from map combine fst snd]; [reflexivity|].
  f_equal. apply IH.
Qed.
Lemma fold_left_map {A B C} (f : A -> B -> A) (g : C -> B) : forall l a, fold_left f (map g l) a = fold_left (fun a x => f a (g x)) l a.
Proof. induction l as [|x l IH]; intros a; cbn [map fold_left]; [reflexivity|]. apply IH. Qed.
Lemma sumN_seqN_S (g : N -> N) k m : sumN (map g (seqN k (S m))) = g k + sumN (map g (seqN (k + 1) m)).
Proof. cbn [seqN map]. apply sumN_cons. Qed.
Lemma sumN_le_seq (g h : N -> N) : forall m k, (forall i, g i <= h i) -> sumN (map g (seqN k m)) <= sumN (map h (seqN k m)).
Proof. induction m as [|m IH]; intros k H; [reflexivity|]. rewrite !sumN_seqN_S. specialize (IH (k + 1) H). specialize (H k). lia. Qed.

Section P0Data.
  Variable E : Env.
  Notation c := (cfg E).
  Notation INC := (EFFECTIVE_BALANCE_INCREMENT c).
  Variable st : BeaconState.
  Variable committee_of : N -> N -> option (list N).
  Let n := length (validators st).
  Let pe := get_previous_epoch E st.
  Let ce := get_current_epoch E st.
  Let srcP := previous_epoch_attestations st.
  Let srcC := current_epoch_attestations st.
  Let rootP := tgt_root E st pe.
  Let rootC := tgt_root E st ce.

  Record P0Hyps (epc : EpcView) : Prop := mkP0Hyps {
    ph_ce : GENESIS_EPOCH < ce;
    ph_prev_epoch : epc_prev_epoch epc = pe;
    ph_cur_epoch : epc_cur_epoch epc = ce;
    ph_total : epc_total_active_stake epc = get_total_active_balance E st;
    ph_spe : SLOTS_PER_EPOCH c <> 0;
    ph_sphr : SLOTS_PER_HISTORICAL_ROOT c <> 0;
    ph_roots_len : N.of_nat (length (block_roots st)) = SLOTS_PER_HISTORICAL_ROOT c;
    ph_start : ce * SLOTS_PER_EPOCH c < two64;
    ph_range_prev : compute_start_slot_at_epoch E pe < slot st /\ slot st <= compute_start_slot_at_epoch E pe + SLOTS_PER_HISTORICAL_ROOT c;
    ph_range_cur : compute_start_slot_at_epoch E ce < slot st /\ slot st <= compute_start_slot_at_epoch E ce + SLOTS_PER_HISTORICAL_ROOT c;
    ph_prev_ok : forall a, In a srcP -> AttOk E st committee_of a;
    ph_cur_ok : forall a, In a srcC -> AttOk E st committee_of a;
    ph_bal_len : length (balances st) = n;
    ph_inc : INC <> 0;
    ph_pe1 : pe + 1 < two64;
    ph_sum : sumN (map (eff_bal st) (seqN 0 n)) < two64 }.

  (* the final status of validator i *)
  Definition final_status (i : N) (fl : FlatValidator) : AttesterStatus :=
    status_fold E st false false rootC srcC i (status_fold E st true true rootP srcP i (init_status pe fl)).
  Definition f_ps (i : N) := existsb (in_att E st i) srcP.
  Definition f_pt (i : N) := existsb (fun a => in_att E st i a && att_tgt rootP a) srcP.
  Definition f_ph (i : N) := existsb (fun a => in_att E st i a && att_tgt rootP a && att_head E st a) srcP.
  Definition f_cs (i : N) := existsb (in_att E st i) srcC.
  Definition f_ct (i : N) := existsb (fun a => in_att E st i a && att_tgt rootC a) srcC.
  Definition f_ch (i : N) := existsb (fun a => in_att E st i a && att_tgt rootC a && att_head E st a) srcC.
  Lemma final_flags i fl :
    as_flags (final_status i fl) =
    mkAttFlags (f_ps i) (f_pt i) (f_ph i) (f_cs i) (f_ct i) (f_ch i) (negb (fl_slashed fl)) (eligible_cond pe fl).
  Proof. unfold final_status. rewrite !status_fold_flags. reflexivity. Qed.

  Lemma root_at_epoch e :
    SLOTS_PER_EPOCH c <> 0 -> SLOTS_PER_HISTORICAL_ROOT c <> 0 -> N.of_nat (length (block_roots st)) = SLOTS_PER_HISTORICAL_ROOT c ->
    e * SLOTS_PER_EPOCH c < two64 ->
    compute_start_slot_at_epoch E e < slot st /\ slot st <= compute_start_slot_at_epoch E e + SLOTS_PER_HISTORICAL_ROOT c ->
    exists r, get_block_root E st e = Some r /\ tgt_root E st e = r /\
              epoch_start_slot_go c e = Some (e * SLOTS_PER_EPOCH c) /\ block_root_at_slot_go c st (e * SLOTS_PER_EPOCH c) = Some r.
  Proof.
    intros Hspe Hsphr Hlen Hb Hr. pose proof (block_root_at_slot_agree E st committee_of _ Hsphr Hr) as Hag.
    unfold compute_start_slot_at_epoch in *.
    destruct (get_block_root_at_slot E st (e * SLOTS_PER_EPOCH c)) as [r|] eqn:Hg.
    - exists r. split; [unfold get_block_root, compute_start_slot_at_epoch; exact Hg|].
      split; [unfold tgt_root, get_block_root, compute_start_slot_at_epoch; rewrite Hg; reflexivity|].
      split; [apply (epoch_start_slot_ok E); assumption|exact Hag].
    - exfalso. unfold get_block_root_at_slot in Hg. destruct Hr as [H1 H2].
      destruct (N.ltb_spec (e * SLOTS_PER_EPOCH c) (slot st)); [|lia].
      destruct (N.leb_spec (slot st) (e * SLOTS_PER_EPOCH c + SLOTS_PER_HISTORICAL_ROOT c)); [|lia]. cbn [andb] in Hg.
      rewrite nthN_nth_error in Hg. apply nth_error_None in Hg. pose proof (N.mod_lt (e * SLOTS_PER_EPOCH c) _ Hsphr). lia.
  Qed.

  Definition sel_sum0 (q : N -> bool) (k : N) (m : nat) : N := sumN (map (fun i => if q i then eff_bal st i else 0) (seqN k m)).
  Definition un (i : N) : bool := negb (is_slashed st i).

  Lemma stake_fold0 : forall vals' pre s t h x,
    validators st = pre ++ vals' ->
    s + sumN (map (eff_bal st) (seqN (N.of_nat (length pre)) (length vals'))) < two64 ->
    t + sumN (map (eff_bal st) (seqN (N.of_nat (length pre)) (length vals'))) < two64 ->
    h + sumN (map (eff_bal st) (seqN (N.of_nat (length pre)) (length vals'))) < two64 ->
    x + sumN (map (eff_bal st) (seqN (N.of_nat (length pre)) (length vals'))) < two64 ->
    fold_left (fun acc p => stake_step0 acc (final_status (fst p) (snd p), snd p))
              (indexed_from (N.of_nat (length pre)) (map flatten vals')) (s, t, h, x) =
    (s + sel_sum0 (fun i => f_ps i && un i) (N.of_nat (length pre)) (length vals'),
     t + sel_sum0 (fun i => f_ps i && un i && f_pt i) (N.of_nat (length pre)) (length vals'),
     h + sel_sum0 (fun i => f_ps i && un i && f_pt i && f_ph i) (N.of_nat (length pre)) (length vals'),
     x + sel_sum0 (fun i => f_ct i && un i) (N.of_nat (length pre)) (length vals')).
  Proof.
    induction vals' as [|v vals' IH]; intros pre s t h x Hv Hs Ht Hh Hx.
    - cbn [map indexed_from fold_left length]. unfold sel_sum0. cbn [seqN map]. rewrite sumN_nil, !N.add_0_r. reflexivity.
    - cbn [length] in Hs, Ht, Hh, Hx. cbn [map indexed_from fold_left length fst snd]. unfold sel_sum0. rewrite !sumN_seqN_S. rewrite sumN_seqN_S in Hs, Ht, Hh, Hx.
      set (k := N.of_nat (length pre)) in *.
      assert (Hnth : nthN (validators st) k = Some v) by (rewrite Hv; apply nthN_app).
      assert (Heff : eff_bal st k = v_effective_balance v) by (unfold eff_bal; rewrite Hnth; reflexivity).
      assert (Hun : un k = negb (v_slashed v)) by (unfold un, is_slashed; rewrite Hnth; reflexivity).
      unfold stake_step0 at 2. rewrite final_flags. cbn [fg_prev_source fg_unslashed fg_prev_target fg_prev_head fg_curr_target flatten fl_slashed fl_effective_balance].
      rewrite <- Hun, <- Heff.
      replace (k + 1) with (N.of_nat (length (pre ++ [v]))) in * by (rewrite app_length; cbn [length]; lia).
      assert (Hv' : validators st = (pre ++ [v]) ++ vals') by (rewrite <- app_assoc; exact Hv).
      set (T := sumN (map (eff_bal st) (seqN (N.of_nat (length (pre ++ [v]))) (length vals')))) in *.
      destruct (f_ps k && un k), (f_pt k), (f_ph k), (f_ct k && un k); cbn [andb];
        repeat match goal with |- context [add64 ?a ?b] => rewrite (add64_nw a b) by lia end;
        rewrite (IH (pre ++ [v])) by (try exact Hv'; fold T; lia);
        rewrite ?N.add_0_l, ?N.add_assoc; reflexivity.
  Qed.


  Lemma imap_map {A B C} (h : N -> B -> C) (g : A -> B) (l : list A) : imap h (map g l) = imap (fun i x => h i (g x)) l.
  Proof.
    unfold imap, indexed. generalize 0. induction l as [|x l IH]; intros k; cbn [map indexed_from fst snd]; [reflexivity|]. f_equal. apply IH.
  Qed.

  Lemma sel_sum0_ext q1 q2 k m : (forall i, q1 i = q2 i) -> sel_sum0 q1 k m = sel_sum0 q2 k m.
  Proof. intros H. unfold sel_sum0. f_equal. apply map_ext. intros i. rewrite H. reflexivity. Qed.

  Lemma attesting_balance_spec atts :
    (forall a, In a atts -> AttOk E st committee_of a) ->
    get_attesting_balance E st atts = Some (N.max INC (sel_sum0 (unsl_sel E st atts) 0 n)).
  Proof.
    intros Hok. unfold get_attesting_balance. rewrite (unslashed_attesting_spec E st committee_of atts Hok).
    unfold get_total_balance. fold n. rewrite sumN_filter_if. reflexivity.
  Qed.

  Definition statuses_of (flats : list FlatValidator) : list AttesterStatus := imap final_status flats.

  Theorem phase0_attester_data_refines (epc : EpcView) :
    P0Hyps epc ->
    exists ad,
      compute_epoch_attester_data0 c committee_of epc (flatten_validators (validators st)) st = Some ad /\
      p0_prev_epoch ad = pe /\ p0_cur_epoch ad = ce /\
      p0_flats ad = flatten_validators (validators st) /\
      p0_statuses ad = statuses_of (flatten_validators (validators st)) /\
      p0_prev_source_stake ad = N.max INC (sel_sum0 (fun i => f_ps i && un i) 0 n) /\
      p0_prev_target_stake ad = N.max INC (sel_sum0 (fun i => f_ps i && un i && f_pt i) 0 n) /\
      p0_prev_head_stake ad = N.max INC (sel_sum0 (fun i => f_ps i && un i && f_pt i && f_ph i) 0 n) /\
      p0_cur_target_stake ad = N.max INC (sel_sum0 (fun i => f_ct i && un i) 0 n).
  Proof.
    intros [Hce Hpe Hcue Htot Hspe Hsphr Hrl Hstart Hrp Hrc Hpok Hcok Hbl Hinc Hpe1 Hsum].
    unfold compute_epoch_attester_data0. rewrite Hpe, Hcue.
    assert (Hpe_le : pe * SLOTS_PER_EPOCH c < two64).
    { unfold pe, get_previous_epoch. fold ce. destruct (ce =? GENESIS_EPOCH); unfold GENESIS_EPOCH; nia. }
    destruct (root_at_epoch pe Hspe Hsphr Hrl Hpe_le Hrp) as [rP [HgP [HtP [HsP HbP]]]].
    destruct (root_at_epoch ce Hspe Hsphr Hrl Hstart Hrc) as [rC [HgC [HtC [HsC HbC]]]].
    unfold process_epoch_atts. rewrite HsP, HbP, N.eqb_refl.
    set (flats := flatten_validators (validators st)).
    assert (Hfl : length flats = length (validators st)) by (unfold flats, flatten_validators; apply map_length).
    rewrite (process_atts_imap E st committee_of true true rP) by (try assumption; rewrite map_length; exact Hfl).
    rewrite HsC, HbC.
    assert (Hne : (ce =? pe) = false).
    { unfold pe, get_previous_epoch. fold ce. unfold GENESIS_EPOCH in *. destruct (N.eqb_spec ce 0); [lia|]. apply N.eqb_neq. lia. }
    rewrite Hne.
    rewrite (process_atts_imap E st committee_of false false rC) by (try assumption; rewrite imap_length, map_length; exact Hfl).
    rewrite imap_map, imap_imap.
    assert (Hst : imap (fun i x => status_fold E st false false rC (current_epoch_attestations st) i
                                     (status_fold E st true true rP (previous_epoch_attestations st) i (init_status pe x))) flats =
                  statuses_of flats).
    { unfold statuses_of. apply imap_ext. intros i x _. unfold final_status, rootP, rootC, srcP, srcC. rewrite HtP, HtC. reflexivity. }
    rewrite Hst. unfold statuses_of at 1. rewrite combine_imap, fold_left_map.
    pose proof (stake_fold0 (validators st) [] 0 0 0 0 eq_refl) as Hf. cbn [length N.of_nat app] in Hf. fold n in Hf.
    unfold flats, flatten_validators, indexed. cbn [fst snd] in Hf. rewrite Hf by lia.
    eexists. split; [reflexivity|]. cbn [p0_prev_epoch p0_cur_epoch p0_flats p0_statuses p0_prev_source_stake p0_prev_target_stake p0_prev_head_stake p0_cur_target_stake].
    rewrite !N.add_0_l. unfold clip_inc.
    repeat split; try reflexivity;
      match goal with |- (if ?x <? _ then _ else _) = _ => destruct (N.ltb_spec x INC); lia end.
  Qed.

  (* the four stakes are the spec's attesting balances (what justification and the rewards use) *)
  Theorem phase0_stakes_spec (epc : EpcView) (ad : Phase0AttesterData) :
    P0Hyps epc ->
    p0_prev_source_stake ad = N.max INC (sel_sum0 (fun i => f_ps i && un i) 0 n) ->
    p0_prev_target_stake ad = N.max INC (sel_sum0 (fun i => f_ps i && un i && f_pt i) 0 n) ->
    p0_prev_head_stake ad = N.max INC (sel_sum0 (fun i => f_ps i && un i && f_pt i && f_ph i) 0 n) ->
    p0_cur_target_stake ad = N.max INC (sel_sum0 (fun i => f_ct i && un i) 0 n) ->
    (match get_matching_source_attestations E st pe with Some a => get_attesting_balance E st a | None => None end) = Some (p0_prev_source_stake ad) /\
    (match get_matching_target_attestations E st pe with Some a => get_attesting_balance E st a | None => None end) = Some (p0_prev_target_stake ad) /\
    (match get_matching_head_attestations E st pe with Some a => get_attesting_balance E st a | None => None end) = Some (p0_prev_head_stake ad) /\
    (match get_matching_target_attestations E st ce with Some a => get_attesting_balance E st a | None => None end) = Some (p0_cur_target_stake ad).
  Proof.
    intros [Hce Hpe Hcue Htot Hspe Hsphr Hrl Hstart Hrp Hrc Hpok Hcok Hbl Hinc Hpe1 Hsum] H1 H2 H3 H4.
    assert (Hpe_le : pe * SLOTS_PER_EPOCH c < two64).
    { unfold pe, get_previous_epoch. fold ce. destruct (ce =? GENESIS_EPOCH); unfold GENESIS_EPOCH; nia. }
    destruct (root_at_epoch pe Hspe Hsphr Hrl Hpe_le Hrp) as [rP [HgP [HtP _]]].
    destruct (root_at_epoch ce Hspe Hsphr Hrl Hstart Hrc) as [rC [HgC [HtC _]]].
    pose proof (matching_source_prev E st Hce) as HsrcP. fold pe srcP in HsrcP.
    pose proof (matching_source_cur E st) as HsrcC. fold ce srcC in HsrcC.
    assert (HfiltP : forall a, In a (filter (att_tgt (tgt_root E st pe)) srcP) -> AttOk E st committee_of a)
      by (intros a Ha; apply Hpok; apply filter_In in Ha; apply Ha).
    assert (HfiltC : forall a, In a (filter (att_tgt (tgt_root E st ce)) srcC) -> AttOk E st committee_of a)
      by (intros a Ha; apply Hcok; apply filter_In in Ha; apply Ha).
    assert (HfiltH : forall a, In a (filter (att_head E st) (filter (att_tgt (tgt_root E st pe)) srcP)) -> AttOk E st committee_of a)
      by (intros a Ha; apply HfiltP; apply filter_In in Ha; apply Ha).
    rewrite HsrcP, (matching_target_gen E st pe srcP HsrcP (ex_intro _ rP HgP)),
            (matching_head_gen E st committee_of pe srcP HsrcP (ex_intro _ rP HgP) Hpok Hsphr Hrl),
            (matching_target_gen E st ce srcC HsrcC (ex_intro _ rC HgC)).
    rewrite !attesting_balance_spec by assumption. rewrite H1, H2, H3, H4. fold rootP rootC.
    repeat split; f_equal; f_equal; apply sel_sum0_ext; intros i.
    - unfold unsl_sel, f_ps, un. apply andb_comm.
    - rewrite unsl_sel_target. unfold f_ps, f_pt, un.
      destruct (negb (is_slashed st i)); cbn [andb]; [|rewrite andb_false_r; reflexivity].
      rewrite andb_true_r.
      destruct (existsb (fun a => in_att E st i a && att_tgt rootP a) srcP) eqn:He; [|rewrite andb_false_r; reflexivity].
      rewrite andb_true_r. symmetry. apply existsb_exists in He. destruct He as [a [Ha Hc]]. apply andb_prop in Hc.
      apply existsb_exists. exists a. split; [exact Ha|apply Hc].
    - rewrite unsl_sel_head. unfold f_ps, f_pt, f_ph, un. fold rootP.
      destruct (negb (is_slashed st i)); cbn [andb]; [|rewrite !andb_false_r; reflexivity].
      rewrite andb_true_r.
      destruct (existsb (fun a => in_att E st i a && att_tgt rootP a && att_head E st a) srcP) eqn:He; [|rewrite andb_false_r; reflexivity].
      rewrite andb_true_r. symmetry. apply existsb_exists in He. destruct He as [a [Ha Hc]].
      apply andb_prop in Hc. destruct Hc as [Hc Hh]. apply andb_prop in Hc. destruct Hc as [Hi Ht].
      apply andb_true_intro. split; apply existsb_exists; exists a; (split; [exact Ha|]); [exact Hi|rewrite Hi, Ht; reflexivity].
    - rewrite unsl_sel_target. unfold f_ct, un. fold rootC. apply andb_comm.
  Qed.
End P0Data.

(* ---- zrnt's loop of AttestationRewardsAndPenalties: eight independent sequences of point additions ---- *)
Section GoLoop.
  Variable c : Config.
  Variables total src_stake tgt_stake head_stake sqrt fd quotient : N.
  Variable leak : bool.
  Definition elt := (N * (AttesterStatus * FlatValidator))%type.
  Definition e_i (x : elt) : N := fst x.
  Definition e_f (x : elt) : AttFlags := as_flags (fst (snd x)).
  Definition e_eff (x : elt) : N := fl_effective_balance (snd (snd x)).
  Definition e_base (x : elt) : N := mul64 (e_eff x) (BASE_REWARD_FACTOR c) / sqrt / BASE_REWARDS_PER_EPOCH.
  Definition e_pr (x : elt) : N := e_base x / PROPOSER_REWARD_QUOTIENT c.
  Definition e_su (x : elt) : bool := fg_prev_source (e_f x) && fg_unslashed (e_f x).
  Definition e_tu (x : elt) : bool := fg_prev_target (e_f x) && fg_unslashed (e_f x).
  Definition e_hu (x : elt) : bool := fg_prev_head (e_f x) && fg_unslashed (e_f x).
  Definition e_el (x : elt) : bool := fg_eligible (e_f x).
  Definition e_comp_r (sel : elt -> bool) (stake : N) (x : elt) : ops :=
    if e_el x && sel x then [(e_i x, if leak then e_base x else mul64 (e_base x) stake / total)] else [].
  Definition e_comp_p (sel : elt -> bool) (x : elt) : ops :=
    if e_el x && negb (sel x) then [(e_i x, e_base x)] else [].
  Definition e_incl_r (x : elt) : ops :=
    if e_su x then [(as_attested_proposer (fst (snd x)), e_pr x);
                    (e_i x, (e_base x - e_pr x) / as_inclusion_delay (fst (snd x)))] else [].
  Definition e_ina_p (x : elt) : ops :=
    if e_el x && leak
    then (e_i x, sub64 (mul64 BASE_REWARDS_PER_EPOCH (e_base x)) (e_pr x)) ::
         (if negb (e_tu x) then [(e_i x, mul64 (e_eff x) fd / quotient)] else [])
    else [].

  Definition d5_apply (d : Deltas5) (L : list elt) : Deltas5 :=
    mkD5 (mkDeltas (foldops64 (flat_map (e_comp_r e_su src_stake) L) (d_rewards (d5_source d)))
                   (foldops64 (flat_map (e_comp_p e_su) L) (d_penalties (d5_source d))))
         (mkDeltas (foldops64 (flat_map (e_comp_r e_tu tgt_stake) L) (d_rewards (d5_target d)))
                   (foldops64 (flat_map (e_comp_p e_tu) L) (d_penalties (d5_target d))))
         (mkDeltas (foldops64 (flat_map (e_comp_r e_hu head_stake) L) (d_rewards (d5_head d)))
                   (foldops64 (flat_map (e_comp_p e_hu) L) (d_penalties (d5_head d))))
         (mkDeltas (foldops64 (flat_map e_incl_r L) (d_rewards (d5_inclusion d))) (d_penalties (d5_inclusion d)))
         (mkDeltas (d_rewards (d5_inactivity d)) (foldops64 (flat_map e_ina_p L) (d_penalties (d5_inactivity d)))).

  Lemma d5_apply_nil d : d5_apply d [] = d.
  Proof. destruct d as [[? ?] [? ?] [? ?] [? ?] [? ?]]. reflexivity. Qed.

  Lemma go_rewards_loop :
    sqrt <> 0 -> PROPOSER_REWARD_QUOTIENT c <> 0 -> total <> 0 -> quotient <> 0 ->
    forall (L : list elt) (d : Deltas5),
    (forall x, In x L -> e_su x = true ->
       as_inclusion_delay (fst (snd x)) <> 0 /\ as_attested_proposer (fst (snd x)) < N.of_nat (length (d_rewards (d5_inclusion d)))) ->
    fold_left (rewards_step c total src_stake tgt_stake head_stake sqrt fd quotient leak) L (Some d) = Some (d5_apply d L).
  Proof.
    intros Hsq Hprq Htot Hq. induction L as [|x L IH]; intros d Hside.
    - cbn [fold_left]. rewrite d5_apply_nil. reflexivity.
    - cbn [fold_left]. destruct x as [i [status fl]].
      assert (Hstep : rewards_step c total src_stake tgt_stake head_stake sqrt fd quotient leak (Some d) (i, (status, fl)) =
                      Some (d5_apply d [(i, (status, fl))])).
      { unfold rewards_step, component_step. destruct (N.eqb_spec sqrt 0); [contradiction|].
        fold (e_base (i, (status, fl))). set (x := (i, (status, fl))) in *.
        change (fl_effective_balance fl) with (e_eff x).
        change (fg_prev_source (as_flags status) && fg_unslashed (as_flags status)) with (e_su x).
        change (fg_prev_target (as_flags status) && fg_unslashed (as_flags status)) with (e_tu x).
        change (fg_prev_head (as_flags status) && fg_unslashed (as_flags status)) with (e_hu x).
        change (fg_eligible (as_flags status)) with (e_el x).
        destruct (N.eqb_spec (PROPOSER_REWARD_QUOTIENT c) 0); [contradiction|].
        destruct (N.eqb_spec total 0); [contradiction|]. destruct (N.eqb_spec quotient 0); [contradiction|]. cbn [orb].
        unfold d5_apply. cbn [flat_map app]. rewrite !app_nil_r.
        unfold e_comp_r, e_comp_p, e_incl_r, e_ina_p. fold (e_pr x).
        change (as_attested_proposer status) with (as_attested_proposer (fst (snd x))).
        change (as_inclusion_delay status) with (as_inclusion_delay (fst (snd x))).
        change i with (e_i x).
        destruct (e_su x) eqn:Hsu.
        - destruct (Hside x (or_introl eq_refl) Hsu) as [Hd Hp].
          destruct (nthN_in_range _ _ Hp) as [y Hy]. rewrite Hy.
          destruct (N.eqb_spec (as_inclusion_delay (fst (snd x))) 0); [contradiction|].
          destruct (e_el x), (e_tu x), (e_hu x), leak; cbn [andb negb]; destruct d as [[? ?] [? ?] [? ?] [? ?] [? ?]]; reflexivity.
        - destruct (e_el x), (e_tu x), (e_hu x), leak; cbn [andb negb]; destruct d as [[? ?] [? ?] [? ?] [? ?] [? ?]]; reflexivity. }
      rewrite Hstep. rewrite IH.
      + f_equal. unfold d5_apply. cbn [d5_source d5_target d5_head d5_inclusion d5_inactivity d_rewards d_penalties flat_map].
        rewrite !app_nil_r, !foldops64_app. reflexivity.
      + intros y Hy Hsu. destruct (Hside y (or_intror Hy) Hsu) as [H1 H2]. split; [exact H1|].
        unfold d5_apply. cbn [d5_inclusion d_rewards]. rewrite foldops64_length. exact H2.
  Qed.
End GoLoop.

(* ================= Part 5: gluing zrnt's loop to the spec's deltas ================= *)
Lemma flat_map_ext_in {A B} (g h : A -> list B) l : (forall a, In a l -> g a = h a) -> flat_map g l = flat_map h l.
Proof.
  induction l as [|a l IH]; intros H; cbn [flat_map]; [reflexivity|]. rewrite (H a (or_introl eq_refl)), IH; [reflexivity|].
  intros b Hb. apply H. right. exact Hb.
Qed.

Lemma flat_map_indexed {A B} (g : N * A -> list B) : forall (l : list A) k,
  flat_map g (indexed_from k l) =
  flat_map (fun i => match nth_error l (N.to_nat (i - k)) with Some x => g (i, x) | None => [] end) (seqN k (length l)).
Proof.
  induction l as [|x l IH]; intros k; [reflexivity|]. cbn [indexed_from flat_map length seqN].
  rewrite N.sub_diag. cbn [N.to_nat nth_error]. f_equal. rewrite IH. apply flat_map_ext_in. intros i Hi. apply seqN_in in Hi.
  replace (N.to_nat (i - k)) with (S (N.to_nat (i - (k + 1)))) by lia. reflexivity.
Qed.
Lemma nth_error_combine {A B} : forall (l1 : list A) (l2 : list B) j,
  nth_error (combine l1 l2) j = match nth_error l1 j, nth_error l2 j with Some a, Some b => Some (a, b) | _, _ => None end.
Proof.
  induction l1 as [|a l1 IH]; intros [|b l2] [|j]; cbn [combine nth_error]; try reflexivity.
  - destruct (nth_error l1 j); reflexivity.
  - apply IH.
Qed.
Lemma add_lists_entry a b j : length a = length b -> entry (add_lists a b) j = entry a j + entry b j.
Proof.
  intros Hl. unfold entry, add_lists. rewrite !nthN_nth_error. revert b Hl. generalize (N.to_nat j). clear j.
  induction a as [|x a IH]; intros j [|y b] Hl; cbn [length] in Hl; try lia.
  - destruct j; reflexivity.
  - destruct j as [|j]; cbn [combine map nth_error fst snd]; [reflexivity|]. apply IH. lia.
Qed.
Lemma add_lists_length a b : length a = length b -> length (add_lists a b) = length a.
Proof. intros H. unfold add_lists. rewrite map_length, combine_length. lia. Qed.

(* ================= Part 4: the attestation deltas ================= *)
(* folds of conditional point additions over an index list, as ops *)
Lemma foldops_cons i x o l : foldops ((i, x) :: o) l = foldops o (updN l i (fun y => y + x)).
Proof. reflexivity. Qed.
Lemma foldops_nil l : foldops [] l = l.
Proof. reflexivity. Qed.
Lemma foldops64_cons i x o l : foldops64 ((i, x) :: o) l = foldops64 o (updN l i (fun y => add64 y x)).
Proof. reflexivity. Qed.
Lemma flat_map_filter {A B} (g : A -> list B) (q : A -> bool) l :
  flat_map g (filter q l) = flat_map (fun a => if q a then g a else []) l.
Proof. induction l as [|a l IH]; cbn [filter flat_map]; [reflexivity|]. destruct (q a); cbn [flat_map app]; rewrite IH; reflexivity. Qed.

(* a fold that adds to the rewards and to the penalties at each index = two ops folds *)
Lemma pair_fold_ops (opsR opsP : N -> ops) (step : list N * list N -> N -> list N * list N) :
  forall L, (forall r p i, In i L -> step (r, p) i = (foldops (opsR i) r, foldops (opsP i) p)) ->
  forall r p, fold_left step L (r, p) = (foldops (flat_map opsR L) r, foldops (flat_map opsP L) p).
Proof.
  induction L as [|i L IH]; intros Hstep r p; cbn [fold_left flat_map]; [reflexivity|].
  rewrite Hstep by (left; reflexivity). rewrite IH by (intros r' p' j Hj; apply Hstep; right; exact Hj).
  rewrite !foldops_app. reflexivity.
Qed.
Lemma single_fold_ops (opsP : N -> ops) (step : list N -> N -> list N) :
  forall L, (forall p i, In i L -> step p i = foldops (opsP i) p) ->
  forall p, fold_left step L p = foldops (flat_map opsP L) p.
Proof.
  induction L as [|i L IH]; intros Hstep p; cbn [fold_left flat_map]; [reflexivity|].
  rewrite Hstep by (left; reflexivity). rewrite IH by (intros p' j Hj; apply Hstep; right; exact Hj).
  rewrite foldops_app. reflexivity.
Qed.
Section P0Deltas.
  Variable E : Env.
  Notation c := (cfg E).
  Notation INC := (EFFECTIVE_BALANCE_INCREMENT c).
  Variable st : BeaconState.
  Variable committee_of : N -> N -> option (list N).
  Let n := length (validators st).
  Let pe := get_previous_epoch E st.
  Let ce := get_current_epoch E st.
  Let srcP := previous_epoch_attestations st.
  Let total := get_total_active_balance E st.
  Let leak := is_in_inactivity_leak E st.
  Let base (i : N) : N := get_base_reward0 E st total i.
  Let pr (i : N) : N := get_proposer_reward0 E st total i.
  Let elig (i : N) : bool := match nth_error (validators st) (N.to_nat i) with Some v => spec_eligible pe v | None => false end.

  Lemma eligible_filter_seqN :
    get_eligible_validator_indices E st = filter elig (seqN 0 n).
  Proof.
    rewrite (AltairRefine.eligible_spec_idxs E st). rewrite idxs_filter_seqN. fold n. apply filter_ext. intros i. unfold elig. rewrite N.sub_0_r. reflexivity.
  Qed.

  (* ---- the spec's component deltas as ops over 0..n-1 ---- *)
  Definition comp_amount (att_bal : N) (i : N) : N :=
    if leak then base i else base i * (att_bal / INC) / (total / INC).
  Definition comp_ops_r (sel : N -> bool) (att_bal : N) (i : N) : ops :=
    if elig i && sel i then [(i, comp_amount att_bal i)] else [].
  Definition comp_ops_p (sel : N -> bool) (i : N) : ops :=
    if elig i && negb (sel i) then [(i, base i)] else [].

  Lemma component_deltas_ops atts :
    (forall a, In a atts -> AttOk E st committee_of a) ->
    let sel := unsl_sel E st atts in
    let att_bal := N.max INC (sel_sum0 st sel 0 n) in
    get_attestation_component_deltas E st atts =
    Some (foldops (flat_map (comp_ops_r sel att_bal) (seqN 0 n)) (zeros st),
          foldops (flat_map (comp_ops_p sel) (seqN 0 n)) (zeros st)).
  Proof.
    intros Hok sel att_bal. unfold get_attestation_component_deltas.
    rewrite (unslashed_attesting_spec E st committee_of atts Hok). fold n. fold total leak.
    assert (Hab : get_total_balance E st (filter (unsl_sel E st atts) (seqN 0 n)) = att_bal).
    { unfold get_total_balance, att_bal, sel. rewrite sumN_filter_if. reflexivity. }
    rewrite Hab. f_equal. rewrite eligible_filter_seqN.
    rewrite (pair_fold_ops (fun i => if unsl_sel E st atts i then [(i, comp_amount att_bal i)] else [])
                           (fun i => if unsl_sel E st atts i then [] else [(i, base i)])).
    - rewrite !flat_map_filter. f_equal; f_equal; apply flat_map_ext; intros i; unfold comp_ops_r, comp_ops_p; fold sel;
        destruct (elig i), (sel i); reflexivity.
    - intros r p i Hi. apply filter_In in Hi. destruct Hi as [Hi _]. apply seqN_in in Hi.
      unfold n. rewrite (memN_unsl E st committee_of atts i) by (fold n; lia).
      unfold comp_amount. fold (base i). unfold base, get_base_reward0. fold total.
      destruct (unsl_sel E st atts i); [destruct leak|]; reflexivity.
  Qed.

  (* ---- the spec's inclusion-delay deltas as ops ---- *)
  Definition best_of (i : N) : option value := min_by_delay None (filter (in_att E st i) srcP).
  Definition best_delay (i : N) : N := match best_of i with Some b => pa_inclusion_delay b | None => 0 end.
  Definition best_prop (i : N) : N := match best_of i with Some b => pa_proposer_index b | None => 0 end.
  Definition incl_ops (i : N) : ops :=
    if f_ps E st i && un st i then [(best_prop i, pr i); (i, (base i - pr i) / best_delay i)] else [].

  Lemma min_by_delay_in : forall l best b, min_by_delay best l = Some b -> best = Some b \/ In b l.
  Proof.
    induction l as [|a l IH]; intros best b H; cbn [min_by_delay] in H; [left; exact H|].
    destruct best as [x|].
    - destruct (pa_inclusion_delay a <? pa_inclusion_delay x); apply IH in H; destruct H as [H|H]; auto.
      + inversion H; subst. right. left. reflexivity.
      + right. right. exact H.
      + right. right. exact H.
    - apply IH in H. destruct H as [H|H]; [inversion H; subst; right; left; reflexivity|right; right; exact H].
  Qed.
  Lemma min_by_delay_some : forall l best, (best <> None \/ l <> []) -> exists b, min_by_delay best l = Some b.
  Proof.
    induction l as [|a l IH]; intros best H; cbn [min_by_delay].
    - destruct H as [H|H]; [|contradiction]. destruct best as [x|]; [exists x; reflexivity|contradiction].
    - destruct best as [x|]; [destruct (pa_inclusion_delay a <? pa_inclusion_delay x)|]; apply IH; left; discriminate.
  Qed.

  Lemma option_fold_ops (opsF : N -> ops) (F : list N -> N -> option (list N)) :
    forall L, (forall r i, In i L -> F r i = Some (foldops (opsF i) r)) ->
    forall r, fold_left (fun (acc : option (list N)) i => match acc with Some r => F r i | None => None end) L (Some r) =
              Some (foldops (flat_map opsF L) r).
  Proof.
    induction L as [|i L IH]; intros HF r; cbn [fold_left flat_map]; [reflexivity|].
    rewrite HF by (left; reflexivity). rewrite IH by (intros r' j Hj; apply HF; right; exact Hj). rewrite foldops_app. reflexivity.
  Qed.

  Lemma inclusion_deltas_ops :
    GENESIS_EPOCH < ce ->
    (forall a, In a srcP -> AttOk E st committee_of a) ->
    get_inclusion_delay_deltas E st = Some (foldops (flat_map incl_ops (seqN 0 n)) (zeros st), zeros st).
  Proof.
    intros Hce Hok. unfold get_inclusion_delay_deltas. rewrite (matching_source_prev E st Hce). fold srcP.
    rewrite (unslashed_attesting_spec E st committee_of srcP Hok). fold n.
    rewrite (all_some_map_some _ (fun a => (a, att_parts E st a))).
    2:{ intros a Ha. rewrite (attesting_indices_ok E st committee_of a (Hok a Ha)). reflexivity. }
    fold total.
    set (F := fun (r : list N) (i : N) =>
                match min_by_delay None (map fst (filter (fun p : value * list N => memN i (snd p)) (map (fun a => (a, att_parts E st a)) srcP))) with
                | Some a =>
                    if negb (pa_inclusion_delay a =? 0)
                    then Some (addN (addN r (pa_proposer_index a) (get_proposer_reward0 E st total i)) i
                                    ((get_base_reward0 E st total i - get_proposer_reward0 E st total i) / pa_inclusion_delay a))
                    else None
                | None => None
                end).
    assert (Hfold : fold_left (fun (acc : option (list N)) i => match acc with Some r => F r i | None => None end)
                      (filter (unsl_sel E st srcP) (seqN 0 n)) (Some (zeros st)) =
                    Some (foldops (flat_map (fun i => [(best_prop i, pr i); (i, (base i - pr i) / best_delay i)])
                                            (filter (unsl_sel E st srcP) (seqN 0 n))) (zeros st))).
    { apply option_fold_ops. intros r i Hi. apply filter_In in Hi. destruct Hi as [_ Hsel].
      unfold F.
      assert (Hl : map fst (filter (fun p : value * list N => memN i (snd p)) (map (fun a => (a, att_parts E st a)) srcP)) =
                   filter (in_att E st i) srcP).
      { clear. induction srcP as [|a l IH]; cbn [map filter snd fst]; [reflexivity|]. unfold in_att at 1.
        destruct (memN i (att_parts E st a)); cbn [map fst]; rewrite IH; reflexivity. }
      rewrite Hl. unfold unsl_sel in Hsel. apply andb_prop in Hsel. destruct Hsel as [_ Hex].
      assert (Hne : filter (in_att E st i) srcP <> []).
      { apply existsb_exists in Hex. destruct Hex as [a [Ha Hia]]. intros Hnil.
        assert (In a (filter (in_att E st i) srcP)) by (apply filter_In; split; assumption). rewrite Hnil in H. destruct H. }
      destruct (min_by_delay_some _ None (or_intror Hne)) as [b Hb].
      unfold best_prop, best_delay, best_of. rewrite Hb.
      destruct (min_by_delay_in _ _ _ Hb) as [Hx|Hin]; [discriminate|]. apply filter_In in Hin. destruct Hin as [Hin _].
      destruct (Hok b Hin) as [_ _ _ _ Hdelay]. destruct (N.eqb_spec (pa_inclusion_delay b) 0); [contradiction|]. cbn [negb].
      reflexivity. }
    unfold F in Hfold. rewrite Hfold. f_equal. f_equal. f_equal.
    rewrite flat_map_filter. apply flat_map_ext. intros i. unfold incl_ops, unsl_sel, f_ps, un.
    rewrite (andb_comm (existsb _ _)). reflexivity.
  Qed.

  (* ---- the spec's phase0 inactivity deltas as ops ---- *)
  Let rootP := tgt_root E st pe.
  Definition selT (i : N) : bool := unsl_sel E st (filter (att_tgt rootP) srcP) i.
  Definition inact_ops (i : N) : ops :=
    if elig i && leak
    then (i, BASE_REWARDS_PER_EPOCH * base i - pr i) ::
         (if selT i then [] else [(i, eff_bal st i * get_finality_delay E st / INACTIVITY_PENALTY_QUOTIENT c)])
    else [].
  Lemma inactivity_deltas0_ops :
    GENESIS_EPOCH < ce -> (exists r, get_block_root E st pe = Some r) ->
    (forall a, In a srcP -> AttOk E st committee_of a) ->
    get_inactivity_penalty_deltas0 E st = Some (zeros st, foldops (flat_map inact_ops (seqN 0 n)) (zeros st)).
  Proof.
    intros Hce Hroot Hok. unfold get_inactivity_penalty_deltas0. fold leak pe. unfold inact_ops.
    destruct leak.
    - rewrite (matching_target_gen E st pe srcP (matching_source_prev E st Hce) Hroot). fold rootP.
      assert (Hok' : forall a, In a (filter (att_tgt rootP) srcP) -> AttOk E st committee_of a)
        by (intros a Ha; apply Hok; apply filter_In in Ha; apply Ha).
      rewrite (unslashed_attesting_spec E st committee_of _ Hok'). fold n total.
      f_equal. f_equal. rewrite eligible_filter_seqN.
      rewrite (single_fold_ops (fun i => (i, BASE_REWARDS_PER_EPOCH * base i - pr i) ::
                                        (if selT i then [] else [(i, eff_bal st i * get_finality_delay E st / INACTIVITY_PENALTY_QUOTIENT c)]))).
      + rewrite flat_map_filter. f_equal. apply flat_map_ext. intros i. rewrite andb_true_r. reflexivity.
      + intros p i Hi. apply filter_In in Hi. destruct Hi as [Hi _]. apply seqN_in in Hi.
        unfold n. rewrite (memN_unsl E st committee_of _ i) by (fold n; lia). fold (selT i).
        destruct (selT i); reflexivity.
    - f_equal. f_equal. symmetry. clear. induction (seqN 0 n) as [|i l IH]; cbn [flat_map]; [reflexivity|].
      rewrite andb_false_r. exact IH.
  Qed.

  (* ---------- the element zrnt's loop sees at index i ---------- *)
  Definition elt_at (i : N) (v : Validator) : elt := (i, (final_status E st i (flatten v), flatten v)).

  Hypothesis Hce : GENESIS_EPOCH < ce.
  Hypothesis Hpe1 : pe + 1 < two64.
  Hypothesis HokP : forall a, In a srcP -> AttOk E st committee_of a.

  Lemma elt_flags i v : nthN (validators st) i = Some v ->
    e_su (elt_at i v) = f_ps E st i && un st i /\
    e_tu (elt_at i v) = f_pt E st i && un st i /\
    e_hu (elt_at i v) = f_ph E st i && un st i /\
    e_el (elt_at i v) = elig i /\
    e_eff (elt_at i v) = eff_bal st i.
  Proof.
    intros Hv. unfold e_su, e_tu, e_hu, e_el, e_eff, e_f, elt_at. cbn [fst snd]. rewrite final_flags.
    cbn [fg_prev_source fg_prev_target fg_prev_head fg_unslashed fg_eligible flatten fl_slashed fl_effective_balance].
    assert (Hun : un st i = negb (v_slashed v)) by (unfold un, is_slashed; rewrite Hv; reflexivity).
    rewrite <- Hun. repeat split.
    - unfold elig. rewrite nthN_nth_error in Hv. rewrite Hv. unfold eligible_cond, spec_eligible. fold pe. rewrite add64_nw by exact Hpe1. reflexivity.
    - unfold eff_bal. rewrite Hv. reflexivity.
  Qed.

  Hypothesis Hn : N.of_nat n < max64.

  (* inclusion info of an attester *)
  Lemma elt_inclusion i v : f_ps E st i = true ->
    as_attested_proposer (final_status E st i (flatten v)) = best_prop i /\
    as_inclusion_delay (final_status E st i (flatten v)) = best_delay i /\
    best_delay i <> 0 /\ best_prop i < N.of_nat n.
  Proof.
    intros Hps. unfold final_status.
    set (s1 := status_fold E st true true (tgt_root E st (get_previous_epoch E st)) (previous_epoch_attestations st) i
                 (init_status (get_previous_epoch E st) (flatten v))).
    destruct (status_fold_noincl E st false (tgt_root E st (get_current_epoch E st)) (current_epoch_attestations st) i s1) as [Hd Hp].
    rewrite Hd, Hp.
    assert (Hprop : forall a, In a srcP -> pa_proposer_index a <> VALIDATOR_INDEX_MARKER).
    { intros a Ha. destruct (HokP a Ha) as [_ _ _ Hpr _]. unfold VALIDATOR_INDEX_MARKER. fold n in Hpr. lia. }
    assert (Hinit : incl_rel (init_status (get_previous_epoch E st) (flatten v)) None) by (split; reflexivity).
    pose proof (status_fold_incl E st true (tgt_root E st (get_previous_epoch E st)) srcP i _ None Hprop Hinit) as Hrel.
    fold s1 in Hrel. rewrite <- min_by_delay_fold in Hrel. fold (best_of i) in Hrel.
    assert (Hne : filter (in_att E st i) srcP <> []).
    { unfold f_ps in Hps. apply existsb_exists in Hps. destruct Hps as [a [Ha Hia]]. intros Hnil.
      assert (In a (filter (in_att E st i) srcP)) by (apply filter_In; split; assumption). rewrite Hnil in H. destruct H. }
    destruct (min_by_delay_some _ None (or_intror Hne)) as [b Hb]. fold (best_of i) in Hb.
    unfold best_prop, best_delay. rewrite Hb in *. destruct Hrel as [H1 [H2 _]].
    destruct (min_by_delay_in _ _ _ Hb) as [Hx|Hin]; [discriminate|]. apply filter_In in Hin. destruct Hin as [Hin _].
    destruct (HokP b Hin) as [_ _ _ Hpr Hdl]. fold n in Hpr. repeat split; assumption.
  Qed.

  (* ---------- numeric hypotheses ---------- *)
  Definition all_eff : N := N.max INC (sumN (map (eff_bal st) (seqN 0 n))).
  Record P0Bounds : Prop := mkP0Bounds {
    pb_prq : PROPOSER_REWARD_QUOTIENT c <> 0;
    pb_quot : INACTIVITY_PENALTY_QUOTIENT c <> 0;
    pb_brf : forall i, i < N.of_nat n -> eff_bal st i * BASE_REWARD_FACTOR c < two64;
    pb_comp : forall i, i < N.of_nat n -> base i * (all_eff / INC) < two64;
    pb_fd : forall i, i < N.of_nat n -> eff_bal st i * get_finality_delay E st < two64;
    pb_rows : forall R P, get_attestation_deltas E st = Some (R, P) ->
              forall j, j < N.of_nat n -> entry (balances st) j + entry R j < two64 /\ entry P j < two64 }.

  Hypothesis HB : P0Bounds.
  Hypothesis Hinc : INC <> 0.
  Let sq := N.sqrt total.
  Let T := total / INC.
  Let fd := get_finality_delay E st.
  Let q := INACTIVITY_PENALTY_QUOTIENT c.

  Lemma total_ge_inc : INC <= total.
  Proof. unfold total, get_total_active_balance, get_total_balance. lia. Qed.
  Lemma sq_pos : sq <> 0.
  Proof.
    unfold sq. intros H0. pose proof (N.sqrt_spec' total) as [_ Hhi]. rewrite H0 in Hhi. pose proof total_ge_inc. lia.
  Qed.
  Lemma T_pos : T <> 0.
  Proof. unfold T. pose proof total_ge_inc. intros H0. assert (1 <= total / INC) by (apply N.div_le_lower_bound; lia). lia. Qed.

  Lemma elt_base i v : nthN (validators st) i = Some v -> i < N.of_nat n ->
    e_base c sq (elt_at i v) = base i /\ e_pr c sq (elt_at i v) = pr i.
  Proof.
    intros Hv Hi. destruct (elt_flags i v Hv) as [_ [_ [_ [_ Heff]]]].
    assert (Hb : e_base c sq (elt_at i v) = base i).
    { unfold e_base. rewrite Heff. rewrite mul64_nw by (apply (pb_brf HB); exact Hi).
      unfold base, get_base_reward0, integer_squareroot, sq. reflexivity. }
    split; [exact Hb|]. unfold e_pr. rewrite Hb. reflexivity.
  Qed.

  Lemma sel_sum0_le_all (sel : N -> bool) : N.max INC (sel_sum0 st sel 0 n) / INC <= all_eff / INC.
  Proof.
    apply N.div_le_mono; [exact Hinc|]. unfold all_eff.
    assert (sel_sum0 st sel 0 n <= sumN (map (eff_bal st) (seqN 0 n))).
    { unfold sel_sum0. apply sumN_le_seq. intros i. destruct (sel i); lia. }
    lia.
  Qed.

  (* one component (source / target / head) *)
  Lemma comp_ops_eq (gsel : elt -> bool) (ssel psel : N -> bool) i v :
    nthN (validators st) i = Some v -> i < N.of_nat n ->
    gsel (elt_at i v) = psel i -> (forall j, psel j = ssel j) ->
    e_comp_r c T sq leak gsel (N.max INC (sel_sum0 st psel 0 n) / INC) (elt_at i v) = comp_ops_r ssel (N.max INC (sel_sum0 st ssel 0 n)) i /\
    e_comp_p c sq gsel (elt_at i v) = comp_ops_p ssel i.
  Proof.
    intros Hv Hi Hg Hps. destruct (elt_flags i v Hv) as [_ [_ [_ [Hel _]]]]. destruct (elt_base i v Hv Hi) as [Hb _].
    unfold e_comp_r, e_comp_p, comp_ops_r, comp_ops_p, comp_amount. rewrite Hel, Hg, Hb, Hps.
    rewrite (sel_sum0_ext st psel ssel 0 n Hps). change (e_i (elt_at i v)) with i.
    split; [|reflexivity].
    destruct (elig i && ssel i); [|reflexivity]. destruct leak; [reflexivity|].
    rewrite mul64_nw; [reflexivity|].
    pose proof (pb_comp HB i Hi). pose proof (sel_sum0_le_all ssel). fold T. nia.
  Qed.

  Lemma incl_ops_eq i v : nthN (validators st) i = Some v -> i < N.of_nat n ->
    e_incl_r c sq (elt_at i v) = incl_ops i.
  Proof.
    intros Hv Hi. destruct (elt_flags i v Hv) as [Hsu _]. destruct (elt_base i v Hv Hi) as [Hb Hp].
    unfold e_incl_r, incl_ops. rewrite Hsu, Hb, Hp. change (e_i (elt_at i v)) with i.
    destruct (f_ps E st i) eqn:Hps; cbn [andb]; [|reflexivity]. destruct (un st i); [|reflexivity].
    destruct (elt_inclusion i v Hps) as [H1 [H2 _]]. unfold elt_at. cbn [fst snd]. rewrite H1, H2. reflexivity.
  Qed.

  Hypothesis Hfin : cp_epoch (finalized_checkpoint st) <= pe.

  Lemma base_bounds i : i < N.of_nat n -> BASE_REWARDS_PER_EPOCH * base i < two64 /\ pr i <= BASE_REWARDS_PER_EPOCH * base i.
  Proof.
    intros Hi. pose proof (pb_brf HB i Hi) as Hb. pose proof sq_pos as Hs. fold sq in Hs.
    unfold base, pr, get_proposer_reward0, get_base_reward0, BASE_REWARDS_PER_EPOCH, integer_squareroot. fold total sq.
    set (x := eff_bal st i * BASE_REWARD_FACTOR c) in *.
    assert (H1 : x / sq <= x) by (apply N.div_le_upper_bound; [exact Hs|nia]).
    assert (H2 : 4 * (x / sq / 4) <= x / sq) by (apply N.mul_div_le; lia).
    assert (H3 : x / sq / 4 / PROPOSER_REWARD_QUOTIENT c <= x / sq / 4).
    { apply N.div_le_upper_bound; [exact (pb_prq HB)|]. pose proof (pb_prq HB) as Hq. revert Hq. generalize (PROPOSER_REWARD_QUOTIENT c). generalize (x / sq / 4). intros a b Hq. nia. }
    generalize dependent (x / sq / 4 / PROPOSER_REWARD_QUOTIENT c). generalize dependent (x / sq / 4). generalize dependent (x / sq).
    intros. split; lia.
  Qed.

  Lemma inact_ops_eq i v : nthN (validators st) i = Some v -> i < N.of_nat n ->
    e_ina_p c sq fd q leak (elt_at i v) = inact_ops i.
  Proof.
    intros Hv Hi. destruct (elt_flags i v Hv) as [_ [Htu [_ [Hel Heff]]]]. destruct (elt_base i v Hv Hi) as [Hb Hp].
    unfold e_ina_p, inact_ops. rewrite Hel, Htu, Hb, Hp, Heff. change (e_i (elt_at i v)) with i.
    destruct (elig i && leak); [|reflexivity].
    destruct (base_bounds i Hi) as [H4 Hpr].
    rewrite mul64_nw by exact H4. rewrite sub64_ge by exact Hpr.
    assert (HselT : selT i = un st i && f_pt E st i).
    { unfold selT. rewrite unsl_sel_target. reflexivity. }
    rewrite HselT, (andb_comm (un st i)). f_equal.
    destruct (f_pt E st i && un st i); cbn [negb]; [reflexivity|].
    rewrite mul64_nw by (apply (pb_fd HB); exact Hi). reflexivity.
  Qed.

  (* zrnt's loop list, element by element *)
  Definition go_list : list elt :=
    indexed (combine (statuses_of E st (flatten_validators (validators st))) (flatten_validators (validators st))).
  Lemma go_list_flat_map (g : elt -> ops) (h : N -> ops) :
    (forall i v, nthN (validators st) i = Some v -> i < N.of_nat n -> g (elt_at i v) = h i) ->
    flat_map g go_list = flat_map h (seqN 0 n).
  Proof.
    intros Hgh. unfold go_list, indexed. unfold elt in *. rewrite flat_map_indexed.
    assert (Hlen : length (combine (statuses_of E st (flatten_validators (validators st))) (flatten_validators (validators st))) = n).
    { rewrite combine_length. unfold statuses_of. rewrite imap_length. unfold flatten_validators. rewrite map_length. fold n. lia. }
    rewrite Hlen. apply flat_map_ext_in. intros i Hi. apply seqN_in in Hi. rewrite N.sub_0_r.
    rewrite nth_error_combine. unfold statuses_of.
    pose proof (nthN_imap (final_status E st) (flatten_validators (validators st)) i) as Him. rewrite !nthN_nth_error in Him. rewrite Him.
    unfold flatten_validators. rewrite nth_error_map.
    destruct (nth_error (validators st) (N.to_nat i)) as [v|] eqn:Hv.
    - cbn [option_map]. apply Hgh; [rewrite nthN_nth_error; exact Hv|lia].
    - apply nth_error_None in Hv. fold n in Hv. lia.
  Qed.
  Lemma go_list_side x : In x go_list -> e_su x = true ->
    as_inclusion_delay (fst (snd x)) <> 0 /\ as_attested_proposer (fst (snd x)) < N.of_nat n.
  Proof.
    intros Hin Hsu. unfold go_list, indexed in Hin. destruct x as [i [s fl]].
    apply indexed_from_fst_bounds in Hin. destruct Hin as [_ Hnth]. rewrite N.sub_0_r in Hnth.
    rewrite nth_error_combine in Hnth. unfold statuses_of in Hnth.
    pose proof (nthN_imap (final_status E st) (flatten_validators (validators st)) i) as Him. rewrite !nthN_nth_error in Him. rewrite Him in Hnth.
    unfold flatten_validators in Hnth. rewrite nth_error_map in Hnth.
    destruct (nth_error (validators st) (N.to_nat i)) as [v|] eqn:Hv; [|discriminate]. cbn [option_map] in Hnth. inversion Hnth; subst s fl.
    assert (Hvn : nthN (validators st) i = Some v) by (rewrite nthN_nth_error; exact Hv).
    destruct (elt_flags i v Hvn) as [Hsu' _]. fold (elt_at i v) in Hsu. rewrite Hsu' in Hsu. apply andb_prop in Hsu. destruct Hsu as [Hps _].
    destruct (elt_inclusion i v Hps) as [H1 [H2 [H3 H4]]]. cbn [fst snd]. rewrite H1, H2. split; assumption.
  Qed.

  (* ---------- the five delta pairs of the spec, as arrays ---------- *)
  Hypothesis Hroot : exists r, get_block_root E st pe = Some r.
  Hypothesis Hsphr : SLOTS_PER_HISTORICAL_ROOT c <> 0.
  Hypothesis Hbr : N.of_nat (length (block_roots st)) = SLOTS_PER_HISTORICAL_ROOT c.

  Definition selS : N -> bool := unsl_sel E st srcP.
  Definition selTg : N -> bool := unsl_sel E st (filter (att_tgt rootP) srcP).
  Definition selH : N -> bool := unsl_sel E st (filter (att_head E st) (filter (att_tgt rootP) srcP)).
  Definition bal_of (sel : N -> bool) : N := N.max INC (sel_sum0 st sel 0 n).
  Definition Z := zeros st.
  Definition Rs := foldops (flat_map (comp_ops_r selS (bal_of selS)) (seqN 0 n)) Z.
  Definition Ps := foldops (flat_map (comp_ops_p selS) (seqN 0 n)) Z.
  Definition Rt := foldops (flat_map (comp_ops_r selTg (bal_of selTg)) (seqN 0 n)) Z.
  Definition Pt := foldops (flat_map (comp_ops_p selTg) (seqN 0 n)) Z.
  Definition Rh := foldops (flat_map (comp_ops_r selH (bal_of selH)) (seqN 0 n)) Z.
  Definition Ph := foldops (flat_map (comp_ops_p selH) (seqN 0 n)) Z.
  Definition Rd := foldops (flat_map incl_ops (seqN 0 n)) Z.
  Definition Pi := foldops (flat_map inact_ops (seqN 0 n)) Z.
  Definition Rall := add_lists (add_lists (add_lists (add_lists Rs Rt) Rh) Rd) Z.
  Definition Pall := add_lists (add_lists (add_lists (add_lists Ps Pt) Ph) Z) Pi.

  Lemma spec_deltas_form : get_attestation_deltas E st = Some (Rall, Pall).
  Proof.
    unfold get_attestation_deltas. cbn [fst snd].
    pose proof (matching_source_prev E st Hce) as Hsrc. fold pe srcP in Hsrc. fold pe. rewrite Hsrc.
    rewrite (matching_target_gen E st pe srcP Hsrc Hroot). fold rootP.
    rewrite (matching_head_gen E st committee_of pe srcP Hsrc Hroot HokP Hsphr Hbr). fold rootP.
    assert (HokT : forall a, In a (filter (att_tgt rootP) srcP) -> AttOk E st committee_of a)
      by (intros a Ha; apply HokP; apply filter_In in Ha; apply Ha).
    assert (HokH : forall a, In a (filter (att_head E st) (filter (att_tgt rootP) srcP)) -> AttOk E st committee_of a)
      by (intros a Ha; apply HokT; apply filter_In in Ha; apply Ha).
    rewrite (component_deltas_ops srcP HokP), (component_deltas_ops _ HokT), (component_deltas_ops _ HokH).
    rewrite (inclusion_deltas_ops Hce HokP), (inactivity_deltas0_ops Hce Hroot HokP).
    reflexivity.
  Qed.

  Lemma Z_length : length Z = n. Proof. unfold Z, zeros, nvals. apply repeat_length. Qed.
  Lemma arr_length o : length (foldops o Z) = n. Proof. rewrite foldops_length. apply Z_length. Qed.
  Lemma Z_entry j : entry Z j = 0.
  Proof.
    unfold entry, Z, zeros. rewrite nthN_nth_error. destruct (nth_error (repeat 0 (nvals st)) (N.to_nat j)) as [x|] eqn:Hx; [|reflexivity].
    apply nth_error_In in Hx. apply repeat_spec in Hx. exact Hx.
  Qed.
  Lemma entry_oob l j : N.of_nat (length l) <= j -> entry l j = 0.
  Proof. intros H. unfold entry. rewrite nthN_nth_error. destruct (nth_error l (N.to_nat j)) eqn:Hx; [|reflexivity]. assert (N.to_nat j < length l)%nat by (apply nth_error_Some; congruence). lia. Qed.

  Lemma sum4_entry a b c0 d e j :
    length a = n -> length b = n -> length c0 = n -> length d = n -> length e = n ->
    entry (add_lists (add_lists (add_lists (add_lists a b) c0) d) e) j = entry a j + entry b j + entry c0 j + entry d j + entry e j /\
    length (add_lists (add_lists (add_lists (add_lists a b) c0) d) e) = n.
  Proof.
    intros La Lb Lc Ld Le.
    assert (L1 : length (add_lists a b) = n) by (rewrite add_lists_length; congruence).
    assert (L2 : length (add_lists (add_lists a b) c0) = n) by (rewrite add_lists_length; congruence).
    assert (L3 : length (add_lists (add_lists (add_lists a b) c0) d) = n) by (rewrite add_lists_length; congruence).
    split; [|rewrite add_lists_length; congruence].
    rewrite (add_lists_entry _ e) by congruence. rewrite (add_lists_entry _ d) by congruence.
    rewrite (add_lists_entry _ c0) by congruence. rewrite (add_lists_entry a b) by congruence. reflexivity.
  Qed.
  Lemma Rall_entry j : entry Rall j = entry Rs j + entry Rt j + entry Rh j + entry Rd j.
  Proof.
    unfold Rall. destruct (sum4_entry Rs Rt Rh Rd Z j) as [H _]; try apply arr_length; try apply Z_length.
    rewrite H, Z_entry. lia.
  Qed.
  Lemma Pall_entry j : entry Pall j = entry Ps j + entry Pt j + entry Ph j + entry Pi j.
  Proof.
    unfold Pall. destruct (sum4_entry Ps Pt Ph Z Pi j) as [H _]; try apply arr_length; try apply Z_length.
    rewrite H, Z_entry. lia.
  Qed.
  Lemma Rall_length : length Rall = n.
  Proof. unfold Rall. destruct (sum4_entry Rs Rt Rh Rd Z 0) as [_ H]; try apply arr_length; try apply Z_length. exact H. Qed.
  Lemma Pall_length : length Pall = n.
  Proof. unfold Pall. destruct (sum4_entry Ps Pt Ph Z Pi 0) as [_ H]; try apply arr_length; try apply Z_length. exact H. Qed.

  Lemma rows_bound j : j < N.of_nat n -> entry (balances st) j + entry Rall j < two64 /\ entry Pall j < two64.
  Proof. intros Hj. exact (pb_rows HB Rall Pall spec_deltas_form j Hj). Qed.
  (* every component entry is below 2^64 *)
  Lemma comp_entry_bound (arr : list N) j :
    length arr = n -> (forall k, k < N.of_nat n -> entry arr k <= entry Rall k \/ entry arr k <= entry Pall k) -> entry arr j < two64.
  Proof.
    intros Hl Hle. destruct (N.lt_ge_cases j (N.of_nat n)) as [Hj|Hj].
    - destruct (rows_bound j Hj) as [H1 H2]. destruct (Hle j Hj); lia.
    - rewrite entry_oob by (rewrite Hl; exact Hj). unfold two64. lia.
  Qed.

  (* ---------- zrnt's five Deltas are these arrays ---------- *)
  Lemma go_array_eq (g : elt -> ops) (h : N -> ops) :
    (forall i v, nthN (validators st) i = Some v -> i < N.of_nat n -> g (elt_at i v) = h i) ->
    (forall k, k < N.of_nat n -> entry (foldops (flat_map h (seqN 0 n)) Z) k <= entry Rall k \/
                                 entry (foldops (flat_map h (seqN 0 n)) Z) k <= entry Pall k) ->
    foldops64 (flat_map g go_list) Z = foldops (flat_map h (seqN 0 n)) Z.
  Proof.
    intros Hgh Hle. rewrite (go_list_flat_map g h Hgh). apply foldops64_eq. intros j.
    apply comp_entry_bound; [apply arr_length|exact Hle].
  Qed.

  Lemma sel_eqs i :
    (f_ps E st i && un st i = selS i) /\ (f_pt E st i && un st i = selTg i) /\ (f_ph E st i && un st i = selH i).
  Proof.
    unfold selS, selTg, selH. rewrite unsl_sel_target, unsl_sel_head. unfold unsl_sel, f_ps, f_pt, f_ph, un. fold rootP.
    repeat split; apply andb_comm.
  Qed.

  Variable epc : EpcView.
  Hypothesis Hepc_total : epc_total_active_stake epc = total.
  Hypothesis Hepc_prev : epc_prev_epoch epc = pe.
  Hypothesis Hepc_cur : epc_cur_epoch epc = ce.
  Variable ad : Phase0AttesterData.
  Hypothesis Had_st : p0_statuses ad = statuses_of E st (flatten_validators (validators st)).
  Hypothesis Had_fl : p0_flats ad = flatten_validators (validators st).
  Hypothesis Had_s : p0_prev_source_stake ad = N.max INC (sel_sum0 st (fun i => f_ps E st i && un st i) 0 n).
  Hypothesis Had_t : p0_prev_target_stake ad = N.max INC (sel_sum0 st (fun i => f_ps E st i && un st i && f_pt E st i) 0 n).
  Hypothesis Had_h : p0_prev_head_stake ad = N.max INC (sel_sum0 st (fun i => f_ps E st i && un st i && f_pt E st i && f_ph E st i) 0 n).

  (* target / head attesters are source attesters *)
  Lemma pt_ps i : f_pt E st i = true -> f_ps E st i = true.
  Proof.
    unfold f_pt, f_ps. intros H. apply existsb_exists in H. destruct H as [a [Ha Hc]]. apply andb_prop in Hc.
    apply existsb_exists. exists a. split; [exact Ha|apply Hc].
  Qed.
  Lemma ph_pt i : f_ph E st i = true -> f_pt E st i = true.
  Proof.
    unfold f_ph, f_pt. intros H. apply existsb_exists in H. destruct H as [a [Ha Hc]]. apply andb_prop in Hc. destruct Hc as [Hc _].
    apply existsb_exists. exists a. split; [exact Ha|exact Hc].
  Qed.
  Lemma stake_t_eq : sel_sum0 st (fun i => f_ps E st i && un st i && f_pt E st i) 0 n = sel_sum0 st (fun i => f_pt E st i && un st i) 0 n.
  Proof.
    apply sel_sum0_ext. intros i. destruct (f_pt E st i) eqn:Hpt; [rewrite (pt_ps i Hpt)|]; destruct (f_ps E st i), (un st i); reflexivity.
  Qed.
  Lemma stake_h_eq : sel_sum0 st (fun i => f_ps E st i && un st i && f_pt E st i && f_ph E st i) 0 n = sel_sum0 st (fun i => f_ph E st i && un st i) 0 n.
  Proof.
    apply sel_sum0_ext. intros i. destruct (f_ph E st i) eqn:Hph; [rewrite (ph_pt i Hph), (pt_ps i (ph_pt i Hph))|];
      destruct (f_ps E st i), (f_pt E st i), (un st i); reflexivity.
  Qed.

  Lemma go_deltas_form :
    attestation_rewards_and_penalties c epc ad st =
    Some (mkD5 (mkDeltas Rs Ps) (mkDeltas Rt Pt) (mkDeltas Rh Ph) (mkDeltas Rd Z) (mkDeltas Z Pi)).
  Proof.
    unfold attestation_rewards_and_penalties. rewrite Hepc_total, Hepc_prev. destruct (N.eqb_spec INC 0); [contradiction|].
    rewrite (sub64_ge pe _ Hfin). change (pe - cp_epoch (finalized_checkpoint st)) with fd.
    assert (Hleak : (MIN_EPOCHS_TO_INACTIVITY_PENALTY c <? fd) = leak) by reflexivity. rewrite Hleak.
    fold T sq q. rewrite Had_st, Had_fl. fold go_list.
    assert (Hlen : length (statuses_of E st (flatten_validators (validators st))) = n).
    { unfold statuses_of. rewrite imap_length. unfold flatten_validators. apply map_length. }
    rewrite Hlen.
    rewrite go_rewards_loop; try exact sq_pos; try exact T_pos; try exact (pb_prq HB); try exact (pb_quot HB).
    2:{ intros x Hx Hsu. cbn [d5_inclusion d_rewards new_deltas]. rewrite repeat_length. apply go_list_side; assumption. }
    unfold d5_apply, new_deltas. cbn [d5_source d5_target d5_head d5_inclusion d5_inactivity d_rewards d_penalties].
    change (repeat 0 n) with Z. rewrite Had_s, Had_t, Had_h, stake_t_eq, stake_h_eq.
    f_equal.
    (* the eight arrays *)
    assert (HS : forall i v, nthN (validators st) i = Some v -> i < N.of_nat n ->
              e_comp_r c T sq leak e_su (N.max INC (sel_sum0 st (fun i => f_ps E st i && un st i) 0 n) / INC) (elt_at i v) = comp_ops_r selS (bal_of selS) i /\
              e_comp_p c sq e_su (elt_at i v) = comp_ops_p selS i).
    { intros i v Hv Hi. apply (comp_ops_eq e_su selS (fun i => f_ps E st i && un st i) i v Hv Hi).
      - apply (elt_flags i v Hv).
      - intros j. apply (sel_eqs j). }
    assert (HT : forall i v, nthN (validators st) i = Some v -> i < N.of_nat n ->
              e_comp_r c T sq leak e_tu (N.max INC (sel_sum0 st (fun i => f_pt E st i && un st i) 0 n) / INC) (elt_at i v) = comp_ops_r selTg (bal_of selTg) i /\
              e_comp_p c sq e_tu (elt_at i v) = comp_ops_p selTg i).
    { intros i v Hv Hi. apply (comp_ops_eq e_tu selTg (fun i => f_pt E st i && un st i) i v Hv Hi).
      - apply (elt_flags i v Hv).
      - intros j. apply (sel_eqs j). }
    assert (HH : forall i v, nthN (validators st) i = Some v -> i < N.of_nat n ->
              e_comp_r c T sq leak e_hu (N.max INC (sel_sum0 st (fun i => f_ph E st i && un st i) 0 n) / INC) (elt_at i v) = comp_ops_r selH (bal_of selH) i /\
              e_comp_p c sq e_hu (elt_at i v) = comp_ops_p selH i).
    { intros i v Hv Hi. apply (comp_ops_eq e_hu selH (fun i => f_ph E st i && un st i) i v Hv Hi).
      - apply (elt_flags i v Hv).
      - intros j. apply (sel_eqs j). }
    f_equal; f_equal.
    - apply go_array_eq; [intros i v Hv Hi; apply (HS i v Hv Hi)|]. intros k _. left. rewrite Rall_entry. fold Rs. lia.
    - apply go_array_eq; [intros i v Hv Hi; apply (HS i v Hv Hi)|]. intros k _. right. rewrite Pall_entry. fold Ps. lia.
    - apply go_array_eq; [intros i v Hv Hi; apply (HT i v Hv Hi)|]. intros k _. left. rewrite Rall_entry. fold Rt. lia.
    - apply go_array_eq; [intros i v Hv Hi; apply (HT i v Hv Hi)|]. intros k _. right. rewrite Pall_entry. fold Pt. lia.
    - apply go_array_eq; [intros i v Hv Hi; apply (HH i v Hv Hi)|]. intros k _. left. rewrite Rall_entry. fold Rh. lia.
    - apply go_array_eq; [intros i v Hv Hi; apply (HH i v Hv Hi)|]. intros k _. right. rewrite Pall_entry. fold Ph. lia.
    - apply go_array_eq; [intros i v Hv Hi; apply incl_ops_eq; assumption|]. intros k _. left. rewrite Rall_entry. fold Rd. lia.
    - apply go_array_eq; [intros i v Hv Hi; apply inact_ops_eq; assumption|]. intros k _. right. rewrite Pall_entry. fold Pi. lia.
  Qed.

  (* ---------- summing and applying ---------- *)
  Hypothesis Hbal_len : length (balances st) = n.

  Lemma entry_nth l j : entry l (N.of_nat j) = nth j l 0.
  Proof.
    unfold entry. rewrite nthN_nth_error, Nnat.Nat2N.id. revert j. induction l as [|x l IH]; intros [|j]; cbn [nth_error nth]; try reflexivity. apply IH.
  Qed.
  Definition addl64 (a b : list N) : list N := map (fun p => add64 (fst p) (snd p)) (combine a b).
  Lemma sum5_length a b c0 d e :
    length a = n -> length b = n -> length c0 = n -> length d = n -> length e = n ->
    length (addl64 (addl64 (addl64 (addl64 (addl64 (repeat 0 n) a) b) c0) d) e) = n.
  Proof.
    intros La Lb Lc Ld Le. unfold addl64.
    assert (L0 : length (map (fun p => add64 (fst p) (snd p)) (combine (repeat 0 n) a)) = n) by (rewrite add_lists64_length; rewrite repeat_length; congruence).
    assert (L1 : length (map (fun p => add64 (fst p) (snd p)) (combine (map (fun p => add64 (fst p) (snd p)) (combine (repeat 0 n) a)) b)) = n)
      by (rewrite add_lists64_length; congruence).
    assert (L2 : length (map (fun p => add64 (fst p) (snd p)) (combine (map (fun p => add64 (fst p) (snd p)) (combine (map (fun p => add64 (fst p) (snd p)) (combine (repeat 0 n) a)) b)) c0)) = n)
      by (rewrite add_lists64_length; congruence).
    assert (L3 : length (map (fun p => add64 (fst p) (snd p)) (combine (map (fun p => add64 (fst p) (snd p)) (combine (map (fun p => add64 (fst p) (snd p)) (combine (map (fun p => add64 (fst p) (snd p)) (combine (repeat 0 n) a)) b)) c0)) d)) = n)
      by (rewrite add_lists64_length; congruence).
    rewrite add_lists64_length; congruence.
  Qed.
  Lemma sum5_nth a b c0 d e j :
    length a = n -> length b = n -> length c0 = n -> length d = n -> length e = n -> (j < n)%nat ->
    nth j (addl64 (addl64 (addl64 (addl64 (addl64 (repeat 0 n) a) b) c0) d) e) 0 =
      add64 (add64 (add64 (add64 (add64 0 (nth j a 0)) (nth j b 0)) (nth j c0 0)) (nth j d 0)) (nth j e 0) /\
    length (addl64 (addl64 (addl64 (addl64 (addl64 (repeat 0 n) a) b) c0) d) e) = n.
  Proof.
    intros La Lb Lc Ld Le Hj. unfold addl64.
    assert (L0 : length (map (fun p => add64 (fst p) (snd p)) (combine (repeat 0 n) a)) = n) by (rewrite add_lists64_length; rewrite repeat_length; congruence).
    assert (L1 : length (map (fun p => add64 (fst p) (snd p)) (combine (map (fun p => add64 (fst p) (snd p)) (combine (repeat 0 n) a)) b)) = n)
      by (rewrite add_lists64_length; congruence).
    assert (L2 : length (map (fun p => add64 (fst p) (snd p)) (combine (map (fun p => add64 (fst p) (snd p)) (combine (map (fun p => add64 (fst p) (snd p)) (combine (repeat 0 n) a)) b)) c0)) = n)
      by (rewrite add_lists64_length; congruence).
    assert (L3 : length (map (fun p => add64 (fst p) (snd p)) (combine (map (fun p => add64 (fst p) (snd p)) (combine (map (fun p => add64 (fst p) (snd p)) (combine (map (fun p => add64 (fst p) (snd p)) (combine (repeat 0 n) a)) b)) c0)) d)) = n)
      by (rewrite add_lists64_length; congruence).
    split; [|rewrite add_lists64_length; congruence].
    rewrite add_lists64_nth by (try congruence; rewrite L3; exact Hj).
    rewrite add_lists64_nth by (try congruence; rewrite L2; exact Hj).
    rewrite add_lists64_nth by (try congruence; rewrite L1; exact Hj).
    rewrite add_lists64_nth by (try congruence; rewrite L0; exact Hj).
    rewrite add_lists64_nth by (rewrite repeat_length; try congruence; exact Hj).
    rewrite nth_repeat0. reflexivity.
  Qed.

  Theorem phase0_rewards_refines_inner :
    process_epoch_rewards_and_penalties0 c epc ad st = Epoch.process_rewards_and_penalties E Phase0 st.
  Proof.
    unfold process_epoch_rewards_and_penalties0, Epoch.process_rewards_and_penalties. rewrite Hepc_cur. fold ce.
    destruct (N.eqb_spec ce GENESIS_EPOCH) as [Hz|_]; [unfold GENESIS_EPOCH in *; lia|].
    rewrite go_deltas_form, spec_deltas_form. cbn [d5_source d5_target d5_head d5_inclusion d5_inactivity].
    assert (Hlen : length (p0_statuses ad) = n).
    { rewrite Had_st. unfold statuses_of. rewrite imap_length. unfold flatten_validators. apply map_length. }
    rewrite Hlen. unfold deltas_add, new_deltas. cbn [d_rewards d_penalties].
    fold (addl64 (repeat 0 n) Rs). fold (addl64 (addl64 (repeat 0 n) Rs) Rt). fold (addl64 (addl64 (addl64 (repeat 0 n) Rs) Rt) Rh).
    fold (addl64 (addl64 (addl64 (addl64 (repeat 0 n) Rs) Rt) Rh) Rd). fold (addl64 (addl64 (addl64 (addl64 (addl64 (repeat 0 n) Rs) Rt) Rh) Rd) Z).
    fold (addl64 (repeat 0 n) Ps). fold (addl64 (addl64 (repeat 0 n) Ps) Pt). fold (addl64 (addl64 (addl64 (repeat 0 n) Ps) Pt) Ph).
    fold (addl64 (addl64 (addl64 (addl64 (repeat 0 n) Ps) Pt) Ph) Z). fold (addl64 (addl64 (addl64 (addl64 (addl64 (repeat 0 n) Ps) Pt) Ph) Z) Pi).
    set (RG := addl64 (addl64 (addl64 (addl64 (addl64 (repeat 0 n) Rs) Rt) Rh) Rd) Z).
    set (PG := addl64 (addl64 (addl64 (addl64 (addl64 (repeat 0 n) Ps) Pt) Ph) Z) Pi).
    assert (LRs : length Rs = n) by apply arr_length. assert (LRt : length Rt = n) by apply arr_length.
    assert (LRh : length Rh = n) by apply arr_length. assert (LRd : length Rd = n) by apply arr_length.
    assert (LPs : length Ps = n) by apply arr_length. assert (LPt : length Pt = n) by apply arr_length.
    assert (LPh : length Ph = n) by apply arr_length. assert (LPi : length Pi = n) by apply arr_length.
    assert (LZ : length Z = n) by apply Z_length.
    assert (LRG : length RG = n) by (apply sum5_length; assumption).
    assert (LPG : length PG = n) by (apply sum5_length; assumption).
    unfold apply_deltas_go. cbn [d_rewards d_penalties]. rewrite LRG, LPG, Hbal_len, Nat.eqb_refl. cbn [negb orb].
    unfold apply_deltas. cbn [fst snd]. f_equal.
    assert (Hbals : map (fun x => let '(b, (r, p)) := x in let b := add64 b r in if p <=? b then b - p else 0)
                        (combine (balances st) (combine RG PG)) = apply1 (balances st) Rall Pall).
    { apply list_eq_nth.
      - rewrite map_length, !combine_length, apply1_length; rewrite ?Rall_length, ?Pall_length; lia.
      - intros j Hj. rewrite map_length, !combine_length in Hj. assert (Hjn : (j < n)%nat) by lia.
        rewrite apply1_nth by (rewrite ?Rall_length, ?Pall_length; lia).
        assert (Hgo : forall Bl Rl Pl, length Rl = length Bl -> length Pl = length Bl -> (j < length Bl)%nat ->
                  nth j (map (fun x => let '(b, (r, p)) := x in let b := add64 b r in if p <=? b then b - p else 0) (combine Bl (combine Rl Pl))) 0 =
                  (let b := add64 (nth j Bl 0) (nth j Rl 0) in if nth j Pl 0 <=? b then b - nth j Pl 0 else 0)).
        { clear. intros Bl. revert j. induction Bl as [|b Bl IH]; intros j [|r Rl] [|p Pl] Hr Hp Hj; cbn [length] in *; try lia.
          destruct j as [|j]; [reflexivity|]. cbn [combine map nth]. apply IH; lia. }
        rewrite Hgo by lia. unfold RG, PG.
        destruct (sum5_nth Rs Rt Rh Rd Z j LRs LRt LRh LRd LZ Hjn) as [HR _]. destruct (sum5_nth Ps Pt Ph Z Pi j LPs LPt LPh LZ LPi Hjn) as [HP _].
        rewrite HR, HP. clear HR HP.
        destruct (rows_bound (N.of_nat j) ltac:(lia)) as [Hb1 Hb2]. rewrite Rall_entry in Hb1. rewrite Pall_entry in Hb2.
        rewrite <- !entry_nth. rewrite Rall_entry, Pall_entry, Z_entry.
        set (b := entry (balances st) (N.of_nat j)) in *.
        set (a0 := entry Rs (N.of_nat j)) in *. set (a1 := entry Rt (N.of_nat j)) in *. set (a2 := entry Rh (N.of_nat j)) in *. set (a3 := entry Rd (N.of_nat j)) in *.
        set (q0 := entry Ps (N.of_nat j)) in *. set (q1 := entry Pt (N.of_nat j)) in *. set (q2 := entry Ph (N.of_nat j)) in *. set (q3 := entry Pi (N.of_nat j)) in *.
        rewrite (add64_nw 0 a0) by lia. rewrite (add64_nw (0 + a0) a1) by lia. rewrite (add64_nw (0 + a0 + a1) a2) by lia.
        rewrite (add64_nw (0 + a0 + a1 + a2) a3) by lia. rewrite (add64_nw (0 + a0 + a1 + a2 + a3) 0) by lia.
        rewrite (add64_nw 0 q0) by lia. rewrite (add64_nw (0 + q0) q1) by lia. rewrite (add64_nw (0 + q0 + q1) q2) by lia.
        rewrite (add64_nw (0 + q0 + q1 + q2) 0) by lia. rewrite (add64_nw (0 + q0 + q1 + q2 + 0) q3) by lia.
        rewrite (add64_nw b) by lia. cbv zeta.
        destruct (N.leb_spec (0 + q0 + q1 + q2 + 0 + q3) (b + (0 + a0 + a1 + a2 + a3 + 0))); lia. }
    exact (f_equal (fun x => st <| balances := x |>) Hbals).
  Qed.
End P0Deltas.

(* ================= the assembled theorems ================= *)
Theorem phase0_rewards_refines (E : Env) (st : BeaconState) (committee_of : N -> N -> option (list N)) (epc : EpcView) :
  P0Hyps E st committee_of epc ->
  P0Bounds E st ->
  N.of_nat (length (validators st)) < max64 ->
  cp_epoch (finalized_checkpoint st) <= get_previous_epoch E st ->
  exists ad,
    compute_epoch_attester_data0 (cfg E) committee_of epc (flatten_validators (validators st)) st = Some ad /\
    process_epoch_rewards_and_penalties0 (cfg E) epc ad st = Epoch.process_rewards_and_penalties E Phase0 st.
Proof.
  intros HH HB Hn Hfin.
  destruct (phase0_attester_data_refines E st committee_of epc HH) as [ad [Hc [H1 [H2 [H3 [H4 [H5 [H6 [H7 H8]]]]]]]]].
  exists ad. split; [exact Hc|].
  pose proof HH as [Hce Hpe Hcue Htot Hspe Hsphr Hrl Hstart Hrp Hrc Hpok Hcok Hbl Hinc Hpe1 Hsum].
  assert (Hpe_le : get_previous_epoch E st * SLOTS_PER_EPOCH (cfg E) < two64).
  { unfold get_previous_epoch. destruct (get_current_epoch E st =? GENESIS_EPOCH); unfold GENESIS_EPOCH; nia. }
  destruct (root_at_epoch E st committee_of _ Hspe Hsphr Hrl Hpe_le Hrp) as [rP [HgP _]].
  eapply phase0_rewards_refines_inner; try eassumption.
  exists rP. exact HgP.
Qed.
Print Assumptions phase0_rewards_refines.
Print Assumptions phase0_attester_data_refines.
Print Assumptions phase0_stakes_spec.
