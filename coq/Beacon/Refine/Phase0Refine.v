(* Refinement of zrnt's phase0 attester statuses and attestation deltas.  Part 1: statuses. *)
From Coq Require Import NArith ZArith Lia List Bool Sorted.
From Coq Require Import ZifyN ZifyNat ZifyBool.
From RecordUpdate Require Import RecordSet.
From V Require Import Base.U64 Ssz.SszCore Beacon.Config Beacon.State Beacon.Spec.Helpers Beacon.Spec.Epoch.
From V Require Import Beacon.Impl.Flat Beacon.Impl.Justification Beacon.Impl.AltairAttester Beacon.Impl.Phase0Attester.
From V Require Import Beacon.Refine.ListLemmas Beacon.Refine.FoldLemmas Beacon.Refine.OpsLemmas Beacon.Refine.JustificationRefine.
Import ListNotations RecordSetNotations.
Local Open Scope N_scope.
Ltac Zify.zify_post_hook ::= Z.div_mod_to_equations.

Lemma add64_nw a b : a + b < two64 -> add64 a b = a + b.
Proof. intros H. unfold add64. apply wrap64_small. exact H. Qed.
Lemma mul64_nw a b : a * b < two64 -> mul64 a b = a * b.
Proof. intros H. unfold mul64. apply wrap64_small. exact H. Qed.

(* ---------- indexed maps ---------- *)
Definition imap {A B} (h : N -> A -> B) (l : list A) : list B := map (fun p => h (fst p) (snd p)) (indexed l).
Lemma imap_from_gen {A B} (h : N -> A -> B) : forall (l : list A) k,
  map (fun p => h (fst p) (snd p)) (indexed_from k l) =
  match l with [] => [] | x :: l' => h k x :: map (fun p => h (fst p) (snd p)) (indexed_from (k + 1) l') end.
Proof. intros [|x l] k; reflexivity. Qed.
Lemma imap_imap_from {A B C} (h1 : N -> A -> B) (h2 : N -> B -> C) : forall (l : list A) k,
  map (fun p => h2 (fst p) (snd p)) (indexed_from k (map (fun p => h1 (fst p) (snd p)) (indexed_from k l))) =
  map (fun p => h2 (fst p) (h1 (fst p) (snd p))) (indexed_from k l).
Proof. induction l as [|x l IH]; intros k; cbn [indexed_from map fst snd]; [reflexivity|]. f_equal. apply IH. Qed.
Lemma imap_imap {A B C} (h1 : N -> A -> B) (h2 : N -> B -> C) (l : list A) :
  imap h2 (imap h1 l) = imap (fun i x => h2 i (h1 i x)) l.
Proof. unfold imap, indexed. apply imap_imap_from. Qed.
Lemma imap_length {A B} (h : N -> A -> B) (l : list A) : length (imap h l) = length l.
Proof.
  unfold imap, indexed. rewrite map_length. generalize 0. induction l as [|x l IH]; intros k; cbn [indexed_from length]; [reflexivity|]. rewrite IH. reflexivity.
Qed.
Lemma imap_ext {A B} (h1 h2 : N -> A -> B) (l : list A) :
  (forall i x, nthN l i = Some x -> h1 i x = h2 i x) -> imap h1 l = imap h2 l.
Proof.
  unfold imap, indexed. intros H. apply map_ext_in. intros [i x] Hin. cbn [fst snd].
  apply indexed_from_fst_bounds in Hin. destruct Hin as [_ Hn]. rewrite N.sub_0_r in Hn. apply H. rewrite nthN_nth_error. exact Hn.
Qed.
Lemma imap_id {A} (l : list A) : imap (fun _ x => x) l = l.
Proof.
  unfold imap, indexed. generalize 0. induction l as [|x l IH]; intros k; cbn [indexed_from map snd]; [reflexivity|]. rewrite IH. reflexivity.
Qed.
Lemma nthN_imap {A B} (h : N -> A -> B) (l : list A) i : nthN (imap h l) i = option_map (h i) (nthN l i).
Proof.
  rewrite !nthN_nth_error. unfold imap, indexed.
  assert (Hg : forall (l : list A) k j, nth_error (map (fun p => h (fst p) (snd p)) (indexed_from k l)) j = option_map (h (k + N.of_nat j)) (nth_error l j)).
  { clear. induction l as [|x l IH]; intros k [|j]; cbn [indexed_from map nth_error option_map]; try reflexivity.
    - rewrite N.add_0_r. reflexivity.
    - rewrite IH. f_equal. f_equal. lia. }
  rewrite Hg. f_equal. f_equal. lia.
Qed.

(* ---------- point updates of every participant = an indexed map (idempotent update) ---------- *)
Section UpdateParticipants.
  Context {A : Type} (g : A -> A) (Hidem : forall s, g (g s) = g s).
  Lemma update_one (sts : list A) p : p < N.of_nat (length sts) ->
    updN sts p g = imap (fun i s => if i =? p then g s else s) sts.
  Proof.
    intros Hp. rewrite updN_upd_nat. unfold imap, indexed.
    assert (Hg : forall (l : list A) k j, upd_nat l j g = map (fun q => if fst q =? k + N.of_nat j then g (snd q) else snd q) (indexed_from k l)).
    { clear. induction l as [|x l IH]; intros k [|j]; cbn [upd_nat indexed_from map fst snd]; try reflexivity.
      - rewrite N.add_0_r, N.eqb_refl. f_equal.
        assert (Hid : forall (l : list A) k', k < k' -> map (fun q => if fst q =? k then g (snd q) else snd q) (indexed_from k' l) = l).
        { induction l0 as [|y l0 IH0]; intros k' Hk; cbn [indexed_from map fst snd]; [reflexivity|].
          destruct (N.eqb_spec k' k); [lia|]. f_equal. apply IH0. lia. }
        symmetry. apply Hid. lia.
      - destruct (N.eqb_spec k (k + N.of_nat (S j))); [lia|]. f_equal. rewrite (IH (k + 1) j). apply map_ext. intros q.
        replace (k + 1 + N.of_nat j) with (k + N.of_nat (S j)) by lia. reflexivity. }
    rewrite (Hg sts 0 (N.to_nat p)). apply map_ext. intros q. replace (0 + N.of_nat (N.to_nat p)) with p by lia. reflexivity.
  Qed.
End UpdateParticipants.

Lemma update_participants_spec (g : AttesterStatus -> AttesterStatus) :
  (forall s, g (g s) = g s) ->
  forall parts sts, (forall p, In p parts -> p < N.of_nat (length sts)) ->
  update_participants g parts sts = Some (imap (fun i s => if memN i parts then g s else s) sts).
Proof.
  intros Hidem. unfold update_participants. induction parts as [|p parts IH]; intros sts Hin.
  - cbn [fold_left]. f_equal. etransitivity; [symmetry; apply imap_id|]. apply imap_ext. intros i x _. reflexivity.
  - cbn [fold_left]. assert (Hp : p < N.of_nat (length sts)) by (apply Hin; left; reflexivity).
    destruct (nthN_in_range sts p Hp) as [s0 Hs0]. rewrite Hs0.
    rewrite (update_one g sts p Hp). rewrite IH.
    + f_equal. rewrite imap_imap. apply imap_ext. intros i x _. unfold memN. cbn [existsb].
      destruct (N.eqb_spec i p) as [->|Hne]; cbn [orb].
      * destruct (existsb (N.eqb p) parts); [apply Hidem|reflexivity].
      * reflexivity.
    + intros q Hq. rewrite imap_length. apply Hin. right. exact Hq.
Qed.

Lemma note_inclusion_idem d p s : note_inclusion d p (note_inclusion d p s) = note_inclusion d p s.
Proof.
  unfold note_inclusion.
  destruct ((as_attested_proposer s =? VALIDATOR_INDEX_MARKER) || (d <? as_inclusion_delay s)) eqn:H1; cbn [as_attested_proposer as_inclusion_delay].
  - rewrite N.ltb_irrefl, orb_false_r. destruct (p =? VALIDATOR_INDEX_MARKER); reflexivity.
  - rewrite H1. reflexivity.
Qed.
Lemma mark_idem ip t h s : mark ip t h (mark ip t h s) = mark ip t h s.
Proof.
  unfold mark. destruct s as [d p [a1 a2 a3 a4 a5 a6 a7 a8]]. cbn. destruct ip; cbn; f_equal; f_equal;
    repeat match goal with |- context [?x || ?y || ?y] => rewrite <- (orb_assoc x y y), orb_diag end; reflexivity.
Qed.

Section P0Status.
  Variable E : Env.
  Notation c := (cfg E).
  Variable st : BeaconState.
  Variable committee_of : N -> N -> option (list N).

  Definition att_comm (a : value) : option (list N) := get_beacon_committee E st (ad_slot (pa_data a)) (ad_index (pa_data a)).
  Definition att_parts (a : value) : list N :=
    match att_comm a with Some cm => select_bits (pa_bits a) cm | None => [] end.
  Definition in_att (i : N) (a : value) : bool := memN i (att_parts a).

  (* a pending attestation as every reachable state holds it (process_attestation's own checks) *)
  Record AttOk (a : value) : Prop := mkAttOk {
    ao_epc : committee_of (ad_slot (pa_data a)) (ad_index (pa_data a)) = att_comm a;     (* epc committees = spec committees (C07/C08) *)
    ao_comm : exists cm, att_comm a = Some cm /\ length (pa_bits a) = length cm /\
                         forall x, In x cm -> x < N.of_nat (length (validators st));
    ao_slot : ad_slot (pa_data a) < slot st /\ slot st <= ad_slot (pa_data a) + SLOTS_PER_HISTORICAL_ROOT c;
    ao_proposer : pa_proposer_index a < N.of_nat (length (validators st));
    ao_delay : pa_inclusion_delay a <> 0 }.

  Lemma att_parts_range a : AttOk a -> forall p, In p (att_parts a) -> p < N.of_nat (length (validators st)).
  Proof.
    intros [_ [cm [Hc [Hl Hr]]] _ _ _] p Hp. unfold att_parts in Hp. rewrite Hc in Hp. apply Hr.
    clear -Hp. revert Hp. generalize (pa_bits a). induction cm as [|x cm IH]; intros [|b bs] Hp; cbn [select_bits] in Hp; try destruct Hp.
    destruct b; [destruct Hp as [->|Hp]; [left; reflexivity|right; eapply IH; exact Hp]|right; eapply IH; exact Hp].
  Qed.

  (* zrnt reads the same block-root cell as the spec, for a slot inside the spec's range *)
  Lemma block_root_at_slot_agree s :
    SLOTS_PER_HISTORICAL_ROOT c <> 0 -> s < slot st /\ slot st <= s + SLOTS_PER_HISTORICAL_ROOT c ->
    block_root_at_slot_go c st s = get_block_root_at_slot E st s.
  Proof.
    intros H0 [H1 H2]. unfold block_root_at_slot_go, get_block_root_at_slot.
    destruct (N.eqb_spec (SLOTS_PER_HISTORICAL_ROOT c) 0); [contradiction|].
    destruct (N.ltb_spec s (slot st)); [|lia]. destruct (N.leb_spec (slot st) (s + SLOTS_PER_HISTORICAL_ROOT c)); [|lia]. reflexivity.
  Qed.

  (* the effect of one pending attestation on the status of validator i *)
  Definition att_tgt (target_root : bytes) (a : value) : bool := bytes_eqb (cp_root (ad_target (pa_data a))) target_root.
  Definition att_head (a : value) : bool :=
    match get_block_root_at_slot E st (ad_slot (pa_data a)) with
    | Some r => bytes_eqb (ad_beacon_block_root (pa_data a)) r | None => false end.
  Definition att_upd (note is_prev : bool) (target_root : bytes) (a : value) (i : N) (s : AttesterStatus) : AttesterStatus :=
    if in_att i a
    then mark is_prev (att_tgt target_root a) (att_head a)
              (if note then note_inclusion (pa_inclusion_delay a) (pa_proposer_index a) s else s)
    else s.

  Lemma process_att_imap note is_prev target_root a sts :
    SLOTS_PER_HISTORICAL_ROOT c <> 0 -> N.of_nat (length (block_roots st)) = SLOTS_PER_HISTORICAL_ROOT c ->
    AttOk a -> length sts = length (validators st) ->
    process_att c committee_of st note is_prev target_root (Some sts) a = Some (imap (att_upd note is_prev target_root a) sts).
  Proof.
    intros H0 Hbr Hok Hlen. pose proof (att_parts_range a Hok) as Hr. destruct Hok as [Hepc [cm [Hc [Hl Hcr]]] Hslot Hprop Hdelay].
    unfold process_att. rewrite (block_root_at_slot_agree _ H0 Hslot), Hepc, Hc.
    unfold get_block_root_at_slot. destruct Hslot as [Hs1 Hs2].
    destruct (N.ltb_spec (ad_slot (pa_data a)) (slot st)); [|lia].
    destruct (N.leb_spec (slot st) (ad_slot (pa_data a) + SLOTS_PER_HISTORICAL_ROOT c)); [|lia]. cbn [andb].
    destruct (nthN (block_roots st) (ad_slot (pa_data a) mod SLOTS_PER_HISTORICAL_ROOT c)) as [r|] eqn:Hroot.
    2:{ exfalso. rewrite nthN_nth_error in Hroot. apply nth_error_None in Hroot.
        pose proof (N.mod_lt (ad_slot (pa_data a)) _ H0). lia. }
    rewrite Hl, Nat.eqb_refl. cbn [negb].
    assert (Hparts : select_bits (pa_bits a) cm = att_parts a) by (unfold att_parts; rewrite Hc; reflexivity).
    rewrite Hparts.
    assert (Hhead : bytes_eqb (ad_beacon_block_root (pa_data a)) r = att_head a).
    { unfold att_head, get_block_root_at_slot.
      destruct (N.ltb_spec (ad_slot (pa_data a)) (slot st)); [|lia].
      destruct (N.leb_spec (slot st) (ad_slot (pa_data a) + SLOTS_PER_HISTORICAL_ROOT c)); [|lia]. cbn [andb]. rewrite Hroot. reflexivity. }
    rewrite Hhead. fold (att_tgt target_root a).
    destruct note.
    - rewrite (update_participants_spec _ (note_inclusion_idem _ _)) by (intros p Hp; rewrite Hlen; apply Hr; exact Hp).
      rewrite (update_participants_spec _ (mark_idem _ _ _)) by (intros p Hp; rewrite imap_length, Hlen; apply Hr; exact Hp).
      f_equal. rewrite imap_imap. apply imap_ext. intros i x _. unfold att_upd, in_att. destruct (memN i (att_parts a)); reflexivity.
    - rewrite (update_participants_spec _ (mark_idem _ _ _)) by (intros p Hp; rewrite Hlen; apply Hr; exact Hp).
      first [reflexivity | f_equal; apply imap_ext; intros i x _; unfold att_upd, in_att; destruct (memN i (att_parts a)); reflexivity].
  Qed.

  (* ---------- a whole attestation list ---------- *)
  Definition status_fold (note is_prev : bool) (target_root : bytes) (atts : list value) (i : N) (s : AttesterStatus) : AttesterStatus :=
    fold_left (fun s a => att_upd note is_prev target_root a i s) atts s.

  Lemma process_atts_imap note is_prev target_root : forall atts sts,
    SLOTS_PER_HISTORICAL_ROOT c <> 0 -> N.of_nat (length (block_roots st)) = SLOTS_PER_HISTORICAL_ROOT c ->
    (forall a, In a atts -> AttOk a) -> length sts = length (validators st) ->
    fold_left (process_att c committee_of st note is_prev target_root) atts (Some sts) =
    Some (imap (status_fold note is_prev target_root atts) sts).
  Proof.
    induction atts as [|a atts IH]; intros sts H0 Hbr Hok Hlen.
    - cbn [fold_left]. f_equal. etransitivity; [symmetry; apply imap_id|]. apply imap_ext. intros i x _. reflexivity.
    - cbn [fold_left]. rewrite process_att_imap by (try assumption; apply Hok; left; reflexivity).
      rewrite IH; try assumption.
      + f_equal. rewrite imap_imap. apply imap_ext. intros i x _. reflexivity.
      + intros b Hb. apply Hok. right. exact Hb.
      + rewrite imap_length. exact Hlen.
  Qed.

  (* ---------- flags of one validator after a list ---------- *)
  Lemma note_inclusion_flags d p s : as_flags (note_inclusion d p s) = as_flags s.
  Proof. unfold note_inclusion. destruct (_ || _); reflexivity. Qed.

  Definition or_flags (is_prev : bool) (f : AttFlags) (src tgt head : bool) : AttFlags :=
    if is_prev
    then mkAttFlags (fg_prev_source f || src) (fg_prev_target f || tgt) (fg_prev_head f || head)
                    (fg_curr_source f) (fg_curr_target f) (fg_curr_head f) (fg_unslashed f) (fg_eligible f)
    else mkAttFlags (fg_prev_source f) (fg_prev_target f) (fg_prev_head f)
                    (fg_curr_source f || src) (fg_curr_target f || tgt) (fg_curr_head f || head) (fg_unslashed f) (fg_eligible f).

  Lemma att_upd_flags note is_prev troot a i s :
    as_flags (att_upd note is_prev troot a i s) =
    or_flags is_prev (as_flags s) (in_att i a) (in_att i a && att_tgt troot a) (in_att i a && att_tgt troot a && att_head a).
  Proof.
    unfold att_upd. destruct (in_att i a); cbn [andb].
    - unfold mark. cbn [as_flags]. destruct note; rewrite ?note_inclusion_flags; destruct is_prev; cbn [or_flags];
        destruct (as_flags s); cbn; rewrite ?orb_true_r; reflexivity.
    - destruct is_prev; cbn [or_flags]; destruct (as_flags s); cbn; rewrite ?orb_false_r; reflexivity.
  Qed.
  Lemma or_flags_or ip f a1 a2 a3 b1 b2 b3 :
    or_flags ip (or_flags ip f a1 a2 a3) b1 b2 b3 = or_flags ip f (a1 || b1) (a2 || b2) (a3 || b3).
  Proof. destruct ip; cbn; rewrite !orb_assoc; reflexivity. Qed.

  Lemma status_fold_flags note is_prev troot : forall atts i s,
    as_flags (status_fold note is_prev troot atts i s) =
    or_flags is_prev (as_flags s) (existsb (in_att i) atts) (existsb (fun a => in_att i a && att_tgt troot a) atts)
             (existsb (fun a => in_att i a && att_tgt troot a && att_head a) atts).
  Proof.
    induction atts as [|a atts IH]; intros i s; cbn [status_fold fold_left existsb].
    - destruct is_prev; cbn; destruct (as_flags s); cbn; rewrite ?orb_false_r; reflexivity.
    - fold (status_fold note is_prev troot atts i (att_upd note is_prev troot a i s)). rewrite IH, att_upd_flags, or_flags_or. reflexivity.
  Qed.

  (* ---------- earliest inclusion ---------- *)
  Definition best_step (best : option value) (a : value) : option value :=
    match best with
    | None => Some a
    | Some b => if pa_inclusion_delay a <? pa_inclusion_delay b then Some a else best
    end.
  Lemma min_by_delay_fold : forall l best, min_by_delay best l = fold_left best_step l best.
  Proof.
    induction l as [|a l IH]; intros best; cbn [min_by_delay fold_left]; [reflexivity|].
    destruct best as [b|]; cbn [best_step]; [destruct (pa_inclusion_delay a <? pa_inclusion_delay b)|]; apply IH.
  Qed.

  Definition incl_rel (s : AttesterStatus) (best : option value) : Prop :=
    match best with
    | None => as_attested_proposer s = VALIDATOR_INDEX_MARKER /\ as_inclusion_delay s = 0
    | Some b => as_inclusion_delay s = pa_inclusion_delay b /\ as_attested_proposer s = pa_proposer_index b /\
                pa_proposer_index b <> VALIDATOR_INDEX_MARKER
    end.
  Lemma mark_incl ip t h s : as_inclusion_delay (mark ip t h s) = as_inclusion_delay s /\ as_attested_proposer (mark ip t h s) = as_attested_proposer s.
  Proof. split; reflexivity. Qed.

  Lemma att_upd_incl is_prev troot a i s best :
    incl_rel s best -> pa_proposer_index a <> VALIDATOR_INDEX_MARKER ->
    incl_rel (att_upd true is_prev troot a i s) (if in_att i a then best_step best a else best).
  Proof.
    intros Hrel Hp. unfold att_upd. destruct (in_att i a); [|exact Hrel].
    unfold incl_rel in *. destruct (mark_incl is_prev (att_tgt troot a) (att_head a)
        (note_inclusion (pa_inclusion_delay a) (pa_proposer_index a) s)) as [-> ->].
    unfold note_inclusion. destruct best as [b|]; cbn [best_step].
    - destruct Hrel as [Hd [Hpr Hm]]. rewrite Hpr, Hd.
      destruct (N.eqb_spec (pa_proposer_index b) VALIDATOR_INDEX_MARKER) as [He|_]; [contradiction|]. cbn [orb].
      destruct (pa_inclusion_delay a <? pa_inclusion_delay b); cbn [as_inclusion_delay as_attested_proposer].
      + repeat split; assumption.
      + repeat split; assumption.
    - destruct Hrel as [Hpr Hd]. rewrite Hpr, N.eqb_refl. cbn [orb as_inclusion_delay as_attested_proposer]. repeat split; assumption.
  Qed.
  Lemma status_fold_incl is_prev troot : forall atts i s best,
    (forall a, In a atts -> pa_proposer_index a <> VALIDATOR_INDEX_MARKER) ->
    incl_rel s best ->
    incl_rel (status_fold true is_prev troot atts i s) (fold_left best_step (filter (in_att i) atts) best).
  Proof.
    induction atts as [|a atts IH]; intros i s best Hp Hrel; cbn [status_fold fold_left filter]; [exact Hrel|].
    fold (status_fold true is_prev troot atts i (att_upd true is_prev troot a i s)).
    pose proof (att_upd_incl is_prev troot a i s best Hrel (Hp a (or_introl eq_refl))) as H1.
    destruct (in_att i a); cbn [fold_left]; apply IH; try assumption; intros b Hb; apply Hp; right; exact Hb.
  Qed.
  Lemma status_fold_noincl is_prev troot : forall atts i s,
    as_inclusion_delay (status_fold false is_prev troot atts i s) = as_inclusion_delay s /\
    as_attested_proposer (status_fold false is_prev troot atts i s) = as_attested_proposer s.
  Proof.
    induction atts as [|a atts IH]; intros i s; cbn [status_fold fold_left]; [split; reflexivity|].
    fold (status_fold false is_prev troot atts i (att_upd false is_prev troot a i s)).
    destruct (IH i (att_upd false is_prev troot a i s)) as [-> ->]. unfold att_upd. destruct (in_att i a); split; reflexivity.
  Qed.
End P0Status.

(* ================= Part 2: the spec's index sets ================= *)
Lemma all_some_map_some {A B} (g : A -> option B) (h : A -> B) : forall l,
  (forall a, In a l -> g a = Some (h a)) -> all_some (map g l) = Some (map h l).
Proof.
  induction l as [|a l IH]; intros H; cbn [map all_some]; [reflexivity|].
  rewrite (H a (or_introl eq_refl)), IH by (intros b Hb; apply H; right; exact Hb). reflexivity.
Qed.

Lemma existsb_ext {A} (p q : A -> bool) l : (forall a, p a = q a) -> existsb p l = existsb q l.
Proof. intros H. induction l as [|a l IH]; cbn [existsb]; [reflexivity|]. rewrite H, IH. reflexivity. Qed.

Section P0Spec.
  Variable E : Env.
  Notation c := (cfg E).
  Variable st : BeaconState.
  Variable committee_of : N -> N -> option (list N).
  Let n := length (validators st).

  Lemma attesting_indices_ok a : AttOk E st committee_of a -> get_attesting_indices E st (pa_data a) (pa_bits a) = Some (att_parts E st a).
  Proof.
    intros [_ [cm [Hc _]] _ _ _]. unfold get_attesting_indices, att_parts. unfold att_comm in *. rewrite Hc. reflexivity.
  Qed.

  (* get_unslashed_attesting_indices as a filter of 0..n-1 *)
  Definition unsl_sel (atts : list value) (i : N) : bool := negb (is_slashed st i) && existsb (in_att E st i) atts.
  Lemma unslashed_attesting_spec atts :
    (forall a, In a atts -> AttOk E st committee_of a) ->
    get_unslashed_attesting_indices E st atts = Some (filter (unsl_sel atts) (seqN 0 n)).
  Proof.
    intros Hok. unfold get_unslashed_attesting_indices.
    rewrite (all_some_map_some _ (att_parts E st)) by (intros a Ha; apply attesting_indices_ok; apply Hok; exact Ha).
    f_equal. apply sorted_lt_ext.
    - apply sorted_filter. apply sort_uniq_sorted.
    - apply sorted_filter. apply seqN_sorted.
    - intros x. rewrite !filter_In, sort_uniq_in, in_concat_map, seqN_in. unfold unsl_sel.
      split.
      + intros [[a [Ha Hx]] Hs]. split.
        * split; [lia|]. rewrite N.add_0_l. eapply att_parts_range; [apply Hok; exact Ha|exact Hx].
        * rewrite Hs. cbn [andb]. apply existsb_exists. exists a. split; [exact Ha|]. unfold in_att. apply memN_in. exact Hx.
      + intros [_ Hs]. apply andb_prop in Hs. destruct Hs as [Hs He]. split; [|exact Hs].
        apply existsb_exists in He. destruct He as [a [Ha Hx]]. exists a. split; [exact Ha|]. apply memN_in. exact Hx.
  Qed.
  Lemma memN_unsl atts i : i < N.of_nat n -> memN i (filter (unsl_sel atts) (seqN 0 n)) = unsl_sel atts i.
  Proof.
    intros Hi. rewrite memN_filter. assert (H : memN i (seqN 0 n) = true) by (apply memN_in; apply seqN_in; lia).
    rewrite H. apply andb_true_r.
  Qed.

  (* ---------- matching attestations ---------- *)
  Definition tgt_root (e : N) : bytes := match get_block_root E st e with Some r => r | None => [] end.

  Lemma matching_source_prev : GENESIS_EPOCH < get_current_epoch E st ->
    get_matching_source_attestations E st (get_previous_epoch E st) = Some (previous_epoch_attestations st).
  Proof.
    intros Hce. unfold get_matching_source_attestations. rewrite N.eqb_refl. cbn [orb].
    assert (H : (get_previous_epoch E st =? get_current_epoch E st) = false).
    { unfold get_previous_epoch, GENESIS_EPOCH in *. destruct (N.eqb_spec (get_current_epoch E st) 0); [lia|]. apply N.eqb_neq. lia. }
    rewrite H. reflexivity.
  Qed.
  Lemma matching_source_cur :
    get_matching_source_attestations E st (get_current_epoch E st) = Some (current_epoch_attestations st).
  Proof. unfold get_matching_source_attestations. rewrite N.eqb_refl, orb_true_r. reflexivity. Qed.

  Lemma matching_target_gen e src :
    get_matching_source_attestations E st e = Some src ->
    (exists r, get_block_root E st e = Some r) ->
    get_matching_target_attestations E st e = Some (filter (att_tgt (tgt_root e)) src).
  Proof.
    intros Hs [r Hr]. unfold get_matching_target_attestations. rewrite Hs. destruct src as [|a src]; [reflexivity|].
    unfold tgt_root. rewrite Hr. reflexivity.
  Qed.
  Lemma matching_head_gen e src :
    get_matching_source_attestations E st e = Some src ->
    (exists r, get_block_root E st e = Some r) ->
    (forall a, In a src -> AttOk E st committee_of a) -> SLOTS_PER_HISTORICAL_ROOT c <> 0 ->
    N.of_nat (length (block_roots st)) = SLOTS_PER_HISTORICAL_ROOT c ->
    get_matching_head_attestations E st e = Some (filter (att_head E st) (filter (att_tgt (tgt_root e)) src)).
  Proof.
    intros Hs Hr Hok H0 Hbr. unfold get_matching_head_attestations. rewrite (matching_target_gen e src Hs Hr).
    set (tg := filter (att_tgt (tgt_root e)) src).
    assert (Htg : forall a, In a tg -> AttOk E st committee_of a) by (intros a Ha; apply Hok; unfold tg in Ha; apply filter_In in Ha; apply Ha).
    rewrite (all_some_map_some _ (fun a => (a, att_head E st a))).
    - f_equal. clear. induction tg as [|a tg IH]; cbn [map filter snd fst]; [reflexivity|].
      destruct (att_head E st a); cbn [map fst]; rewrite IH; reflexivity.
    - intros a Ha. destruct (Htg a Ha) as [_ _ [Hs1 Hs2] _ _]. unfold att_head, get_block_root_at_slot.
      destruct (N.ltb_spec (ad_slot (pa_data a)) (slot st)); [|lia].
      destruct (N.leb_spec (slot st) (ad_slot (pa_data a) + SLOTS_PER_HISTORICAL_ROOT c)); [|lia]. cbn [andb].
      destruct (nthN (block_roots st) (ad_slot (pa_data a) mod SLOTS_PER_HISTORICAL_ROOT c)) as [r|] eqn:Hroot; [reflexivity|].
      exfalso. rewrite nthN_nth_error in Hroot. apply nth_error_None in Hroot.
      pose proof (N.mod_lt (ad_slot (pa_data a)) _ H0). lia.
  Qed.

  (* membership in the three unslashed attesting sets, in the shape of zrnt's flags *)
  Lemma unsl_sel_target r src i :
    unsl_sel (filter (att_tgt r) src) i = negb (is_slashed st i) && existsb (fun a => in_att E st i a && att_tgt r a) src.
  Proof. unfold unsl_sel. rewrite existsb_filter. f_equal. apply existsb_ext. intros a. apply andb_comm. Qed.
  Lemma unsl_sel_head r src i :
    unsl_sel (filter (att_head E st) (filter (att_tgt r) src)) i =
    negb (is_slashed st i) && existsb (fun a => in_att E st i a && att_tgt r a && att_head E st a) src.
  Proof.
    unfold unsl_sel. rewrite !existsb_filter. f_equal. apply existsb_ext. intros a.
    destruct (att_tgt r a), (att_head E st a), (in_att E st i a); reflexivity.
  Qed.
End P0Spec.

(* ================= Part 3: zrnt's attester data = the spec's attesting balances ================= *)
Lemma sumN_filter_if (g : N -> N) (q : N -> bool) l : sumN (map g (filter q l)) = sumN (map (fun i => if q i then g i else 0) l).
Proof.
  induction l as [|x l IH]; [reflexivity|]. cbn [filter map]. rewrite sumN_cons. destruct (q x); cbn [map]; rewrite ?sumN_cons, IH; lia.
Qed.
Lemma combine_imap {A B} (h : N -> A -> B) (l : list A) : combine (imap h l) l = map (fun p => (h (fst p) (snd p), snd p)) (indexed l).
Proof.
  unfold imap, indexed. generalize 0. induction l as [|x l IH]; intros k; cbn [indexed_from map combine fst snd]; [reflexivity|].
  f_equal. apply IH.
Qed.
Lemma fold_left_map {A B C} (f : A -> B -> A) (g : C -> B) : forall l a, fold_left f (map g l) a = fold_left (fun a x => f a (g x)) l a.
Proof. induction l as [|x l IH]; intros a; cbn [map fold_left]; [reflexivity|]. apply IH. Qed.
Lemma sumN_seqN_S (g : N -> N) k m : sumN (map g (seqN k (S m))) = g k + sumN (map g (seqN (k + 1) m)).
Proof. cbn [seqN map]. apply sumN_cons. Qed.
Lemma sumN_le_seq (g h : N -> N) : forall m k, (forall i, g i <= h i) -> sumN (map g (seqN k m)) <= sumN (map h (seqN k m)).
Proof. induction m as [|m IH]; intros k H; [reflexivity|]. rewrite !sumN_seqN_S. specialize (IH (k + 1) H). specialize (H k). lia. Qed.

Section P0Data.
  Variable E : Env.
  Notation c := (cfg E).
  Notation INC := (EFFECTIVE_BALANCE_INCREMENT c).
  Variable st : BeaconState.
  Variable committee_of : N -> N -> option (list N).
  Let n := length (validators st).
  Let pe := get_previous_epoch E st.
  Let ce := get_current_epoch E st.
  Let srcP := previous_epoch_attestations st.
  Let srcC := current_epoch_attestations st.
  Let rootP := tgt_root E st pe.
  Let rootC := tgt_root E st ce.

  Record P0Hyps (epc : EpcView) : Prop := mkP0Hyps {
    ph_ce : GENESIS_EPOCH < ce;
    ph_prev_epoch : epc_prev_epoch epc = pe;
    ph_cur_epoch : epc_cur_epoch epc = ce;
    ph_total : epc_total_active_stake epc = get_total_active_balance E st;
    ph_spe : SLOTS_PER_EPOCH c <> 0;
    ph_sphr : SLOTS_PER_HISTORICAL_ROOT c <> 0;
    ph_roots_len : N.of_nat (length (block_roots st)) = SLOTS_PER_HISTORICAL_ROOT c;
    ph_start : ce * SLOTS_PER_EPOCH c < two64;
    ph_range_prev : compute_start_slot_at_epoch E pe < slot st /\ slot st <= compute_start_slot_at_epoch E pe + SLOTS_PER_HISTORICAL_ROOT c;
    ph_range_cur : compute_start_slot_at_epoch E ce < slot st /\ slot st <= compute_start_slot_at_epoch E ce + SLOTS_PER_HISTORICAL_ROOT c;
    ph_prev_ok : forall a, In a srcP -> AttOk E st committee_of a;
    ph_cur_ok : forall a, In a srcC -> AttOk E st committee_of a;
    ph_bal_len : length (balances st) = n;
    ph_inc : INC <> 0;
    ph_pe1 : pe + 1 < two64;
    ph_sum : sumN (map (eff_bal st) (seqN 0 n)) < two64 }.

  (* the final status of validator i *)
  Definition final_status (i : N) (fl : FlatValidator) : AttesterStatus :=
    status_fold E st false false rootC srcC i (status_fold E st true true rootP srcP i (init_status pe fl)).
  Definition f_ps (i : N) := existsb (in_att E st i) srcP.
  Definition f_pt (i : N) := existsb (fun a => in_att E st i a && att_tgt rootP a) srcP.
  Definition f_ph (i : N) := existsb (fun a => in_att E st i a && att_tgt rootP a && att_head E st a) srcP.
  Definition f_cs (i : N) := existsb (in_att E st i) srcC.
  Definition f_ct (i : N) := existsb (fun a => in_att E st i a && att_tgt rootC a) srcC.
  Definition f_ch (i : N) := existsb (fun a => in_att E st i a && att_tgt rootC a && att_head E st a) srcC.
  Lemma final_flags i fl :
    as_flags (final_status i fl) =
    mkAttFlags (f_ps i) (f_pt i) (f_ph i) (f_cs i) (f_ct i) (f_ch i) (negb (fl_slashed fl)) (eligible_cond pe fl).
  Proof. unfold final_status. rewrite !status_fold_flags. reflexivity. Qed.

  Lemma root_at_epoch e :
    SLOTS_PER_EPOCH c <> 0 -> SLOTS_PER_HISTORICAL_ROOT c <> 0 -> N.of_nat (length (block_roots st)) = SLOTS_PER_HISTORICAL_ROOT c ->
    e * SLOTS_PER_EPOCH c < two64 ->
    compute_start_slot_at_epoch E e < slot st /\ slot st <= compute_start_slot_at_epoch E e + SLOTS_PER_HISTORICAL_ROOT c ->
    exists r, get_block_root E st e = Some r /\ tgt_root E st e = r /\
              epoch_start_slot_go c e = Some (e * SLOTS_PER_EPOCH c) /\ block_root_at_slot_go c st (e * SLOTS_PER_EPOCH c) = Some r.
  Proof.
    intros Hspe Hsphr Hlen Hb Hr. pose proof (block_root_at_slot_agree E st committee_of _ Hsphr Hr) as Hag.
    unfold compute_start_slot_at_epoch in *.
    destruct (get_block_root_at_slot E st (e * SLOTS_PER_EPOCH c)) as [r|] eqn:Hg.
    - exists r. split; [unfold get_block_root, compute_start_slot_at_epoch; exact Hg|].
      split; [unfold tgt_root, get_block_root, compute_start_slot_at_epoch; rewrite Hg; reflexivity|].
      split; [apply (epoch_start_slot_ok E); assumption|exact Hag].
    - exfalso. unfold get_block_root_at_slot in Hg. destruct Hr as [H1 H2].
      destruct (N.ltb_spec (e * SLOTS_PER_EPOCH c) (slot st)); [|lia].
      destruct (N.leb_spec (slot st) (e * SLOTS_PER_EPOCH c + SLOTS_PER_HISTORICAL_ROOT c)); [|lia]. cbn [andb] in Hg.
      rewrite nthN_nth_error in Hg. apply nth_error_None in Hg. pose proof (N.mod_lt (e * SLOTS_PER_EPOCH c) _ Hsphr). lia.
  Qed.

  Definition sel_sum0 (q : N -> bool) (k : N) (m : nat) : N := sumN (map (fun i => if q i then eff_bal st i else 0) (seqN k m)).
  Definition un (i : N) : bool := negb (is_slashed st i).

  Lemma stake_fold0 : forall vals' pre s t h x,
    validators st = pre ++ vals' ->
    s + sumN (map (eff_bal st) (seqN (N.of_nat (length pre)) (length vals'))) < two64 ->
    t + sumN (map (eff_bal st) (seqN (N.of_nat (length pre)) (length vals'))) < two64 ->
    h + sumN (map (eff_bal st) (seqN (N.of_nat (length pre)) (length vals'))) < two64 ->
    x + sumN (map (eff_bal st) (seqN (N.of_nat (length pre)) (length vals'))) < two64 ->
    fold_left (fun acc p => stake_step0 acc (final_status (fst p) (snd p), snd p))
              (indexed_from (N.of_nat (length pre)) (map flatten vals')) (s, t, h, x) =
    (s + sel_sum0 (fun i => f_ps i && un i) (N.of_nat (length pre)) (length vals'),
     t + sel_sum0 (fun i => f_ps i && un i && f_pt i) (N.of_nat (length pre)) (length vals'),
     h + sel_sum0 (fun i => f_ps i && un i && f_pt i && f_ph i) (N.of_nat (length pre)) (length vals'),
     x + sel_sum0 (fun i => f_ct i && un i) (N.of_nat (length pre)) (length vals')).
  Proof.
    induction vals' as [|v vals' IH]; intros pre s t h x Hv Hs Ht Hh Hx.
    - cbn [map indexed_from fold_left length]. unfold sel_sum0. cbn [seqN map]. rewrite sumN_nil, !N.add_0_r. reflexivity.
    - cbn [length] in Hs, Ht, Hh, Hx. cbn [map indexed_from fold_left length fst snd]. unfold sel_sum0. rewrite !sumN_seqN_S. rewrite sumN_seqN_S in Hs, Ht, Hh, Hx.
      set (k := N.of_nat (length pre)) in *.
      assert (Hnth : nthN (validators st) k = Some v) by (rewrite Hv; apply nthN_app).
      assert (Heff : eff_bal st k = v_effective_balance v) by (unfold eff_bal; rewrite Hnth; reflexivity).
      assert (Hun : un k = negb (v_slashed v)) by (unfold un, is_slashed; rewrite Hnth; reflexivity).
      unfold stake_step0 at 2. rewrite final_flags. cbn [fg_prev_source fg_unslashed fg_prev_target fg_prev_head fg_curr_target flatten fl_slashed fl_effective_balance].
      rewrite <- Hun, <- Heff.
      replace (k + 1) with (N.of_nat (length (pre ++ [v]))) in * by (rewrite app_length; cbn [length]; lia).
      assert (Hv' : validators st = (pre ++ [v]) ++ vals') by (rewrite <- app_assoc; exact Hv).
      set (T := sumN (map (eff_bal st) (seqN (N.of_nat (length (pre ++ [v]))) (length vals')))) in *.
      destruct (f_ps k && un k), (f_pt k), (f_ph k), (f_ct k && un k); cbn [andb];
        repeat match goal with |- context [add64 ?a ?b] => rewrite (add64_nw a b) by lia end;
        rewrite (IH (pre ++ [v])) by (try exact Hv'; fold T; lia);
        rewrite ?N.add_0_l, ?N.add_assoc; reflexivity.
  Qed.


  Lemma imap_map {A B C} (h : N -> B -> C) (g : A -> B) (l : list A) : imap h (map g l) = imap (fun i x => h i (g x)) l.
  Proof.
    unfold imap, indexed. generalize 0. induction l as [|x l IH]; intros k; cbn [map indexed_from fst snd]; [reflexivity|]. f_equal. apply IH.
  Qed.

  Lemma sel_sum0_ext q1 q2 k m : (forall i, q1 i = q2 i) -> sel_sum0 q1 k m = sel_sum0 q2 k m.
  Proof. intros H. unfold sel_sum0. f_equal. apply map_ext. intros i. rewrite H. reflexivity. Qed.

  Lemma attesting_balance_spec atts :
    (forall a, In a atts -> AttOk E st committee_of a) ->
    get_attesting_balance E st atts = Some (N.max INC (sel_sum0 (unsl_sel E st atts) 0 n)).
  Proof.
    intros Hok. unfold get_attesting_balance. rewrite (unslashed_attesting_spec E st committee_of atts Hok).
    unfold get_total_balance. fold n. rewrite sumN_filter_if. reflexivity.
  Qed.

  Definition statuses_of (flats : list FlatValidator) : list AttesterStatus := imap final_status flats.

  Theorem phase0_attester_data_refines (epc : EpcView) :
    P0Hyps epc ->
    exists ad,
      compute_epoch_attester_data0 c committee_of epc (flatten_validators (validators st)) st = Some ad /\
      p0_prev_epoch ad = pe /\ p0_cur_epoch ad = ce /\
      p0_flats ad = flatten_validators (validators st) /\
      p0_statuses ad = statuses_of (flatten_validators (validators st)) /\
      p0_prev_source_stake ad = N.max INC (sel_sum0 (fun i => f_ps i && un i) 0 n) /\
      p0_prev_target_stake ad = N.max INC (sel_sum0 (fun i => f_ps i && un i && f_pt i) 0 n) /\
      p0_prev_head_stake ad = N.max INC (sel_sum0 (fun i => f_ps i && un i && f_pt i && f_ph i) 0 n) /\
      p0_cur_target_stake ad = N.max INC (sel_sum0 (fun i => f_ct i && un i) 0 n).
  Proof.
    intros [Hce Hpe Hcue Htot Hspe Hsphr Hrl Hstart Hrp Hrc Hpok Hcok Hbl Hinc Hpe1 Hsum].
    unfold compute_epoch_attester_data0. rewrite Hpe, Hcue.
    assert (Hpe_le : pe * SLOTS_PER_EPOCH c < two64).
    { unfold pe, get_previous_epoch. fold ce. destruct (ce =? GENESIS_EPOCH); unfold GENESIS_EPOCH; nia. }
    destruct (root_at_epoch pe Hspe Hsphr Hrl Hpe_le Hrp) as [rP [HgP [HtP [HsP HbP]]]].
    destruct (root_at_epoch ce Hspe Hsphr Hrl Hstart Hrc) as [rC [HgC [HtC [HsC HbC]]]].
    unfold process_epoch_atts. rewrite HsP, HbP, N.eqb_refl.
    set (flats := flatten_validators (validators st)).
    assert (Hfl : length flats = length (validators st)) by (unfold flats, flatten_validators; apply map_length).
    rewrite (process_atts_imap E st committee_of true true rP) by (try assumption; rewrite map_length; exact Hfl).
    rewrite HsC, HbC.
    assert (Hne : (ce =? pe) = false).
    { unfold pe, get_previous_epoch. fold ce. unfold GENESIS_EPOCH in *. destruct (N.eqb_spec ce 0); [lia|]. apply N.eqb_neq. lia. }
    rewrite Hne.
    rewrite (process_atts_imap E st committee_of false false rC) by (try assumption; rewrite imap_length, map_length; exact Hfl).
    rewrite imap_map, imap_imap.
    assert (Hst : imap (fun i x => status_fold E st false false rC (current_epoch_attestations st) i
                                     (status_fold E st true true rP (previous_epoch_attestations st) i (init_status pe x))) flats =
                  statuses_of flats).
    { unfold statuses_of. apply imap_ext. intros i x _. unfold final_status, rootP, rootC, srcP, srcC. rewrite HtP, HtC. reflexivity. }
    rewrite Hst. unfold statuses_of at 1. rewrite combine_imap, fold_left_map.
    pose proof (stake_fold0 (validators st) [] 0 0 0 0 eq_refl) as Hf. cbn [length N.of_nat app] in Hf. fold n in Hf.
    unfold flats, flatten_validators, indexed. cbn [fst snd] in Hf. rewrite Hf by lia.
    eexists. split; [reflexivity|]. cbn [p0_prev_epoch p0_cur_epoch p0_flats p0_statuses p0_prev_source_stake p0_prev_target_stake p0_prev_head_stake p0_cur_target_stake].
    rewrite !N.add_0_l. unfold clip_inc.
    repeat split; try reflexivity;
      match goal with |- (if ?x <? _ then _ else _) = _ => destruct (N.ltb_spec x INC); lia end.
  Qed.

  (* the four stakes are the spec's attesting balances (what justification and the rewards use) *)
  Theorem phase0_stakes_spec (epc : EpcView) (ad : Phase0AttesterData) :
    P0Hyps epc ->
    p0_prev_source_stake ad = N.max INC (sel_sum0 (fun i => f_ps i && un i) 0 n) ->
    p0_prev_target_stake ad = N.max INC (sel_sum0 (fun i => f_ps i && un i && f_pt i) 0 n) ->
    p0_prev_head_stake ad = N.max INC (sel_sum0 (fun i => f_ps i && un i && f_pt i && f_ph i) 0 n) ->
    p0_cur_target_stake ad = N.max INC (sel_sum0 (fun i => f_ct i && un i) 0 n) ->
    (match get_matching_source_attestations E st pe with Some a => get_attesting_balance E st a | None => None end) = Some (p0_prev_source_stake ad) /\
    (match get_matching_target_attestations E st pe with Some a => get_attesting_balance E st a | None => None end) = Some (p0_prev_target_stake ad) /\
    (match get_matching_head_attestations E st pe with Some a => get_attesting_balance E st a | None => None end) = Some (p0_prev_head_stake ad) /\
    (match get_matching_target_attestations E st ce with Some a => get_attesting_balance E st a | None => None end) = Some (p0_cur_target_stake ad).
  Proof.
    intros [Hce Hpe Hcue Htot Hspe Hsphr Hrl Hstart Hrp Hrc Hpok Hcok Hbl Hinc Hpe1 Hsum] H1 H2 H3 H4.
    assert (Hpe_le : pe * SLOTS_PER_EPOCH c < two64).
    { unfold pe, get_previous_epoch. fold ce. destruct (ce =? GENESIS_EPOCH); unfold GENESIS_EPOCH; nia. }
    destruct (root_at_epoch pe Hspe Hsphr Hrl Hpe_le Hrp) as [rP [HgP [HtP _]]].
    destruct (root_at_epoch ce Hspe Hsphr Hrl Hstart Hrc) as [rC [HgC [HtC _]]].
    pose proof (matching_source_prev E st Hce) as HsrcP. fold pe srcP in HsrcP.
    pose proof (matching_source_cur E st) as HsrcC. fold ce srcC in HsrcC.
    assert (HfiltP : forall a, In a (filter (att_tgt (tgt_root E st pe)) srcP) -> AttOk E st committee_of a)
      by (intros a Ha; apply Hpok; apply filter_In in Ha; apply Ha).
    assert (HfiltC : forall a, In a (filter (att_tgt (tgt_root E st ce)) srcC) -> AttOk E st committee_of a)
      by (intros a Ha; apply Hcok; apply filter_In in Ha; apply Ha).
    assert (HfiltH : forall a, In a (filter (att_head E st) (filter (att_tgt (tgt_root E st pe)) srcP)) -> AttOk E st committee_of a)
      by (intros a Ha; apply HfiltP; apply filter_In in Ha; apply Ha).
    rewrite HsrcP, (matching_target_gen E st pe srcP HsrcP (ex_intro _ rP HgP)),
            (matching_head_gen E st committee_of pe srcP HsrcP (ex_intro _ rP HgP) Hpok Hsphr Hrl),
            (matching_target_gen E st ce srcC HsrcC (ex_intro _ rC HgC)).
    rewrite !attesting_balance_spec by assumption. rewrite H1, H2, H3, H4. fold rootP rootC.
    repeat split; f_equal; f_equal; apply sel_sum0_ext; intros i.
    - unfold unsl_sel, f_ps, un. apply andb_comm.
    - rewrite unsl_sel_target. unfold f_ps, f_pt, un.
      destruct (negb (is_slashed st i)); cbn [andb]; [|rewrite andb_false_r; reflexivity].
      rewrite andb_true_r.
      destruct (existsb (fun a => in_att E st i a && att_tgt rootP a) srcP) eqn:He; [|rewrite andb_false_r; reflexivity].
      rewrite andb_true_r. symmetry. apply existsb_exists in He. destruct He as [a [Ha Hc]]. apply andb_prop in Hc.
      apply existsb_exists. exists a. split; [exact Ha|apply Hc].
    - rewrite unsl_sel_head. unfold f_ps, f_pt, f_ph, un. fold rootP.
      destruct (negb (is_slashed st i)); cbn [andb]; [|rewrite !andb_false_r; reflexivity].
      rewrite andb_true_r.
      destruct (existsb (fun a => in_att E st i a && att_tgt rootP a && att_head E st a) srcP) eqn:He; [|rewrite andb_false_r; reflexivity].
      rewrite andb_true_r. symmetry. apply existsb_exists in He. destruct He as [a [Ha Hc]].
      apply andb_prop in Hc. destruct Hc as [Hc Hh]. apply andb_prop in Hc. destruct Hc as [Hi Ht].
      apply andb_true_intro. split; apply existsb_exists; exists a; (split; [exact Ha|]); [exact Hi|rewrite Hi, Ht; reflexivity].
    - rewrite unsl_sel_target. unfold f_ct, un. fold rootC. apply andb_comm.
  Qed.
End P0Data.
