(* C02 — stable names of the finished refinement theorems (Impl model of zrnt = consensus Spec), for Properties/C02.v.
   One line per theorem: what is proved for ALL states satisfying the named hypotheses.  See design/C02-refine.md. *)
From Coq Require Import NArith List Bool.
From V Require Import Base.U64 Beacon.Config Beacon.State Beacon.Spec.Helpers Beacon.Spec.Epoch.
From V Require Import Beacon.Impl.Flat Beacon.Impl.Registry Beacon.Impl.Justification Beacon.Impl.Final Beacon.Impl.Slashings
                      Beacon.Impl.AltairAttester Beacon.Impl.Phase0Attester.
From V Require Import Beacon.Refine.RegistryRefine Beacon.Refine.RegistryWitness Beacon.Refine.JustificationRefine
                      Beacon.Refine.FinalRefine Beacon.Refine.SlashingsRefine Beacon.Refine.AltairDomain
                      Beacon.Refine.AltairRefine Beacon.Refine.AltairCheck Beacon.Refine.AltairWitness
                      Beacon.Refine.EpochCompose Beacon.Refine.Phase0Refine Beacon.Refine.Phase0Check Beacon.Refine.Phase0Witness.

(* ---- 1. registry updates (phase0..capella: churn limit; deneb: activation churn limit) ---- *)
Definition C02_exit_scan_spec := exit_scan_spec.                 (* scan = (max exit epoch ∪ {activation-exit epoch}, #exits there) *)
Definition C02_eject_batch_refines := eject_batch_refines.       (* batched ejection = iterated initiate_validator_exit *)
Definition C02_activation_queue_prefix := activation_queue_prefix. (* sort, cut, break = filter, sort, cut  (finalized <= current) *)
Definition C02_registry_refines := registry_refines.             (* RegBounds, finalized epoch <= current epoch *)
Definition C02_registry_orig_refuted := registry_orig_refuted.   (* pinned snapshot: queue end 9, spec 8 *)
Definition C02_registry_nonvacuous := registry_nonvacuous.
(* ---- 2. justification and finalization ---- *)
Definition C02_justification_weigh_refines := justification_weigh_refines.
Definition C02_justification_refines := justification_refines.   (* JustHyps *)
Definition C02_justification_nonvacuous := justification_nonvacuous.
(* ---- 3. effective balances, resets, historical accumulators, participation rotation ---- *)
Definition C02_eff_balance_refines := eff_balance_refines.       (* EffBalHyps *)
Definition C02_eth1_data_reset_refines := eth1_data_reset_refines.
Definition C02_slashings_reset_refines := slashings_reset_refines.
Definition C02_randao_mixes_reset_refines := randao_mixes_reset_refines.
Definition C02_historical_refines := historical_refines.
Definition C02_participation_record_refines := participation_record_refines.
Definition C02_participation_flag_refines := participation_flag_refines.
(* ---- 4. slashings ---- *)
Definition C02_slashings_refines := slashings_refines.           (* SlashHyps *)
(* ---- 5. altair family: attester data, flag deltas, inactivity ---- *)
Definition C02_attester_data_refines := attester_data_refines.   (* AltairHyps *)
Definition C02_flag_deltas_refines := flag_deltas_refines.       (* AltairHyps, FlagBounds *)
Definition C02_inactivity_deltas_refines := inactivity_deltas_refines.  (* AltairHyps, InactBounds *)
Definition C02_inactivity_updates_refines := inactivity_updates_refines. (* AltairHyps, finalized <= previous epoch *)
Definition C02_altair_rewards_refines := altair_rewards_refines. (* ... + NoMidSaturation *)
Definition C02_altair_rewards_refines_checked := altair_rewards_refines_checked. (* decidable hypotheses *)
Definition C02_altair_curr_target_orig_refuted := altair_curr_target_orig_refuted. (* pinned snapshot *)
Definition C02_altair_delta_order_refuted := altair_delta_order_refuted.  (* FINDING: sum-then-apply *)
Definition C02_altair_nonvacuous := altair_nonvacuous.
(* ---- 6. phase0: attester statuses, stakes, attestation deltas ---- *)
Definition C02_phase0_attester_data_refines := phase0_attester_data_refines. (* P0Hyps: statuses in closed form, the four stakes *)
Definition C02_phase0_stakes_spec := phase0_stakes_spec.           (* the stakes are the spec's attesting balances *)
Definition C02_phase0_rewards_refines := phase0_rewards_refines.   (* P0Hyps, P0Bounds, finalized <= previous epoch *)
Definition C02_phase0_rewards_refines_checked := phase0_rewards_refines_checked.
Definition C02_phase0_nonvacuous := phase0_nonvacuous.
(* ---- composition: the stale snapshot after registry updates ---- *)
Definition C02_registry_frame := registry_frame.
Definition C02_registry_keeps_active := registry_keeps_active.

Print Assumptions C02_registry_refines.
Print Assumptions C02_justification_refines.
Print Assumptions C02_eff_balance_refines.
Print Assumptions C02_historical_refines.
Print Assumptions C02_slashings_refines.
Print Assumptions C02_altair_rewards_refines.
Print Assumptions C02_inactivity_updates_refines.
Print Assumptions C02_phase0_rewards_refines.
Print Assumptions C02_registry_frame.
