(* C01 — witnesses for the sync-aggregate refinement (Beacon/Refine/BlockSyncRefine.v):
     sync_aggregate_batching_refuted_state   a concrete altair state + aggregate on which the PINNED snapshot's batched
                                             proposer reward gives a different post-state than the spec, although every
                                             other hypothesis of sync_aggregate_orig_refines_partial holds
     sync_aggregate_orig_refines_nonvacuous  a state + aggregate satisfying ALL hypotheses of that partial theorem
     sync_aggregate_refines_nonvacuous       the hypotheses of the unconditional theorem (repaired code) hold on the
                                             refuting state itself, and there the repaired code returns the spec's balances *)
From Coq Require Import String.
From Coq Require Import NArith ZArith Lia List Bool.
From RecordUpdate Require Import RecordSet.
From V Require Import Base.U64 Base.Outcome Ssz.SszCore Beacon.Config Beacon.Schemas Beacon.State
  Beacon.Spec.Helpers Beacon.Spec.Epoch Beacon.Spec.Block Beacon.Impl.BlockOps
  Beacon.Refine.BlockLemmas Beacon.Refine.BlockEpc Beacon.Refine.BlockFixtures Beacon.Refine.BlockSyncRefine.
Import ListNotations RecordSetNotations.
Local Open Scope list_scope.
Local Open Scope N_scope.

(* two active validators; the sync committee is [validator 1; validator 0]; validator 0 is the proposer
   (first active validator under the constant hash) *)
Definition sw_vals : list Validator :=
  [fx_validator 0 false (32 * GWEI_ETH) false 0 FAR_FUTURE_EPOCH FAR_FUTURE_EPOCH;
   fx_validator 1 false (32 * GWEI_ETH) false 0 FAR_FUTURE_EPOCH FAR_FUTURE_EPOCH].
Definition sw_state (bal0 : N) : BeaconState :=
  (fx_state 1 sw_vals [bal0; 32 * GWEI_ETH]) <| current_sync_committee := mkSyncCommittee [[1]; [0]] [] |>.
(* validator 1 participates, validator 0 (the proposer) does not *)
Definition sw_agg : value := VCont [VBits [true; false]; VBytes (repeat 7 96)].

Definition impl_balances (r : outcome BeaconState) : option (list N) :=
  match r with Ok s => Some (balances s) | _ => None end.

Lemma sw_bounds bal0 : bal0 < 2 ^ 63 -> st_bounds blk_env (sw_state bal0).
Proof.
  intros Hb. constructor.
  - intros x [<-|[<-|[]]]; [exact Hb|vm_compute; reflexivity].
  - intros v [<-|[<-|[]]]; vm_compute; discriminate.
  - vm_compute; reflexivity.
  - vm_compute; discriminate.
  - reflexivity.
  - vm_compute; reflexivity.
  - intros v [<-|[<-|[]]]; left; reflexivity.
  - intros x Hx. apply repeat_spec in Hx. subst x. vm_compute; reflexivity.
  - vm_compute; reflexivity.
Qed.
Lemma sw_epc_ok bal0 : epc_ok blk_env (sw_state bal0) (spec_epc blk_env (sw_state bal0)).
Proof. apply epc_ok_spec_epc. vm_compute. discriminate. Qed.

(* proposer balance 0 < participant reward 31622: the spec credits the proposer reward (4517) BEFORE the proposer's
   own penalty and loses it in the saturating subtraction; zrnt credits it afterwards *)
Example sync_aggregate_batching_refuted_state :
  let st := sw_state 0 in
  cfg_sane blk_env /\ epc_ok blk_env st (spec_epc blk_env st) /\ st_bounds blk_env st /\ 0 < slot st
  /\ N.of_nat (length (vbits (vfield sw_agg 0))) = SYNC_COMMITTEE_SIZE (cfg blk_env)
  /\ N.of_nat (length (sc_pubkeys (current_sync_committee st))) = SYNC_COMMITTEE_SIZE (cfg blk_env)
  /\ get_beacon_proposer_index blk_env st = Some 0
  /\ (sync_pr blk_env st, sync_propr blk_env st) = (31622, 4517)
  /\ option_map balances (process_sync_aggregate blk_env st sw_agg) = Some [0; 32000031622]
  /\ impl_balances (process_sync_aggregate_orig blk_env (spec_epc blk_env st) st sw_agg) = Some [4517; 32000031622].
Proof.
  cbv zeta. split; [exact blk_cfg_sane|]. split; [apply sw_epc_ok|]. split; [apply sw_bounds; vm_compute; reflexivity|].
  repeat split; vm_compute; reflexivity.
Qed.

(* the same block on a proposer that can afford the penalty: all hypotheses hold, and both sides agree *)
Example sync_aggregate_orig_refines_nonvacuous :
  let st := sw_state (32 * GWEI_ETH) in
  let epc := spec_epc blk_env st in
  cfg_sane blk_env /\ epc_ok blk_env st epc /\ st_bounds blk_env st /\ 0 < slot st
  /\ N.of_nat (length (vbits (vfield sw_agg 0))) = SYNC_COMMITTEE_SIZE (cfg blk_env)
  /\ N.of_nat (length (sc_pubkeys (current_sync_committee st))) = SYNC_COMMITTEE_SIZE (cfg blk_env)
  /\ (forall p, get_beacon_proposer_index blk_env st = Some p ->
        ~ sync_bad p (sync_pr blk_env st) (sync_propr blk_env st)
               (combine (be_sync_indices epc) (vbits (vfield sw_agg 0))) (balances st) 0)
  /\ impl_balances (process_sync_aggregate_orig blk_env epc st sw_agg) = Some [31999972895; 32000031622].
Proof.
  cbv zeta. split; [exact blk_cfg_sane|]. split; [apply sw_epc_ok|]. split; [apply sw_bounds; vm_compute; reflexivity|].
  split; [vm_compute; reflexivity|]. split; [vm_compute; reflexivity|]. split; [vm_compute; reflexivity|].
  split; [|vm_compute; reflexivity].
  intros p Hp. assert (p = 0) by (vm_compute in Hp; congruence). subst p.
  apply sync_bad_needs_poor. vm_compute. discriminate.
Qed.

(* the repaired code (per-participant proposer reward) on the state that refutes the pinned snapshot *)
Example sync_aggregate_refines_nonvacuous :
  let st := sw_state 0 in
  let epc := spec_epc blk_env st in
  cfg_sane blk_env /\ epc_ok blk_env st epc /\ st_bounds blk_env st /\ 0 < slot st
  /\ N.of_nat (length (vbits (vfield sw_agg 0))) = SYNC_COMMITTEE_SIZE (cfg blk_env)
  /\ N.of_nat (length (sc_pubkeys (current_sync_committee st))) = SYNC_COMMITTEE_SIZE (cfg blk_env)
  /\ impl_balances (process_sync_aggregate_impl blk_env epc st sw_agg) = Some [0; 32000031622]
  /\ option_map balances (process_sync_aggregate blk_env st sw_agg) = Some [0; 32000031622].
Proof.
  cbv zeta. split; [exact blk_cfg_sane|]. split; [apply sw_epc_ok|]. split; [apply sw_bounds; vm_compute; reflexivity|].
  split; [vm_compute; reflexivity|]. split; [vm_compute; reflexivity|]. split; [vm_compute; reflexivity|].
  split; vm_compute; reflexivity.
Qed.
