(* C01 — phase0.ProcessAttesterSlashing (zrnt) against process_attester_slashing (Spec).

   zrnt (a) intersects the two sorted index lists with ValidatorSet.ZigZagJoin instead of building a set, and
   (b) reads each candidate's slashability from a validators view obtained BEFORE the loop, i.e. from the
   registry as it was before any slashing of this operation, while the spec re-reads the state every time.

     zigzag_spec                 ZigZagJoin(onIn) of strictly sorted lists = the spec's sorted intersection
     slash_validator_others      slashing i leaves every other registry entry untouched  (so (b) is harmless)
     attester_slashing_refines_partial   Impl = Spec (Ok/Err alike) for any invariant `Inv` of the states that implies
                                 epc_ok, st_bounds, |slashings| = vector length and is preserved by slash_validator
                                 (that such an `Inv` holds along a chain is C08's `epc_inv_step`; not proved here) *)
From Coq Require Import String.
From Coq Require Import NArith ZArith Lia List Bool.
From Coq Require Import ZifyN ZifyNat ZifyBool.
From RecordUpdate Require Import RecordSet.
From V Require Import Base.U64 Base.Outcome Ssz.SszCore Beacon.Config Beacon.Schemas Beacon.State
  Beacon.Spec.Helpers Beacon.Spec.Epoch Beacon.Spec.Block Beacon.Impl.BlockOps
  Beacon.Refine.BlockLemmas Beacon.Refine.BlockEpc Beacon.Refine.BlockProposer Beacon.Refine.BlockExitRefine
  Beacon.Refine.RejectRules Beacon.Refine.BlockSlashRefine.
Import ListNotations RecordSetNotations.
Local Open Scope list_scope.
Local Open Scope N_scope.

(* ---------- strictly sorted lists ---------- *)
Definition all_gt (x : N) (l : list N) : Prop := forall y, In y l -> x < y.
Lemma ss_cons_iff x l : strictly_sorted (x :: l) = true <-> all_gt x l /\ strictly_sorted l = true.
Proof.
  revert x. induction l as [|y l IH]; intros x.
  - cbn. split; [intros _; split; [intros ? []|reflexivity]|reflexivity].
  - change (strictly_sorted (x :: y :: l)) with ((x <? y) && strictly_sorted (y :: l)).
    rewrite andb_true_iff, N.ltb_lt. split.
    + intros [Hxy Hs]. split; [|exact Hs]. apply IH in Hs. destruct Hs as [Hy _].
      intros z [<-|Hz]; [exact Hxy|]. specialize (Hy z Hz). lia.
    + intros [Hgt Hs]. split; [apply Hgt; left; reflexivity|exact Hs].
Qed.
Lemma ss_filter p l : strictly_sorted l = true -> strictly_sorted (filter p l) = true.
Proof.
  induction l as [|x l IH]; intros H; [reflexivity|]. apply ss_cons_iff in H. destruct H as [Hgt Hs].
  cbn [filter]. destruct (p x); [|apply IH; exact Hs]. apply ss_cons_iff. split; [|apply IH; exact Hs].
  intros y Hy. apply filter_In in Hy. apply Hgt. tauto.
Qed.
Lemma insert_sorted_lt x l : all_gt x l -> insert_sorted x l = x :: l.
Proof.
  destruct l as [|y l]; intros H; [reflexivity|]. cbn [insert_sorted].
  assert (Hxy : (x <? y) = true) by (apply N.ltb_lt, H; left; reflexivity). rewrite Hxy. reflexivity.
Qed.
Lemma sort_uniq_sorted_id l : strictly_sorted l = true -> sort_uniq l = l.
Proof.
  induction l as [|x l IH]; intros H; [reflexivity|]. apply ss_cons_iff in H. destruct H as [Hgt Hs].
  change (sort_uniq (x :: l)) with (insert_sorted x (sort_uniq l)). rewrite IH by exact Hs. apply insert_sorted_lt. exact Hgt.
Qed.
Lemma ss_NoDup l : strictly_sorted l = true -> NoDup l.
Proof.
  induction l as [|x l IH]; intros H; [constructor|]. apply ss_cons_iff in H. destruct H as [Hgt Hs].
  constructor; [|apply IH; exact Hs]. intros Hin. specialize (Hgt x Hin). lia.
Qed.

Lemma memN_iff x l : memN x l = true <-> In x l.
Proof.
  unfold memN. rewrite existsb_exists. split.
  - intros (y & Hy & He). apply N.eqb_eq in He. subst. exact Hy.
  - intros H. exists x. split; [exact H|apply N.eqb_refl].
Qed.
Lemma filter_ext_in' {A} (p q : A -> bool) l : (forall x, In x l -> p x = q x) -> filter p l = filter q l.
Proof.
  induction l as [|x l IH]; intros H; [reflexivity|]. cbn [filter]. rewrite (H x (or_introl eq_refl)).
  rewrite IH by (intros y Hy; apply H; right; exact Hy). reflexivity.
Qed.

(* ZigZagJoin (onIn part) = filter of the first list by membership in the second, for strictly sorted inputs *)
Theorem zigzag_filter fuel : forall a b,
  (length a + length b <= fuel)%nat -> strictly_sorted a = true -> strictly_sorted b = true ->
  zigzag fuel a b = filter (fun i => memN i b) a.
Proof.
  induction fuel as [|k IH]; intros a b Hf Ha Hb.
  - destruct a; [reflexivity|cbn in Hf; lia].
  - destruct a as [|x a']; [reflexivity|]. cbn [zigzag].
    apply ss_cons_iff in Ha. destruct Ha as [Hxa Ha'].
    destruct b as [|y b'].
    + rewrite IH by (cbn in *; try lia; assumption). cbn [filter memN existsb]. reflexivity.
    + apply ss_cons_iff in Hb. destruct Hb as [Hyb Hb'].
      cbn [filter]. destruct (N.eqb_spec x y) as [->|Hne].
      * assert (Hm : memN y (y :: b') = true) by (apply memN_iff; left; reflexivity). rewrite Hm. f_equal.
        rewrite IH by (cbn in *; try lia; assumption).
        apply filter_ext_in'. intros z Hz. specialize (Hxa z Hz).
        unfold memN. cbn [existsb]. assert (Hzy : (z =? y) = false) by (apply N.eqb_neq; lia). rewrite Hzy. reflexivity.
      * destruct (N.ltb_spec x y) as [Hlt|Hge].
        -- assert (Hm : memN x (y :: b') = false).
           { destruct (memN x (y :: b')) eqn:Hm; [|reflexivity]. apply memN_iff in Hm. destruct Hm as [<-|Hm]; [lia|].
             specialize (Hyb x Hm). lia. }
           rewrite Hm. apply IH; [cbn in *; lia|exact Ha'|apply ss_cons_iff; split; assumption].
        -- assert (Hxy : y < x) by lia.
           rewrite IH; [|cbn in *; lia|apply ss_cons_iff; split; assumption|exact Hb'].
           set (pb := fun i => memN i b'). set (pyb := fun i => memN i (y :: b')).
           change (if memN x b' then x :: filter pb a' else filter pb a') with (filter pb (x :: a')).
           change (if memN x (y :: b') then x :: filter pyb a' else filter pyb a') with (filter pyb (x :: a')).
           unfold pb, pyb.
           apply filter_ext_in'. intros z Hz.
           assert (Hzx : x <= z) by (destruct Hz as [<-|Hz]; [lia|specialize (Hxa z Hz); lia]).
           unfold memN. cbn [existsb]. assert (Hzy : (z =? y) = false) by (apply N.eqb_neq; lia). rewrite Hzy. reflexivity.
Qed.

Theorem zigzag_spec a b :
  strictly_sorted a = true -> strictly_sorted b = true ->
  zigzag (length a + length b) a b = sort_uniq (filter (fun i => memN i b) a).
Proof.
  intros Ha Hb. rewrite zigzag_filter by (try assumption; lia).
  symmetry. apply sort_uniq_sorted_id. apply ss_filter. exact Ha.
Qed.

Section AttSlash.
  Variable E : Env.
  Variable f : fork.
  Let c := cfg E.

  (* slashing validator i changes no other registry entry, nor the slot *)
  Lemma slash_validator_others st i wb st' :
    get_current_epoch E st < FAR_FUTURE_EPOCH ->
    slash_validator E f st i wb = Some st' ->
    slot st' = slot st /\ forall j, j <> i -> nthN (validators st') j = nthN (validators st) j.
  Proof.
    intros Hce H. unfold slash_validator in H. cbv zeta in H.
    destruct (initiate_validator_exit E st i) as [st1|] eqn:Hx; [|discriminate].
    destruct (initiate_exit_frame E st i st1 Hce Hx) as (g & -> & _).
    simpl_set_in H. destruct (nthN (updN (validators st) i g) i) as [v|]; [|discriminate].
    match type of H with (match ?p with Some _ => _ | None => None end) = _ => destruct p as [pi|]; [|discriminate] end.
    apply some_inj in H. subst st'. unfold increase_balance, decrease_balance. simpl_set.
    split; [reflexivity|]. intros j Hj. rewrite !nthN_updN_other by congruence. reflexivity.
  Qed.

  Variable epc : BlockEpc.
  Variable Inv : BeaconState -> Prop.
  Hypothesis Hsane : cfg_sane E.
  Hypothesis Inv_epc : forall s, Inv s -> epc_ok E s epc.
  Hypothesis Inv_bounds : forall s, Inv s -> st_bounds E s.
  Hypothesis Inv_slashings : forall s, Inv s -> N.of_nat (length (slashings s)) = EPOCHS_PER_SLASHINGS_VECTOR c.
  Hypothesis Inv_step : forall s i s', Inv s -> slash_validator E f s i None = Some s' -> Inv s'.

  Lemma attester_slash_loop_refines l : forall st any vals0,
    NoDup l -> Inv st ->
    (forall i, In i l -> nthN vals0 i = nthN (validators st) i) ->
    attester_slash_loop E f epc vals0 l st any
    = match slash_each E f st any l with Some r => Ok r | None => Err end.
  Proof.
    induction l as [|i l IH]; intros st any vals0 Hnd Hinv Hv0; [reflexivity|].
    inversion Hnd as [|? ? Hni Hnd']; subst.
    cbn [attester_slash_loop slash_each]. rewrite (Hv0 i (or_introl eq_refl)).
    destruct (nthN (validators st) i) as [v|]; [|reflexivity]. cbn [of_opt bind].
    rewrite (eo_epoch E st epc (Inv_epc st Hinv)).
    destruct (is_slashable_validator v (get_current_epoch E st)).
    - rewrite (slash_validator_refines E f st epc i None Hsane (Inv_epc st Hinv) (Inv_bounds st Hinv) (Inv_slashings st Hinv))
        by (intros w Hw; discriminate).
      destruct (slash_validator E f st i None) as [st'|] eqn:Hs; [|reflexivity]. cbn [bind].
      apply IH; [exact Hnd'|eapply Inv_step; eassumption|].
      intros j Hj. rewrite (Hv0 j (or_intror Hj)).
      destruct (slash_validator_others st i None st' (far_lt_bounds E st Hsane (Inv_bounds st Hinv)) Hs) as [_ Hoth].
      symmetry. apply Hoth. intros ->. contradiction.
    - apply IH; [exact Hnd'|exact Hinv|]. intros j Hj. apply Hv0. right. exact Hj.
  Qed.

  Theorem attester_slashing_refines_partial st asl :
    Inv st ->
    process_attester_slashing_impl E f epc st asl
    = match process_attester_slashing E f st asl with Some s => Ok s | None => Err end.
  Proof.
    intros Hinv. unfold process_attester_slashing_impl, process_attester_slashing. cbv zeta.
    destruct (is_slashable_attestation_data _ _); cbn [check bind]; [|reflexivity].
    destruct (is_valid_indexed_attestation E st (vfield asl 0)) eqn:H1; cbn [check bind]; [|reflexivity].
    destruct (is_valid_indexed_attestation E st (vfield asl 1)) eqn:H2; cbn [check bind]; [|reflexivity].
    apply is_valid_indexed_attestation_iff in H1. apply is_valid_indexed_attestation_iff in H2. cbv zeta in H1, H2.
    destruct H1 as (_ & Hs1 & _). destruct H2 as (_ & Hs2 & _).
    rewrite (zigzag_spec _ _ Hs1 Hs2).
    change (fun (acc : option (BeaconState * bool)) (i : N) => _) with (slash_step E f).
    rewrite slash_fold_each.
    set (common := sort_uniq (filter (fun i => memN i (map vuint (vseq (vfield (vfield asl 1) 0)))) (map vuint (vseq (vfield (vfield asl 0) 0))))).
    assert (Hnd : NoDup common).
    { unfold common. rewrite sort_uniq_sorted_id by (apply ss_filter; exact Hs1). apply ss_NoDup. apply ss_filter. exact Hs1. }
    rewrite (attester_slash_loop_refines common st false (validators st) Hnd Hinv) by reflexivity.
    destruct (slash_each E f st false common) as [[s b]|]; cbn [bind fst snd]; [|reflexivity].
    destruct b; reflexivity.
  Qed.
End AttSlash.
