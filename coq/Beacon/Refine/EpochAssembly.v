(* C02 assembly: zrnt's slot / epoch pipeline (Impl/EpochPipeline.v) equals the specification's process_slot,
   process_epoch, slot_step and process_slots, by chaining the per-sub-transition refinement theorems.
   The hypothesis records of the individual theorems are derived, at each intermediate state, from ONE invariant
   `EpochInv` on the pre-state plus the explicitly stated numeric gap `MidBounds` (see design/C02-assembly.md). *)
From Coq Require Import String.
From Coq Require Import NArith ZArith List Lia Bool.
From Coq Require Import ZifyN ZifyNat ZifyBool.
From RecordUpdate Require Import RecordSet.
From V Require Import Base.U64 Base.Outcome Ssz.SszCore Beacon.Config Beacon.Schemas Beacon.State
  Beacon.Spec.Helpers Beacon.Spec.Epoch Beacon.Spec.Block Beacon.Spec.Transition
  Beacon.Proofs.ListFacts Beacon.Proofs.Frame Beacon.Proofs.Lengths Beacon.Proofs.ViewExt Beacon.Proofs.Stability
  Beacon.Proofs.EpcInv Beacon.Proofs.EpochBoundary.
From V Require Import Beacon.Impl.Flat Beacon.Impl.Registry Beacon.Impl.Justification Beacon.Impl.Final Beacon.Impl.Slashings
  Beacon.Impl.AltairAttester Beacon.Impl.Phase0Attester Beacon.Impl.SyncRotation Beacon.Impl.Upgrades Beacon.Impl.EpochPipeline.
From V Require Import Beacon.Refine.ListLemmas Beacon.Refine.RegistryRefine Beacon.Refine.JustificationRefine Beacon.Refine.FinalRefine
  Beacon.Refine.SlashingsRefine Beacon.Refine.EpochCompose Beacon.Refine.AltairDomain Beacon.Refine.AltairRefine
  Beacon.Refine.Phase0Refine Beacon.Refine.SyncRotationRefine Beacon.Refine.UpgradesRefine.
From V Require Shuffle.ShuffleArith Shuffle.ShuffleIndexProofs Beacon.Proofs.ShuffleBridge.
Import ListNotations RecordSetNotations.
Local Open Scope list_scope.
Local Open Scope N_scope.
Ltac Zify.zify_post_hook ::= Z.div_mod_to_equations.

(* ================= per-slot root caching ================= *)
Section Slot.
  Variable E : Env.
  Notation c := (cfg E).

  Lemma set_root_go_ok roots s r : SLOTS_PER_HISTORICAL_ROOT c <> 0 ->
    N.of_nat (length roots) = SLOTS_PER_HISTORICAL_ROOT c ->
    set_root_go E roots s r = Ok (setN roots (s mod SLOTS_PER_HISTORICAL_ROOT c) r).
  Proof.
    intros H0 Hl. unfold set_root_go. destruct (N.eqb_spec (SLOTS_PER_HISTORICAL_ROOT c) 0); [contradiction|].
    destruct (lf_nthN_lt_Some roots (s mod SLOTS_PER_HISTORICAL_ROOT c)) as [x Hx]; [rewrite Hl; apply N.mod_lt; assumption|].
    rewrite Hx. reflexivity.
  Qed.

  (* ProcessSlot = process_slot, for a state whose two root vectors have their type's length *)
  Theorem process_slot_refines f st : SLOTS_PER_HISTORICAL_ROOT c <> 0 ->
    N.of_nat (length (state_roots st)) = SLOTS_PER_HISTORICAL_ROOT c ->
    N.of_nat (length (block_roots st)) = SLOTS_PER_HISTORICAL_ROOT c ->
    EpochPipeline.process_slot E f st = Ok (Transition.process_slot E f st).
  Proof.
    intros H0 Hs Hb. unfold EpochPipeline.process_slot, Transition.process_slot.
    rewrite (set_root_go_ok _ _ _ H0 Hs). cbn [bind]. cbv zeta.
    change (latest_block_header (st <| state_roots := ?x |>)) with (latest_block_header st).
    destruct (bytes_eqb (h_state_root (latest_block_header st)) zero32);
      (rewrite set_root_go_ok; [reflexivity|exact H0|exact Hb]).
  Qed.
End Slot.

(* ================= shapes of the sub-transitions: which fields they write ================= *)
Section Shapes.
  Variable E : Env.
  Notation c := (cfg E).

  Definition just_shape (st s1 : BeaconState) : Prop :=
    s1 = st <| previous_justified_checkpoint := previous_justified_checkpoint s1 |>
            <| current_justified_checkpoint := current_justified_checkpoint s1 |>
            <| finalized_checkpoint := finalized_checkpoint s1 |>
            <| justification_bits := justification_bits s1 |>.

  Lemma to_finalize_cases bits op oc ce cp : to_finalize bits op oc ce = Some cp -> cp = op \/ cp = oc.
  Proof.
    unfold to_finalize. cbv zeta.
    destruct (jb_is_justified bits [0; 1] && _); [intros H; inversion H; right; reflexivity|].
    destruct (jb_is_justified bits [0; 1; 2] && _); [intros H; inversion H; right; reflexivity|].
    destruct (jb_is_justified bits [1; 2] && _); [intros H; inversion H; left; reflexivity|].
    destruct (jb_is_justified bits [1; 2; 3] && _); [intros H; inversion H; left; reflexivity|]. discriminate.
  Qed.

  Lemma impl_just_shape d st s1 : process_epoch_justification c d st = Some s1 ->
    just_shape st s1 /\
    (finalized_checkpoint s1 = finalized_checkpoint st \/ finalized_checkpoint s1 = previous_justified_checkpoint st \/
     finalized_checkpoint s1 = current_justified_checkpoint st).
  Proof.
    unfold process_epoch_justification, just_shape. cbv zeta.
    destruct (js_current_epoch d <=? GENESIS_EPOCH + 1).
    { intros H; inversion H; subst s1. split; [destruct st; reflexivity|left; reflexivity]. }
    destruct (justify_step c _ _ _ _ _ _) as [acc|]; [|discriminate].
    destruct (justify_step c _ _ _ _ _ acc) as [[newj bits]|]; [|discriminate].
    destruct (to_finalize bits _ _ _) as [cp|] eqn:Ef.
    - apply to_finalize_cases in Ef. intros H; inversion H; subst s1.
      split; [destruct newj; destruct st; reflexivity|]. destruct newj; cbn; destruct Ef as [->| ->]; tauto.
    - intros H; inversion H; subst s1. split; [destruct newj; destruct st; reflexivity|]. destruct newj; left; reflexivity.
  Qed.
End Shapes.

Section MoreShapes.
  Variable E : Env.
  Notation c := (cfg E).

  Lemma spec_inactivity_shape s s' : Epoch.process_inactivity_updates E s = Some s' ->
    s' = s <| inactivity_scores := inactivity_scores s' |>.
  Proof.
    unfold Epoch.process_inactivity_updates. destruct (get_current_epoch E s =? GENESIS_EPOCH).
    - intros H; inversion H; subst. destruct s'; reflexivity.
    - destruct (get_unslashed_participating_indices E s _ _); [|discriminate]. intros H; inversion H. destruct s; reflexivity.
  Qed.
  Lemma spec_rewards_shape f s s' : Epoch.process_rewards_and_penalties E f s = Some s' ->
    s' = s <| balances := balances s' |>.
  Proof.
    unfold Epoch.process_rewards_and_penalties. destruct (get_current_epoch E s =? GENESIS_EPOCH).
    { intros H; inversion H; subst. destruct s'; reflexivity. }
    destruct f.
    1: { destruct (get_attestation_deltas E s); [|discriminate]. intros H; inversion H. destruct s; reflexivity. }
    all: destruct (get_flag_index_deltas E s 0); [|discriminate]; destruct (get_flag_index_deltas E s 1); [|discriminate];
         destruct (get_flag_index_deltas E s 2); [|discriminate]; destruct (get_inactivity_penalty_deltas E _ s); [|discriminate];
         intros H; inversion H; destruct s; reflexivity.
  Qed.

  (* the four justification fields, then inactivity scores, then balances *)
  Definition set_just (st : BeaconState) (pj cj fin : Checkpoint) (bits : list bool) : BeaconState :=
    st <| previous_justified_checkpoint := pj |> <| current_justified_checkpoint := cj |>
       <| finalized_checkpoint := fin |> <| justification_bits := bits |>.

  Lemma AltairHyps_just st epc pj cj fin bits : AltairHyps E st epc -> AltairHyps E (set_just st pj cj fin bits) epc.
  Proof. intros [H1 H2 H3 H4 H5 H6 H7 H8 H9 H10 H11 H12 H13 H14 H15]. constructor; assumption. Qed.
End MoreShapes.

(* ================= inactivity scores after process_inactivity_updates: at most BIAS above the old ones ================= *)
Section InactDerive.
  Variable E : Env.
  Notation c := (cfg E).

  Lemma fold_updN_once (g : N -> N -> N) (B : N) : (forall i s, g i s <= s + B) ->
    forall l, NoDup l -> forall sc j y,
      nthN (fold_left (fun sc i => updN sc i (g i)) l sc) j = Some y ->
      exists x, nthN sc j = Some x /\ y <= x + B /\ (~ In j l -> y = x).
  Proof.
    intros Hg. induction l as [|i l IH]; intros Hnd sc j y Hy; cbn [fold_left] in Hy.
    - exists y. split; [exact Hy|]. split; [lia|reflexivity].
    - inversion Hnd as [|? ? Hni Hnd']; subst.
      destruct (IH Hnd' _ j y Hy) as (x' & Hx' & Hle & Heq).
      destruct (N.eq_dec i j) as [->|Hne].
      + rewrite lf_nthN_updN_same in Hx'. destruct (nthN sc j) as [x|] eqn:Ex; cbn [option_map] in Hx'; [|discriminate].
        inversion Hx'; subst x'. exists x. split; [reflexivity|].
        rewrite (Heq Hni). split; [apply Hg|]. intros Hn. exfalso. apply Hn. left. reflexivity.
      + rewrite lf_nthN_updN_other in Hx' by exact Hne. exists x'. split; [exact Hx'|]. split; [exact Hle|].
        intros Hn. apply Heq. intros Hin. apply Hn. right. exact Hin.
  Qed.

  Lemma NoDup_map_fst_filter {A B} (p : A * B -> bool) (l : list (A * B)) : NoDup (map fst l) -> NoDup (map fst (filter p l)).
  Proof.
    induction l as [|x l IH]; intros H; cbn [filter map] in *; [constructor|]. inversion H as [|? ? Hni Hnd]; subst.
    destruct (p x); [|apply IH; exact Hnd]. cbn [map]. constructor; [|apply IH; exact Hnd].
    intros Hin. apply Hni. apply in_map_iff in Hin. destruct Hin as (y & Hy & Hyin). apply filter_In in Hyin.
    apply in_map_iff. exists y. split; [exact Hy|apply Hyin].
  Qed.
  Lemma map_fst_combine_seqN {A} (vs : list A) : forall s, map fst (combine (seqN s (length vs)) vs) = seqN s (length vs).
  Proof. induction vs as [|v vs IH]; intros s; cbn [length seqN combine map fst]; [reflexivity|]. rewrite IH. reflexivity. Qed.
  Lemma eligible_NoDup st : NoDup (get_eligible_validator_indices E st).
  Proof.
    unfold get_eligible_validator_indices. cbv zeta. apply NoDup_map_fst_filter. unfold indices.
    rewrite map_fst_combine_seqN. apply ShuffleBridge.seqN_NoDup.
  Qed.

  Lemma inact_scores_bound s1 s2 : Epoch.process_inactivity_updates E s1 = Some s2 ->
    forall j y, nthN (inactivity_scores s2) j = Some y ->
    exists x, nthN (inactivity_scores s1) j = Some x /\ y <= x + INACTIVITY_SCORE_BIAS c.
  Proof.
    unfold Epoch.process_inactivity_updates. destruct (get_current_epoch E s1 =? GENESIS_EPOCH).
    { intros H; inversion H; subst. intros j y Hy. exists y. split; [exact Hy|lia]. }
    destruct (get_unslashed_participating_indices E s1 _ _) as [tidx|]; [|discriminate].
    intros H; inversion H; subst s2. clear H. cbn [inactivity_scores set]. intros j y Hy.
    destruct (fold_updN_once (fun i s => let s := if memN i tidx then s - N.min 1 s else s + INACTIVITY_SCORE_BIAS c in
                                         if is_in_inactivity_leak E s1 then s else s - N.min (INACTIVITY_SCORE_RECOVERY_RATE c) s)
                             (INACTIVITY_SCORE_BIAS c)) with (l := get_eligible_validator_indices E s1) (sc := inactivity_scores s1) (j := j) (y := y)
      as (x & Hx & Hle & _).
    - intros i s. cbv zeta. destruct (memN i tidx), (is_in_inactivity_leak E s1); lia.
    - apply eligible_NoDup.
    - exact Hy.
    - exists x. split; assumption.
  Qed.

  Definition score_of (st : BeaconState) (i : N) : N := match nthN (inactivity_scores st) i with Some s => s | None => 0 end.
  (* pre-state form of InactBounds: the denominator, and effective balance times (score + bias) *)
  Record InactPre (f : fork) (st : BeaconState) : Prop := mkInactPre {
    ip_den : INACTIVITY_SCORE_BIAS c * inactivity_penalty_quotient E f < two64;
    ip_den0 : INACTIVITY_SCORE_BIAS c * inactivity_penalty_quotient E f <> 0;
    ip_num : forall i, i < N.of_nat (length (validators st)) ->
             eff_bal st i * (score_of st i + INACTIVITY_SCORE_BIAS c) < two64 }.
End InactDerive.

(* ================= the head of ProcessEpoch: attester data, justification, (inactivity,) rewards ================= *)
Section Head.
  Variable E : Env.
  Notation c := (cfg E).

  (* pre-state facts the justification step needs besides the stakes *)
  Record JustPre (st : BeaconState) : Prop := mkJustPre {
    jp_bits : length (justification_bits st) = 4%nat;
    jp_spe : SLOTS_PER_EPOCH c <> 0;
    jp_sphr : SLOTS_PER_HISTORICAL_ROOT c <> 0;
    jp_start : get_current_epoch E st * SLOTS_PER_EPOCH c < two64;
    jp_range_prev : compute_start_slot_at_epoch E (get_previous_epoch E st) < slot st
                    /\ slot st <= compute_start_slot_at_epoch E (get_previous_epoch E st) + SLOTS_PER_HISTORICAL_ROOT c;
    jp_range_cur : compute_start_slot_at_epoch E (get_current_epoch E st) < slot st
                   /\ slot st <= compute_start_slot_at_epoch E (get_current_epoch E st) + SLOTS_PER_HISTORICAL_ROOT c;
    jp_total : get_total_active_balance E st * 2 < two64;
    jp_cp_prev : cp_epoch (previous_justified_checkpoint st) + 3 < two64;
    jp_cp_cur : cp_epoch (current_justified_checkpoint st) + 2 < two64;
    (* reachable: every checkpoint is at most the previous epoch when process_epoch runs *)
    jp_pj_le : cp_epoch (previous_justified_checkpoint st) <= get_previous_epoch E st;
    jp_cj_le : cp_epoch (current_justified_checkpoint st) <= get_previous_epoch E st;
    jp_fin_le : cp_epoch (finalized_checkpoint st) <= get_previous_epoch E st }.

  Definition head_shape (st s3 : BeaconState) : Prop :=
    s3 = (set_just st (previous_justified_checkpoint s3) (current_justified_checkpoint s3) (finalized_checkpoint s3) (justification_bits s3))
           <| inactivity_scores := inactivity_scores s3 |> <| balances := balances s3 |>.

  Lemma just_shape_set st s1 : just_shape st s1 ->
    s1 = set_just st (previous_justified_checkpoint s1) (current_justified_checkpoint s1) (finalized_checkpoint s1) (justification_bits s1).
  Proof. exact (fun H => H). Qed.

  (* the state on which the Spec computes rewards and penalties *)
  Definition spec_rewards_pre (f : fork) (st : BeaconState) : option BeaconState :=
    s1 <- process_justification_and_finalization E f st ;;
    match f with Phase0 => Some s1 | _ => Epoch.process_inactivity_updates E s1 end.

  Lemma FlagBounds_set st k pj cj fin bits sc : FlagBounds E st k ->
    FlagBounds E ((set_just st pj cj fin bits) <| inactivity_scores := sc |>) k.
  Proof. intros [H1 H2 H3]. constructor; assumption. Qed.
  Lemma AltairHyps_scores st epc sc : length sc = length (validators st) -> AltairHyps E st epc ->
    AltairHyps E (st <| inactivity_scores := sc |>) epc.
  Proof. intros Hl [H1 H2 H3 H4 H5 H6 H7 H8 H9 H10 H11 H12 H13 H14 H15]. constructor; assumption. Qed.
  Lemma ad_matches_set st ad pj cj fin bits sc : ad_matches E st ad ->
    ad_matches E ((set_just st pj cj fin bits) <| inactivity_scores := sc |>) ad.
  Proof. exact (fun H => H). Qed.

  Theorem altair_head_refines f st epc s3 :
    f <> Phase0 -> lengths_inv f st ->
    AltairHyps E st epc -> JustPre st ->
    (forall idx, get_unslashed_participating_indices E st TIMELY_TARGET_FLAG_INDEX (get_previous_epoch E st) = Some idx ->
                 get_total_balance E st idx * 3 < two64) ->
    (forall idx, get_unslashed_participating_indices E st TIMELY_TARGET_FLAG_INDEX (get_current_epoch E st) = Some idx ->
                 get_total_balance E st idx * 3 < two64) ->
    (forall s, In s (inactivity_scores st) -> s + INACTIVITY_SCORE_BIAS c < two64) ->
    FlagBounds E st 0 -> FlagBounds E st 1 -> FlagBounds E st 2 ->
    InactPre E f st ->
    (forall s2, spec_rewards_pre f st = Some s2 -> NoMidSaturation E f s2) ->
    (s2 <- spec_rewards_pre f st ;; Epoch.process_rewards_and_penalties E f s2) = Some s3 ->
    (exists ad,
      compute_epoch_attester_data c epc (flatten_validators (validators st)) st = Some ad /\
      exists s1 s2,
        process_epoch_justification c (just_data epc (ad_prev_target_stake ad) (ad_cur_target_stake ad)) st = Some s1 /\
        AltairAttester.process_inactivity_updates c ad s1 = Some s2 /\
        process_epoch_rewards_and_penalties c f epc ad s2 = Some s3) /\
    head_shape st s3 /\ cp_epoch (finalized_checkpoint s3) <= get_previous_epoch E st /\ lengths_inv f s3.
  Proof.
    intros Hf HL HA HJ Hsp Hsc Hscores Hb0 Hb1 Hb2 HIP Hmid H.
    destruct (attester_data_refines E st epc HA) as (ad & Had & Hm1 & Hm2 & Hm3 & Hm4 & Hm5 & Hstk & Hcur).
    unfold spec_rewards_pre in H, Hmid.
    destruct (process_justification_and_finalization E f st) as [s1|] eqn:E1; [|discriminate].
    assert (E2m : (match f with Phase0 => Some s1 | _ => Epoch.process_inactivity_updates E s1 end) = Epoch.process_inactivity_updates E s1)
      by (destruct f; [contradiction| | | |]; reflexivity).
    rewrite E2m in H, Hmid. clear E2m.
    destruct (Epoch.process_inactivity_updates E s1) as [s2|] eqn:E2; [|discriminate].
    (* --- justification --- *)
    pose proof (Hstk 1) as Hpt. cbn [option_map] in Hpt. change 1 with TIMELY_TARGET_FLAG_INDEX in Hpt at 1.
    destruct (get_unslashed_participating_indices E st TIMELY_TARGET_FLAG_INDEX (get_previous_epoch E st)) as [pi|] eqn:Epi; [|discriminate].
    destruct (get_unslashed_participating_indices E st TIMELY_TARGET_FLAG_INDEX (get_current_epoch E st)) as [ci|] eqn:Eci; [|discriminate].
    cbn [option_map] in Hpt, Hcur. inversion Hpt as [Hpt']. inversion Hcur as [Hcur'].
    set (d := just_data epc (ad_prev_target_stake ad) (ad_cur_target_stake ad)).
    assert (HJH : JustHyps E st d).
    { destruct HJ. constructor; try assumption; unfold d, just_data; cbn [js_current_epoch js_total_active_stake js_prev_target_stake js_curr_target_stake].
      - apply (ah_cur_epoch _ _ _ HA).
      - rewrite (ah_total _ _ _ HA). assumption.
      - rewrite <- Hpt'. apply Hsp. reflexivity.
      - rewrite <- Hcur'. apply Hsc. reflexivity. }
    pose proof (justification_refines E f st d (ad_prev_target_stake ad) (ad_cur_target_stake ad) HJH (ah_total _ _ _ HA) eq_refl eq_refl) as RJ.
    assert (EJ : process_epoch_justification c d st = Some s1).
    { rewrite RJ. unfold process_justification_and_finalization in E1.
      destruct (get_current_epoch E st <=? GENESIS_EPOCH + 1); [exact E1|].
      destruct f; [contradiction| | | |]; rewrite Epi, Eci, Hpt', Hcur' in E1; exact E1. }
    destruct (impl_just_shape E d st s1 EJ) as [Sh1 Hfin1].
    assert (Hfin1' : cp_epoch (finalized_checkpoint s1) <= get_previous_epoch E st).
    { destruct HJ. destruct Hfin1 as [-> |[-> | ->]]; assumption. }
    apply just_shape_set in Sh1.
    set (pj := previous_justified_checkpoint s1) in *. set (cj := current_justified_checkpoint s1) in *.
    set (fin := finalized_checkpoint s1) in *. set (bits := justification_bits s1) in *.
    clearbody pj cj fin bits. subst s1.
    (* --- inactivity updates --- *)
    pose proof (AltairHyps_just E st epc pj cj fin bits HA) as HA1.
    assert (RI : AltairAttester.process_inactivity_updates c ad (set_just st pj cj fin bits) = Some s2).
    { rewrite (inactivity_updates_refines E f (set_just st pj cj fin bits) epc ad HA1); [exact E2| |exact Hfin1'|exact Hscores].
      repeat split; assumption. }
    pose proof (li_process_inactivity_updates E f _ _ E2 (li_process_justification_and_finalization E f f _ _ E1 HL)) as HL2.
    pose proof (spec_inactivity_shape E _ _ E2) as Sh2.
    pose proof (inact_scores_bound E _ _ E2) as Hscb.
    set (sc := inactivity_scores s2) in *.
    assert (Hlsc : length sc = length (validators st)).
    { destruct HL2 as [_ HL2]. destruct HL2 as (_ & _ & HL2); [destruct f; [contradiction| | | |]; reflexivity|].
      unfold sc. rewrite HL2, Sh2. reflexivity. }
    clearbody sc. subst s2.
    (* --- rewards and penalties --- *)
    pose proof (Hmid _ eq_refl) as HNS.
    assert (HIB : InactBounds E f ((set_just st pj cj fin bits) <| inactivity_scores := sc |>)).
    { destruct HIP as [Hd Hd0 Hnum]. constructor; [exact Hd|exact Hd0|].
      intros i Hi. cbn [inactivity_scores set].
      destruct (nthN sc i) as [y|] eqn:Ey; [|rewrite N.mul_0_r; reflexivity].
      destruct (Hscb i y Ey) as (x & Hx & Hle).
      specialize (Hnum i Hi). unfold score_of in Hnum.
      change (nthN (inactivity_scores st) i = Some x) in Hx. rewrite Hx in Hnum.
      change (eff_bal st i * y < two64). nia. }
    assert (RR : process_epoch_rewards_and_penalties c f epc ad ((set_just st pj cj fin bits) <| inactivity_scores := sc |>) = Some s3).
    { rewrite (altair_rewards_refines E f _ epc ad Hf); try assumption.
      - apply AltairHyps_scores; [exact Hlsc|exact HA1].
      - repeat split; assumption.
      - apply FlagBounds_set; assumption.
      - apply FlagBounds_set; assumption.
      - apply FlagBounds_set; assumption. }
    pose proof (spec_rewards_shape E f _ _ H) as Sh3.
    split; [exists ad; split; [exact Had|]; eexists; eexists; split; [exact EJ|]; split; [exact RI|exact RR]|].
    split; [|split].
    - unfold head_shape. set (b := balances s3) in *. clearbody b. rewrite Sh3. reflexivity.
    - rewrite Sh3. exact Hfin1'.
    - apply (li_process_rewards_and_penalties E f f _ _ H HL2).
  Qed.
End Head.

Section HeadPhase0.
  Variable E : Env.
  Notation c := (cfg E).

  Lemma AttOk_just st co pj cj fin bits a : AttOk E st co a -> AttOk E (set_just st pj cj fin bits) co a.
  Proof. intros [H1 H2 H3 H4 H5]. constructor; assumption. Qed.
  Lemma P0Hyps_just st co epc pj cj fin bits : P0Hyps E st co epc -> P0Hyps E (set_just st pj cj fin bits) co epc.
  Proof.
    intros [H1 H2 H3 H4 H5 H6 H7 H8 H9 H10 H11 H12 H13 H14 H15 H16]. constructor; try assumption.
    - intros a Ha. apply AttOk_just. apply H11. exact Ha.
    - intros a Ha. apply AttOk_just. apply H12. exact Ha.
  Qed.

  Definition head_shape0 (st s3 : BeaconState) : Prop :=
    s3 = (set_just st (previous_justified_checkpoint s3) (current_justified_checkpoint s3) (finalized_checkpoint s3) (justification_bits s3))
           <| balances := balances s3 |>.

  Theorem phase0_head_refines st co epc s3 :
    lengths_inv Phase0 st ->
    P0Hyps E st co epc -> JustPre E st ->
    (forall a b, get_matching_target_attestations E st (get_previous_epoch E st) = Some a -> get_attesting_balance E st a = Some b -> b * 3 < two64) ->
    (forall a b, get_matching_target_attestations E st (get_current_epoch E st) = Some a -> get_attesting_balance E st a = Some b -> b * 3 < two64) ->
    N.of_nat (length (validators st)) < max64 ->
    (forall s2, spec_rewards_pre E Phase0 st = Some s2 -> P0Bounds E s2) ->
    (s2 <- spec_rewards_pre E Phase0 st ;; Epoch.process_rewards_and_penalties E Phase0 s2) = Some s3 ->
    (exists ad,
      compute_epoch_attester_data0 c co epc (flatten_validators (validators st)) st = Some ad /\
      exists s1,
        process_epoch_justification c (just_data epc (p0_prev_target_stake ad) (p0_cur_target_stake ad)) st = Some s1 /\
        process_epoch_rewards_and_penalties0 c epc ad s1 = Some s3) /\
    head_shape0 st s3 /\ cp_epoch (finalized_checkpoint s3) <= get_previous_epoch E st /\ lengths_inv Phase0 s3.
  Proof.
    intros HL HP HJ Hsp Hsc Hn Hmid H.
    destruct (phase0_attester_data_refines E st co epc HP) as (ad & Had & Hp1 & Hp2 & Hp3 & Hp4 & Hs1 & Hs2 & Hs3 & Hs4).
    destruct (phase0_stakes_spec E st co epc ad HP Hs1 Hs2 Hs3 Hs4) as (_ & Ept & _ & Ect).
    unfold spec_rewards_pre in H, Hmid.
    destruct (process_justification_and_finalization E Phase0 st) as [s1|] eqn:E1; [|discriminate].
    set (d := just_data epc (p0_prev_target_stake ad) (p0_cur_target_stake ad)).
    assert (HJH : JustHyps E st d).
    { destruct HJ. constructor; try assumption; unfold d, just_data; cbn [js_current_epoch js_total_active_stake js_prev_target_stake js_curr_target_stake].
      - apply (ph_cur_epoch _ _ _ _ HP).
      - rewrite (ph_total _ _ _ _ HP). assumption.
      - destruct (get_matching_target_attestations E st (get_previous_epoch E st)) as [a|] eqn:Ea; [|discriminate]. apply (Hsp a _ eq_refl Ept).
      - destruct (get_matching_target_attestations E st (get_current_epoch E st)) as [a|] eqn:Ea; [|discriminate]. apply (Hsc a _ eq_refl Ect). }
    pose proof (justification_refines E Phase0 st d (p0_prev_target_stake ad) (p0_cur_target_stake ad) HJH (ph_total _ _ _ _ HP) eq_refl eq_refl) as RJ.
    assert (EJ : process_epoch_justification c d st = Some s1).
    { rewrite RJ. unfold process_justification_and_finalization in E1.
      destruct (get_current_epoch E st <=? GENESIS_EPOCH + 1); [exact E1|].
      destruct (get_matching_target_attestations E st (get_previous_epoch E st)) as [pa|]; [|discriminate].
      destruct (get_matching_target_attestations E st (get_current_epoch E st)) as [ca|]; [|discriminate].
      rewrite Ept, Ect in E1. exact E1. }
    destruct (impl_just_shape E d st s1 EJ) as [Sh1 Hfin1].
    assert (Hfin1' : cp_epoch (finalized_checkpoint s1) <= get_previous_epoch E st).
    { destruct HJ. destruct Hfin1 as [-> |[-> | ->]]; assumption. }
    apply just_shape_set in Sh1.
    set (pj := previous_justified_checkpoint s1) in *. set (cj := current_justified_checkpoint s1) in *.
    set (fin := finalized_checkpoint s1) in *. set (bits := justification_bits s1) in *.
    clearbody pj cj fin bits. subst s1.
    (* --- rewards: the attester data computed before justification is the one computed after it --- *)
    pose proof (P0Hyps_just st co epc pj cj fin bits HP) as HP1.
    destruct (phase0_rewards_refines E (set_just st pj cj fin bits) co epc HP1 (Hmid _ eq_refl) Hn Hfin1') as (ad' & Hc' & RR).
    assert (Ead : ad' = ad).
    { assert (Some ad' = Some ad) as Hx by (exact (eq_trans (eq_sym Hc') Had)). inversion Hx. reflexivity. }
    subst ad'. rewrite H in RR.
    pose proof (spec_rewards_shape E Phase0 _ _ H) as Sh3.
    split; [exists ad; split; [exact Had|]; eexists; split; [exact EJ|exact RR]|].
    split; [|split].
    - unfold head_shape0. set (b := balances s3) in *. clearbody b. rewrite Sh3. reflexivity.
    - rewrite Sh3. exact Hfin1'.
    - apply (li_process_rewards_and_penalties E Phase0 Phase0 _ _ H (li_process_justification_and_finalization E Phase0 Phase0 _ _ E1 HL)).
  Qed.
End HeadPhase0.

(* ================= the tail of ProcessEpoch: registry ... historical accumulator ================= *)
Section Tail.
  Variable E : Env.
  Notation c := (cfg E).
  Notation INC := (EFFECTIVE_BALANCE_INCREMENT c).

  Lemma spec_slashings_shape f s : process_slashings E f s = s <| balances := balances (process_slashings E f s) |>.
  Proof.
    assert (H : exists b, process_slashings E f s = s <| balances := b |>).
    { unfold process_slashings. cbv zeta.
      apply (fold_inv (fun x => exists b, x = s <| balances := b |>)).
      - intros x [i v] [b ->]. destruct (v_slashed v && _); [|exists b; reflexivity].
        unfold decrease_balance. eexists. reflexivity.
      - exists (balances s). destruct s; reflexivity. }
    destruct H as [b Hb]. rewrite Hb. reflexivity.
  Qed.

  Lemma eff_bal_map_eq s s' i : map v_effective_balance (validators s') = map v_effective_balance (validators s) ->
    eff_bal s' i = eff_bal s i.
  Proof.
    intros H. unfold eff_bal. rewrite !nthN_nth_error.
    pose proof (f_equal (fun l => nth_error l (N.to_nat i)) H) as Hn. cbv beta in Hn. rewrite !nth_error_map in Hn.
    destruct (nth_error (validators s') (N.to_nat i)), (nth_error (validators s) (N.to_nat i)); cbn [option_map] in Hn; congruence.
  Qed.
  Lemma in_map_eff_eq (vs vs' : list Validator) v : map v_effective_balance vs' = map v_effective_balance vs -> In v vs' ->
    exists v0, In v0 vs /\ v_effective_balance v0 = v_effective_balance v.
  Proof.
    intros H Hv. apply (in_map v_effective_balance) in Hv. rewrite H in Hv. apply in_map_iff in Hv.
    destruct Hv as (v0 & He & Hin). exists v0. split; assumption.
  Qed.

  Definition spec_eff_pre (f : fork) (s3 : BeaconState) : option BeaconState :=
    s4 <- Epoch.process_registry_updates E f s3 ;; Some (Epoch.process_eth1_data_reset E (process_slashings E f s4)).
  Definition spec_tail (f : fork) (s3 : BeaconState) : option BeaconState :=
    s6 <- spec_eff_pre f s3 ;;
    Some (Epoch.process_historical_update E f (Epoch.process_randao_mixes_reset E (Epoch.process_slashings_reset E
            (Epoch.process_effective_balance_updates E s6)))).

  Record TailPre (f : fork) (s : BeaconState) (epc : EpcView) : Prop := mkTailPre {
    tp_cur_epoch : epc_cur_epoch epc = get_current_epoch E s;
    tp_cur_active : epc_cur_active epc = get_active_validator_indices s (get_current_epoch E s);
    tp_next_epoch : epc_next_epoch epc = get_current_epoch E s + 1;
    tp_reg : RegBounds c (get_current_epoch E s) (validators s);
    tp_slashed_exit : forall v, In v (validators s) -> v_slashed v = true -> v_exit_epoch v <> FAR_FUTURE_EPOCH;
    tp_inc : INC <> 0;
    tp_sum_cur : sumN (map (eff_bal s) (get_active_validator_indices s (get_current_epoch E s))) < two64;
    tp_sl_sum : sumN (slashings s) < two64;
    tp_sl_weight : sumN (slashings s) * proportional_slashing_multiplier E f < two64;
    tp_sl_se : get_current_epoch E s + EPOCHS_PER_SLASHINGS_VECTOR c / 2 < two64;
    tp_sl_num : forall v, In v (validators s) -> v_effective_balance v / INC * get_total_active_balance E s < two64;
    tp_eth1 : EPOCHS_PER_ETH1_VOTING_PERIOD c <> 0;
    tp_hq : HYSTERESIS_QUOTIENT c <> 0;
    tp_down : down_thr E < two64;
    tp_up : up_thr E < two64;
    tp_eff_up : forall v, In v (validators s) -> v_effective_balance v + up_thr E < two64;
    tp_slv : EPOCHS_PER_SLASHINGS_VECTOR c <> 0;
    tp_sl_len : N.of_nat (length (slashings s)) = EPOCHS_PER_SLASHINGS_VECTOR c;
    tp_hv : EPOCHS_PER_HISTORICAL_VECTOR c <> 0;
    tp_mix_len : N.of_nat (length (randao_mixes s)) = EPOCHS_PER_HISTORICAL_VECTOR c;
    tp_spe : SLOTS_PER_EPOCH c <> 0;
    tp_hist : SLOTS_PER_HISTORICAL_ROOT c / SLOTS_PER_EPOCH c <> 0;
    tp_hr : N.of_nat (length (historical_roots s)) < HISTORICAL_ROOTS_LIMIT c;
    tp_hs : N.of_nat (length (historical_summaries s)) < HISTORICAL_ROOTS_LIMIT c;
    tp_max255 : MAX_EFFECTIVE_BALANCE c * 255 < two64;
    tp_eb255 : Forall (fun v => v_effective_balance v * 255 < two64) (validators s) }.

  Theorem tail_refines f s3 cx s10 :
    TailPre f s3 (cx_epc cx) -> lengths_inv f s3 ->
    cp_epoch (finalized_checkpoint s3) <= get_current_epoch E s3 ->
    (forall s6, spec_eff_pre f s3 = Some s6 -> forall b, In b (balances s6) -> b + down_thr E < two64) ->
    spec_tail f s3 = Some s10 ->
    process_epoch_tail E f cx (flatten_validators (validators s3)) s3 = Ok s10 /\
    Forall (fun v => v_effective_balance v * 255 < two64) (validators s10) /\
    N.of_nat (length (randao_mixes s10)) = EPOCHS_PER_HISTORICAL_VECTOR c /\
    length (current_epoch_participation s10) = length (current_epoch_participation s3) /\
    length (validators s10) = length (validators s3) /\ slot s10 = slot s3.
  Proof.
    intros [Hce Hact Hnext HB Hsl Hinc Hsum Hss Hsw Hse Hnum Heth Hhq Hdn Hup Heu Hslv Hsll Hhv Hml Hspe Hhist Hhr Hhs Hm255 He255]
           HL Hfin Hmid H.
    unfold spec_tail, spec_eff_pre in H, Hmid.
    destruct (registry_refines_explicit E f s3 HB Hfin) as [RI RS].
    rewrite RS in H, Hmid. cbn [bind] in *.
    pose proof (registry_frame E f s3 HB Hfin Hsl) as HF. cbv zeta in HF.
    pose proof (registry_keeps_active E f s3 HB Hfin Hsl) as HKA. cbv zeta in HKA.
    pose proof (li_process_registry_updates E f f _ _ RS HL) as HL4.
    set (ce := get_current_epoch E s3) in *.
    set (flats := flatten_validators (validators s3)) in *.
    set (vs4 := validators (registry_result E f s3)) in *.
    assert (Sh4 : registry_result E f s3 = s3 <| validators := vs4 |>) by reflexivity.
    pose proof (frame_eff ce _ _ HF) as Heff4. unfold flats, flatten_validators in Heff4. rewrite map_map in Heff4.
    change (map (fun x => fl_effective_balance (flatten x)) (validators s3)) with (map v_effective_balance (validators s3)) in Heff4.
    clearbody vs4. rewrite Sh4 in *. clear Sh4.
    set (s4 := s3 <| validators := vs4 |>) in *.
    assert (Heb4 : forall i, eff_bal s4 i = eff_bal s3 i) by (intros i; apply eff_bal_map_eq; symmetry; exact Heff4).
    (* --- slashings --- *)
    assert (HSH : SlashHyps E f ce (epc_cur_active (cx_epc cx)) flats s4).
    { constructor.
      - reflexivity.
      - rewrite Hact. symmetry. exact HKA.
      - apply (frame_slash_rel ce). exact HF.
      - apply HL4.
      - exact Hinc.
      - rewrite Hact. rewrite (map_ext _ _ Heb4). exact Hsum.
      - exact Hss.
      - exact Hsw.
      - exact Hse.
      - intros v Hv. destruct (in_map_eff_eq (validators s3) vs4 v (eq_sym Heff4) Hv) as (v0 & Hv0 & <-).
        replace (get_total_active_balance E s4) with (get_total_active_balance E s3); [apply Hnum; exact Hv0|].
        unfold get_total_active_balance. change (get_current_epoch E s4) with ce. rewrite HKA. symmetry.
        apply total_balance_ext. intros i _. apply Heb4. }
    pose proof (slashings_refines E f ce _ flats s4 HSH) as R5.
    pose proof (spec_slashings_shape f s4) as Sh5.
    pose proof (li_process_slashings E f f s4 HL4) as HL5.
    set (b5 := balances (process_slashings E f s4)) in *.
    clearbody b5. rewrite Sh5 in *. clear Sh5.
    assert (Lb5 : length b5 = length vs4) by (exact (proj1 HL5)).
    (* --- eth1 data reset --- *)
    set (s5 := s4 <| balances := b5 |>) in *.
    pose proof (eth1_data_reset_refines E (epc_next_epoch (cx_epc cx)) s5 Hnext Heth) as R6.
    assert (Sh6 : Epoch.process_eth1_data_reset E s5 = s5 <| eth1_data_votes := eth1_data_votes (Epoch.process_eth1_data_reset E s5) |>).
    { unfold Epoch.process_eth1_data_reset. cbv zeta. destruct (_ =? 0); reflexivity. }
    set (ev := eth1_data_votes (Epoch.process_eth1_data_reset E s5)) in *. clearbody ev. rewrite Sh6 in *. clear Sh6.
    set (s6 := s5 <| eth1_data_votes := ev |>) in *.
    (* --- effective balances: the snapshot is stale, the relevant columns are not --- *)
    assert (HEB : EffBalHyps E flats s6).
    { constructor.
      - exact Lb5.
      - exact (frame_eff ce _ _ HF).
      - exact Hhq.
      - exact Hinc.
      - exact Hdn.
      - exact Hup.
      - intros b Hb. apply (Hmid s6 eq_refl b Hb).
      - intros v Hv. destruct (in_map_eff_eq (validators s3) vs4 v (eq_sym Heff4) Hv) as (v0 & Hv0 & <-). apply Heu. exact Hv0. }
    pose proof (eff_balance_refines E flats s6 HEB) as R7.
    set (s7 := Epoch.process_effective_balance_updates E s6) in *.
    assert (Sh7 : s7 = s6 <| validators := validators s7 |>) by reflexivity.
    assert (He7 : Forall (fun v => v_effective_balance v * 255 < two64) (validators s7)).
    { unfold s7, Epoch.process_effective_balance_updates. cbv zeta. cbn [validators set].
      change (validators s6) with vs4. change (balances s6) with b5.
      assert (He4 : Forall (fun v => v_effective_balance v * 255 < two64) vs4).
      { apply Forall_forall. intros v Hv. destruct (in_map_eff_eq (validators s3) vs4 v (eq_sym Heff4) Hv) as (v0 & Hv0 & <-).
        rewrite Forall_forall in He255. apply He255. exact Hv0. }
      clear -He4 Hm255. revert b5. induction He4 as [|v vs Hv _ IH]; intros [|b bs]; cbn [combine map]; constructor.
      - destruct (_ || _); [|exact Hv]. cbn. lia.
      - apply IH. }
    assert (Lv7 : length (validators s7) = length vs4).
    { unfold s7, Epoch.process_effective_balance_updates. cbv zeta. cbn [validators set]. rewrite map_length, combine_length.
      change (validators s6) with vs4. change (balances s6) with b5. lia. }
    set (vs7 := validators s7) in *. clearbody vs7. clearbody s7. subst s7.
    (* --- slashings reset, randao reset, historical accumulator --- *)
    set (s7 := s6 <| validators := vs7 |>) in *.
    pose proof (slashings_reset_refines E (epc_next_epoch (cx_epc cx)) s7 Hnext Hslv Hsll) as R8.
    set (s8 := Epoch.process_slashings_reset E s7) in *.
    assert (Hml8 : N.of_nat (length (randao_mixes s8)) = EPOCHS_PER_HISTORICAL_VECTOR c) by exact Hml.
    pose proof (randao_mixes_reset_refines E (epc_next_epoch (cx_epc cx)) s8 Hnext Hhv Hml8) as R9.
    set (s9 := Epoch.process_randao_mixes_reset E s8) in *.
    pose proof (historical_refines E f (epc_next_epoch (cx_epc cx)) s9 Hnext Hspe Hhist Hhr Hhs) as R10.
    inversion H as [H10]. clear H.
    split.
    { unfold process_epoch_tail. rewrite Hce. fold ce. fold flats. rewrite RI. cbn [of_opt bind].
      fold s4. rewrite R5. cbn [of_opt bind]. fold s5. rewrite R6. cbn [of_opt bind]. fold s6. rewrite R7. cbn [of_opt bind].
      fold s7. rewrite R8. cbn [of_opt bind]. fold s8. rewrite R9. cbn [of_opt bind]. fold s9. rewrite R10. reflexivity. }
    assert (Hv10 : validators (Epoch.process_historical_update E f s9) = vs7).
    { unfold Epoch.process_historical_update. destruct (_ =? 0); [destruct (fork_ge f Capella)|]; reflexivity. }
    assert (Hm10 : randao_mixes (Epoch.process_historical_update E f s9) = randao_mixes s9).
    { unfold Epoch.process_historical_update. destruct (_ =? 0); [destruct (fork_ge f Capella)|]; reflexivity. }
    assert (Hc10 : current_epoch_participation (Epoch.process_historical_update E f s9) = current_epoch_participation s3).
    { unfold Epoch.process_historical_update. destruct (_ =? 0); [destruct (fork_ge f Capella)|]; reflexivity. }
    split; [rewrite Hv10; exact He7|]. split; [|split].
    - rewrite Hm10. unfold s9, Epoch.process_randao_mixes_reset. cbv zeta. cbn [randao_mixes set]. rewrite lf_setN_length. exact Hml.
    - rewrite Hc10. reflexivity.
    - split; [rewrite Hv10, Lv7; pose proof (frame_length ce _ _ HF) as Lf; unfold flats, flatten_validators in Lf; rewrite map_length in Lf; lia|].
      unfold Epoch.process_historical_update. destruct (_ =? 0); [destruct (fork_ge f Capella)|]; reflexivity.
  Qed.
End Tail.

(* ================= ProcessEpoch = process_epoch ================= *)
Section Assemble.
  Variable E : Env.
  Variable pubkey_ok : bytes -> bool.
  Variable fuel : nat.
  Notation c := (cfg E).

  (* ONE invariant on the pre-state (the state process_epoch is applied to) and the context zrnt holds for it *)
  Record EpochInv (f : fork) (st : BeaconState) (cx : EpochCtx) : Prop := mkEpochInv {
    ei_lengths : lengths_inv f st;
    (* context = state (C08), per-validator list lengths, current epoch >= 1, sums of effective balances < 2^64;
       phase0: every pending attestation is as process_attestation accepted it, context committees = the Spec's (C07) *)
    ei_family : match f with
                | Phase0 => P0Hyps E st (cx_committee_of cx) (cx_epc cx)
                | _ => AltairHyps E st (cx_epc cx)
                end;
    ei_just : JustPre E st;
    ei_stake_prev : match f with
                    | Phase0 => forall a b, get_matching_target_attestations E st (get_previous_epoch E st) = Some a ->
                                            get_attesting_balance E st a = Some b -> b * 3 < two64
                    | _ => forall idx, get_unslashed_participating_indices E st TIMELY_TARGET_FLAG_INDEX (get_previous_epoch E st) = Some idx ->
                                       get_total_balance E st idx * 3 < two64
                    end;
    ei_stake_cur : match f with
                   | Phase0 => forall a b, get_matching_target_attestations E st (get_current_epoch E st) = Some a ->
                                           get_attesting_balance E st a = Some b -> b * 3 < two64
                   | _ => forall idx, get_unslashed_participating_indices E st TIMELY_TARGET_FLAG_INDEX (get_current_epoch E st) = Some idx ->
                                      get_total_balance E st idx * 3 < two64
                   end;
    ei_count : N.of_nat (length (validators st)) < max64;
    ei_scores : forall s, In s (inactivity_scores st) -> s + INACTIVITY_SCORE_BIAS c < two64;
    ei_flags : f <> Phase0 -> FlagBounds E st 0 /\ FlagBounds E st 1 /\ FlagBounds E st 2;
    ei_inact : f <> Phase0 -> InactPre E f st;
    ei_tail : TailPre E f st (cx_epc cx);
    ei_sync : f <> Phase0 -> SyncHyps E pubkey_ok st (cx_sync cx);
    ei_lookahead : 1 <= MAX_SEED_LOOKAHEAD c;
    ei_far : get_current_epoch E st + 1 < FAR_FUTURE_EPOCH }.

  (* THE GAP: no-overflow conditions of the two places where zrnt does uint64 arithmetic on balances that earlier
     sub-transitions of the same epoch have already changed, and the open delta-order finding (NoMidSaturation).
     They are stated on the Spec's own intermediate states and are not derived from EpochInv. *)
  Definition spec_head (f : fork) (st : BeaconState) : option BeaconState :=
    s2 <- spec_rewards_pre E f st ;; Epoch.process_rewards_and_penalties E f s2.
  Record MidBounds (f : fork) (st : BeaconState) : Prop := mkMidBounds {
    mb_rewards : forall s2, spec_rewards_pre E f st = Some s2 ->
                 match f with Phase0 => P0Bounds E s2 | _ => NoMidSaturation E f s2 end;
    mb_eff : forall s3 s6, spec_head f st = Some s3 -> spec_eff_pre E f s3 = Some s6 ->
             forall b, In b (balances s6) -> b + down_thr E < two64 }.

  Lemma process_epoch_decompose f st :
    Epoch.process_epoch E f st =
    (s3 <- spec_head f st ;;
     s10 <- spec_tail E f s3 ;;
     match f with
     | Phase0 => Some (Epoch.process_participation_record_updates s10)
     | _ => Epoch.process_sync_committee_updates E (Epoch.process_participation_flag_updates s10)
     end).
  Proof.
    unfold Epoch.process_epoch, spec_head, spec_rewards_pre, spec_tail, spec_eff_pre.
    destruct (process_justification_and_finalization E f st) as [s1|]; [|reflexivity].
    destruct f.
    1: destruct (Epoch.process_rewards_and_penalties E Phase0 s1) as [s3|]; [|reflexivity];
       destruct (Epoch.process_registry_updates E Phase0 s3); reflexivity.
    all: destruct (Epoch.process_inactivity_updates E s1) as [s2|]; [|reflexivity];
         destruct (Epoch.process_rewards_and_penalties E _ s2) as [s3|]; [|reflexivity];
         destruct (Epoch.process_registry_updates E _ s3); reflexivity.
  Qed.

  Lemma TailPre_head f st epc pj cj fin bits sc b : TailPre E f st epc ->
    TailPre E f ((set_just st pj cj fin bits) <| inactivity_scores := sc |> <| balances := b |>) epc.
  Proof.
    intros [H1 H2 H3 H4 H5 H6 H7 H8 H9 H10 H11 H12 H13 H14 H15 H16 H17 H18 H19 H20 H21 H22 H23 H24 H25 H26].
    constructor; assumption.
  Qed.
  Lemma TailPre_head0 f st epc pj cj fin bits b : TailPre E f st epc ->
    TailPre E f ((set_just st pj cj fin bits) <| balances := b |>) epc.
  Proof.
    intros [H1 H2 H3 H4 H5 H6 H7 H8 H9 H10 H11 H12 H13 H14 H15 H16 H17 H18 H19 H20 H21 H22 H23 H24 H25 H26].
    constructor; assumption.
  Qed.

  Lemma sync_updates_frame s s' : Epoch.process_sync_committee_updates E s = Some s' ->
    validators s' = validators s /\ slot s' = slot s /\ randao_mixes s' = randao_mixes s.
  Proof.
    unfold Epoch.process_sync_committee_updates. destruct (_ =? 0).
    - destruct (get_next_sync_committee E s); [|discriminate]. intros H; inversion H. repeat split; reflexivity.
    - intros H; inversion H. repeat split; reflexivity.
  Qed.
  Lemma Forall2_In_r {A B} (R : A -> B -> Prop) a b y : Forall2 R a b -> In y b -> exists x, In x a /\ R x y.
  Proof.
    induction 1 as [|p q a b Hpq _ IH]; intros Hy; [destruct Hy|].
    destruct Hy as [<-|Hy]; [exists p; split; [left; reflexivity|exact Hpq]|].
    destruct (IH Hy) as (x & Hx & Hr). exists x. split; [right; exact Hx|exact Hr].
  Qed.
  Lemma Forall2_flip {A B} (R : A -> B -> Prop) a b : Forall2 R a b -> Forall2 (fun y x => R x y) b a.
  Proof. induction 1; constructor; assumption. Qed.

  (* SyncHyps at the state the rotation runs on, from SyncHyps on the pre-state and the epoch frame *)
  Lemma SyncHyps_transfer st s11 sepc :
    SyncHyps E pubkey_ok st sepc -> 1 <= MAX_SEED_LOOKAHEAD c -> get_current_epoch E st + 1 < FAR_FUTURE_EPOCH ->
    slot s11 = slot st ->
    Forall2 (vkeepA E (get_current_epoch E st)) (validators st) (validators s11) ->
    N.of_nat (length (randao_mixes s11)) = EPOCHS_PER_HISTORICAL_VECTOR c ->
    Forall (fun v => v_effective_balance v * 255 < two64) (validators s11) ->
    SyncHyps E pubkey_ok s11 sepc.
  Proof.
    intros [H1 H2 H3 H4 H5 H6 H7 H8 H9 H10 H11 H12 H13 H14 H15 H16 H17] HW Hfar Hs HF Hm He.
    assert (Hce : get_current_epoch E s11 = get_current_epoch E st) by (unfold get_current_epoch; rewrite Hs; reflexivity).
    constructor; rewrite ?Hce; try assumption.
    - rewrite H2. rewrite !active_indices_act_from. rewrite <- (app_nil_r (validators s11)). symmetry.
      apply act_from_stable; [|constructor].
      eapply Forall2_weaken; [|exact HF]. intros v v' Hk.
      eapply (vkeepA_active E (get_current_epoch E st)); [exact HW|apply N.le_refl|lia|exact Hk].
    - intros i v Hv. destruct (Forall2_nthN _ _ _ (Forall2_flip _ _ _ HF) i v Hv) as (v0 & Hv0 & (Hpk & _)).
      cbv beta in Hpk. rewrite Hpk. apply H3. exact Hv0.
    - intros v Hv. destruct (Forall2_In_r _ _ _ v HF Hv) as (v0 & Hv0 & (Hpk & _)). rewrite Hpk. apply H4. exact Hv0.
    - rewrite <- (lf_Forall2_length _ _ _ HF). exact H15.
  Qed.

  Lemma altair_family_refines f st cx st' :
    f <> Phase0 ->
    EpochInv f st cx -> MidBounds f st -> (PROPOSER_FUEL <= fuel)%nat ->
    Epoch.process_epoch E f st = Some st' ->
    process_epoch_altair E pubkey_ok fuel f cx st = Ok st'.
  Proof.
    intros Hf [HL Hfam HJ Hsp Hsc Hcnt Hscores Hflags Hinact HT Hsync HW Hfar] [Hmr Hme] Hfuel H.
    pose proof (process_epoch_frame E f st st' HL H) as HEF.
    rewrite process_epoch_decompose in H.
    destruct (spec_head f st) as [s3|] eqn:E3; [|discriminate].
    destruct (spec_tail E f s3) as [s10|] eqn:E10; [|discriminate].
    pose proof (Hme s3) as Hme3.
    assert (Hpe_ce : get_previous_epoch E st <= get_current_epoch E st).
    { unfold get_previous_epoch. cbv zeta. destruct (_ =? GENESIS_EPOCH); unfold GENESIS_EPOCH; lia. }
    assert (HA : AltairHyps E st (cx_epc cx)) by (destruct f; [contradiction| | | |]; exact Hfam).
    assert (Hsp' : forall idx, get_unslashed_participating_indices E st TIMELY_TARGET_FLAG_INDEX (get_previous_epoch E st) = Some idx ->
                               get_total_balance E st idx * 3 < two64) by (destruct f; [contradiction| | | |]; exact Hsp).
    assert (Hsc' : forall idx, get_unslashed_participating_indices E st TIMELY_TARGET_FLAG_INDEX (get_current_epoch E st) = Some idx ->
                               get_total_balance E st idx * 3 < two64) by (destruct f; [contradiction| | | |]; exact Hsc).
    assert (Hmid : forall s2, spec_rewards_pre E f st = Some s2 -> NoMidSaturation E f s2).
    { intros s2 H2. specialize (Hmr s2 H2). destruct f; [contradiction| | | |]; exact Hmr. }
    assert (H' : Epoch.process_sync_committee_updates E (Epoch.process_participation_flag_updates s10) = Some st')
      by (destruct f; [contradiction| | | |]; exact H).
    clear H. destruct (Hflags Hf) as (Hb0 & Hb1 & Hb2).
    destruct (altair_head_refines E f st (cx_epc cx) s3 Hf HL HA HJ Hsp' Hsc' Hscores Hb0 Hb1 Hb2 (Hinact Hf) Hmid E3)
      as ((ad & Had & s1 & s2 & EJ & EI & ER) & Sh3 & Hfin3 & HL3).
    unfold head_shape in Sh3.
    set (pj := previous_justified_checkpoint s3) in *. set (cj := current_justified_checkpoint s3) in *.
    set (fin := finalized_checkpoint s3) in *. set (bits := justification_bits s3) in *.
    set (sc := inactivity_scores s3) in *. set (b := balances s3) in *.
    clearbody pj cj fin bits sc b. subst s3.
    destruct (tail_refines E f _ cx s10 (TailPre_head f st _ pj cj fin bits sc b HT) HL3) as (RT & He10 & Hm10 & Hc10 & Hv10 & Hs10).
    { change (cp_epoch fin <= get_current_epoch E st). change (cp_epoch fin <= get_previous_epoch E st) in Hfin3. lia. }
    { intros s6 H6. apply (Hme3 s6 eq_refl H6). }
    { exact E10. }
    (* --- participation flags --- *)
    assert (Hcl : length (current_epoch_participation s10) = length (validators s10)).
    { rewrite Hc10, Hv10. cbn. destruct HL as [_ HL]. destruct HL as (_ & HL & _); [destruct f; [contradiction| | | |]; reflexivity|]. exact HL. }
    pose proof (participation_flag_refines s10 Hcl) as RF.
    (* --- sync-committee rotation --- *)
    set (s11 := Epoch.process_participation_flag_updates s10) in *.
    destruct (sync_updates_frame s11 st' H') as (Hv' & _ & _).
    assert (HS : SyncHyps E pubkey_ok s11 (cx_sync cx)).
    { apply (SyncHyps_transfer st s11 (cx_sync cx) (Hsync Hf) HW Hfar).
      - change (slot s11) with (slot s10). rewrite Hs10. reflexivity.
      - rewrite <- Hv'. apply (ef_vals _ _ _ HEF).
      - exact Hm10.
      - exact He10. }
    pose proof (sync_rotation_refines E pubkey_ok s11 (cx_sync cx) st' fuel HS Hfuel H') as RS.
    unfold process_epoch_altair. rewrite Had. cbn [of_opt bind]. rewrite EJ. cbn [of_opt bind].
    rewrite EI. cbn [of_opt bind]. rewrite ER. cbn [of_opt bind].
    match goal with |- bind ?x _ = _ => replace x with (@Ok BeaconState s10) by (symmetry; exact RT) end.
    cbn [bind]. rewrite RF. exact RS.
  Qed.

  Theorem process_epoch_refines_partial f st cx st' :
    EpochInv f st cx -> MidBounds f st -> (PROPOSER_FUEL <= fuel)%nat ->
    Epoch.process_epoch E f st = Some st' ->
    EpochPipeline.process_epoch E pubkey_ok fuel f cx st = Ok st'.
  Proof.
    intros HI HM Hfuel H.
    destruct f; try (apply altair_family_refines; [discriminate|assumption..]).
    (* ---------- phase0 ---------- *)
    destruct HI as [HL Hfam HJ Hsp Hsc Hcnt Hscores Hflags Hinact HT Hsync HW Hfar]. destruct HM as [Hmr Hme].
    rewrite process_epoch_decompose in H.
    destruct (spec_head Phase0 st) as [s3|] eqn:E3; [|discriminate].
    destruct (spec_tail E Phase0 s3) as [s10|] eqn:E10; [|discriminate].
    pose proof (Hme s3) as Hme3.
    assert (Hpe_ce : get_previous_epoch E st <= get_current_epoch E st).
    { unfold get_previous_epoch. cbv zeta. destruct (_ =? GENESIS_EPOCH); unfold GENESIS_EPOCH; lia. }
    destruct (phase0_head_refines E st (cx_committee_of cx) (cx_epc cx) s3 HL Hfam HJ Hsp Hsc Hcnt (Hmr) E3)
      as ((ad & Had & s1 & EJ & ER) & Sh3 & Hfin3 & HL3).
    unfold head_shape0 in Sh3.
    set (pj := previous_justified_checkpoint s3) in *. set (cj := current_justified_checkpoint s3) in *.
    set (fin := finalized_checkpoint s3) in *. set (bits := justification_bits s3) in *. set (b := balances s3) in *.
    clearbody pj cj fin bits b. subst s3.
    destruct (tail_refines E Phase0 _ cx s10 (TailPre_head0 Phase0 st _ pj cj fin bits b HT) HL3) as (RT & _).
    { change (cp_epoch fin <= get_current_epoch E st). change (cp_epoch fin <= get_previous_epoch E st) in Hfin3. lia. }
    { intros s6 H6. apply (Hme3 s6 eq_refl H6). }
    { exact E10. }
    inversion H; subst st'.
    unfold EpochPipeline.process_epoch, process_epoch_phase0. rewrite Had. cbn [of_opt bind]. rewrite EJ. cbn [of_opt bind].
    rewrite ER. cbn [of_opt bind].
    match goal with |- bind ?x _ = _ => replace x with (@Ok BeaconState s10) by (symmetry; exact RT) end.
    cbn [bind]. reflexivity.
  Qed.
End Assemble.

(* ================= one slot, many slots ================= *)
Section Slots.
  Variable E : Env.
  Variable pubkey_ok : bytes -> bool.
  Variable electra_fork_epoch : N.
  Variable fuel : nat.
  Variable ctx_of : fork -> BeaconState -> EpochCtx.
  Notation c := (cfg E).

  (* isEpochEnd := SlotToEpoch(currentSlot+1) != SlotToEpoch(currentSlot)  is  (slot+1) % SLOTS_PER_EPOCH == 0 *)
  Lemma epoch_end_test s : SLOTS_PER_EPOCH c <> 0 -> s + 1 < two64 ->
    negb (add64 s 1 / SLOTS_PER_EPOCH c =? s / SLOTS_PER_EPOCH c) = ((s + 1) mod SLOTS_PER_EPOCH c =? 0).
  Proof.
    intros H0 Hs. unfold add64. rewrite wrap64_small by exact Hs.
    set (P := SLOTS_PER_EPOCH c) in *.
    destruct (N.eqb_spec ((s + 1) mod P) 0) as [Hz|Hnz]; destruct (N.eqb_spec ((s + 1) / P) (s / P)) as [He|Hne]; cbn [negb]; try reflexivity; exfalso.
    - pose proof (N.div_mod (s + 1) P H0). pose proof (N.div_mod s P H0). pose proof (N.mod_lt s P H0). nia.
    - pose proof (N.div_mod (s + 1) P H0). pose proof (N.div_mod s P H0). pose proof (N.mod_lt s P H0). pose proof (N.mod_lt (s + 1) P H0).
      assert ((s + 1) / P = s / P \/ (s + 1) / P = s / P + 1) as [Hc|Hc].
      { assert (s / P <= (s + 1) / P) by (apply N.div_le_mono; lia).
        assert ((s + 1) / P <= s / P + 1).
        { apply N.div_le_upper_bound; [exact H0|]. nia. }
        lia. }
      + contradiction.
      + nia.
  Qed.

  (* the state between the (optional) epoch transition and the slot increment *)
  Definition spec_after_epoch (f : fork) (st : BeaconState) : option BeaconState :=
    let s1 := Transition.process_slot E f st in
    if (slot s1 + 1) mod SLOTS_PER_EPOCH c =? 0 then Epoch.process_epoch E f s1 else Some s1.

  (* what one iteration of ProcessSlots needs of the state it starts from *)
  Record StepOk (f : fork) (st : BeaconState) : Prop := mkStepOk {
    so_sphr : SLOTS_PER_HISTORICAL_ROOT c <> 0;
    so_sroots : N.of_nat (length (state_roots st)) = SLOTS_PER_HISTORICAL_ROOT c;
    so_broots : N.of_nat (length (block_roots st)) = SLOTS_PER_HISTORICAL_ROOT c;
    so_spe : SLOTS_PER_EPOCH c <> 0;
    so_slot : slot st + 1 < two64;
    (* at an epoch boundary: the invariant (and the numeric gap) for the state after root caching, with the context
       zrnt holds at that moment *)
    so_epoch : (slot st + 1) mod SLOTS_PER_EPOCH c = 0 ->
               EpochInv E pubkey_ok f (Transition.process_slot E f st) (ctx_of f (Transition.process_slot E f st)) /\
               MidBounds E f (Transition.process_slot E f st);
    (* for UpgradeMaybe, with the (rotated) context zrnt holds after the slot increment *)
    so_upgrade : forall s2, spec_after_epoch f st = Some s2 ->
                 let s2' := s2 <| slot := slot s2 + 1 |> in
                 UpgradeMaybeHyps E pubkey_ok electra_fork_epoch (cx_committee_of (ctx_of f s2')) (cx_sync (ctx_of f s2'))
                                  (cx_pk_index (ctx_of f s2')) f s2' }.

  Lemma process_slot_slot f st : slot (Transition.process_slot E f st) = slot st.
  Proof. unfold Transition.process_slot. cbv zeta. destruct (bytes_eqb _ _); reflexivity. Qed.

  Theorem slot_step_refines_partial f st r :
    StepOk f st -> (PROPOSER_FUEL <= fuel)%nat ->
    Transition.slot_step E f st = Some r ->
    EpochPipeline.slot_step E pubkey_ok electra_fork_epoch fuel ctx_of f st = Ok r.
  Proof.
    intros [Hsphr Hsr Hbr Hspe Hslot Hep Hup] Hfuel H. destruct r as [f' st'].
    unfold Transition.slot_step in H. unfold EpochPipeline.slot_step.
    rewrite (process_slot_refines E f st Hsphr Hsr Hbr). cbn [bind].
    destruct (N.eqb_spec (SLOTS_PER_EPOCH c) 0) as [|_]; [contradiction|].
    rewrite (epoch_end_test (slot st) Hspe Hslot).
    unfold spec_after_epoch in Hup. cbv zeta in H, Hup.
    set (s1 := Transition.process_slot E f st) in *.
    assert (Hs1 : slot s1 = slot st) by apply process_slot_slot.
    rewrite Hs1 in H, Hup.
    destruct (N.eqb_spec ((slot st + 1) mod SLOTS_PER_EPOCH c) 0) as [Hb|Hnb].
    - destruct (Epoch.process_epoch E f s1) as [s2|] eqn:E2; [|discriminate].
      destruct (Hep Hb) as [HI HM].
      rewrite (process_epoch_refines_partial E pubkey_ok fuel f s1 _ s2 HI HM Hfuel E2). cbn [bind].
      assert (Hs2 : slot s2 = slot st) by (rewrite (process_epoch_slot E f s1 s2 E2); exact Hs1).
      specialize (Hup s2 eq_refl). cbv zeta in Hup. rewrite Hs2 in H, Hup.
      unfold add64. rewrite wrap64_small by exact Hslot.
      apply (upgrade_maybe_refines E pubkey_ok electra_fork_epoch _ _ _ f _ f' st' fuel Hup Hfuel).
      exact H.
    - cbn [bind]. specialize (Hup s1 eq_refl). cbv zeta in Hup. rewrite Hs1 in Hup. rewrite Hs1 in H.
      unfold add64. rewrite wrap64_small by exact Hslot.
      apply (upgrade_maybe_refines E pubkey_ok electra_fork_epoch _ _ _ f _ f' st' fuel Hup Hfuel).
      exact H.
  Qed.

  (* ---------- ProcessSlots ---------- *)
  (* the Spec's trajectory: the state after k slot steps *)
  Fixpoint spec_iter (k : nat) (f : fork) (st : BeaconState) : option (fork * BeaconState) :=
    match k with
    | O => Some (f, st)
    | S k' => match Transition.slot_step E f st with Some (f1, st1) => spec_iter k' f1 st1 | None => None end
    end.

  Lemma slots_loop_refines : forall n f st target r,
    (forall k f1 st1, spec_iter k f st = Some (f1, st1) -> slot st1 < target -> StepOk f1 st1) ->
    (PROPOSER_FUEL <= fuel)%nat ->
    Transition.slots_loop E n f st target = Some r ->
    EpochPipeline.slots_loop E pubkey_ok electra_fork_epoch fuel ctx_of n f st target = Ok r.
  Proof.
    induction n as [|n IH]; intros f st target r Hok Hfuel H; cbn [Transition.slots_loop EpochPipeline.slots_loop] in *.
    - destruct (target <=? slot st); [inversion H; reflexivity|discriminate].
    - destruct (N.leb_spec target (slot st)) as [Hle|Hlt]; [inversion H; reflexivity|].
      destruct (Transition.slot_step E f st) as [[f1 st1]|] eqn:E1; [|discriminate]. cbn [fst snd] in H.
      rewrite (slot_step_refines_partial f st (f1, st1) (Hok 0%nat f st eq_refl Hlt) Hfuel E1). cbn [bind fst snd].
      apply IH; [|exact Hfuel|exact H].
      intros k f2 st2 Hk Hs. apply (Hok (S k) f2 st2); [|exact Hs]. cbn [spec_iter]. rewrite E1. exact Hk.
  Qed.

  (* Advancing through any number of slots: zrnt's ProcessSlots returns the fork and state of the Spec's process_slots,
     PROVIDED every state on the Spec's trajectory satisfies StepOk (PARTIAL: StepOk is not shown to be an invariant
     of the trajectory: see design/C02-assembly.md) *)
  Theorem process_slots_refines_partial f st target r :
    (forall k f1 st1, spec_iter k f st = Some (f1, st1) -> slot st1 < target -> StepOk f1 st1) ->
    (PROPOSER_FUEL <= fuel)%nat ->
    Transition.process_slots E f st target = Some r ->
    EpochPipeline.process_slots E pubkey_ok electra_fork_epoch fuel ctx_of f st target = Ok r.
  Proof.
    intros Hok Hfuel H. unfold Transition.process_slots in H. unfold EpochPipeline.process_slots.
    destruct (N.ltb_spec (slot st) target) as [Hlt|]; [|discriminate].
    destruct (target - slot st <=? MAX_SLOTS_PER_CALL); [|discriminate].
    destruct (N.leb_spec target (slot st)); [lia|].
    apply slots_loop_refines; assumption.
  Qed.

  (* a target at or below the state's slot: both refuse *)
  Theorem process_slots_rejects_past f st target : target <= slot st ->
    Transition.process_slots E f st target = None /\
    EpochPipeline.process_slots E pubkey_ok electra_fork_epoch fuel ctx_of f st target = Err.
  Proof.
    intros Hle. unfold Transition.process_slots, EpochPipeline.process_slots.
    destruct (N.ltb_spec (slot st) target); [lia|]. destruct (N.leb_spec target (slot st)); [|lia]. split; reflexivity.
  Qed.
End Slots.
