(* Non-vacuity of the phase0 refinement: a state with pending attestations (right and wrong targets / heads, a
   slashed attester, a double inclusion with different delays, non-attesters) in an inactivity leak. *)
From Coq Require Import NArith List Bool.
From RecordUpdate Require Import RecordSet.
From V Require Import Base.U64 Ssz.SszCore Beacon.Config Beacon.State Beacon.Spec.Helpers Beacon.Spec.Epoch.
From V Require Import Beacon.Impl.Flat Beacon.Impl.Phase0Attester Beacon.Refine.AltairCheck Beacon.Refine.Phase0Refine Beacon.Refine.Phase0Check
                      Beacon.Refine.Fixtures.
Import ListNotations RecordSetNotations.
Local Open Scope N_scope.

Definition FAREP := FAR_FUTURE_EPOCH.
(* bits, slot, beacon block root byte, target epoch, target root byte, delay, proposer *)
Definition pend (bits : list bool) (s bbr te tr delay prop : N) : value :=
  VCont [VBits bits;
         VCont [VUint s; VUint 0; VBytes (repeat bbr 32); cp_to_value (cp0 0); cp_to_value (mkCheckpoint te (repeat tr 32))];
         VUint delay; VUint prop].
(* end of epoch 6 (slot 55), finalized epoch 0: previous epoch 5, finality delay 5 > 4: leak.  With the constant hash of
   tiny_env the committee of slot s is [s mod 8].  Block roots are all zero: root byte 0 is right, 1 is wrong. *)
Definition w_p0 : BeaconState :=
  (state_with 55
     [ mkv (32 * ETH) false 0 0 FAREP FAREP; mkv (32 * ETH) false 0 0 FAREP FAREP; mkv (31 * ETH) true 0 0 9 70; mkv (17 * ETH) false 0 0 FAREP FAREP;
       mkv (32 * ETH) false 0 0 FAREP FAREP; mkv (32 * ETH) false 0 0 FAREP FAREP; mkv (32 * ETH) false 0 0 FAREP FAREP; mkv (32 * ETH) false 0 0 FAREP FAREP ]
     [ 32 * ETH; 32 * ETH; 30 * ETH; 17 * ETH; 32 * ETH; 1000; 32 * ETH; 32 * ETH ])
    <| previous_epoch_attestations :=
         [ pend [true] 40 0 5 0 3 3;      (* validator 0: right target and head, included late ... *)
           pend [true] 41 1 5 0 2 0;      (* validator 1: right target, wrong head *)
           pend [true] 42 0 5 0 1 1;      (* validator 2: slashed *)
           pend [true] 43 0 5 1 1 4;      (* validator 3: wrong target *)
           pend [true] 40 0 5 0 1 6;      (* validator 0 again, earlier inclusion by proposer 6 *)
           pend [false] 44 0 5 0 1 2 ]    (* validator 4 in the committee but bit not set *)
    |> <| current_epoch_attestations := [ pend [true] 48 0 6 0 1 1; pend [true] 49 0 6 1 1 1 ] |>.

Example phase0_nonvacuous :
  let E := tiny_env in
  p0_rewards_hypsb E w_p0 (get_beacon_committee E w_p0) (fresh_epc E w_p0) = true /\
  is_in_inactivity_leak E w_p0 = true /\
  option_map (fun x => map (fun s => (as_inclusion_delay s, as_attested_proposer s, flags_byte (as_flags s))) (p0_statuses x))
    (compute_epoch_attester_data0 tiny_cfg (get_beacon_committee E w_p0) (fresh_epc E w_p0) (flatten_validators (validators w_p0)) w_p0)
  = Some [ (1, 6, 255); (2, 0, 203); (1, 1, 135); (1, 4, 193); (0, max64, 192); (0, max64, 192); (0, max64, 192); (0, max64, 192) ] /\
  option_map balances (Epoch.process_rewards_and_penalties E Phase0 w_p0)
  = Some [32000130639; 31997452527; 29993034739; 16997776595; 31992879454; 0; 31992940691; 31992810052].
Proof. vm_compute. repeat split; reflexivity. Qed.
Print Assumptions phase0_rewards_refines_checked.
