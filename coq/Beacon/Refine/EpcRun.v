(* Executable entry points that run the IMPLEMENTATION model of zrnt's EpochsContext (Impl/Epc.v, Impl/Shuffling.v)
   on recorded chains, so that the model the refinement theorems are about (EpcRefine.v, C08ImplTheorems.v,
   ShufflingRefine.v, ProposersRefine.v, C07Theorems.v) is itself compared with what the Go code produced:
     run_epc_impl_fresh   Impl `new_epochs_context` of a recorded state        (vs Go's NewEpochsContext dump)
     run_epc_impl_slots   Impl context carried through `epc_process_slots`      (vs Go's long-lived context dump)
     run_epc_impl_trans   Impl context carried through `epc_state_transition`   (likewise)
   The context is rendered for comparison by `EpcRefine.epc_to_view` - the very projection `epc_matches` is stated
   with - plus `epc_pubkeys`.

   Cost: the drivers of Impl/Epc.v recompute the Spec's states (slot_step, process_slot, process_epoch, process_block)
   next to the context operations, and the correspondence run computes the same Spec transition anyway.  The `_both`
   functions below compute the Spec result and the Impl context in ONE pass; `*_both_eq` prove that the pair is exactly
   (the Spec function, the Impl driver of Impl/Epc.v), so what is executed is the proved model, not a re-implementation. *)
From Coq Require Import String NArith List Bool.
From RecordUpdate Require Import RecordSet.
From V Require Import Base.U64 Base.Outcome Ssz.SszCore Beacon.Config Beacon.Schemas Beacon.State
  Beacon.Spec.Helpers Beacon.Spec.Epoch Beacon.Spec.Block Beacon.Spec.Transition Beacon.Run
  Beacon.Proofs.Lengths Beacon.Proofs.EpcInv Beacon.Impl.Shuffling Beacon.Impl.Epc Beacon.Refine.EpcRefine.
Import ListNotations RecordSetNotations.
Local Open Scope N_scope.

Definition outcome_tag {A} (o : outcome A) : string :=
  match o with
  | Ok _ => "ok" | Err => "err" | Panic _ => "panic" | Blocked => "blocked" | OutOfFuel => "out-of-fuel"
  end%string.

(* what a run of the Impl model hands to the driver: the context (opaque to OCaml; rendered with epc_to_view and
   epc_pubkeys) or how the model failed *)
Inductive epc_run :=
| ERBadInput                      (* the state / block bytes do not decode *)
| ERFail (tag : string)           (* the Impl returned Err / Panic / OutOfFuel: tag says which *)
| EROk (e : epc).
Definition epc_run_of (o : outcome epc) : epc_run :=
  match o with Ok e => EROk e | _ => ERFail (outcome_tag o) end.

Section EpcRun.
  Variable E : Env.
  Let c := cfg E.

  (* ---------------- one pass over Spec state and Impl context ---------------- *)
  Definition slot_step_both (f : fork) (st : BeaconState) (e : epc) : option (fork * BeaconState) * outcome epc :=
    let st0 := process_slot E f st in
    if (slot st0 + 1) mod SLOTS_PER_EPOCH c =? 0 then
      match process_epoch E f st0 with
      | Some st1 =>
          let st2 := st1 <| slot := slot st1 + 1 |> in
          (upgrade_maybe E 5 f st2, bind (rotate_epochs E f st2 e) (fun e' => epc_upgrade_maybe E 5 f st2 e'))
      | None => (None, Err)
      end
    else
      let st2 := st0 <| slot := slot st0 + 1 |> in
      (upgrade_maybe E 5 f st2, epc_upgrade_maybe E 5 f st2 e).

  Lemma slot_step_both_eq f st e : slot_step_both f st e = (slot_step E f st, epc_slot_step E f st e).
  Proof.
    unfold slot_step_both, slot_step, epc_slot_step. cbv zeta. fold c.
    destruct ((slot (process_slot E f st) + 1) mod SLOTS_PER_EPOCH c =? 0); [|reflexivity].
    destruct (process_epoch E f (process_slot E f st)); reflexivity.
  Qed.

  Fixpoint slots_loop_both (fuel : nat) (f : fork) (st : BeaconState) (e : epc) (target : N)
    : option (fork * BeaconState) * outcome epc :=
    if target <=? slot st then (Some (f, st), Ok e) else
    match fuel with
    | O => (None, Err)
    | S k =>
        match slot_step_both f st e with
        | (Some (f1, st1), Ok e1) => slots_loop_both k f1 st1 e1 target
        | (Some (f1, st1), oe) => (slots_loop E k f1 st1 target, oe)   (* the context operation failed: the Spec goes on alone *)
        | (None, _) => (None, Err)
        end
    end.

  Lemma slots_loop_both_eq target : forall fuel f st e,
    slots_loop_both fuel f st e target = (slots_loop E fuel f st target, epc_slots_loop E fuel f st e target).
  Proof.
    induction fuel as [|k IH]; intros f st e; cbn [slots_loop_both slots_loop epc_slots_loop];
      destruct (target <=? slot st); try reflexivity.
    rewrite slot_step_both_eq. destruct (slot_step E f st) as [[f1 st1]|]; [|reflexivity].
    cbn [fst snd]. destruct (epc_slot_step E f st e); cbn [bind]; try reflexivity. apply IH.
  Qed.

  Definition process_slots_both (f : fork) (st : BeaconState) (e : epc) (target : N)
    : option (fork * BeaconState) * outcome epc :=
    if (slot st <? target) && (target - slot st <=? MAX_SLOTS_PER_CALL)
    then slots_loop_both (N.to_nat (target - slot st)) f st e target else (None, Err).

  Lemma process_slots_both_eq f st e target :
    process_slots_both f st e target = (process_slots E f st target, epc_process_slots E f st e target).
  Proof.
    unfold process_slots_both, process_slots, epc_process_slots. rewrite slots_loop_both_eq.
    destruct (slot st <? target); [|reflexivity]. destruct (target - slot st <=? MAX_SLOTS_PER_CALL); reflexivity.
  Qed.

  Definition state_transition_both (f : fork) (st : BeaconState) (e : epc) (bf : fork) (signed_block : value) (validate : bool)
    : option (fork * BeaconState) * outcome epc :=
    let blk := vfield signed_block 0 in
    match process_slots_both f st e (vuint (vfield blk 0)) with
    | (Some (f', st1), oe1) =>
        let pb := process_block E f' st1 blk in
        (if fork_idx f' =? fork_idx bf then
           if negb validate || verify_block_signature E f' st1 signed_block then
             match pb with
             | Some st2 =>
                 if negb validate || bytes_eqb (vbytes (vfield blk 3)) (state_root E f' st2) then Some (f', st2) else None
             | None => None
             end
           else None
         else None,
         bind oe1 (fun e1 => match pb with Some st2 => Ok (epc_after_block e1 st1 st2) | None => Err end))
    | (None, _) => (None, Err)
    end.

  Lemma state_transition_both_eq f st e bf sb validate :
    state_transition_both f st e bf sb validate =
    (state_transition E f st bf sb validate, epc_state_transition E f st e bf sb validate).
  Proof.
    unfold state_transition_both, state_transition, epc_state_transition. cbv zeta. rewrite process_slots_both_eq.
    destruct (process_slots E f st (vuint (vfield (vfield sb 0) 0))) as [[f' st1]|]; reflexivity.
  Qed.

  (* ---------------- entry points ---------------- *)
  Definition run_epc_impl_fresh (f : fork) (bs : bytes) : epc_run :=
    match decode_state c f bs with
    | None => ERBadInput
    | Some st => epc_run_of (new_epochs_context E f st)
    end.

  (* the context the run starts from: the carried one, or (first state of a chain, after `reload`, no carried value)
     NewEpochsContext of the pre-state *)
  Definition start_epc (f : fork) (st : BeaconState) (carried : option epc) : outcome epc :=
    match carried with Some e => Ok e | None => new_epochs_context E f st end.

  (* result: what Run.run_slots returns, and the Impl context after epc_process_slots *)
  Definition run_epc_impl_slots (f : fork) (pre : bytes) (carried : option epc) (target : N) : result * epc_run :=
    match decode_state c f pre with
    | None => (RBadInput "pre-state", ERBadInput)
    | Some st =>
        match start_epc f st carried with
        | Ok e => let r := process_slots_both f st e target in (finish E (fst r), epc_run_of (snd r))
        | o => (finish E (process_slots E f st target), ERFail (String.append "seed-" (outcome_tag o)))
        end
    end.

  (* result: what Run.run_transition returns, and the Impl context after epc_state_transition *)
  Definition run_epc_impl_trans (f : fork) (pre : bytes) (carried : option epc) (bf : fork) (blk : bytes) (validate : bool)
    : result * epc_run :=
    match decode_state c f pre with
    | None => (RBadInput "pre-state", ERBadInput)
    | Some st =>
        match deserialize (SignedBeaconBlockT c bf) blk with
        | None => (RBadInput "block", ERBadInput)
        | Some sb =>
            match start_epc f st carried with
            | Ok e => let r := state_transition_both f st e bf sb validate in (finish E (fst r), epc_run_of (snd r))
            | o => (finish E (state_transition E f st bf sb validate), ERFail (String.append "seed-" (outcome_tag o)))
            end
        end
    end.

  (* the Spec half of the two runs is Run.run_slots / Run.run_transition, whatever the context does *)
  Theorem run_epc_impl_slots_spec f pre carried target :
    fst (run_epc_impl_slots f pre carried target) = run_slots E f pre target.
  Proof.
    unfold run_epc_impl_slots, run_slots. fold c. destruct (decode_state c f pre) as [st|]; [|reflexivity].
    destruct (start_epc f st carried); try reflexivity.
    cbv zeta. rewrite process_slots_both_eq. reflexivity.
  Qed.
  Theorem run_epc_impl_trans_spec f pre carried bf blk validate :
    fst (run_epc_impl_trans f pre carried bf blk validate) = run_transition E f pre bf blk validate.
  Proof.
    unfold run_epc_impl_trans, run_transition. fold c. destruct (decode_state c f pre) as [st|]; [|reflexivity].
    destruct (deserialize (SignedBeaconBlockT c bf) blk) as [sb|]; [|reflexivity].
    destruct (start_epc f st carried); try reflexivity.
    cbv zeta. rewrite state_transition_both_eq. reflexivity.
  Qed.

  (* the Impl half is the driver of Impl/Epc.v applied to the carried context *)
  Theorem run_epc_impl_slots_impl f pre st e target :
    decode_state c f pre = Some st ->
    snd (run_epc_impl_slots f pre (Some e) target) = epc_run_of (epc_process_slots E f st e target).
  Proof.
    intros D. unfold run_epc_impl_slots. rewrite D. cbn [start_epc]. cbv zeta. rewrite process_slots_both_eq. reflexivity.
  Qed.
  Theorem run_epc_impl_trans_impl f pre st e bf blk sb validate :
    decode_state c f pre = Some st -> deserialize (SignedBeaconBlockT c bf) blk = Some sb ->
    snd (run_epc_impl_trans f pre (Some e) bf blk validate) = epc_run_of (epc_state_transition E f st e bf sb validate).
  Proof.
    intros D B. unfold run_epc_impl_trans. rewrite D, B. cbn [start_epc]. cbv zeta. rewrite state_transition_both_eq. reflexivity.
  Qed.
  (* seeding is NewEpochsContext followed by the same driver *)
  Theorem run_epc_impl_slots_seed f pre st e target :
    decode_state c f pre = Some st -> new_epochs_context E f st = Ok e ->
    snd (run_epc_impl_slots f pre None target) = epc_run_of (epc_process_slots E f st e target).
  Proof.
    intros D N. unfold run_epc_impl_slots. rewrite D. cbn [start_epc]. rewrite N. cbv zeta. rewrite process_slots_both_eq. reflexivity.
  Qed.
End EpcRun.

(* With the refinement theorems: under the hypotheses of EpcRefine.epc_inv_process_slots / epc_inv_state_transition the
   context this file carries is Ok and its rendering is the Spec's view of the post-state - i.e. the `epc-impl-live` line
   and the Spec's `epc-live` line of the same record compare the Go dump with the same value. *)
Theorem run_epc_impl_slots_view E f pre st e target f' st' :
  Config_wf (cfg E) -> lengths_inv f st -> epc_matches E f st e ->
  decode_state (cfg E) f pre = Some st ->
  process_slots E f st target = Some (f', st') -> process_slots_hyp E f st target ->
  exists e', snd (run_epc_impl_slots E f pre (Some e) target) = EROk e' /\
             epc_to_view e' = spec_epc_view E f' st' /\ epc_pubkeys e' = map v_pubkey (validators st').
Proof.
  intros W L M D H Hh. rewrite (run_epc_impl_slots_impl E f pre st e target D).
  destruct (epc_inv_process_slots E f st e target f' st' W L M H Hh) as (e' & R & V & P & _).
  exists e'. rewrite R. repeat split; assumption.
Qed.
Theorem run_epc_impl_trans_view E f pre st e bf blk sb validate f' st' :
  Config_wf (cfg E) -> lengths_inv f st -> epc_matches E f st e ->
  decode_state (cfg E) f pre = Some st -> deserialize (SignedBeaconBlockT (cfg E) bf) blk = Some sb ->
  state_transition E f st bf sb validate = Some (f', st') -> transition_hyp E f st sb ->
  exists e', snd (run_epc_impl_trans E f pre (Some e) bf blk validate) = EROk e' /\
             epc_to_view e' = spec_epc_view E f' st' /\ epc_pubkeys e' = map v_pubkey (validators st').
Proof.
  intros W L M D B H Hh. rewrite (run_epc_impl_trans_impl E f pre st e bf blk sb validate D B).
  destruct (epc_inv_state_transition E f st e bf sb validate f' st' W L M H Hh) as (e' & R & V & P & _).
  exists e'. rewrite R. repeat split; assumption.
Qed.
