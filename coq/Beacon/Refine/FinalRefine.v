(* Refinement of the "final updates": effective balances (hysteresis from the snapshot), eth1-data / slashings /
   randao resets, historical accumulators, participation rotation. *)
From Coq Require Import NArith ZArith Lia List Bool.
From Coq Require Import ZifyN ZifyNat ZifyBool.
From RecordUpdate Require Import RecordSet.
From V Require Import Base.U64 Ssz.SszCore Beacon.Config Beacon.Schemas Beacon.State Beacon.Spec.Helpers Beacon.Spec.Epoch.
From V Require Import Beacon.Impl.Flat Beacon.Impl.Final Beacon.Refine.ListLemmas Beacon.Refine.Fixtures.
Import ListNotations RecordSetNotations.
Local Open Scope N_scope.
Ltac Zify.zify_post_hook ::= Z.div_mod_to_equations.

Lemma add64_ok a b : a + b < two64 -> add64 a b = a + b.
Proof. intros H. unfold add64. apply wrap64_small. exact H. Qed.
Lemma mul64_ok a b : a * b < two64 -> mul64 a b = a * b.
Proof. intros H. unfold mul64. apply wrap64_small. exact H. Qed.

Section FinalRefine.
  Variable E : Env.
  Variable f : fork.
  Notation c := (cfg E).

  (* ================= effective balances ================= *)
  Definition hyst : N := EFFECTIVE_BALANCE_INCREMENT c / HYSTERESIS_QUOTIENT c.
  Definition down_thr : N := hyst * HYSTERESIS_DOWNWARD_MULTIPLIER c.
  Definition up_thr : N := hyst * HYSTERESIS_UPWARD_MULTIPLIER c.

  Record EffBalHyps (flats : list FlatValidator) (st : BeaconState) : Prop := mkEffBalHyps {
    eb_len : length (balances st) = length (validators st);
    eb_flats : map fl_effective_balance flats = map v_effective_balance (validators st);
    eb_quot : HYSTERESIS_QUOTIENT c <> 0;
    eb_inc : EFFECTIVE_BALANCE_INCREMENT c <> 0;
    eb_down : down_thr < two64;
    eb_up : up_thr < two64;
    eb_bal : forall b, In b (balances st) -> b + down_thr < two64;
    eb_eff : forall v, In v (validators st) -> v_effective_balance v + up_thr < two64 }.

  Definition spec_eb_fun (vb : Validator * N) : Validator :=
    let '(v, b) := vb in
    if (b + down_thr <? v_effective_balance v) || (v_effective_balance v + up_thr <? b)
    then v <| v_effective_balance := N.min (b - b mod EFFECTIVE_BALANCE_INCREMENT c) (MAX_EFFECTIVE_BALANCE c) |>
    else v.

  Lemma eff_balance_loop flats : forall bals vals pre fpre fl',
    flats = fpre ++ fl' -> length fpre = length pre -> length bals = length vals ->
    map fl_effective_balance fl' = map v_effective_balance vals ->
    EFFECTIVE_BALANCE_INCREMENT c <> 0 ->
    (forall b, In b bals -> b + down_thr < two64) ->
    (forall v, In v vals -> v_effective_balance v + up_thr < two64) ->
    fold_left (eff_balance_step E down_thr up_thr flats) (indexed_from (N.of_nat (length pre)) bals) (Some (pre ++ vals)) =
    Some (pre ++ map spec_eb_fun (combine vals bals)).
  Proof.
    induction bals as [|b bals IH]; intros vals pre fpre fl' Hfl Hlp Hlen Heff Hinc Hb Hv.
    - destruct vals; [|discriminate]. reflexivity.
    - destruct vals as [|v vals]; [discriminate|]. destruct fl' as [|fl fl']; [discriminate|].
      cbn [map] in Heff. injection Heff as Heff1 Heff2.
      cbn [indexed_from fold_left combine map]. unfold eff_balance_step at 2.
      assert (Hnth : nthN flats (N.of_nat (length pre)) = Some fl).
      { rewrite Hfl, <- Hlp. apply nthN_app. }
      rewrite Hnth, Heff1.
      rewrite add64_ok by (apply Hb; left; reflexivity).
      rewrite add64_ok by (apply Hv; left; reflexivity).
      replace (N.of_nat (length pre) + 1) with (N.of_nat (length (pre ++ [spec_eb_fun (v, b)]))) by (rewrite app_length; cbn [length]; lia).
      assert (Hnext : forall x, Some (pre ++ x :: vals) = Some ((pre ++ [x]) ++ vals)) by (intros x; rewrite <- app_assoc; reflexivity).
      assert (Hgoal : forall x, x = spec_eb_fun (v, b) ->
                fold_left (eff_balance_step E down_thr up_thr flats)
                  (indexed_from (N.of_nat (length (pre ++ [spec_eb_fun (v, b)]))) bals) (Some (pre ++ x :: vals)) =
                Some (pre ++ spec_eb_fun (v, b) :: map spec_eb_fun (combine vals bals))).
      { intros x ->. rewrite Hnext. rewrite (IH vals (pre ++ [spec_eb_fun (v, b)]) (fpre ++ [fl]) fl').
        - rewrite <- app_assoc. reflexivity.
        - rewrite Hfl, <- app_assoc. reflexivity.
        - rewrite !app_length, Hlp. reflexivity.
        - cbn [length] in Hlen. lia.
        - exact Heff2.
        - exact Hinc.
        - intros b' Hb'. apply Hb. right. exact Hb'.
        - intros v' Hv'. apply Hv. right. exact Hv'. }
      destruct ((b + down_thr <? v_effective_balance v) || (v_effective_balance v + up_thr <? b)) eqn:Hcond.
      + destruct (N.eqb_spec (EFFECTIVE_BALANCE_INCREMENT c) 0) as [H0|_]; [contradiction|].
        rewrite nthN_app, updN_app. apply Hgoal. unfold spec_eb_fun. rewrite Hcond.
        assert (Hmin : (if MAX_EFFECTIVE_BALANCE c <? b - b mod EFFECTIVE_BALANCE_INCREMENT c
                        then MAX_EFFECTIVE_BALANCE c else b - b mod EFFECTIVE_BALANCE_INCREMENT c) =
                       N.min (b - b mod EFFECTIVE_BALANCE_INCREMENT c) (MAX_EFFECTIVE_BALANCE c)).
        { destruct (N.ltb_spec (MAX_EFFECTIVE_BALANCE c) (b - b mod EFFECTIVE_BALANCE_INCREMENT c)); lia. }
        rewrite Hmin. reflexivity.
      + apply Hgoal. unfold spec_eb_fun. rewrite Hcond. reflexivity.
  Qed.

  Theorem eff_balance_refines (flats : list FlatValidator) (st : BeaconState) :
    EffBalHyps flats st ->
    Final.process_effective_balance_updates E flats st = Some (Epoch.process_effective_balance_updates E st).
  Proof.
    intros [Hlen Hfl Hq Hinc Hd Hu Hb Hv].
    unfold Final.process_effective_balance_updates, hysteresis_thresholds.
    destruct (N.eqb_spec (HYSTERESIS_QUOTIENT c) 0) as [H0|_]; [contradiction|].
    rewrite !mul64_ok by assumption. fold hyst down_thr up_thr.
    pose proof (eff_balance_loop flats (balances st) (validators st) [] [] flats eq_refl eq_refl Hlen Hfl Hinc Hb Hv) as Hloop.
    cbn [app length N.of_nat] in Hloop. unfold indexed. rewrite Hloop. reflexivity.
  Qed.

  (* ================= resets ================= *)
  Theorem eth1_data_reset_refines (next_epoch : N) (st : BeaconState) :
    next_epoch = get_current_epoch E st + 1 -> EPOCHS_PER_ETH1_VOTING_PERIOD c <> 0 ->
    Final.process_eth1_data_reset E next_epoch st = Some (Epoch.process_eth1_data_reset E st).
  Proof.
    intros -> H0. unfold Final.process_eth1_data_reset, Epoch.process_eth1_data_reset.
    destruct (N.eqb_spec (EPOCHS_PER_ETH1_VOTING_PERIOD c) 0); [contradiction|].
    destruct (_ =? 0); reflexivity.
  Qed.

  Theorem slashings_reset_refines (next_epoch : N) (st : BeaconState) :
    next_epoch = get_current_epoch E st + 1 -> EPOCHS_PER_SLASHINGS_VECTOR c <> 0 ->
    N.of_nat (length (slashings st)) = EPOCHS_PER_SLASHINGS_VECTOR c ->
    Final.process_slashings_reset E next_epoch st = Some (Epoch.process_slashings_reset E st).
  Proof.
    intros -> H0 Hlen. unfold Final.process_slashings_reset, Epoch.process_slashings_reset.
    destruct (N.eqb_spec (EPOCHS_PER_SLASHINGS_VECTOR c) 0); [contradiction|].
    rewrite nthN_nth_error. destruct (nth_error (slashings st) _) eqn:Hn; [reflexivity|].
    apply nth_error_None in Hn. pose proof (N.mod_lt (get_current_epoch E st + 1) _ H0). lia.
  Qed.

  Theorem randao_mixes_reset_refines (next_epoch : N) (st : BeaconState) :
    next_epoch = get_current_epoch E st + 1 -> EPOCHS_PER_HISTORICAL_VECTOR c <> 0 ->
    N.of_nat (length (randao_mixes st)) = EPOCHS_PER_HISTORICAL_VECTOR c ->
    Final.process_randao_mixes_reset E next_epoch st = Some (Epoch.process_randao_mixes_reset E st).
  Proof.
    intros -> H0 Hlen. unfold Final.process_randao_mixes_reset, Epoch.process_randao_mixes_reset, get_randao_mix.
    destruct (N.eqb_spec (EPOCHS_PER_HISTORICAL_VECTOR c) 0); [contradiction|].
    assert (Hp : epoch_previous (get_current_epoch E st + 1) = get_current_epoch E st).
    { unfold epoch_previous, GENESIS_EPOCH. destruct (N.eqb_spec (get_current_epoch E st + 1) 0); lia. }
    rewrite Hp. rewrite !nthN_nth_error.
    destruct (nth_error (randao_mixes st) (N.to_nat (get_current_epoch E st mod _))) eqn:Hn1.
    2:{ apply nth_error_None in Hn1. pose proof (N.mod_lt (get_current_epoch E st) _ H0). lia. }
    destruct (nth_error (randao_mixes st) (N.to_nat ((get_current_epoch E st + 1) mod _))) eqn:Hn2; [reflexivity|].
    apply nth_error_None in Hn2. pose proof (N.mod_lt (get_current_epoch E st + 1) _ H0). lia.
  Qed.

  (* ================= historical accumulators =================
     zrnt "emulates HistoricalBatch": it hashes the two vector roots directly.  The identity used:
     hash_tree_root(Container[a, b]) = merkleize([htr a; htr b], 2) = H (htr a ++ htr b). *)
  Lemma container2_root H zh n1 t1 n2 t2 v1 v2 :
    hash_tree_root H zh (TContainer [(n1, t1); (n2, t2)]) (VCont [v1; v2]) =
    H (hash_tree_root H zh t1 v1 ++ hash_tree_root H zh t2 v2).
  Proof. reflexivity. Qed.

  Theorem historical_refines (next_epoch : N) (st : BeaconState) :
    next_epoch = get_current_epoch E st + 1 ->
    SLOTS_PER_EPOCH c <> 0 -> SLOTS_PER_HISTORICAL_ROOT c / SLOTS_PER_EPOCH c <> 0 ->
    N.of_nat (length (historical_roots st)) < HISTORICAL_ROOTS_LIMIT c ->
    N.of_nat (length (historical_summaries st)) < HISTORICAL_ROOTS_LIMIT c ->
    Final.process_historical_update E f next_epoch st = Some (Epoch.process_historical_update E f st).
  Proof.
    intros -> Hspe Hp Hl1 Hl2.
    unfold Final.process_historical_update, Epoch.process_historical_update,
           process_historical_roots_update, process_historical_summaries_update, historical_period.
    destruct (N.eqb_spec (SLOTS_PER_EPOCH c) 0); [contradiction|].
    destruct (N.eqb_spec (SLOTS_PER_HISTORICAL_ROOT c / SLOTS_PER_EPOCH c) 0); [contradiction|].
    destruct (N.leb_spec (HISTORICAL_ROOTS_LIMIT c) (N.of_nat (length (historical_roots st)))); [lia|].
    destruct (N.leb_spec (HISTORICAL_ROOTS_LIMIT c) (N.of_nat (length (historical_summaries st)))); [lia|].
    unfold HistoricalBatchT, roots_vector_root, roots_vec_t, htr.
    destruct f; cbn [fork_ge fork_idx N.leb N.compare Pos.compare Pos.compare_cont];
      destruct (_ mod _ =? 0); try reflexivity; rewrite container2_root; reflexivity.
  Qed.

  (* ================= participation rotation ================= *)
  Theorem participation_record_refines (st : BeaconState) :
    Final.process_participation_record_updates st = Epoch.process_participation_record_updates st.
  Proof. reflexivity. Qed.

  Theorem participation_flag_refines (st : BeaconState) :
    length (current_epoch_participation st) = length (validators st) ->
    Final.process_participation_flag_updates st = Epoch.process_participation_flag_updates st.
  Proof.
    intros H. unfold Final.process_participation_flag_updates, Epoch.process_participation_flag_updates, nvals.
    rewrite H. reflexivity.
  Qed.
End FinalRefine.

Print Assumptions eff_balance_refines.
Print Assumptions historical_refines.
