(* C03 — decision rules of the Spec: for each check of each block operation an exact characterisation of
   acceptance (`..._iff`) or the list of rejection causes (`..._rejects`).  Statements are about the Spec model
   (Beacon/Spec/*.v), for ALL environments (hash, BLS and engine oracles with no assumed law), ALL forks,
   ALL states and ALL block values.  The correspondence runs tie the Spec to zrnt on corrupted blocks. *)
From Coq Require Import String.
From Coq Require Import NArith ZArith Lia List Bool.
From Coq Require Import ZifyN ZifyNat ZifyBool.
From RecordUpdate Require Import RecordSet.
From V Require Import Ssz.SszCore Beacon.Config Beacon.Schemas Beacon.State
  Beacon.Spec.Helpers Beacon.Spec.Epoch Beacon.Spec.Block Beacon.Spec.Transition Beacon.Refine.BlockLemmas.
Import ListNotations RecordSetNotations.
Local Open Scope string_scope.
Local Open Scope list_scope.
Local Open Scope N_scope.

(* invert `H : (assert c ;; k) = Some y` / `H : (x <- a ;; k) = Some y` repeatedly *)
Ltac inv_opt H :=
  repeat match type of H with
  | (if _ then _ else None) = Some _ =>
      let Hc := fresh "Hc" in apply if_some_inv in H; destruct H as [Hc H]
  | match _ with Some _ => _ | None => None end = Some _ =>
      let x := fresh "x" in let Hx := fresh "Hx" in apply bind_some_inv in H; destruct H as [x [Hx H]]
  end.

Section Rules.
  Variable E : Env.
  Variable f : fork.
  Let c := cfg E.
  Notation htr := (htr E).

  (* ================= block header ================= *)
  Definition header_after (st : BeaconState) (blk : value) : BeaconState :=
    st <| latest_block_header :=
            mkHeader (vuint (vfield blk 0)) (vuint (vfield blk 1)) (vbytes (vfield blk 2)) zero32
                     (htr (BodyT E f) (vfield blk 4)) |>.

  Theorem process_block_header_iff st blk st' :
    process_block_header E f st blk = Some st' <->
    ( vuint (vfield blk 0) = slot st
      /\ h_slot (latest_block_header st) < vuint (vfield blk 0)
      /\ get_beacon_proposer_index E st = Some (vuint (vfield blk 1))
      /\ vbytes (vfield blk 2) = htr BeaconBlockHeaderT (header_to_value (latest_block_header st))
      /\ (exists proposer, nthN (validators st) (vuint (vfield blk 1)) = Some proposer /\ v_slashed proposer = false)
      /\ st' = header_after st blk ).
  Proof.
    unfold process_block_header, header_after. cbv zeta. split.
    - intros H. inv_opt H. simpl_set_in Hx0.
      apply N.eqb_eq in Hc. apply N.ltb_lt in Hc0. apply N.eqb_eq in Hc1. apply bytes_eqb_eq in Hc2.
      apply negb_true_iff in Hc3. apply some_inj in H. subst x st'.
      conjs; try assumption; [|reflexivity]. exists x0. split; assumption.
    - intros (H1 & H2 & H3 & H4 & (p & H5 & H6) & ->).
      apply N.eqb_eq in H1. apply N.ltb_lt in H2. rewrite H1, H2, H3, N.eqb_refl.
      apply bytes_eqb_eq in H4. rewrite H4.
      simpl_set. rewrite H5, H6. reflexivity.
  Qed.

  (* each single cause of rejection, stated separately (contrapositive reading of the rule) *)
  Corollary process_block_header_rejects st blk :
    ( vuint (vfield blk 0) <> slot st
      \/ vuint (vfield blk 0) <= h_slot (latest_block_header st)
      \/ get_beacon_proposer_index E st <> Some (vuint (vfield blk 1))
      \/ vbytes (vfield blk 2) <> htr BeaconBlockHeaderT (header_to_value (latest_block_header st))
      \/ (forall p, nthN (validators st) (vuint (vfield blk 1)) = Some p -> v_slashed p = true) ) ->
    process_block_header E f st blk = None.
  Proof.
    intros H. destruct (process_block_header E f st blk) as [st'|] eqn:Hp; [|reflexivity]. exfalso.
    apply process_block_header_iff in Hp. destruct Hp as (H1 & H2 & H3 & H4 & (p & H5 & H6) & _).
    destruct H as [H|[H|[H|[H|H]]]]; [contradiction|lia|contradiction|contradiction|].
    specialize (H p H5). congruence.
  Qed.

  (* ================= voluntary exit ================= *)
  (* the signature domain of an exit: the state's fork version at exit.epoch before Deneb; the fixed CAPELLA
     version from Deneb on (EIP-7044) *)
  Definition exit_domain (st : BeaconState) (ve_epoch : N) : bytes :=
    if fork_ge f Deneb
    then compute_domain E DOMAIN_VOLUNTARY_EXIT (CAPELLA_FORK_VERSION c) (genesis_validators_root st)
    else get_domain E st DOMAIN_VOLUNTARY_EXIT ve_epoch.

  Theorem process_voluntary_exit_iff st sve st' :
    let ve := vfield sve 0 in
    let ve_epoch := vuint (vfield ve 0) in
    let vi := vuint (vfield ve 1) in
    let ce := get_current_epoch E st in
    process_voluntary_exit E f st sve = Some st' <->
    exists v,
      nthN (validators st) vi = Some v
      /\ (v_activation_epoch v <= ce /\ ce < v_exit_epoch v)                  (* active *)
      /\ v_exit_epoch v = FAR_FUTURE_EPOCH                                    (* exit not initiated *)
      /\ ve_epoch <= ce                                                       (* exit epoch reached *)
      /\ v_activation_epoch v + SHARD_COMMITTEE_PERIOD c <= ce                (* aged *)
      /\ bls_verify E (v_pubkey v) (compute_signing_root E (htr VoluntaryExitT ve) (exit_domain st ve_epoch))
                    (vbytes (vfield sve 1)) = true
      /\ initiate_validator_exit E st vi = Some st'.
  Proof.
    cbv zeta. unfold process_voluntary_exit, exit_domain, is_active_validator. cbv zeta. fold c. split.
    - intros H. inv_opt H. exists x.
      apply andb_true_iff in Hc. destruct Hc as [Ha Hb].
      apply N.leb_le in Ha. apply N.ltb_lt in Hb. apply N.eqb_eq in Hc0. apply N.leb_le in Hc1. apply N.leb_le in Hc2.
      conjs; assumption.
    - intros (v & H1 & [H2 H2'] & H3 & H4 & H5 & H6 & H7).
      rewrite H1. apply N.leb_le in H2. apply N.ltb_lt in H2'. rewrite H2, H2'. cbn [andb].
      apply N.eqb_eq in H3. rewrite H3. apply N.leb_le in H4. rewrite H4. apply N.leb_le in H5. rewrite H5.
      rewrite H6. exact H7.
  Qed.

  (* what initiate_validator_exit does to a validator that has not initiated an exit *)
  Definition exit_queue_epoch (st : BeaconState) : N :=
    let exit_epochs := filter (fun e => negb (e =? FAR_FUTURE_EPOCH)) (map v_exit_epoch (validators st)) in
    let q := maxl exit_epochs (compute_activation_exit_epoch E (get_current_epoch E st)) in
    let churn := N.of_nat (length (filter (fun w => v_exit_epoch w =? q) (validators st))) in
    if get_validator_churn_limit E st <=? churn then q + 1 else q.
  Lemma initiate_validator_exit_fresh st i v :
    nthN (validators st) i = Some v -> v_exit_epoch v = FAR_FUTURE_EPOCH ->
    initiate_validator_exit E st i =
    Some (st <| validators := updN (validators st) i
              (fun v => v <| v_exit_epoch := exit_queue_epoch st |>
                          <| v_withdrawable_epoch := exit_queue_epoch st + MIN_VALIDATOR_WITHDRAWABILITY_DELAY c |>) |>).
  Proof.
    intros H1 H2. unfold initiate_validator_exit. rewrite H1, H2. reflexivity.
  Qed.
  Lemma initiate_validator_exit_already st i v :
    nthN (validators st) i = Some v -> v_exit_epoch v <> FAR_FUTURE_EPOCH -> initiate_validator_exit E st i = Some st.
  Proof.
    intros H1 H2. unfold initiate_validator_exit. rewrite H1. apply N.eqb_neq in H2. rewrite H2. reflexivity.
  Qed.

  Corollary process_voluntary_exit_rejects st sve :
    let ve := vfield sve 0 in
    let ve_epoch := vuint (vfield ve 0) in
    let vi := vuint (vfield ve 1) in
    let ce := get_current_epoch E st in
    (forall v, nthN (validators st) vi = Some v ->
        ce < v_activation_epoch v \/ v_exit_epoch v <= ce              (* not active *)
        \/ v_exit_epoch v <> FAR_FUTURE_EPOCH                          (* duplicated / already exiting *)
        \/ ce < ve_epoch                                               (* exit epoch in the future *)
        \/ ce < v_activation_epoch v + SHARD_COMMITTEE_PERIOD c        (* insufficiently aged *)
        \/ bls_verify E (v_pubkey v) (compute_signing_root E (htr VoluntaryExitT ve) (exit_domain st ve_epoch))
                      (vbytes (vfield sve 1)) = false) ->              (* wrong key / domain / fork version / chain *)
    process_voluntary_exit E f st sve = None.
  Proof.
    cbv zeta. intros H. destruct (process_voluntary_exit E f st sve) as [st'|] eqn:Hp; [|reflexivity]. exfalso.
    apply process_voluntary_exit_iff in Hp. destruct Hp as (v & H1 & [H2 H2'] & H3 & H4 & H5 & H6 & _).
    destruct (H v H1) as [H0|[H0|[H0|[H0|[H0|H0]]]]]; try lia; congruence.
  Qed.

  (* ================= proposer slashing ================= *)
  Definition header_sig_ok (st : BeaconState) (pk : bytes) (sh : value) : Prop :=
    let h := vfield sh 0 in
    bls_verify E pk
      (compute_signing_root E (htr BeaconBlockHeaderT h)
         (get_domain E st DOMAIN_BEACON_PROPOSER (compute_epoch_at_slot E (vuint (vfield h 0)))))
      (vbytes (vfield sh 1)) = true.

  Theorem process_proposer_slashing_iff st ps st' :
    let sh1 := vfield ps 0 in let sh2 := vfield ps 1 in
    let h1 := vfield sh1 0 in let h2 := vfield sh2 0 in
    let pi := vuint (vfield h1 1) in
    process_proposer_slashing E f st ps = Some st' <->
    ( vuint (vfield h1 0) = vuint (vfield h2 0)                               (* same slot *)
      /\ vuint (vfield h1 1) = vuint (vfield h2 1)                            (* same proposer *)
      /\ h1 <> h2                                                             (* different headers *)
      /\ exists proposer,
           nthN (validators st) pi = Some proposer
           /\ is_slashable_validator proposer (get_current_epoch E st) = true
           /\ header_sig_ok st (v_pubkey proposer) sh1
           /\ header_sig_ok st (v_pubkey proposer) sh2
           /\ slash_validator E f st pi None = Some st' ).
  Proof.
    cbv zeta. unfold process_proposer_slashing, header_sig_ok. cbv zeta. split.
    - intros H. inv_opt H.
      apply N.eqb_eq in Hc. apply N.eqb_eq in Hc0. apply negb_true_iff in Hc1. apply value_eqb_neq in Hc1.
      conjs; try assumption. exists x. conjs; assumption.
    - intros (H1 & H2 & H3 & p & H4 & H5 & H6 & H7 & H8).
      apply N.eqb_eq in H1. apply N.eqb_eq in H2. apply value_eqb_neq in H3.
      rewrite H1, H2, H3, H4, H5, H6, H7. exact H8.
  Qed.

  Lemma is_slashable_validator_iff v e :
    is_slashable_validator v e = true <-> v_slashed v = false /\ v_activation_epoch v <= e /\ e < v_withdrawable_epoch v.
  Proof.
    unfold is_slashable_validator. rewrite !andb_true_iff, negb_true_iff, N.leb_le, N.ltb_lt. tauto.
  Qed.

  (* ================= indexed attestations / attester slashing ================= *)
  Theorem is_valid_indexed_attestation_iff st ia :
    let idx := map vuint (vseq (vfield ia 0)) in
    let data := vfield ia 1 in
    is_valid_indexed_attestation E st ia = true <->
    ( idx <> [] /\ strictly_sorted idx = true
      /\ exists pubkeys,
           all_some (map (fun i => option_map v_pubkey (nthN (validators st) i)) idx) = Some pubkeys
           /\ bls_fast_aggregate_verify E pubkeys
                (compute_signing_root E (htr AttestationDataT data)
                   (get_domain E st DOMAIN_BEACON_ATTESTER (cp_epoch (ad_target data))))
                (vbytes (vfield ia 2)) = true ).
  Proof.
    cbv zeta. unfold is_valid_indexed_attestation. cbv zeta.
    set (idx := map vuint (vseq (vfield ia 0))).
    destruct idx as [|i0 idx'] eqn:Hidx.
    - cbn [length N.of_nat N.eqb orb]. split; [discriminate|]. intros [H _]. congruence.
    - assert (Hl : (N.of_nat (length (i0 :: idx')) =? 0) = false) by (apply N.eqb_neq; cbn [length]; lia).
      rewrite Hl. cbn [orb].
      destruct (strictly_sorted (i0 :: idx')) eqn:Hs; cbn [negb].
      + destruct (all_some _) as [pks|] eqn:Hpk.
        * split.
          -- intros H. conjs; [discriminate|reflexivity|]. exists pks. split; [reflexivity|exact H].
          -- intros (_ & _ & pks' & Hp & Hv). injection Hp as <-. exact Hv.
        * split; [discriminate|]. intros (_ & _ & pks' & Hp & _). discriminate.
      + split; [discriminate|]. intros (_ & Hf & _). discriminate.
  Qed.

  Lemma is_slashable_attestation_data_iff d1 d2 :
    is_slashable_attestation_data d1 d2 = true <->
    ( (d1 <> d2 /\ cp_epoch (ad_target d1) = cp_epoch (ad_target d2))                               (* double vote *)
      \/ (cp_epoch (ad_source d1) < cp_epoch (ad_source d2) /\ cp_epoch (ad_target d2) < cp_epoch (ad_target d1)) ). (* surround *)
  Proof.
    unfold is_slashable_attestation_data.
    rewrite orb_true_iff, !andb_true_iff, negb_true_iff, value_eqb_neq, N.eqb_eq, !N.ltb_lt. tauto.
  Qed.

  (* the slashing loop over the sorted intersection, as a recursion *)
  Fixpoint slash_each (st : BeaconState) (any : bool) (l : list N) : option (BeaconState * bool) :=
    match l with
    | [] => Some (st, any)
    | i :: l' =>
        v <- nthN (validators st) i ;;
        if is_slashable_validator v (get_current_epoch E st)
        then st' <- slash_validator E f st i None ;; slash_each st' true l'
        else slash_each st any l'
    end.
  Definition slash_step (acc : option (BeaconState * bool)) (i : N) : option (BeaconState * bool) :=
    sb <- acc ;;
    let '(st, any) := sb in
    v <- nthN (validators st) i ;;
    if is_slashable_validator v (get_current_epoch E st)
    then st' <- slash_validator E f st i None ;; Some (st', true)
    else Some (st, any).
  Lemma slash_fold_none l : fold_left slash_step l None = None.
  Proof. induction l as [|i l IH]; [reflexivity|exact IH]. Qed.
  Lemma slash_fold_each l : forall st any, fold_left slash_step l (Some (st, any)) = slash_each st any l.
  Proof.
    induction l as [|i l IH]; intros st any; [reflexivity|].
    cbn [fold_left slash_each]. unfold slash_step at 2.
    destruct (nthN (validators st) i) as [v|]; [|apply slash_fold_none].
    destruct (is_slashable_validator v (get_current_epoch E st)).
    - destruct (slash_validator E f st i None) as [st'|]; [apply IH|apply slash_fold_none].
    - apply IH.
  Qed.

  Definition slashing_intersection (asl : value) : list N :=
    let i1 := map vuint (vseq (vfield (vfield asl 0) 0)) in
    let i2 := map vuint (vseq (vfield (vfield asl 1) 0)) in
    sort_uniq (filter (fun i => memN i i2) i1).

  Theorem process_attester_slashing_iff st asl st' :
    let a1 := vfield asl 0 in let a2 := vfield asl 1 in
    process_attester_slashing E f st asl = Some st' <->
    ( is_slashable_attestation_data (vfield a1 1) (vfield a2 1) = true
      /\ is_valid_indexed_attestation E st a1 = true
      /\ is_valid_indexed_attestation E st a2 = true
      /\ slash_each st false (slashing_intersection asl) = Some (st', true) ).
  Proof.
    cbv zeta. unfold process_attester_slashing, slashing_intersection. cbv zeta.
    change (fun (acc : option (BeaconState * bool)) (i : N) => _) with slash_step.
    rewrite slash_fold_each. split.
    - intros H. inv_opt H. apply some_inj in H. destruct x as [st1 b]. cbn [fst snd] in *. subst.
      conjs; assumption.
    - intros (H1 & H2 & H3 & H4). rewrite H1, H2, H3, H4. reflexivity.
  Qed.

  (* slashable in the state the operation starts from *)
  Definition slashable_in (st : BeaconState) (i : N) : bool :=
    match nthN (validators st) i with
    | Some v => is_slashable_validator v (get_current_epoch E st)
    | None => false
    end.
  Lemma slash_each_any l : forall st any st' b,
    slash_each st any l = Some (st', b) -> b = any || existsb (slashable_in st) l.
  Proof.
    induction l as [|i l IH]; intros st any st' b H; cbn [slash_each existsb] in *.
    - injection H as _ <-. rewrite orb_false_r. reflexivity.
    - unfold slashable_in at 1. destruct (nthN (validators st) i) as [v|]; [|discriminate].
      destruct (is_slashable_validator v (get_current_epoch E st)).
      + destruct (slash_validator E f st i None) as [st1|]; [|discriminate].
        apply IH in H. rewrite H. cbn. rewrite orb_true_r. reflexivity.
      + cbn [orb]. apply IH in H. exact H.
  Qed.

  (* at least one index of the sorted intersection must be slashable (in the pre-state) *)
  Corollary process_attester_slashing_needs_slashable st asl st' :
    process_attester_slashing E f st asl = Some st' ->
    exists i v, In i (slashing_intersection asl) /\ nthN (validators st) i = Some v
                /\ is_slashable_validator v (get_current_epoch E st) = true.
  Proof.
    intros H. apply process_attester_slashing_iff in H. destruct H as (_ & _ & _ & H).
    apply slash_each_any in H. cbn [orb] in H. symmetry in H. apply existsb_exists in H.
    destruct H as (i & Hin & Hs). unfold slashable_in in Hs.
    destruct (nthN (validators st) i) as [v|] eqn:Hv; [|discriminate]. exists i, v. conjs; assumption.
  Qed.
  Corollary process_attester_slashing_rejects st asl :
    let a1 := vfield asl 0 in let a2 := vfield asl 1 in
    ( is_slashable_attestation_data (vfield a1 1) (vfield a2 1) = false      (* not a double or surround vote *)
      \/ is_valid_indexed_attestation E st a1 = false                         (* empty / unsorted / duplicate / unknown index / bad signature *)
      \/ is_valid_indexed_attestation E st a2 = false
      \/ (forall i, In i (slashing_intersection asl) -> slashable_in st i = false) ) ->  (* nobody slashable *)
    process_attester_slashing E f st asl = None.
  Proof.
    cbv zeta. intros H. destruct (process_attester_slashing E f st asl) as [st'|] eqn:Hp; [|reflexivity]. exfalso.
    pose proof (process_attester_slashing_needs_slashable _ _ _ Hp) as (i & v & Hin & Hv & Hs).
    apply process_attester_slashing_iff in Hp. destruct Hp as (H1 & H2 & H3 & _).
    destruct H as [H|[H|[H|H]]]; try congruence.
    specialize (H i Hin). unfold slashable_in in H. rewrite Hv in H. congruence.
  Qed.

  (* ================= attestation ================= *)
  (* the validity of an indexed attestation reads only the registry, the fork record and the genesis root *)
  Lemma is_valid_indexed_attestation_frame st1 st2 ia :
    validators st1 = validators st2 -> fork_rec st1 = fork_rec st2 ->
    genesis_validators_root st1 = genesis_validators_root st2 ->
    is_valid_indexed_attestation E st1 ia = is_valid_indexed_attestation E st2 ia.
  Proof.
    intros H1 H2 H3. unfold is_valid_indexed_attestation, get_domain. rewrite H1, H2, H3. reflexivity.
  Qed.
  Lemma get_indexed_attestation_frame st1 st2 att :
    validators st1 = validators st2 -> randao_mixes st1 = randao_mixes st2 ->
    get_indexed_attestation E st1 att = get_indexed_attestation E st2 att.
  Proof.
    intros H1 H2.
    unfold get_indexed_attestation, get_attesting_indices, get_beacon_committee, get_committee_count_per_slot,
      get_active_validator_indices, get_seed, get_randao_mix.
    rewrite H1, H2. reflexivity.
  Qed.

  Definition expected_source (st : BeaconState) (data : value) : Checkpoint :=
    if cp_epoch (ad_target data) =? get_current_epoch E st
    then current_justified_checkpoint st else previous_justified_checkpoint st.

  Ltac altair_case H :=
    unfold get_attestation_participation_flag_indices in H; cbv zeta in H; inv_opt H;
    match goal with Hf : (assert _ ;; _) = Some _ |- _ => inv_opt Hf end;
    match goal with Hs : cp_eqb _ _ = true |- _ => apply cp_eqb_eq in Hs; split; [exact Hs|] end;
    match goal with
    | Hi : get_indexed_attestation _ _ _ = Some ?ia, Hv : is_valid_indexed_attestation _ _ ?ia = true |- _ =>
        exists ia; split; assumption
    end.

  (* everything acceptance of an attestation implies (all forks) *)
  Theorem process_attestation_accepts st att st' :
    let bits := vbits (vfield att 0) in
    let data := vfield att 1 in
    let tgt := ad_target data in
    process_attestation E f st att = Some st' ->
    ( (cp_epoch tgt = get_previous_epoch E st \/ cp_epoch tgt = get_current_epoch E st)
      /\ cp_epoch tgt = compute_epoch_at_slot E (ad_slot data)
      /\ ad_slot data + MIN_ATTESTATION_INCLUSION_DELAY c <= slot st
      /\ (fork_ge f Deneb = true \/ slot st <= ad_slot data + SLOTS_PER_EPOCH c)
      /\ ad_index data < get_committee_count_per_slot E st (cp_epoch tgt)
      /\ (exists committee, get_beacon_committee E st (ad_slot data) (ad_index data) = Some committee
                            /\ length bits = length committee)
      /\ ad_source data = expected_source st data
      /\ (exists ia, get_indexed_attestation E st att = Some ia /\ is_valid_indexed_attestation E st ia = true) ).
  Proof.
    cbv zeta. unfold process_attestation. cbv zeta. fold c. intros H. inv_opt H.
    apply orb_true_iff in Hc. rewrite !N.eqb_eq in Hc. apply N.eqb_eq in Hc0. apply N.leb_le in Hc1.
    apply orb_true_iff in Hc2. rewrite N.leb_le in Hc2. apply N.ltb_lt in Hc3. apply Nat.eqb_eq in Hc4.
    assert (Hrest : ad_source (vfield att 1) = expected_source st (vfield att 1)
             /\ exists ia, get_indexed_attestation E st att = Some ia /\ is_valid_indexed_attestation E st ia = true).
    { unfold expected_source. destruct f.
      - (* phase0 *)
        inv_opt H.
        destruct (cp_epoch (ad_target (vfield att 1)) =? get_current_epoch E st) eqn:Hcur.
        + inv_opt Hx1. apply some_inj in Hx1. subst x1. apply cp_eqb_eq in Hc6. split; [exact Hc6|].
          exists x2. split.
          * rewrite <- Hx2. apply get_indexed_attestation_frame; reflexivity.
          * rewrite <- Hc5. apply is_valid_indexed_attestation_frame; reflexivity.
        + inv_opt Hx1. apply some_inj in Hx1. subst x1. apply cp_eqb_eq in Hc6. split; [exact Hc6|].
          exists x2. split.
          * rewrite <- Hx2. apply get_indexed_attestation_frame; reflexivity.
          * rewrite <- Hc5. apply is_valid_indexed_attestation_frame; reflexivity.
      - altair_case H.
      - altair_case H.
      - altair_case H.
      - altair_case H. }
    destruct Hrest as [Hsrc Hia].
    conjs; try assumption. exists x. split; assumption.
  Qed.

  (* each cause of rejection *)
  Theorem process_attestation_rejects st att :
    let bits := vbits (vfield att 0) in
    let data := vfield att 1 in
    let tgt := ad_target data in
    ( (cp_epoch tgt <> get_previous_epoch E st /\ cp_epoch tgt <> get_current_epoch E st)   (* target epoch not in {prev,cur} *)
      \/ cp_epoch tgt <> compute_epoch_at_slot E (ad_slot data)                             (* target epoch <> epoch(slot) *)
      \/ slot st < ad_slot data + MIN_ATTESTATION_INCLUSION_DELAY c                         (* too new *)
      \/ (fork_ge f Deneb = false /\ ad_slot data + SLOTS_PER_EPOCH c < slot st)            (* too old: dropped from Deneb on *)
      \/ get_committee_count_per_slot E st (cp_epoch tgt) <= ad_index data                  (* committee index out of range *)
      \/ (forall committee, get_beacon_committee E st (ad_slot data) (ad_index data) = Some committee ->
                            length bits <> length committee)                                (* bits length <> committee size *)
      \/ ad_source data <> expected_source st data                                          (* wrong source checkpoint *)
      \/ (forall ia, get_indexed_attestation E st att = Some ia ->
                     is_valid_indexed_attestation E st ia = false) ) ->                     (* empty / invalid aggregate signature *)
    process_attestation E f st att = None.
  Proof.
    cbv zeta. intros H. destruct (process_attestation E f st att) as [st'|] eqn:Hp; [|reflexivity]. exfalso.
    apply process_attestation_accepts in Hp. cbv zeta in Hp.
    destruct Hp as (H1 & H2 & H3 & H4 & H5 & (cm & H6 & H6') & H7 & (ia & H8 & H8')).
    destruct H as [[Ha Hb]|[H|[H|[[Ha Hb]|[H|[H|[H|H]]]]]]].
    - destruct H1; contradiction.
    - contradiction.
    - lia.
    - destruct H4 as [H4|H4]; [congruence|lia].
    - lia.
    - exact (H cm H6 H6').
    - contradiction.
    - specialize (H ia H8). congruence.
  Qed.

  (* ================= deposits ================= *)
  Lemma is_valid_merkle_branch_iff leaf branch depth index root :
    is_valid_merkle_branch E leaf branch depth index root = true <->
    merkle_branch_root E leaf (firstn (N.to_nat depth) branch) 0 index = root.
  Proof. unfold is_valid_merkle_branch. apply bytes_eqb_eq. Qed.

  Definition deposit_proof_ok (st : BeaconState) (dep : value) : Prop :=
    merkle_branch_root E (htr DepositDataT (vfield dep 1)) (firstn 33 (map vbytes (vseq (vfield dep 0)))) 0
                       (eth1_deposit_index st) = e_deposit_root (eth1_data st).

  (* a deposit is accepted iff its Merkle branch (depth 32 + 1 for the length mix-in) at index eth1_deposit_index
     proves the deposit data against eth1_data.deposit_root; nothing else can reject it *)
  Theorem process_deposit_iff st dep st' :
    let data := vfield dep 1 in
    process_deposit E f st dep = Some st' <->
    ( deposit_proof_ok st dep
      /\ st' = apply_deposit E f (st <| eth1_deposit_index := eth1_deposit_index st + 1 |>)
                 (vbytes (vfield data 0)) (vbytes (vfield data 1)) (vuint (vfield data 2)) (vbytes (vfield data 3)) ).
  Proof.
    cbv zeta. unfold process_deposit, deposit_proof_ok. cbv zeta. split.
    - intros H. inv_opt H. apply some_inj in H. apply is_valid_merkle_branch_iff in Hc.
      split; [exact Hc|symmetry; exact H].
    - intros [H1 ->]. apply (proj2 (is_valid_merkle_branch_iff _ _ (DEPOSIT_CONTRACT_TREE_DEPTH + 1) _ _)) in H1.
      rewrite H1. reflexivity.
  Qed.

  Definition deposit_sig_ok (pubkey wc : bytes) (amount : N) (sig : bytes) : bool :=
    bls_verify E pubkey
      (compute_signing_root E (htr DepositMessageT (VCont [VBytes pubkey; VBytes wc; VUint amount]))
         (compute_domain E DOMAIN_DEPOSIT (GENESIS_FORK_VERSION c) zero32)) sig.

  (* top-up of a known pubkey: no signature check at all *)
  Lemma apply_deposit_known st pubkey wc amount sig i :
    find_pubkey pubkey (validators st) 0 = Some i ->
    apply_deposit E f st pubkey wc amount sig = increase_balance st i amount.
  Proof. intros H. unfold apply_deposit. rewrite H. reflexivity. Qed.
  (* new pubkey with a valid proof of possession: validator appended *)
  Lemma apply_deposit_new_valid st pubkey wc amount sig :
    find_pubkey pubkey (validators st) 0 = None -> deposit_sig_ok pubkey wc amount sig = true ->
    apply_deposit E f st pubkey wc amount sig = add_validator_to_registry E f st pubkey wc amount.
  Proof. intros H1 H2. unfold apply_deposit. rewrite H1. unfold deposit_sig_ok in H2. fold c. rewrite H2. reflexivity. Qed.
  (* new pubkey with an INVALID proof of possession: not a rejection, the deposit is skipped *)
  Lemma apply_deposit_new_invalid_skipped st pubkey wc amount sig :
    find_pubkey pubkey (validators st) 0 = None -> deposit_sig_ok pubkey wc amount sig = false ->
    apply_deposit E f st pubkey wc amount sig = st.
  Proof. intros H1 H2. unfold apply_deposit. rewrite H1. unfold deposit_sig_ok in H2. fold c. rewrite H2. reflexivity. Qed.
  Corollary process_deposit_invalid_pop_not_rejected st dep :
    let data := vfield dep 1 in
    deposit_proof_ok st dep ->
    find_pubkey (vbytes (vfield data 0)) (validators st) 0 = None ->
    deposit_sig_ok (vbytes (vfield data 0)) (vbytes (vfield data 1)) (vuint (vfield data 2)) (vbytes (vfield data 3)) = false ->
    process_deposit E f st dep = Some (st <| eth1_deposit_index := eth1_deposit_index st + 1 |>).
  Proof.
    cbv zeta. intros H1 H2 H3. apply process_deposit_iff. split; [exact H1|].
    symmetry. apply apply_deposit_new_invalid_skipped; assumption.
  Qed.

  (* find_pubkey is the FIRST index carrying the pubkey *)
  Lemma find_pubkey_spec pk vs : forall base r,
    find_pubkey pk vs base = Some r <->
    exists k v, r = base + N.of_nat k /\ nth_error vs k = Some v /\ v_pubkey v = pk
                /\ forall j w, (j < k)%nat -> nth_error vs j = Some w -> v_pubkey w <> pk.
  Proof.
    induction vs as [|v vs IH]; intros base r; cbn [find_pubkey].
    - split; [discriminate|]. intros (k & v & _ & H & _). destruct k; discriminate.
    - destruct (bytes_eqb (v_pubkey v) pk) eqn:Hb.
      + apply bytes_eqb_eq in Hb. split.
        * intros [= <-]. exists 0%nat, v. conjs; [lia|reflexivity|exact Hb|]. intros j w Hj. lia.
        * intros (k & v' & -> & Hk & Hpk & Hfirst). destruct k; [f_equal; lia|].
          exfalso. apply (Hfirst 0%nat v); [lia|reflexivity|exact Hb].
      + apply bytes_eqb_neq in Hb. rewrite IH. split.
        * intros (k & v' & -> & Hk & Hpk & Hfirst). exists (S k), v'. conjs; [lia|exact Hk|exact Hpk|].
          intros [|j] w Hj Hw; cbn in Hw; [injection Hw as <-; exact Hb|]. apply (Hfirst j w); [lia|exact Hw].
        * intros (k & v' & -> & Hk & Hpk & Hfirst). destruct k as [|k]; cbn in Hk.
          -- injection Hk as <-. contradiction.
          -- exists k, v'. conjs; [lia|exact Hk|exact Hpk|]. intros j w Hj Hw. apply (Hfirst (S j) w); [lia|exact Hw].
  Qed.
  Lemma find_pubkey_none pk vs : forall base,
    find_pubkey pk vs base = None <-> forall v, In v vs -> v_pubkey v <> pk.
  Proof.
    induction vs as [|v vs IH]; intros base; cbn [find_pubkey].
    - split; [intros _ v []|reflexivity].
    - destruct (bytes_eqb (v_pubkey v) pk) eqn:Hb.
      + apply bytes_eqb_eq in Hb. split; [discriminate|]. intros H. exfalso. apply (H v); [left; reflexivity|exact Hb].
      + apply bytes_eqb_neq in Hb. rewrite IH. split.
        * intros H w [<-|Hw]; [exact Hb|apply H; exact Hw].
        * intros H w Hw. apply H. right. exact Hw.
  Qed.

  (* ================= operations: the deposit count ================= *)
  Theorem process_operations_deposit_count st body st' :
    process_operations E f st body = Some st' ->
    N.of_nat (length (vseq (body_get E f body "deposits")))
      = N.min (MAX_DEPOSITS c) (e_deposit_count (eth1_data st) - eth1_deposit_index st)
    /\ eth1_deposit_index st <= e_deposit_count (eth1_data st).
  Proof.
    unfold process_operations. cbv zeta. fold c. intros H.
    apply if_some_inv in H. destruct H as [H1 H]. apply if_some_inv in H. destruct H as [H2 _].
    apply N.eqb_eq in H1. apply N.leb_le in H2. split; assumption.
  Qed.
  Corollary process_operations_deposit_count_rejects st body :
    ( N.of_nat (length (vseq (body_get E f body "deposits")))
        <> N.min (MAX_DEPOSITS c) (e_deposit_count (eth1_data st) - eth1_deposit_index st)
      \/ e_deposit_count (eth1_data st) < eth1_deposit_index st ) ->
    process_operations E f st body = None.
  Proof.
    intros H. destruct (process_operations E f st body) as [st'|] eqn:Hp; [|reflexivity]. exfalso.
    apply process_operations_deposit_count in Hp. destruct Hp as [H1 H2]. destruct H; [contradiction|lia].
  Qed.

  (* operations are folded left to right, stopping at the first rejection *)
  Lemma for_ops_nil fn st : for_ops [] fn st = Some st.
  Proof. reflexivity. Qed.
  Lemma for_ops_none_acc ops (fn : BeaconState -> value -> option BeaconState) :
    fold_left (fun acc op => st <- acc ;; fn st op) ops None = None.
  Proof. induction ops as [|o ops IH]; [reflexivity|exact IH]. Qed.
  Lemma for_ops_cons op ops fn st :
    for_ops (op :: ops) fn st = (st1 <- fn st op ;; for_ops ops fn st1).
  Proof.
    unfold for_ops. cbn [fold_left]. destruct (fn st op); [reflexivity|apply for_ops_none_acc].
  Qed.
  Lemma for_ops_reject_any ops1 op ops2 fn st st1 :
    for_ops ops1 fn st = Some st1 -> fn st1 op = None -> for_ops (ops1 ++ op :: ops2) fn st = None.
  Proof.
    revert st. induction ops1 as [|o ops1 IH]; intros st H1 H2.
    - rewrite for_ops_nil in H1. injection H1 as <-. cbn [app]. rewrite for_ops_cons, H2. reflexivity.
    - cbn [app]. rewrite for_ops_cons in *. destruct (fn st o) as [st2|]; [|discriminate]. apply IH; assumption.
  Qed.

  (* ================= capella: BLS-to-execution change ================= *)
  Theorem process_bls_to_execution_change_iff st sc st' :
    let ch := vfield sc 0 in
    let vi := vuint (vfield ch 0) in
    let from_pk := vbytes (vfield ch 1) in
    let to_addr := vbytes (vfield ch 2) in
    process_bls_to_execution_change E st sc = Some st' <->
    exists v,
      nthN (validators st) vi = Some v
      /\ nth 0 (v_withdrawal_credentials v) 1 = BLS_WITHDRAWAL_PREFIX            (* still a BLS credential *)
      /\ skipn 1 (v_withdrawal_credentials v) = skipn 1 (Hash E from_pk)          (* credential commits to this key *)
      /\ bls_verify E from_pk
           (compute_signing_root E (htr BLSToExecutionChangeT ch)
              (compute_domain E DOMAIN_BLS_TO_EXECUTION_CHANGE (GENESIS_FORK_VERSION c) (genesis_validators_root st)))
           (vbytes (vfield sc 1)) = true
      /\ st' = st <| validators := updN (validators st) vi
                 (fun v => v <| v_withdrawal_credentials := (ETH1_ADDRESS_WITHDRAWAL_PREFIX :: repeat 0 11) ++ to_addr |>) |>.
  Proof.
    cbv zeta. unfold process_bls_to_execution_change. cbv zeta. fold c. split.
    - intros H. inv_opt H. apply some_inj in H. exists x.
      apply N.eqb_eq in Hc. apply bytes_eqb_eq in Hc0. conjs; try assumption. symmetry. exact H.
    - intros (v & H1 & H2 & H3 & H4 & ->). rewrite H1. apply N.eqb_eq in H2. rewrite H2.
      apply bytes_eqb_eq in H3. rewrite H3, H4. reflexivity.
  Qed.

  (* ================= altair: sync aggregate ================= *)
  Definition sync_previous_slot (st : BeaconState) : N := N.max (slot st) 1 - 1.
  Definition sync_participants (st : BeaconState) (sa : value) : list bytes :=
    select_bits (vbits (vfield sa 0)) (sc_pubkeys (current_sync_committee st)).
  (* the message handed to the BLS oracle: signing root of the previous slot's block root under
     DOMAIN_SYNC_COMMITTEE at the previous slot's epoch *)
  Definition sync_signing_root (st : BeaconState) (root : bytes) : bytes :=
    compute_signing_root E root
      (get_domain E st DOMAIN_SYNC_COMMITTEE (compute_epoch_at_slot E (sync_previous_slot st))).

  Theorem process_sync_aggregate_sig st sa st' :
    process_sync_aggregate E st sa = Some st' ->
    exists root,
      get_block_root_at_slot E st (sync_previous_slot st) = Some root
      /\ (sync_participants st sa = [] -> vbytes (vfield sa 1) = G2_POINT_AT_INFINITY)
      /\ (sync_participants st sa <> [] ->
          bls_fast_aggregate_verify E (sync_participants st sa) (sync_signing_root st root) (vbytes (vfield sa 1)) = true).
  Proof.
    unfold process_sync_aggregate, sync_participants, sync_signing_root, sync_previous_slot. cbv zeta.
    intros H. apply bind_some_inv in H. destruct H as (root & Hroot & H).
    apply if_some_inv in H. destruct H as [Hsig _].
    exists root. split; [exact Hroot|].
    destruct (select_bits (vbits (vfield sa 0)) (sc_pubkeys (current_sync_committee st))) as [|p ps].
    - split; [intros _; apply bytes_eqb_eq; exact Hsig|intros Hne; congruence].
    - split; [discriminate|intros _; exact Hsig].
  Qed.
  Corollary process_sync_aggregate_rejects st sa :
    ( get_block_root_at_slot E st (sync_previous_slot st) = None
      \/ (sync_participants st sa = [] /\ vbytes (vfield sa 1) <> G2_POINT_AT_INFINITY)
      \/ (sync_participants st sa <> [] /\
          forall root, get_block_root_at_slot E st (sync_previous_slot st) = Some root ->
            bls_fast_aggregate_verify E (sync_participants st sa) (sync_signing_root st root) (vbytes (vfield sa 1)) = false) ) ->
    process_sync_aggregate E st sa = None.
  Proof.
    intros H. destruct (process_sync_aggregate E st sa) as [st'|] eqn:Hp; [|reflexivity]. exfalso.
    apply process_sync_aggregate_sig in Hp. destruct Hp as (root & H1 & H2 & H3).
    destruct H as [H|[[Ha Hb]|[Ha Hb]]].
    - congruence.
    - apply Hb, H2, Ha.
    - specialize (H3 Ha). specialize (Hb root H1). congruence.
  Qed.

  (* ================= capella: withdrawals ================= *)
  Lemma withdrawals_match_iff (got : list value) (expected : list (N * N * bytes * N)) :
    Nat.eqb (length got) (length expected)
      && forallb (fun p => value_eqb (fst p) (withdrawal_to_value (snd p))) (combine got expected) = true
    <-> got = map withdrawal_to_value expected.
  Proof.
    revert expected. induction got as [|g got IH]; intros [|e expected]; cbn [length Nat.eqb combine forallb map andb fst snd].
    - split; reflexivity.
    - split; discriminate.
    - split; discriminate.
    - specialize (IH expected). rewrite andb_true_iff in IH.
      rewrite !andb_true_iff. rewrite value_eqb_eq. split.
      + intros (Hl & -> & Hf). f_equal. apply IH. split; assumption.
      + intros [= -> Hg]. apply IH in Hg. destruct Hg as [Hl Hf]. conjs; [exact Hl|reflexivity|exact Hf].
  Qed.

  Definition withdrawals_applied (st : BeaconState) : BeaconState :=
    let expected := get_expected_withdrawals E st in
    let st := fold_left (fun st w => let '(_, vi, _, amt) := w in decrease_balance st vi amt) expected st in
    let n := N.of_nat (length (validators st)) in
    let st := match rev expected with
              | (i, _, _, _) :: _ => st <| next_withdrawal_index := i + 1 |>
              | [] => st end in
    match rev expected with
    | (_, vi, _, _) :: _ =>
        if N.of_nat (length expected) =? MAX_WITHDRAWALS_PER_PAYLOAD c
        then st <| next_withdrawal_validator_index := (vi + 1) mod n |>
        else st <| next_withdrawal_validator_index := (next_withdrawal_validator_index st + MAX_VALIDATORS_PER_WITHDRAWALS_SWEEP c) mod n |>
    | [] => st <| next_withdrawal_validator_index := (next_withdrawal_validator_index st + MAX_VALIDATORS_PER_WITHDRAWALS_SWEEP c) mod n |>
    end.

  (* accepted iff the payload's withdrawals equal get_expected_withdrawals element-wise *)
  Theorem process_withdrawals_iff st payload st' :
    process_withdrawals E f st payload = Some st' <->
    ( vseq (pl_get E f payload "withdrawals") = map withdrawal_to_value (get_expected_withdrawals E st)
      /\ st' = withdrawals_applied st ).
  Proof.
    unfold process_withdrawals, withdrawals_applied. cbv zeta. fold c.
    set (got := vseq (pl_get E f payload "withdrawals")). set (expected := get_expected_withdrawals E st).
    pose proof (withdrawals_match_iff got expected) as Hm. rewrite andb_true_iff in Hm. split.
    - intros H. inv_opt H. apply some_inj in H. split; [apply Hm; split; assumption|symmetry; exact H].
    - intros [H1 ->]. apply Hm in H1. destruct H1 as [Ha Hb]. rewrite Ha, Hb. reflexivity.
  Qed.

  (* ================= bellatrix+: execution payload ================= *)
  Definition payload_commitments (body : value) : list bytes :=
    if fork_ge f Deneb then map vbytes (vseq (body_get E f body "blob_kzg_commitments")) else [].

  Theorem process_execution_payload_iff st body st' :
    let payload := body_get E f body "execution_payload" in
    process_execution_payload E f st body = Some st' <->
    ( (* parent hash: skipped only before Capella while the merge is not complete *)
      ( (fork_ge f Capella = false /\ is_merge_transition_complete E f st = false)
        \/ vbytes (pl_get E f payload "parent_hash")
           = vbytes (vget (HeaderT E f) (latest_execution_payload_header st) "block_hash") )
      /\ vbytes (pl_get E f payload "prev_randao") = get_randao_mix E st (get_current_epoch E st)
      /\ vuint (pl_get E f payload "timestamp") = compute_timestamp_at_slot E st (slot st)
      /\ N.of_nat (length (payload_commitments body)) <= (if fork_ge f Deneb then MAX_BLOBS_PER_BLOCK c else 0)
      /\ engine_accepts E payload (map (kzg_commitment_to_versioned_hash E) (payload_commitments body))
                        (h_parent_root (latest_block_header st)) = true
      /\ st' = st <| latest_execution_payload_header := payload_to_header E f payload |> ).
  Proof.
    cbv zeta. unfold process_execution_payload, payload_commitments. cbv zeta. fold c. split.
    - intros H. inv_opt H. apply some_inj in H.
      apply orb_true_iff in Hc. rewrite bytes_eqb_eq in Hc.
      apply bytes_eqb_eq in Hc0. apply N.eqb_eq in Hc1. apply N.leb_le in Hc2.
      conjs; try assumption; [|symmetry; exact H].
      destruct Hc as [Hc|Hc]; [left|right; exact Hc].
      destruct (fork_ge f Capella); [discriminate|]. apply negb_true_iff in Hc. split; [reflexivity|exact Hc].
    - intros (H1 & H2 & H3 & H4 & H5 & ->).
      assert (Hp : (if fork_ge f Capella then false else negb (is_merge_transition_complete E f st))
                   || bytes_eqb (vbytes (pl_get E f (body_get E f body "execution_payload") "parent_hash"))
                        (vbytes (vget (HeaderT E f) (latest_execution_payload_header st) "block_hash")) = true).
      { destruct H1 as [[Ha Hb]|H1].
        - rewrite Ha, Hb. reflexivity.
        - apply bytes_eqb_eq in H1. rewrite H1. apply orb_true_r. }
      rewrite Hp. apply bytes_eqb_eq in H2. rewrite H2. apply N.eqb_eq in H3. rewrite H3.
      apply N.leb_le in H4. rewrite H4, H5. reflexivity.
  Qed.

  (* ================= randao ================= *)
  Theorem process_randao_iff st body st' :
    let epoch := get_current_epoch E st in
    let reveal := vbytes (body_get E f body "randao_reveal") in
    process_randao E f st body = Some st' <->
    exists p proposer,
      get_beacon_proposer_index E st = Some p
      /\ nthN (validators st) p = Some proposer
      /\ bls_verify E (v_pubkey proposer)
           (compute_signing_root E (htr u64 (VUint epoch)) (get_domain E st DOMAIN_RANDAO epoch)) reveal = true
      /\ st' = st <| randao_mixes := setN (randao_mixes st) (epoch mod EPOCHS_PER_HISTORICAL_VECTOR c)
                                          (xor_bytes (get_randao_mix E st epoch) (Hash E reveal)) |>.
  Proof.
    cbv zeta. unfold process_randao. cbv zeta. fold c. split.
    - intros H. inv_opt H. apply some_inj in H. exists x, x0. conjs; try assumption. symmetry; exact H.
    - intros (p & pr & H1 & H2 & H3 & ->). rewrite H1, H2, H3. reflexivity.
  Qed.
  (* ================= composition: operations and the whole block ================= *)
  Theorem process_operations_iff st body st' :
    let deposits := vseq (body_get E f body "deposits") in
    process_operations E f st body = Some st' <->
    ( N.of_nat (length deposits) = N.min (MAX_DEPOSITS c) (e_deposit_count (eth1_data st) - eth1_deposit_index st)
      /\ eth1_deposit_index st <= e_deposit_count (eth1_data st)
      /\ exists s1 s2 s3 s4 s5,
           for_ops (vseq (body_get E f body "proposer_slashings")) (process_proposer_slashing E f) st = Some s1
           /\ for_ops (vseq (body_get E f body "attester_slashings")) (process_attester_slashing E f) s1 = Some s2
           /\ for_ops (vseq (body_get E f body "attestations")) (process_attestation E f) s2 = Some s3
           /\ for_ops deposits (process_deposit E f) s3 = Some s4
           /\ for_ops (vseq (body_get E f body "voluntary_exits")) (process_voluntary_exit E f) s4 = Some s5
           /\ (if fork_ge f Capella
               then for_ops (vseq (body_get E f body "bls_to_execution_changes")) (process_bls_to_execution_change E) s5
               else Some s5) = Some st' ).
  Proof.
    cbv zeta. unfold process_operations. cbv zeta. fold c. split.
    - intros H. inv_opt H. apply N.eqb_eq in Hc. apply N.leb_le in Hc0.
      conjs; try assumption. exists x, x0, x1, x2, x3. conjs; assumption.
    - intros (H1 & H2 & s1 & s2 & s3 & s4 & s5 & H3 & H4 & H5 & H6 & H7 & H8).
      apply N.eqb_eq in H1. apply N.leb_le in H2. rewrite H1, H2, H3, H4, H5, H6, H7. exact H8.
  Qed.

  Definition payload_stage (st : BeaconState) (body : value) : option BeaconState :=
    match f with
    | Phase0 | Altair => Some st
    | Bellatrix => if is_execution_enabled E f st body then process_execution_payload E f st body else Some st
    | _ => st <- process_withdrawals E f st (body_get E f body "execution_payload") ;; process_execution_payload E f st body
    end.
  Theorem process_block_iff st blk st' :
    let body := vfield blk 4 in
    process_block E f st blk = Some st' <->
    exists s1 s2 s3 s4,
      process_block_header E f st blk = Some s1
      /\ payload_stage s1 body = Some s2
      /\ process_randao E f s2 body = Some s3
      /\ process_operations E f (process_eth1_data E f s3 body) body = Some s4
      /\ (if fork_ge f Altair then process_sync_aggregate E s4 (body_get E f body "sync_aggregate") else Some s4) = Some st'.
  Proof.
    cbv zeta. unfold process_block, payload_stage. cbv zeta. split.
    - intros H. inv_opt H. exists x, x0, x1, x2. conjs; assumption.
    - intros (s1 & s2 & s3 & s4 & H1 & H2 & H3 & H4 & H5). rewrite H1, H2, H3, H4. exact H5.
  Qed.
  (* a rejection by any stage rejects the block *)
  Corollary process_block_rejects st blk :
    let body := vfield blk 4 in
    ( process_block_header E f st blk = None
      \/ (exists s1, process_block_header E f st blk = Some s1 /\ payload_stage s1 body = None)
      \/ (exists s1 s2, process_block_header E f st blk = Some s1 /\ payload_stage s1 body = Some s2
                        /\ process_randao E f s2 body = None)
      \/ (exists s1 s2 s3, process_block_header E f st blk = Some s1 /\ payload_stage s1 body = Some s2
                        /\ process_randao E f s2 body = Some s3
                        /\ process_operations E f (process_eth1_data E f s3 body) body = None)
      \/ (exists s1 s2 s3 s4, process_block_header E f st blk = Some s1 /\ payload_stage s1 body = Some s2
                        /\ process_randao E f s2 body = Some s3
                        /\ process_operations E f (process_eth1_data E f s3 body) body = Some s4
                        /\ fork_ge f Altair = true
                        /\ process_sync_aggregate E s4 (body_get E f body "sync_aggregate") = None) ) ->
    process_block E f st blk = None.
  Proof.
    cbv zeta. intros H. destruct (process_block E f st blk) as [st'|] eqn:Hp; [|reflexivity]. exfalso.
    apply process_block_iff in Hp. cbv zeta in Hp. destruct Hp as (s1 & s2 & s3 & s4 & H1 & H2 & H3 & H4 & H5).
    destruct H as [H|[(t1 & Ha & Hb)|[(t1 & t2 & Ha & Hb & Hc)|[(t1 & t2 & t3 & Ha & Hb & Hc & Hd)|(t1 & t2 & t3 & t4 & Ha & Hb & Hc & Hd & He & Hf)]]]].
    - congruence.
    - congruence.
    - rewrite Ha in H1. injection H1 as <-. rewrite Hb in H2. injection H2 as <-. congruence.
    - rewrite Ha in H1. injection H1 as <-. rewrite Hb in H2. injection H2 as <-.
      rewrite Hc in H3. injection H3 as <-. congruence.
    - rewrite Ha in H1. injection H1 as <-. rewrite Hb in H2. injection H2 as <-.
      rewrite Hc in H3. injection H3 as <-. rewrite Hd in H4. injection H4 as <-. rewrite He in H5. congruence.
  Qed.
End Rules.

(* ================= state_transition: block signature and state root ================= *)
Section TransitionRules.
  Variable E : Env.
  Let c := cfg E.

  Theorem state_transition_iff f st bf sb validate f' st' :
    let blk := vfield sb 0 in
    state_transition E f st bf sb validate = Some (f', st') <->
    exists st1,
      process_slots E f st (vuint (vfield blk 0)) = Some (f', st1)
      /\ fork_idx f' = fork_idx bf
      /\ (validate = true -> verify_block_signature E f' st1 sb = true)
      /\ process_block E f' st1 blk = Some st'
      /\ (validate = true -> vbytes (vfield blk 3) = state_root E f' st').
  Proof.
    cbv zeta. unfold state_transition. cbv zeta. split.
    - intros H. apply bind_some_inv in H. destruct H as ([f1 st1] & Hs & H).
      inv_opt H. apply some_inj in H. injection H as <- <-.
      exists st1. apply N.eqb_eq in Hc. conjs; try assumption.
      + intros ->. exact Hc0.
      + intros ->. cbn [negb orb] in Hc1. apply bytes_eqb_eq in Hc1. exact Hc1.
    - intros (st1 & H1 & H2 & H3 & H4 & H5). rewrite H1. apply N.eqb_eq in H2. rewrite H2.
      destruct validate; cbn [negb orb].
      + rewrite (H3 eq_refl), H4. specialize (H5 eq_refl). apply bytes_eqb_eq in H5. rewrite H5. reflexivity.
      + rewrite H4. reflexivity.
  Qed.

  (* with validate_result, the block signature is checked for the proposer's key under
     get_domain(st1, DOMAIN_BEACON_PROPOSER, current_epoch(st1)) of the state AFTER process_slots, the proposer is
     the one the state computes, and the final state root must equal block.state_root *)
  Theorem state_transition_sig f st bf sb f' st' :
    let blk := vfield sb 0 in
    state_transition E f st bf sb true = Some (f', st') ->
    exists st1 proposer,
      process_slots E f st (vuint (vfield blk 0)) = Some (f', st1)
      /\ fork_idx f' = fork_idx bf
      /\ get_beacon_proposer_index E st1 = Some (vuint (vfield blk 1))
      /\ nthN (validators st1) (vuint (vfield blk 1)) = Some proposer
      /\ bls_verify E (v_pubkey proposer)
           (compute_signing_root E (htr E (BeaconBlockT c f') blk)
              (get_domain E st1 DOMAIN_BEACON_PROPOSER (get_current_epoch E st1)))
           (vbytes (vfield sb 1)) = true
      /\ process_block E f' st1 blk = Some st'
      /\ vbytes (vfield blk 3) = state_root E f' st'.
  Proof.
    cbv zeta. intros H. apply state_transition_iff in H. destruct H as (st1 & H1 & H2 & H3 & H4 & H5).
    specialize (H3 eq_refl). specialize (H5 eq_refl).
    unfold verify_block_signature in H3. cbv zeta in H3.
    destruct (nthN (validators st1) (vuint (vfield (vfield sb 0) 1))) as [proposer|] eqn:Hp; [|discriminate].
    exists st1, proposer. conjs; try assumption.
    unfold process_block in H4. cbv zeta in H4. apply bind_some_inv in H4. destruct H4 as (st2 & Hh & _).
    apply process_block_header_iff in Hh. tauto.
  Qed.

  Corollary state_transition_rejects f st bf sb :
    let blk := vfield sb 0 in
    (forall f' st1, process_slots E f st (vuint (vfield blk 0)) = Some (f', st1) ->
       fork_idx f' <> fork_idx bf                                                     (* block of another fork *)
       \/ verify_block_signature E f' st1 sb = false                                 (* wrong key / domain / root *)
       \/ process_block E f' st1 blk = None                                          (* any operation rejected *)
       \/ (forall st', process_block E f' st1 blk = Some st' -> vbytes (vfield blk 3) <> state_root E f' st')) ->
    state_transition E f st bf sb true = None.
  Proof.
    cbv zeta. intros H. destruct (state_transition E f st bf sb true) as [[f' st']|] eqn:Hp; [|reflexivity]. exfalso.
    apply state_transition_iff in Hp. destruct Hp as (st1 & H1 & H2 & H3 & H4 & H5).
    specialize (H3 eq_refl). specialize (H5 eq_refl).
    destruct (H f' st1 H1) as [H0|[H0|[H0|H0]]]; try congruence. exact (H0 st' H4 H5).
  Qed.
  (* process_slots itself refuses a target slot that is not in the future (wrong slot) *)
  Lemma process_slots_not_future f st target : target <= slot st -> process_slots E f st target = None.
  Proof. intros H. unfold process_slots. apply N.ltb_ge in H. rewrite H. reflexivity. Qed.
End TransitionRules.

(* ================= every signature check: the message fixes (domain type, fork version, genesis root, object) ========= *)
Section CrossDomain.
  Variable E : Env.
  Let c := cfg E.
  Notation htr := (htr E).

  Definition fork_version_at (st : BeaconState) (epoch : N) : bytes :=
    if epoch <? f_epoch (fork_rec st) then f_previous_version (fork_rec st) else f_current_version (fork_rec st).
  Lemma get_domain_shape st dt epoch :
    get_domain E st dt epoch = compute_domain E dt (fork_version_at st epoch) (genesis_validators_root st).
  Proof. reflexivity. Qed.

  (* "sig is a signature by pk over the object root under (domain type, fork version, genesis validators root)" *)
  Definition signed_by (pk obj_root sig dt version gvr : bytes) : Prop :=
    bls_verify E pk (compute_signing_root E obj_root (compute_domain E dt version gvr)) sig = true.
  Definition agg_signed_by (pks : list bytes) (obj_root sig dt version gvr : bytes) : Prop :=
    bls_fast_aggregate_verify E pks (compute_signing_root E obj_root (compute_domain E dt version gvr)) sig = true.

  Lemma block_sig_shape f st bf sb f' st' :
    let blk := vfield sb 0 in
    state_transition E f st bf sb true = Some (f', st') ->
    exists st1 proposer,
      process_slots E f st (vuint (vfield blk 0)) = Some (f', st1)
      /\ nthN (validators st1) (vuint (vfield blk 1)) = Some proposer
      /\ signed_by (v_pubkey proposer) (htr (BeaconBlockT c f') blk) (vbytes (vfield sb 1))
           DOMAIN_BEACON_PROPOSER (fork_version_at st1 (get_current_epoch E st1)) (genesis_validators_root st1).
  Proof.
    cbv zeta. intros H. apply state_transition_sig in H. destruct H as (st1 & p & H1 & _ & _ & H4 & H5 & _).
    exists st1, p. conjs; assumption.
  Qed.

  Lemma randao_sig_shape f st body st' :
    process_randao E f st body = Some st' ->
    exists p proposer,
      get_beacon_proposer_index E st = Some p /\ nthN (validators st) p = Some proposer
      /\ signed_by (v_pubkey proposer) (htr u64 (VUint (get_current_epoch E st))) (vbytes (body_get E f body "randao_reveal"))
           DOMAIN_RANDAO (fork_version_at st (get_current_epoch E st)) (genesis_validators_root st).
  Proof.
    intros H. apply process_randao_iff in H. destruct H as (p & pr & H1 & H2 & H3 & _). exists p, pr. conjs; assumption.
  Qed.

  Lemma proposer_slashing_sig_shape f st ps st' :
    process_proposer_slashing E f st ps = Some st' ->
    exists proposer,
      nthN (validators st) (vuint (vfield (vfield (vfield ps 0) 0) 1)) = Some proposer
      /\ forall sh, sh = vfield ps 0 \/ sh = vfield ps 1 ->
           signed_by (v_pubkey proposer) (htr BeaconBlockHeaderT (vfield sh 0)) (vbytes (vfield sh 1))
             DOMAIN_BEACON_PROPOSER (fork_version_at st (compute_epoch_at_slot E (vuint (vfield (vfield sh 0) 0))))
             (genesis_validators_root st).
  Proof.
    intros H. apply process_proposer_slashing_iff in H. cbv zeta in H.
    destruct H as (_ & _ & _ & p & H1 & _ & H2 & H3 & _). exists p. split; [exact H1|].
    intros sh [->| ->]; assumption.
  Qed.

  Definition indexed_att_signed (st : BeaconState) (ia : value) : Prop :=
    exists pubkeys,
      all_some (map (fun i => option_map v_pubkey (nthN (validators st) i)) (map vuint (vseq (vfield ia 0)))) = Some pubkeys
      /\ agg_signed_by pubkeys (htr AttestationDataT (vfield ia 1)) (vbytes (vfield ia 2))
           DOMAIN_BEACON_ATTESTER (fork_version_at st (cp_epoch (ad_target (vfield ia 1)))) (genesis_validators_root st).
  Lemma indexed_att_sig_shape st ia : is_valid_indexed_attestation E st ia = true -> indexed_att_signed st ia.
  Proof.
    intros H. apply is_valid_indexed_attestation_iff in H. cbv zeta in H. destruct H as (_ & _ & pks & H1 & H2).
    exists pks. split; assumption.
  Qed.
  Lemma attester_slashing_sig_shape f st asl st' :
    process_attester_slashing E f st asl = Some st' ->
    indexed_att_signed st (vfield asl 0) /\ indexed_att_signed st (vfield asl 1).
  Proof.
    intros H. apply process_attester_slashing_iff in H. cbv zeta in H. destruct H as (_ & H1 & H2 & _).
    split; apply indexed_att_sig_shape; assumption.
  Qed.
  Lemma attestation_sig_shape f st att st' :
    process_attestation E f st att = Some st' ->
    exists ia, get_indexed_attestation E st att = Some ia /\ indexed_att_signed st ia.
  Proof.
    intros H. apply process_attestation_accepts in H. cbv zeta in H.
    destruct H as (_ & _ & _ & _ & _ & _ & _ & ia & H1 & H2). exists ia. split; [exact H1|].
    apply indexed_att_sig_shape. exact H2.
  Qed.

  Lemma voluntary_exit_sig_shape f st sve st' :
    process_voluntary_exit E f st sve = Some st' ->
    exists v,
      nthN (validators st) (vuint (vfield (vfield sve 0) 1)) = Some v
      /\ signed_by (v_pubkey v) (htr VoluntaryExitT (vfield sve 0)) (vbytes (vfield sve 1))
           DOMAIN_VOLUNTARY_EXIT
           (if fork_ge f Deneb then CAPELLA_FORK_VERSION c else fork_version_at st (vuint (vfield (vfield sve 0) 0)))
           (genesis_validators_root st).
  Proof.
    intros H. apply process_voluntary_exit_iff in H. cbv zeta in H.
    destruct H as (v & H1 & _ & _ & _ & _ & H2 & _). exists v. split; [exact H1|].
    unfold signed_by. unfold exit_domain in H2. fold c in H2. destruct (fork_ge f Deneb); exact H2.
  Qed.

  Lemma bls_change_sig_shape st sc st' :
    process_bls_to_execution_change E st sc = Some st' ->
    signed_by (vbytes (vfield (vfield sc 0) 1)) (htr BLSToExecutionChangeT (vfield sc 0)) (vbytes (vfield sc 1))
      DOMAIN_BLS_TO_EXECUTION_CHANGE (GENESIS_FORK_VERSION c) (genesis_validators_root st).
  Proof.
    intros H. apply process_bls_to_execution_change_iff in H. cbv zeta in H.
    destruct H as (v & _ & _ & _ & H & _). exact H.
  Qed.

  Lemma sync_aggregate_sig_shape st sa st' :
    process_sync_aggregate E st sa = Some st' ->
    sync_participants st sa <> [] ->
    exists root,
      get_block_root_at_slot E st (sync_previous_slot st) = Some root
      /\ agg_signed_by (sync_participants st sa) root (vbytes (vfield sa 1))
           DOMAIN_SYNC_COMMITTEE (fork_version_at st (compute_epoch_at_slot E (sync_previous_slot st)))
           (genesis_validators_root st).
  Proof.
    intros H Hne. apply process_sync_aggregate_sig in H. destruct H as (root & H1 & _ & H3).
    exists root. split; [exact H1|]. exact (H3 Hne).
  Qed.

  (* deposits: a NEW validator enters the registry only with a proof of possession under the fork-agnostic
     deposit domain (GENESIS_FORK_VERSION, zero genesis root) *)
  Lemma deposit_sig_shape f st pubkey wc amount sig :
    find_pubkey pubkey (validators st) 0 = None ->
    apply_deposit E f st pubkey wc amount sig <> st ->
    signed_by pubkey (htr DepositMessageT (VCont [VBytes pubkey; VBytes wc; VUint amount])) sig
      DOMAIN_DEPOSIT (GENESIS_FORK_VERSION c) zero32.
  Proof.
    intros H1 H2. unfold signed_by.
    destruct (deposit_sig_ok E pubkey wc amount sig) eqn:Hs; [exact Hs|].
    exfalso. apply H2. apply apply_deposit_new_invalid_skipped; assumption.
  Qed.

  Definition cross_domain_shape : Prop :=
    (forall f st bf sb f' st', state_transition E f st bf sb true = Some (f', st') ->
       exists st1 proposer,
         process_slots E f st (vuint (vfield (vfield sb 0) 0)) = Some (f', st1)
         /\ nthN (validators st1) (vuint (vfield (vfield sb 0) 1)) = Some proposer
         /\ signed_by (v_pubkey proposer) (htr (BeaconBlockT c f') (vfield sb 0)) (vbytes (vfield sb 1))
              DOMAIN_BEACON_PROPOSER (fork_version_at st1 (get_current_epoch E st1)) (genesis_validators_root st1))
    /\ (forall f st body st', process_randao E f st body = Some st' ->
          exists p proposer,
            get_beacon_proposer_index E st = Some p /\ nthN (validators st) p = Some proposer
            /\ signed_by (v_pubkey proposer) (htr u64 (VUint (get_current_epoch E st))) (vbytes (body_get E f body "randao_reveal"))
                 DOMAIN_RANDAO (fork_version_at st (get_current_epoch E st)) (genesis_validators_root st))
    /\ (forall f st ps st', process_proposer_slashing E f st ps = Some st' ->
          exists proposer,
            nthN (validators st) (vuint (vfield (vfield (vfield ps 0) 0) 1)) = Some proposer
            /\ forall sh, sh = vfield ps 0 \/ sh = vfield ps 1 ->
                 signed_by (v_pubkey proposer) (htr BeaconBlockHeaderT (vfield sh 0)) (vbytes (vfield sh 1))
                   DOMAIN_BEACON_PROPOSER (fork_version_at st (compute_epoch_at_slot E (vuint (vfield (vfield sh 0) 0))))
                   (genesis_validators_root st))
    /\ (forall f st asl st', process_attester_slashing E f st asl = Some st' ->
          indexed_att_signed st (vfield asl 0) /\ indexed_att_signed st (vfield asl 1))
    /\ (forall f st att st', process_attestation E f st att = Some st' ->
          exists ia, get_indexed_attestation E st att = Some ia /\ indexed_att_signed st ia)
    /\ (forall f st sve st', process_voluntary_exit E f st sve = Some st' ->
          exists v,
            nthN (validators st) (vuint (vfield (vfield sve 0) 1)) = Some v
            /\ signed_by (v_pubkey v) (htr VoluntaryExitT (vfield sve 0)) (vbytes (vfield sve 1))
                 DOMAIN_VOLUNTARY_EXIT
                 (if fork_ge f Deneb then CAPELLA_FORK_VERSION c else fork_version_at st (vuint (vfield (vfield sve 0) 0)))
                 (genesis_validators_root st))
    /\ (forall st sc st', process_bls_to_execution_change E st sc = Some st' ->
          signed_by (vbytes (vfield (vfield sc 0) 1)) (htr BLSToExecutionChangeT (vfield sc 0)) (vbytes (vfield sc 1))
            DOMAIN_BLS_TO_EXECUTION_CHANGE (GENESIS_FORK_VERSION c) (genesis_validators_root st))
    /\ (forall st sa st', process_sync_aggregate E st sa = Some st' -> sync_participants st sa <> [] ->
          exists root,
            get_block_root_at_slot E st (sync_previous_slot st) = Some root
            /\ agg_signed_by (sync_participants st sa) root (vbytes (vfield sa 1))
                 DOMAIN_SYNC_COMMITTEE (fork_version_at st (compute_epoch_at_slot E (sync_previous_slot st)))
                 (genesis_validators_root st))
    /\ (forall f st pubkey wc amount sig,
          find_pubkey pubkey (validators st) 0 = None -> apply_deposit E f st pubkey wc amount sig <> st ->
          signed_by pubkey (htr DepositMessageT (VCont [VBytes pubkey; VBytes wc; VUint amount])) sig
            DOMAIN_DEPOSIT (GENESIS_FORK_VERSION c) zero32).

  Theorem cross_domain_rejected_shape : cross_domain_shape.
  Proof.
    unfold cross_domain_shape. conjs.
    - intros. eapply block_sig_shape; eassumption.
    - intros. eapply randao_sig_shape; eassumption.
    - intros. eapply proposer_slashing_sig_shape; eassumption.
    - intros. eapply attester_slashing_sig_shape; eassumption.
    - intros. eapply attestation_sig_shape; eassumption.
    - intros. eapply voluntary_exit_sig_shape; eassumption.
    - intros. eapply bls_change_sig_shape; eassumption.
    - intros. eapply sync_aggregate_sig_shape; eassumption.
    - intros. eapply deposit_sig_shape; eassumption.
  Qed.
End CrossDomain.
