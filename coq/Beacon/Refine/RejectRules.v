(* C03 — decision rules of the Spec: for each check of each block operation an exact characterisation of
   acceptance (`..._iff`) or the list of rejection causes (`..._rejects`).  Statements are about the Spec model
   (Beacon/Spec/*.v), for ALL environments (hash, BLS and engine oracles with no assumed law), ALL forks,
   ALL states and ALL block values.  The correspondence runs tie the Spec to zrnt on corrupted blocks. *)
From Coq Require Import String.
From Coq Require Import NArith ZArith Lia List Bool.
From Coq Require Import ZifyN ZifyNat ZifyBool.
From RecordUpdate Require Import RecordSet.
From V Require Import Ssz.SszCore Beacon.Config Beacon.Schemas Beacon.State
  Beacon.Spec.Helpers Beacon.Spec.Epoch Beacon.Spec.Block Beacon.Spec.Transition Beacon.Refine.BlockLemmas.
Import ListNotations RecordSetNotations.
Local Open Scope string_scope.
Local Open Scope list_scope.
Local Open Scope N_scope.

(* invert `H : (assert c ;; k) = Some y` / `H : (x <- a ;; k) = Some y` repeatedly *)
Ltac inv_opt H :=
  repeat first
   [ let Hc := fresh "Hc" in apply if_some_inv in H; destruct H as [Hc H]
   | let x := fresh "x" in let Hx := fresh "Hx" in apply bind_some_inv in H; destruct H as [x [Hx H]] ].

Section Rules.
  Variable E : Env.
  Variable f : fork.
  Let c := cfg E.
  Notation htr := (htr E).

  (* ================= block header ================= *)
  Definition header_after (st : BeaconState) (blk : value) : BeaconState :=
    st <| latest_block_header :=
            mkHeader (vuint (vfield blk 0)) (vuint (vfield blk 1)) (vbytes (vfield blk 2)) zero32
                     (htr (BodyT E f) (vfield blk 4)) |>.

  Theorem process_block_header_iff st blk st' :
    process_block_header E f st blk = Some st' <->
    ( vuint (vfield blk 0) = slot st
      /\ h_slot (latest_block_header st) < vuint (vfield blk 0)
      /\ get_beacon_proposer_index E st = Some (vuint (vfield blk 1))
      /\ vbytes (vfield blk 2) = htr BeaconBlockHeaderT (header_to_value (latest_block_header st))
      /\ (exists proposer, nthN (validators st) (vuint (vfield blk 1)) = Some proposer /\ v_slashed proposer = false)
      /\ st' = header_after st blk ).
  Proof.
    unfold process_block_header, header_after. cbv zeta. split.
    - intros H. inv_opt H. simpl_set_in Hx0.
      apply N.eqb_eq in Hc. apply N.ltb_lt in Hc0. apply N.eqb_eq in Hc1. apply bytes_eqb_eq in Hc2.
      apply negb_true_iff in Hc3. injection H as <-. subst x.
      repeat split; try assumption. exists x0. split; assumption.
    - intros (H1 & H2 & H3 & H4 & (p & H5 & H6) & ->).
      apply N.eqb_eq in H1. apply N.ltb_lt in H2. rewrite H1, H2, H3, N.eqb_refl.
      apply bytes_eqb_eq in H4. rewrite H4.
      simpl_set. rewrite H5, H6. reflexivity.
  Qed.

  (* each single cause of rejection, stated separately (contrapositive reading of the rule) *)
  Corollary process_block_header_rejects st blk :
    ( vuint (vfield blk 0) <> slot st
      \/ vuint (vfield blk 0) <= h_slot (latest_block_header st)
      \/ get_beacon_proposer_index E st <> Some (vuint (vfield blk 1))
      \/ vbytes (vfield blk 2) <> htr BeaconBlockHeaderT (header_to_value (latest_block_header st))
      \/ (forall p, nthN (validators st) (vuint (vfield blk 1)) = Some p -> v_slashed p = true) ) ->
    process_block_header E f st blk = None.
  Proof.
    intros H. destruct (process_block_header E f st blk) as [st'|] eqn:Hp; [|reflexivity]. exfalso.
    apply process_block_header_iff in Hp. destruct Hp as (H1 & H2 & H3 & H4 & (p & H5 & H6) & _).
    destruct H as [H|[H|[H|[H|H]]]]; [contradiction|lia|contradiction|contradiction|].
    specialize (H p H5). congruence.
  Qed.
End Rules.
