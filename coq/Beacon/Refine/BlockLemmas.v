(* Small shared facts for the block-level rejection rules and refinements (C01/C03):
   boolean equalities reflect, option-monad inversion tactics, updN/nthN, balances helpers. *)
From Coq Require Import String.
From Coq Require Import NArith ZArith Lia List Bool.
From Coq Require Import ZifyN ZifyNat ZifyBool.
From RecordUpdate Require Import RecordSet.
From V Require Import Ssz.SszCore Beacon.Config Beacon.Schemas Beacon.State Beacon.Spec.Helpers.
Import ListNotations RecordSetNotations.
Local Open Scope N_scope.

(* ---------- reflection of the boolean equalities used by the Spec ---------- *)
Lemma bytes_eqb_refl a : bytes_eqb a a = true.
Proof. induction a as [|x a IH]; cbn; [reflexivity|]. rewrite N.eqb_refl. exact IH. Qed.
Lemma bytes_eqb_eq a b : bytes_eqb a b = true <-> a = b.
Proof.
  split.
  - revert b. induction a as [|x a IH]; destruct b as [|y b]; cbn; try discriminate; try reflexivity.
    intros Hb. apply andb_true_iff in Hb. destruct Hb as [H1 H2].
    apply N.eqb_eq in H1. subst y. f_equal. apply IH. exact H2.
  - intros ->. apply bytes_eqb_refl.
Qed.
Lemma bytes_eqb_neq a b : bytes_eqb a b = false <-> a <> b.
Proof.
  split.
  - intros H E. apply bytes_eqb_eq in E. congruence.
  - intros H. destruct (bytes_eqb a b) eqn:E; [|reflexivity]. apply bytes_eqb_eq in E. contradiction.
Qed.

Lemma list_eqb_bool_eq a b : list_eqb Bool.eqb a b = true <-> a = b.
Proof.
  split.
  - revert b. induction a as [|x a IH]; destruct b as [|y b]; cbn; try discriminate; try reflexivity.
    intros Hb. apply andb_true_iff in Hb. destruct Hb as [H1 H2].
    apply Bool.eqb_prop in H1. subst y. f_equal. apply IH. exact H2.
  - intros ->. induction b as [|y b IH]; cbn; [reflexivity|]. rewrite Bool.eqb_reflx. exact IH.
Qed.

(* value_eqb reflects equality of SSZ values *)
Fixpoint vsize (v : value) : nat :=
  match v with
  | VSeq l | VCont l => S (fold_right (fun x acc => vsize x + acc)%nat 0%nat l)
  | _ => 1%nat
  end.

Definition values_eqb := (fix go (x y : list value) : bool :=
         match x, y with [] , [] => true | p :: x', q :: y' => value_eqb p q && go x' y' | _, _ => false end).

Lemma value_eqb_eq_aux n : forall a b, (vsize a <= n)%nat -> (value_eqb a b = true <-> a = b).
Proof.
  induction n as [|n IH]; intros a b Hn.
  - destruct a; cbn in Hn; lia.
  - assert (Hl : forall x y, (fold_right (fun x acc => vsize x + acc)%nat 0%nat x <= n)%nat ->
                 (values_eqb x y = true <-> x = y)).
    { induction x as [|p x IHx]; destruct y as [|q y]; cbn [values_eqb fold_right]; intros Hs;
        try (split; [discriminate|discriminate]); try (split; reflexivity).
      rewrite andb_true_iff. rewrite (IH p q) by lia. rewrite IHx by lia.
      split; [intros [-> ->]; reflexivity|intros [= -> ->]; split; reflexivity]. }
    destruct a, b; cbn [value_eqb]; try (split; discriminate).
    + rewrite N.eqb_eq. split; [intros ->; reflexivity|intros [= ->]; reflexivity].
    + split; [intros H; apply Bool.eqb_prop in H; subst; reflexivity|intros [= ->]; apply Bool.eqb_reflx].
    + rewrite bytes_eqb_eq. split; [intros ->; reflexivity|intros [= ->]; reflexivity].
    + rewrite list_eqb_bool_eq. split; [intros ->; reflexivity|intros [= ->]; reflexivity].
    + change (values_eqb vs vs0 = true <-> VSeq vs = VSeq vs0). cbn [vsize] in Hn.
      rewrite Hl by lia. split; [intros ->; reflexivity|intros [= ->]; reflexivity].
    + change (values_eqb vs vs0 = true <-> VCont vs = VCont vs0). cbn [vsize] in Hn.
      rewrite Hl by lia. split; [intros ->; reflexivity|intros [= ->]; reflexivity].
Qed.
Lemma value_eqb_eq a b : value_eqb a b = true <-> a = b.
Proof. apply (value_eqb_eq_aux (vsize a)). apply Nat.le_refl. Qed.
Lemma value_eqb_neq a b : value_eqb a b = false <-> a <> b.
Proof.
  split.
  - intros H E. apply value_eqb_eq in E. congruence.
  - intros H. destruct (value_eqb a b) eqn:E; [|reflexivity]. apply value_eqb_eq in E. contradiction.
Qed.

Lemma cp_eqb_eq a b : cp_eqb a b = true <-> a = b.
Proof.
  unfold cp_eqb. rewrite andb_true_iff, N.eqb_eq, bytes_eqb_eq. destruct a, b; cbn.
  split; [intros [-> ->]; reflexivity|intros [= -> ->]; split; reflexivity].
Qed.

(* ---------- nthN / updN ---------- *)
(* the Spec's definitions carry a bound test (cheap evaluation on hostile indices); they are the plain ones *)
Lemma nthN_eq {A} (l : list A) i : nthN l i = nth_error l (N.to_nat i).
Proof.
  unfold nthN. destruct (N.ltb_spec i (N.of_nat (length l))); [reflexivity|]. symmetry. apply nth_error_None. lia.
Qed.
Lemma upd_nat_oor0 {A} (l : list A) i g : (length l <= i)%nat -> upd_nat l i g = l.
Proof. revert i. induction l as [|x l IH]; intros [|i] H; cbn in *; try reflexivity; try lia. f_equal. apply IH. lia. Qed.
Lemma updN_eq {A} (l : list A) i g : updN l i g = upd_nat l (N.to_nat i) g.
Proof.
  unfold updN. destruct (N.ltb_spec i (N.of_nat (length l))); [reflexivity|]. symmetry. apply upd_nat_oor0. lia.
Qed.
Lemma nthN_In {A} (l : list A) i x : nthN l i = Some x -> In x l.
Proof. rewrite nthN_eq. apply nth_error_In. Qed.
Lemma nthN_Some_lt {A} (l : list A) i x : nthN l i = Some x -> i < N.of_nat (length l).
Proof. rewrite nthN_eq. intros H. assert (nth_error l (N.to_nat i) <> None) by congruence. apply nth_error_Some in H0. lia. Qed.
Lemma nthN_None_ge {A} (l : list A) i : nthN l i = None <-> N.of_nat (length l) <= i.
Proof. rewrite nthN_eq. rewrite nth_error_None. lia. Qed.
Lemma nthN_lt_Some {A} (l : list A) i : i < N.of_nat (length l) -> exists x, nthN l i = Some x.
Proof.
  intros H. destruct (nthN l i) eqn:E; [eauto|]. apply nthN_None_ge in E. lia.
Qed.

Lemma upd_nat_length {A} (l : list A) i g : length (upd_nat l i g) = length l.
Proof. revert i. induction l as [|x l IH]; intros [|i]; cbn; try reflexivity. rewrite IH. reflexivity. Qed.
Lemma updN_length {A} (l : list A) i g : length (updN l i g) = length l.
Proof. rewrite updN_eq. apply upd_nat_length. Qed.
Lemma upd_nat_nth_same {A} (l : list A) i g : nth_error (upd_nat l i g) i = option_map g (nth_error l i).
Proof. revert i. induction l as [|x l IH]; intros [|i]; cbn; try reflexivity. apply IH. Qed.
Lemma upd_nat_nth_other {A} (l : list A) i j g : i <> j -> nth_error (upd_nat l i g) j = nth_error l j.
Proof.
  revert i j. induction l as [|x l IH]; intros [|i] [|j] H; cbn; try reflexivity; try congruence.
  apply IH. congruence.
Qed.
Lemma nthN_updN_same {A} (l : list A) i g : nthN (updN l i g) i = option_map g (nthN l i).
Proof. rewrite !nthN_eq, updN_eq. apply upd_nat_nth_same. Qed.
Lemma nthN_updN_other {A} (l : list A) i j g : i <> j -> nthN (updN l i g) j = nthN l j.
Proof. intros H. rewrite !nthN_eq, updN_eq. apply upd_nat_nth_other. lia. Qed.
Lemma upd_nat_oor {A} (l : list A) i g : (length l <= i)%nat -> upd_nat l i g = l.
Proof. revert i. induction l as [|x l IH]; intros [|i] H; cbn in *; try reflexivity; try lia. f_equal. apply IH. lia. Qed.
Lemma updN_oor {A} (l : list A) i g : N.of_nat (length l) <= i -> updN l i g = l.
Proof. intros H. rewrite updN_eq. apply upd_nat_oor. lia. Qed.
Lemma upd_nat_id {A} (l : list A) i g : (forall x, nth_error l i = Some x -> g x = x) -> upd_nat l i g = l.
Proof.
  revert i. induction l as [|x l IH]; intros [|i] H; cbn in *; try reflexivity.
  - f_equal. apply H. reflexivity.
  - f_equal. apply IH. exact H.
Qed.
Lemma upd_nat_upd_nat_same {A} (l : list A) i g h : upd_nat (upd_nat l i g) i h = upd_nat l i (fun x => h (g x)).
Proof. revert i. induction l as [|x l IH]; intros [|i]; cbn; try reflexivity. f_equal. apply IH. Qed.
Lemma updN_updN_same {A} (l : list A) i g h : updN (updN l i g) i h = updN l i (fun x => h (g x)).
Proof. rewrite !updN_eq. apply upd_nat_upd_nat_same. Qed.
Lemma upd_nat_comm {A} (l : list A) i j g h : i <> j -> upd_nat (upd_nat l i g) j h = upd_nat (upd_nat l j h) i g.
Proof.
  revert i j. induction l as [|x l IH]; intros [|i] [|j] H; cbn; try reflexivity; try congruence.
  f_equal. apply IH. congruence.
Qed.
Lemma updN_comm {A} (l : list A) i j g h : i <> j -> updN (updN l i g) j h = updN (updN l j h) i g.
Proof. intros H. rewrite !updN_eq. apply upd_nat_comm. lia. Qed.
Lemma upd_nat_ext {A} (l : list A) i g h : (forall x, g x = h x) -> upd_nat l i g = upd_nat l i h.
Proof.
  intros H. revert i. induction l as [|x l IH]; intros [|i]; cbn; try reflexivity.
  - rewrite H. reflexivity.
  - f_equal. apply IH.
Qed.
Lemma updN_ext {A} (l : list A) i g h : (forall x, g x = h x) -> updN l i g = updN l i h.
Proof. intros H. rewrite !updN_eq. apply upd_nat_ext. exact H. Qed.

(* ---------- option monad inversion ---------- *)
Lemma if_some_inv {A} (c : bool) (x : option A) y : (if c then x else None) = Some y <-> c = true /\ x = Some y.
Proof.
  destruct c; split.
  - intros H; split; [reflexivity|exact H].
  - intros [_ H]; exact H.
  - discriminate.
  - intros [H _]; discriminate.
Qed.
Lemma bind_some_inv {A B} (a : option A) (g : A -> option B) y :
  match a with Some x => g x | None => None end = Some y <-> exists x, a = Some x /\ g x = Some y.
Proof.
  destruct a; split.
  - intros H. eauto.
  - intros [x [[= ->] H]]. exact H.
  - discriminate.
  - intros [x [H _]]. discriminate.
Qed.

(* ---------- all_some ---------- *)
Lemma all_some_length {A} (l : list (option A)) r : all_some l = Some r -> length r = length l.
Proof.
  revert r. induction l as [|[a|] l IH]; cbn; intros r H; try discriminate.
  - injection H as <-. reflexivity.
  - destruct (all_some l) eqn:E; [|discriminate]. injection H as <-. cbn. f_equal. apply IH. reflexivity.
Qed.
Lemma all_some_nth {A} (l : list (option A)) r : all_some l = Some r ->
  forall i, nth_error l i = option_map Some (nth_error r i).
Proof.
  revert r. induction l as [|[a|] l IH]; cbn; intros r H i; try discriminate.
  - injection H as <-. destruct i; reflexivity.
  - destruct (all_some l) eqn:E; [|discriminate]. injection H as <-. destruct i; cbn; [reflexivity|]. apply IH. reflexivity.
Qed.

(* ---------- projections through record-update setters ----------
   `p (s <| fld := v |>)` is `p s` (other field) or `g (p s)` (same field); both by conversion.
   Never use `cbn`/`simpl` on goals mentioning `htr` (it unfolds the merkleisation).  `p` must be a constant
   (a projection): a conversion test on e.g. `get_beacon_proposer_index E (set ..)` would unfold 40000 units of fuel. *)
Ltac simpl_set :=
  repeat match goal with
  | |- context [?p (set ?fld ?g ?s)] =>
      is_const p;
      first [ progress change (p (set fld g s)) with (p s) | progress change (p (set fld g s)) with (g (p s)) ]
  end; cbv beta.
Ltac simpl_set_in H :=
  repeat match type of H with
  | context [?p (set ?fld ?g ?s)] =>
      is_const p;
      first [ progress change (p (set fld g s)) with (p s) in H | progress change (p (set fld g s)) with (g (p s)) in H ]
  end; cbv beta in H.

Lemma some_inj {A} (a b : A) : Some a = Some b -> a = b.
Proof. congruence. Qed.
(* split a conjunction without ever trying `eq_refl` on an equation (that would unfold `htr`) *)
Ltac conjs := repeat apply conj.

Lemma upd_nat_const {A} (l : list A) i g x : nth_error l i = Some x -> upd_nat l i (fun _ => g x) = upd_nat l i g.
Proof.
  revert i. induction l as [|y l IH]; intros [|i] H; cbn in *; try discriminate.
  - injection H as ->. reflexivity.
  - f_equal. apply IH. exact H.
Qed.
Lemma setN_updN {A} (l : list A) i g x : nthN l i = Some x -> setN l i (g x) = updN l i g.
Proof. intros H. unfold setN. rewrite !updN_eq. apply upd_nat_const. rewrite <- nthN_eq. exact H. Qed.
