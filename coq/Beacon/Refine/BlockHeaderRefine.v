(* C01/C03 — common.ProcessHeader (zrnt, called with the proposer cached in the EpochsContext) against
   process_block_header (Spec).  zrnt checks in another order (slot, newer-than-latest, index range, proposer,
   parent root, slashed) and takes the expected proposer from its context; the verdict and the post-state are the
   spec's for EVERY block value (no numeric hypothesis is needed: there is no arithmetic). *)
From Coq Require Import String.
From Coq Require Import NArith ZArith Lia List Bool.
From Coq Require Import ZifyN ZifyNat ZifyBool.
From RecordUpdate Require Import RecordSet.
From V Require Import Base.U64 Base.Outcome Ssz.SszCore Beacon.Config Beacon.Schemas Beacon.State
  Beacon.Spec.Helpers Beacon.Spec.Epoch Beacon.Spec.Block Beacon.Impl.BlockOps
  Beacon.Refine.BlockLemmas Beacon.Refine.BlockEpc.
Import ListNotations RecordSetNotations.
Local Open Scope list_scope.
Local Open Scope N_scope.

Section Header.
  Variable E : Env.
  Variable f : fork.

  Theorem process_header_refines st epc blk :
    be_proposer epc = get_beacon_proposer_index E st ->
    process_header_impl E f epc st blk
    = match process_block_header E f st blk with Some s => Ok s | None => Err end.
  Proof.
    intros Hp. unfold process_header_impl, process_block_header. cbv zeta. rewrite Hp.
    destruct (get_beacon_proposer_index E st) as [p|]; cbn [of_opt bind].
    - destruct (vuint (vfield blk 0) =? slot st); cbn [check bind]; [|reflexivity].
      rewrite (N.ltb_antisym (vuint (vfield blk 0)) (h_slot (latest_block_header st))).
      destruct (negb (vuint (vfield blk 0) <=? h_slot (latest_block_header st))); cbn [check bind]; [|reflexivity].
      simpl_set.
      destruct (N.ltb_spec (vuint (vfield blk 1)) (N.of_nat (length (validators st)))) as [Hlt|Hge]; cbn [check bind].
      + destruct (vuint (vfield blk 1) =? p); cbn [check bind]; [|reflexivity].
        destruct (bytes_eqb _ _); cbn [check bind]; [|reflexivity].
        destruct (nthN (validators st) (vuint (vfield blk 1))) as [v|]; cbn [of_opt bind]; [|reflexivity].
        destruct (negb (v_slashed v)); reflexivity.
      + apply nthN_None_ge in Hge. rewrite Hge.
        destruct (vuint (vfield blk 1) =? p); [|reflexivity]. destruct (bytes_eqb _ _); reflexivity.
    - destruct (vuint (vfield blk 0) =? slot st); [|reflexivity]. destruct (_ <? _); reflexivity.
  Qed.
End Header.
