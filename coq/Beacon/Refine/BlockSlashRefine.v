(* C01 — phase0.SlashValidator (zrnt) against slash_validator (Spec).

   zrnt takes the epoch and the proposer from its EpochsContext (computed at the start of the epoch), the spec
   recomputes get_beacon_proposer_index on the state AFTER the validator has been marked exited and slashed.
   slash_proposer_stable shows the two are equal: the exit epoch given to the slashed validator lies after the current
   epoch, so its (active?, effective balance) view - all the proposer selection reads - is unchanged.

     slash_validator_refines   Impl = Spec (Ok/Err alike) under epc_ok, cfg_sane, st_bounds, |slashings| = vector length *)
From Coq Require Import String.
From Coq Require Import NArith ZArith Lia List Bool.
From Coq Require Import ZifyN ZifyNat ZifyBool.
From RecordUpdate Require Import RecordSet.
From V Require Import Base.U64 Base.Outcome Ssz.SszCore Beacon.Config Beacon.Schemas Beacon.State
  Beacon.Spec.Helpers Beacon.Spec.Epoch Beacon.Spec.Block Beacon.Impl.BlockOps
  Beacon.Refine.BlockLemmas Beacon.Refine.BlockEpc Beacon.Refine.BlockProposer Beacon.Refine.BlockExitRefine
  Beacon.Refine.RejectRules.
Import ListNotations RecordSetNotations.
Local Open Scope list_scope.
Local Open Scope N_scope.

Lemma updN_bound (l : list N) i g M M' :
  (forall x, In x l -> x <= M) -> M <= M' -> (forall x, x <= M -> g x <= M') ->
  forall x, In x (updN l i g) -> x <= M'.
Proof.
  intros Hl HM Hg x Hx. apply In_nth_error in Hx. destruct Hx as [k Hk].
  assert (Hk' : nthN (updN l i g) (N.of_nat k) = Some x) by (rewrite nthN_eq, Nat2N.id; exact Hk).
  destruct (N.eq_dec i (N.of_nat k)) as [->|Hne].
  - rewrite nthN_updN_same in Hk'. destruct (nthN l (N.of_nat k)) as [y|] eqn:Hy; [|discriminate].
    injection Hk' as <-. apply Hg, Hl. rewrite nthN_eq in Hy. eapply nth_error_In. exact Hy.
  - rewrite nthN_updN_other in Hk' by exact Hne. etransitivity; [|exact HM]. apply Hl. rewrite nthN_eq in Hk'. eapply nth_error_In. exact Hk'.
Qed.
Lemma go_increase_ok bals i d x :
  nthN bals i = Some x -> x + d < two64 -> go_increase_balance bals i d = Ok (updN bals i (fun b => b + d)).
Proof.
  intros Hx Hb. unfold go_increase_balance. rewrite Hx, add64_small by exact Hb.
  rewrite (setN_updN bals i (fun b => b + d) x Hx). reflexivity.
Qed.
Lemma go_decrease_ok bals i d x :
  nthN bals i = Some x -> go_decrease_balance bals i d = Ok (updN bals i (fun b => b - d)).
Proof.
  intros Hx. unfold go_decrease_balance. rewrite Hx.
  replace (if d <=? x then x - d else 0) with (x - d) by (destruct (N.leb_spec d x); lia).
  rewrite (setN_updN bals i (fun b => b - d) x Hx). reflexivity.
Qed.
Lemma nthN_bound (l : list N) i x M : (forall y, In y l -> y <= M) -> nthN l i = Some x -> x <= M.
Proof. intros H Hx. apply H. rewrite nthN_eq in Hx. eapply nth_error_In. exact Hx. Qed.

Section Slash.
  Variable E : Env.
  Variable f : fork.
  Let c := cfg E.

  Lemma set_validators_id (st : BeaconState) : st <| validators := validators st |> = st.
  Proof. destruct st; reflexivity. Qed.

  Lemma exit_queue_epoch_gt st : get_current_epoch E st < exit_queue_epoch E st.
  Proof.
    unfold exit_queue_epoch. cbv zeta.
    match goal with |- _ < (if _ then ?a + 1 else ?a) => assert (get_current_epoch E st < a) end.
    - eapply N.lt_le_trans; [|apply BlockExitRefine.maxl_ge_d]. unfold compute_activation_exit_epoch. lia.
    - destruct (_ <=? _); lia.
  Qed.

  (* what initiate_validator_exit changes: one registry entry, keeping its proposer-selection view *)
  Lemma initiate_exit_frame st idx st1 :
    get_current_epoch E st < FAR_FUTURE_EPOCH ->
    initiate_validator_exit E st idx = Some st1 ->
    exists g,
      st1 = st <| validators := updN (validators st) idx g |>
      /\ forall v, nthN (validators st) idx = Some v ->
           pview (get_current_epoch E st) (g v) = pview (get_current_epoch E st) v
           /\ v_effective_balance (g v) = v_effective_balance v /\ v_slashed (g v) = v_slashed v.
  Proof.
    intros Hce H. destruct (nthN (validators st) idx) as [v|] eqn:Hv.
    - destruct (N.eq_dec (v_exit_epoch v) FAR_FUTURE_EPOCH) as [Hfar|Hnf].
      + rewrite (initiate_validator_exit_fresh E st idx v Hv Hfar) in H. apply some_inj in H.
        eexists. split; [symmetry; exact H|].
        intros w Hw. injection Hw as <-. split; [|split; reflexivity].
        unfold pview. f_equal. unfold is_active_validator. simpl_set. rewrite Hfar.
        pose proof (exit_queue_epoch_gt st) as Hq.
        assert (H1 : (get_current_epoch E st <? exit_queue_epoch E st) = true) by (apply N.ltb_lt; exact Hq).
        assert (H2 : (get_current_epoch E st <? FAR_FUTURE_EPOCH) = true) by (apply N.ltb_lt; exact Hce).
        rewrite H1, H2. reflexivity.
      + rewrite (initiate_validator_exit_already E st idx v Hv Hnf) in H. apply some_inj in H. subst st1.
        exists (fun v => v). split.
        * rewrite updN_eq. rewrite (upd_nat_id (validators st) (N.to_nat idx) (fun v => v)) by reflexivity.
          symmetry. apply set_validators_id.
        * intros w _. split; [|split]; reflexivity.
    - unfold initiate_validator_exit in H. rewrite Hv in H. discriminate.
  Qed.

  Lemma far_lt_bounds st : cfg_sane E -> st_bounds E st -> get_current_epoch E st < FAR_FUTURE_EPOCH.
  Proof.
    intros Hc Hb. pose proof (current_epoch_lt E st Hc Hb). change (2 ^ 40) with 1099511627776 in H. unfold FAR_FUTURE_EPOCH. lia.
  Qed.

  (* the proposer the spec recomputes after marking the validator is the one computed before *)
  Lemma slash_proposer_stable st idx g B S :
    (forall v, nthN (validators st) idx = Some v -> pview (get_current_epoch E st) (g v) = pview (get_current_epoch E st) v) ->
    get_beacon_proposer_index E (st <| validators := updN (validators st) idx g |> <| slashings := S |> <| balances := B |>)
    = get_beacon_proposer_index E st.
  Proof.
    intros Hg. symmetry. apply proposer_frame; [reflexivity|reflexivity|].
    simpl_set. symmetry. apply pview_updN. exact Hg.
  Qed.

  Theorem slash_validator_refines st epc idx wb :
    cfg_sane E -> epc_ok E st epc -> st_bounds E st ->
    N.of_nat (length (slashings st)) = EPOCHS_PER_SLASHINGS_VECTOR c ->
    (forall w, wb = Some w -> w < N.of_nat (length (validators st))) ->
    slash_validator_impl E f epc st idx wb
    = match slash_validator E f st idx wb with Some s => Ok s | None => Err end.
  Proof.
    intros Hc Hepc Hb Hsl Hwb. unfold slash_validator_impl, slash_validator. cbv zeta. fold c.
    rewrite (initiate_validator_exit_refines E st epc idx Hc Hepc Hb).
    destruct (initiate_validator_exit E st idx) as [st1|] eqn:Hx; [|reflexivity]. cbn [bind].
    destruct (initiate_exit_frame st idx st1 (far_lt_bounds st Hc Hb) Hx) as (g & -> & Hg).
    simpl_set.
    destruct (nthN (updN (validators st) idx g) idx) as [v|] eqn:Hv; [|reflexivity]. cbn [of_opt bind].
    rewrite nthN_updN_same in Hv. destruct (nthN (validators st) idx) as [v0|] eqn:Hv0; [|discriminate].
    cbn [option_map] in Hv. injection Hv as <-. destruct (Hg v0 eq_refl) as (Hpv & Heff & _).
    rewrite (eo_epoch E st epc Hepc).
    pose proof (current_epoch_lt E st Hc Hb) as Hce. pose proof (cs_slashvec_hi E Hc) as Hvh. pose proof (cs_slashvec_pos E Hc) as Hvp.
    fold c in Hvh, Hvp. change (2 ^ 40) with 1099511627776 in *.
    rewrite add64_small by (unfold two64; lia).
    (* the slashings vector *)
    assert (Hvz : (EPOCHS_PER_SLASHINGS_VECTOR c =? 0) = false) by (apply N.eqb_neq; lia). rewrite Hvz. cbn [bind]. simpl_set.
    set (si := get_current_epoch E st mod EPOCHS_PER_SLASHINGS_VECTOR c).
    assert (Hsi : si < N.of_nat (length (slashings st))) by (rewrite Hsl; apply N.mod_lt; lia).
    destruct (nthN_lt_Some _ _ Hsi) as [prev Hprev]. rewrite Hprev. cbn [of_opt bind].
    assert (Heb : v_effective_balance (g v0) <= 2 ^ 50).
    { rewrite Heff. etransitivity; [apply (sb_eff E st Hb)|apply (cs_maxeb_hi E Hc)]. rewrite nthN_eq in Hv0. eapply nth_error_In. exact Hv0. }
    assert (Hprevb : prev < 2 ^ 63) by (apply (sb_slashings E st Hb); rewrite nthN_eq in Hprev; eapply nth_error_In; exact Hprev).
    change (2 ^ 50) with 1125899906842624 in *. change (2 ^ 63) with 9223372036854775808 in *.
    rewrite add64_small by (unfold two64; lia).
    (* penalty *)
    assert (Hmq : 0 < min_slashing_penalty_quotient E f).
    { unfold min_slashing_penalty_quotient. destruct f; first [apply (cs_msp0 E Hc)|apply (cs_msp1 E Hc)|apply (cs_msp2 E Hc)]. }
    rewrite div64_ok by exact Hmq. cbn [bind].
    assert (Hidx : idx < N.of_nat (length (balances st))).
    { rewrite (sb_lens E st Hb). eapply nthN_Some_lt. exact Hv0. }
    destruct (nthN_lt_Some _ _ Hidx) as [bi Hbi].
    rewrite (go_decrease_ok _ _ _ bi Hbi). cbn [bind].
    (* proposer *)
    set (eff := v_effective_balance (g v0)) in *.
    set (Gs := fun v : Validator => v <| v_slashed := true |>
                    <| v_withdrawable_epoch := N.max (v_withdrawable_epoch v) (get_current_epoch E st + EPOCHS_PER_SLASHINGS_VECTOR c) |>).
    match goal with |- context [setN (updN (validators st) idx g) idx ?x] =>
      replace (setN (updN (validators st) idx g) idx x) with (updN (updN (validators st) idx g) idx Gs) end.
    2:{ symmetry. erewrite <- (setN_updN _ idx Gs (g v0)) by (rewrite nthN_updN_same, Hv0; reflexivity).
        unfold Gs.
        replace (if v_withdrawable_epoch (g v0) <? get_current_epoch E st + EPOCHS_PER_SLASHINGS_VECTOR c
                 then get_current_epoch E st + EPOCHS_PER_SLASHINGS_VECTOR c else v_withdrawable_epoch (g v0))
          with (N.max (v_withdrawable_epoch (g v0)) (get_current_epoch E st + EPOCHS_PER_SLASHINGS_VECTOR c))
          by (destruct (N.ltb_spec (v_withdrawable_epoch (g v0)) (get_current_epoch E st + EPOCHS_PER_SLASHINGS_VECTOR c)); lia).
        reflexivity. }
    rewrite updN_updN_same.
    rewrite (setN_updN (slashings st) si (fun s => s + eff) prev Hprev).
    unfold decrease_balance, increase_balance. simpl_set.
    rewrite (slash_proposer_stable st idx (fun x => Gs (g x))).
    2:{ intros w Hw. rewrite Hv0 in Hw. injection Hw as <-. rewrite <- Hpv. unfold Gs, pview, is_active_validator. simpl_set. reflexivity. }
    rewrite <- (eo_proposer E st epc Hepc).
    destruct (be_proposer epc) as [p|] eqn:Hp; [|reflexivity]. cbn [of_opt bind].
    rewrite (eo_proposer E st epc Hepc) in Hp. pose proof (proposer_in_range E st p Hp) as Hpr.
    rewrite div64_ok by (apply (cs_wb_pos E Hc)). cbn [bind].
    set (wr := eff / WHISTLEBLOWER_REWARD_QUOTIENT c).
    assert (Hwr : wr <= eff) by (apply Ndiv_le).
    set (ps := match f with Phase0 => wr / PROPOSER_REWARD_QUOTIENT c | _ => wr * PROPOSER_WEIGHT / WEIGHT_DENOMINATOR end).
    assert (Hps : ps <= wr).
    { unfold ps. destruct f; try apply Ndiv_le; change PROPOSER_WEIGHT with 8; change WEIGHT_DENOMINATOR with 64;
        apply N.div_le_upper_bound; lia. }
    assert (Hshare : calc_proposer_share E f wr = Ok ps).
    { unfold calc_proposer_share, ps. fold c. destruct f; try (rewrite div64_ok by (apply (cs_prq_pos E Hc)); reflexivity);
        rewrite mul64_small by (change PROPOSER_WEIGHT with 8; unfold two64; lia); reflexivity. }
    rewrite Hshare. cbn [bind].
    set (pen := eff / min_slashing_penalty_quotient E f).
    set (B1 := updN (balances st) idx (fun b => b - pen)).
    assert (HB0 : forall x, In x (balances st) -> x <= 9223372036854775808).
    { intros x Hxx. apply (sb_bal E st Hb) in Hxx. change (2 ^ 63) with 9223372036854775808 in Hxx. lia. }
    assert (HB1 : forall x, In x B1 -> x <= 9223372036854775808).
    { apply (updN_bound (balances st) idx _ 9223372036854775808); [exact HB0|lia|intros; lia]. }
    assert (Hp1 : p < N.of_nat (length B1)) by (unfold B1; rewrite updN_length, (sb_lens E st Hb); exact Hpr).
    destruct (nthN_lt_Some _ _ Hp1) as [x1 Hx1]. pose proof (nthN_bound _ _ _ _ HB1 Hx1) as Hx1b.
    rewrite (go_increase_ok B1 p ps x1 Hx1) by (unfold two64; lia). cbn [bind].
    set (B2 := updN B1 p (fun b => b + ps)).
    assert (HB2 : forall x, In x B2 -> x <= 9223372036854775808 + 1125899906842624).
    { apply (updN_bound B1 p _ 9223372036854775808); [exact HB1|lia|intros; lia]. }
    set (wbi := match wb with Some w => w | None => p end).
    assert (Hw2 : wbi < N.of_nat (length B2)).
    { unfold B2, B1. rewrite !updN_length, (sb_lens E st Hb). unfold wbi. destruct wb as [w|]; [apply Hwb; reflexivity|exact Hpr]. }
    destruct (nthN_lt_Some _ _ Hw2) as [x2 Hx2]. pose proof (nthN_bound _ _ _ _ HB2 Hx2) as Hx2b.
    rewrite sub64_ge by exact Hps.
    rewrite (go_increase_ok B2 wbi (wr - ps) x2 Hx2) by (unfold two64; lia). cbn [bind].
    reflexivity.
  Qed.
End Slash.
