(* C02: zrnt's sync-committee rotation (Impl/SyncRotation.v: ProcessSyncCommitteeUpdates, ComputeNextSyncCommittee,
   ComputeSyncCommitteeIndices, IndicesToSyncCommittee, GetSeed) equals the specification's
   process_sync_committee_updates / get_next_sync_committee(_indices).

   zrnt's sampling loop has no iteration cap; the Spec transliteration bounds the loop by PROPOSER_FUEL (40000)
   candidates.  The loop lemma is exact candidate by candidate: with the same fuel, the model returns the Spec's
   committee, and is still looping (OutOfFuel) exactly where the Spec's fuel runs out. *)
From Coq Require Import NArith ZArith List Lia Bool.
From Coq Require Import ZifyN ZifyNat ZifyBool.
From RecordUpdate Require Import RecordSet.
From V Require Import Base.U64 Base.Outcome Ssz.SszCore Beacon.Config Beacon.State Beacon.Spec.Helpers Beacon.Spec.Epoch
  Beacon.Proofs.ListFacts Beacon.Proofs.CommitteePartition Beacon.Proofs.ShuffleBridge Beacon.Impl.Shuffling Beacon.Impl.SyncRotation
  Beacon.Refine.ShufflingRefine Beacon.Refine.ProposersRefine.
From V Require Shuffle.ShuffleModel Shuffle.ShuffleArith Shuffle.ShuffleIndexProofs.
Import ListNotations RecordSetNotations.
Local Open Scope N_scope.
Ltac Zify.zify_post_hook ::= Z.div_mod_to_equations.

(* ---------- the sampling loop ---------- *)
Section SyncLoop.
  Variable E : Env.
  Let c := cfg E.
  Variable st : BeaconState.
  Let vals := validators st.
  Variable idx : list N.          (* the next epoch's active validator indices *)
  Variable seed : bytes.
  Let n := N.of_nat (length idx).

  Hypothesis Hok : proposer_params_ok E st idx.   (* rounds <= 255, hash returns bytes, |idx| <= 2^40, idx inside the
                                                     registry, MAX_EFFECTIVE_BALANCE*255 and effective*255 < 2^64 *)
  Hypothesis Hn : 0 < n.

  Definition s_cand_at (I : N) : N := nth (N.to_nat (sigma E idx seed (I mod n))) idx 0.
  Definition s_accept_at (I : N) : bool :=
    MAX_EFFECTIVE_BALANCE c * nth (N.to_nat (I mod 32)) (Hash E (seed ++ uint_to_bytes 8 (I / 32))) 0
    <=? eff_bal st (s_cand_at I) * 255.

  Lemma s_sigma_lt I : sigma E idx seed (I mod n) < n.
  Proof. apply sigma_range_c06. apply N.mod_lt. lia. Qed.

  Lemma sync_spec_step k I need :
    sync_loop E (S k) st idx seed I (S need) =
    if s_accept_at I
    then match sync_loop E k st idx seed (I + 1) need with Some rest => Some (s_cand_at I :: rest) | None => None end
    else sync_loop E k st idx seed (I + 1) (S need).
  Proof.
    cbn [sync_loop]. fold n. unfold Helpers.compute_shuffled_index.
    replace (I mod n <? n) with true by (symmetry; apply N.ltb_lt; apply N.mod_lt; lia).
    fold c. change (shuffle_rounds E (N.to_nat (SHUFFLE_ROUND_COUNT c)) 0 (I mod n) n seed) with (sigma E idx seed (I mod n)).
    rewrite (nthN_nth idx _ 0) by (apply s_sigma_lt). reflexivity.
  Qed.

  (* the cached hash is the hash of the current block of 32 candidates, once past the first candidate of a block *)
  Definition h_inv (I : N) (h : bytes) : Prop := I mod 32 <> 0 -> h = Hash E (seed ++ le8 (I / 32)).

  Lemma sync_impl_step k I h acc : h_inv I h -> I + 1 < two64 ->
    N.of_nat (length acc) < SYNC_COMMITTEE_SIZE c ->
    sync_indices_loop E (S k) vals idx seed h I acc =
    sync_indices_loop E k vals idx seed (Hash E (seed ++ le8 (I / 32))) (I + 1)
                      (if s_accept_at I then acc ++ [s_cand_at I] else acc).
  Proof.
    intros Hh HI Hlen. destruct Hok as [pp_rounds0 pp_bytes0 pp_size0 pp_active0 pp_max0 pp_eb0].
    cbn [sync_indices_loop]. fold c. fold n.
    replace (SYNC_COMMITTEE_SIZE c <=? N.of_nat (length acc)) with false by (symmetry; apply N.leb_gt; exact Hlen).
    assert (Hw : ShuffleModel.wrap8 (SHUFFLE_ROUND_COUNT c) = SHUFFLE_ROUND_COUNT c)
      by (unfold ShuffleModel.wrap8, c; apply N.mod_small; lia).
    rewrite Hw.
    assert (Hperm : ShuffleModel.permute_index (Hash E) seed (SHUFFLE_ROUND_COUNT c) (I mod n) n
                    = Ok (sigma E idx seed (I mod n))).
    { apply (sigma_is_go_permute_index E idx seed (I mod n)); try assumption. apply N.mod_lt. lia. }
    rewrite Hperm. cbn [bind]. pose proof (s_sigma_lt I) as Hs.
    rewrite (nth_error_nth' idx 0) by (unfold n in *; lia). fold (s_cand_at I).
    assert (Hcand : s_cand_at I < N.of_nat (length vals)).
    { rewrite Forall_forall in pp_active0. apply pp_active0. unfold s_cand_at. apply nth_In. unfold n in *. lia. }
    unfold s_accept_at, eff_bal. fold vals.
    unfold nthN. replace (s_cand_at I <? N.of_nat (length vals)) with true by (symmetry; apply N.ltb_lt; exact Hcand).
    destruct (nth_error vals (N.to_nat (s_cand_at I))) as [v|] eqn:Ev; [|apply nth_error_None in Ev; lia].
    assert (Hv : v_effective_balance v * 255 < two64).
    { rewrite Forall_forall in pp_eb0. apply pp_eb0. eapply nth_error_In. exact Ev. }
    assert (Hh' : (if I mod 32 =? 0 then Hash E (seed ++ le8 (I / 32)) else h) = Hash E (seed ++ le8 (I / 32))).
    { destruct (N.eqb_spec (I mod 32) 0) as [_|Hne]; [reflexivity|]. apply Hh. exact Hne. }
    rewrite Hh'. change (uint_to_bytes 8 (I / 32)) with (le8 (I / 32)).
    set (rb := nth (N.to_nat (I mod 32)) (Hash E (seed ++ le8 (I / 32))) 0).
    assert (Hrb : rb < 256) by (apply (ShuffleArith.byte_at_lt _ (N.to_nat (I mod 32))); apply pp_bytes0).
    unfold c in *. unfold mul64. rewrite !wrap64_small by nia.
    unfold add64. rewrite wrap64_small by exact HI. reflexivity.
  Qed.

  Lemma h_inv_next I : h_inv (I + 1) (Hash E (seed ++ le8 (I / 32))).
  Proof. intros Hne. f_equal. f_equal. f_equal. lia. Qed.

  (* candidate by candidate, with the same fuel: same committee, or both still looping *)
  Lemma sync_loop_refines : forall k I h acc need,
    h_inv I h -> I + N.of_nat k < two64 ->
    (length acc + need = N.to_nat (SYNC_COMMITTEE_SIZE c))%nat ->
    sync_indices_loop E k vals idx seed h I acc =
    match sync_loop E k st idx seed I need with
    | Some rest => Ok (acc ++ rest)
    | None => OutOfFuel
    end.
  Proof.
    induction k as [|k IH]; intros I h acc need Hh HI Hlen.
    - destruct need as [|need].
      + cbn [sync_indices_loop sync_loop]. fold c.
        replace (SYNC_COMMITTEE_SIZE c <=? N.of_nat (length acc)) with true by (symmetry; apply N.leb_le; lia).
        rewrite app_nil_r. reflexivity.
      + cbn [sync_indices_loop sync_loop]. fold c.
        replace (SYNC_COMMITTEE_SIZE c <=? N.of_nat (length acc)) with false by (symmetry; apply N.leb_gt; lia).
        reflexivity.
    - destruct need as [|need].
      + cbn [sync_indices_loop sync_loop]. fold c.
        replace (SYNC_COMMITTEE_SIZE c <=? N.of_nat (length acc)) with true by (symmetry; apply N.leb_le; lia).
        rewrite app_nil_r. reflexivity.
      + rewrite sync_impl_step by (try assumption; lia). rewrite sync_spec_step.
        destruct (s_accept_at I).
        * rewrite (IH (I + 1) _ (acc ++ [s_cand_at I]) need (h_inv_next I)) by (try rewrite app_length; cbn [length]; lia).
          destruct (sync_loop E k st idx seed (I + 1) need) as [rest|]; [|reflexivity].
          rewrite <- app_assoc. reflexivity.
        * apply (IH (I + 1) _ acc (S need) (h_inv_next I)); lia.
  Qed.

  (* more fuel does not change a finished run *)
  Lemma sync_indices_loop_mono : forall a b h I acc r,
    sync_indices_loop E a vals idx seed h I acc = Ok r -> sync_indices_loop E (a + b) vals idx seed h I acc = Ok r.
  Proof.
    induction a as [|a IH]; intros b h I acc r Hr.
    - cbn [sync_indices_loop] in Hr. destruct b as [|b]; cbn [plus sync_indices_loop].
      + exact Hr.
      + destruct (SYNC_COMMITTEE_SIZE (cfg E) <=? N.of_nat (length acc)); [exact Hr|discriminate].
    - cbn [plus sync_indices_loop] in *.
      destruct (SYNC_COMMITTEE_SIZE (cfg E) <=? N.of_nat (length acc)); [exact Hr|].
      destruct (ShuffleModel.permute_index _ _ _ _ _) as [sh| | | |]; cbn [bind] in *; try discriminate.
      destruct (nth_error idx (N.to_nat sh)); [|discriminate].
      destruct (nthN vals _); [|discriminate].
      apply IH. exact Hr.
  Qed.
End SyncLoop.

(* ---------- GetSeed ---------- *)
Lemma get_seed_go_refines E st epoch dt :
  EPOCHS_PER_HISTORICAL_VECTOR (cfg E) <> 0 ->
  N.of_nat (length (randao_mixes st)) = EPOCHS_PER_HISTORICAL_VECTOR (cfg E) ->
  epoch + EPOCHS_PER_HISTORICAL_VECTOR (cfg E) < two64 ->
  MIN_SEED_LOOKAHEAD (cfg E) + 1 <= epoch + EPOCHS_PER_HISTORICAL_VECTOR (cfg E) ->
  get_seed_go E st epoch dt = Ok (get_seed E st epoch dt).
Proof.
  intros Hv Hlen Hlt Hge. unfold get_seed_go, get_seed, get_randao_mix.
  replace (EPOCHS_PER_HISTORICAL_VECTOR (cfg E) =? 0) with false by (symmetry; apply N.eqb_neq; exact Hv).
  unfold add64. rewrite wrap64_small by exact Hlt.
  rewrite (sub64_ge (epoch + EPOCHS_PER_HISTORICAL_VECTOR (cfg E)) (MIN_SEED_LOOKAHEAD (cfg E))) by lia.
  rewrite sub64_ge by lia.
  set (j := (epoch + EPOCHS_PER_HISTORICAL_VECTOR (cfg E) - MIN_SEED_LOOKAHEAD (cfg E) - 1) mod EPOCHS_PER_HISTORICAL_VECTOR (cfg E)).
  assert (Hj : j < N.of_nat (length (randao_mixes st))) by (rewrite Hlen; apply N.mod_lt; exact Hv).
  unfold nthN. replace (j <? N.of_nat (length (randao_mixes st))) with true by (symmetry; apply N.ltb_lt; exact Hj).
  destruct (nth_error (randao_mixes st) (N.to_nat j)) as [m|] eqn:Em; [reflexivity|].
  apply nth_error_None in Em. lia.
Qed.

(* ---------- the whole sub-transition ---------- *)
Section SyncRotationRefine.
  Variable E : Env.
  Variable pubkey_ok : bytes -> bool.
  Let c := cfg E.

  Record SyncHyps (st : BeaconState) (epc : SyncEpc) : Prop := mkSyncHyps {
    sh_epoch : sy_next_epoch epc = get_current_epoch E st + 1;                           (* C08: epc.NextEpoch is fresh *)
    sh_active : sy_next_active epc = get_active_validator_indices st (get_current_epoch E st + 1);
    sh_pubkeys : forall i v, nthN (validators st) i = Some v -> sy_pubkey_of epc i = Some (v_pubkey v);   (* C16 *)
    sh_pk_ok : forall v, In v (validators st) -> pubkey_ok (v_pubkey v) = true;          (* checked at deposit time *)
    sh_spe : SLOTS_PER_EPOCH c <> 0;
    sh_period : EPOCHS_PER_SYNC_COMMITTEE_PERIOD c <> 0;
    sh_size : SYNC_COMMITTEE_SIZE c <> 0;
    sh_ce : get_current_epoch E st + 1 < two64;
    sh_vec : EPOCHS_PER_HISTORICAL_VECTOR c <> 0;
    sh_mixes : N.of_nat (length (randao_mixes st)) = EPOCHS_PER_HISTORICAL_VECTOR c;
    sh_seed_hi : get_current_epoch E st + 1 + EPOCHS_PER_HISTORICAL_VECTOR c < two64;
    sh_seed_lo : MIN_SEED_LOOKAHEAD c + 1 <= get_current_epoch E st + 1 + EPOCHS_PER_HISTORICAL_VECTOR c;
    sh_rounds : SHUFFLE_ROUND_COUNT c <= 255;
    sh_bytes : forall m, ShuffleArith.bytes_ok (Hash E m);
    sh_limit : N.of_nat (length (validators st)) <= ShuffleIndexProofs.spec_limit;
    sh_max64 : MAX_EFFECTIVE_BALANCE c * 255 < two64;
    sh_eb64 : Forall (fun v => v_effective_balance v * 255 < two64) (validators st) }.

  Lemma active_length_le st e : (length (get_active_validator_indices st e) <= length (validators st))%nat.
  Proof.
    unfold get_active_validator_indices. rewrite map_length.
    assert (Hf : forall {A} (p : A -> bool) (l : list A), (length (filter p l) <= length l)%nat).
    { intros A p l. induction l as [|x l IH]; cbn [filter length]; [lia|]. destruct (p x); cbn [length]; lia. }
    etransitivity; [apply Hf|]. rewrite combine_length. unfold indices. rewrite seqN_length. lia.
  Qed.

  Lemma sync_params_ok st epc : SyncHyps st epc ->
    proposer_params_ok E st (get_active_validator_indices st (get_current_epoch E st + 1)).
  Proof.
    intros H. constructor; try apply H.
    - pose proof (active_length_le st (get_current_epoch E st + 1)). pose proof (sh_limit _ _ H). unfold c in *. lia.
    - apply active_indices_in_registry.
  Qed.

  (* ComputeSyncCommitteeIndices on the epochs context's next epoch = get_next_sync_committee_indices;
     with the Spec's own fuel the two agree also on "not finished" *)
  Theorem sync_committee_indices_refines st epc : SyncHyps st epc ->
    compute_sync_committee_indices E PROPOSER_FUEL st (sy_next_epoch epc) (sy_next_active epc) =
    match get_next_sync_committee_indices E st with
    | Some r => Ok r
    | None => if N.of_nat (length (get_active_validator_indices st (get_current_epoch E st + 1))) =? 0 then Err else OutOfFuel
    end.
  Proof.
    intros H. pose proof (sync_params_ok st epc H) as Hpp.
    unfold compute_sync_committee_indices, get_next_sync_committee_indices. fold c.
    rewrite (sh_epoch _ _ H), (sh_active _ _ H).
    set (ce := get_current_epoch E st) in *.
    set (active := get_active_validator_indices st (ce + 1)) in *.
    destruct (N.eqb_spec (N.of_nat (length active)) 0) as [Hz|Hnz]; cbn [negb]; [reflexivity|].
    replace (SLOTS_PER_EPOCH c =? 0) with false by (symmetry; apply N.eqb_neq; apply H).
    change (slot st / SLOTS_PER_EPOCH c) with ce.
    pose proof (sh_ce _ _ H) as Hce. fold ce in Hce.
    unfold add64. rewrite wrap64_small by exact Hce. rewrite N.ltb_irrefl.
    rewrite (get_seed_go_refines E st (ce + 1) DOMAIN_SYNC_COMMITTEE (sh_vec _ _ H) (sh_mixes _ _ H) (sh_seed_hi _ _ H) (sh_seed_lo _ _ H)).
    cbn [bind].
    rewrite (sync_loop_refines E st active _ Hpp ltac:(lia) PROPOSER_FUEL 0 (repeat 0 32) [] (N.to_nat (SYNC_COMMITTEE_SIZE c))).
    - fold ce. fold active. destruct (sync_loop E PROPOSER_FUEL st active _ 0 _); reflexivity.
    - intros Hne. exfalso. apply Hne. reflexivity.
    - unfold PROPOSER_FUEL, two64. lia.
    - reflexivity.
  Qed.

  (* IndicesToSyncCommittee: the cache's keys are the registry's *)
  Lemma indices_to_pubkeys_refines st epc idx pks : SyncHyps st epc ->
    all_some (map (fun i => option_map v_pubkey (nthN (validators st) i)) idx) = Some pks ->
    indices_to_pubkeys pubkey_ok (sy_pubkey_of epc) idx = Ok pks.
  Proof.
    intros H. revert pks. induction idx as [|i idx IH]; intros pks Hall; cbn [map all_some] in Hall.
    - inversion Hall. reflexivity.
    - destruct (nthN (validators st) i) as [v|] eqn:Ev; cbn [option_map] in Hall; [|discriminate].
      destruct (all_some _) as [r|] eqn:Er; [|discriminate]. inversion Hall; subst pks.
      cbn [indices_to_pubkeys]. rewrite (sh_pubkeys _ _ H i v Ev).
      rewrite (sh_pk_ok _ _ H v) by (apply (ListFacts.lf_nthN_In _ i); exact Ev).
      rewrite (IH r eq_refl). reflexivity.
  Qed.

  Lemma sync_loop_length st active seed : forall k I need r,
    sync_loop E k st active seed I need = Some r -> length r = need.
  Proof.
    intros k. induction k as [|k IH]; intros I need r Hr.
    - destruct need; cbn [sync_loop] in Hr; [inversion Hr; reflexivity|discriminate].
    - destruct need as [|need]; cbn [sync_loop] in Hr; [inversion Hr; reflexivity|].
      destruct (compute_shuffled_index E _ _ seed); [|discriminate].
      destruct (nthN active _); [|discriminate].
      destruct (_ <=? _).
      + destruct (sync_loop E k st active seed (I + 1) need) as [rest|] eqn:Er; [|discriminate].
        inversion Hr. cbn [length]. f_equal. apply (IH (I + 1) need rest Er).
      + apply (IH (I + 1) (S need) r Hr).
  Qed.

  Lemma sync_loop_in st active seed : forall k I need r,
    sync_loop E k st active seed I need = Some r -> forall i, In i r -> In i active.
  Proof.
    induction k as [|k IH]; intros I need r Hr i Hi.
    - destruct need; cbn [sync_loop] in Hr; [inversion Hr; subst; destruct Hi|discriminate].
    - destruct need as [|need]; cbn [sync_loop] in Hr; [inversion Hr; subst; destruct Hi|].
      destruct (compute_shuffled_index E _ _ _) as [j|]; [|discriminate].
      destruct (nthN active j) as [cand|] eqn:Ec; [|discriminate].
      destruct (_ <=? _).
      + destruct (sync_loop E k st active _ (I + 1) need) as [rest|] eqn:Er; [|discriminate].
        inversion Hr; subst r. destruct Hi as [<-|Hi]; [apply (ListFacts.lf_nthN_In _ j); exact Ec|].
        apply (IH (I + 1) need rest Er i Hi).
      + apply (IH (I + 1) (S need) r Hr i Hi).
  Qed.

  Lemma keys_all_some st idx : (forall i, In i idx -> i < N.of_nat (length (validators st))) ->
    exists pks, all_some (map (fun i => option_map v_pubkey (nthN (validators st) i)) idx) = Some pks.
  Proof.
    induction idx as [|i idx IH]; intros Hin; cbn [map all_some]; [eexists; reflexivity|].
    destruct (ListFacts.lf_nthN_lt_Some (validators st) i (Hin i (or_introl eq_refl))) as [v Ev]. rewrite Ev. cbn [option_map].
    destruct IH as [r Hr]; [intros j Hj; apply Hin; right; exact Hj|]. rewrite Hr. eexists; reflexivity.
  Qed.

  Theorem next_sync_committee_refines st epc sc : SyncHyps st epc ->
    get_next_sync_committee E st = Some sc ->
    compute_next_sync_committee E pubkey_ok PROPOSER_FUEL epc st = Ok sc.
  Proof.
    intros H Hs. unfold get_next_sync_committee in Hs. unfold compute_next_sync_committee.
    rewrite (sync_committee_indices_refines st epc H).
    destruct (get_next_sync_committee_indices E st) as [idx|] eqn:Ei; [|discriminate]. cbn [bind].
    destruct (all_some _) as [pks|] eqn:Ep; [|discriminate]. inversion Hs; subst sc.
    unfold indices_to_sync_committee. rewrite (indices_to_pubkeys_refines st epc idx pks H Ep). cbn [bind].
    destruct pks as [|pk pks]; [|reflexivity]. exfalso.
    (* an empty key list would mean SYNC_COMMITTEE_SIZE = 0 *)
    unfold get_next_sync_committee_indices in Ei.
    destruct (negb _); [|discriminate].
    apply sync_loop_length in Ei.
    destruct idx as [|i idx]; [|cbn [map all_some] in Ep; destruct (option_map _ _); [destruct (all_some _); discriminate|discriminate]].
    cbn [length] in Ei. pose proof (sh_size _ _ H). unfold c in *. lia.
  Qed.

  (* zrnt examines as many candidates as it needs: any fuel at least the Spec's bound *)
  Theorem next_sync_committee_refines_ge st epc sc fuel : SyncHyps st epc -> (PROPOSER_FUEL <= fuel)%nat ->
    get_next_sync_committee E st = Some sc ->
    compute_next_sync_committee E pubkey_ok fuel epc st = Ok sc.
  Proof.
    intros H Hf Hs. pose proof (next_sync_committee_refines st epc sc H Hs) as R.
    replace fuel with (PROPOSER_FUEL + (fuel - PROPOSER_FUEL))%nat by lia.
    revert R. unfold compute_next_sync_committee, compute_sync_committee_indices.
    destruct (N.of_nat (length (sy_next_active epc)) =? 0); [discriminate|].
    destruct (SLOTS_PER_EPOCH (cfg E) =? 0); [discriminate|].
    destruct (_ <? _); [discriminate|].
    destruct (get_seed_go E st _ _) as [seed| | | |]; cbn [bind]; try discriminate.
    destruct (sync_indices_loop E PROPOSER_FUEL _ _ seed _ 0 []) as [idx| | | |] eqn:Ea; cbn [bind]; try discriminate.
    rewrite (sync_indices_loop_mono E st _ seed PROPOSER_FUEL _ _ _ _ _ Ea). cbn [bind]. exact (fun h => h).
  Qed.

  (* ===== ProcessSyncCommitteeUpdates = process_sync_committee_updates ===== *)
  Theorem sync_rotation_refines_fuel st epc st' : SyncHyps st epc ->
    Epoch.process_sync_committee_updates E st = Some st' ->
    SyncRotation.process_sync_committee_updates E pubkey_ok PROPOSER_FUEL epc st = Ok st'.
  Proof.
    intros H Hs. unfold Epoch.process_sync_committee_updates in Hs. unfold SyncRotation.process_sync_committee_updates.
    unfold c in *. replace (EPOCHS_PER_SYNC_COMMITTEE_PERIOD (cfg E) =? 0) with false by (symmetry; apply N.eqb_neq; apply H).
    rewrite (sh_epoch _ _ H).
    destruct ((get_current_epoch E st + 1) mod EPOCHS_PER_SYNC_COMMITTEE_PERIOD (cfg E) =? 0); [|inversion Hs; reflexivity].
    destruct (get_next_sync_committee E st) as [sc|] eqn:Esc; [|discriminate].
    rewrite (next_sync_committee_refines st epc sc H Esc). cbn [bind]. inversion Hs. reflexivity.
  Qed.

  (* any run that lets zrnt examine at least as many candidates as the Spec's bound *)
  Lemma process_sync_mono st epc a b r :
    SyncRotation.process_sync_committee_updates E pubkey_ok a epc st = Ok r ->
    SyncRotation.process_sync_committee_updates E pubkey_ok (a + b) epc st = Ok r.
  Proof.
    unfold SyncRotation.process_sync_committee_updates, compute_next_sync_committee, compute_sync_committee_indices.
    destruct (EPOCHS_PER_SYNC_COMMITTEE_PERIOD (cfg E) =? 0); [discriminate|].
    destruct (_ mod _ =? 0); [|exact (fun h => h)].
    destruct (N.of_nat (length (sy_next_active epc)) =? 0); [discriminate|].
    destruct (SLOTS_PER_EPOCH (cfg E) =? 0); [discriminate|].
    destruct (_ <? _); [discriminate|].
    destruct (get_seed_go E st _ _) as [seed| | | |]; cbn [bind]; try discriminate.
    destruct (sync_indices_loop E a _ _ seed _ 0 []) as [idx| | | |] eqn:Ea; cbn [bind]; try discriminate.
    rewrite (sync_indices_loop_mono E st _ seed a b _ _ _ _ Ea). cbn [bind]. exact (fun h => h).
  Qed.

  Theorem sync_rotation_refines st epc st' fuel : SyncHyps st epc -> (PROPOSER_FUEL <= fuel)%nat ->
    Epoch.process_sync_committee_updates E st = Some st' ->
    SyncRotation.process_sync_committee_updates E pubkey_ok fuel epc st = Ok st'.
  Proof.
    intros H Hf Hs. replace fuel with (PROPOSER_FUEL + (fuel - PROPOSER_FUEL))%nat by lia.
    apply process_sync_mono. apply sync_rotation_refines_fuel; assumption.
  Qed.

  (* rejection: where the Spec refuses, zrnt has not produced a committee within the Spec's bound: it returned its
     error (no active validators in the next epoch) or is still sampling *)
  Theorem sync_rotation_rejects st epc : SyncHyps st epc ->
    Epoch.process_sync_committee_updates E st = None ->
    SyncRotation.process_sync_committee_updates E pubkey_ok PROPOSER_FUEL epc st =
    (if N.of_nat (length (get_active_validator_indices st (get_current_epoch E st + 1))) =? 0 then Err else OutOfFuel).
  Proof.
    intros H Hs. unfold Epoch.process_sync_committee_updates in Hs. unfold SyncRotation.process_sync_committee_updates.
    unfold c in *. replace (EPOCHS_PER_SYNC_COMMITTEE_PERIOD (cfg E) =? 0) with false by (symmetry; apply N.eqb_neq; apply H).
    rewrite (sh_epoch _ _ H).
    destruct ((get_current_epoch E st + 1) mod EPOCHS_PER_SYNC_COMMITTEE_PERIOD (cfg E) =? 0); [|discriminate].
    destruct (get_next_sync_committee E st) as [sc|] eqn:Esc; [discriminate|].
    unfold compute_next_sync_committee. rewrite (sync_committee_indices_refines st epc H).
    unfold get_next_sync_committee in Esc.
    destruct (get_next_sync_committee_indices E st) as [idx|] eqn:Ei.
    - (* indices found: then every index is a registry index, so the Spec's key lookup cannot fail *)
      exfalso. destruct (all_some _) as [pks|] eqn:Ep; [discriminate|].
      unfold get_next_sync_committee_indices in Ei. destruct (negb _); [|discriminate].
      set (active := get_active_validator_indices st _) in *.
      pose proof (sync_loop_in st active _ _ _ _ _ Ei) as Hin.
      pose proof (active_indices_in_registry st (get_current_epoch E st + 1)) as Hreg. rewrite Forall_forall in Hreg.
      destruct (keys_all_some st idx (fun i Hi => Hreg i (Hin i Hi))) as [pks Hp]. rewrite Hp in Ep. discriminate.
    - destruct (_ =? 0); reflexivity.
  Qed.
End SyncRotationRefine.
