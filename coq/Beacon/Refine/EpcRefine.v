(* C08, implementation side: zrnt's algorithm for maintaining the EpochsContext (Impl/Epc.v) keeps the context equal
   to the context computed from scratch from the state (Run.spec_epc_view), at every step of every chain.
   Uses: the Spec-side invariance theorems of Beacon/Proofs (epc_view_frame_stable, epc_view_slot_stable, the step frame
   of the epoch boundary) and the C07 refinements (NewShufflingEpoch / ComputeProposers = Spec). *)
From Coq Require Import String NArith ZArith List Bool Lia.
From Coq Require Import ZifyN ZifyNat ZifyBool.
From RecordUpdate Require Import RecordSet.
From V Require Import Base.U64 Base.Outcome Ssz.SszCore Beacon.Config Beacon.Schemas Beacon.State
  Beacon.Spec.Helpers Beacon.Spec.Epoch Beacon.Spec.Block Beacon.Spec.Transition Beacon.Run
  Beacon.Proofs.ListFacts Beacon.Proofs.Frame Beacon.Proofs.Lengths Beacon.Proofs.Stability Beacon.Proofs.EpcInv
  Beacon.Proofs.EpochBoundary Beacon.Proofs.ViewExt Beacon.Proofs.TransitionRules
  Beacon.Impl.Shuffling Beacon.Impl.Epc Beacon.Refine.ShufflingRefine Beacon.Refine.ProposersRefine Beacon.Refine.C07Theorems.
From V Require Math.MathModel Math.MathProofs Shuffle.ShuffleArith Shuffle.ShuffleIndexProofs.
Import ListNotations RecordSetNotations.
Local Open Scope N_scope.
Ltac Zify.zify_post_hook ::= Z.div_mod_to_equations.

(* ====================================================================================================== *)
(* A. the leaf functions: time.go, randao.go, pubkey lookups, loadCurrentStake                              *)
(* ====================================================================================================== *)
Lemma bind_Ok {A B} (x : outcome A) (g : A -> outcome B) a : x = Ok a -> bind x g = g a.
Proof. intros ->. reflexivity. Qed.

Lemma slot_to_epoch_impl_ok E s : 0 < SLOTS_PER_EPOCH (cfg E) ->
  slot_to_epoch_impl E s = Ok (compute_epoch_at_slot E s).
Proof.
  intros H. unfold slot_to_epoch_impl, compute_epoch_at_slot.
  destruct (N.eqb_spec (SLOTS_PER_EPOCH (cfg E)) 0); [lia|reflexivity].
Qed.

Lemma epoch_start_slot_impl_ok E e : 0 < SLOTS_PER_EPOCH (cfg E) -> e * SLOTS_PER_EPOCH (cfg E) < two64 ->
  epoch_start_slot_impl E e = Ok (compute_start_slot_at_epoch E e).
Proof.
  intros H0 H1. unfold epoch_start_slot_impl, compute_start_slot_at_epoch, mul64.
  rewrite wrap64_small by exact H1. rewrite slot_to_epoch_impl_ok by exact H0. cbn [bind].
  unfold compute_epoch_at_slot. rewrite N.div_mul by lia. rewrite N.eqb_refl. reflexivity.
Qed.

Lemma epoch_previous_eq E st : epoch_previous (get_current_epoch E st) = get_previous_epoch E st.
Proof. reflexivity. Qed.

(* GetSeed: the uint64 expression epoch + V - L - 1 does not wrap *)
Lemma get_seed_impl_ok E st epoch dt :
  MIN_SEED_LOOKAHEAD (cfg E) + 2 < EPOCHS_PER_HISTORICAL_VECTOR (cfg E) ->
  epoch + EPOCHS_PER_HISTORICAL_VECTOR (cfg E) < two64 ->
  get_seed_impl E (randao_mixes st) epoch dt = Ok (get_seed E st epoch dt).
Proof.
  intros HV Hb. unfold get_seed_impl, get_seed, get_randao_mix.
  set (V := EPOCHS_PER_HISTORICAL_VECTOR (cfg E)) in *. set (L := MIN_SEED_LOOKAHEAD (cfg E)) in *.
  destruct (N.eqb_spec V 0); [lia|].
  assert (Ex : sub64 (sub64 (add64 epoch V) L) 1 = epoch + V - L - 1).
  { unfold add64. rewrite wrap64_small by exact Hb. rewrite (sub64_ge (epoch + V) L) by lia. rewrite sub64_ge by lia. reflexivity. }
  rewrite Ex. reflexivity.
Qed.

(* the pubkey cache's lookup is the Spec's find_pubkey on the registry's pubkey column *)
Lemma index_of_pubkey_find pk vs : forall s, index_of_pubkey pk (map v_pubkey vs) s = find_pubkey pk vs s.
Proof. induction vs as [|v vs IH]; intros s; cbn [map index_of_pubkey find_pubkey]; [reflexivity|]. now rewrite IH. Qed.

Lemma hydrate_sync_committee_spec st sc :
  hydrate_sync_committee (map v_pubkey (validators st)) sc =
  match sync_indices_of st sc with Some l => Ok l | None => Err end.
Proof.
  unfold hydrate_sync_committee, sync_indices_of.
  rewrite (map_ext (fun pk => index_of_pubkey pk (map v_pubkey (validators st)) 0) (fun pk => find_pubkey pk (validators st) 0));
    [reflexivity|]. intros pk. apply index_of_pubkey_find.
Qed.

(* ---- loadCurrentStake ---- *)
Definition active_effs (ce : N) (vals : list Validator) : list N :=
  map v_effective_balance (filter (fun v => is_active_validator v ce) vals).

Lemma stake_loop_spec ce : forall suf pre effs total,
  stake_loop ce (pre ++ suf) (load_bounded_from (N.of_nat (length pre)) suf) (N.of_nat (length pre)) effs total =
  Ok (effs ++ map v_effective_balance suf, fold_left add64 (active_effs ce suf) total).
Proof.
  induction suf as [|v suf IH]; intros pre effs total.
  - cbn [load_bounded_from stake_loop map]. unfold active_effs. cbn [filter map fold_left]. now rewrite app_nil_r.
  - cbn [load_bounded_from stake_loop bi_activation bi_exit].
    assert (Hn : nthN (pre ++ v :: suf) (N.of_nat (length pre)) = Some v).
    { apply lf_nth_error_nthN. rewrite Nnat.Nat2N.id. rewrite nth_error_app2 by lia. now rewrite Nat.sub_diag. }
    rewrite Hn.
    replace (pre ++ v :: suf) with ((pre ++ [v]) ++ suf) by (rewrite <- app_assoc; reflexivity).
    replace (N.of_nat (length pre) + 1) with (N.of_nat (length (pre ++ [v]))) by (rewrite app_length; cbn [length]; lia).
    rewrite IH. rewrite <- app_assoc. cbn [map app]. f_equal. f_equal.
    unfold active_effs. cbn [filter]. unfold is_active_validator.
    destruct ((v_activation_epoch v <=? ce) && (ce <? v_exit_epoch v)); reflexivity.
Qed.

Lemma fold_add64_mod l : forall a, fold_left add64 l a mod two64 = (a + sumN l) mod two64.
Proof.
  unfold sumN. induction l as [|x l IH]; intros a; cbn [fold_left].
  - now rewrite N.add_0_r.
  - rewrite IH. unfold add64, wrap64. rewrite N.add_mod_idemp_l by discriminate.
    assert (G : forall b, fold_left N.add l b = b + fold_left N.add l 0).
    { clear. induction l as [|y l IH]; intros b; cbn [fold_left]; [lia|]. rewrite (IH (b + y)), (IH (0 + y)). lia. }
    rewrite (G (0 + x)). f_equal. lia.
Qed.
Lemma fold_add64_lt l : forall a, a < two64 -> fold_left add64 l a < two64.
Proof.
  induction l as [|x l IH]; intros a Ha; cbn [fold_left]; [exact Ha|]. apply IH. unfold add64. apply wrap64_lt.
Qed.
Lemma fold_add64_nowrap l : sumN l < two64 -> fold_left add64 l 0 = sumN l.
Proof.
  intros H. rewrite <- (N.mod_small (fold_left add64 l 0) two64) by (apply fold_add64_lt; reflexivity).
  rewrite fold_add64_mod. cbn [N.add]. apply N.mod_small. exact H.
Qed.

(* the Spec's sum over the active indices is the sum over the filtered registry *)
Lemma active_eff_bal st e :
  map (eff_bal st) (get_active_validator_indices st e) = active_effs e (validators st).
Proof.
  unfold get_active_validator_indices, active_effs.
  set (P := fun iv : N * Validator => is_active_validator (snd iv) e).
  rewrite map_map.
  rewrite (map_ext_in _ (fun iv => v_effective_balance (snd iv))).
  2: { intros [i v] Hin. apply filter_In in Hin. destruct Hin as [Hin _]. apply in_indexed_nthN in Hin.
       cbn [fst snd]. unfold eff_bal. now rewrite Hin. }
  unfold indices. generalize 0. generalize (validators st) as vs.
  induction vs as [|v vs IH]; intros s; [reflexivity|].
  cbn [length seqN combine filter]. unfold P at 1. cbn [snd].
  destruct (is_active_validator v e); cbn [map]; rewrite IH; reflexivity.
Qed.

Lemma load_current_stake_ok E st :
  sumN (map (eff_bal st) (get_active_validator_indices st (get_current_epoch E st))) < two64 ->
  EFFECTIVE_BALANCE_INCREMENT (cfg E) < two64 ->
  load_current_stake E (validators st) (load_bounded_indices (validators st)) (get_current_epoch E st) =
  Ok (map v_effective_balance (validators st), get_total_active_balance E st, N.sqrt (get_total_active_balance E st)).
Proof.
  intros Hs Hi. unfold load_current_stake, load_bounded_indices.
  pose proof (stake_loop_spec (get_current_epoch E st) (validators st) [] [] 0) as L. cbn [app length N.of_nat] in L.
  rewrite L. cbn [bind fst snd app].
  rewrite active_eff_bal in Hs. rewrite fold_add64_nowrap by exact Hs.
  assert (Et : (if sumN (active_effs (get_current_epoch E st) (validators st)) <? EFFECTIVE_BALANCE_INCREMENT (cfg E)
                then EFFECTIVE_BALANCE_INCREMENT (cfg E) else sumN (active_effs (get_current_epoch E st) (validators st)))
               = get_total_active_balance E st).
  { unfold get_total_active_balance, get_total_balance. rewrite active_eff_bal.
    destruct (N.ltb_spec (sumN (active_effs (get_current_epoch E st) (validators st))) (EFFECTIVE_BALANCE_INCREMENT (cfg E))); lia. }
  rewrite Et.
  assert (Hlt : get_total_active_balance E st < two64).
  { rewrite <- Et. destruct (_ <? _); assumption. }
  rewrite (MathProofs.isqrt_correct _ Hlt). reflexivity.
Qed.

(* ====================================================================================================== *)
(* B. hypotheses, the match relation, NewEpochsContext                                                      *)
(* ====================================================================================================== *)
(* the C07 side conditions for the shuffling of epoch e of state st *)
Definition shuffle_ok (E : Env) (st : BeaconState) (e : N) : Prop :=
  shuffling_params_ok E (N.of_nat (length (get_active_validator_indices st e))).

(* the hypotheses of C07T_proposers_refine (the last one: the proposer sampling of every slot of the current epoch
   terminates within zrnt's cap of 1000 * 32 candidates) *)
Record proposers_ok (E : Env) (st : BeaconState) : Prop := mkProposersOk {
  pk_rounds : SHUFFLE_ROUND_COUNT (cfg E) <= 255;
  pk_bytes : forall m, ShuffleArith.bytes_ok (Hash E m);
  pk_nonempty : 0 < N.of_nat (length (get_active_validator_indices st (get_current_epoch E st)));
  pk_size : N.of_nat (length (get_active_validator_indices st (get_current_epoch E st))) <= ShuffleIndexProofs.spec_limit;
  pk_max64 : MAX_EFFECTIVE_BALANCE (cfg E) * 255 < two64;
  pk_eb64 : Forall (fun v => v_effective_balance v * 255 < two64) (validators st);
  pk_start : compute_start_slot_at_epoch E (get_current_epoch E st) + SLOTS_PER_EPOCH (cfg E) <= two64;
  pk_cap : forall i, i < SLOTS_PER_EPOCH (cfg E) ->
     exists p, proposer_loop E CAP st (get_active_validator_indices st (get_current_epoch E st))
                 (Hash E (get_seed E st (get_current_epoch E st) DOMAIN_BEACON_PROPOSER ++
                          uint_to_bytes 8 (compute_start_slot_at_epoch E (get_current_epoch E st) + i))) 0 = Some p
}.

(* what RotateEpochs recomputes at state st (the state just after the epoch transition and the slot increment):
   the shuffling of the next epoch, the proposers and the stake of the current one *)
Record rotate_ok (E : Env) (st : BeaconState) : Prop := mkRotateOk {
  ro_next : shuffle_ok E st (get_current_epoch E st + 1);
  ro_prop : proposers_ok E st;
  (* uint64 ranges: TotalActiveStake += eff does not wrap; epoch + EPOCHS_PER_HISTORICAL_VECTOR (GetSeed) does not wrap *)
  ro_stake : sumN (map (eff_bal st) (get_active_validator_indices st (get_current_epoch E st))) < two64;
  ro_incr : EFFECTIVE_BALANCE_INCREMENT (cfg E) < two64;
  ro_epoch : get_current_epoch E st + 1 + EPOCHS_PER_HISTORICAL_VECTOR (cfg E) < two64;
  ro_period : 0 < EPOCHS_PER_SYNC_COMMITTEE_PERIOD (cfg E)       (* Go: epoch % period panics on 0 *)
}.
(* what NewEpochsContext computes in addition: the shufflings of the previous and the current epoch *)
Record new_ok (E : Env) (st : BeaconState) : Prop := mkNewOk {
  no_prev : shuffle_ok E st (get_previous_epoch E st);
  no_cur : shuffle_ok E st (get_current_epoch E st);
  no_rot : rotate_ok E st
}.
Lemma rotate_ok_far E st : Config_wf (cfg E) -> rotate_ok E st -> get_current_epoch E st + 1 < FAR_FUTURE_EPOCH.
Proof. intros W R. pose proof (ro_epoch E st R). pose proof (wf_historical_vector _ W). unfold FAR_FUTURE_EPOCH, two64 in *. lia. Qed.

(* from altair on every sync-committee pubkey is a registered validator's (a consequence of the match relation below;
   a hypothesis only for a context built from an arbitrary state) *)
Definition sync_registered (f : fork) (st : BeaconState) : Prop :=
  fork_ge f Altair = true ->
  sync_indices_of st (current_sync_committee st) <> None /\ sync_indices_of st (next_sync_committee st) <> None.

(* the projection of the Go context onto what the Spec says a context must contain *)
Definition epc_to_view (e : epc) : epc_view :=
  {| ev_current_epoch := se_epoch (epc_cur e);
     ev_active := [se_active (epc_prev e); se_active (epc_cur e); se_active (epc_next e)];
     ev_committees := [se_committees (epc_prev e); se_committees (epc_cur e); se_committees (epc_next e)];
     ev_proposers := map Some (epc_proposers e);
     ev_effective_balances := epc_effective_balances e;
     ev_total_active_stake := epc_total_active_stake e;
     ev_sync_current := epc_sync_current e;
     ev_sync_next := epc_sync_next e |}.
(* fields of the Go struct that the view does not show but the maintenance algorithm reads (RotateEpochs takes the new
   current epoch from NextEpoch.Epoch and tests NextSyncCommittee != nil) *)
Record epc_tags_ok (E : Env) (f : fork) (st : BeaconState) (e : epc) : Prop := mkTagsOk {
  tg_prev : se_epoch (epc_prev e) = get_previous_epoch E st;
  tg_next : se_epoch (epc_next e) = get_current_epoch E st + 1;
  tg_prop : epc_proposers_epoch e = get_current_epoch E st;
  tg_sqrt : epc_total_active_stake_sqrt e = N.sqrt (epc_total_active_stake e);
  tg_sync : fork_ge f Altair = true -> epc_sync_current e <> None /\ epc_sync_next e <> None
}.
Definition epc_matches (E : Env) (f : fork) (st : BeaconState) (e : epc) : Prop :=
  epc_to_view e = spec_epc_view E f st /\
  epc_pubkeys e = map v_pubkey (validators st) /\
  epc_tags_ok E f st e.

Lemma epc_matches_sync_registered E f st e : epc_matches E f st e -> sync_registered f st.
Proof.
  intros (V & _ & T) Hf. destruct (tg_sync _ _ _ _ T Hf) as [H1 H2].
  apply (f_equal ev_sync_current) in V as V1. apply (f_equal ev_sync_next) in V as V2.
  cbn [epc_to_view spec_epc_view ev_sync_current ev_sync_next] in V1, V2. rewrite Hf in V1, V2. split; congruence.
Qed.

(* ---- ComputeShufflingEpoch and ComputeProposers against the state ---- *)
Lemma new_shuffling_epoch_epoch E b s e she : new_shuffling_epoch E b s e = Ok she -> se_epoch she = e.
Proof.
  unfold new_shuffling_epoch. destruct (ShuffleModel.unshuffle_list _ _ _ _) as [sh| | | |]; cbn [bind]; try discriminate.
  destruct (ok_all _) as [cm| | | |]; cbn [bind]; try discriminate. intros H. injection H as <-. reflexivity.
Qed.

Lemma compute_shuffling_epoch_ok E st e :
  Config_wf (cfg E) -> e + EPOCHS_PER_HISTORICAL_VECTOR (cfg E) < two64 -> shuffle_ok E st e ->
  exists she, compute_shuffling_epoch E (randao_mixes st) (load_bounded_indices (validators st)) e = Ok she /\
    se_epoch she = e /\ se_active she = get_active_validator_indices st e /\
    se_committees she = committees_of_epoch E st e.
Proof.
  intros W Hb Hok. unfold compute_shuffling_epoch.
  rewrite (get_seed_impl_ok E st e _ (wf_historical_vector _ W) Hb). cbn [bind].
  destruct (C07T_committees_of_epoch_refine E st e Hok) as (she & H1 & H2 & H3).
  exists she. split; [exact H1|]. split; [eapply new_shuffling_epoch_epoch; exact H1|]. split; assumption.
Qed.

Lemma compute_proposers_epoch_ok E st :
  Config_wf (cfg E) -> get_current_epoch E st + EPOCHS_PER_HISTORICAL_VECTOR (cfg E) < two64 -> proposers_ok E st ->
  exists ps, compute_proposers_epoch E (validators st) (randao_mixes st) (get_current_epoch E st)
               (get_active_validator_indices st (get_current_epoch E st)) = Ok (get_current_epoch E st, ps) /\
    map Some ps = map (fun s => proposer_at E st (compute_start_slot_at_epoch E (get_current_epoch E st) + s))
                      (seqN 0 (N.to_nat (SLOTS_PER_EPOCH (cfg E)))).
Proof.
  intros W Hb [P1 P2 P3 P4 P5 P6 P7 P8]. unfold compute_proposers_epoch.
  destruct (N.eqb_spec (N.of_nat (length (get_active_validator_indices st (get_current_epoch E st)))) 0); [lia|].
  pose proof (wf_slots_per_epoch _ W) as Hspe.
  assert (Hst : get_current_epoch E st * SLOTS_PER_EPOCH (cfg E) < two64) by (unfold compute_start_slot_at_epoch in P7; lia).
  rewrite epoch_start_slot_impl_ok by assumption. cbn [bind].
  rewrite (get_seed_impl_ok E st _ _ (wf_historical_vector _ W) Hb). cbn [bind].
  destruct (C07T_proposers_refine E st P1 P2 P3 P4 P5 P6 P7 P8) as (ps & H1 & H2).
  exists ps. rewrite H1. cbn [bind]. split; [reflexivity|exact H2].
Qed.

(* ---- (1) NewEpochsContext ---- *)
Theorem new_epochs_context_matches E f st :
  Config_wf (cfg E) -> new_ok E st -> sync_registered f st ->
  exists e, new_epochs_context E f st = Ok e /\ epc_matches E f st e.
Proof.
  intros W [Np Nc R] Hsync. pose proof R as [Rn Rp Rs Ri Re Rper].
  pose proof (wf_slots_per_epoch _ W) as Hspe.
  set (ce := get_current_epoch E st) in *.
  unfold new_epochs_context. rewrite slot_to_epoch_impl_ok by exact Hspe. cbn [bind]. fold (get_current_epoch E st). fold ce.
  destruct (compute_shuffling_epoch_ok E st ce W ltac:(lia) Nc) as (cur & Hc & Ce & Ca & Cc).
  rewrite Hc. cbn [bind]. rewrite Ce.
  unfold ce at 1. rewrite (load_current_stake_ok E st Rs Ri). cbn [bind fst snd]. fold ce.
  assert (Hprev : exists prev, (if epoch_previous ce =? ce then Ok cur
                                else compute_shuffling_epoch E (randao_mixes st) (load_bounded_indices (validators st)) (epoch_previous ce))
                               = Ok prev /\ se_epoch prev = get_previous_epoch E st /\
                  se_active prev = get_active_validator_indices st (get_previous_epoch E st) /\
                  se_committees prev = committees_of_epoch E st (get_previous_epoch E st)).
  { unfold ce. rewrite epoch_previous_eq. fold ce. destruct (N.eqb_spec (get_previous_epoch E st) ce) as [Hp|Hp].
    - exists cur. rewrite Hp. repeat split; assumption.
    - apply compute_shuffling_epoch_ok; [exact W| |exact Np].
      unfold get_previous_epoch. cbv zeta. fold ce. destruct (ce =? GENESIS_EPOCH); unfold GENESIS_EPOCH; lia. }
  destruct Hprev as (prev & Hp & Pe & Pa & Pc). rewrite Hp. cbn [bind].
  assert (Ea : add64 ce 1 = ce + 1) by (unfold add64; apply wrap64_small; lia). rewrite Ea.
  destruct (compute_shuffling_epoch_ok E st (ce + 1) W ltac:(lia) Rn) as (next & Hn & Ne & Na & Nc').
  rewrite Hn. cbn [bind].
  rewrite Ca. destruct (compute_proposers_epoch_ok E st W ltac:(fold ce; lia) Rp) as (ps & Hps & Eps). fold ce in Hps, Eps.
  rewrite Hps. cbn [bind fst snd].
  set (e0 := mkEpc prev cur next ce ps (map v_effective_balance (validators st)) (get_total_active_balance E st)
                   (N.sqrt (get_total_active_balance E st)) None None (map v_pubkey (validators st))).
  assert (Hview : forall sc sn,
            sc = (if fork_ge f Altair then sync_indices_of st (current_sync_committee st) else None) ->
            sn = (if fork_ge f Altair then sync_indices_of st (next_sync_committee st) else None) ->
            epc_to_view (set_sync e0 sc sn) = spec_epc_view E f st).
  { intros sc sn -> ->. unfold epc_to_view, spec_epc_view, set_sync, e0. cbv zeta.
    cbn [epc_prev epc_cur epc_next epc_proposers epc_effective_balances epc_total_active_stake epc_sync_current epc_sync_next].
    fold ce. rewrite Ce, Pa, Ca, Na, Pc, Cc, Nc', Eps. reflexivity. }
  destruct (fork_ge f Altair) eqn:Hf.
  - destruct (Hsync Hf) as [S1 S2].
    destruct (sync_indices_of st (current_sync_committee st)) as [lc|] eqn:Hlc; [|congruence].
    destruct (sync_indices_of st (next_sync_committee st)) as [ln|] eqn:Hln; [|congruence].
    unfold load_sync_committees. fold e0. cbn [epc_pubkeys e0].
    rewrite !hydrate_sync_committee_spec, Hlc, Hln. cbn [bind].
    exists (set_sync e0 (Some lc) (Some ln)). split; [reflexivity|]. split; [apply Hview; reflexivity|].
    split; [reflexivity|]. constructor; cbn; try assumption; try reflexivity. intros _. split; intros HH; discriminate HH.
  - fold e0. exists e0. split; [reflexivity|]. split; [apply (Hview None None); reflexivity|].
    split; [reflexivity|]. constructor; cbn; try assumption; try reflexivity. congruence.
Qed.

(* ====================================================================================================== *)
(* C. blocks (deposits) and slot steps inside an epoch                                                      *)
(* ====================================================================================================== *)
Lemma epc_view_eq (v v' : epc_view) :
  ev_current_epoch v = ev_current_epoch v' -> ev_active v = ev_active v' -> ev_committees v = ev_committees v' ->
  ev_proposers v = ev_proposers v' -> ev_effective_balances v = ev_effective_balances v' ->
  ev_total_active_stake v = ev_total_active_stake v' -> ev_sync_current v = ev_sync_current v' ->
  ev_sync_next v = ev_sync_next v' -> v = v'.
Proof. destruct v, v'. cbn. intros; subst; reflexivity. Qed.

Lemma spec_view_sync_pre E f st : fork_ge f Altair = false ->
  ev_sync_current (spec_epc_view E f st) = None /\ ev_sync_next (spec_epc_view E f st) = None.
Proof. intros H. cbn [spec_epc_view ev_sync_current ev_sync_next]. rewrite H. split; reflexivity. Qed.

(* any state change within the block frame: the context extended by the appended validators matches again *)
Theorem epc_matches_frame E f st st' e :
  Config_wf (cfg E) -> get_current_epoch E st + 1 < FAR_FUTURE_EPOCH -> block_frame E st st' ->
  epc_matches E f st e -> epc_matches E f st' (epc_after_block e st st').
Proof.
  intros W Hf B (V & P & T).
  destruct (epc_view_frame_stable E f st st' W Hf B) as (X1 & X2 & X3 & X4 & X5 & X6 & X7 & X8).
  rewrite <- V in X1, X2, X3, X4, X5, X6, X7, X8.
  pose proof (bk_epoch E st st' B) as He.
  split; [|split].
  - apply epc_view_eq; unfold epc_after_block, epc_extend; cbn [epc_to_view epc_prev epc_cur epc_next epc_proposers
      epc_effective_balances epc_total_active_stake epc_sync_current epc_sync_next ev_current_epoch ev_active ev_committees
      ev_proposers ev_effective_balances ev_total_active_stake ev_sync_current ev_sync_next] in *; try (symmetry; assumption).
    + destruct (fork_ge f Altair) eqn:Hfa.
      * destruct (tg_sync _ _ _ _ T Hfa) as [H1 _]. destruct (epc_sync_current e) as [l|]; [|congruence].
        symmetry. apply X7. reflexivity.
      * rewrite (proj1 (spec_view_sync_pre E f st' Hfa)). apply (f_equal ev_sync_current) in V.
        rewrite (proj1 (spec_view_sync_pre E f st Hfa)) in V. exact V.
    + destruct (fork_ge f Altair) eqn:Hfa.
      * destruct (tg_sync _ _ _ _ T Hfa) as [_ H2]. destruct (epc_sync_next e) as [l|]; [|congruence].
        symmetry. apply X8. reflexivity.
      * rewrite (proj2 (spec_view_sync_pre E f st' Hfa)). apply (f_equal ev_sync_next) in V.
        rewrite (proj2 (spec_view_sync_pre E f st Hfa)) in V. exact V.
  - unfold epc_after_block, epc_extend. cbn [epc_pubkeys]. rewrite P. symmetry. apply (pubkeys_block_stable E). exact B.
  - destruct T as [T1 T2 T3 T4 T5]. unfold epc_after_block, epc_extend.
    constructor; cbn [epc_prev epc_next epc_proposers_epoch epc_total_active_stake epc_total_active_stake_sqrt
                      epc_sync_current epc_sync_next]; try assumption.
    + unfold get_previous_epoch. rewrite He. exact T1.
    + rewrite He. exact T2.
    + rewrite He. exact T3.
Qed.

(* ---- (2) a block ---- *)
Theorem epc_inv_block E f st blk st' e :
  Config_wf (cfg E) -> get_current_epoch E st + 1 < FAR_FUTURE_EPOCH ->
  epc_matches E f st e -> process_block E f st blk = Some st' ->
  epc_matches E f st' (epc_after_block e st st').
Proof. intros W Hf M H. apply epc_matches_frame; try assumption. eapply process_block_frame; eassumption. Qed.

(* a state change that keeps the registry's length leaves the context alone *)
Lemma epc_after_block_same_length e st st' : length (validators st') = length (validators st) -> epc_after_block e st st' = e.
Proof.
  intros H. unfold epc_after_block, epc_extend. rewrite <- H, skipn_all. cbn [map]. rewrite !app_nil_r. destruct e; reflexivity.
Qed.

(* ---- the Go deposit path computes exactly that extension ---- *)
Lemma deposit_effective_balance_ok E pk wc amount : 0 < EFFECTIVE_BALANCE_INCREMENT (cfg E) ->
  deposit_effective_balance E amount = Ok (v_effective_balance (get_validator_from_deposit E pk wc amount)).
Proof.
  intros H. unfold deposit_effective_balance, get_validator_from_deposit. cbn [v_effective_balance].
  destruct (N.eqb_spec (EFFECTIVE_BALANCE_INCREMENT (cfg E)) 0); [lia|]. f_equal.
  destruct (N.ltb_spec (MAX_EFFECTIVE_BALANCE (cfg E)) (amount - amount mod EFFECTIVE_BALANCE_INCREMENT (cfg E))); lia.
Qed.
Lemma index_of_pubkey_bound pk l : forall s i, index_of_pubkey pk l s = Some i -> s <= i < s + N.of_nat (length l).
Proof.
  induction l as [|k l IH]; intros s i H; cbn [index_of_pubkey] in H; [discriminate|].
  destruct (bytes_eqb k pk).
  - injection H as <-. cbn [length]. lia.
  - apply IH in H. cbn [length]. lia.
Qed.
Lemma pubkeys_add_append l pk : index_of_pubkey pk l 0 = None -> pubkeys_add l (N.of_nat (length l)) pk = Ok (l ++ [pk]).
Proof.
  intros H. unfold pubkeys_add. unfold nthN. destruct (N.ltb_spec (N.of_nat (length l)) (N.of_nat (length l))); [lia|].
  rewrite H, N.eqb_refl. reflexivity.
Qed.
Lemma validators_add_validator E f st pk wc amount :
  validators (add_validator_to_registry E f st pk wc amount) = validators st ++ [get_validator_from_deposit E pk wc amount].
Proof. unfold add_validator_to_registry. cbv zeta. destruct (fork_ge f Altair); reflexivity. Qed.
Lemma validators_increase_balance st i d : validators (increase_balance st i d) = validators st.
Proof. reflexivity. Qed.

Theorem epc_apply_deposit_refines E f st e pk wc amount sig :
  0 < EFFECTIVE_BALANCE_INCREMENT (cfg E) -> epc_matches E f st e ->
  epc_apply_deposit E e st pk wc amount sig = Ok (epc_after_block e st (apply_deposit E f st pk wc amount sig)).
Proof.
  intros Hi (V & P & T). unfold epc_apply_deposit, apply_deposit. rewrite P, index_of_pubkey_find.
  destruct (find_pubkey pk (validators st) 0) as [i|] eqn:Hfind.
  - assert (Hb : i < N.of_nat (length (validators st))).
    { rewrite <- index_of_pubkey_find in Hfind. apply index_of_pubkey_bound in Hfind. rewrite map_length in Hfind. lia. }
    destruct (N.ltb_spec i (N.of_nat (length (validators st)))); [|lia].
    rewrite epc_after_block_same_length by reflexivity. reflexivity.
  - destruct (bls_verify E pk _ sig).
    + unfold on_new_validator. rewrite P.
      replace (N.of_nat (length (validators st))) with (N.of_nat (length (map v_pubkey (validators st)))) at 1 by (now rewrite map_length).
      rewrite pubkeys_add_append by (rewrite index_of_pubkey_find; exact Hfind). cbn [bind].
      apply (f_equal ev_effective_balances) in V. cbn [epc_to_view spec_epc_view ev_effective_balances] in V.
      rewrite V, map_length, N.eqb_refl. rewrite (deposit_effective_balance_ok E pk wc amount Hi). cbn [bind].
      unfold epc_after_block, epc_extend. rewrite validators_add_validator.
      rewrite skipn_app, skipn_all, Nat.sub_diag. cbn [skipn app map]. rewrite V, P. reflexivity.
    + rewrite epc_after_block_same_length by reflexivity. reflexivity.
Qed.

(* the deposits of a block, one by one *)
Lemma epc_after_block_trans E e a b c : block_frame E a b -> block_frame E b c ->
  epc_after_block (epc_after_block e a b) b c = epc_after_block e a c.
Proof.
  intros Hab Hbc. pose proof (bk_trans E a b c Hab Hbc) as Hac.
  assert (G : forall (X : Type) (g : Validator -> X), (forall x y, block_frame E x y ->
              map g (validators y) = map g (validators x) ++ map g (skipn (length (validators x)) (validators y))) ->
            map g (skipn (length (validators a)) (validators b)) ++ map g (skipn (length (validators b)) (validators c)) =
            map g (skipn (length (validators a)) (validators c))).
  { intros X g Hg. apply (app_inv_head (map g (validators a))). rewrite <- (Hg a c Hac). rewrite app_assoc, <- (Hg a b Hab).
    symmetry. apply (Hg b c Hbc). }
  unfold epc_after_block, epc_extend. cbn [epc_prev epc_cur epc_next epc_proposers_epoch epc_proposers epc_effective_balances
    epc_total_active_stake epc_total_active_stake_sqrt epc_sync_current epc_sync_next epc_pubkeys].
  rewrite <- !app_assoc.
  rewrite (G _ v_effective_balance (effective_balances_block_stable E)), (G _ v_pubkey (pubkeys_block_stable E)). reflexivity.
Qed.

Theorem epc_process_deposits_refines E f : forall deps st st' e,
  Config_wf (cfg E) -> get_current_epoch E st + 1 < FAR_FUTURE_EPOCH -> 0 < EFFECTIVE_BALANCE_INCREMENT (cfg E) ->
  epc_matches E f st e -> for_ops deps (process_deposit E f) st = Some st' ->
  epc_process_deposits E f st e deps = Ok (epc_after_block e st st') /\ block_frame E st st'.
Proof.
  induction deps as [|dep deps IH]; intros st st' e W Hf Hi M H; unfold for_ops in H; cbn [fold_left] in H.
  - injection H as <-. cbn [epc_process_deposits]. rewrite epc_after_block_same_length by reflexivity.
    split; [reflexivity|apply bk_refl].
  - destruct (process_deposit E f st dep) as [st1|] eqn:Hd; [|rewrite fold_left_opt_none in H; discriminate H].
    cbn [epc_process_deposits]. rewrite Hd.
    pose proof (bk_process_deposit E f st st dep st1 Hd (bk_refl E st)) as B1.
    assert (Hst1 : st1 = apply_deposit E f (st <| eth1_deposit_index := eth1_deposit_index st + 1 |>)
                     (vbytes (vfield (vfield dep 1) 0)) (vbytes (vfield (vfield dep 1) 1)) (vuint (vfield (vfield dep 1) 2))
                     (vbytes (vfield (vfield dep 1) 3))).
    { unfold process_deposit in Hd. cbv zeta in Hd. destruct (is_valid_merkle_branch _ _ _ _ _ _); [|discriminate Hd].
      injection Hd as <-. reflexivity. }
    set (sti := st <| eth1_deposit_index := eth1_deposit_index st + 1 |>) in *.
    assert (Mi : epc_matches E f sti e).
    { destruct M as (V & P & [T1 T2 T3 T4 T5]). split; [|split; [exact P|constructor; assumption]].
      rewrite V. symmetry. apply epc_view_ext; reflexivity. }
    rewrite (epc_apply_deposit_refines E f sti e _ _ _ _ Hi Mi). cbn [bind]. rewrite <- Hst1.
    assert (Ea : epc_after_block e sti st1 = epc_after_block e st st1) by reflexivity. rewrite Ea.
    assert (M1 : epc_matches E f st1 (epc_after_block e st st1)) by (apply epc_matches_frame; assumption).
    assert (Hf1 : get_current_epoch E st1 + 1 < FAR_FUTURE_EPOCH) by (rewrite (bk_epoch E st st1 B1); exact Hf).
    destruct (IH st1 st' _ W Hf1 Hi M1 H) as [R B2]. rewrite R.
    split; [f_equal; apply (epc_after_block_trans E); assumption|eapply bk_trans; eassumption].
Qed.

(* ---- (3) a slot step inside an epoch ---- *)
Lemma slot_process_slot E f st : slot (process_slot E f st) = slot st.
Proof. exact (proj1 (bf_process_slot E f st st (bf_refl st))). Qed.

Lemma slot_step_in_epoch E f st f' st' :
  (slot st + 1) mod SLOTS_PER_EPOCH (cfg E) <> 0 -> slot_step E f st = Some (f', st') ->
  f' = f /\ st' = (process_slot E f st) <| slot := slot st + 1 |>.
Proof.
  intros Hb H. unfold slot_step in H. cbv beta zeta in H. rewrite slot_process_slot in H.
  destruct (N.eqb_spec ((slot st + 1) mod SLOTS_PER_EPOCH (cfg E)) 0) as [Hm|_]; [contradiction|].
  rewrite upgrade_maybe_off_boundary in H by (cbn [set slot]; rewrite slot_process_slot; exact Hb).
  injection H as <- <-. split; [reflexivity|].
  match goal with |- ?a = _ => change a with ((process_slot E f st) <| slot := slot (process_slot E f st) + 1 |>) end.
  rewrite slot_process_slot. reflexivity.
Qed.

Lemma epc_upgrade_maybe_off_boundary E k f st e : slot st mod SLOTS_PER_EPOCH (cfg E) <> 0 ->
  epc_upgrade_maybe E (S k) f st e = Ok e.
Proof.
  intros H. cbn [epc_upgrade_maybe]. destruct (next_fork f); [|reflexivity].
  destruct (N.eqb_spec (slot st mod SLOTS_PER_EPOCH (cfg E)) 0); [contradiction|reflexivity].
Qed.

Theorem epc_inv_slot E f st f' st' e :
  0 < SLOTS_PER_EPOCH (cfg E) -> (slot st + 1) mod SLOTS_PER_EPOCH (cfg E) <> 0 ->
  epc_matches E f st e -> slot_step E f st = Some (f', st') ->
  f' = f /\ epc_slot_step E f st e = Ok e /\ epc_matches E f st' e.
Proof.
  intros W Hb (V & P & [T1 T2 T3 T4 T5]) H.
  destruct (epc_view_slot_stable E f st f' st' W Hb H) as [Hf Hv].
  destruct (slot_step_in_epoch E f st f' st' Hb H) as [_ Hst].
  pose proof (slot_step_epoch E f st f' st' W H) as He.
  destruct (N.eqb_spec ((slot st + 1) mod SLOTS_PER_EPOCH (cfg E)) 0) as [Hm|_]; [contradiction|].
  split; [exact Hf|]. split.
  - unfold epc_slot_step. cbv beta zeta. rewrite slot_process_slot.
    destruct (N.eqb_spec ((slot st + 1) mod SLOTS_PER_EPOCH (cfg E)) 0) as [Hm|_]; [contradiction|].
    apply epc_upgrade_maybe_off_boundary. cbn [set slot]. exact Hb.
  - assert (Hvals : validators st' = validators st).
    { rewrite Hst. cbn [set validators]. exact (proj1 (vm_process_slot E f st)). }
    split; [rewrite Hv; exact V|]. split; [rewrite Hvals; exact P|].
    constructor; try assumption.
    + unfold get_previous_epoch. rewrite He. exact T1.
    + rewrite He. exact T2.
    + rewrite He. exact T3.
Qed.

(* ====================================================================================================== *)
(* D. the epoch boundary                                                                                    *)
(* ====================================================================================================== *)
(* ---- the sync committees through process_epoch: untouched until process_sync_committee_updates ---- *)
Definition sync_same (st st' : BeaconState) : Prop :=
  current_sync_committee st' = current_sync_committee st /\ next_sync_committee st' = next_sync_committee st.
Lemma sf_refl st : sync_same st st.
Proof. split; reflexivity. Qed.
Lemma sf_trans a b c : sync_same a b -> sync_same b c -> sync_same a c.
Proof. unfold sync_same. intros (H1 & H2) (H3 & H4). split; congruence. Qed.
Lemma sf_step a b c : sync_same b c -> sync_same a b -> sync_same a c.
Proof. intros H1 H2. exact (sf_trans a b c H2 H1). Qed.
Create HintDb sf discriminated.
#[export] Hint Resolve sf_refl : sf.
Ltac sf_set_tac := split; reflexivity.
#[export] Hint Extern 2 (sync_same _ (set _ _ ?t)) => (apply (sf_step _ t); [sf_set_tac|]) : sf.
#[export] Hint Extern 3 (sync_same _ (if ?c then _ else _)) => destruct c : sf.
#[export] Hint Extern 4 (sync_same _ (match ?x with _ => _ end)) => destruct x : sf.
Ltac sf := eauto 40 with sf nocore.
Ltac sf_opt F := intros; match goal with H : _ = Some _ |- _ => unfold F in H; cbv beta zeta in H end; inv_all; sf.
Ltac sf_fun F := intros; unfold F; cbv beta zeta; sf.

Lemma sf_increase_balance s st i d : sync_same s st -> sync_same s (increase_balance st i d).
Proof. sf_fun increase_balance. Qed.
Lemma sf_decrease_balance s st i d : sync_same s st -> sync_same s (decrease_balance st i d).
Proof. sf_fun decrease_balance. Qed.
#[export] Hint Resolve sf_increase_balance sf_decrease_balance : sf.
Lemma sf_initiate_validator_exit E s st i st' :
  initiate_validator_exit E st i = Some st' -> sync_same s st -> sync_same s st'.
Proof. sf_opt initiate_validator_exit. Qed.
#[export] Hint Resolve sf_initiate_validator_exit : sf.
Lemma sf_weigh E s st a b c st' :
  weigh_justification_and_finalization E st a b c = Some st' -> sync_same s st -> sync_same s st'.
Proof. sf_opt weigh_justification_and_finalization. Qed.
#[export] Hint Resolve sf_weigh : sf.
Lemma sf_process_justification_and_finalization E f s st st' :
  process_justification_and_finalization E f st = Some st' -> sync_same s st -> sync_same s st'.
Proof. sf_opt process_justification_and_finalization. Qed.
Lemma sf_process_inactivity_updates E s st st' :
  process_inactivity_updates E st = Some st' -> sync_same s st -> sync_same s st'.
Proof. sf_opt process_inactivity_updates. Qed.
Lemma sf_apply_deltas s st d : sync_same s st -> sync_same s (apply_deltas st d).
Proof. sf_fun apply_deltas. Qed.
#[export] Hint Resolve sf_process_justification_and_finalization sf_process_inactivity_updates sf_apply_deltas : sf.
Lemma sf_process_rewards_and_penalties E f s st st' :
  process_rewards_and_penalties E f st = Some st' -> sync_same s st -> sync_same s st'.
Proof. sf_opt process_rewards_and_penalties. Qed.
#[export] Hint Resolve sf_process_rewards_and_penalties : sf.
Lemma sf_process_registry_updates E f s st st' :
  process_registry_updates E f st = Some st' -> sync_same s st -> sync_same s st'.
Proof.
  intros H Hs. unfold process_registry_updates in H. cbv beta zeta in H.
  inv_step H. apply (fold_opt_pres sync_same sf_refl sf_trans) in Hx.
  - inv_step H. apply (sf_trans s b); [apply (sf_trans s st); assumption|].
    apply (fold_pres sync_same sf_refl sf_trans). intros x a. sf.
  - intros x a x' Hf. inv_all; sf.
Qed.
#[export] Hint Resolve sf_process_registry_updates : sf.
Lemma sf_process_slashings E f s st : sync_same s st -> sync_same s (process_slashings E f st).
Proof.
  intros Hs. unfold process_slashings. cbv beta zeta. apply (sf_trans s st); [assumption|].
  apply (fold_pres sync_same sf_refl sf_trans). intros x [i v]. sf.
Qed.
Lemma sf_process_eth1_data_reset E s st : sync_same s st -> sync_same s (process_eth1_data_reset E st).
Proof. sf_fun process_eth1_data_reset. Qed.
Lemma sf_process_effective_balance_updates E s st : sync_same s st -> sync_same s (process_effective_balance_updates E st).
Proof. sf_fun process_effective_balance_updates. Qed.
Lemma sf_process_slashings_reset E s st : sync_same s st -> sync_same s (process_slashings_reset E st).
Proof. sf_fun process_slashings_reset. Qed.
Lemma sf_process_randao_mixes_reset E s st : sync_same s st -> sync_same s (process_randao_mixes_reset E st).
Proof. sf_fun process_randao_mixes_reset. Qed.
Lemma sf_process_historical_update E f s st : sync_same s st -> sync_same s (process_historical_update E f st).
Proof. sf_fun process_historical_update. Qed.
Lemma sf_process_participation_record_updates s st : sync_same s st -> sync_same s (process_participation_record_updates st).
Proof. sf_fun process_participation_record_updates. Qed.
Lemma sf_process_participation_flag_updates s st : sync_same s st -> sync_same s (process_participation_flag_updates st).
Proof. sf_fun process_participation_flag_updates. Qed.
Lemma sf_process_slot E f st : sync_same st (process_slot E f st).
Proof. destruct (process_slot_syncs E f st). split; assumption. Qed.

(* process_epoch up to (excluding) its last step leaves both sync committees alone *)
Lemma process_epoch_last E f st st' : process_epoch E f st = Some st' ->
  exists sx, sync_same st sx /\
    match f with
    | Phase0 => st' = process_participation_record_updates sx
    | _ => process_sync_committee_updates E (process_participation_flag_updates sx) = Some st'
    end.
Proof.
  intros H. unfold process_epoch in H. cbv beta zeta in H. do 4 inv_step H.
  assert (H2 : sync_same st b2).
  { eapply sf_process_registry_updates; [eassumption|]. eapply sf_process_rewards_and_penalties; [eassumption|].
    destruct f; inv_all;
      try (eapply sf_process_inactivity_updates; [eassumption|]);
      (eapply sf_process_justification_and_finalization; [eassumption|apply sf_refl]). }
  exists (process_historical_update E f (process_randao_mixes_reset E (process_slashings_reset E
            (process_effective_balance_updates E (process_eth1_data_reset E (process_slashings E f b2)))))).
  split.
  - apply sf_process_historical_update, sf_process_randao_mixes_reset, sf_process_slashings_reset,
      sf_process_effective_balance_updates, sf_process_eth1_data_reset, sf_process_slashings. exact H2.
  - destruct f; inv_all; try reflexivity; assumption.
Qed.

(* ---- a freshly sampled sync committee consists of registered validators ---- *)
Lemma bytes_eqb_refl k : bytes_eqb k k = true.
Proof. induction k as [|x k IH]; cbn [bytes_eqb]; [reflexivity|]. rewrite N.eqb_refl, IH. reflexivity. Qed.
Lemma find_pubkey_In vs : forall s v, In v vs -> find_pubkey (v_pubkey v) vs s <> None.
Proof.
  induction vs as [|w vs IH]; intros s v Hin; [destruct Hin|]. cbn [find_pubkey].
  destruct (bytes_eqb (v_pubkey w) (v_pubkey v)) eqn:Hb; [discriminate|].
  destruct Hin as [->|Hin]; [rewrite bytes_eqb_refl in Hb; discriminate Hb|]. apply IH. exact Hin.
Qed.
Lemma all_some_In_Some {A} (l : list (option A)) : forall r, all_some l = Some r -> forall x, In x r -> In (Some x) l.
Proof.
  induction l as [|o l IH]; intros r H x Hx; cbn [all_some] in H.
  - injection H as <-. destruct Hx.
  - destruct o as [a|]; [|discriminate H]. destruct (all_some l) as [r'|]; [|discriminate H]. injection H as <-.
    destruct Hx as [->|Hx]; [left; reflexivity|right; apply (IH r' eq_refl); exact Hx].
Qed.
Lemma all_some_map_total {A B} (g : A -> option B) l : (forall x, In x l -> g x <> None) -> all_some (map g l) <> None.
Proof.
  induction l as [|a l IH]; intros H; cbn [map all_some]; [discriminate|].
  destruct (g a) as [b|] eqn:Hb; [|exfalso; apply (H a); [left; reflexivity|exact Hb]].
  assert (IH' : all_some (map g l) <> None) by (apply IH; intros x Hx; apply H; right; exact Hx).
  destruct (all_some (map g l)); [discriminate|]. exfalso. apply IH'. reflexivity.
Qed.
Lemma next_sync_committee_registered E s nsc : get_next_sync_committee E s = Some nsc -> sync_indices_of s nsc <> None.
Proof.
  intros H. unfold get_next_sync_committee in H.
  destruct (get_next_sync_committee_indices E s) as [idx|]; [|discriminate H].
  destruct (all_some (map (fun i => option_map v_pubkey (nthN (validators s) i)) idx)) as [pks|] eqn:Hp; [|discriminate H].
  injection H as <-. unfold sync_indices_of. cbn [sc_pubkeys]. apply all_some_map_total. intros pk Hpk.
  pose proof (all_some_In_Some _ _ Hp pk Hpk) as Hin. apply in_map_iff in Hin. destruct Hin as (i & Hi & _).
  destruct (nthN (validators s) i) as [v|] eqn:Hv; [|discriminate Hi]. cbn [option_map] in Hi. injection Hi as <-.
  apply find_pubkey_In. eapply lf_nthN_In. exact Hv.
Qed.

(* what process_epoch does to the sync committees *)
Lemma process_epoch_sync E f st st' : process_epoch E f st = Some st' ->
  (fork_ge f Altair = true -> (get_current_epoch E st + 1) mod EPOCHS_PER_SYNC_COMMITTEE_PERIOD (cfg E) = 0 ->
     current_sync_committee st' = next_sync_committee st /\ sync_indices_of st' (next_sync_committee st') <> None) /\
  (fork_ge f Altair = false \/ (get_current_epoch E st + 1) mod EPOCHS_PER_SYNC_COMMITTEE_PERIOD (cfg E) <> 0 ->
     sync_same st st').
Proof.
  intros H. pose proof (process_epoch_slot E f st st' H) as Hslot.
  destruct (process_epoch_last E f st st' H) as (sx & Hsx & Hlast).
  assert (G : forall stx, sync_same st stx -> process_sync_committee_updates E stx = Some st' ->
    ((get_current_epoch E st + 1) mod EPOCHS_PER_SYNC_COMMITTEE_PERIOD (cfg E) = 0 ->
       current_sync_committee st' = next_sync_committee st /\ sync_indices_of st' (next_sync_committee st') <> None) /\
    ((get_current_epoch E st + 1) mod EPOCHS_PER_SYNC_COMMITTEE_PERIOD (cfg E) <> 0 -> sync_same st st')).
  { intros stx [Sc Sn] Hu.
    assert (He : get_current_epoch E stx = get_current_epoch E st).
    { unfold get_current_epoch. f_equal. rewrite <- Hslot. symmetry.
      exact (proj1 (bf_process_sync_committee_updates E stx stx st' Hu (bf_refl stx))). }
    unfold process_sync_committee_updates in Hu. cbv beta zeta in Hu. rewrite He in Hu.
    destruct (N.eqb_spec ((get_current_epoch E st + 1) mod EPOCHS_PER_SYNC_COMMITTEE_PERIOD (cfg E)) 0) as [Hm|Hm].
    - split; [intros _|intros Hc; contradiction].
      destruct (get_next_sync_committee E stx) as [nsc|] eqn:Hn; [|discriminate Hu]. injection Hu as <-.
      cbn [set current_sync_committee next_sync_committee]. split; [exact Sn|].
      pose proof (next_sync_committee_registered E stx nsc Hn) as R. exact R.
    - split; [intros Hc; contradiction|intros _]. injection Hu as <-. split; assumption. }
  destruct f.
  - split; [intros Hf; discriminate Hf|]. intros _. subst st'. apply sf_process_participation_record_updates. exact Hsx.
  - destruct (G _ (sf_process_participation_flag_updates _ _ Hsx) Hlast) as [G1 G2].
    split; [intros _; exact G1|intros [Hf|Hm]; [discriminate Hf|exact (G2 Hm)]].
  - destruct (G _ (sf_process_participation_flag_updates _ _ Hsx) Hlast) as [G1 G2].
    split; [intros _; exact G1|intros [Hf|Hm]; [discriminate Hf|exact (G2 Hm)]].
  - destruct (G _ (sf_process_participation_flag_updates _ _ Hsx) Hlast) as [G1 G2].
    split; [intros _; exact G1|intros [Hf|Hm]; [discriminate Hf|exact (G2 Hm)]].
  - destruct (G _ (sf_process_participation_flag_updates _ _ Hsx) Hlast) as [G1 G2].
    split; [intros _; exact G1|intros [Hf|Hm]; [discriminate Hf|exact (G2 Hm)]].
Qed.

(* ---- the state RotateEpochs sees: after process_epoch and the slot increment, before any upgrade ---- *)
Lemma mid_step_frame E f st st1 : lengths_inv f st -> process_epoch E f (process_slot E f st) = Some st1 ->
  step_frame E (get_current_epoch E st) st (st1 <| slot := slot st1 + 1 |>).
Proof.
  intros L Hx. pose proof (vm_process_slot E f st) as [V1 M1].
  apply process_epoch_frame in Hx; [|apply li_process_slot; exact L]. destruct Hx as [_ B2 B3].
  assert (Hce : get_current_epoch E (process_slot E f st) = get_current_epoch E st).
  { unfold get_current_epoch. now rewrite slot_process_slot. }
  rewrite Hce in *. rewrite V1 in B2. split; [exact B2|]. intros j Hj. cbn [set randao_mixes]. rewrite B3 by exact Hj. now rewrite M1.
Qed.
Lemma epoch_next E t : 0 < SLOTS_PER_EPOCH (cfg E) -> (t + 1) mod SLOTS_PER_EPOCH (cfg E) = 0 ->
  compute_epoch_at_slot E (t + 1) = compute_epoch_at_slot E t + 1.
Proof.
  intros W Hm. unfold compute_epoch_at_slot. set (n := SLOTS_PER_EPOCH (cfg E)) in *.
  assert (Hn : n <> 0) by lia.
  pose proof (N.div_mod (t + 1) n Hn) as D. rewrite Hm in D. set (q := (t + 1) / n) in *.
  destruct (N.eq_0_gt_0_cases q) as [Hq|Hq]; [rewrite Hq in D; lia|].
  assert (Hq' : q = (q - 1) + 1) by lia. rewrite Hq'. f_equal.
  apply (N.div_unique t n (q - 1) (n - 1)); [lia|]. rewrite Hq' in D. lia.
Qed.
Lemma sync_indices_pubkeys a b sc : map v_pubkey (validators a) = map v_pubkey (validators b) ->
  sync_indices_of a sc = sync_indices_of b sc.
Proof.
  intros H. unfold sync_indices_of. f_equal. apply map_ext. intros pk.
  rewrite <- !index_of_pubkey_find. now rewrite H.
Qed.

(* ---- (4) RotateEpochs ---- *)
Theorem epc_inv_rotate E f st st1 e :
  Config_wf (cfg E) -> lengths_inv f st -> (slot st + 1) mod SLOTS_PER_EPOCH (cfg E) = 0 ->
  epc_matches E f st e ->
  process_epoch E f (process_slot E f st) = Some st1 ->
  rotate_ok E (st1 <| slot := slot st1 + 1 |>) ->
  exists e', rotate_epochs E f (st1 <| slot := slot st1 + 1 |>) e = Ok e' /\
             epc_matches E f (st1 <| slot := slot st1 + 1 |>) e'.
Proof.
  intros W L Hb (V & P & [T1 T2 T3 T4 T5]) Hx R.
  pose proof (mid_step_frame E f st st1 L Hx) as SF.
  pose proof (process_epoch_sync E f _ st1 Hx) as [SY1 SY2].
  assert (Hs1 : slot st1 = slot st) by (rewrite (process_epoch_slot E f _ st1 Hx); apply slot_process_slot).
  pose proof (wf_slots_per_epoch _ W) as Hspe.
  set (st2 := st1 <| slot := slot st1 + 1 |>) in *.
  set (e0 := get_current_epoch E st) in *.
  assert (Hce0 : get_current_epoch E (process_slot E f st) = e0) by (unfold e0, get_current_epoch; now rewrite slot_process_slot).
  rewrite Hce0 in SY1, SY2.
  assert (Hce2 : get_current_epoch E st2 = e0 + 1).
  { unfold get_current_epoch, st2. cbn [set slot]. rewrite Hs1. apply epoch_next; assumption. }
  assert (Hpe2 : get_previous_epoch E st2 = e0).
  { unfold get_previous_epoch. rewrite Hce2. unfold GENESIS_EPOCH. destruct (N.eqb_spec (e0 + 1) 0); lia. }
  pose proof (rotate_ok_far E st2 W R) as Hfar2. rewrite Hce2 in Hfar2.
  assert (Hfar : e0 + 1 < FAR_FUTURE_EPOCH) by lia.
  pose proof R as [Rn Rp Rs Ri Re Rper]. rewrite Hce2 in Re.
  (* what the old context holds *)
  pose proof (f_equal ev_current_epoch V) as Vce. pose proof (f_equal ev_active V) as Vact.
  pose proof (f_equal ev_committees V) as Vcom. pose proof (f_equal ev_sync_current V) as Vsc.
  pose proof (f_equal ev_sync_next V) as Vsn.
  cbn [epc_to_view spec_epc_view ev_current_epoch ev_active ev_committees ev_sync_current ev_sync_next] in Vce, Vact, Vcom, Vsc, Vsn.
  fold e0 in Vce, Vact, Vcom, T2.
  injection Vact as _ Vac Van. injection Vcom as _ Vcc Vcn.
  (* the Spec side of the boundary *)
  pose proof (active_indices_step_stable E e0 st st2 e0 W SF ltac:(lia) Hfar) as A1.
  pose proof (active_indices_step_stable E e0 st st2 (e0 + 1) W SF ltac:(lia) Hfar) as A2.
  pose proof (committees_of_epoch_step_stable E e0 st st2 e0 W SF Hfar ltac:(lia) ltac:(lia)) as C1.
  pose proof (committees_of_epoch_step_stable E e0 st st2 (e0 + 1) W SF Hfar ltac:(lia) ltac:(lia)) as C2.
  pose proof (pubkeys_step_stable E e0 st st2 SF) as PK.
  (* the Go side *)
  unfold rotate_epochs. cbv zeta. rewrite T2.
  assert (Ea : add64 (e0 + 1) 1 = get_current_epoch E st2 + 1) by (rewrite Hce2; unfold add64; apply wrap64_small; lia).
  rewrite Ea.
  destruct (compute_shuffling_epoch_ok E st2 (get_current_epoch E st2 + 1) W ltac:(rewrite Hce2; lia) Rn)
    as (next & Hn & Ne & Na & Nc).
  rewrite Hn. cbn [bind].
  rewrite Van, <- A2, <- Hce2.
  destruct (compute_proposers_epoch_ok E st2 W ltac:(rewrite Hce2; lia) Rp) as (ps & Hps & Eps).
  rewrite Hps. cbn [bind fst snd].
  rewrite (load_current_stake_ok E st2 Rs Ri). cbn [bind fst snd].
  set (e1 := mkEpc (epc_cur e) (epc_next e) next (get_current_epoch E st2) ps (map v_effective_balance (validators st2))
                   (get_total_active_balance E st2) (N.sqrt (get_total_active_balance E st2))
                   (epc_sync_current e) (epc_sync_next e) (epc_pubkeys e)).
  assert (Hmatch : forall sc sn,
            sc = (if fork_ge f Altair then sync_indices_of st2 (current_sync_committee st2) else None) ->
            sn = (if fork_ge f Altair then sync_indices_of st2 (next_sync_committee st2) else None) ->
            (fork_ge f Altair = true -> sc <> None /\ sn <> None) ->
            epc_matches E f st2 (set_sync e1 sc sn)).
  { intros sc sn Hsc Hsn Hnn. split; [|split].
    - unfold epc_to_view, spec_epc_view, set_sync, e1. cbv zeta.
      cbn [epc_prev epc_cur epc_next epc_proposers epc_effective_balances epc_total_active_stake epc_sync_current epc_sync_next].
      rewrite Hpe2, T2, <- Hce2, Vac, Van, Na, Vcc, Vcn, Nc, Eps, <- Hsc, <- Hsn.
      rewrite Hce2, A1, A2, C1, C2. reflexivity.
    - unfold set_sync, e1. cbn [epc_pubkeys]. rewrite P. symmetry. exact PK.
    - unfold set_sync, e1. constructor; cbn [epc_prev epc_cur epc_next epc_proposers_epoch epc_total_active_stake
        epc_total_active_stake_sqrt epc_sync_current epc_sync_next]; try reflexivity.
      + rewrite Hpe2. exact Vce.
      + exact Ne.
      + exact Hnn. }
  destruct (fork_ge f Altair) eqn:Hfa.
  - destruct (N.eqb_spec (EPOCHS_PER_SYNC_COMMITTEE_PERIOD (cfg E)) 0) as [Hz|_]; [lia|].
    destruct (T5 eq_refl) as [Nc0 Nn0].
    destruct (N.eqb_spec (get_current_epoch E st2 mod EPOCHS_PER_SYNC_COMMITTEE_PERIOD (cfg E)) 0) as [Hm|Hm]; rewrite Hce2 in Hm.
    + (* a sync-committee period starts: current := cached next, next hydrated from the state *)
      destruct (SY1 eq_refl Hm) as [Scur Snext].
      destruct (sf_process_slot E f st) as [_ Spn]. rewrite Spn in Scur.
      destruct (epc_sync_next e) as [ln|] eqn:Hln; [|congruence]. cbn [bind].
      change (next_sync_committee st2) with (next_sync_committee st1).
      rewrite P, <- PK, hydrate_sync_committee_spec.
      change (sync_indices_of st2 (next_sync_committee st1)) with (sync_indices_of st1 (next_sync_committee st1)).
      destruct (sync_indices_of st1 (next_sync_committee st1)) as [l2|] eqn:Hl2; [|congruence]. cbn [bind].
      fold e1. eexists. split; [reflexivity|]. apply Hmatch.
      * change (current_sync_committee st2) with (current_sync_committee st1). rewrite Scur.
        rewrite (sync_indices_pubkeys st2 st _ PK). exact Vsn.
      * symmetry. exact Hl2.
      * intros _. split; discriminate.
    + (* inside a period: the cached indices stay *)
      destruct (SY2 (or_intror Hm)) as [Scur Snext].
      destruct (sf_process_slot E f st) as [Spc Spn]. rewrite Spc in Scur. rewrite Spn in Snext.
      fold e1. exists e1. split; [reflexivity|].
      replace e1 with (set_sync e1 (epc_sync_current e) (epc_sync_next e)) by reflexivity. apply Hmatch.
      * change (current_sync_committee st2) with (current_sync_committee st1). rewrite Scur.
        rewrite (sync_indices_pubkeys st2 st _ PK). exact Vsc.
      * change (next_sync_committee st2) with (next_sync_committee st1). rewrite Snext.
        rewrite (sync_indices_pubkeys st2 st _ PK). exact Vsn.
      * intros _. split; assumption.
  - fold e1. exists e1. split; [reflexivity|].
    replace e1 with (set_sync e1 (epc_sync_current e) (epc_sync_next e)) by reflexivity. apply Hmatch.
    + exact Vsc.
    + exact Vsn.
    + intros Hc. discriminate Hc.
Qed.

(* ====================================================================================================== *)
(* E. fork upgrades                                                                                         *)
(* ====================================================================================================== *)
(* apart from the sync-committee indices the view depends on the current epoch, the registry and the mixes only
   (not on the fork) *)
Lemma spec_view_nonsync E f f' st st' :
  get_current_epoch E st' = get_current_epoch E st -> validators st' = validators st -> randao_mixes st' = randao_mixes st ->
  ev_current_epoch (spec_epc_view E f' st') = ev_current_epoch (spec_epc_view E f st) /\
  ev_active (spec_epc_view E f' st') = ev_active (spec_epc_view E f st) /\
  ev_committees (spec_epc_view E f' st') = ev_committees (spec_epc_view E f st) /\
  ev_proposers (spec_epc_view E f' st') = ev_proposers (spec_epc_view E f st) /\
  ev_effective_balances (spec_epc_view E f' st') = ev_effective_balances (spec_epc_view E f st) /\
  ev_total_active_stake (spec_epc_view E f' st') = ev_total_active_stake (spec_epc_view E f st).
Proof.
  intros HE HV HM.
  assert (HP : get_previous_epoch E st' = get_previous_epoch E st) by (unfold get_previous_epoch; now rewrite HE).
  unfold spec_epc_view. cbv zeta.
  cbn [ev_current_epoch ev_active ev_committees ev_proposers ev_effective_balances ev_total_active_stake].
  rewrite HE, HP. split; [reflexivity|]. split; [|split; [|split; [|split]]].
  - rewrite !(active_ext st st') by exact HV. reflexivity.
  - unfold committees_of_epoch, get_committee_count_per_slot. cbv zeta.
    rewrite !(active_ext st st') by exact HV.
    f_equal; [|f_equal; [|f_equal]]; apply map_ext; intros s; apply map_ext; intros i; rewrite (committee_ext E st st') by assumption; reflexivity.
  - apply map_ext. intros s. unfold proposer_at. cbv zeta. rewrite HE.
    rewrite (active_ext st st') by exact HV. rewrite (get_seed_ext E st st') by exact HM.
    apply compute_proposer_index_ext. intros i _. apply eff_bal_ext. exact HV.
  - now rewrite HV.
  - unfold get_total_active_balance. rewrite HE, (active_ext st st') by exact HV.
    apply total_balance_ext. intros i _. apply eff_bal_ext. exact HV.
Qed.

Lemma upgrade_to_sync E fn st st' : upgrade_to E fn st = Some st' ->
  match fn with
  | Altair => exists post sc, validators post = validators st' /\ get_next_sync_committee E post = Some sc /\
                              current_sync_committee st' = sc /\ next_sync_committee st' = sc
  | _ => sync_same st st'
  end.
Proof.
  intros H. unfold upgrade_to in H. cbv beta zeta in H. destruct fn; inv_all; try (split; reflexivity).
  exists b, s. repeat split; try reflexivity. exact Hx0.
Qed.

Lemma set_sync_same e : set_sync e (epc_sync_current e) (epc_sync_next e) = e.
Proof. destruct e; reflexivity. Qed.

(* moving a matching context to a state with the same epoch, registry and mixes: only the sync indices need care *)
Lemma epc_matches_transfer E f f' st st' e sc sn :
  epc_matches E f st e ->
  get_current_epoch E st' = get_current_epoch E st -> validators st' = validators st -> randao_mixes st' = randao_mixes st ->
  ev_sync_current (spec_epc_view E f' st') = sc -> ev_sync_next (spec_epc_view E f' st') = sn ->
  (fork_ge f' Altair = true -> sc <> None /\ sn <> None) ->
  epc_matches E f' st' (set_sync e sc sn).
Proof.
  intros (V & P & [T1 T2 T3 T4 T5]) He Hv Hm Hsc Hsn Hnn.
  destruct (spec_view_nonsync E f f' st st' He Hv Hm) as (N1 & N2 & N3 & N4 & N5 & N6).
  rewrite <- V in N1, N2, N3, N4, N5, N6.
  split; [|split].
  - apply epc_view_eq; try (symmetry; assumption).
  - unfold set_sync. cbn [epc_pubkeys]. rewrite Hv. exact P.
  - unfold set_sync. constructor; cbn [epc_prev epc_next epc_proposers_epoch epc_total_active_stake epc_total_active_stake_sqrt
      epc_sync_current epc_sync_next]; try assumption.
    + unfold get_previous_epoch. rewrite He. exact T1.
    + rewrite He. exact T2.
    + rewrite He. exact T3.
Qed.

Lemma epc_inv_upgrade_to E f fn st st' e :
  next_fork f = Some fn -> upgrade_to E fn st = Some st' -> epc_matches E f st e ->
  exists e', (match fn with Altair => load_sync_committees e st' | _ => Ok e end) = Ok e' /\ epc_matches E fn st' e'.
Proof.
  intros Hn Hu M.
  pose proof (bf_upgrade_to E fn st st st' Hu (bf_refl st)) as (Hs & _).
  pose proof (vm_upgrade_to E fn st st' Hu) as [Hv Hm].
  assert (He : get_current_epoch E st' = get_current_epoch E st) by (unfold get_current_epoch; now rewrite Hs).
  pose proof (upgrade_to_sync E fn st st' Hu) as Hsync.
  assert (Hpk : map v_pubkey (validators st') = map v_pubkey (validators st)) by now rewrite Hv.
  assert (Hold : forall g, g <> Phase0 -> fork_ge g Altair = true) by (intros [] Hg; try reflexivity; contradiction).
  assert (Hkeep : fork_ge f Altair = true -> fork_ge fn Altair = true -> sync_same st st' -> epc_matches E fn st' e).
  { intros Hf Hfn [Sc Sn]. rewrite <- (set_sync_same e).
    destruct M as (V & P & T). pose proof (f_equal ev_sync_current V) as Vsc. pose proof (f_equal ev_sync_next V) as Vsn.
    cbn [epc_to_view spec_epc_view ev_sync_current ev_sync_next] in Vsc, Vsn. rewrite Hf in Vsc, Vsn.
    apply (epc_matches_transfer E f fn st st'); try assumption.
    - split; [exact V|split; assumption].
    - cbn [spec_epc_view ev_sync_current]. rewrite Hfn, Sc, (sync_indices_pubkeys st' st _ Hpk). symmetry. exact Vsc.
    - cbn [spec_epc_view ev_sync_next]. rewrite Hfn, Sn, (sync_indices_pubkeys st' st _ Hpk). symmetry. exact Vsn.
    - intros _. exact (tg_sync _ _ _ _ T Hf). }
  destruct fn.
  - destruct f; discriminate Hn.
  - (* altair: LoadSyncCommittees on the upgraded state *)
    destruct Hsync as (post & sc & Hvp & Hnsc & Hc & Hnx).
    pose proof (next_sync_committee_registered E post sc Hnsc) as Hreg.
    rewrite (sync_indices_pubkeys post st' sc ltac:(now rewrite Hvp)) in Hreg.
    destruct (sync_indices_of st' sc) as [l|] eqn:Hl; [|congruence].
    unfold load_sync_committees. destruct M as (V & P & T). rewrite P, <- Hpk, !hydrate_sync_committee_spec, Hc, Hnx, Hl.
    cbn [bind]. eexists. split; [reflexivity|].
    apply (epc_matches_transfer E f Altair st st'); try assumption.
    + split; [exact V|split; assumption].
    + cbn [spec_epc_view ev_sync_current fork_ge fork_idx N.leb N.compare]. rewrite Hc. exact Hl.
    + cbn [spec_epc_view ev_sync_next fork_ge fork_idx N.leb N.compare]. rewrite Hnx. exact Hl.
    + intros _. split; discriminate.
  - exists e. split; [reflexivity|]. apply Hkeep; [destruct f; try discriminate Hn; reflexivity|reflexivity|exact Hsync].
  - exists e. split; [reflexivity|]. apply Hkeep; [destruct f; try discriminate Hn; reflexivity|reflexivity|exact Hsync].
  - exists e. split; [reflexivity|]. apply Hkeep; [destruct f; try discriminate Hn; reflexivity|reflexivity|exact Hsync].
Qed.

(* ---- (5) UpgradeMaybe ---- *)
Theorem epc_inv_upgrade E fuel : forall f st f' st' e,
  epc_matches E f st e -> upgrade_maybe E fuel f st = Some (f', st') ->
  exists e', epc_upgrade_maybe E fuel f st e = Ok e' /\ epc_matches E f' st' e'.
Proof.
  induction fuel as [|k IH]; intros f st f' st' e M H; cbn [upgrade_maybe epc_upgrade_maybe] in *.
  - injection H as <- <-. exists e. split; [reflexivity|exact M].
  - destruct (next_fork f) as [fn|] eqn:Hn.
    + destruct ((slot st mod SLOTS_PER_EPOCH (cfg E) =? 0) && (compute_epoch_at_slot E (slot st) =? fork_epoch_of E fn)).
      * destruct (upgrade_to E fn st) as [sta|] eqn:Hu; [|discriminate H]. cbn in H.
        destruct (epc_inv_upgrade_to E f fn st sta e Hn Hu M) as (e1 & H1 & M1). rewrite H1. cbn [bind].
        apply (IH fn sta f' st' e1 M1 H).
      * injection H as <- <-. exists e. split; [reflexivity|exact M].
    + injection H as <- <-. exists e. split; [reflexivity|exact M].
Qed.

(* ====================================================================================================== *)
(* F. whole slot steps, ProcessSlots, StateTransition, chains                                               *)
(* ====================================================================================================== *)
(* the side conditions of RotateEpochs, asked of the state it is run on, whenever the step crosses an epoch boundary *)
Definition slot_hyp (E : Env) (f : fork) (st : BeaconState) : Prop :=
  (slot st + 1) mod SLOTS_PER_EPOCH (cfg E) = 0 ->
  forall st1, process_epoch E f (process_slot E f st) = Some st1 -> rotate_ok E (st1 <| slot := slot st1 + 1 |>).

Theorem epc_inv_slot_step E f st f' st' e :
  Config_wf (cfg E) -> lengths_inv f st -> epc_matches E f st e ->
  slot_step E f st = Some (f', st') -> slot_hyp E f st ->
  exists e', epc_slot_step E f st e = Ok e' /\ epc_matches E f' st' e'.
Proof.
  intros W L M H Hh. pose proof (wf_slots_per_epoch _ W) as Hspe.
  destruct (N.eq_dec ((slot st + 1) mod SLOTS_PER_EPOCH (cfg E)) 0) as [Hb|Hb].
  - pose proof H as H0. unfold slot_step in H0. cbv beta zeta in H0. rewrite slot_process_slot in H0.
    unfold epc_slot_step. cbv beta zeta. rewrite slot_process_slot.
    destruct (N.eqb_spec ((slot st + 1) mod SLOTS_PER_EPOCH (cfg E)) 0) as [_|Hn]; [|contradiction].
    destruct (process_epoch E f (process_slot E f st)) as [st1|] eqn:Hx; [|discriminate H0]. cbn in H0.
    destruct (epc_inv_rotate E f st st1 e W L Hb M Hx (Hh Hb st1 Hx)) as (e1 & R1 & M1). rewrite R1. cbn [bind].
    apply (epc_inv_upgrade E 5 f _ f' st' e1 M1 H0).
  - destruct (epc_inv_slot E f st f' st' e Hspe Hb M H) as (-> & R & M'). exists e. split; assumption.
Qed.

Fixpoint slots_hyp (E : Env) (fuel : nat) (f : fork) (st : BeaconState) (target : N) : Prop :=
  if target <=? slot st then True else
  match fuel with
  | O => True
  | S k => slot_hyp E f st /\
           match slot_step E f st with Some (f1, st1) => slots_hyp E k f1 st1 target | None => True end
  end.

Theorem epc_inv_slots_loop E : forall fuel f st e target f' st',
  Config_wf (cfg E) -> lengths_inv f st -> epc_matches E f st e ->
  slots_loop E fuel f st target = Some (f', st') -> slots_hyp E fuel f st target ->
  exists e', epc_slots_loop E fuel f st e target = Ok e' /\ epc_matches E f' st' e'.
Proof.
  induction fuel as [|k IH]; intros f st e target f' st' W L M H Hh; cbn [slots_loop epc_slots_loop slots_hyp] in *;
    destruct (target <=? slot st).
  - injection H as <- <-. exists e. split; [reflexivity|exact M].
  - discriminate H.
  - injection H as <- <-. exists e. split; [reflexivity|exact M].
  - destruct Hh as [Hs Hrest]. destruct (slot_step E f st) as [[f1 st1]|] eqn:Hstep; [|discriminate H]. cbn in H.
    destruct (epc_inv_slot_step E f st f1 st1 e W L M Hstep Hs) as (e1 & R1 & M1). rewrite R1. cbn [bind].
    apply (IH f1 st1 e1 target f' st' W (li_slot_step E f st f1 st1 Hstep L) M1 H Hrest).
Qed.

Definition process_slots_hyp (E : Env) (f : fork) (st : BeaconState) (target : N) : Prop :=
  slots_hyp E (N.to_nat (target - slot st)) f st target.

Theorem epc_inv_process_slots E f st e target f' st' :
  Config_wf (cfg E) -> lengths_inv f st -> epc_matches E f st e ->
  process_slots E f st target = Some (f', st') -> process_slots_hyp E f st target ->
  exists e', epc_process_slots E f st e target = Ok e' /\ epc_matches E f' st' e'.
Proof.
  intros W L M H Hh. unfold process_slots in H. unfold epc_process_slots.
  destruct (slot st <? target); [|discriminate H]. destruct (target - slot st <=? MAX_SLOTS_PER_CALL); [|discriminate H].
  cbn in H. cbn [andb]. eapply epc_inv_slots_loop; eassumption.
Qed.

(* a block: the slots up to it, and the uint64 range of the epoch at the block's slot *)
Definition transition_hyp (E : Env) (f : fork) (st : BeaconState) (signed_block : value) : Prop :=
  let t := vuint (vfield (vfield signed_block 0) 0) in
  process_slots_hyp E f st t /\
  forall f1 st1, process_slots E f st t = Some (f1, st1) -> get_current_epoch E st1 + 1 < FAR_FUTURE_EPOCH.

Theorem epc_inv_state_transition E f st e bf sb validate f' st' :
  Config_wf (cfg E) -> lengths_inv f st -> epc_matches E f st e ->
  state_transition E f st bf sb validate = Some (f', st') -> transition_hyp E f st sb ->
  exists e', epc_state_transition E f st e bf sb validate = Ok e' /\ epc_matches E f' st' e'.
Proof.
  intros W L M H [Hs Hfar].
  destruct (TransitionRules.state_transition_inv E f st bf sb validate f' st' H) as (st1 & Hsl & _ & _ & Hblk & _).
  unfold epc_state_transition. cbv zeta. rewrite Hsl.
  destruct (epc_inv_process_slots E f st e _ f' st1 W L M Hsl Hs) as (e1 & R1 & M1). rewrite R1. cbn [bind]. rewrite Hblk.
  eexists. split; [reflexivity|]. eapply epc_inv_block; try eassumption. apply (Hfar f' st1 Hsl).
Qed.

(* ---- chains ---- *)
Definition chain_step_hyp (E : Env) (f : fork) (st : BeaconState) (s : chain_step) : Prop :=
  match s with
  | CSlots t => process_slots_hyp E f st t
  | CBlock bf sb v => transition_hyp E f st sb
  end.
Fixpoint chain_hyp (E : Env) (steps : list chain_step) (f : fork) (st : BeaconState) : Prop :=
  match steps with
  | [] => True
  | s :: t => chain_step_hyp E f st s /\
              match spec_chain_step E f st s with Some (f1, st1) => chain_hyp E t f1 st1 | None => True end
  end.

Lemma li_spec_chain_step E f st s f' st' : spec_chain_step E f st s = Some (f', st') -> lengths_inv f st -> lengths_inv f' st'.
Proof.
  destruct s as [t|bf sb v]; cbn [spec_chain_step]; intros H L.
  - eapply li_process_slots; eassumption.
  - eapply li_state_transition; eassumption.
Qed.

(* ---- (6) at every point of every chain the maintained context matches the state ---- *)
Theorem epc_always_fresh E : forall steps f st e f' st',
  Config_wf (cfg E) -> lengths_inv f st -> epc_matches E f st e ->
  spec_chain E steps f st = Some (f', st') -> chain_hyp E steps f st ->
  exists e', epc_chain E steps f st e = Ok e' /\ epc_matches E f' st' e' /\ lengths_inv f' st'.
Proof.
  induction steps as [|s steps IH]; intros f st e f' st' W L M H Hh; cbn [spec_chain epc_chain chain_hyp] in *.
  - injection H as <- <-. exists e. split; [reflexivity|split; assumption].
  - destruct Hh as [Hs Hrest]. destruct (spec_chain_step E f st s) as [[f1 st1]|] eqn:Hstep; [|discriminate H].
    assert (G : exists e1, epc_chain_step E f st e s = Ok e1 /\ epc_matches E f1 st1 e1).
    { destruct s as [t|bf sb v]; cbn [spec_chain_step epc_chain_step chain_step_hyp] in *.
      - eapply epc_inv_process_slots; eassumption.
      - eapply epc_inv_state_transition; eassumption. }
    destruct G as (e1 & R1 & M1). rewrite R1. cbn [bind].
    apply (IH f1 st1 e1 f' st' W (li_spec_chain_step E f st s f1 st1 Hstep L) M1 H Hrest).
Qed.

(* two contexts that match the same state agree on everything that is compared *)
Lemma epc_matches_unique E f st e1 e2 : epc_matches E f st e1 -> epc_matches E f st e2 ->
  epc_to_view e1 = epc_to_view e2 /\ epc_pubkeys e1 = epc_pubkeys e2.
Proof. intros (V1 & P1 & _) (V2 & P2 & _). split; congruence. Qed.

(* reload: a context built from scratch for the state a chain has reached equals the maintained one on the compared
   projection, and continuing any further chain from either gives equal projections again *)
Theorem reload_continue_same E steps f st e f' st' more f'' st'' :
  Config_wf (cfg E) -> lengths_inv f st -> epc_matches E f st e ->
  spec_chain E steps f st = Some (f', st') -> chain_hyp E steps f st -> new_ok E st' ->
  spec_chain E more f' st' = Some (f'', st'') -> chain_hyp E more f' st' ->
  exists live fresh live2 fresh2,
    epc_chain E steps f st e = Ok live /\ new_epochs_context E f' st' = Ok fresh /\
    epc_to_view live = epc_to_view fresh /\ epc_pubkeys live = epc_pubkeys fresh /\
    epc_chain E more f' st' live = Ok live2 /\ epc_chain E more f' st' fresh = Ok fresh2 /\
    epc_to_view live2 = epc_to_view fresh2 /\ epc_pubkeys live2 = epc_pubkeys fresh2 /\
    epc_to_view live2 = spec_epc_view E f'' st''.
Proof.
  intros W L M H Hh Hnew H2 Hh2.
  destruct (epc_always_fresh E steps f st e f' st' W L M H Hh) as (live & R1 & M1 & L1).
  destruct (new_epochs_context_matches E f' st' W Hnew (epc_matches_sync_registered E f' st' live M1)) as (fresh & R2 & M2).
  destruct (epc_always_fresh E more f' st' live f'' st'' W L1 M1 H2 Hh2) as (live2 & R3 & M3 & _).
  destruct (epc_always_fresh E more f' st' fresh f'' st'' W L1 M2 H2 Hh2) as (fresh2 & R4 & M4 & _).
  destruct (epc_matches_unique E f' st' live fresh M1 M2) as [U1 U2].
  destruct (epc_matches_unique E f'' st'' live2 fresh2 M3 M4) as [U3 U4].
  exists live, fresh, live2, fresh2. repeat split; try assumption. apply M3.
Qed.

(* the usual start: the context zrnt builds for the first state (genesis, or a state loaded from disk) *)
Corollary epc_always_fresh_from_new E steps f st f' st' :
  Config_wf (cfg E) -> lengths_inv f st -> new_ok E st -> sync_registered f st ->
  spec_chain E steps f st = Some (f', st') -> chain_hyp E steps f st ->
  exists e0 e', new_epochs_context E f st = Ok e0 /\ epc_chain E steps f st e0 = Ok e' /\ epc_matches E f' st' e'.
Proof.
  intros W L Hn Hs H Hh. destruct (new_epochs_context_matches E f st W Hn Hs) as (e0 & R0 & M0).
  destruct (epc_always_fresh E steps f st e0 f' st' W L M0 H Hh) as (e' & R & M & _).
  exists e0, e'. split; [exact R0|]. split; [exact R|exact M].
Qed.
Lemma sync_registered_phase0 st : sync_registered Phase0 st.
Proof. intros H. discriminate H. Qed.
