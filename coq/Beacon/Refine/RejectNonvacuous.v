(* The decision rules of Beacon/Refine/RejectRules.v are not vacuous: on a concrete state the Spec accepts a block
   header / a voluntary exit / a deposit satisfying the right-hand sides, and rejects single-field corruptions. *)
From Coq Require Import String.
From Coq Require Import NArith ZArith Lia List Bool.
From RecordUpdate Require Import RecordSet.
From V Require Import Ssz.SszCore Beacon.Config Beacon.Schemas Beacon.State
  Beacon.Spec.Helpers Beacon.Spec.Epoch Beacon.Spec.Block Beacon.Spec.Transition
  Beacon.Refine.BlockLemmas Beacon.Refine.RejectRules Beacon.Refine.BlockFixtures.
Import ListNotations RecordSetNotations.
Local Open Scope list_scope.
Local Open Scope N_scope.

(* two validators active since genesis, slot 520 = first slot of epoch 65 (> SHARD_COMMITTEE_PERIOD = 64) *)
Definition rn_state : BeaconState :=
  fx_state 520 [fx_validator 0 false (32 * GWEI_ETH) false 0 FAR_FUTURE_EPOCH FAR_FUTURE_EPOCH;
                fx_validator 1 false (32 * GWEI_ETH) false 0 FAR_FUTURE_EPOCH FAR_FUTURE_EPOCH]
               [32 * GWEI_ETH; 32 * GWEI_ETH].
(* an environment whose BLS oracle refuses everything *)
Definition deny_env : Env :=
  mkEnv blk_cfg (fun _ => repeat 0 32) (fun _ => repeat 0 32) (fun _ _ _ => false) (fun _ _ _ => false) (fun _ => repeat 0 48)
        (fun _ _ _ => true).
Definition rn_block (slot_ proposer : N) : value :=
  VCont [VUint slot_; VUint proposer;
         VBytes (htr blk_env BeaconBlockHeaderT (header_to_value (latest_block_header rn_state))); VBytes z32;
         default_value (BeaconBlockBodyT blk_cfg Altair)].
Definition rn_exit (epoch idx : N) : value := VCont [VCont [VUint epoch; VUint idx]; VBytes (repeat 0 96)].
Definition rn_deposit : value :=
  VCont [VSeq (repeat (VBytes z32) 33); VCont [VBytes [9]; VBytes z32; VUint (32 * GWEI_ETH); VBytes (repeat 0 96)]].

Definition is_some {A} (o : option A) : bool := match o with Some _ => true | None => false end.

Example reject_rules_nonvacuous :
  (* header: the right block is accepted; wrong slot, wrong proposer are rejected *)
  is_some (process_block_header blk_env Altair rn_state (rn_block 520 0)) = true
  /\ process_block_header blk_env Altair rn_state (rn_block 521 0) = None
  /\ process_block_header blk_env Altair rn_state (rn_block 520 1) = None
  (* voluntary exit: accepted when aged and signed; rejected for a future epoch, an unknown index, a refused signature *)
  /\ is_some (process_voluntary_exit blk_env Altair rn_state (rn_exit 65 1)) = true
  /\ process_voluntary_exit blk_env Altair rn_state (rn_exit 66 1) = None
  /\ process_voluntary_exit blk_env Altair rn_state (rn_exit 65 2) = None
  /\ process_voluntary_exit deny_env Altair rn_state (rn_exit 65 1) = None
  (* deposit of a new key: appended when the proof of possession verifies, skipped (NOT rejected) when it does not *)
  /\ option_map (fun s => (length (validators s), eth1_deposit_index s)) (process_deposit blk_env Altair rn_state rn_deposit) = Some (3%nat, 1)
  /\ option_map (fun s => (length (validators s), eth1_deposit_index s)) (process_deposit deny_env Altair rn_state rn_deposit) = Some (2%nat, 1).
Proof. repeat apply conj; vm_compute; reflexivity. Qed.
