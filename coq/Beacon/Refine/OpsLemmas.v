(* Generic facts for the phase0 accounting proofs: arrays built by sequences of point additions ("ops"), strictly
   sorted index lists (sort_uniq, filters of 0..n-1), existsb/memN. *)
From Coq Require Import NArith ZArith Lia List Bool Sorted.
From Coq Require Import ZifyN ZifyNat ZifyBool.
From V Require Import Base.U64 Beacon.Config Beacon.State Beacon.Spec.Helpers Beacon.Spec.Epoch Beacon.Impl.Flat.
From V Require Import Beacon.Refine.ListLemmas Beacon.Refine.FoldLemmas.
Import ListNotations.
Local Open Scope N_scope.
Ltac Zify.zify_post_hook ::= Z.div_mod_to_equations.

(* ---------- arrays as folds of point additions ---------- *)
Definition ops := list (N * N).       (* (index, amount) *)
Definition foldops (o : ops) (l : list N) : list N := fold_left (fun l ix => updN l (fst ix) (fun x => x + snd ix)) o l.
Definition foldops64 (o : ops) (l : list N) : list N := fold_left (fun l ix => updN l (fst ix) (fun x => add64 x (snd ix))) o l.

Lemma foldops_app a b l : foldops (a ++ b) l = foldops b (foldops a l).
Proof. unfold foldops. apply fold_left_app. Qed.
Lemma foldops64_app a b l : foldops64 (a ++ b) l = foldops64 b (foldops64 a l).
Proof. unfold foldops64. apply fold_left_app. Qed.
Lemma foldops_length o : forall l, length (foldops o l) = length l.
Proof. induction o as [|[i x] o IH]; intros l; cbn; [reflexivity|]. unfold foldops in IH. rewrite IH. apply updN_length. Qed.
Lemma foldops64_length o : forall l, length (foldops64 o l) = length l.
Proof. induction o as [|[i x] o IH]; intros l; cbn; [reflexivity|]. unfold foldops64 in IH. rewrite IH. apply updN_length. Qed.

Definition entry (l : list N) (j : N) : N := match nthN l j with Some x => x | None => 0 end.
Lemma entry_updN_add l i x j : entry (updN l i (fun y => y + x)) j = if (i =? j) && (j <? N.of_nat (length l)) then entry l j + x else entry l j.
Proof.
  unfold entry. destruct (N.eqb_spec i j) as [->|Hne]; cbn [andb].
  - rewrite nthN_updN_same. rewrite nthN_nth_error. destruct (nth_error l (N.to_nat j)) as [y|] eqn:Hy; cbn [option_map].
    + assert (N.to_nat j < length l)%nat by (apply nth_error_Some; congruence). destruct (N.ltb_spec j (N.of_nat (length l))); [reflexivity|lia].
    + apply nth_error_None in Hy. destruct (N.ltb_spec j (N.of_nat (length l))); [lia|reflexivity].
  - rewrite nthN_updN_other by exact Hne. reflexivity.
Qed.
(* entries only grow along a fold of additions *)
Lemma foldops_mono o : forall l j, entry l j <= entry (foldops o l) j.
Proof.
  induction o as [|[i x] o IH]; intros l j; cbn; [lia|]. unfold foldops in IH.
  specialize (IH (updN l i (fun y => y + x)) j). rewrite entry_updN_add in IH.
  destruct ((i =? j) && (j <? N.of_nat (length l))); lia.
Qed.
(* the uint64 array equals the unbounded one when no final entry reaches 2^64 *)
Lemma foldops64_eq o : forall l,
  (forall j, entry (foldops o l) j < two64) -> foldops64 o l = foldops o l.
Proof.
  induction o as [|[i x] o IH]; intros l Hb; cbn; [reflexivity|]. unfold foldops, foldops64 in *. cbn [fst snd] in *.
  assert (Hupd : updN l i (fun y => add64 y x) = updN l i (fun y => y + x)).
  { apply updN_ext_at. intros y Hy. unfold add64. apply wrap64_small.
    pose proof (foldops_mono o (updN l i (fun y => y + x)) i) as Hm. unfold foldops in Hm.
    specialize (Hb i). cbn [fold_left fst snd] in Hb.
    rewrite entry_updN_add, N.eqb_refl in Hm. cbn [andb] in Hm.
    assert (Hi : i < N.of_nat (length l)).
    { rewrite nthN_nth_error in Hy. assert (N.to_nat i < length l)%nat by (apply nth_error_Some; congruence). lia. }
    destruct (N.ltb_spec i (N.of_nat (length l))); [|lia]. unfold entry in Hm at 1. rewrite Hy in Hm. lia. }
  rewrite Hupd. apply IH. exact Hb.
Qed.

(* ---------- strictly sorted lists ---------- *)
Lemma sorted_lt_ext : forall l1 l2 : list N,
  StronglySorted N.lt l1 -> StronglySorted N.lt l2 -> (forall x, In x l1 <-> In x l2) -> l1 = l2.
Proof.
  induction l1 as [|a l1 IH]; intros l2 H1 H2 Hin.
  - destruct l2 as [|b l2]; [reflexivity|]. exfalso. apply (proj2 (Hin b)). left. reflexivity.
  - destruct l2 as [|b l2]; [exfalso; apply (proj1 (Hin a)); left; reflexivity|].
    apply StronglySorted_inv in H1. destruct H1 as [H1 Ha]. apply StronglySorted_inv in H2. destruct H2 as [H2 Hb].
    rewrite Forall_forall in Ha, Hb.
    assert (a = b).
    { destruct (proj1 (Hin a) (or_introl eq_refl)) as [Hab|Hab]; [symmetry; exact Hab|].
      destruct (proj2 (Hin b) (or_introl eq_refl)) as [Hba|Hba]; [exact Hba|].
      specialize (Ha b Hba). specialize (Hb a Hab). lia. }
    subst b. f_equal. apply IH; try assumption. intros x. split; intros Hx.
    + destruct (proj1 (Hin x) (or_intror Hx)) as [Hxa|Hx2]; [|exact Hx2]. subst x. specialize (Ha a Hx). lia.
    + destruct (proj2 (Hin x) (or_intror Hx)) as [Hxa|Hx2]; [|exact Hx2]. subst x. specialize (Hb a Hx). lia.
Qed.
Lemma sorted_filter (q : N -> bool) l : StronglySorted N.lt l -> StronglySorted N.lt (filter q l).
Proof.
  induction 1 as [|a l Hs IH Ha]; cbn [filter]; [constructor|]. destruct (q a); [|exact IH].
  constructor; [exact IH|]. rewrite Forall_forall in *. intros x Hx. apply filter_In in Hx. apply Ha. apply Hx.
Qed.
Lemma seqN_in s n x : In x (seqN s n) <-> s <= x < s + N.of_nat n.
Proof.
  revert s. induction n as [|n IH]; intros s; cbn [seqN]; [split; [intros []|lia]|].
  split.
  - intros [<-|H]; [lia|]. apply IH in H. lia.
  - intros H. destruct (N.eq_dec s x) as [->|Hne]; [left; reflexivity|right; apply IH; lia].
Qed.
Lemma seqN_sorted n : forall s, StronglySorted N.lt (seqN s n).
Proof.
  induction n as [|n IH]; intros s; cbn [seqN]; constructor; [apply IH|].
  rewrite Forall_forall. intros x Hx. apply seqN_in in Hx. lia.
Qed.

(* sort_uniq *)
Lemma insert_sorted_in x l z : In z (insert_sorted x l) <-> z = x \/ In z l.
Proof.
  induction l as [|y l IH]; cbn [insert_sorted].
  - split; [intros [H|[]]; left; symmetry; exact H|intros [->|[]]; left; reflexivity].
  - destruct (N.ltb_spec x y).
    + cbn [In]. split; [intros [H1|H1]; [left; symmetry; exact H1|right; exact H1]|intros [->|H1]; [left; reflexivity|right; exact H1]].
    + destruct (N.eqb_spec x y) as [->|Hne].
      * split; [intros H1; right; exact H1|intros [->|H1]; [left; reflexivity|exact H1]].
      * cbn [In]. rewrite IH. tauto.
Qed.
Lemma insert_sorted_sorted x l : StronglySorted N.lt l -> StronglySorted N.lt (insert_sorted x l).
Proof.
  induction 1 as [|y l Hs IH Hy]; cbn [insert_sorted]; [repeat constructor|].
  rewrite Forall_forall in Hy. destruct (N.ltb_spec x y).
  - constructor; [constructor; [exact Hs|rewrite Forall_forall; exact Hy]|].
    rewrite Forall_forall. intros z [<-|Hz]; [exact H|]. specialize (Hy z Hz). lia.
  - destruct (N.eqb_spec x y) as [->|Hne]; [constructor; [exact Hs|rewrite Forall_forall; exact Hy]|].
    constructor; [exact IH|]. rewrite Forall_forall. intros z Hz. apply insert_sorted_in in Hz.
    destruct Hz as [->|Hz]; [lia|apply Hy; exact Hz].
Qed.
Lemma sort_uniq_in l z : In z (sort_uniq l) <-> In z l.
Proof.
  induction l as [|x l IH]; cbn [sort_uniq fold_right]; [tauto|]. fold (sort_uniq l). rewrite insert_sorted_in, IH. cbn [In]. split; intros [H|H]; auto.
Qed.
Lemma sort_uniq_sorted l : StronglySorted N.lt (sort_uniq l).
Proof. induction l as [|x l IH]; cbn [sort_uniq fold_right]; [constructor|]. apply insert_sorted_sorted. exact IH. Qed.

(* ---------- existsb / memN ---------- *)
Lemma memN_true_in x l : memN x l = true <-> In x l.
Proof. apply memN_in. Qed.
Lemma memN_eq_iff x l b : (memN x l = b) <-> (In x l <-> b = true).
Proof.
  destruct b; [rewrite memN_in; tauto|]. split.
  - intros H. split; [intros Hin; apply memN_in in Hin; congruence|discriminate].
  - intros H. destruct (memN x l) eqn:Hm; [|reflexivity]. apply memN_in in Hm. apply H in Hm. discriminate.
Qed.
Lemma existsb_filter {A} (p q : A -> bool) l : existsb p (filter q l) = existsb (fun a => q a && p a) l.
Proof. induction l as [|a l IH]; cbn [filter existsb]; [reflexivity|]. destruct (q a); cbn [existsb andb]; rewrite IH; reflexivity. Qed.
Lemma in_concat_map {A} (g : A -> list N) (l : list A) x : In x (concat (map g l)) <-> exists a, In a l /\ In x (g a).
Proof.
  rewrite in_concat. split.
  - intros [s [Hs Hx]]. apply in_map_iff in Hs. destruct Hs as [a [<- Ha]]. exists a. split; assumption.
  - intros [a [Ha Hx]]. exists (g a). split; [apply in_map; exact Ha|exact Hx].
Qed.
Lemma existsb_true_iff {A} (p : A -> bool) l : existsb p l = true <-> exists a, In a l /\ p a = true.
Proof. apply existsb_exists. Qed.

(* filtered index lists as filters of 0..n-1 *)
Lemma idxs_filter_seqN {A} (p : A -> bool) : forall (l : list A) k,
  idxs p k l = filter (fun i => match nth_error l (N.to_nat (i - k)) with Some x => p x | None => false end) (seqN k (length l)).
Proof.
  induction l as [|y l IH]; intros k; [reflexivity|]. rewrite idxs_cons. cbn [length seqN filter].
  rewrite N.sub_diag. cbn [N.to_nat nth_error]. rewrite IH.
  assert (Hf : filter (fun i => match nth_error l (N.to_nat (i - (k + 1))) with Some x => p x | None => false end) (seqN (k + 1) (length l)) =
               filter (fun i => match nth_error (y :: l) (N.to_nat (i - k)) with Some x => p x | None => false end) (seqN (k + 1) (length l))).
  { apply filter_ext_in. intros i Hi. apply seqN_in in Hi.
    replace (N.to_nat (i - k)) with (S (N.to_nat (i - (k + 1)))) by lia. reflexivity. }
  rewrite Hf. destruct (p y); reflexivity.
Qed.
