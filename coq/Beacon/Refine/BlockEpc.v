(* Hypotheses shared by the block-operation refinement theorems (C01):
     epc_ok      the data zrnt caches in its EpochsContext agrees with the state (established by C08, assumed here)
     cfg_sane    positivity / size constraints on the configuration (mainnet and minimal satisfy them)
     st_bounds   numeric ranges under which Go's uint64 arithmetic does not wrap                                   *)
From Coq Require Import String.
From Coq Require Import NArith ZArith Lia List Bool.
From Coq Require Import ZifyN ZifyNat ZifyBool.
From RecordUpdate Require Import RecordSet.
From V Require Import Base.U64 Base.Outcome Ssz.SszCore Beacon.Config Beacon.Schemas Beacon.State
  Beacon.Spec.Helpers Beacon.Spec.Epoch Beacon.Spec.Block Beacon.Impl.BlockOps Beacon.Refine.BlockLemmas.
Import ListNotations RecordSetNotations.
Local Open Scope list_scope.
Local Open Scope N_scope.

Section Hyps.
  Variable E : Env.
  Let c := cfg E.

  Record epc_ok (st : BeaconState) (epc : BlockEpc) : Prop := mkEpcOk {
    eo_epoch : be_current_epoch epc = get_current_epoch E st;
    eo_active : be_active_count epc = N.of_nat (length (get_active_validator_indices st (get_current_epoch E st)));
    eo_proposer : be_proposer epc = get_beacon_proposer_index E st;
    (* effective balances of the validators that can attest; the slice is NOT extended by mid-epoch deposits *)
    eo_eff : forall i v, nthN (validators st) i = Some v ->
               is_active_validator v (get_previous_epoch E st) || is_active_validator v (get_current_epoch E st) = true ->
               nthN (be_eff_balances epc) i = Some (v_effective_balance v);
    eo_total : be_total_active_stake epc = get_total_active_balance E st;
    eo_sqrt : be_total_active_stake_sqrt epc = integer_squareroot (get_total_active_balance E st);
    eo_sync_pubkeys : be_sync_pubkeys epc = sc_pubkeys (current_sync_committee st);
    eo_sync_indices : all_some (map (fun pk => find_pubkey pk (validators st) 0) (sc_pubkeys (current_sync_committee st)))
                      = Some (be_sync_indices epc);
    eo_pubkey_index : forall pk, be_pubkey_index epc pk = find_pubkey pk (validators st) 0;
    eo_pubkey_of : forall i, be_pubkey_of epc i = option_map v_pubkey (nthN (validators st) i)
  }.

  Record cfg_sane : Prop := mkCfgSane {
    cs_incr_pos : 0 < EFFECTIVE_BALANCE_INCREMENT c;
    cs_incr_hi : EFFECTIVE_BALANCE_INCREMENT c <= 2 ^ 40;
    cs_maxeb_hi : MAX_EFFECTIVE_BALANCE c <= 2 ^ 50;
    cs_factor_hi : BASE_REWARD_FACTOR c <= 2 ^ 16;
    cs_spe_pos : 0 < SLOTS_PER_EPOCH c;
    cs_spe_hi : SLOTS_PER_EPOCH c <= 2 ^ 20;
    cs_sync_pos : 0 < SYNC_COMMITTEE_SIZE c;
    cs_sync_hi : SYNC_COMMITTEE_SIZE c <= 2 ^ 20;
    cs_sphr_pos : 0 < SLOTS_PER_HISTORICAL_ROOT c;
    cs_sphr_epochs : 2 * SLOTS_PER_EPOCH c <= SLOTS_PER_HISTORICAL_ROOT c;
    cs_min_delay : 1 <= MIN_ATTESTATION_INCLUSION_DELAY c;
    cs_churn_pos : 0 < CHURN_LIMIT_QUOTIENT c;
    cs_lookahead_hi : MAX_SEED_LOOKAHEAD c <= 2 ^ 20;
    cs_wd_delay_hi : MIN_VALIDATOR_WITHDRAWABILITY_DELAY c <= 2 ^ 40;
    cs_slashvec_pos : 0 < EPOCHS_PER_SLASHINGS_VECTOR c;
    cs_slashvec_hi : EPOCHS_PER_SLASHINGS_VECTOR c <= 2 ^ 40;
    cs_wb_pos : 0 < WHISTLEBLOWER_REWARD_QUOTIENT c;
    cs_prq_pos : 0 < PROPOSER_REWARD_QUOTIENT c;
    cs_msp0 : 0 < MIN_SLASHING_PENALTY_QUOTIENT c;
    cs_msp1 : 0 < MIN_SLASHING_PENALTY_QUOTIENT_ALTAIR c;
    cs_msp2 : 0 < MIN_SLASHING_PENALTY_QUOTIENT_BELLATRIX c;
    cs_maxwd_pos : 0 < MAX_WITHDRAWALS_PER_PAYLOAD c;
    cs_sweep_hi : MAX_VALIDATORS_PER_WITHDRAWALS_SWEEP c <= 2 ^ 40;
    cs_reglimit : VALIDATOR_REGISTRY_LIMIT c <= 2 ^ 40
  }.

  (* the brief's `Bounds`, in the (weaker) pointwise form the proofs need:
     every balance < 2^63 (implied by sum of balances < 2^63), slots/epochs < 2^40, at most 2^40 validators *)
  Record st_bounds (st : BeaconState) : Prop := mkStBounds {
    sb_bal : forall x, In x (balances st) -> x < 2 ^ 63;
    sb_eff : forall v, In v (validators st) -> v_effective_balance v <= MAX_EFFECTIVE_BALANCE c;
    sb_slot : slot st < 2 ^ 40;
    sb_nvals : N.of_nat (length (validators st)) <= 2 ^ 40;
    sb_lens : length (balances st) = length (validators st);
    sb_total : get_total_active_balance E st < 2 ^ 63;
    sb_exits : forall v, In v (validators st) -> v_exit_epoch v = FAR_FUTURE_EPOCH \/ v_exit_epoch v < 2 ^ 41;
    sb_slashings : forall x, In x (slashings st) -> x < 2 ^ 63;
    sb_widx : next_withdrawal_index st < 2 ^ 63
  }.
End Hyps.

(* ---------- outcome helpers ---------- *)
Lemma bind_ok {A B} (x : outcome A) (g : A -> outcome B) a : x = Ok a -> bind x g = g a.
Proof. intros ->. reflexivity. Qed.
Lemma div64_ok a b : 0 < b -> div64 a b = Ok (a / b).
Proof. intros H. unfold div64. destruct (N.eqb_spec b 0); [lia|reflexivity]. Qed.
Lemma mul64_small a b : a * b < two64 -> mul64 a b = a * b.
Proof. intros H. unfold mul64. apply wrap64_small. exact H. Qed.
Lemma add64_small a b : a + b < two64 -> add64 a b = a + b.
Proof. intros H. unfold add64. apply wrap64_small. exact H. Qed.
Lemma two64_eq : two64 = 2 ^ 64.
Proof. reflexivity. Qed.
Lemma Ndiv_zero_r a : a / 0 = 0.
Proof. destruct a; reflexivity. Qed.
Lemma Ndiv_zero_l a : 0 / a = 0.
Proof. destruct a; reflexivity. Qed.
Lemma Ndiv_le a b : a / b <= a.
Proof.
  destruct (N.eq_0_gt_0_cases b) as [->|Hb]; [rewrite Ndiv_zero_r; lia|].
  apply N.div_le_upper_bound; [lia|]. replace a with (1 * a) at 1 by lia. apply N.mul_le_mono_r. lia.
Qed.
