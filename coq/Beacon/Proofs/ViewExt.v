(* C08: the from-scratch epochs-context view is a function of five things only: the current epoch, the registry,
   the randao mixes and the two sync committees.  Consequences: a slot step that does not cross an epoch boundary
   leaves the view unchanged. *)
From Coq Require Import String NArith ZArith List Bool Lia.
From Coq Require Import ZifyN ZifyNat ZifyBool.
From RecordUpdate Require Import RecordSet.
From V Require Import Ssz.SszCore Beacon.Config Beacon.Schemas Beacon.State
  Beacon.Spec.Helpers Beacon.Spec.Epoch Beacon.Spec.Block Beacon.Spec.Transition Beacon.Run
  Beacon.Proofs.ListFacts Beacon.Proofs.Frame Beacon.Proofs.Lengths Beacon.Proofs.Stability Beacon.Proofs.EpcInv
  Beacon.Proofs.EpochBoundary.
Import ListNotations RecordSetNotations.
Local Open Scope N_scope.

Lemma eff_bal_ext st st' i : validators st' = validators st -> eff_bal st' i = eff_bal st i.
Proof. intros H. unfold eff_bal. now rewrite H. Qed.
Lemma get_seed_ext E st st' e dt : randao_mixes st' = randao_mixes st -> get_seed E st' e dt = get_seed E st e dt.
Proof. intros H. unfold get_seed, get_randao_mix. now rewrite H. Qed.
Lemma active_ext st st' e : validators st' = validators st -> get_active_validator_indices st' e = get_active_validator_indices st e.
Proof. intros H. unfold get_active_validator_indices. now rewrite H. Qed.
Lemma committee_ext E st st' s i : validators st' = validators st -> randao_mixes st' = randao_mixes st ->
  get_beacon_committee E st' s i = get_beacon_committee E st s i.
Proof.
  intros HV HM. unfold get_beacon_committee, get_committee_count_per_slot. cbv zeta.
  rewrite !(active_ext st st') by exact HV. rewrite (get_seed_ext E st st') by exact HM. reflexivity.
Qed.

Theorem epc_view_ext E f st st' :
  get_current_epoch E st' = get_current_epoch E st ->
  validators st' = validators st -> randao_mixes st' = randao_mixes st ->
  current_sync_committee st' = current_sync_committee st -> next_sync_committee st' = next_sync_committee st ->
  spec_epc_view E f st' = spec_epc_view E f st.
Proof.
  intros HE HV HM HC HN.
  assert (HP : get_previous_epoch E st' = get_previous_epoch E st) by (unfold get_previous_epoch; now rewrite HE).
  unfold spec_epc_view. cbv zeta. rewrite HE, HP, HC, HN.
  f_equal.
  - rewrite !(active_ext st st') by exact HV. reflexivity.
  - unfold committees_of_epoch, get_committee_count_per_slot. cbv zeta.
    rewrite !(active_ext st st') by exact HV.
    f_equal; [|f_equal; [|f_equal]]; apply map_ext; intros s; apply map_ext; intros i; rewrite (committee_ext E st st') by assumption; reflexivity.
  - apply map_ext. intros s. unfold proposer_at. cbv zeta. rewrite HE.
    rewrite (active_ext st st') by exact HV. rewrite (get_seed_ext E st st') by exact HM.
    apply compute_proposer_index_ext. intros i _. apply eff_bal_ext. exact HV.
  - now rewrite HV.
  - unfold get_total_active_balance. rewrite HE, (active_ext st st') by exact HV.
    apply total_balance_ext. intros i _. apply eff_bal_ext. exact HV.
  - unfold sync_indices_of. now rewrite HV.
  - unfold sync_indices_of. now rewrite HV.
Qed.

(* a slot step inside an epoch: no epoch processing, no upgrade *)
Lemma upgrade_maybe_off_boundary E k f st : slot st mod SLOTS_PER_EPOCH (cfg E) <> 0 ->
  upgrade_maybe E (S k) f st = Some (f, st).
Proof.
  intros H. cbn [upgrade_maybe]. destruct (next_fork f); [|reflexivity].
  destruct (N.eqb_spec (slot st mod SLOTS_PER_EPOCH (cfg E)) 0); [contradiction|reflexivity].
Qed.
Lemma process_slot_syncs E f st : current_sync_committee (process_slot E f st) = current_sync_committee st /\
  next_sync_committee (process_slot E f st) = next_sync_committee st.
Proof. unfold process_slot. cbv beta zeta. destruct (bytes_eqb _ _); split; reflexivity. Qed.

Theorem epc_view_slot_stable E f st f' st' :
  0 < SLOTS_PER_EPOCH (cfg E) -> (slot st + 1) mod SLOTS_PER_EPOCH (cfg E) <> 0 ->
  slot_step E f st = Some (f', st') ->
  f' = f /\ spec_epc_view E f st' = spec_epc_view E f st.
Proof.
  intros W Hb H. pose proof (slot_step_epoch E f st f' st' W H) as He.
  destruct (N.eqb_spec ((slot st + 1) mod SLOTS_PER_EPOCH (cfg E)) 0) as [Hm|_]; [contradiction|].
  unfold slot_step in H. cbv beta zeta in H.
  assert (Hs : slot (process_slot E f st) = slot st) by exact (proj1 (bf_process_slot E f st st (bf_refl st))).
  rewrite Hs in H.
  destruct (N.eqb_spec ((slot st + 1) mod SLOTS_PER_EPOCH (cfg E)) 0) as [Hm|_]; [contradiction|].
  rewrite upgrade_maybe_off_boundary in H by (cbn [set slot]; rewrite Hs; exact Hb).
  injection H as <- <-. split; [reflexivity|].
  pose proof (vm_process_slot E f st) as [HV HM]. pose proof (process_slot_syncs E f st) as [HC HN].
  apply epc_view_ext; [exact He|exact HV|exact HM|exact HC|exact HN].
Qed.

(* ---------- pubkey / index lookups: the registry's pubkey column only ever grows ---------- *)
Theorem pubkeys_block_stable E st st' : block_frame E st st' ->
  map v_pubkey (validators st') =
  map v_pubkey (validators st) ++ map v_pubkey (skipn (length (validators st)) (validators st')).
Proof.
  intros B. destruct (bk_vals E st st' B) as (old' & new & -> & F & _).
  rewrite (lf_Forall2_length _ _ _ F). rewrite skipn_app, skipn_all, Nat.sub_diag. cbn [app skipn].
  rewrite map_app. f_equal. clear - F. induction F as [|v v' vs old' Hk _ IH]; [reflexivity|].
  cbn [map]. rewrite IH. f_equal. apply Hk.
Qed.
Theorem pubkeys_step_stable E ce st st' : step_frame E ce st st' ->
  map v_pubkey (validators st') = map v_pubkey (validators st).
Proof.
  intros [F _]. induction F as [|v v' vs vs' Hk _ IH]; [reflexivity|].
  cbn [map]. rewrite IH. f_equal. apply Hk.
Qed.
(* an index once assigned to a pubkey stays assigned, across blocks ... *)
Theorem find_pubkey_block_stable E st st' pk i : block_frame E st st' ->
  find_pubkey pk (validators st) 0 = Some i -> find_pubkey pk (validators st') 0 = Some i.
Proof.
  intros B H. destruct (bk_vals E st st' B) as (old' & new & -> & F & _). eapply find_pubkey_stable; eassumption.
Qed.
(* ... and the lookup is literally the same function across slot steps *)
Lemma find_pubkey_map pk vs : forall s, find_pubkey pk vs s =
  (fix go (ks : list bytes) (i : N) : option N :=
     match ks with [] => None | k :: ks' => if bytes_eqb k pk then Some i else go ks' (i + 1) end) (map v_pubkey vs) s.
Proof. induction vs as [|v vs IH]; intros s; cbn [find_pubkey map]; [reflexivity|]. now rewrite IH. Qed.
Theorem find_pubkey_step_stable E ce st st' pk : step_frame E ce st st' ->
  find_pubkey pk (validators st') 0 = find_pubkey pk (validators st) 0.
Proof. intros B. rewrite !find_pubkey_map. now rewrite (pubkeys_step_stable E ce st st' B). Qed.
