(* C08 frame lemmas: what process_epoch / process_block / process_slots never touch. *)
From Coq Require Import String NArith List Bool Lia.
From Coq Require Import ZifyN ZifyNat ZifyBool.
From RecordUpdate Require Import RecordSet.
From V Require Import Ssz.SszCore Beacon.Config Beacon.Schemas Beacon.State
  Beacon.Spec.Helpers Beacon.Spec.Epoch Beacon.Spec.Block Beacon.Spec.Transition.
Import ListNotations RecordSetNotations.
Local Open Scope N_scope.

(* ---------- generic: inversion of the option monad, folds ---------- *)
Ltac inv_step H :=
  lazymatch type of H with
  | Some _ = Some _ => injection H; clear H; intros; subst
  | None = Some _ => discriminate H
  | (match ?a with Some _ => _ | None => None end) = Some _ =>
      let Hx := fresh "Hx" in destruct a eqn:Hx; [|discriminate H]
  | (if ?c then _ else None) = Some _ => let Hc := fresh "Hc" in destruct c eqn:Hc; [|discriminate H]
  | (let '(_, _) := ?p in _) = Some _ => destruct p
  | (if ?c then _ else _) = Some _ => let Hc := fresh "Hc" in destruct c eqn:Hc
  | (match ?x with _ => _ end) = Some _ => let Hm := fresh "Hm" in destruct x eqn:Hm
  end.
Ltac inv_all := repeat match goal with H : _ = Some _ |- _ => progress (inv_step H) end.

Lemma fold_left_opt_none {X A} (fn : X -> A -> option X) l :
  fold_left (fun acc a => match acc with Some x => fn x a | None => None end) l None = None.
Proof. induction l as [|a l IH]; simpl; [reflexivity|exact IH]. Qed.

Section FoldPres.
  Context {X A : Type} (R : X -> X -> Prop).
  Hypothesis Rrefl : forall x, R x x.
  Hypothesis Rtrans : forall x y z, R x y -> R y z -> R x z.
  Lemma fold_opt_pres (fn : X -> A -> option X) :
    (forall x a x', fn x a = Some x' -> R x x') ->
    forall l x x', fold_left (fun acc a => match acc with Some x => fn x a | None => None end) l (Some x) = Some x' -> R x x'.
  Proof.
    intros Hfn l. induction l as [|a l IH]; intros x x' H; simpl in H.
    - injection H as ->. apply Rrefl.
    - destruct (fn x a) as [y|] eqn:Hy.
      + apply (Rtrans x y x'); [apply (Hfn x a y Hy)|apply IH; exact H].
      + rewrite fold_left_opt_none in H. discriminate H.
  Qed.
  Lemma fold_pres (fn : X -> A -> X) : (forall x a, R x (fn x a)) -> forall l x, R x (fold_left fn l x).
  Proof.
    intros Hfn l. induction l as [|a l IH]; intros x; simpl; [apply Rrefl|].
    apply (Rtrans x (fn x a)); [apply Hfn|apply IH].
  Qed.
End FoldPres.

(* ---------- the base frame: slot and the two genesis constants ---------- *)
Definition base_frame (st st' : BeaconState) : Prop :=
  slot st' = slot st /\ genesis_time st' = genesis_time st /\ genesis_validators_root st' = genesis_validators_root st.
Lemma bf_refl st : base_frame st st.
Proof. repeat split. Qed.
Lemma bf_trans a b c : base_frame a b -> base_frame b c -> base_frame a c.
Proof. unfold base_frame. intros (H1 & H2 & H3) (H4 & H5 & H6). repeat split; congruence. Qed.
Lemma bf_step a b c : base_frame b c -> base_frame a b -> base_frame a c.
Proof. intros H1 H2. exact (bf_trans a b c H2 H1). Qed.

Create HintDb bf discriminated.
#[export] Hint Resolve bf_refl : bf.
(* record-update of any field other than the three framed ones *)
Ltac bf_set_tac := repeat split; reflexivity.
#[export] Hint Extern 2 (base_frame _ (set _ _ ?t)) => (apply (bf_step _ t); [bf_set_tac|]) : bf.
#[export] Hint Extern 3 (base_frame _ (if ?c then _ else _)) => destruct c : bf.
#[export] Hint Extern 4 (base_frame _ (match ?x with _ => _ end)) => destruct x : bf.
Ltac bf := eauto 40 with bf nocore.

(* option-returning functions: [F .. st .. = Some st' -> base_frame s st -> base_frame s st'] *)
Ltac bf_opt F := intros; match goal with H : _ = Some _ |- _ => unfold F in H; cbv beta zeta in H end; inv_all; bf.
Ltac bf_fun F := intros; unfold F; cbv beta zeta; bf.


(* ---------- Helpers.v ---------- *)
Lemma bf_increase_balance s st i d : base_frame s st -> base_frame s (increase_balance st i d).
Proof. bf_fun increase_balance. Qed.
Lemma bf_decrease_balance s st i d : base_frame s st -> base_frame s (decrease_balance st i d).
Proof. bf_fun decrease_balance. Qed.
#[export] Hint Resolve bf_increase_balance bf_decrease_balance : bf.
Lemma bf_initiate_validator_exit E s st i st' :
  initiate_validator_exit E st i = Some st' -> base_frame s st -> base_frame s st'.
Proof. bf_opt initiate_validator_exit. Qed.
#[export] Hint Resolve bf_initiate_validator_exit : bf.
Lemma bf_slash_validator E f s st i w st' :
  slash_validator E f st i w = Some st' -> base_frame s st -> base_frame s st'.
Proof. bf_opt slash_validator. Qed.
#[export] Hint Resolve bf_slash_validator : bf.

(* ---------- Epoch.v ---------- *)
Lemma bf_weigh E s st a b c st' :
  weigh_justification_and_finalization E st a b c = Some st' -> base_frame s st -> base_frame s st'.
Proof. bf_opt weigh_justification_and_finalization. Qed.
#[export] Hint Resolve bf_weigh : bf.
Lemma bf_process_justification_and_finalization E f s st st' :
  process_justification_and_finalization E f st = Some st' -> base_frame s st -> base_frame s st'.
Proof. bf_opt process_justification_and_finalization. Qed.
Lemma bf_process_inactivity_updates E s st st' :
  process_inactivity_updates E st = Some st' -> base_frame s st -> base_frame s st'.
Proof. bf_opt process_inactivity_updates. Qed.
Lemma bf_apply_deltas s st d : base_frame s st -> base_frame s (apply_deltas st d).
Proof. bf_fun apply_deltas. Qed.
#[export] Hint Resolve bf_process_justification_and_finalization bf_process_inactivity_updates bf_apply_deltas : bf.
Lemma bf_process_rewards_and_penalties E f s st st' :
  process_rewards_and_penalties E f st = Some st' -> base_frame s st -> base_frame s st'.
Proof. bf_opt process_rewards_and_penalties. Qed.
#[export] Hint Resolve bf_process_rewards_and_penalties : bf.
Lemma bf_process_registry_updates E f s st st' :
  process_registry_updates E f st = Some st' -> base_frame s st -> base_frame s st'.
Proof.
  intros H Hs. unfold process_registry_updates in H. cbv beta zeta in H.
  inv_step H. apply (fold_opt_pres base_frame bf_refl bf_trans) in Hx.
  - inv_step H. apply (bf_trans s b); [apply (bf_trans s st); assumption|].
    apply (fold_pres base_frame bf_refl bf_trans). intros x a. bf.
  - intros x a x' Hf. inv_all; bf.
Qed.
#[export] Hint Resolve bf_process_registry_updates : bf.
Lemma bf_process_slashings E f s st : base_frame s st -> base_frame s (process_slashings E f st).
Proof.
  intros Hs. unfold process_slashings. cbv beta zeta. apply (bf_trans s st); [assumption|].
  apply (fold_pres base_frame bf_refl bf_trans). intros x [i v]. bf.
Qed.
Lemma bf_process_eth1_data_reset E s st : base_frame s st -> base_frame s (process_eth1_data_reset E st).
Proof. bf_fun process_eth1_data_reset. Qed.
Lemma bf_process_effective_balance_updates E s st : base_frame s st -> base_frame s (process_effective_balance_updates E st).
Proof. bf_fun process_effective_balance_updates. Qed.
Lemma bf_process_slashings_reset E s st : base_frame s st -> base_frame s (process_slashings_reset E st).
Proof. bf_fun process_slashings_reset. Qed.
Lemma bf_process_randao_mixes_reset E s st : base_frame s st -> base_frame s (process_randao_mixes_reset E st).
Proof. bf_fun process_randao_mixes_reset. Qed.
Lemma bf_process_historical_update E f s st : base_frame s st -> base_frame s (process_historical_update E f st).
Proof. bf_fun process_historical_update. Qed.
Lemma bf_process_participation_record_updates s st : base_frame s st -> base_frame s (process_participation_record_updates st).
Proof. bf_fun process_participation_record_updates. Qed.
Lemma bf_process_participation_flag_updates s st : base_frame s st -> base_frame s (process_participation_flag_updates st).
Proof. bf_fun process_participation_flag_updates. Qed.
#[export] Hint Resolve bf_process_slashings bf_process_eth1_data_reset bf_process_effective_balance_updates
  bf_process_slashings_reset bf_process_randao_mixes_reset bf_process_historical_update
  bf_process_participation_record_updates bf_process_participation_flag_updates : bf.
Lemma bf_process_sync_committee_updates E s st st' :
  process_sync_committee_updates E st = Some st' -> base_frame s st -> base_frame s st'.
Proof. bf_opt process_sync_committee_updates. Qed.
#[export] Hint Resolve bf_process_sync_committee_updates : bf.
Lemma bf_process_epoch E f s st st' : process_epoch E f st = Some st' -> base_frame s st -> base_frame s st'.
Proof. bf_opt process_epoch. Qed.
#[export] Hint Resolve bf_process_epoch : bf.

(* ---------- Block.v ---------- *)
Lemma bf_process_block_header E f s st blk st' :
  process_block_header E f st blk = Some st' -> base_frame s st -> base_frame s st'.
Proof. bf_opt process_block_header. Qed.
Lemma bf_process_randao E f s st body st' :
  process_randao E f st body = Some st' -> base_frame s st -> base_frame s st'.
Proof. bf_opt process_randao. Qed.
Lemma bf_process_eth1_data E f s st body : base_frame s st -> base_frame s (process_eth1_data E f st body).
Proof. bf_fun process_eth1_data. Qed.
Lemma bf_process_proposer_slashing E f s st op st' :
  process_proposer_slashing E f st op = Some st' -> base_frame s st -> base_frame s st'.
Proof. bf_opt process_proposer_slashing. Qed.
#[export] Hint Resolve bf_process_block_header bf_process_randao bf_process_eth1_data bf_process_proposer_slashing : bf.
Lemma bf_process_attester_slashing E f s st op st' :
  process_attester_slashing E f st op = Some st' -> base_frame s st -> base_frame s st'.
Proof.
  intros H Hs. unfold process_attester_slashing in H. cbv beta zeta in H.
  do 4 inv_step H.
  apply (fold_opt_pres (fun x y : BeaconState * bool => base_frame (fst x) (fst y))) in Hx.
  - inv_all. apply (bf_trans s st); assumption.
  - intros x. apply bf_refl.
  - intros x y z. apply bf_trans.
  - intros [x any] a [x' any'] Hf. cbn [fst]. inv_all; bf.
Qed.
Lemma bf_process_attestation E f s st op st' :
  process_attestation E f st op = Some st' -> base_frame s st -> base_frame s st'.
Proof. bf_opt process_attestation. Qed.
Lemma bf_add_validator_to_registry E f s st pk wc a : base_frame s st -> base_frame s (add_validator_to_registry E f st pk wc a).
Proof. bf_fun add_validator_to_registry. Qed.
#[export] Hint Resolve bf_process_attester_slashing bf_process_attestation bf_add_validator_to_registry : bf.
Lemma bf_apply_deposit E f s st pk wc a sg : base_frame s st -> base_frame s (apply_deposit E f st pk wc a sg).
Proof. bf_fun apply_deposit. Qed.
#[export] Hint Resolve bf_apply_deposit : bf.
Lemma bf_process_deposit E f s st op st' :
  process_deposit E f st op = Some st' -> base_frame s st -> base_frame s st'.
Proof. bf_opt process_deposit. Qed.
Lemma bf_process_voluntary_exit E f s st op st' :
  process_voluntary_exit E f st op = Some st' -> base_frame s st -> base_frame s st'.
Proof. bf_opt process_voluntary_exit. Qed.
Lemma bf_process_bls_to_execution_change E s st op st' :
  process_bls_to_execution_change E st op = Some st' -> base_frame s st -> base_frame s st'.
Proof. bf_opt process_bls_to_execution_change. Qed.
#[export] Hint Resolve bf_process_deposit bf_process_voluntary_exit bf_process_bls_to_execution_change : bf.

(* for_ops lifts any reflexive-transitive relation preserved by the operation *)
Lemma for_ops_pres (R : BeaconState -> BeaconState -> Prop) (Rrefl : forall x, R x x)
    (Rtrans : forall x y z, R x y -> R y z -> R x z) fn :
  (forall st op st', fn st op = Some st' -> R st st') ->
  forall ops st st', for_ops ops fn st = Some st' -> R st st'.
Proof. intros Hfn ops st st' H. unfold for_ops in H. exact (fold_opt_pres R Rrefl Rtrans fn Hfn ops st st' H). Qed.
Lemma bf_for_ops fn : (forall st op st', fn st op = Some st' -> base_frame st st') ->
  forall s ops st st', for_ops ops fn st = Some st' -> base_frame s st -> base_frame s st'.
Proof.
  intros Hfn s ops st st' H Hs. apply (bf_trans s st); [assumption|].
  exact (for_ops_pres base_frame bf_refl bf_trans fn Hfn ops st st' H).
Qed.
Ltac bf_ops := intros s ops st st' H Hs; refine (bf_for_ops _ _ s ops st st' H Hs); intros x op x' Hop; eauto 3 with bf nocore.
Lemma bf_for_ops_ps E f : forall s ops st st', for_ops ops (process_proposer_slashing E f) st = Some st' -> base_frame s st -> base_frame s st'.
Proof. bf_ops. Qed.
Lemma bf_for_ops_as E f : forall s ops st st', for_ops ops (process_attester_slashing E f) st = Some st' -> base_frame s st -> base_frame s st'.
Proof. bf_ops. Qed.
Lemma bf_for_ops_att E f : forall s ops st st', for_ops ops (process_attestation E f) st = Some st' -> base_frame s st -> base_frame s st'.
Proof. bf_ops. Qed.
Lemma bf_for_ops_dep E f : forall s ops st st', for_ops ops (process_deposit E f) st = Some st' -> base_frame s st -> base_frame s st'.
Proof. bf_ops. Qed.
Lemma bf_for_ops_exit E f : forall s ops st st', for_ops ops (process_voluntary_exit E f) st = Some st' -> base_frame s st -> base_frame s st'.
Proof. bf_ops. Qed.
Lemma bf_for_ops_bls E : forall s ops st st', for_ops ops (process_bls_to_execution_change E) st = Some st' -> base_frame s st -> base_frame s st'.
Proof. bf_ops. Qed.
#[export] Hint Resolve bf_for_ops_ps bf_for_ops_as bf_for_ops_att bf_for_ops_dep bf_for_ops_exit bf_for_ops_bls : bf.
Lemma bf_process_operations E f s st body st' :
  process_operations E f st body = Some st' -> base_frame s st -> base_frame s st'.
Proof. bf_opt process_operations. Qed.
Lemma bf_process_sync_aggregate E s st sa st' :
  process_sync_aggregate E st sa = Some st' -> base_frame s st -> base_frame s st'.
Proof.
  intros H Hs. unfold process_sync_aggregate in H. cbv beta zeta in H. inv_all.
  apply (bf_trans s st); [assumption|].
  apply (fold_pres base_frame bf_refl bf_trans). intros x [? ?]. bf.
Qed.
Lemma bf_process_execution_payload E f s st body st' :
  process_execution_payload E f st body = Some st' -> base_frame s st -> base_frame s st'.
Proof. bf_opt process_execution_payload. Qed.
Lemma bf_process_withdrawals E f s st p st' :
  process_withdrawals E f st p = Some st' -> base_frame s st -> base_frame s st'.
Proof.
  intros H Hs. unfold process_withdrawals in H. cbv beta zeta in H. inv_all.
  assert (Hf : base_frame s (fold_left (fun st0 w => let '(_, vi, _, amt) := w in decrease_balance st0 vi amt)
                               (get_expected_withdrawals E st) st)).
  { apply (bf_trans s st); [assumption|].
    apply (fold_pres base_frame bf_refl bf_trans). intros x [[[? ?] ?] ?]. bf. }
  bf.
Qed.
#[export] Hint Resolve bf_process_operations bf_process_sync_aggregate bf_process_execution_payload bf_process_withdrawals : bf.
Lemma bf_process_block E f s st blk st' :
  process_block E f st blk = Some st' -> base_frame s st -> base_frame s st'.
Proof. bf_opt process_block. Qed.
#[export] Hint Resolve bf_process_block : bf.

(* ---------- Transition.v ---------- *)
Lemma bf_process_slot E f s st : base_frame s st -> base_frame s (process_slot E f st).
Proof. bf_fun process_slot. Qed.
#[export] Hint Resolve bf_process_slot : bf.
Lemma bf_translate_participation E s st l st' :
  translate_participation E st l = Some st' -> base_frame s st -> base_frame s st'.
Proof.
  intros H Hs. unfold translate_participation in H. apply (bf_trans s st); [assumption|].
  apply (fold_opt_pres base_frame bf_refl bf_trans) in H; [exact H|].
  intros x a x' Hf. inv_all. bf.
Qed.
#[export] Hint Resolve bf_translate_participation : bf.
Lemma bf_upgrade_to E fn s st st' : upgrade_to E fn st = Some st' -> base_frame s st -> base_frame s st'.
Proof. bf_opt upgrade_to. Qed.
#[export] Hint Resolve bf_upgrade_to : bf.
Lemma bf_upgrade_maybe E fuel : forall f s st f' st',
  upgrade_maybe E fuel f st = Some (f', st') -> base_frame s st -> base_frame s st'.
Proof.
  induction fuel as [|k IH]; intros f s st f' st' H Hs; cbn [upgrade_maybe] in H.
  - inv_all. assumption.
  - inv_all; try assumption. eapply IH; [eassumption|]. bf.
Qed.

(* ---------- slot_step / process_slots ---------- *)
(* everything except the slot increment itself *)
Definition genesis_frame (st st' : BeaconState) : Prop :=
  genesis_time st' = genesis_time st /\ genesis_validators_root st' = genesis_validators_root st.

Lemma slot_step_slot E f st f' st' : slot_step E f st = Some (f', st') -> slot st' = slot st + 1 /\ genesis_frame st st'.
Proof.
  intros H. unfold slot_step in H. cbv beta zeta in H. inv_step H.
  assert (Hb : base_frame st b).
  { destruct (_ =? 0) in Hx.
    - eapply bf_process_epoch; [exact Hx|]. apply bf_process_slot, bf_refl.
    - inv_all. apply bf_process_slot, bf_refl. }
  apply (bf_upgrade_maybe E 5 f (b <| slot := slot b + 1 |>)) in H; [|apply bf_refl].
  destruct Hb as (Hb1 & Hb2 & Hb3). destruct H as (H1 & H2 & H3). cbn [set slot genesis_time genesis_validators_root] in *.
  unfold genesis_frame. repeat split; congruence.
Qed.

Lemma slots_loop_frame E fuel : forall f st t f' st',
  slot st <= t -> slots_loop E fuel f st t = Some (f', st') -> slot st' = t /\ genesis_frame st st'.
Proof.
  induction fuel as [|k IH]; intros f st t f' st' Hle H; cbn [slots_loop] in H.
  - destruct (N.leb_spec t (slot st)); [|discriminate H]. inv_all. unfold genesis_frame. repeat split; lia.
  - destruct (N.leb_spec t (slot st)).
    + inv_all. unfold genesis_frame. repeat split; lia.
    + inv_step H. destruct p as [f1 st1]. cbn [fst snd] in H.
      apply slot_step_slot in Hx. destruct Hx as (Hs & Hg1 & Hg2).
      apply IH in H; [|lia]. destruct H as (Ht & Hg3 & Hg4). unfold genesis_frame. repeat split; congruence.
Qed.

Theorem process_slots_reaches E f st t f' st' : process_slots E f st t = Some (f', st') -> slot st' = t.
Proof.
  intros H. unfold process_slots in H. destruct (N.ltb_spec (slot st) t); [|discriminate H].
  destruct (_ <=? _); [|discriminate H].
  apply slots_loop_frame in H; [apply H|lia].
Qed.
Theorem process_slots_genesis E f st t f' st' : process_slots E f st t = Some (f', st') ->
  genesis_time st' = genesis_time st /\ genesis_validators_root st' = genesis_validators_root st.
Proof.
  intros H. unfold process_slots in H. destruct (N.ltb_spec (slot st) t); [|discriminate H].
  destruct (_ <=? _); [|discriminate H].
  apply slots_loop_frame in H; [apply H|lia].
Qed.

(* the loop run to t' passes through t *)
Lemma slots_loop_compose E : forall n f st t t',
  n = N.to_nat (t - slot st) -> slot st <= t -> t <= t' ->
  slots_loop E (N.to_nat (t' - slot st)) f st t' =
  match slots_loop E n f st t with
  | Some (f1, st1) => slots_loop E (N.to_nat (t' - slot st1)) f1 st1 t'
  | None => None
  end.
Proof.
  induction n as [|n IH]; intros f st t t' Hn Hle Hle'.
  - assert (t = slot st) by lia. subst t. cbn [slots_loop].
    destruct (N.leb_spec (slot st) (slot st)); [reflexivity|lia].
  - cbn [slots_loop]. destruct (N.leb_spec t (slot st)); [lia|].
    destruct (N.to_nat (t' - slot st)) as [|k] eqn:Hk; [lia|]. cbn [slots_loop].
    destruct (N.leb_spec t' (slot st)); [lia|].
    destruct (slot_step E f st) as [[f2 st2]|] eqn:Hstep; [|reflexivity]. cbn [fst snd].
    apply slot_step_slot in Hstep. destruct Hstep as (Hs & _).
    replace k with (N.to_nat (t' - slot st2)) by lia.
    apply IH; lia.
Qed.

(* (the Spec refuses to advance more than MAX_SLOTS_PER_CALL slots in one call, hence the third hypothesis) *)
Theorem process_slots_compose E f st t t' : slot st < t -> t < t' -> t' - slot st <= MAX_SLOTS_PER_CALL ->
  process_slots E f st t' =
  match process_slots E f st t with
  | Some (f1, st1) => process_slots E f1 st1 t'
  | None => None
  end.
Proof.
  intros H1 H2 H3. unfold process_slots at 1 2.
  destruct (N.ltb_spec (slot st) t'); [|lia]. destruct (N.ltb_spec (slot st) t); [|lia].
  destruct (N.leb_spec (t' - slot st) MAX_SLOTS_PER_CALL); [|lia].
  destruct (N.leb_spec (t - slot st) MAX_SLOTS_PER_CALL); [|lia].
  rewrite (slots_loop_compose E (N.to_nat (t - slot st)) f st t t') by lia.
  destruct (slots_loop E (N.to_nat (t - slot st)) f st t) as [[f1 st1]|] eqn:Hl; [|reflexivity].
  apply slots_loop_frame in Hl; [|lia]. destruct Hl as (Hl & _).
  unfold process_slots. destruct (N.ltb_spec (slot st1) t'); [|lia].
  destruct (N.leb_spec (t' - slot st1) MAX_SLOTS_PER_CALL); [reflexivity|lia].
Qed.

(* the named frame facts of the task statement *)
Theorem process_epoch_slot E f st st' : process_epoch E f st = Some st' -> slot st' = slot st.
Proof. intros H. exact (proj1 (bf_process_epoch E f st st st' H (bf_refl st))). Qed.
Theorem process_block_slot E f st blk st' : process_block E f st blk = Some st' -> slot st' = slot st.
Proof. intros H. exact (proj1 (bf_process_block E f st st blk st' H (bf_refl st))). Qed.
Theorem process_block_genesis E f st blk st' : process_block E f st blk = Some st' ->
  genesis_time st' = genesis_time st /\ genesis_validators_root st' = genesis_validators_root st.
Proof. intros H. exact (proj2 (bf_process_block E f st st blk st' H (bf_refl st))). Qed.
Theorem process_epoch_genesis E f st st' : process_epoch E f st = Some st' ->
  genesis_time st' = genesis_time st /\ genesis_validators_root st' = genesis_validators_root st.
Proof. intros H. exact (proj2 (bf_process_epoch E f st st st' H (bf_refl st))). Qed.
