(* C08 frame lemmas, part 2: the per-validator lists keep the length of the registry. *)
From Coq Require Import String NArith List Bool Lia.
From Coq Require Import ZifyN ZifyNat ZifyBool.
From RecordUpdate Require Import RecordSet.
From V Require Import Ssz.SszCore Beacon.Config Beacon.Schemas Beacon.State
  Beacon.Spec.Helpers Beacon.Spec.Epoch Beacon.Spec.Block Beacon.Spec.Transition
  Beacon.Proofs.ListFacts Beacon.Proofs.Frame.
Import ListNotations RecordSetNotations.
Local Open Scope N_scope.

Definition lengths_inv (f : fork) (st : BeaconState) : Prop :=
  length (balances st) = length (validators st) /\
  (fork_ge f Altair = true ->
   length (previous_epoch_participation st) = length (validators st) /\
   length (current_epoch_participation st) = length (validators st) /\
   length (inactivity_scores st) = length (validators st)).

(* all five lengths equal *)
Definition same_lens (st st' : BeaconState) : Prop :=
  length (validators st') = length (validators st) /\ length (balances st') = length (balances st) /\
  length (previous_epoch_participation st') = length (previous_epoch_participation st) /\
  length (current_epoch_participation st') = length (current_epoch_participation st) /\
  length (inactivity_scores st') = length (inactivity_scores st).
Lemma li_same_lens f st st' : same_lens st st' -> lengths_inv f st -> lengths_inv f st'.
Proof.
  unfold same_lens, lengths_inv. intros (H1 & H2 & H3 & H4 & H5) (H6 & H7). split; [congruence|].
  intros Hf. destruct (H7 Hf) as (H8 & H9 & H10). repeat split; congruence.
Qed.

Ltac sl_set_tac :=
  unfold same_lens;
  cbn [set validators balances previous_epoch_participation current_epoch_participation inactivity_scores];
  rewrite ?lf_updN_length, ?lf_setN_length; repeat split; reflexivity.

Create HintDb li discriminated.
#[export] Hint Extern 2 (lengths_inv _ (set _ _ ?t)) => (apply (li_same_lens _ t); [sl_set_tac|]) : li.
#[export] Hint Extern 3 (lengths_inv _ (if ?c then _ else _)) => destruct c : li.
#[export] Hint Extern 4 (lengths_inv _ (match ?x with _ => _ end)) => destruct x : li.
Ltac li := eauto 40 with li nocore.
Ltac li_opt F := intros; match goal with H : _ = Some _ |- _ => unfold F in H; cbv beta zeta in H end; inv_all; li.
Ltac li_fun F := intros; unfold F; cbv beta zeta; li.

(* unary-predicate versions of the fold lemmas *)
Lemma fold_opt_inv {X A} (P : X -> Prop) (fn : X -> A -> option X) :
  (forall x a x', fn x a = Some x' -> P x -> P x') ->
  forall l x x', fold_left (fun acc a => match acc with Some x => fn x a | None => None end) l (Some x) = Some x' -> P x -> P x'.
Proof.
  intros Hfn l x x' H.
  exact (fold_opt_pres (fun x y => P x -> P y) (fun x h => h) (fun x y z h1 h2 h => h2 (h1 h)) fn Hfn l x x' H).
Qed.
Lemma fold_inv {X A} (P : X -> Prop) (fn : X -> A -> X) : (forall x a, P x -> P (fn x a)) -> forall l x, P x -> P (fold_left fn l x).
Proof. intros Hfn l x. exact (fold_pres (fun x y => P x -> P y) (fun x h => h) (fun x y z h1 h2 h => h2 (h1 h)) fn Hfn l x). Qed.

(* ---------- Helpers.v ---------- *)
Lemma li_increase_balance f st i d : lengths_inv f st -> lengths_inv f (increase_balance st i d).
Proof. li_fun increase_balance. Qed.
Lemma li_decrease_balance f st i d : lengths_inv f st -> lengths_inv f (decrease_balance st i d).
Proof. li_fun decrease_balance. Qed.
#[export] Hint Resolve li_increase_balance li_decrease_balance : li.
Lemma li_initiate_validator_exit E f st i st' :
  initiate_validator_exit E st i = Some st' -> lengths_inv f st -> lengths_inv f st'.
Proof. li_opt initiate_validator_exit. Qed.
#[export] Hint Resolve li_initiate_validator_exit : li.
Lemma li_slash_validator E f g st i w st' :
  slash_validator E g st i w = Some st' -> lengths_inv f st -> lengths_inv f st'.
Proof. li_opt slash_validator. Qed.
#[export] Hint Resolve li_slash_validator : li.

(* ---------- Epoch.v ---------- *)
Lemma li_weigh E f st a b c st' :
  weigh_justification_and_finalization E st a b c = Some st' -> lengths_inv f st -> lengths_inv f st'.
Proof. li_opt weigh_justification_and_finalization. Qed.
#[export] Hint Resolve li_weigh : li.
Lemma li_process_justification_and_finalization E f g st st' :
  process_justification_and_finalization E g st = Some st' -> lengths_inv f st -> lengths_inv f st'.
Proof. li_opt process_justification_and_finalization. Qed.
#[export] Hint Resolve li_process_justification_and_finalization : li.

Lemma li_process_inactivity_updates E f st st' :
  process_inactivity_updates E st = Some st' -> lengths_inv f st -> lengths_inv f st'.
Proof.
  intros H Hi. unfold process_inactivity_updates in H. cbv beta zeta in H. inv_all; [assumption|].
  apply (li_same_lens f st); [|assumption]. unfold same_lens.
  cbn [set validators balances previous_epoch_participation current_epoch_participation inactivity_scores].
  repeat split. apply (fold_inv (fun sc => length sc = length (inactivity_scores st))); [|reflexivity].
  intros x a Hl. now rewrite lf_updN_length.
Qed.
#[export] Hint Resolve li_process_inactivity_updates : li.

(* deltas have one entry per validator *)
Definition dlen (st : BeaconState) (d : list N * list N) : Prop :=
  length (fst d) = nvals st /\ length (snd d) = nvals st.
Lemma zeros_length st : length (zeros st) = nvals st.
Proof. unfold zeros. apply repeat_length. Qed.
Lemma addN_length l i d : length (addN l i d) = length l.
Proof. apply lf_updN_length. Qed.
Lemma dlen_zeros st : dlen st (zeros st, zeros st).
Proof. split; apply zeros_length. Qed.
Lemma add_lists_length a b : length (add_lists a b) = Nat.min (length a) (length b).
Proof. unfold add_lists. now rewrite map_length, combine_length. Qed.
Lemma dlen_add st a b : dlen st a -> dlen st b -> dlen st (add_lists (fst a) (fst b), add_lists (snd a) (snd b)).
Proof. unfold dlen. cbn [fst snd]. rewrite !add_lists_length. lia. Qed.

Lemma dlen_component E st atts d : get_attestation_component_deltas E st atts = Some d -> dlen st d.
Proof.
  intros H. unfold get_attestation_component_deltas in H. cbv beta zeta in H. inv_all.
  apply (fold_inv (dlen st)); [|apply dlen_zeros].
  intros [r p] a [Hr Hp]. cbn [fst snd] in *.
  repeat match goal with |- context[if ?c then _ else _] => destruct c end;
    split; cbn [fst snd]; rewrite ?addN_length; assumption.
Qed.
Lemma dlen_inclusion E st d : get_inclusion_delay_deltas E st = Some d -> dlen st d.
Proof.
  intros H. unfold get_inclusion_delay_deltas in H. cbv beta zeta in H. inv_all.
  split; cbn [fst snd]; [|apply zeros_length].
  apply (fold_opt_inv (fun r => length r = nvals st)) in Hx2; [exact Hx2| |apply zeros_length].
  intros x a x' Hf Hl. inv_all. now rewrite !addN_length.
Qed.
Lemma dlen_inactivity0 E st d : get_inactivity_penalty_deltas0 E st = Some d -> dlen st d.
Proof.
  intros H. unfold get_inactivity_penalty_deltas0 in H. cbv beta zeta in H. inv_all; [|apply dlen_zeros].
  split; cbn [fst snd]; [apply zeros_length|].
  apply (fold_inv (fun r => length r = nvals st)); [|apply zeros_length].
  intros x a Hl. destruct (memN _ _); now rewrite ?addN_length.
Qed.
Lemma dlen_attestation_deltas E st d : get_attestation_deltas E st = Some d -> dlen st d.
Proof.
  intros H. unfold get_attestation_deltas in H. cbv beta zeta in H. inv_all.
  repeat match goal with
  | H : get_attestation_component_deltas _ _ _ = Some _ |- _ => apply dlen_component in H
  | H : get_inclusion_delay_deltas _ _ = Some _ |- _ => apply dlen_inclusion in H
  | H : get_inactivity_penalty_deltas0 _ _ = Some _ |- _ => apply dlen_inactivity0 in H
  end.
  unfold dlen in *. cbn [fst snd] in *. rewrite !add_lists_length. lia.
Qed.
Lemma dlen_flag E st fl d : get_flag_index_deltas E st fl = Some d -> dlen st d.
Proof.
  intros H. unfold get_flag_index_deltas in H. cbv beta zeta in H. inv_all.
  apply (fold_inv (dlen st)); [|apply dlen_zeros].
  intros [r p] a [Hr Hp]. cbn [fst snd] in *.
  repeat match goal with |- context[if ?c then _ else _] => destruct c end;
    split; cbn [fst snd]; rewrite ?addN_length; assumption.
Qed.
Lemma dlen_inactivity E f st d : get_inactivity_penalty_deltas E f st = Some d -> dlen st d.
Proof.
  intros H. unfold get_inactivity_penalty_deltas in H. cbv beta zeta in H. inv_all.
  split; cbn [fst snd]; [apply zeros_length|].
  apply (fold_inv (fun r => length r = nvals st)); [|apply zeros_length].
  intros x a Hl. destruct (memN _ _); now rewrite ?addN_length.
Qed.

Lemma nvals_apply_deltas st d : nvals (apply_deltas st d) = nvals st.
Proof. reflexivity. Qed.
Lemma li_apply_deltas f st d : dlen st d -> lengths_inv f st -> lengths_inv f (apply_deltas st d).
Proof.
  intros [H1 H2] Hi. unfold apply_deltas. apply (li_same_lens f st); [|assumption].
  unfold same_lens. cbn [set validators balances previous_epoch_participation current_epoch_participation inactivity_scores].
  repeat split. rewrite map_length, !combine_length. destruct Hi as [Hb _]. unfold nvals in *. lia.
Qed.
Lemma dlen_apply st d d' : dlen st d' -> dlen (apply_deltas st d) d'.
Proof. exact (fun H => H). Qed.
Lemma li_process_rewards_and_penalties E f g st st' :
  process_rewards_and_penalties E g st = Some st' -> lengths_inv f st -> lengths_inv f st'.
Proof.
  intros H Hi. unfold process_rewards_and_penalties in H. cbv beta zeta in H. inv_all; try assumption.
  - apply li_apply_deltas; [eapply dlen_attestation_deltas; eassumption|assumption].
  - repeat (apply li_apply_deltas; [repeat apply dlen_apply; first [eapply dlen_flag; eassumption|eapply dlen_inactivity; eassumption]|]);
      assumption.
  - repeat (apply li_apply_deltas; [repeat apply dlen_apply; first [eapply dlen_flag; eassumption|eapply dlen_inactivity; eassumption]|]);
      assumption.
  - repeat (apply li_apply_deltas; [repeat apply dlen_apply; first [eapply dlen_flag; eassumption|eapply dlen_inactivity; eassumption]|]);
      assumption.
  - repeat (apply li_apply_deltas; [repeat apply dlen_apply; first [eapply dlen_flag; eassumption|eapply dlen_inactivity; eassumption]|]);
      assumption.
Qed.
#[export] Hint Resolve li_process_rewards_and_penalties : li.

Lemma li_process_registry_updates E f g st st' :
  process_registry_updates E g st = Some st' -> lengths_inv f st -> lengths_inv f st'.
Proof.
  intros H Hi. unfold process_registry_updates in H. cbv beta zeta in H.
  inv_step H. apply (fold_opt_inv (lengths_inv f)) in Hx; [| |assumption].
  - inv_step H. apply (fold_inv (lengths_inv f)); [|assumption]. intros x a Hxa. li.
  - intros x a x' Hf Hxi. inv_all; li.
Qed.
#[export] Hint Resolve li_process_registry_updates : li.
Lemma li_process_slashings E f g st : lengths_inv f st -> lengths_inv f (process_slashings E g st).
Proof.
  intros Hi. unfold process_slashings. cbv beta zeta.
  apply (fold_inv (lengths_inv f)); [|assumption]. intros x [? ?] Hx. li.
Qed.
Lemma li_process_eth1_data_reset E f st : lengths_inv f st -> lengths_inv f (process_eth1_data_reset E st).
Proof. li_fun process_eth1_data_reset. Qed.
Lemma li_process_effective_balance_updates E f st : lengths_inv f st -> lengths_inv f (process_effective_balance_updates E st).
Proof.
  intros Hi. unfold process_effective_balance_updates. cbv beta zeta. apply (li_same_lens f st); [|assumption].
  unfold same_lens. cbn [set validators balances previous_epoch_participation current_epoch_participation inactivity_scores].
  repeat split. rewrite map_length, combine_length. destruct Hi as [Hb _]. lia.
Qed.
Lemma li_process_slashings_reset E f st : lengths_inv f st -> lengths_inv f (process_slashings_reset E st).
Proof. li_fun process_slashings_reset. Qed.
Lemma li_process_randao_mixes_reset E f st : lengths_inv f st -> lengths_inv f (process_randao_mixes_reset E st).
Proof. li_fun process_randao_mixes_reset. Qed.
Lemma li_process_historical_update E f g st : lengths_inv f st -> lengths_inv f (process_historical_update E g st).
Proof. li_fun process_historical_update. Qed.
Lemma li_process_participation_record_updates f st : lengths_inv f st -> lengths_inv f (process_participation_record_updates st).
Proof. li_fun process_participation_record_updates. Qed.
Lemma li_process_participation_flag_updates f st : lengths_inv f st -> lengths_inv f (process_participation_flag_updates st).
Proof.
  intros [Hb Hf]. unfold process_participation_flag_updates, lengths_inv, nvals.
  cbn [set validators balances previous_epoch_participation current_epoch_participation inactivity_scores].
  split; [assumption|]. intros Ha. destruct (Hf Ha) as (H1 & H2 & H3). rewrite repeat_length. auto.
Qed.
#[export] Hint Resolve li_process_slashings li_process_eth1_data_reset li_process_effective_balance_updates
  li_process_slashings_reset li_process_randao_mixes_reset li_process_historical_update
  li_process_participation_record_updates li_process_participation_flag_updates : li.
Lemma li_process_sync_committee_updates E f st st' :
  process_sync_committee_updates E st = Some st' -> lengths_inv f st -> lengths_inv f st'.
Proof. li_opt process_sync_committee_updates. Qed.
#[export] Hint Resolve li_process_sync_committee_updates : li.
Theorem li_process_epoch E f st st' : process_epoch E f st = Some st' -> lengths_inv f st -> lengths_inv f st'.
Proof. li_opt process_epoch. Qed.
#[export] Hint Resolve li_process_epoch : li.

(* ---------- Block.v ---------- *)
Lemma li_process_block_header E f g st blk st' :
  process_block_header E g st blk = Some st' -> lengths_inv f st -> lengths_inv f st'.
Proof. li_opt process_block_header. Qed.
Lemma li_process_randao E f g st body st' :
  process_randao E g st body = Some st' -> lengths_inv f st -> lengths_inv f st'.
Proof. li_opt process_randao. Qed.
Lemma li_process_eth1_data E f g st body : lengths_inv f st -> lengths_inv f (process_eth1_data E g st body).
Proof. li_fun process_eth1_data. Qed.
Lemma li_process_proposer_slashing E f g st op st' :
  process_proposer_slashing E g st op = Some st' -> lengths_inv f st -> lengths_inv f st'.
Proof. li_opt process_proposer_slashing. Qed.
#[export] Hint Resolve li_process_block_header li_process_randao li_process_eth1_data li_process_proposer_slashing : li.
Lemma li_process_attester_slashing E f g st op st' :
  process_attester_slashing E g st op = Some st' -> lengths_inv f st -> lengths_inv f st'.
Proof.
  intros H Hi. unfold process_attester_slashing in H. cbv beta zeta in H.
  do 4 inv_step H.
  apply (fold_opt_inv (fun x : BeaconState * bool => lengths_inv f (fst x))) in Hx; [| |exact Hi].
  - inv_all. exact Hx.
  - intros [x any] a [x' any'] Hf Hxi. cbn [fst] in *. inv_all; li.
Qed.
#[export] Hint Resolve li_process_attester_slashing : li.

(* the altair participation fold keeps the length of the participation list *)
Lemma participation_fold_length (st : BeaconState) (flags : list N) (brpi : N) (E : Env) l part0 :
  length (fst (fold_left (fun (pn : list N * N) i =>
                fold_left (fun (pn : list N * N) fl =>
                    let '(part, num) := pn in
                    match nthN part i with
                    | Some cur =>
                        if memN fl flags && negb (has_flag cur fl)
                        then (setN part i (add_flag cur fl),
                              num + eff_bal st i / EFFECTIVE_BALANCE_INCREMENT (cfg E) * brpi * flag_weight fl)
                        else (part, num)
                    | None => (part, num)
                    end) [0; 1; 2] pn) l (part0, 0))) = length part0.
Proof.
  apply (fold_inv (fun pn : list N * N => length (fst pn) = length part0)); [|reflexivity].
  intros pn i Hpn. apply (fold_inv (fun pn : list N * N => length (fst pn) = length part0)); [|exact Hpn].
  intros [part num] fl Hl. cbn [fst] in Hl. destruct (nthN part i); [|exact Hl].
  destruct (_ && _); cbn [fst]; rewrite ?lf_setN_length; exact Hl.
Qed.

Lemma li_process_attestation E f g st op st' :
  process_attestation E g st op = Some st' -> lengths_inv f st -> lengths_inv f st'.
Proof.
  intros H Hi. unfold process_attestation in H. cbv beta zeta in H.
  do 7 inv_step H.
  destruct g.
  1: solve [inv_all; li].
  all: do 3 inv_step H;
    match type of H with context[fold_left ?fn ?l (?p0, 0)] =>
      pose proof (participation_fold_length st l0 (get_base_reward_per_increment E st) E l p0) as Hlen;
      destruct (fold_left fn l (p0, 0)) as [part num] end;
    cbn [fst] in Hlen;
    destruct (cp_epoch (ad_target (vfield op 1)) =? get_current_epoch E st);
    inv_all; apply li_increase_balance;
    (apply (li_same_lens f st); [|exact Hi]); unfold same_lens;
    cbn [set validators balances previous_epoch_participation current_epoch_participation inactivity_scores];
    repeat split; exact Hlen.
Qed.
#[export] Hint Resolve li_process_attestation : li.

Lemma li_add_validator_to_registry E f st pk wc a :
  lengths_inv f st -> lengths_inv f (add_validator_to_registry E f st pk wc a).
Proof.
  intros [Hb Hf]. unfold add_validator_to_registry, lengths_inv. cbv beta zeta.
  destruct (fork_ge f Altair) eqn:Ha;
    cbn [set validators balances previous_epoch_participation current_epoch_participation inactivity_scores];
    rewrite !app_length; cbn [length].
  - destruct (Hf eq_refl) as (H1 & H2 & H3). split; [congruence|]. intros _. repeat split; congruence.
  - split; [congruence|]. intros Hc. discriminate Hc.
Qed.
#[export] Hint Resolve li_add_validator_to_registry : li.
Lemma li_apply_deposit E f st pk wc a sg : lengths_inv f st -> lengths_inv f (apply_deposit E f st pk wc a sg).
Proof. li_fun apply_deposit. Qed.
#[export] Hint Resolve li_apply_deposit : li.
Lemma li_process_deposit E f st op st' :
  process_deposit E f st op = Some st' -> lengths_inv f st -> lengths_inv f st'.
Proof. li_opt process_deposit. Qed.
Lemma li_process_voluntary_exit E f g st op st' :
  process_voluntary_exit E g st op = Some st' -> lengths_inv f st -> lengths_inv f st'.
Proof. li_opt process_voluntary_exit. Qed.
Lemma li_process_bls_to_execution_change E f st op st' :
  process_bls_to_execution_change E st op = Some st' -> lengths_inv f st -> lengths_inv f st'.
Proof. li_opt process_bls_to_execution_change. Qed.
#[export] Hint Resolve li_process_deposit li_process_voluntary_exit li_process_bls_to_execution_change : li.

Lemma li_for_ops f fn : (forall st op st', fn st op = Some st' -> lengths_inv f st -> lengths_inv f st') ->
  forall ops st st', for_ops ops fn st = Some st' -> lengths_inv f st -> lengths_inv f st'.
Proof. intros Hfn ops st st' H. unfold for_ops in H. exact (fold_opt_inv (lengths_inv f) fn Hfn ops st st' H). Qed.
Ltac li_ops := intros ops st st' H Hs; refine (li_for_ops _ _ _ ops st st' H Hs); intros x op x' Hop Hxi; eauto 3 with li nocore.
Lemma li_for_ops_ps E f g : forall ops st st', for_ops ops (process_proposer_slashing E g) st = Some st' -> lengths_inv f st -> lengths_inv f st'.
Proof. li_ops. Qed.
Lemma li_for_ops_as E f g : forall ops st st', for_ops ops (process_attester_slashing E g) st = Some st' -> lengths_inv f st -> lengths_inv f st'.
Proof. li_ops. Qed.
Lemma li_for_ops_att E f g : forall ops st st', for_ops ops (process_attestation E g) st = Some st' -> lengths_inv f st -> lengths_inv f st'.
Proof. li_ops. Qed.
Lemma li_for_ops_dep E f : forall ops st st', for_ops ops (process_deposit E f) st = Some st' -> lengths_inv f st -> lengths_inv f st'.
Proof. li_ops. Qed.
Lemma li_for_ops_exit E f g : forall ops st st', for_ops ops (process_voluntary_exit E g) st = Some st' -> lengths_inv f st -> lengths_inv f st'.
Proof. li_ops. Qed.
Lemma li_for_ops_bls E f : forall ops st st', for_ops ops (process_bls_to_execution_change E) st = Some st' -> lengths_inv f st -> lengths_inv f st'.
Proof. li_ops. Qed.
#[export] Hint Resolve li_for_ops_ps li_for_ops_as li_for_ops_att li_for_ops_dep li_for_ops_exit li_for_ops_bls : li.
Lemma li_process_operations E f st body st' :
  process_operations E f st body = Some st' -> lengths_inv f st -> lengths_inv f st'.
Proof. li_opt process_operations. Qed.
Lemma li_process_sync_aggregate E f st sa st' :
  process_sync_aggregate E st sa = Some st' -> lengths_inv f st -> lengths_inv f st'.
Proof.
  intros H Hi. unfold process_sync_aggregate in H. cbv beta zeta in H. inv_all.
  apply (fold_inv (lengths_inv f)); [|assumption]. intros x [? ?] Hxi. li.
Qed.
Lemma li_process_execution_payload E f g st body st' :
  process_execution_payload E g st body = Some st' -> lengths_inv f st -> lengths_inv f st'.
Proof. li_opt process_execution_payload. Qed.
Lemma li_process_withdrawals E f g st p st' :
  process_withdrawals E g st p = Some st' -> lengths_inv f st -> lengths_inv f st'.
Proof.
  intros H Hi. unfold process_withdrawals in H. cbv beta zeta in H. inv_all.
  assert (Hf : lengths_inv f (fold_left (fun st0 w => let '(_, vi, _, amt) := w in decrease_balance st0 vi amt)
                               (get_expected_withdrawals E st) st)).
  { apply (fold_inv (lengths_inv f)); [|assumption]. intros x [[[? ?] ?] ?] Hxi. li. }
  li.
Qed.
#[export] Hint Resolve li_process_operations li_process_sync_aggregate li_process_execution_payload li_process_withdrawals : li.
Theorem li_process_block E f st blk st' :
  process_block E f st blk = Some st' -> lengths_inv f st -> lengths_inv f st'.
Proof. li_opt process_block. Qed.
#[export] Hint Resolve li_process_block : li.

(* ---------- Transition.v ---------- *)
Lemma li_process_slot E f g st : lengths_inv f st -> lengths_inv f (process_slot E g st).
Proof. li_fun process_slot. Qed.
#[export] Hint Resolve li_process_slot : li.
Lemma li_translate_participation E f st l st' :
  translate_participation E st l = Some st' -> lengths_inv f st -> lengths_inv f st'.
Proof.
  intros H Hi. unfold translate_participation in H.
  apply (fold_opt_inv (lengths_inv f)) in H; [exact H| |exact Hi].
  intros x a x' Hf Hxi. inv_all. apply (li_same_lens f x); [|exact Hxi]. unfold same_lens.
  cbn [set validators balances previous_epoch_participation current_epoch_participation inactivity_scores].
  repeat split. apply (fold_inv (fun p => length p = length (previous_epoch_participation x))); [|reflexivity].
  intros p i Hp. now rewrite lf_updN_length.
Qed.
(* an upgrade establishes the invariant of the new fork *)
Lemma li_upgrade_to E f fn st st' : next_fork f = Some fn ->
  upgrade_to E fn st = Some st' -> lengths_inv f st -> lengths_inv fn st'.
Proof.
  intros Hn H Hi. destruct f; cbn [next_fork] in Hn; inv_all; unfold upgrade_to in H; cbv beta zeta in H.
  - (* phase0 -> altair *)
    inv_all.
    apply li_translate_participation with (f := Altair) in Hx.
    + revert Hx. apply li_same_lens. sl_set_tac.
    + destruct Hi as [Hb _]. unfold lengths_inv.
      cbn [set validators balances previous_epoch_participation current_epoch_participation inactivity_scores].
      rewrite !repeat_length. repeat split; assumption.
  - inv_all. apply (li_same_lens _ st); [sl_set_tac|]. destruct Hi as [Hb Ha]. split; [assumption|]. intros _. apply Ha. reflexivity.
  - inv_all. apply (li_same_lens _ st); [sl_set_tac|]. destruct Hi as [Hb Ha]. split; [assumption|]. intros _. apply Ha. reflexivity.
  - inv_all. apply (li_same_lens _ st); [sl_set_tac|]. destruct Hi as [Hb Ha]. split; [assumption|]. intros _. apply Ha. reflexivity.
Qed.
Lemma li_upgrade_maybe E fuel : forall f st f' st',
  upgrade_maybe E fuel f st = Some (f', st') -> lengths_inv f st -> lengths_inv f' st'.
Proof.
  induction fuel as [|k IH]; intros f st f' st' H Hi; cbn [upgrade_maybe] in H.
  - inv_all. assumption.
  - destruct (next_fork f) as [fn|] eqn:Hn; [|inv_all; assumption].
    destruct (_ && _); [|inv_all; assumption].
    inv_step H. eapply IH; [eassumption|]. eapply li_upgrade_to; eassumption.
Qed.
Theorem li_slot_step E f st f' st' : slot_step E f st = Some (f', st') -> lengths_inv f st -> lengths_inv f' st'.
Proof.
  intros H Hi. unfold slot_step in H. cbv beta zeta in H. inv_step H.
  assert (Hb : lengths_inv f b).
  { destruct (_ =? 0) in Hx.
    - eapply li_process_epoch; [exact Hx|]. apply li_process_slot, Hi.
    - inv_all. apply li_process_slot, Hi. }
  eapply li_upgrade_maybe; [exact H|]. apply (li_same_lens f b); [sl_set_tac|exact Hb].
Qed.
Lemma li_slots_loop E fuel : forall f st t f' st',
  slots_loop E fuel f st t = Some (f', st') -> lengths_inv f st -> lengths_inv f' st'.
Proof.
  induction fuel as [|k IH]; intros f st t f' st' H Hi; cbn [slots_loop] in H.
  - destruct (t <=? slot st); [|discriminate H]. inv_all. assumption.
  - destruct (t <=? slot st); [inv_all; assumption|].
    inv_step H. destruct p as [f1 st1]. cbn [fst snd] in H.
    eapply IH; [exact H|]. eapply li_slot_step; eassumption.
Qed.
Theorem li_process_slots E f st t f' st' : process_slots E f st t = Some (f', st') -> lengths_inv f st -> lengths_inv f' st'.
Proof.
  intros H Hi. unfold process_slots in H. destruct (slot st <? t); [|discriminate H].
  destruct (_ <=? _); [|discriminate H].
  eapply li_slots_loop; eassumption.
Qed.
(* one whole state transition *)
Theorem li_state_transition E f st bf sb v f' st' :
  state_transition E f st bf sb v = Some (f', st') -> lengths_inv f st -> lengths_inv f' st'.
Proof.
  intros H Hi. unfold state_transition in H. cbv beta zeta in H. inv_step H. destruct p as [f1 st1].
  inv_all. eapply li_process_block; [eassumption|]. eapply li_process_slots; eassumption.
Qed.

(* ---------- genesis establishes the invariant ---------- *)
Lemma some_state_inj {A} (x y : A) : Some x = Some y -> x = y.
Proof. intros H. injection H as ->. reflexivity. Qed.
Lemma some_pair_inj {A B} (a c : A) (b d : B) : Some (a, b) = Some (c, d) -> a = c /\ b = d.
Proof. intros H. injection H as -> ->. split; reflexivity. Qed.

Theorem li_genesis E h t deps st : initialize_beacon_state_from_eth1 E h t deps = Some st -> lengths_inv Phase0 st.
Proof.
  intros H. unfold initialize_beacon_state_from_eth1 in H. cbv beta zeta in H. inv_step H.
  apply some_state_inj in H. rewrite <- H. clear H.
  apply (fold_opt_inv (fun x : BeaconState * list value => lengths_inv Phase0 (fst x))) in Hx.
  - destruct Hx as [Hb _]. split; [|intros Hc; discriminate Hc].
    cbn [set validators balances]. rewrite map_length, combine_length. lia.
  - intros [x leaves] dep [x' leaves'] Hf Hxi. cbn [fst] in *. inv_step Hf.
    apply some_pair_inj in Hf. destruct Hf as [<- _].
    eapply li_process_deposit; [exact Hx0|]. revert Hxi. apply li_same_lens. sl_set_tac.
  - split; [reflexivity|intros Hc; discriminate Hc].
Qed.
