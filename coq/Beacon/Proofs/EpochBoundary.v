(* C08: the epoch boundary.  process_epoch (and the whole slot_step, including in-place fork upgrades) changes the
   registry only beyond the look-ahead window and the randao mixes only at index (current_epoch+1) mod
   EPOCHS_PER_HISTORICAL_VECTOR; hence the shufflings of the current and the next epoch computed from the state
   before the boundary are the previous and current shufflings of the state after it (zrnt: RotateEpochs). *)
From Coq Require Import String NArith ZArith List Bool Lia.
From Coq Require Import ZifyN ZifyNat ZifyBool.
From RecordUpdate Require Import RecordSet.
From V Require Import Ssz.SszCore Beacon.Config Beacon.Schemas Beacon.State
  Beacon.Spec.Helpers Beacon.Spec.Epoch Beacon.Spec.Block Beacon.Spec.Transition Beacon.Run
  Beacon.Proofs.ListFacts Beacon.Proofs.Frame Beacon.Proofs.Lengths Beacon.Proofs.Stability Beacon.Proofs.EpcInv.
Import ListNotations RecordSetNotations.
Local Open Scope N_scope.
Ltac Zify.zify_post_hook ::= Z.div_mod_to_equations.

(* ---------- what an epoch transition may do to a validator ---------- *)
Definition vkeepA (E : Env) (ce : N) (v v' : Validator) : Prop :=
  v_pubkey v' = v_pubkey v /\
  (v_activation_epoch v' = v_activation_epoch v \/
   (v_activation_epoch v = FAR_FUTURE_EPOCH /\ compute_activation_exit_epoch E ce <= v_activation_epoch v')) /\
  (v_exit_epoch v' = v_exit_epoch v \/
   (v_exit_epoch v = FAR_FUTURE_EPOCH /\ compute_activation_exit_epoch E ce <= v_exit_epoch v')).
Lemma vkeepA_refl E ce v : vkeepA E ce v v.
Proof. unfold vkeepA. tauto. Qed.
Lemma vkeepA_trans E ce a b c : vkeepA E ce a b -> vkeepA E ce b c -> vkeepA E ce a c.
Proof.
  unfold vkeepA. intros (H1 & H2 & H3) (H4 & H5 & H6). split; [congruence|]. split.
  - destruct H2 as [H2|[H2 H2']], H5 as [H5|[H5 H5']].
    + left. congruence.
    + right. split; [congruence|assumption].
    + right. split; [assumption|]. rewrite H5. assumption.
    + right. split; assumption.
  - destruct H3 as [H3|[H3 H3']], H6 as [H6|[H6 H6']].
    + left. congruence.
    + right. split; [congruence|assumption].
    + right. split; [assumption|]. rewrite H6. assumption.
    + right. split; assumption.
Qed.
Lemma vkeep_vkeepA E ce v v' : vkeep E ce v v' -> vkeepA E ce v v'.
Proof. intros (H1 & _ & _ & H4 & H5). split; [assumption|]. split; [left; assumption|assumption]. Qed.
Lemma vkeepA_active E ce v v' e : 1 <= MAX_SEED_LOOKAHEAD (cfg E) -> e <= ce + 1 -> e < FAR_FUTURE_EPOCH ->
  vkeepA E ce v v' -> is_active_validator v' e = is_active_validator v e.
Proof.
  intros W He Hf (_ & Ha & Hx). unfold is_active_validator. unfold compute_activation_exit_epoch in *. f_equal.
  - destruct Ha as [->|[Ha Ha']]; [reflexivity|]. rewrite Ha. lia.
  - destruct Hx as [->|[Hx Hx']]; [reflexivity|]. rewrite Hx. lia.
Qed.

(* updating position i of the *current* list by g keeps a relation to the *original* list *)
Lemma Forall2_upd_nat_rel {A} (R : A -> A -> Prop) (g : A -> A) vs0 vs : Forall2 R vs0 vs ->
  forall n, (forall v0 v, nth_error vs0 n = Some v0 -> nth_error vs n = Some v -> R v0 v -> R v0 (g v)) ->
  Forall2 R vs0 (upd_nat vs n g).
Proof.
  induction 1 as [|p q vs0 vs Hpq F IH]; intros [|n] H; cbn [upd_nat]; try constructor.
  - apply H; [reflexivity|reflexivity|assumption].
  - exact F.
  - exact Hpq.
  - apply IH. intros v0 v H1 H2. apply H; assumption.
Qed.
Lemma Forall2_updN_rel {A} (R : A -> A -> Prop) (g : A -> A) vs0 vs i : Forall2 R vs0 vs ->
  (forall v0 v, nthN vs0 i = Some v0 -> nthN vs i = Some v -> R v0 v -> R v0 (g v)) ->
  Forall2 R vs0 (updN vs i g).
Proof.
  intros F H. unfold updN. destruct (N.ltb_spec i (N.of_nat (length vs))); [|exact F].
  apply Forall2_upd_nat_rel; [exact F|]. intros v0 v H1 H2. apply H; apply lf_nth_error_nthN; assumption.
Qed.

(* ---------- the epoch frame ---------- *)
Record epoch_frame (E : Env) (st st' : BeaconState) : Prop := mkEpochFrame {
  ef_base : base_frame st st';
  ef_vals : Forall2 (vkeepA E (get_current_epoch E st)) (validators st) (validators st');
  ef_mixes : forall j, j <> (get_current_epoch E st + 1) mod EPOCHS_PER_HISTORICAL_VECTOR (cfg E) ->
               nthN (randao_mixes st') j = nthN (randao_mixes st) j
}.
Lemma ef_refl E st : epoch_frame E st st.
Proof. constructor; [apply bf_refl|apply lf_Forall2_refl, vkeepA_refl|reflexivity]. Qed.
Lemma ef_epoch E a b : epoch_frame E a b -> get_current_epoch E b = get_current_epoch E a.
Proof. intros [[Hs _] _ _]. unfold get_current_epoch. now rewrite Hs. Qed.
Lemma ef_trans E a b c : epoch_frame E a b -> epoch_frame E b c -> epoch_frame E a c.
Proof.
  intros Hab Hbc. pose proof (ef_epoch E a b Hab) as He.
  destruct Hab as [A1 A2 A3], Hbc as [B1 B2 B3]. rewrite He in *. constructor.
  - eapply bf_trans; eassumption.
  - eapply lf_Forall2_trans; [apply vkeepA_trans|eassumption|eassumption].
  - intros j Hj. rewrite B3, A3 by assumption. reflexivity.
Qed.
Lemma ef_step E a b c : epoch_frame E b c -> epoch_frame E a b -> epoch_frame E a c.
Proof. intros H1 H2. exact (ef_trans E a b c H2 H1). Qed.
Lemma ef_set_validators_updN E st i g :
  (forall v, vkeepA E (get_current_epoch E st) v (g v)) ->
  epoch_frame E st (st <| validators := updN (validators st) i g |>).
Proof.
  intros H. constructor; [bf_set_tac| |intros; reflexivity].
  cbn [set validators]. apply lf_Forall2_updN; [apply vkeepA_refl|]. intros v _. apply H.
Qed.

Ltac vkeepA_tac := intros; unfold vkeepA; cbn [set v_pubkey v_activation_epoch v_exit_epoch];
  repeat split; left; reflexivity.
Lemma ef_same E t t' : slot t' = slot t -> genesis_time t' = genesis_time t ->
  genesis_validators_root t' = genesis_validators_root t -> validators t' = validators t ->
  randao_mixes t' = randao_mixes t -> epoch_frame E t t'.
Proof.
  intros H1 H2 H3 H4 H5. constructor; [repeat split; assumption|rewrite H4; apply lf_Forall2_refl, vkeepA_refl|].
  intros j _. now rewrite H5.
Qed.
Ltac ef_set_tac :=
  first [ apply ef_same; reflexivity
        | apply ef_set_validators_updN; vkeepA_tac ].
Create HintDb ef discriminated.
#[export] Hint Resolve ef_refl : ef.
#[export] Hint Extern 2 (epoch_frame _ _ (set _ _ ?t)) => (apply (ef_step _ _ t); [ef_set_tac|]) : ef.
#[export] Hint Extern 3 (epoch_frame _ _ (if ?c then _ else _)) => destruct c : ef.
#[export] Hint Extern 4 (epoch_frame _ _ (match ?x with _ => _ end)) => destruct x : ef.
Ltac ef := eauto 400 with ef nocore.
Ltac ef_opt F := intros; match goal with H : _ = Some _ |- _ => unfold F in H; cbv beta zeta in H end; inv_all; ef.
Ltac ef_fun F := intros; unfold F; cbv beta zeta; ef.

Lemma ef_increase_balance E s st i d : epoch_frame E s st -> epoch_frame E s (increase_balance st i d).
Proof. ef_fun increase_balance. Qed.
Lemma ef_decrease_balance E s st i d : epoch_frame E s st -> epoch_frame E s (decrease_balance st i d).
Proof. ef_fun decrease_balance. Qed.
#[export] Hint Resolve ef_increase_balance ef_decrease_balance : ef.
Lemma ef_initiate_validator_exit E s st i st' :
  initiate_validator_exit E st i = Some st' -> epoch_frame E s st -> epoch_frame E s st'.
Proof.
  intros H Hs. unfold initiate_validator_exit in H. cbv beta zeta in H. inv_step H.
  destruct (v_exit_epoch v =? FAR_FUTURE_EPOCH) eqn:Hfar; cbn [negb] in H; inv_all; [|assumption].
  apply (ef_step E s st); [|assumption].
  constructor; [bf_set_tac| |intros; reflexivity]. cbn [set validators].
  apply lf_Forall2_updN; [apply vkeepA_refl|].
  intros v0 Hv0. assert (v0 = v) by congruence. subst v0.
  unfold vkeepA. cbn [set v_pubkey v_activation_epoch v_exit_epoch].
  split; [reflexivity|]. split; [left; reflexivity|]. right. split; [lia|].
  match goal with |- _ <= (if _ then ?q + 1 else ?q) => assert (compute_activation_exit_epoch E (get_current_epoch E st) <= q) by apply maxl_ge_d end.
  destruct (_ <=? _); lia.
Qed.
#[export] Hint Resolve ef_initiate_validator_exit : ef.

Lemma ef_weigh E s st a b c st' :
  weigh_justification_and_finalization E st a b c = Some st' -> epoch_frame E s st -> epoch_frame E s st'.
Proof. ef_opt weigh_justification_and_finalization. Qed.
#[export] Hint Resolve ef_weigh : ef.
Lemma ef_process_justification_and_finalization E f s st st' :
  process_justification_and_finalization E f st = Some st' -> epoch_frame E s st -> epoch_frame E s st'.
Proof. ef_opt process_justification_and_finalization. Qed.
Lemma ef_process_inactivity_updates E s st st' :
  process_inactivity_updates E st = Some st' -> epoch_frame E s st -> epoch_frame E s st'.
Proof. ef_opt process_inactivity_updates. Qed.
Lemma ef_apply_deltas E s st d : epoch_frame E s st -> epoch_frame E s (apply_deltas st d).
Proof. ef_fun apply_deltas. Qed.
#[export] Hint Resolve ef_process_justification_and_finalization ef_process_inactivity_updates ef_apply_deltas : ef.
Lemma ef_process_rewards_and_penalties E f s st st' :
  process_rewards_and_penalties E f st = Some st' -> epoch_frame E s st -> epoch_frame E s st'.
Proof. ef_opt process_rewards_and_penalties. Qed.
#[export] Hint Resolve ef_process_rewards_and_penalties : ef.

(* ---------- registry updates ---------- *)
Lemma fold_inv_in {X A} (P : X -> Prop) (fn : X -> A -> X) l :
  (forall x a, In a l -> P x -> P (fn x a)) -> forall x, P x -> P (fold_left fn l x).
Proof.
  induction l as [|a l IH]; intros H x Hx; cbn [fold_left]; [exact Hx|].
  apply IH; [intros y b Hb; apply H; right; exact Hb|]. apply H; [left; reflexivity|exact Hx].
Qed.
Lemma in_insert_by key i l x : In x (insert_by key i l) -> x = (key, i) \/ In x l.
Proof.
  induction l as [|[k j] l IH]; cbn [insert_by]; intros H.
  - destruct H as [<-|[]]. left. reflexivity.
  - destruct (_ || _).
    + destruct H as [<-|H]; [left; reflexivity|right; exact H].
    + destruct H as [<-|H]; [right; left; reflexivity|]. destruct (IH H) as [->|H']; [left; reflexivity|right; right; exact H'].
Qed.
Lemma in_activation_queue (P : Validator -> bool) l : forall k i,
  In (k, i) (fold_right (fun (iv : N * Validator) acc =>
               let '(i, v) := iv in if P v then insert_by (v_activation_eligibility_epoch v, i) i acc else acc) [] l) ->
  exists v, In (i, v) l /\ P v = true.
Proof.
  induction l as [|[j v] l IH]; intros k i H; cbn [fold_right] in H; [destruct H|].
  destruct (P v) eqn:HP.
  - apply in_insert_by in H. destruct H as [H|H].
    + injection H as _ ->. exists v. split; [left; reflexivity|exact HP].
    + destruct (IH k i H) as (w & Hw & HPw). exists w. split; [right; exact Hw|exact HPw].
  - destruct (IH k i H) as (w & Hw & HPw). exists w. split; [right; exact Hw|exact HPw].
Qed.
Lemma in_combine_seqN {A} (vs : list A) : forall s i v, In (i, v) (combine (seqN s (length vs)) vs) ->
  s <= i /\ nth_error vs (N.to_nat (i - s)) = Some v.
Proof.
  induction vs as [|x vs IH]; intros s i v H; cbn [length seqN combine] in H; [destruct H|].
  destruct H as [H|H].
  - injection H as -> ->. split; [lia|]. now rewrite N.sub_diag.
  - apply IH in H. destruct H as [H1 H2]. split; [lia|].
    replace (N.to_nat (i - s)) with (S (N.to_nat (i - (s + 1)))) by lia. exact H2.
Qed.
Lemma in_indexed_nthN {A} (vs : list A) i v : In (i, v) (combine (indices vs) vs) -> nthN vs i = Some v.
Proof.
  intros H. apply in_combine_seqN in H. destruct H as [_ H]. rewrite N.sub_0_r in H.
  apply lf_nth_error_nthN. exact H.
Qed.
Lemma in_firstn {A} (x : A) n l : In x (firstn n l) -> In x l.
Proof.
  revert l. induction n as [|n IH]; intros [|y l] H; cbn [firstn] in H; try (destruct H; fail).
  destruct H as [<-|H]; [left; reflexivity|right; auto].
Qed.

Lemma ef_process_registry_updates E f s st st' :
  process_registry_updates E f st = Some st' -> epoch_frame E s st -> epoch_frame E s st'.
Proof.
  intros H Hs. unfold process_registry_updates in H. cbv beta zeta in H.
  inv_step H. apply (fold_opt_pres (epoch_frame E) (ef_refl E) (ef_trans E)) in Hx.
  2: { intros x a x' Hf. inv_all; ef. }
  inv_step H. apply (ef_trans E s b); [apply (ef_trans E s st); assumption|].
  pose proof (ef_epoch E st b Hx) as Hce.
  match goal with |- epoch_frame E b (fold_left ?fn ?act b) =>
    assert (G : forall x, epoch_frame E b x -> epoch_frame E b (fold_left fn act x)) end.
  2: { apply G, ef_refl. }
  apply fold_inv_in. intros x i Hi Hbx.
  apply in_firstn in Hi. apply in_map_iff in Hi. destruct Hi as ([k j] & Hj & Hq). cbn [snd] in Hj. subst j.
  apply in_activation_queue in Hq. destruct Hq as (v & Hv & Hel). apply in_indexed_nthN in Hv.
  unfold is_eligible_for_activation in Hel. apply andb_true_iff in Hel. destruct Hel as [_ Hel]. apply N.eqb_eq in Hel.
  destruct Hbx as [B1 B2 B3]. constructor; [exact B1| |exact B3].
  cbn [set validators]. apply Forall2_updN_rel; [exact B2|].
  intros v0 vx Hv0 Hvx Hk. assert (v0 = v) by congruence. subst v0.
  destruct Hk as (K1 & K2 & K3). unfold vkeepA. cbn [set v_pubkey v_activation_epoch v_exit_epoch].
  split; [exact K1|]. split; [|exact K3]. right. split; [exact Hel|]. rewrite Hce. lia.
Qed.
#[export] Hint Resolve ef_process_registry_updates : ef.

Lemma ef_process_slashings E f s st : epoch_frame E s st -> epoch_frame E s (process_slashings E f st).
Proof.
  intros Hs. unfold process_slashings. cbv beta zeta. apply (ef_trans E s st); [assumption|].
  apply (fold_pres (epoch_frame E) (ef_refl E) (ef_trans E)). intros x [? ?]. ef.
Qed.
Lemma ef_process_eth1_data_reset E s st : epoch_frame E s st -> epoch_frame E s (process_eth1_data_reset E st).
Proof. ef_fun process_eth1_data_reset. Qed.
Lemma Forall2_map_combine {A B} (R : A -> A -> Prop) (h : A * B -> A) : forall (vs : list A) (bs : list B),
  length bs = length vs -> (forall v b, R v (h (v, b))) -> Forall2 R vs (map h (combine vs bs)).
Proof.
  induction vs as [|v vs IH]; intros [|b bs] L H; cbn in *; try discriminate; constructor; auto.
Qed.
Lemma ef_process_effective_balance_updates E f s st :
  lengths_inv f st -> epoch_frame E s st -> epoch_frame E s (process_effective_balance_updates E st).
Proof.
  intros [L _] Hs. unfold process_effective_balance_updates. cbv beta zeta. apply (ef_trans E s st); [assumption|].
  constructor; [bf_set_tac| |intros; reflexivity]. cbn [set validators].
  apply Forall2_map_combine; [exact L|]. intros v b.
  destruct (_ || _); [|apply vkeepA_refl]. unfold vkeepA. cbn [set v_pubkey v_activation_epoch v_exit_epoch].
  repeat split; left; reflexivity.
Qed.
Lemma ef_process_slashings_reset E s st : epoch_frame E s st -> epoch_frame E s (process_slashings_reset E st).
Proof. ef_fun process_slashings_reset. Qed.
Lemma ef_process_randao_mixes_reset E s st : epoch_frame E s st -> epoch_frame E s (process_randao_mixes_reset E st).
Proof.
  intros Hs. unfold process_randao_mixes_reset. cbv beta zeta. apply (ef_trans E s st); [assumption|].
  constructor; [bf_set_tac|exact (lf_Forall2_refl _ (vkeepA_refl _ _) _)|].
  intros j Hj. cbn [set randao_mixes]. apply lf_nthN_setN_other. congruence.
Qed.
Lemma ef_process_historical_update E f s st : epoch_frame E s st -> epoch_frame E s (process_historical_update E f st).
Proof. ef_fun process_historical_update. Qed.
Lemma ef_process_participation_record_updates E s st : epoch_frame E s st -> epoch_frame E s (process_participation_record_updates st).
Proof. ef_fun process_participation_record_updates. Qed.
Lemma ef_process_participation_flag_updates E s st : epoch_frame E s st -> epoch_frame E s (process_participation_flag_updates st).
Proof. ef_fun process_participation_flag_updates. Qed.
#[export] Hint Resolve ef_process_slashings ef_process_eth1_data_reset ef_process_effective_balance_updates
  ef_process_slashings_reset ef_process_randao_mixes_reset ef_process_historical_update
  ef_process_participation_record_updates ef_process_participation_flag_updates : ef.
Lemma ef_process_sync_committee_updates E s st st' :
  process_sync_committee_updates E st = Some st' -> epoch_frame E s st -> epoch_frame E s st'.
Proof. ef_opt process_sync_committee_updates. Qed.
#[export] Hint Resolve ef_process_sync_committee_updates : ef.

Theorem process_epoch_frame E f st st' : lengths_inv f st -> process_epoch E f st = Some st' -> epoch_frame E st st'.
Proof.
  intros L H. unfold process_epoch in H. cbv beta zeta in H.
  do 4 inv_step H.
  assert (L3 : lengths_inv f (process_eth1_data_reset E (process_slashings E f b2))).
  { apply li_process_eth1_data_reset, li_process_slashings.
    eapply li_process_registry_updates; [eassumption|]. eapply li_process_rewards_and_penalties; [eassumption|].
    destruct f; inv_all; try assumption;
      try (eapply li_process_inactivity_updates; [eassumption|]);
      eapply li_process_justification_and_finalization; eassumption. }
  assert (H2 : epoch_frame E st b2).
  { eapply ef_process_registry_updates; [eassumption|]. eapply ef_process_rewards_and_penalties; [eassumption|].
    destruct f; inv_all;
      try (eapply ef_process_inactivity_updates; [eassumption|]);
      (eapply ef_process_justification_and_finalization; [eassumption|apply ef_refl]). }
  assert (H3 : epoch_frame E st (process_historical_update E f (process_randao_mixes_reset E (process_slashings_reset E
                 (process_effective_balance_updates E (process_eth1_data_reset E (process_slashings E f b2))))))).
  { apply ef_process_historical_update, ef_process_randao_mixes_reset, ef_process_slashings_reset.
    apply (ef_process_effective_balance_updates E f); [exact L3|].
    apply ef_process_eth1_data_reset, ef_process_slashings. exact H2. }
  destruct f; inv_all; try (apply ef_process_participation_record_updates; exact H3);
    (eapply ef_process_sync_committee_updates; [eassumption|]; apply ef_process_participation_flag_updates; exact H3).
Qed.

(* ---------- the whole slot step (process_slot; process_epoch at a boundary; slot + 1; fork upgrades) ---------- *)
Definition vm_same (st st' : BeaconState) : Prop :=
  validators st' = validators st /\ randao_mixes st' = randao_mixes st.
Lemma vm_refl st : vm_same st st.
Proof. split; reflexivity. Qed.
Lemma vm_trans a b c : vm_same a b -> vm_same b c -> vm_same a c.
Proof. intros [H1 H2] [H3 H4]. split; congruence. Qed.
Lemma vm_process_slot E f st : vm_same st (process_slot E f st).
Proof. unfold process_slot. cbv beta zeta. destruct (bytes_eqb _ _); split; reflexivity. Qed.
Lemma vm_translate_participation E st l st' : translate_participation E st l = Some st' -> vm_same st st'.
Proof.
  intros H. unfold translate_participation in H.
  apply (fold_opt_pres vm_same vm_refl vm_trans) in H; [exact H|].
  intros x a x' Hf. inv_all. split; reflexivity.
Qed.
Lemma vm_upgrade_to E fn st st' : upgrade_to E fn st = Some st' -> vm_same st st'.
Proof.
  intros H. unfold upgrade_to in H. cbv beta zeta in H. destruct fn; inv_all; try (split; reflexivity).
  apply vm_translate_participation in Hx. destruct Hx as [H1 H2]. split; [exact H1|exact H2].
Qed.
Lemma vm_upgrade_maybe E fuel : forall f st f' st', upgrade_maybe E fuel f st = Some (f', st') -> vm_same st st'.
Proof.
  induction fuel as [|k IH]; intros f st f' st' H; cbn [upgrade_maybe] in H.
  - inv_all. apply vm_refl.
  - inv_all; try apply vm_refl. eapply vm_trans; [eapply vm_upgrade_to; eassumption|eapply IH; eassumption].
Qed.

Definition step_frame (E : Env) (ce : N) (st st' : BeaconState) : Prop :=
  Forall2 (vkeepA E ce) (validators st) (validators st') /\
  (forall j, j <> (ce + 1) mod EPOCHS_PER_HISTORICAL_VECTOR (cfg E) -> nthN (randao_mixes st') j = nthN (randao_mixes st) j).

Theorem slot_step_frame E f st f' st' : lengths_inv f st -> slot_step E f st = Some (f', st') ->
  step_frame E (get_current_epoch E st) st st'.
Proof.
  intros L H. unfold slot_step in H. cbv beta zeta in H. inv_step H.
  pose proof (vm_process_slot E f st) as [V1 M1].
  assert (Hb : step_frame E (get_current_epoch E st) st b).
  { destruct (_ =? 0) in Hx.
    - apply process_epoch_frame in Hx; [|apply li_process_slot; exact L].
      destruct Hx as [_ B2 B3].
      assert (Hce : get_current_epoch E (process_slot E f st) = get_current_epoch E st).
      { unfold get_current_epoch. now rewrite (proj1 (bf_process_slot E f st st (bf_refl st))). }
      rewrite Hce in *.
      rewrite V1 in B2. split; [exact B2|]. intros j Hj. rewrite B3 by exact Hj. now rewrite M1.
    - inv_all. split; [rewrite V1; apply lf_Forall2_refl, vkeepA_refl|]. intros j _. now rewrite M1. }
  apply vm_upgrade_maybe in H. destruct H as [V2 M2]. cbn [set validators randao_mixes] in V2, M2.
  destruct Hb as [B2 B3]. split; [rewrite V2; exact B2|]. intros j Hj. rewrite M2. apply B3. exact Hj.
Qed.

Lemma slot_step_epoch E f st f' st' : 0 < SLOTS_PER_EPOCH (cfg E) -> slot_step E f st = Some (f', st') ->
  get_current_epoch E st' =
  if (slot st + 1) mod SLOTS_PER_EPOCH (cfg E) =? 0 then get_current_epoch E st + 1 else get_current_epoch E st.
Proof.
  intros W H. apply slot_step_slot in H. destruct H as [Hs _]. unfold get_current_epoch, compute_epoch_at_slot. rewrite Hs.
  set (n := SLOTS_PER_EPOCH (cfg E)) in *. set (t := slot st) in *.
  assert (Hn : n <> 0) by lia.
  pose proof (N.div_mod (t + 1) n Hn) as D. pose proof (N.mod_upper_bound (t + 1) n Hn) as Hr.
  set (q := (t + 1) / n) in *. set (r := (t + 1) mod n) in *.
  destruct (N.eqb_spec r 0) as [Hm|Hm].
  - destruct (N.eq_0_gt_0_cases q) as [Hq|Hq]; [rewrite Hq in D; lia|].
    assert (Hq' : q = (q - 1) + 1) by lia. rewrite Hq'. f_equal.
    apply (N.div_unique t n (q - 1) (n - 1)); [lia|]. rewrite Hq' in D. lia.
  - apply (N.div_unique t n q (r - 1)); lia.
Qed.

(* active sets: every epoch up to current+1 *)
Theorem active_indices_step_stable E ce st st' x :
  Config_wf (cfg E) -> step_frame E ce st st' -> x <= ce + 1 -> ce + 1 < FAR_FUTURE_EPOCH ->
  get_active_validator_indices st' x = get_active_validator_indices st x.
Proof.
  intros W [B _] Hx Hf. rewrite !active_indices_act_from.
  rewrite <- (app_nil_r (validators st')). apply act_from_stable; [|constructor].
  eapply Forall2_weaken; [|exact B]. intros v v' Hk. eapply vkeepA_active; [apply W|exact Hx|lia|exact Hk].
Qed.
(* seeds: the current and the next epoch *)
Theorem get_seed_step_stable E ce st st' x dt :
  Config_wf (cfg E) -> step_frame E ce st st' -> ce <= x -> x <= ce + 1 ->
  get_seed E st' x dt = get_seed E st x dt.
Proof.
  intros W [_ B] H1 H2. unfold get_seed, get_randao_mix. rewrite B; [reflexivity|].
  pose proof (wf_min_seed_lookahead _ W). pose proof (wf_historical_vector _ W).
  set (V := EPOCHS_PER_HISTORICAL_VECTOR (cfg E)) in *. set (L := MIN_SEED_LOOKAHEAD (cfg E)) in *.
  intros Hc. set (y := x + V - L - 1) in *. set (d := ce + 1 + V - y).
  assert (Hd : 0 < d /\ d < V) by (unfold d, y; lia).
  apply (mod_shift_ne y d V); [lia|lia|].
  replace (y + d) with (ce + 1 + 1 * V) by (unfold d, y; lia).
  rewrite N.mod_add by lia. symmetry. exact Hc.
Qed.
Theorem beacon_committee_step_stable E ce st st' s i :
  Config_wf (cfg E) -> step_frame E ce st st' -> ce + 1 < FAR_FUTURE_EPOCH ->
  ce <= compute_epoch_at_slot E s -> compute_epoch_at_slot E s <= ce + 1 ->
  get_beacon_committee E st' s i = get_beacon_committee E st s i.
Proof.
  intros W B Hf H1 H2. unfold get_beacon_committee, get_committee_count_per_slot. cbv zeta.
  rewrite (active_indices_step_stable E ce st st') by assumption.
  rewrite (get_seed_step_stable E ce st st') by assumption. reflexivity.
Qed.
Theorem committees_of_epoch_step_stable E ce st st' x :
  Config_wf (cfg E) -> step_frame E ce st st' -> ce + 1 < FAR_FUTURE_EPOCH -> ce <= x -> x <= ce + 1 ->
  committees_of_epoch E st' x = committees_of_epoch E st x.
Proof.
  intros W B Hf H1 H2. unfold committees_of_epoch, get_committee_count_per_slot. cbv zeta.
  rewrite (active_indices_step_stable E ce st st') by assumption.
  apply map_ext_in. intros s Hs. apply lf_in_seqN in Hs. apply map_ext. intros i.
  rewrite (beacon_committee_step_stable E ce st st'); try assumption; try reflexivity;
    rewrite epoch_of_slot_in_epoch; try assumption; try apply W; lia.
Qed.

(* zrnt's RotateEpochs: after crossing from epoch e to e+1 the from-scratch previous/current shufflings are the
   old current/next ones *)
Theorem rotate_matches E f st f' st' :
  Config_wf (cfg E) -> lengths_inv f st -> get_current_epoch E st + 1 < FAR_FUTURE_EPOCH ->
  (slot st + 1) mod SLOTS_PER_EPOCH (cfg E) = 0 ->
  slot_step E f st = Some (f', st') ->
  let e := get_current_epoch E st in
  get_current_epoch E st' = e + 1 /\ get_previous_epoch E st' = e /\
  get_active_validator_indices st' e = get_active_validator_indices st e /\
  get_active_validator_indices st' (e + 1) = get_active_validator_indices st (e + 1) /\
  committees_of_epoch E st' e = committees_of_epoch E st e /\
  committees_of_epoch E st' (e + 1) = committees_of_epoch E st (e + 1) /\
  (forall s i, e <= compute_epoch_at_slot E s -> compute_epoch_at_slot E s <= e + 1 ->
     get_beacon_committee E st' s i = get_beacon_committee E st s i).
Proof.
  intros W L Hf Hb H e. pose proof (slot_step_frame E f st f' st' L H) as B. fold e in B.
  pose proof (slot_step_epoch E f st f' st' (wf_slots_per_epoch _ W) H) as He. rewrite Hb in He. cbn [N.eqb] in He. fold e in He.
  split; [exact He|]. split.
  { unfold get_previous_epoch. cbv zeta. rewrite He. unfold GENESIS_EPOCH. destruct (N.eqb_spec (e + 1) 0); lia. }
  split; [apply (active_indices_step_stable E e); try assumption; lia|].
  split; [apply (active_indices_step_stable E e); try assumption; lia|].
  split; [apply (committees_of_epoch_step_stable E e); try assumption; lia|].
  split; [apply (committees_of_epoch_step_stable E e); try assumption; lia|].
  intros s i H1 H2. apply (beacon_committee_step_stable E e); assumption.
Qed.
