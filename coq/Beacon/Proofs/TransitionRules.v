(* Decision rules read off state_transition / process_execution_payload / process_slot (Spec). *)
From Coq Require Import String.
From Coq Require Import NArith List Lia Bool.
From RecordUpdate Require Import RecordSet.
From V Require Import Ssz.SszCore Beacon.Config Beacon.Schemas Beacon.State Beacon.Spec.Helpers Beacon.Spec.Epoch
  Beacon.Spec.Block Beacon.Spec.Transition.
Import ListNotations RecordSetNotations.
Local Open Scope string_scope.
Local Open Scope list_scope.
Local Open Scope N_scope.

Section Rules.
  Variable E : Env.
  Let c := cfg E.

  (* ---- state_transition ---- *)
  Theorem state_transition_inv f st bf sb validate f' st' :
    state_transition E f st bf sb validate = Some (f', st') ->
    exists st1, process_slots E f st (vuint (vfield (vfield sb 0) 0)) = Some (f', st1)
             /\ fork_idx f' = fork_idx bf
             /\ (validate = true -> verify_block_signature E f' st1 sb = true)
             /\ process_block E f' st1 (vfield sb 0) = Some st'
             /\ (validate = true -> bytes_eqb (vbytes (vfield (vfield sb 0) 3)) (state_root E f' st') = true).
  Proof.
    unfold state_transition. intros H.
    destruct (process_slots E f st (vuint (vfield (vfield sb 0) 0))) as [[f1 st1]|] eqn:Hs; [|discriminate].
    destruct (fork_idx f1 =? fork_idx bf) eqn:Hf; [|discriminate].
    destruct (negb validate || verify_block_signature E f1 st1 sb) eqn:Hv; [|discriminate].
    destruct (process_block E f1 st1 (vfield sb 0)) as [st2|] eqn:Hb; [|discriminate].
    destruct (negb validate || bytes_eqb (vbytes (vfield (vfield sb 0) 3)) (state_root E f1 st2)) eqn:Hr; [|discriminate].
    injection H as <- <-. exists st1. repeat split; try assumption.
    - apply N.eqb_eq. exact Hf.
    - intros ->. exact Hv.
    - intros ->. exact Hr.
  Qed.

  Corollary state_root_declared f st bf sb f' st' :
    state_transition E f st bf sb true = Some (f', st') ->
    bytes_eqb (vbytes (vfield (vfield sb 0) 3)) (state_root E f' st') = true.
  Proof. intros H. destruct (state_transition_inv _ _ _ _ _ _ _ H) as [st1 [_ [_ [_ [_ Hr]]]]]. now apply Hr. Qed.

  Corollary bad_block_signature_rejected f st bf sb f1 st1 :
    process_slots E f st (vuint (vfield (vfield sb 0) 0)) = Some (f1, st1) ->
    verify_block_signature E f1 st1 sb = false ->
    state_transition E f st bf sb true = None.
  Proof.
    intros Hs Hv. destruct (state_transition E f st bf sb true) as [[f' st']|] eqn:H; [|reflexivity].
    destruct (state_transition_inv _ _ _ _ _ _ _ H) as [st2 [Hs' [_ [Hsig _]]]].
    rewrite Hs in Hs'. injection Hs' as <- <-. rewrite Hsig in Hv by reflexivity. discriminate.
  Qed.

  Corollary wrong_fork_block_rejected f st bf sb validate f1 st1 :
    process_slots E f st (vuint (vfield (vfield sb 0) 0)) = Some (f1, st1) ->
    fork_idx f1 <> fork_idx bf -> state_transition E f st bf sb validate = None.
  Proof.
    intros Hs Hf. destruct (state_transition E f st bf sb validate) as [[f' st']|] eqn:H; [|reflexivity].
    destruct (state_transition_inv _ _ _ _ _ _ _ H) as [st2 [Hs' [Hf' _]]].
    rewrite Hs in Hs'. injection Hs' as <- <-. contradiction.
  Qed.

  Theorem process_slots_past_rejected f st target : target <= slot st -> process_slots E f st target = None.
  Proof. intros H. unfold process_slots. destruct (N.ltb_spec (slot st) target); [lia|reflexivity]. Qed.

  (* the message the BLS oracle is asked about for the block signature *)
  Theorem block_signature_message f st sb :
    verify_block_signature E f st sb = true ->
    exists proposer, nthN (validators st) (vuint (vfield (vfield sb 0) 1)) = Some proposer /\
      bls_verify E (v_pubkey proposer)
        (compute_signing_root E (htr E (BeaconBlockT c f) (vfield sb 0))
           (compute_domain E DOMAIN_BEACON_PROPOSER
              (if get_current_epoch E st <? f_epoch (fork_rec st) then f_previous_version (fork_rec st) else f_current_version (fork_rec st))
              (genesis_validators_root st)))
        (vbytes (vfield sb 1)) = true.
  Proof.
    unfold verify_block_signature. destruct (nthN (validators st) (vuint (vfield (vfield sb 0) 1))) as [p|]; [|discriminate].
    intros H. exists p. split; [reflexivity|]. exact H.
  Qed.

  (* ---- execution payload: what the engine is shown, and that its refusal is a rejection ---- *)
  Theorem engine_shown_spec_request f st body st' :
    process_execution_payload E f st body = Some st' ->
    let payload := body_get E f body "execution_payload" in
    let commitments := if fork_ge f Deneb then map vbytes (vseq (body_get E f body "blob_kzg_commitments")) else [] in
    engine_accepts E payload (map (kzg_commitment_to_versioned_hash E) commitments) (h_parent_root (latest_block_header st)) = true
    /\ st' = st <| latest_execution_payload_header := payload_to_header E f payload |>.
  Proof.
    unfold process_execution_payload. intros H. cbv zeta in *.
    repeat match type of H with context [if ?b then _ else None] => destruct b eqn:?; [|discriminate] end.
    injection H as <-. split; [first [assumption|reflexivity]|reflexivity].
  Qed.

  Corollary engine_refusal_rejects f st body :
    (forall p vh r, engine_accepts E p vh r = false) -> process_execution_payload E f st body = None.
  Proof.
    intros Hno. destruct (process_execution_payload E f st body) as [st'|] eqn:H; [|reflexivity].
    apply engine_shown_spec_request in H. destruct H as [H _]. rewrite Hno in H. discriminate.
  Qed.

  (* ---- process_slot caches the previous state root and block root ---- *)
  Lemma nth_upd_nat {A} (l : list A) (i : nat) (g : A -> A) : (i < length l)%nat ->
    nth_error (upd_nat l i g) i = option_map g (nth_error l i).
  Proof.
    revert i; induction l as [|x l IH]; intros i Hi; simpl in Hi; [lia|].
    destruct i as [|i]; simpl; [reflexivity|]. apply IH. lia.
  Qed.
  Lemma nthN_setN {A} (l : list A) (i : N) (x : A) : i < N.of_nat (length l) -> nthN (setN l i x) i = Some x.
  Proof.
    intros Hi. unfold nthN, setN, updN.
    assert (Hlen : forall (l : list A) (k : nat) g, length (upd_nat l k g) = length l).
    { clear. induction l as [|y l IH]; intros k g; [reflexivity|]. destruct k; simpl; [reflexivity|]. now rewrite IH. }
    destruct (N.ltb_spec i (N.of_nat (length l))); [|lia].
    rewrite Hlen. destruct (N.ltb_spec i (N.of_nat (length l))); [|lia].
    rewrite nth_upd_nat by lia.
    destruct (nth_error l (N.to_nat i)) eqn:Hn; [reflexivity|]. apply nth_error_None in Hn. lia.
  Qed.
  Theorem process_slot_caches_state_root f st :
    slot st mod SLOTS_PER_HISTORICAL_ROOT c < N.of_nat (length (state_roots st)) ->
    nthN (state_roots (process_slot E f st)) (slot st mod SLOTS_PER_HISTORICAL_ROOT c) = Some (state_root E f st)
    /\ slot (process_slot E f st) = slot st.
  Proof.
    intros Hi. unfold process_slot. cbv zeta.
    destruct (bytes_eqb (h_state_root (latest_block_header _)) zero32); cbn; (split; [apply nthN_setN; exact Hi|reflexivity]).
  Qed.
End Rules.
