(* C08: list facts about the Spec's list utilities (updN/setN/nthN/seqN/indices) used by the frame and
   stability proofs. *)
From Coq Require Import NArith List Bool Lia.
From Coq Require Import ZifyN ZifyNat ZifyBool.
From V Require Import Ssz.SszCore Beacon.Config Beacon.State Beacon.Spec.Helpers.
Import ListNotations.
Local Open Scope N_scope.

Lemma lf_upd_nat_length {A} (g : A -> A) : forall (l : list A) i, length (upd_nat l i g) = length l.
Proof. induction l as [|x l IH]; intros [|i]; simpl; try reflexivity. now rewrite IH. Qed.
Lemma lf_updN_length {A} (l : list A) i (g : A -> A) : length (updN l i g) = length l.
Proof. unfold updN. destruct (i <? N.of_nat (length l)); [apply lf_upd_nat_length|reflexivity]. Qed.
Lemma lf_setN_length {A} (l : list A) i (x : A) : length (setN l i x) = length l.
Proof. apply lf_updN_length. Qed.

Lemma lf_upd_nat_nth_same {A} (g : A -> A) : forall (l : list A) i, nth_error (upd_nat l i g) i = option_map g (nth_error l i).
Proof. induction l as [|x l IH]; intros [|i]; simpl; try reflexivity. apply IH. Qed.
Lemma lf_upd_nat_nth_other {A} (g : A -> A) : forall (l : list A) i j, i <> j -> nth_error (upd_nat l i g) j = nth_error l j.
Proof.
  induction l as [|x l IH]; intros [|i] [|j] H; simpl; try reflexivity; try congruence.
  apply IH. congruence.
Qed.
Lemma lf_nthN_updN_same {A} (l : list A) i g : nthN (updN l i g) i = option_map g (nthN l i).
Proof.
  unfold nthN. rewrite lf_updN_length. unfold updN.
  destruct (i <? N.of_nat (length l)); [apply lf_upd_nat_nth_same|reflexivity].
Qed.
Lemma lf_nthN_updN_other {A} (l : list A) i j g : i <> j -> nthN (updN l i g) j = nthN l j.
Proof.
  intros H. unfold nthN. rewrite lf_updN_length. unfold updN.
  destruct (i <? N.of_nat (length l)); [|reflexivity].
  destruct (j <? N.of_nat (length l)); [|reflexivity]. apply lf_upd_nat_nth_other. lia.
Qed.
Lemma lf_nthN_setN_other {A} (l : list A) i j x : i <> j -> nthN (setN l i x) j = nthN l j.
Proof. apply lf_nthN_updN_other. Qed.

Lemma lf_nthN_Some_lt {A} (l : list A) i x : nthN l i = Some x -> i < N.of_nat (length l).
Proof. unfold nthN. destruct (N.ltb_spec i (N.of_nat (length l))); [auto|discriminate]. Qed.
Lemma lf_nthN_nth_error {A} (l : list A) i x : nthN l i = Some x -> nth_error l (N.to_nat i) = Some x.
Proof. unfold nthN. destruct (i <? N.of_nat (length l)); [auto|discriminate]. Qed.
Lemma lf_nth_error_nthN {A} (l : list A) i x : nth_error l (N.to_nat i) = Some x -> nthN l i = Some x.
Proof.
  intros H. unfold nthN. destruct (N.ltb_spec i (N.of_nat (length l))); [exact H|].
  assert (nth_error l (N.to_nat i) <> None) by congruence. apply nth_error_Some in H1. lia.
Qed.
Lemma lf_nthN_lt_Some {A} (l : list A) i : i < N.of_nat (length l) -> exists x, nthN l i = Some x.
Proof.
  intros H. destruct (nth_error l (N.to_nat i)) as [x|] eqn:Hx.
  - exists x. now apply lf_nth_error_nthN.
  - apply nth_error_None in Hx. lia.
Qed.
Lemma lf_nthN_In {A} (l : list A) i x : nthN l i = Some x -> In x l.
Proof. intros H. apply lf_nthN_nth_error in H. eapply nth_error_In; eassumption. Qed.
Lemma lf_nthN_app_l {A} (l l' : list A) i : i < N.of_nat (length l) -> nthN (l ++ l') i = nthN l i.
Proof.
  intros H. unfold nthN. rewrite app_length.
  destruct (N.ltb_spec i (N.of_nat (length l))); [|lia].
  destruct (N.ltb_spec i (N.of_nat (length l + length l'))); [|lia]. apply nth_error_app1. lia.
Qed.

(* pointwise relation between a list and its single-position update *)
Lemma lf_Forall2_refl {A} (R : A -> A -> Prop) : (forall x, R x x) -> forall l, Forall2 R l l.
Proof. intros Hr. induction l; constructor; auto. Qed.
Lemma lf_Forall2_upd_nat {A} (R : A -> A -> Prop) (g : A -> A) :
  (forall x, R x x) -> forall (l : list A) i, (forall x, nth_error l i = Some x -> R x (g x)) -> Forall2 R l (upd_nat l i g).
Proof.
  intros Hr. induction l as [|x l IH]; intros [|i] H; simpl; try constructor.
  - apply H. reflexivity.
  - clear - Hr. induction l; constructor; auto.
  - apply Hr.
  - apply IH. exact H.
Qed.
Lemma lf_Forall2_updN {A} (R : A -> A -> Prop) (g : A -> A) (l : list A) i :
  (forall x, R x x) -> (forall x, nthN l i = Some x -> R x (g x)) -> Forall2 R l (updN l i g).
Proof.
  intros Hr H. unfold updN. destruct (N.ltb_spec i (N.of_nat (length l))); [|apply lf_Forall2_refl; exact Hr].
  apply lf_Forall2_upd_nat; [assumption|]. intros x Hx. apply H. now apply lf_nth_error_nthN.
Qed.
Lemma lf_Forall2_trans {A} (R : A -> A -> Prop) : (forall x y z, R x y -> R y z -> R x z) ->
  forall a b c, Forall2 R a b -> Forall2 R b c -> Forall2 R a c.
Proof.
  intros Ht a b c H. revert c. induction H; intros c Hc; inversion Hc; subst; constructor; eauto.
Qed.
Lemma lf_Forall2_length {A B} (R : A -> B -> Prop) a b : Forall2 R a b -> length a = length b.
Proof. induction 1; simpl; congruence. Qed.

Lemma lf_seqN_length s len : length (seqN s len) = len.
Proof. revert s; induction len as [|k IH]; intros s; simpl; [reflexivity|]. now rewrite IH. Qed.
Lemma lf_in_seqN x s len : In x (seqN s len) <-> s <= x < s + N.of_nat len.
Proof.
  revert s; induction len as [|k IH]; intros s; simpl.
  - split; [tauto|lia].
  - rewrite IH. split; [intros [->|H]; lia|intros H]. destruct (N.eq_dec s x); [now left|right; lia].
Qed.
Lemma lf_seqN_app s a b : seqN s (a + b) = seqN s a ++ seqN (s + N.of_nat a) b.
Proof.
  revert s; induction a as [|a IH]; intros s; simpl.
  - f_equal. lia.
  - f_equal. rewrite IH. f_equal. f_equal. lia.
Qed.

Lemma lf_all_some_ext {A B} (f g : A -> option B) (l : list A) :
  (forall x, In x l -> f x = g x) -> all_some (map f l) = all_some (map g l).
Proof.
  induction l as [|x l IH]; intros H; simpl; [reflexivity|].
  rewrite (H x (or_introl eq_refl)). rewrite IH; [reflexivity|]. intros y Hy. apply H. now right.
Qed.
