(* C07: within an epoch the spec's committees partition the active validator set, given that the
   per-index shuffle is a permutation of the index range (that is property C06). *)
From Coq Require Import NArith ZArith List Lia Permutation Bool.
From Coq Require Import ZifyN ZifyNat ZifyBool.
From V Require Import Ssz.SszCore Beacon.Config Beacon.Spec.Helpers Beacon.Proofs.CommitteeSlices.
Import ListNotations.
Local Open Scope N_scope.

Lemma all_some_map_Some {A B} (f : A -> B) (l : list A) : all_some (map (fun x => Some (f x)) l) = Some (map f l).
Proof. induction l as [|x l IH]; simpl; [reflexivity|]. now rewrite IH. Qed.
Lemma all_some_ext {A B} (f g : A -> option B) (l : list A) :
  (forall x, In x l -> f x = g x) -> all_some (map f l) = all_some (map g l).
Proof.
  induction l as [|x l IH]; intros H; simpl; [reflexivity|].
  rewrite (H x (or_introl eq_refl)). rewrite IH; [reflexivity|]. intros y Hy. apply H. now right.
Qed.
Lemma in_seqN x s len : In x (seqN s len) <-> s <= x < s + N.of_nat len.
Proof.
  revert s; induction len as [|k IH]; intros s; simpl.
  - split; [tauto|lia].
  - rewrite IH. split; [intros [->|H]; lia|intros H]. destruct (N.eq_dec s x); [now left|right; lia].
Qed.
Lemma nthN_nth {A} (l : list A) (i : N) (d : A) : i < N.of_nat (length l) -> nthN l i = Some (nth (N.to_nat i) l d).
Proof. intros H. unfold nthN. destruct (N.ltb_spec i (N.of_nat (length l))); [|lia]. apply nth_error_nth'. lia. Qed.
Lemma map_nth_seqN {A} (l : list A) (d : A) : map (fun i => nth (N.to_nat i) l d) (seqN 0 (length l)) = l.
Proof.
  assert (G : forall (l : list A) s, map (fun i => nth (N.to_nat (i - s)) l d) (seqN s (length l)) = l).
  { clear l. induction l as [|x l IH]; intros s; simpl; [reflexivity|].
    rewrite N.sub_diag. simpl. f_equal.
    rewrite <- (IH (s + 1)) at 2. apply map_ext_in. intros i Hi. apply in_seqN in Hi.
    replace (N.to_nat (i - s)) with (S (N.to_nat (i - (s + 1)))) by lia. reflexivity. }
  rewrite <- (G l 0) at 2. apply map_ext. intros i. now rewrite N.sub_0_r.
Qed.

Section Committees.
  Variable E : Env.
  Let c := cfg E.
  Variable idx : list N.            (* the active validator indices of the epoch *)
  Variable seed : bytes.
  Let n := N.of_nat (length idx).
  Definition sigma (i : N) : N := shuffle_rounds E (N.to_nat (SHUFFLE_ROUND_COUNT c)) 0 i n seed.
  (* C06: the per-index shuffle maps the range into itself ... *)
  Hypothesis sigma_range : forall i, i < n -> sigma i < n.

  Lemma compute_committee_eq index count : 0 < count -> index < count ->
    compute_committee E idx seed index count =
    Some (map (fun i => nth (N.to_nat (sigma i)) idx 0)
              (seqN (slice_start n count index) (N.to_nat (slice_start n count (index + 1) - slice_start n count index)))).
  Proof.
    intros Hc Hi. unfold compute_committee. fold n. fold (slice_start n count index). fold (slice_start n count (index + 1)).
    rewrite <- all_some_map_Some. apply all_some_ext. intros i Hin. apply in_seqN in Hin.
    assert (Hle : slice_start n count (index + 1) <= n).
    { rewrite <- (slice_end n count Hc) at 2. unfold slice_start. apply N.div_le_mono; [lia|apply N.mul_le_mono_l; lia]. }
    pose proof (slice_mono n count index Hc) as Hm.
    assert (Hlt : i < n) by lia.
    unfold compute_shuffled_index. destruct (N.ltb_spec i n); [|lia].
    fold c. fold (sigma i). apply nthN_nth. fold n. apply sigma_range. exact Hlt.
  Qed.

  (* every validator position is covered exactly once, in slice order *)
  Theorem committees_concat count : 0 < count ->
    exists comms, all_some (map (fun k => compute_committee E idx seed k count) (seqN 0 (N.to_nat count))) = Some comms /\
                  concat comms = map (fun i => nth (N.to_nat (sigma i)) idx 0) (seqN 0 (length idx)).
  Proof.
    intros Hc.
    exists (map (fun k => map (fun i => nth (N.to_nat (sigma i)) idx 0)
                   (seqN (slice_start n count k) (N.to_nat (slice_start n count (k + 1) - slice_start n count k))))
                (seqN 0 (N.to_nat count))).
    split.
    - rewrite <- all_some_map_Some. apply all_some_ext. intros k Hk. apply in_seqN in Hk.
      apply compute_committee_eq; lia.
    - rewrite <- (map_map (fun k => seqN (slice_start n count k) (N.to_nat (slice_start n count (k + 1) - slice_start n count k)))
                          (map (fun i => nth (N.to_nat (sigma i)) idx 0))).
      rewrite <- concat_map. rewrite committee_slices_partition by exact Hc.
      unfold n. now rewrite Nnat.Nat2N.id.
  Qed.

  (* ... and is a permutation of it; then the committees hold every active validator exactly once *)
  Hypothesis sigma_perm : Permutation (map sigma (seqN 0 (length idx))) (seqN 0 (length idx)).
  Theorem committees_partition count : 0 < count ->
    exists comms, all_some (map (fun k => compute_committee E idx seed k count) (seqN 0 (N.to_nat count))) = Some comms /\
                  Permutation (concat comms) idx.
  Proof.
    intros Hc. destruct (committees_concat count Hc) as [comms [H1 H2]]. exists comms. split; [exact H1|].
    rewrite H2. rewrite <- (map_map sigma (fun j => nth (N.to_nat j) idx 0)).
    rewrite <- (map_nth_seqN idx 0) at 2. apply Permutation_map. exact sigma_perm.
  Qed.
End Committees.
