(* C08: the look-ahead design fact that licenses zrnt's per-epoch caching.  Within an epoch no block can change
   the active sets / committees of the previous, current and next epoch, the proposers of the current epoch,
   the effective balances of existing validators, the total active stake, or the sync committees. *)
From Coq Require Import String NArith ZArith List Bool Lia.
From Coq Require Import ZifyN ZifyNat ZifyBool.
From RecordUpdate Require Import RecordSet.
From V Require Import Ssz.SszCore Beacon.Config Beacon.Schemas Beacon.State
  Beacon.Spec.Helpers Beacon.Spec.Epoch Beacon.Spec.Block Beacon.Spec.Transition Beacon.Run
  Beacon.Proofs.ListFacts Beacon.Proofs.Frame Beacon.Proofs.Stability.
Import ListNotations RecordSetNotations.
Local Open Scope N_scope.
Ltac Zify.zify_post_hook ::= Z.div_mod_to_equations.

(* ---------- configuration hypotheses ---------- *)
Record Config_wf (c : Config) : Prop := mkConfigWf {
  wf_slots_per_epoch : 0 < SLOTS_PER_EPOCH c;
  wf_min_seed_lookahead : 1 <= MIN_SEED_LOOKAHEAD c;
  wf_max_seed_lookahead : 1 <= MAX_SEED_LOOKAHEAD c;
  (* the mix read for the seed of epoch current-1 must not be the slot of the vector that process_randao writes *)
  wf_historical_vector : MIN_SEED_LOOKAHEAD c + 2 < EPOCHS_PER_HISTORICAL_VECTOR c
}.
Example mainnet_wf c : SLOTS_PER_EPOCH c = 32 -> MIN_SEED_LOOKAHEAD c = 1 -> MAX_SEED_LOOKAHEAD c = 4 ->
  EPOCHS_PER_HISTORICAL_VECTOR c = 65536 -> Config_wf c.
Proof. intros H1 H2 H3 H4. constructor; rewrite ?H1, ?H2, ?H3, ?H4; lia. Qed.
Example minimal_wf c : SLOTS_PER_EPOCH c = 8 -> MIN_SEED_LOOKAHEAD c = 1 -> MAX_SEED_LOOKAHEAD c = 4 ->
  EPOCHS_PER_HISTORICAL_VECTOR c = 64 -> Config_wf c.
Proof. intros H1 H2 H3 H4. constructor; rewrite ?H1, ?H2, ?H3, ?H4; lia. Qed.

(* ---------- seeds ---------- *)
Lemma mod_shift_ne x d V : 0 < d -> d < V -> (x + d) mod V <> x mod V.
Proof.
  intros H1 H2 H.
  pose proof (N.div_mod x V ltac:(lia)) as Hx. pose proof (N.div_mod (x + d) V ltac:(lia)) as Hxd.
  rewrite H in Hxd. set (a := x / V) in *. set (b := (x + d) / V) in *. set (r := x mod V) in *.
  clearbody a b r. clear H.
  assert (Hab : b <= a \/ a + 1 <= b) by lia. destruct Hab as [Hab|Hab].
  - assert (V * b <= V * a) by (apply N.mul_le_mono_l; exact Hab). lia.
  - assert (V * (a + 1) <= V * b) by (apply N.mul_le_mono_l; exact Hab). lia.
Qed.
Lemma mix_index_ne V L ce e : 1 <= L -> L + 2 < V -> ce <= e + 1 -> e <= ce + 1 ->
  (e + V - L - 1) mod V <> ce mod V.
Proof.
  intros H1 H2 H3 H4 H.
  set (x := e + V - L - 1) in *. set (d := ce + V - x).
  assert (Hd : 0 < d /\ d < V) by (unfold d, x; lia).
  apply (mod_shift_ne x d V); [lia|lia|].
  replace (x + d) with (ce + 1 * V) by (unfold d, x; lia).
  rewrite N.mod_add by lia. symmetry. exact H.
Qed.

Theorem get_seed_block_stable E st st' e dt :
  Config_wf (cfg E) -> block_frame E st st' ->
  get_current_epoch E st <= e + 1 -> e <= get_current_epoch E st + 1 ->
  get_seed E st' e dt = get_seed E st e dt.
Proof.
  intros W B H1 H2. unfold get_seed, get_randao_mix.
  rewrite (bk_mixes E st st' B); [reflexivity|].
  apply mix_index_ne; try assumption; apply W.
Qed.

(* ---------- active validator indices ---------- *)
Definition act_from (s : N) (vs : list Validator) (e : N) : list N :=
  map fst (filter (fun iv => is_active_validator (snd iv) e) (combine (seqN s (length vs)) vs)).
Lemma active_indices_act_from st e : get_active_validator_indices st e = act_from 0 (validators st) e.
Proof. reflexivity. Qed.
Lemma act_from_cons s v vs e :
  act_from s (v :: vs) e = (if is_active_validator v e then [s] else []) ++ act_from (s + 1) vs e.
Proof. unfold act_from. cbn [length seqN combine filter snd]. destruct (is_active_validator v e); reflexivity. Qed.
Lemma act_from_inactive e new : Forall (fun v => is_active_validator v e = false) new -> forall s, act_from s new e = [].
Proof. induction 1 as [|v new Hv _ IH]; intros s; [reflexivity|]. rewrite act_from_cons, Hv, IH. reflexivity. Qed.
Lemma act_from_stable e vs old' new :
  Forall2 (fun v v' => is_active_validator v' e = is_active_validator v e) vs old' ->
  Forall (fun v => is_active_validator v e = false) new ->
  forall s, act_from s (old' ++ new) e = act_from s vs e.
Proof.
  intros F Hn. induction F as [|v v' vs old' Hv _ IH]; intros s.
  - apply act_from_inactive. exact Hn.
  - cbn [app]. rewrite !act_from_cons, Hv, IH. reflexivity.
Qed.
Lemma act_from_bound e vs : forall s i, In i (act_from s vs e) -> s <= i < s + N.of_nat (length vs).
Proof.
  induction vs as [|v vs IH]; intros s i H; [destruct H|].
  rewrite act_from_cons in H. apply in_app_or in H. destruct H as [H|H].
  - destruct (is_active_validator v e); [|destruct H]. destruct H as [<-|[]]. cbn [length]. lia.
  - apply IH in H. cbn [length]. lia.
Qed.
Lemma active_index_bound st e i : In i (get_active_validator_indices st e) -> i < N.of_nat (length (validators st)).
Proof. intros H. apply act_from_bound in H. lia. Qed.

Lemma vkeep_active E ce v v' e : 1 <= MAX_SEED_LOOKAHEAD (cfg E) -> e <= ce + 1 -> e < FAR_FUTURE_EPOCH ->
  vkeep E ce v v' -> is_active_validator v' e = is_active_validator v e.
Proof.
  intros W He Hf (_ & _ & _ & Ha & Hx). unfold is_active_validator. rewrite Ha. f_equal.
  destruct Hx as [->|[Hx Hx']]; [reflexivity|]. rewrite Hx. unfold compute_activation_exit_epoch in Hx'. lia.
Qed.
Lemma vnew_inactive v e : e < FAR_FUTURE_EPOCH -> vnew v -> is_active_validator v e = false.
Proof. intros Hf [_ Ha]. unfold is_active_validator. rewrite Ha. lia. Qed.

Lemma Forall2_weaken {A B} (R S : A -> B -> Prop) a b : (forall x y, R x y -> S x y) -> Forall2 R a b -> Forall2 S a b.
Proof. intros H F. induction F; constructor; auto. Qed.
Lemma vstable_active E ce vs vs' e : 1 <= MAX_SEED_LOOKAHEAD (cfg E) -> e <= ce + 1 -> e < FAR_FUTURE_EPOCH ->
  vstable E ce vs vs' -> forall s, act_from s vs' e = act_from s vs e.
Proof.
  intros W He Hf (old' & new & -> & F & Hn) s. apply act_from_stable.
  - eapply Forall2_weaken; [|exact F]. intros v v' Hk. eapply vkeep_active; eassumption.
  - eapply Forall_impl; [|exact Hn]. intros v Hv. apply vnew_inactive; assumption.
Qed.

Theorem active_indices_block_stable E st st' e :
  Config_wf (cfg E) -> block_frame E st st' ->
  e <= get_current_epoch E st + 1 -> get_current_epoch E st + 1 < FAR_FUTURE_EPOCH ->
  get_active_validator_indices st' e = get_active_validator_indices st e.
Proof.
  intros W B He Hf. rewrite !active_indices_act_from.
  eapply vstable_active; [apply W|exact He|lia|apply (bk_vals E st st' B)].
Qed.

(* ---------- committees ---------- *)
Theorem committee_count_block_stable E st st' e :
  Config_wf (cfg E) -> block_frame E st st' ->
  e <= get_current_epoch E st + 1 -> get_current_epoch E st + 1 < FAR_FUTURE_EPOCH ->
  get_committee_count_per_slot E st' e = get_committee_count_per_slot E st e.
Proof. intros W B He Hf. unfold get_committee_count_per_slot. now rewrite (active_indices_block_stable E st st' e). Qed.

Theorem beacon_committee_block_stable E st st' s i :
  Config_wf (cfg E) -> block_frame E st st' ->
  get_current_epoch E st <= compute_epoch_at_slot E s + 1 -> compute_epoch_at_slot E s <= get_current_epoch E st + 1 ->
  get_current_epoch E st + 1 < FAR_FUTURE_EPOCH ->
  get_beacon_committee E st' s i = get_beacon_committee E st s i.
Proof.
  intros W B H1 H2 Hf. unfold get_beacon_committee. cbv zeta.
  rewrite (committee_count_block_stable E st st') by assumption.
  rewrite (active_indices_block_stable E st st') by assumption.
  rewrite (get_seed_block_stable E st st') by assumption. reflexivity.
Qed.

(* ---------- effective balances ---------- *)
Lemma Forall2_nthN {A B} (R : A -> B -> Prop) a b : Forall2 R a b ->
  forall i x, nthN a i = Some x -> exists y, nthN b i = Some y /\ R x y.
Proof.
  intros F i x Hx. apply lf_nthN_nth_error in Hx.
  assert (G : forall n, nth_error a n = Some x -> exists y, nth_error b n = Some y /\ R x y).
  { clear i Hx. induction F as [|p q a b Hpq _ IH]; intros [|n] Hn; cbn in Hn; try discriminate.
    - injection Hn as ->. exists q. split; [reflexivity|assumption].
    - apply IH. exact Hn. }
  destruct (G _ Hx) as (y & Hy & Hr). exists y. split; [apply lf_nth_error_nthN; exact Hy|exact Hr].
Qed.
Lemma vstable_nthN E ce vs vs' i v : vstable E ce vs vs' -> nthN vs i = Some v ->
  exists v', nthN vs' i = Some v' /\ vkeep E ce v v'.
Proof.
  intros (old' & new & -> & F & _) Hv. destruct (Forall2_nthN _ _ _ F i v Hv) as (v' & Hv' & Hk).
  exists v'. split; [|exact Hk]. rewrite lf_nthN_app_l; [exact Hv'|]. eapply lf_nthN_Some_lt; eassumption.
Qed.
Lemma vstable_length E ce vs vs' : vstable E ce vs vs' -> (length vs <= length vs')%nat.
Proof. intros (old' & new & -> & F & _). rewrite app_length, (lf_Forall2_length _ _ _ F). lia. Qed.
Lemma vstable_eff_bal E st st' i : vstable E (get_current_epoch E st) (validators st) (validators st') ->
  i < N.of_nat (length (validators st)) -> eff_bal st' i = eff_bal st i.
Proof.
  intros S Hi. unfold eff_bal. destruct (lf_nthN_lt_Some _ _ Hi) as (v & Hv). rewrite Hv.
  destruct (vstable_nthN _ _ _ _ _ _ S Hv) as (v' & -> & Hk). apply Hk.
Qed.

Theorem effective_balances_block_stable E st st' : block_frame E st st' ->
  map v_effective_balance (validators st') =
  map v_effective_balance (validators st) ++ map v_effective_balance (skipn (length (validators st)) (validators st')).
Proof.
  intros B. destruct (bk_vals E st st' B) as (old' & new & -> & F & _).
  rewrite (lf_Forall2_length _ _ _ F). rewrite skipn_app, skipn_all, Nat.sub_diag. cbn [app skipn].
  rewrite map_app. f_equal. clear - F. induction F as [|v v' vs old' Hk _ IH]; [reflexivity|].
  cbn [map]. rewrite IH. f_equal. apply Hk.
Qed.

Lemma total_balance_ext E st st' idx : (forall i, In i idx -> eff_bal st' i = eff_bal st i) ->
  get_total_balance E st' idx = get_total_balance E st idx.
Proof. intros H. unfold get_total_balance. f_equal. f_equal. apply map_ext_in. exact H. Qed.

Theorem total_active_balance_block_stable E st st' :
  Config_wf (cfg E) -> block_frame E st st' -> get_current_epoch E st + 1 < FAR_FUTURE_EPOCH ->
  get_total_active_balance E st' = get_total_active_balance E st.
Proof.
  intros W B Hf. unfold get_total_active_balance. rewrite (bk_epoch E st st' B).
  rewrite (active_indices_block_stable E st st') by (try assumption; lia).
  apply total_balance_ext. intros i Hi. apply (vstable_eff_bal E); [apply (bk_vals E st st' B)|].
  eapply active_index_bound; eassumption.
Qed.

(* ---------- proposers ---------- *)
Lemma proposer_loop_ext E st st' idx seed : (forall i, In i idx -> eff_bal st' i = eff_bal st i) ->
  forall fuel i, proposer_loop E fuel st' idx seed i = proposer_loop E fuel st idx seed i.
Proof.
  intros H fuel. induction fuel as [|k IH]; intros i; [reflexivity|]. cbn [proposer_loop].
  destruct (compute_shuffled_index E _ _ seed) as [j|]; [|reflexivity].
  destruct (nthN idx j) as [cand|] eqn:Hc; [|reflexivity].
  rewrite (H cand) by (eapply lf_nthN_In; eassumption). rewrite IH. reflexivity.
Qed.
Lemma compute_proposer_index_ext E st st' idx seed : (forall i, In i idx -> eff_bal st' i = eff_bal st i) ->
  compute_proposer_index E st' idx seed = compute_proposer_index E st idx seed.
Proof. intros H. unfold compute_proposer_index. destruct (negb _); [|reflexivity]. apply proposer_loop_ext. exact H. Qed.

Theorem proposer_block_stable E st st' s :
  Config_wf (cfg E) -> block_frame E st st' -> get_current_epoch E st + 1 < FAR_FUTURE_EPOCH ->
  proposer_at E st' s = proposer_at E st s.
Proof.
  intros W B Hf. unfold proposer_at. cbv zeta. rewrite (bk_epoch E st st' B).
  rewrite (active_indices_block_stable E st st') by (try assumption; lia).
  rewrite (get_seed_block_stable E st st') by (try assumption; lia).
  apply compute_proposer_index_ext. intros i Hi. apply (vstable_eff_bal E); [apply (bk_vals E st st' B)|].
  eapply active_index_bound; eassumption.
Qed.
Lemma proposer_at_current E st : get_beacon_proposer_index E st = proposer_at E st (slot st).
Proof. reflexivity. Qed.

(* ---------- sync committees ---------- *)
Lemma find_pubkey_stable E ce pk vs old' new : Forall2 (vkeep E ce) vs old' ->
  forall s i, find_pubkey pk vs s = Some i -> find_pubkey pk (old' ++ new) s = Some i.
Proof.
  intros F. induction F as [|v v' vs old' Hk _ IH]; intros s i H; cbn [find_pubkey app] in *; [discriminate|].
  destruct Hk as (-> & _). destruct (bytes_eqb (v_pubkey v) pk); [exact H|]. apply IH. exact H.
Qed.
Lemma all_some_mono {A B} (g h : A -> option B) l : (forall x y, g x = Some y -> h x = Some y) ->
  forall r, all_some (map g l) = Some r -> all_some (map h l) = Some r.
Proof.
  intros H. induction l as [|x l IH]; intros r Hr; cbn [map all_some] in *; [exact Hr|].
  destruct (g x) as [y|] eqn:Hy; [|discriminate]. rewrite (H x y Hy).
  destruct (all_some (map g l)) as [r'|]; [|discriminate]. rewrite (IH r' eq_refl). exact Hr.
Qed.
Theorem sync_indices_block_stable E st st' sc l : block_frame E st st' ->
  sync_indices_of st sc = Some l -> sync_indices_of st' sc = Some l.
Proof.
  intros B. unfold sync_indices_of. apply all_some_mono. intros pk i Hi.
  destruct (bk_vals E st st' B) as (old' & new & -> & F & _). eapply find_pubkey_stable; eassumption.
Qed.

(* ---------- the whole view ---------- *)
Lemma epoch_of_slot_in_epoch E e s : 0 < SLOTS_PER_EPOCH (cfg E) -> s < SLOTS_PER_EPOCH (cfg E) ->
  compute_epoch_at_slot E (compute_start_slot_at_epoch E e + s) = e.
Proof.
  intros H0 Hs. unfold compute_epoch_at_slot, compute_start_slot_at_epoch.
  replace (e * SLOTS_PER_EPOCH (cfg E) + s) with (s + e * SLOTS_PER_EPOCH (cfg E)) by apply N.add_comm.
  rewrite N.div_add by (intros Hz; rewrite Hz in H0; discriminate H0). rewrite N.div_small by exact Hs. reflexivity.
Qed.
Theorem committees_of_epoch_block_stable E st st' e :
  Config_wf (cfg E) -> block_frame E st st' ->
  get_current_epoch E st <= e + 1 -> e <= get_current_epoch E st + 1 -> get_current_epoch E st + 1 < FAR_FUTURE_EPOCH ->
  committees_of_epoch E st' e = committees_of_epoch E st e.
Proof.
  intros W B H1 H2 Hf. unfold committees_of_epoch. cbv zeta.
  rewrite (committee_count_block_stable E st st') by assumption.
  apply map_ext_in. intros s Hs. apply lf_in_seqN in Hs. apply map_ext. intros i.
  rewrite (beacon_committee_block_stable E st st'); try assumption; try reflexivity;
    rewrite epoch_of_slot_in_epoch; try assumption; try apply W; lia.
Qed.

(* v' is v with effective balances appended for the validators the block added *)
Definition epc_view_extends (v v' : epc_view) (extra : list N) : Prop :=
  ev_current_epoch v' = ev_current_epoch v /\
  ev_active v' = ev_active v /\
  ev_committees v' = ev_committees v /\
  ev_proposers v' = ev_proposers v /\
  ev_effective_balances v' = ev_effective_balances v ++ extra /\
  ev_total_active_stake v' = ev_total_active_stake v /\
  (forall l, ev_sync_current v = Some l -> ev_sync_current v' = Some l) /\
  (forall l, ev_sync_next v = Some l -> ev_sync_next v' = Some l).

Lemma previous_epoch_window E st :
  get_current_epoch E st <= get_previous_epoch E st + 1 /\ get_previous_epoch E st <= get_current_epoch E st + 1.
Proof. unfold get_previous_epoch. cbv zeta. unfold GENESIS_EPOCH. destruct (N.eqb_spec (get_current_epoch E st) 0); lia. Qed.

Theorem epc_view_frame_stable E f st st' :
  Config_wf (cfg E) -> get_current_epoch E st + 1 < FAR_FUTURE_EPOCH -> block_frame E st st' ->
  epc_view_extends (spec_epc_view E f st) (spec_epc_view E f st')
                   (map v_effective_balance (skipn (length (validators st)) (validators st'))).
Proof.
  intros W Hf B. pose proof (bk_epoch E st st' B) as He. pose proof (previous_epoch_window E st) as [Hp1 Hp2].
  assert (Hpe : get_previous_epoch E st' = get_previous_epoch E st) by (unfold get_previous_epoch; now rewrite He).
  unfold epc_view_extends, spec_epc_view. cbv zeta.
  cbn [ev_current_epoch ev_active ev_committees ev_proposers ev_effective_balances ev_total_active_stake ev_sync_current ev_sync_next].
  rewrite He, Hpe. repeat split.
  - rewrite !(active_indices_block_stable E st st') by (try assumption; lia). reflexivity.
  - rewrite !(committees_of_epoch_block_stable E st st') by (try assumption; lia). reflexivity.
  - apply map_ext. intros s. apply proposer_block_stable; assumption.
  - apply (effective_balances_block_stable E). exact B.
  - apply total_active_balance_block_stable; assumption.
  - rewrite (bk_sync_cur E st st' B). destruct (fork_ge f Altair); [|discriminate].
    intros l. apply (sync_indices_block_stable E). exact B.
  - rewrite (bk_sync_next E st st' B). destruct (fork_ge f Altair); [|discriminate].
    intros l. apply (sync_indices_block_stable E). exact B.
Qed.

Theorem epc_view_block_stable E f st blk st' :
  Config_wf (cfg E) -> get_current_epoch E st + 1 < FAR_FUTURE_EPOCH ->
  process_block E f st blk = Some st' ->
  epc_view_extends (spec_epc_view E f st) (spec_epc_view E f st')
                   (map v_effective_balance (skipn (length (validators st)) (validators st'))).
Proof. intros W Hf H. apply epc_view_frame_stable; [assumption|assumption|]. eapply process_block_frame; eassumption. Qed.
